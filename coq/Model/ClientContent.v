(* M9 - client content handling: executable model (definitions only; proofs live in
   Proofs/ClientContent*.v).

   Decision logic over PARSED content (what mediacommon's fmp4.Init.Unmarshal,
   fmp4.Parts.Unmarshal and mpegts.Reader hand to the repo's code), not over bytes.

   Transcribed Go (names kept):
     client_primary_downloader.go   checkSupport (incl. av01. / vp09., fix 8f9d4a5), pickLeadingPlaylist, getRenditionsByGroup,
                                    clientPrimaryDownloader.run (variant / rendition handling,
                                    track collection, setTracks / OnTracks)
     client_stream_downloader.go    findSegmentWithInvPosition, findSegmentWithID,
                                    dateTimeOfPreloadHint, fillSegmentQueue (selection),
                                    run (Map / low-latency decision), runLowLatency (one round)
     pkg/codecs/fromto_*.go         FromFMP4, FromMPEGTS
     client_stream_processor_fmp4.go  fmp4PickLeadingTrack, findFirstPartTrackOfLeadingTrack,
                                    findTimeScaleOfLeadingTrack, run, processSegment,
                                    initializeTrackProcessors, leadingTimeConvFMP4
     client_track_processor_fmp4.go initialize (type switch WITHOUT default), process
     client_stream_processor_mpegts.go mpegtsPickLeadingTrack, initializeReader, processSegment,
                                    processSample closure, initializeTrackProcessors
     client_time_conv_fmp4.go / _mpegts.go   convert, setNTP, getNTP
     client_track.go                handleData
     muxer_segmenter.go             multiplyAndDivide(2), timestampToDuration

   int64 / time.Duration arithmetic wraps (wrap64); Go's / and % are Z.quot / Z.rem;
   integer division by zero is Panic PDivZero. [Panic] appears exactly where Go would
   dereference nil, call a nil func, index out of range, divide by zero or fail a type
   assertion without ok.

   Goroutines: the model runs the canonical schedule "leading stream first, each entry
   processed by its track processor as soon as it is pushed". Panics are local to single
   operations whose arguments are universally quantified in Proofs (op-level lemmas), so
   panic freedom does not depend on the schedule. *)
From Coq Require Import List ZArith Bool String.
Import ListNotations.
Local Open Scope Z_scope.

(* ---------- results ---------- *)
Inductive pkind :=
| PNilFunc      (* call of a nil func value *)
| PNilDeref     (* nil pointer / nil interface method call *)
| PIndex        (* index out of range *)
| PDivZero      (* integer divide by zero *)
| PTypeAssert.  (* x.(T) without ok on a different dynamic type *)

Inductive ekind :=
| EHttp                 (* download failed: bad status code / transport error *)
| EInvalidPlaylist      (* playlist.Unmarshal error, or wrong playlist kind *)
| ENoVariants           (* "no variants with supported codecs found" *)
| ENoGroup              (* "no playlist with Group ID .. found" *)
| EBadURL               (* clientAbsoluteURL: url.Parse error *)
| EInitParse            (* fmp4.Init.Unmarshal error *)
| ERenditionMultiTrack  (* "rendition playlists with multiple tracks are not supported" *)
| ETooManyTracks        (* "too many tracks per stream" *)
| ESegParse             (* fmp4.Parts.Unmarshal error *)
| ENoLeadingData        (* "could not find data of leading track" *)
| EMixed                (* "stream playlists are mixed MPEG-TS/fMP4" *)
| EDecode               (* decodePayload returned an error *)
| EDtsRtc               (* "difference between DTS and RTC is too big" *)
| ENoSupportedTracks    (* "no supported tracks found" *)
| ETsInit               (* mpegts.Reader.Initialize error *)
| ETsRead               (* fatal error of mpegts.Reader.Read *)
| EOnTracks             (* the application's OnTracks returned an error *)
| EBlocked              (* blocks until Close, then "terminated" *)
| ENoSegments           (* "no segments found" *)
| ENotEnough            (* "there aren't enough segments to fill the buffer" *)
| ENextNotFound         (* "next segment not found or not ready yet" *)
| ETooLate              (* "playback is too late" *)
| EHintGone             (* "preload hint disappeared" *)
| EInvalidTimeScale.    (* since /repo commit f8dc8c2 (rep_tracks): "invalid time scale" *)

Inductive res (A : Type) : Type :=
| Ok (a : A)
| Err (e : ekind)
| Panic (p : pkind)
| OutOfFuel.
Arguments Ok {A} a.
Arguments Err {A} e.
Arguments Panic {A} p.
Arguments OutOfFuel {A}.

Definition bind {A B} (m : res A) (k : A -> res B) : res B :=
  match m with
  | Ok a => k a
  | Err e => Err e
  | Panic p => Panic p
  | OutOfFuel => OutOfFuel
  end.
Notation "x <- m ;; k" := (bind m (fun x => k)) (at level 61, m at next level, right associativity).

Definition is_panic {A} (r : res A) : bool := match r with Panic _ => true | _ => false end.

(* what happened to one unit of data *)
Inductive pres := Deliver | Skip.

(* s[i] and *p *)
Definition index_at {A} (l : list A) (i : Z) : res A :=
  if i <? 0 then Panic PIndex
  else match nth_error l (Z.to_nat i) with Some x => Ok x | None => Panic PIndex end.
Definition deref {A} (o : option A) : res A :=
  match o with Some x => Ok x | None => Panic PNilDeref end.
Definition zlen {A} (l : list A) : Z := Z.of_nat (List.length l).

(* ---------- int64 ---------- *)
Definition two63 : Z := 9223372036854775808.
Definition two64 : Z := 18446744073709551616.
Definition wrap64 (z : Z) : Z := (z + two63) mod two64 - two63.
Definition add64 (a b : Z) : Z := wrap64 (a + b).
Definition sub64 (a b : Z) : Z := wrap64 (a - b).
Definition mul64 (a b : Z) : Z := wrap64 (a * b).

(* muxer_segmenter.go: secs := v / d; dec := v % d; return secs*m + dec*m/d
   (multiplyAndDivide on int64 and multiplyAndDivide2 on time.Duration are the same code) *)
Definition multiplyAndDivide (v m d : Z) : res Z :=
  if d =? 0 then Panic PDivZero
  else
    let secs := wrap64 (Z.quot v d) in
    let dec := Z.rem v d in
    Ok (add64 (mul64 secs m) (wrap64 (Z.quot (mul64 dec m) d))).

Definition second : Z := 1000000000.
Definition timestampToDuration (d clockRate : Z) : res Z := multiplyAndDivide d second clockRate.

(* client.go constants *)
Definition clientMaxTracksPerStream : Z := 10.
Definition clientLiveInitialDistance : Z := 3.
Definition clientLiveMaxDistanceFromEnd : Z := 5.
Definition clientMaxDTSRTCDiff : Z := 10 * second.

(* ---------- codecs ---------- *)
(* every codec mediacommon v2.1.0 fmp4.Init.Unmarshal can produce, plus a nil interface *)
Inductive fcodec :=
| FAV1 | FVP9 | FH265 | FH264 | FOpus | FMPEG4Audio
| FMPEG4Video | FMPEG1Video | FMJPEG | FMPEG1Audio | FAC3 | FLPCM
| FNil.
(* every codec mediacommon v2.1.0 mpegts.Track.unmarshal can produce, plus nil *)
Inductive tcodec :=
| TH265 | TH264 | TMPEG4Video | TMPEG1Video | TOpus | TMPEG4Audio | TMPEG1Audio | TAC3
| TUnsupported | TNil.
(* pkg/codecs *)
Inductive gcodec := GAV1 | GVP9 | GH265 | GH264 | GOpus | GMPEG4Audio.

Definition FromFMP4 (c : fcodec) : option gcodec :=
  match c with
  | FAV1 => Some GAV1
  | FVP9 => Some GVP9
  | FH265 => Some GH265
  | FH264 => Some GH264
  | FOpus => Some GOpus
  | FMPEG4Audio => Some GMPEG4Audio
  | _ => None                      (* return nil *)
  end.

Definition FromMPEGTS (c : tcodec) : option gcodec :=
  match c with
  | TH264 => Some GH264
  | TMPEG4Audio => Some GMPEG4Audio
  | _ => None
  end.

(* track.Codec.IsVideo() on the fmp4.Codec interface value *)
Definition fmp4_IsVideo (c : fcodec) : res bool :=
  match c with
  | FNil => Panic PNilDeref
  | FAV1 | FVP9 | FH265 | FH264 | FMPEG4Video | FMPEG1Video | FMJPEG => Ok true
  | FOpus | FMPEG4Audio | FMPEG1Audio | FAC3 | FLPCM => Ok false
  end.

(* gohlslib.Track: Codec (nil = None) and ClockRate *)
Record track := { t_codec : option gcodec; t_clockRate : Z }.

(* ---------- fMP4 content ---------- *)
Record init_track := { it_id : Z; it_timescale : Z; it_codec : fcodec }.
(* okAV1: PartSample.GetAV1 succeeds on the payload; okAVCC: GetH264 (= GetH265) succeeds *)
Record sample := { s_duration : Z; s_ptsoff : Z; s_okAV1 : bool; s_okAVCC : bool }.
Record part_track := { pt_id : Z; pt_baseTime : Z (* uint64 *); pt_samples : list sample }.
Definition part := list part_track.
Record fseg := {
  fg_dateTime : option Z;            (* segmentData.dateTime, ns *)
  fg_parts : option (list part)      (* None: fmp4.Parts.Unmarshal returned an error *)
}.

(* fmp4PickLeadingTrack *)
Fixpoint pick_video (tracks : list init_track) : res (option Z) :=
  match tracks with
  | [] => Ok None
  | t :: r =>
      v <- fmp4_IsVideo (it_codec t) ;;
      if v then Ok (Some (it_id t)) else pick_video r
  end.

Definition fmp4PickLeadingTrack (tracks : list init_track) : res Z :=
  o <- pick_video tracks ;;
  match o with
  | Some id => Ok id
  | None => t <- index_at tracks 0 ;; Ok (it_id t)      (* init.Tracks[0].ID *)
  end.

(* findFirstPartTrackOfLeadingTrack *)
Fixpoint find_pt (pts : list part_track) (id : Z) : option part_track :=
  match pts with
  | [] => None
  | pt :: r => if pt_id pt =? id then Some pt else find_pt r id
  end.
Fixpoint findFirstPartTrackOfLeadingTrack (parts : list part) (id : Z) : option part_track :=
  match parts with
  | [] => None
  | p :: r => match find_pt p id with Some pt => Some pt | None => findFirstPartTrackOfLeadingTrack r id end
  end.

(* findTimeScaleOfLeadingTrack *)
Fixpoint findTimeScaleOfLeadingTrack (tracks : list init_track) (id : Z) : Z :=
  match tracks with
  | [] => 0
  | t :: r => if it_id t =? id then it_timescale t else findTimeScaleOfLeadingTrack r id
  end.

(* Which of the repairs (findings/C13-*.json) the modelled tree contains. /repo carries all of them
   (all_repairs): rep_tracks = findings 1 and 2 (unsupported codec, time scale 0), /repo commit
   f8dc8c2; rep_join = finding 3 (the stream processor collects the tokens of finished part tracks
   while it pushes), /repo commit 098dd1f. no_repairs is the tree before those commits, kept as a
   regression witness. *)
Record repairs := { rep_tracks : bool; rep_join : bool }.
Definition no_repairs : repairs := {| rep_tracks := false; rep_join := false |}.
Definition all_repairs : repairs := {| rep_tracks := true; rep_join := true |}.

(* The repair of findings 1 and 2 (/repo commit f8dc8c2; [repaired = false] is the tree before
   it): before picking the leading track, reject an init with a zero time scale and keep
   only the tracks codecs.FromFMP4 knows, as the MPEG-TS path does:
       for _, track := range p.init.Tracks {
           if track.TimeScale == 0 { return fmt.Errorf("invalid time scale") }
           if codecs.FromFMP4(track.Codec) != nil { supportedTracks = append(supportedTracks, track) }
       }
       if len(supportedTracks) == 0 { return fmt.Errorf("no supported tracks found") }
       p.init.Tracks = supportedTracks *)
Definition fmp4_fix_filter (tracks : list init_track) : res (list init_track) :=
  if existsb (fun t => it_timescale t =? 0) tracks then Err EInvalidTimeScale
  else match filter (fun t => match FromFMP4 (it_codec t) with Some _ => true | None => false end) tracks with
       | [] => Err ENoSupportedTracks
       | sup => Ok sup
       end.

(* clientStreamProcessorFMP4.run up to setTracks; returns the leading track id, the Tracks and
   p.init.Tracks as used from here on.
   init = None: p.init.Unmarshal returned an error. The rendition pointer is non-nil for
   every non-leading stream (clientPrimaryDownloader.run sets it). *)
Definition fmp4_run_head (repaired : bool) (isLeading : bool) (init : option (list init_track))
  : res (Z * list track * list init_track) :=
  match init with
  | None => Err EInitParse
  | Some tracks0 =>
      if negb isLeading && negb (zlen tracks0 =? 1) then Err ERenditionMultiTrack
      else
        tracks <- (if repaired then fmp4_fix_filter tracks0 else Ok tracks0) ;;
        lead <- fmp4PickLeadingTrack tracks ;;
        let ts := map (fun t => {| t_codec := FromFMP4 (it_codec t); t_clockRate := it_timescale t |}) tracks in
        if zlen ts >? clientMaxTracksPerStream then Err ETooManyTracks
        else Ok (lead, ts, tracks)
  end.

(* ---------- clientTimeConvFMP4 ---------- *)
Record tconv := {
  tc_lts : Z;                      (* leadingTimeScale *)
  tc_lbt : Z;                      (* leadingBaseTime *)
  tc_ntp : option (Z * Z * Z)      (* ntpAvailable: (ntpValue ns, ntpTimestamp, ntpClockRate) *)
}.

Definition fconvert (tc : tconv) (v clockRate : Z) : res Z :=
  x <- multiplyAndDivide (tc_lbt tc) clockRate (tc_lts tc) ;;
  Ok (sub64 v x).

(* getNTP after chLeadingNTPReceived is closed (before that it blocks; the leading stream
   closes it while handling its first segment). time.Time.Add is modelled by add64: the value
   is never inspected by the decision logic. *)
Definition fgetNTP (tc : tconv) (timestamp clockRate : Z) : res (option Z) :=
  match tc_ntp tc with
  | None => Ok None
  | Some (val, nts, ncr) =>
      x <- multiplyAndDivide nts clockRate ncr ;;
      d <- timestampToDuration (sub64 timestamp x) clockRate ;;
      Ok (Some (add64 val d))
  end.

(* ---------- clientTimeConvMPEGTS (mediacommon mpegts.TimeDecoder inside) ---------- *)
Record tsconv := {
  td_initialized : bool;
  td_overall : Z;
  td_prev : Z;
  tn_ntp : option (Z * Z)          (* (ntpValue ns, ntpTimestamp) *)
}.
Definition ts_maximum : Z := 8589934591.          (* 0x1FFFFFFFF *)
Definition ts_negativeThreshold : Z := 4294967295. (* 0x1FFFFFFFF / 2 *)

Definition td_decode (c : tsconv) (ts : Z) : tsconv * Z :=
  let prev := if td_initialized c then td_prev c else ts in
  let diff := Z.land (sub64 ts prev) ts_maximum in
  if diff >? ts_negativeThreshold then
    let diff' := Z.land (sub64 prev ts) ts_maximum in
    let ov := sub64 (td_overall c) diff' in
    ({| td_initialized := true; td_overall := ov; td_prev := ts; tn_ntp := tn_ntp c |}, ov)
  else
    let ov := add64 (td_overall c) diff in
    ({| td_initialized := true; td_overall := ov; td_prev := ts; tn_ntp := tn_ntp c |}, ov).

(* clientTimeConvMPEGTS.initialize: td.Decode(startDTS) *)
Definition tsconv_new (startDTS : Z) : tsconv :=
  fst (td_decode {| td_initialized := false; td_overall := 0; td_prev := 0; tn_ntp := None |} startDTS).

Definition tgetNTP (c : tsconv) (timestamp : Z) : res (option Z) :=
  match tn_ntp c with
  | None => Ok None
  | Some (val, nts) =>
      d <- timestampToDuration (sub64 timestamp nts) 90000 ;;
      Ok (Some (add64 val d))
  end.

(* Client.leadingTimeConv: an interface value holding one of the two *)
Inductive conv := CFmp4 (tc : tconv) | CTs (tc : tsconv).

(* leadingTimeConvFMP4 / leadingTimeConvMPEGTS: type assertion WITHOUT ok *)
Definition leadingTimeConvFMP4 (c : option conv) : res tconv :=
  match c with Some (CFmp4 tc) => Ok tc | _ => Panic PTypeAssert end.
Definition leadingTimeConvMPEGTS (c : option conv) : res tsconv :=
  match c with Some (CTs tc) => Ok tc | _ => Panic PTypeAssert end.

(* ---------- clientTrack.handleData ---------- *)
(* [elapsed] = time.Since(startRTC) in ns, an input of the environment. When the sample is
   early by at most clientMaxDTSRTCDiff the code sleeps (or returns "terminated" on Close). *)
Definition handleData (clockRate elapsed pts dts : Z) : res pres :=
  if pts <? 0 then Ok Skip
  else
    dtsDuration <- timestampToDuration dts clockRate ;;
    if dtsDuration >? elapsed then
      let diff := sub64 dtsDuration elapsed in
      if diff >? clientMaxDTSRTCDiff then Err EDtsRtc else Ok Deliver
    else Ok Deliver.

(* ---------- clientTrackProcessorFMP4 ---------- *)
Inductive decoder := DAV1 (* GetAV1 *) | DRaw (* [][]byte{Payload} *) | DH264 (* GetH264 *) | DH265 (* GetH265 *).

(* initialize: switch t.track.track.Codec.(type) with six cases and NO default:
   for any other dynamic type, and for nil, decodePayload stays nil *)
Definition tp_initialize (t : track) : option decoder :=
  match t_codec t with
  | Some GAV1 => Some DAV1
  | Some GVP9 => Some DRaw
  | Some GH264 => Some DH264
  | Some GH265 => Some DH265
  | Some GOpus => Some DRaw
  | Some GMPEG4Audio => Some DRaw
  | None => None
  end.

Record tproc := { tp_idx : nat; tp_track : track; tp_decode : option decoder }.

Definition decodePayload (d : decoder) (s : sample) : bool :=
  match d with
  | DRaw => true
  | DAV1 => s_okAV1 s
  | DH264 | DH265 => s_okAVCC s
  end.

(* process: for _, sample := range entry.partTrack.Samples; n counts onData calls *)
Fixpoint process_loop (tp : tproc) (elapsed entry_dts : Z) (entry_ntp : option Z)
         (dts : Z) (samples : list sample) (n : nat) : res nat :=
  match samples with
  | [] => Ok n                       (* onPartTrackProcessed *)
  | s :: rest =>
      match tp_decode tp with
      | None => Panic PNilFunc       (* t.decodePayload(sample) with decodePayload == nil *)
      | Some d =>
          if negb (decodePayload d s) then Err EDecode
          else
            let pts := add64 dts (s_ptsoff s) in
            _ntp <- match entry_ntp with
                    | None => Ok None
                    | Some v =>
                        dd <- timestampToDuration (sub64 dts entry_dts) (t_clockRate (tp_track tp)) ;;
                        Ok (Some (add64 v dd))
                    end ;;
            r <- handleData (t_clockRate (tp_track tp)) elapsed pts dts ;;
            process_loop tp elapsed entry_dts entry_ntp (add64 dts (s_duration s)) rest
                         (match r with Deliver => S n | Skip => n end)
      end
  end.

Definition process (tp : tproc) (elapsed dts : Z) (ntp : option Z) (samples : list sample) : res nat :=
  process_loop tp elapsed dts ntp dts samples 0.

(* ---------- clientStreamProcessorFMP4 ---------- *)
Record fsp := {
  f_isLeading : bool;
  f_init : list init_track;
  f_leadingTrackID : Z;
  f_cst : list track;                        (* clientStreamTracks *)
  f_procs : option (list (Z * tproc));       (* trackProcessors; insertion order, last write wins *)
  f_repJoin : bool                           (* the tree contains the repair of finding 3 *)
}.

(* Go map lookup after the insertions in list order *)
Definition find_proc (procs : list (Z * tproc)) (id : Z) : option tproc :=
  fold_left (fun acc kv => if fst kv =? id then Some (snd kv) else acc) procs None.

(* for i, track := range p.clientStreamTracks { ...; p.trackProcessors[p.init.Tracks[i].ID] = trackProc } *)
Fixpoint build_procs (i : nat) (cst : list track) (init : list init_track) : res (list (Z * tproc)) :=
  match cst with
  | [] => Ok []
  | t :: r =>
      it <- index_at init (Z.of_nat i) ;;
      rest <- build_procs (S i) r init ;;
      Ok ((it_id it, {| tp_idx := i; tp_track := t; tp_decode := tp_initialize t |}) :: rest)
  end.

Definition add_count (counts : list nat) (i n : nat) : list nat :=
  firstn i counts ++ match skipn i counts with [] => [] | c :: t => (c + n)%nat :: t end.

(* initializeTrackProcessors *)
Definition fmp4_initializeTrackProcessors (p : fsp) (c : option conv) (pt : part_track)
  : res (fsp * option conv) :=
  c' <- (if f_isLeading p then
           let timeScale := findTimeScaleOfLeadingTrack (f_init p) (f_leadingTrackID p) in
           Ok (Some (CFmp4 {| tc_lts := timeScale; tc_lbt := wrap64 (pt_baseTime pt); tc_ntp := None |}))
         else
           match c with
           | None => Err EBlocked                   (* waitLeadingTimeConv blocks *)
           | Some (CFmp4 _) => Ok c
           | Some (CTs _) => Err EMixed
           end) ;;
  procs <- build_procs 0 (f_cst p) (f_init p) ;;
  Ok ({| f_isLeading := f_isLeading p; f_init := f_init p; f_leadingTrackID := f_leadingTrackID p;
         f_cst := f_cst p; f_procs := Some procs; f_repJoin := f_repJoin p |}, c').

(* joinTrackProcessors' bookkeeping. A track processor that finished an entry calls
   onPartTrackProcessed, a send on chPartTrackProcessed whose buffer holds
   clientMaxTracksPerStream tokens; the tokens are only read by joinTrackProcessors, after ALL
   entries of the segment were pushed. A processor whose token does not fit stays in that send;
   the next push to it (an unbuffered channel) then blocks for ever. *)
Record jstate := { j_tokens : nat; j_stuck : list nat (* tp_idx of processors parked in the send *) }.
Definition jstate0 : jstate := {| j_tokens := 0; j_stuck := [] |}.
Definition j_is_stuck (js : jstate) (i : nat) : bool := existsb (Nat.eqb i) (j_stuck js).
Definition j_done (rep : bool) (js : jstate) (i : nat) : jstate :=
  if rep || (Z.of_nat (j_tokens js) <? clientMaxTracksPerStream)   (* repaired: the token is collected at once *)
  then {| j_tokens := S (j_tokens js); j_stuck := j_stuck js |}
  else {| j_tokens := j_tokens js; j_stuck := i :: j_stuck js |}.

(* the inner loops of processSegment *)
Fixpoint pt_loop (rep : bool) (procs : list (Z * tproc)) (c : option conv) (elapsed : Z)
         (pts : list part_track) (counts : list nat) (js : jstate) : res (list nat * jstate) :=
  match pts with
  | [] => Ok (counts, js)
  | pt :: r =>
      match find_proc procs (pt_id pt) with
      | None => pt_loop rep procs c elapsed r counts js    (* !ok: continue *)
      | Some tp =>
          tc <- leadingTimeConvFMP4 c ;;
          dts <- fconvert tc (wrap64 (pt_baseTime pt)) (t_clockRate (tp_track tp)) ;;
          ntp <- fgetNTP tc dts (t_clockRate (tp_track tp)) ;;
          if j_is_stuck js (tp_idx tp) then Err EBlocked    (* trackProc.push never completes *)
          else
            n <- process tp elapsed dts ntp (pt_samples pt) ;;      (* push; the track processor runs it *)
            pt_loop rep procs c elapsed r (add_count counts (tp_idx tp) n) (j_done rep js (tp_idx tp))
      end
  end.

Fixpoint parts_loop (rep : bool) (procs : list (Z * tproc)) (c : option conv) (elapsed : Z)
         (parts : list part) (counts : list nat) (js : jstate) : res (list nat * jstate) :=
  match parts with
  | [] => Ok (counts, js)
  | p :: r =>
      x <- pt_loop rep procs c elapsed p counts js ;;
      parts_loop rep procs c elapsed r (fst x) (snd x)
  end.

Definition parts_empty (parts : list part) : bool :=
  forallb (fun p : part => match p with [] => true | _ :: _ => false end) parts.

(* processSegment for a non-nil segment *)
Definition fmp4_processSegment (p : fsp) (c : option conv) (elapsed : Z) (seg : fseg)
           (counts : list nat) : res (fsp * option conv * list nat) :=
  match fg_parts seg with
  | None => Err ESegParse
  | Some parts =>
      match findFirstPartTrackOfLeadingTrack parts (f_leadingTrackID p) with
      | None =>
          (* empty := every part has len(part.Tracks) == 0; such a segment / Low-Latency part (a rendition into
             which no sample fell) is skipped - but not by a leading stream that has not created the time
             converter yet: the renditions wait for it *)
          if parts_empty parts && (negb (f_isLeading p) || match f_procs p with Some _ => true | None => false end)
          then Ok (p, c, counts)
          else Err ENoLeadingData
      | Some lpt =>
          pc <- (match f_procs p with
                 | None => fmp4_initializeTrackProcessors p c lpt
                 | Some _ => Ok (p, c)
                 end) ;;
          let '(p1, c1) := pc in
          procs <- deref (f_procs p1) ;;
          c2 <- (if f_isLeading p1 then
                   match fg_dateTime seg with
                   | Some dt =>
                       (* leadingPartTrackProc := p.trackProcessors[leadingPartTrack.ID]; .track.track.ClockRate *)
                       lproc <- deref (find_proc procs (pt_id lpt)) ;;
                       tc <- leadingTimeConvFMP4 c1 ;;
                       dts <- fconvert tc (wrap64 (pt_baseTime lpt)) (t_clockRate (tp_track lproc)) ;;
                       tc' <- leadingTimeConvFMP4 c1 ;;
                       Ok (Some (CFmp4 {| tc_lts := tc_lts tc'; tc_lbt := tc_lbt tc';
                                          tc_ntp := Some (dt, dts, t_clockRate (tp_track lproc)) |}))
                   | None => tc <- leadingTimeConvFMP4 c1 ;; Ok c1    (* setLeadingNTPReceived *)
                   end
                 else Ok c1) ;;
          x <- parts_loop (f_repJoin p1) procs c2 elapsed parts counts jstate0 ;;
          Ok (p1, c2, fst x)           (* joinTrackProcessors reads partTrackCount tokens: everybody is released *)
      end
  end.

(* run: for { seg, ok := p.segmentQueue.pull(ctx); ...; p.processSegment(ctx, seg) }.
   queue: what the downloader pushes, None = the nil end marker. One unit of fuel per
   iteration; an empty queue blocks in pull (EBlocked). Ok = setEnded was called. *)
Fixpoint fmp4_run_loop (fuel : nat) (p : fsp) (c : option conv) (elapsed : Z)
         (queue : list (option fseg)) (counts : list nat) : res (option conv * list nat) :=
  match fuel with
  | O => OutOfFuel
  | S fuel' =>
      match queue with
      | [] => Err EBlocked
      | None :: _ => Ok (c, counts)
      | Some seg :: q' =>
          r <- fmp4_processSegment p c elapsed seg counts ;;
          let '(p', c', counts') := r in
          fmp4_run_loop fuel' p' c' elapsed q' counts'
      end
  end.

(* ---------- MPEG-TS content ---------- *)
(* One call of mpegts.Reader.Read as seen by the repo's code: the non-fatal decode errors it
   reported through OnDecodeError, and how it returned. The callbacks of mediacommon hand
   (pts, dts) to OnDataH264 and (pts) to OnDataMPEG4Audio. *)
Inductive ts_read :=
| RData (nerr : nat) (trk : nat) (pts dts : Z)   (* callback of supported track [trk] invoked *)
| RNone (nerr : nat)                              (* returned nil without invoking a callback *)
| RFatal (nerr : nat)                             (* returned a fatal error *)
| RNoMore (nerr : nat).                           (* returned astits.ErrNoMorePackets *)

Record tseg := { tg_dateTime : option Z; tg_reads : list ts_read }.

Definition ts_supported (c : tcodec) : bool :=
  match c with TH264 | TMPEG4Audio => true | _ => false end.

(* mpegtsPickLeadingTrack *)
Fixpoint pick_h264 (i : nat) (tracks : list tcodec) : option nat :=
  match tracks with
  | [] => None
  | TH264 :: _ => Some i
  | _ :: r => pick_h264 (S i) r
  end.
Definition mpegtsPickLeadingTrack (tracks : list tcodec) : nat :=
  match pick_h264 0 tracks with Some i => i | None => 0%nat end.

(* initializeReader up to setTracks. pmt = None: Reader.Initialize returned an error *)
Definition ts_initializeReader (pmt : option (list tcodec)) : res (nat * list track) :=
  match pmt with
  | None => Err ETsInit
  | Some all =>
      let supported := filter ts_supported all in
      match supported with
      | [] => Err ENoSupportedTracks
      | _ =>
          let leadingTrackID := mpegtsPickLeadingTrack supported in
          let ts := map (fun c => {| t_codec := FromMPEGTS c; t_clockRate := 90000 |}) supported in
          if zlen ts >? clientMaxTracksPerStream then Err ETooManyTracks
          else Ok (leadingTrackID, ts)
      end
  end.

Record tsp := {
  s_isLeading : bool;
  s_leadingIdx : nat;
  s_cst : list track;
  s_procsInit : bool;              (* p.trackProcessors != nil *)
  s_leadingTrackFound : bool;
  s_dateTimeProcessed : bool
}.

Definition tsp_set (p : tsp) (pi lf dp : bool) : tsp :=
  {| s_isLeading := s_isLeading p; s_leadingIdx := s_leadingIdx p; s_cst := s_cst p;
     s_procsInit := pi; s_leadingTrackFound := lf; s_dateTimeProcessed := dp |}.

(* initializeTrackProcessors (MPEG-TS) *)
Definition ts_initializeTrackProcessors (p : tsp) (c : option conv) (dts : Z) : res (option conv) :=
  if s_isLeading p then Ok (Some (CTs (tsconv_new dts)))
  else match c with
       | None => Err EBlocked
       | Some (CTs _) => Ok c
       | Some (CFmp4 _) => Err EMixed
       end.

(* the processSample closure of track i *)
Definition ts_processSample (p : tsp) (c : option conv) (elapsed : Z) (dateTime : option Z)
           (i : nat) (rawPTS rawDTS : Z) (counts : list nat) : res (tsp * option conv * list nat) :=
  let isLeadingTrack := Nat.eqb i (s_leadingIdx p) in
  pc <- (if isLeadingTrack then
           if s_procsInit p then Ok (tsp_set p true true (s_dateTimeProcessed p), c)
           else
             c' <- ts_initializeTrackProcessors p c rawDTS ;;
             Ok (tsp_set p true true (s_dateTimeProcessed p), c')
         else Ok (p, c)) ;;
  let '(p1, c1) := pc in
  if negb (s_procsInit p1) then Ok (p1, c1, counts)     (* trackProc == nil: wait leading track *)
  else
    tc0 <- leadingTimeConvMPEGTS c1 ;;
    let '(tc1, pts) := td_decode tc0 rawPTS in
    tc1' <- leadingTimeConvMPEGTS (Some (CTs tc1)) ;;
    let '(tc2, dts) := td_decode tc1' rawDTS in
    let doDate := negb (s_dateTimeProcessed p1) && s_isLeading p1 && isLeadingTrack in
    let tc3 := if doDate then
                 match dateTime with
                 | Some dt => {| td_initialized := td_initialized tc2; td_overall := td_overall tc2;
                                 td_prev := td_prev tc2; tn_ntp := Some (dt, dts) |}
                 | None => tc2
                 end
               else tc2 in
    let p2 := if doDate then tsp_set p1 (s_procsInit p1) (s_leadingTrackFound p1) true else p1 in
    _ntp <- tgetNTP tc3 dts ;;
    r <- handleData 90000 elapsed pts dts ;;             (* push; the track processor runs it *)
    Ok (p2, Some (CTs tc3), add_count counts i (match r with Deliver => 1%nat | Skip => 0%nat end)).

(* after setTracks: switch track.track.Codec.(type) { case *codecs.H264: OnDataH264;
   case *codecs.MPEG4Audio: OnDataMPEG4Audio } - no callback otherwise *)
Definition ts_on_data (p : tsp) (c : option conv) (elapsed : Z) (dateTime : option Z)
           (i : nat) (pts dts : Z) (counts : list nat) : res (tsp * option conv * list nat) :=
  match nth_error (s_cst p) i with
  | Some {| t_codec := Some GH264 |} => ts_processSample p c elapsed dateTime i pts dts counts
  | Some {| t_codec := Some GMPEG4Audio |} => ts_processSample p c elapsed dateTime i pts pts counts
  | _ => Ok (p, c, counts)
  end.

Definition nerr_of (r : ts_read) : nat :=
  match r with RData n _ _ _ | RNone n | RFatal n | RNoMore n => n end.

(* for { err := p.reader.Read(); if err != nil { if ErrNoMorePackets break; return err } }
   over an abstract reader: rd_read performs one Read. One unit of fuel per iteration. *)
Section ReadLoop.
  Context {R : Type}.
  Variable rd_read : R -> R * ts_read.

  Fixpoint ts_read_loop (fuel : nat) (rd : R) (p : tsp) (c : option conv) (elapsed : Z)
           (dateTime : option Z) (counts : list nat) (nerr : nat)
    : res (R * tsp * option conv * list nat * nat) :=
    match fuel with
    | O => OutOfFuel
    | S fuel' =>
        let '(rd', x) := rd_read rd in
        let nerr' := (nerr + nerr_of x)%nat in
        match x with
        | RNoMore _ => Ok (rd', p, c, counts, nerr')
        | RFatal _ => Err ETsRead
        | RNone _ => ts_read_loop fuel' rd' p c elapsed dateTime counts nerr'
        | RData _ i pts dts =>
            r <- ts_on_data p c elapsed dateTime i pts dts counts ;;
            let '(p', c', counts') := r in
            ts_read_loop fuel' rd' p' c' elapsed dateTime counts' nerr'
        end
    end.
End ReadLoop.

(* the concrete reader used by the tie: the recorded sequence of Read results of a segment;
   past its end the demuxer keeps answering ErrNoMorePackets *)
Definition list_reader (l : list ts_read) : list ts_read * ts_read :=
  match l with
  | [] => ([], RNoMore 0)
  | x :: r => (r, x)
  end.

(* processSegment (MPEG-TS), reader already initialized *)
Definition ts_processSegment (p : tsp) (c : option conv) (elapsed : Z) (seg : tseg)
           (counts : list nat) (nerr : nat) : res (tsp * option conv * list nat * nat) :=
  let p0 := tsp_set p (s_procsInit p) false false in
  r <- ts_read_loop list_reader (S (List.length (tg_reads seg))) (tg_reads seg) p0 c elapsed
                    (tg_dateTime seg) counts nerr ;;
  let '(_, p1, c1, counts1, nerr1) := r in
  if negb (s_leadingTrackFound p1) then Err ENoLeadingData
  else Ok (p1, c1, counts1, nerr1).      (* joinTrackProcessors: push(nil) to each, wait for each *)

Fixpoint ts_run_loop (fuel : nat) (p : tsp) (c : option conv) (elapsed : Z)
         (queue : list (option tseg)) (counts : list nat) (nerr : nat)
  : res (option conv * list nat * nat) :=
  match fuel with
  | O => OutOfFuel
  | S fuel' =>
      match queue with
      | [] => Err EBlocked
      | None :: _ => Ok (c, counts, nerr)
      | Some seg :: q' =>
          r <- ts_processSegment p c elapsed seg counts nerr ;;
          let '(p', c', counts', nerr') := r in
          ts_run_loop fuel' p' c' elapsed q' counts' nerr'
      end
  end.

(* ---------- playlists as the client uses them ---------- *)
(* Pointers are options: a nil element would be a nil dereference. [structural_ok] states
   what a successful playlist.Unmarshal guarantees about them. *)
Record uri := { u_parse_ok : bool (* url.Parse succeeds *); u_empty : bool; u_res : nat (* what it names *) }.

Record useg := { us_uri : uri; us_dateTime : option Z; us_duration : Z }.
Record upart := { up_duration : Z }.
Inductive pltype := PTEvent | PTVod.
Record umedia := {
  um_mediaSequence : Z;
  um_segments : list (option useg);          (* []*MediaSegment *)
  um_parts : list (option upart);            (* []*MediaPart *)
  um_map : option uri;                       (* *MediaMap, its URI *)
  um_serverControl : option (bool * bool);   (* *MediaServerControl: CanBlockReload, CanSkipUntil != nil *)
  um_preloadHint : option uri;               (* *MediaPreloadHint, its URI *)
  um_playlistType : option pltype;
  um_endlist : bool
}.

Record uvariant := { v_codecs : list string; v_bandwidth : Z; v_uri : uri; v_audio : string }.
Record urendition := { r_groupID : string; r_uri : option uri }.
Record umulti := { mv_variants : list (option uvariant); mv_renditions : list (option urendition) }.

Inductive uplaylist := PLMedia (m : umedia) | PLMulti (m : umulti).

Definition all_some {A} (l : list (option A)) : bool :=
  forallb (fun o => match o with Some _ => true | None => false end) l.

(* playlist.Unmarshal appends only freshly allocated elements: no nil element in any slice.
   (It also guarantees len(Segments) >= 1, len(Variants) >= 1, Map.URI != "": the client does
   not rely on those.) *)
Definition structural_ok (pl : uplaylist) : bool :=
  match pl with
  | PLMedia m => all_some (um_segments m) && all_some (um_parts m)
  | PLMulti m => all_some (mv_variants m) && all_some (mv_renditions m)
  end.

(* checkSupport *)
Definition has_prefix (p s : string) : bool := String.prefix p s.
Definition codec_supported (codec : string) : bool :=
  has_prefix "avc1." codec || has_prefix "hvc1." codec || has_prefix "hev1." codec
  || has_prefix "mp4a." codec || has_prefix "av01." codec || has_prefix "vp09." codec
  || String.eqb codec "opus".
Definition checkSupport (codecs : list string) : bool := forallb codec_supported codecs.

(* pickLeadingPlaylist: for _, v := range variants { v.Codecs ... } *)
Fixpoint candidates (variants : list (option uvariant)) : res (list uvariant) :=
  match variants with
  | [] => Ok []
  | o :: r =>
      v <- deref o ;;
      rest <- candidates r ;;
      Ok (if checkSupport (v_codecs v) then v :: rest else rest)
  end.

Fixpoint greatest (cands : list uvariant) (best : option uvariant) : option uvariant :=
  match cands with
  | [] => best
  | v :: r =>
      match best with
      | None => greatest r (Some v)
      | Some b => if v_bandwidth v >? v_bandwidth b then greatest r (Some v) else greatest r best
      end
  end.

Definition pickLeadingPlaylist (variants : list (option uvariant)) : res (option uvariant) :=
  c <- candidates variants ;;
  Ok (greatest c None).

(* getRenditionsByGroup: alt.GroupID *)
Fixpoint getRenditionsByGroup (rs : list (option urendition)) (g : string) : res (list urendition) :=
  match rs with
  | [] => Ok []
  | o :: r =>
      alt <- deref o ;;
      rest <- getRenditionsByGroup r g ;;
      Ok (if String.eqb (r_groupID alt) g then alt :: rest else rest)
  end.

Definition clientAbsoluteURL (u : uri) : res nat :=
  if u_parse_ok u then Ok (u_res u) else Err EBadURL.

(* the streams clientPrimaryDownloader.run starts: (isLeading, resource of the media playlist);
   None for the primary media playlist itself *)
Fixpoint rendition_streams (rs : list urendition) : res (list (bool * option nat)) :=
  match rs with
  | [] => Ok []
  | pl :: r =>
      match r_uri pl with
      | None => rendition_streams r                 (* stream data already in the leading playlist *)
      | Some u =>
          x <- clientAbsoluteURL u ;;
          rest <- rendition_streams r ;;
          Ok ((false, Some x) :: rest)
      end
  end.

Definition primary_streams (pl : uplaylist) : res (list (bool * option nat)) :=
  match pl with
  | PLMedia _ => Ok [(true, None)]
  | PLMulti m =>
      lp <- pickLeadingPlaylist (mv_variants m) ;;
      match lp with
      | None => Err ENoVariants
      | Some v =>
          u <- clientAbsoluteURL (v_uri v) ;;
          if String.eqb (v_audio v) "" then Ok [(true, Some u)]
          else
            aud <- getRenditionsByGroup (mv_renditions m) (v_audio v) ;;
            match aud with
            | [] => Err ENoGroup
            | _ => rs <- rendition_streams aud ;; Ok ((true, Some u) :: rs)
            end
      end
  end.

(* findSegmentWithInvPosition / findSegmentWithID *)
Definition findSegmentWithInvPosition (segments : list (option useg)) (invPos : Z)
  : res (option (option useg * Z)) :=
  let index := zlen segments - invPos in
  if index <? 0 then Ok None
  else s <- index_at segments index ;; Ok (Some (s, index)).

Definition findSegmentWithID (seqNo : Z) (segments : list (option useg)) (id : Z)
  : res (option (option useg * Z * Z)) :=
  let index := id - seqNo in
  if (index <? 0) || (zlen segments <=? index) then Ok None
  else s <- index_at segments index ;; Ok (Some (s, index, zlen segments - index)).

(* dateTimeOfPreloadHint *)
Fixpoint add_parts (d : Z) (parts : list (option upart)) : res Z :=
  match parts with
  | [] => Ok d
  | o :: r => p <- deref o ;; add_parts (d + up_duration p) r
  end.

Definition dateTimeOfPreloadHint (pl : umedia) : res (option Z) :=
  if zlen (um_segments pl) =? 0 then Ok None
  else
    o <- index_at (um_segments pl) (zlen (um_segments pl) - 1) ;;
    lastSeg <- deref o ;;
    match us_dateTime lastSeg with
    | None => Ok None
    | Some dt => d <- add_parts (dt + us_duration lastSeg) (um_parts pl) ;; Ok (Some d)
    end.

(* fillSegmentQueue: selection, download of seg.URI, end-of-list test *)
Definition fillSegmentQueue (first : umedia) (cur : option Z) (pl : umedia) : res (Z * bool) :=
  sel <- (match cur with
          | None =>
              match um_playlistType first with
              | Some PTVod =>
                  if zlen (um_segments pl) =? 0 then Err ENoSegments
                  else s <- index_at (um_segments pl) 0 ;; Ok (s, 0)
              | _ =>
                  r <- findSegmentWithInvPosition (um_segments pl) clientLiveInitialDistance ;;
                  match r with
                  | None => Err ENotEnough
                  | Some (None, _) => Err ENotEnough      (* seg == nil *)
                  | Some (Some s, pos) => Ok (Some s, pos)
                  end
              end
          | Some id =>
              r <- findSegmentWithID (um_mediaSequence pl) (um_segments pl) (id + 1) ;;
              match r with
              | None => Err ENextNotFound
              | Some (None, _, _) => Err ENextNotFound
              | Some (Some s, pos, invPos) =>
                  if negb (um_endlist pl) && (invPos >? clientLiveMaxDistanceFromEnd) then Err ETooLate
                  else Ok (Some s, pos)
              end
          end) ;;
  let '(oseg, segPos) := sel in
  seg <- deref oseg ;;                                   (* seg.URI, seg.ByteRangeStart ... *)
  _u <- clientAbsoluteURL (us_uri seg) ;;
  ended <- (if um_endlist pl then
              lst <- index_at (um_segments pl) (zlen (um_segments pl) - 1) ;;   (* pl.Segments[len-1] == seg *)
              Ok (zlen (um_segments pl) - 1 =? segPos)
            else Ok false) ;;
  Ok (um_mediaSequence pl + segPos, ended).

(* clientStreamDownloader.run: which processor, which loop. true = fMP4 *)
Definition stream_is_fmp4 (first : umedia) : bool :=
  match um_map first with
  | Some u => negb (u_empty u)            (* Map != nil && Map.URI != "" *)
  | None => false
  end.
Definition stream_is_ll (first : umedia) : bool :=
  match um_serverControl first, um_preloadHint first with
  | Some (true, _), Some _ => true
  | _, _ => false
  end.

(* one round of runLowLatency on playlist pl (the first round has pl = first) *)
Definition runLowLatency_round (first pl : umedia) : res unit :=
  hint <- deref (um_preloadHint pl) ;;                      (* preloadHint.URI *)
  _u <- clientAbsoluteURL hint ;;
  _d <- dateTimeOfPreloadHint pl ;;
  _sc <- deref (um_serverControl first) ;;                  (* d.firstPlaylist.ServerControl.CanSkipUntil *)
  Ok tt.

(* sequencing that keeps looking for a panic after an error: every expression is exercised *)
Definition also {A B} (a : res A) (b : res B) : res unit :=
  match a with
  | Panic p => Panic p
  | OutOfFuel => OutOfFuel
  | _ => match b with Panic p => Panic p | OutOfFuel => OutOfFuel | Err e => Err e | Ok _ => Ok tt end
  end.

(* every index / dereference expression the client applies to an Unmarshal result:
   [first] is the first playlist of the stream, [pl] any later reload, [cur] curSegmentID *)
Definition client_use_media (first pl : umedia) (cur : option Z) : res unit :=
  also (if stream_is_fmp4 first then _m <- deref (um_map first) ;; clientAbsoluteURL _m else Ok 0%nat)
 (also (if stream_is_ll first
        then also (runLowLatency_round first first)
                  (match um_preloadHint pl with
                   | None => Err EHintGone
                   | Some _ => runLowLatency_round first pl
                   end)
        else Ok tt)
 (also (fillSegmentQueue first None first)
       (fillSegmentQueue first cur pl))).

Definition client_use_playlist (first pl : uplaylist) (cur : option Z) : res unit :=
  match first, pl with
  | PLMedia f, PLMedia m => client_use_media f m cur
  | PLMulti _, _ => _s <- primary_streams first ;; Ok tt
  | PLMedia f, PLMulti _ => Err EInvalidPlaylist             (* pl.( *playlist.Media) with ok *)
  end.

(* the downloader loop runTraditional over the successive answers of the server to the
   playlist request (None = request failed). One unit of fuel per iteration; each iteration
   performs at least one HTTP exchange and consumes one answer. *)
Fixpoint runTraditional (fuel : nat) (first : umedia) (cur : option Z) (pl : umedia)
         (answers : list (option umedia)) : res unit :=
  match fuel with
  | O => OutOfFuel
  | S fuel' =>
      r <- fillSegmentQueue first cur pl ;;
      let '(cur', ended) := r in
      if ended then Ok tt                       (* push(nil); <-ctx.Done() *)
      else
        match answers with
        | [] => Err EBlocked                    (* the request does not complete *)
        | None :: _ => Err EHttp
        | Some pl' :: rest => runTraditional fuel' first (Some cur') pl' rest
        end
  end.

(* ---------- a whole client run over parsed content ---------- *)
Record fstream := { fs_init : option (list init_track); fs_segs : list fseg }.
Record tstream := { tst_pmt : option (list tcodec) (* of the first segment *); tst_segs : list tseg }.
Inductive stream := SF (s : fstream) | ST (s : tstream).

Record scenario := {
  sc_primary : uplaylist;          (* PLMedia: the primary playlist is stream 0 itself *)
  sc_streams : list stream;        (* by resource number *)
  sc_onTracksErr : bool
}.

Inductive head :=
| HF (p : fsp) (segs : list fseg)
| HT (p : tsp) (segs : list tseg).

Definition head_tracks (h : head) : list track :=
  match h with HF p _ => f_cst p | HT p _ => s_cst p end.

(* a stream up to the point where it hands its tracks to the primary downloader *)
Definition stream_head (rp : repairs) (sc : scenario) (isLeading : bool) (r : option nat) : res head :=
  match nth_error (sc_streams sc) (match r with Some n => n | None => 0%nat end) with
  | None => Err EHttp
  | Some (SF s) =>
      (* a stream never starts with an empty segment list: playlist.Unmarshal rejects a media playlist
         without segments ("no segments found"), and so does fillSegmentQueue for a VOD playlist *)
      match fs_segs s with
      | [] => Err ENoSegments
      | _ =>
          x <- fmp4_run_head (rep_tracks rp) isLeading (fs_init s) ;;
          let '(lead, ts, init) := x in
          Ok (HF {| f_isLeading := isLeading; f_init := init; f_leadingTrackID := lead;
                    f_cst := ts; f_procs := None; f_repJoin := rep_join rp |} (fs_segs s))
      end
  | Some (ST s) =>
      match tst_segs s with
      | [] => Err ENoSegments
      | _ =>
          x <- ts_initializeReader (tst_pmt s) ;;
          let '(lead, ts) := x in
          Ok (HT {| s_isLeading := isLeading; s_leadingIdx := lead; s_cst := ts; s_procsInit := false;
                    s_leadingTrackFound := false; s_dateTimeProcessed := false |} (tst_segs s))
      end
  end.

Fixpoint heads (rp : repairs) (sc : scenario) (refs : list (bool * option nat)) : res (list head) :=
  match refs with
  | [] => Ok []
  | (isLeading, r) :: rest =>
      h <- stream_head rp sc isLeading r ;;
      hs <- heads rp sc rest ;;
      Ok (h :: hs)
  end.

Record outcome := {
  o_tracks : option (list (option gcodec));   (* what OnTracks received *)
  o_counts : list (list nat);                 (* per stream, per track: onData calls *)
  o_decodeErrors : nat;
  o_end : res unit                            (* Ok tt = ErrClientEOS; Err e; Panic p *)
}.

Definition zero_counts (h : head) : list nat := repeat 0%nat (List.length (head_tracks h)).

Definition run_head (h : head) (c : option conv) (elapsed : Z) : res (option conv * list nat * nat) :=
  match h with
  | HF p segs =>
      r <- fmp4_run_loop (S (S (List.length segs))) p c elapsed (map Some segs ++ [None]) (zero_counts h) ;;
      let '(c', counts) := r in Ok (c', counts, 0%nat)
  | HT p segs =>
      ts_run_loop (S (S (List.length segs))) p c elapsed (map Some segs ++ [None]) (zero_counts h) 0
  end.

Fixpoint run_heads (hs : list head) (c : option conv) (elapsed : Z) (acc : list (list nat)) (nerr : nat)
  : list (list nat) * nat * res unit :=
  match hs with
  | [] => (acc, nerr, Ok tt)
  | h :: rest =>
      match run_head h c elapsed with
      | Ok (c', counts, n) => run_heads rest c' elapsed (acc ++ [counts]) (nerr + n)%nat
      | Err e => (acc, nerr, Err e)
      | Panic p => (acc, nerr, Panic p)
      | OutOfFuel => (acc, nerr, OutOfFuel)
      end
  end.

Definition fail_outcome (r : res unit) : outcome :=
  {| o_tracks := None; o_counts := []; o_decodeErrors := 0; o_end := r |}.

Definition client_run_gen (rp : repairs) (sc : scenario) (elapsed : Z) : outcome :=
  match primary_streams (sc_primary sc) with
  | Err e => fail_outcome (Err e) | Panic p => fail_outcome (Panic p) | OutOfFuel => fail_outcome OutOfFuel
  | Ok refs =>
      match heads rp sc refs with
      | Err e => fail_outcome (Err e) | Panic p => fail_outcome (Panic p) | OutOfFuel => fail_outcome OutOfFuel
      | Ok hs =>
          let tracks := List.concat (map head_tracks hs) in
          match tracks with
          | [] => fail_outcome (Err ENoSupportedTracks)
          | _ =>
              let exposed := Some (map t_codec tracks) in
              if sc_onTracksErr sc then
                {| o_tracks := exposed; o_counts := []; o_decodeErrors := 0; o_end := Err EOnTracks |}
              else
                let '(counts, nerr, e) := run_heads hs None elapsed [] 0 in
                {| o_tracks := exposed; o_counts := counts; o_decodeErrors := nerr; o_end := e |}
          end
      end
  end.

(* the tree before the repairs (regression witness), and /repo as it is now *)
Definition client_run : scenario -> Z -> outcome := client_run_gen no_repairs.
Definition client_run_fixed : scenario -> Z -> outcome := client_run_gen all_repairs.

(* ---------- hypotheses of the partial theorem ---------- *)
(* what mediacommon's parsers guarantee about a successfully parsed init *)
Definition init_wf (i : list init_track) : bool :=
  negb (zlen i =? 0) && forallb (fun t => match it_codec t with FNil => false | _ => true end) i.
Definition stream_wf (s : stream) : bool :=
  match s with
  | SF f => match fs_init f with Some i => init_wf i | None => true end
  | ST _ => true
  end.
Definition mc_wf (sc : scenario) : bool :=
  structural_ok (sc_primary sc) && forallb stream_wf (sc_streams sc).

(* the inputs the findings are about: an init track whose codec gohlslib has no decoder for
   (F5), an init track with time scale 0 *)
Definition init_supported (i : list init_track) : bool :=
  forallb (fun t => match FromFMP4 (it_codec t) with Some _ => true | None => false end) i.
Definition init_timescales_ok (i : list init_track) : bool :=
  forallb (fun t => negb (it_timescale t =? 0)) i.
Definition stream_supported (s : stream) : bool :=
  match s with
  | SF f => match fs_init f with Some i => init_supported i && init_timescales_ok i | None => true end
  | ST _ => true
  end.
Definition all_supported (sc : scenario) : bool := forallb stream_supported (sc_streams sc).
