(* The synchronisation skeletons the pc automata of Model/MuxConcPar.v were transcribed from.
   Props/C07.v proves them equal to what tools/muxconc extracts from /repo on every run.

   How the automata read them (pc names of Model/MuxConcPar.v):
     expected_serverHandle                 PStart -(table lookup)-> PCall   (hook server:looked-up)
     expected_handleMultivariantPlaylist   PLock FMulti -SLock-> PTest -> {m.closed: TExit R500 | hasContent: TExit R200Multi
                                           | SWait: PWaiting} ; SDeferUnlock = the PUnlock step on every exit
     expected_handleMediaPlaylist          the "case msn" function literal = frame FBlocking, the last one = FPlain;
                                           SDeferUnlock again covers every exit
     expected_preloadHint                  frame FHint: SLock without SDeferUnlock; the exit on s.closed is
                                           [SUnlock; SReturn] (TExit R500 through PUnlock); the normal path ends in
                                           SUnlock (PUnlockCall), after which the part's handler is called (or 404)
     expected_rotateParts / rotateSegments WIdle -SLock-> WLocked -(Inner)-> WRotated -SUnlock-> WUnlocked -SBroadcast-> WIdle
     expected_Close                        CLocked -[SSetClosed; SRange streams [SSetClosed]]-> CSet (all closed flags,
                                           under the mutex) -SUnlock-> CUnlocked -SBroadcast-> CStreams 0, then one
                                           SStreamClose per stream; expected_streamClose contains no SSetClosed any more
                                           (stream.close() only removes files) *)
From Coq Require Import List String.
From GoHls Require Import Model.MuxConcSkelIR.
Import ListNotations.
Local Open Scope string_scope.

Definition expected_Close : list sk :=
  [SLock; SSetClosed; SRange "m.streams" [SSetClosed]; SUnlock; SBroadcast; SHook "close:broadcasted"; SRange "m.streams" [SStreamClose]].

Definition expected_rotateParts : list sk :=
  [SLock; SUnlock; SHook "rotateParts:unlocked"; SIf "err != nil" [SReturn] []; SBroadcast; SReturn].

Definition expected_rotateSegments : list sk :=
  [SLock; SUnlock; SHook "rotateSegments:unlocked"; SIf "err != nil" [SReturn] []; SBroadcast; SReturn].

Definition expected_handleMultivariantPlaylist : list sk :=
  [SFunc [SLock; SDeferUnlock; SLoop [SIf "m.closed" [SReturn] []; SIf "m.streams[0].hasContent()" [SBreak] []; SHook "wait:multivariant"; SWait]; SIf "err != nil" [SReturn] []; SReturn]; SIf "buf == nil" [SReturn] []].

Definition expected_handleMediaPlaylist : list sk :=
  [SIf "s.variant == MuxerVariantLowLatency" [SIf "err != nil" [SReturn] []; SIf "case msn != """"" [SFunc [SLock; SDeferUnlock; SLoop [SIf "s.closed" [SReturn] []; SIf "msnint > (s.nextSegmentID+1) || msnint < (s.nextSegmentID-uint64(len(s.segments)-1))" [SReturn] []; SIf "s.hasContent() && ((part != """" && s.hasPart(msnint, partint)) || (part == """" && msnint < s.nextSegmentID))" [SBreak] []; SHook "wait:blocking-reload"; SWait]; SIf "err != nil" [SReturn] []; SReturn]; SReturn] []; SIf "case part != """"" [SReturn] []] []; SFunc [SLock; SDeferUnlock; SLoop [SIf "s.closed" [SReturn] []; SIf "s.hasContent()" [SBreak] []; SHook "wait:media-playlist"; SWait]; SIf "err != nil" [SReturn] []; SReturn]].

Definition expected_preloadHint : list sk :=
  [SLock; SLoop [SIf "s.closed" [SUnlock; SReturn] []; SIf "s.nextPartID > capturePartID" [SBreak] []; SHook "wait:preload-hint"; SWait]; SUnlock].

Definition expected_serverHandle : list sk :=
  [SRLock; SRUnlock; SHook "server:looked-up"].

Definition expected_streamClose : list sk :=
  [].

