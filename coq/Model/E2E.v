(* C09 - thin composition layer between the muxer model (Model/Mux.v), the client content model
   (Model/ClientContent.v) and the client time model (Model/ClientTime.v). Definitions only; no model
   is copied: everything here either transcribes a small piece of Go that none of the three models
   contains, or converts the output records of one model into the input records of another.

   Transcribed Go:
     pkg/codecparams/marshal.go   Marshal: the constant prefix of the RFC 6381 string per codec
                                  ([codec_string]; the rest of the string is the suffix argument:
                                  SPS / sequence-header parsing is an oracle)
     pkg/codecs/fromto_fmp4.go    ToFMP4        pkg/codecs/fromto_mpegts.go   ToMPEGTS
     client_stream_processor_fmp4.go run: Name / Language / IsDefault are copied from the rendition
                                  (EXT-X-MEDIA entry) of a NON-leading stream; the leading stream's
                                  tracks get "", "", false                      -> [client_attrs]
     client_stream_processor_mpegts.go initializeReader: tracks are {Codec, ClockRate: 90000}
     muxer_stream.go              populateMultivariantPlaylist: GROUP-ID "audio", AUDIO="audio",
                                  URI = mediaPlaylistPath(stream id)            -> [umulti_of]
     client_stream_processor_fmp4.go processSegment (fixes d590576 + c9db2ec): a segment / Low-Latency part
                                  whose parts hold no track is skipped, except by a leading stream that has
                                  not created the time converter yet (Model/ClientTime.v, C10's model, has
                                  no such segments in its space and keeps the error)  -> [skip_empty], [client_view]
   Conversions: muxer multivariant record -> client multivariant record ([umulti_of]); muxer segment
   / part / sample records -> parsed fMP4 content of the client time model ([to_stream]). *)
From Coq Require Import List ZArith Bool String.
From GoHls Require Model.Mux Model.ClientTime Model.ClientContent.
Import ListNotations.
Local Open Scope Z_scope.
Local Open Scope string_scope.

(* ---------------------------------------------------------------- codec strings *)
Definition codec_string (k : Mux.ckind) (sfx : string) : string :=
  match k with
  | Mux.H264 => "avc1." ++ sfx
  | Mux.H265 => "hvc1." ++ sfx
  | Mux.VP9 => "vp09." ++ sfx
  | Mux.AV1 => "av01." ++ sfx
  | Mux.AAC => "mp4a.40." ++ sfx
  | Mux.OPUS => "opus"
  end.

(* ---------------------------------------------------------------- codec conversions *)
Definition ToFMP4 (k : Mux.ckind) : ClientContent.fcodec :=
  match k with
  | Mux.AV1 => ClientContent.FAV1 | Mux.VP9 => ClientContent.FVP9
  | Mux.H265 => ClientContent.FH265 | Mux.H264 => ClientContent.FH264
  | Mux.OPUS => ClientContent.FOpus | Mux.AAC => ClientContent.FMPEG4Audio
  end.

(* nil for everything but H264 and MPEG-4 Audio (Muxer.Start rejects those for the MPEG-TS variant) *)
Definition ToMPEGTS (k : Mux.ckind) : ClientContent.tcodec :=
  match k with
  | Mux.H264 => ClientContent.TH264
  | Mux.AAC => ClientContent.TMPEG4Audio
  | _ => ClientContent.TNil
  end.

Definition gkind (k : Mux.ckind) : ClientContent.gcodec :=
  match k with
  | Mux.AV1 => ClientContent.GAV1 | Mux.VP9 => ClientContent.GVP9
  | Mux.H265 => ClientContent.GH265 | Mux.H264 => ClientContent.GH264
  | Mux.OPUS => ClientContent.GOpus | Mux.AAC => ClientContent.GMPEG4Audio
  end.

(* ---------------------------------------------------------------- multivariant: muxer -> client *)
(* the media playlist of the stream whose id number is [num] ("video<num>" / "audio<num>"; 0 = "main");
   the resource it names is the stream index *)
Definition stream_uri (num : Z) : ClientContent.uri :=
  {| ClientContent.u_parse_ok := true; ClientContent.u_empty := false;
     ClientContent.u_res := Z.to_nat (num - 1) |}.

Definition umulti_of (sfx : Mux.ckind * Z -> string) (mv : Mux.multivariant) : ClientContent.umulti :=
  {| ClientContent.mv_variants :=
       [Some {| ClientContent.v_codecs := map (fun c => codec_string (fst c) (sfx c)) (Mux.mv_codecs mv);
                ClientContent.v_bandwidth := Mux.mv_bandwidth mv;
                ClientContent.v_uri := match Mux.mv_uri mv with
                                       | Some (_, num) => stream_uri num
                                       | None => stream_uri 0
                                       end;
                ClientContent.v_audio := if Mux.mv_audio mv then "audio" else "" |}];
     ClientContent.mv_renditions :=
       map (fun r => Some {| ClientContent.r_groupID := "audio";
                             ClientContent.r_uri := if Mux.r_hasuri r then Some (stream_uri (Mux.r_num r))
                                                    else None |})
           (Mux.mv_renditions mv) |}.

(* the fields of the multivariant playlist that do not depend on the content written so far
   (gen_multivariant additionally needs hasContent and computes the bandwidth figures) *)
Definition static_multivariant (m : Mux.mstate) : Mux.multivariant :=
  let ts := Mux.all_stream_tracks m in
  {| Mux.mv_version := match Mux.c_variant (Mux.m_cfg m) with Mux.MPEGTS => 3 | _ => 9 end;
     Mux.mv_bandwidth := 0; Mux.mv_avg := 0;
     Mux.mv_codecs := Mux.dedup_codecs [] ts;
     Mux.mv_video := match filter (fun t => Mux.isVideo (Mux.t_kind (Mux.tk_cfg t))) ts with
                     | t :: _ => Some (Mux.t_kind (Mux.tk_cfg t), Mux.tk_params t) | [] => None end;
     Mux.mv_uri := match filter Mux.st_leading (Mux.m_streams m) with
                   | s :: _ => Some (Mux.st_isvideo s, Mux.st_num s) | [] => None end;
     Mux.mv_audio := existsb Mux.st_rendition (Mux.m_streams m);
     Mux.mv_renditions := map (fun s => {| Mux.r_isvideo := Mux.st_isvideo s; Mux.r_num := Mux.st_num s;
                                           Mux.r_name := Mux.st_name s; Mux.r_lang := Mux.st_lang s;
                                           Mux.r_default := Mux.st_default s;
                                           Mux.r_hasuri := negb (Mux.st_leading s) |})
                              (filter Mux.st_rendition (Mux.m_streams m)) |}.

(* the streams clientPrimaryDownloader.run starts when pointed at the muxer's index.m3u8 *)
Definition client_streams (sfx : Mux.ckind * Z -> string) (mv : Mux.multivariant)
  : ClientContent.res (list (bool * option nat)) :=
  ClientContent.primary_streams (ClientContent.PLMulti (umulti_of sfx mv)).

(* ---------------------------------------------------------------- tracks the client reports *)
Record ctrack := { ct_kind : option ClientContent.gcodec; ct_rate : Z;
                   ct_name : Z;       (* -1 = "", 0 = the stream id, k > 0 = the k-th user name *)
                   ct_lang : Z; ct_default : bool }.

(* Name / Language / IsDefault of the tracks of a stream processor *)
Definition client_attrs (isLeading : bool) (s : Mux.stream) : Z * Z * bool :=
  if isLeading then (-1, 0, false)
  else (Mux.st_name s, Mux.st_lang s, Mux.st_default s).    (* p.rendition.Name / Language / Default *)

(* what the muxer advertised for a stream: an EXT-X-MEDIA entry exists iff it is a rendition *)
Definition advertised_attrs (s : Mux.stream) : option (Z * Z * bool) :=
  if Mux.st_rendition s then Some (Mux.st_name s, Mux.st_lang s, Mux.st_default s) else None.

(* tracks of the fMP4 stream with index si as the client reports them: the init holds one track per
   stream track with codec ToFMP4(kind) and time scale fmp4TimeScale *)
Definition fmp4_stream_tracks (m : Mux.mstate) (isLeading : bool) (si : nat) : list ctrack :=
  match nth_error (Mux.m_streams m) si with
  | None => []
  | Some s =>
      let '(n, l, d) := client_attrs isLeading s in
      flat_map (fun ti => match nth_error (Mux.m_tracks m) ti with
                          | Some t =>
                              match ClientContent.FromFMP4 (ToFMP4 (Mux.t_kind (Mux.tk_cfg t))) with
                              | Some g => [{| ct_kind := Some g; ct_rate := Mux.fmp4TimeScale (Mux.tk_cfg t);
                                              ct_name := n; ct_lang := l; ct_default := d |}]
                              | None => []
                              end
                          | None => []
                          end) (Mux.st_tracks s)
  end.

(* tracks of the MPEG-TS stream: PMT entries ToMPEGTS(kind), kept when FromMPEGTS knows them *)
Definition mpegts_stream_tracks (m : Mux.mstate) : list ctrack :=
  flat_map (fun t => match ClientContent.FromMPEGTS (ToMPEGTS (Mux.t_kind (Mux.tk_cfg t))) with
                     | Some g => [{| ct_kind := Some g; ct_rate := 90000; ct_name := -1; ct_lang := 0;
                                     ct_default := false |}]
                     | None => []
                     end) (Mux.m_tracks m).

Inductive plan := PNoStart | PNoVariant | POther | PTracks (l : list ctrack).

(* OnTracks of a Client pointed at index.m3u8 ([index]) or at the media playlist of stream [target] *)
Definition client_plan (c : Mux.cfg) (index : bool) (target : nat) : plan :=
  match Mux.start c with
  | Mux.Ok m =>
      match Mux.c_variant (Mux.m_cfg m) with
      | Mux.MPEGTS => PTracks (mpegts_stream_tracks m)
      | _ =>
          if index then
            match client_streams (fun _ => "") (static_multivariant m) with
            | ClientContent.Ok l =>
                PTracks (flat_map (fun x => match snd x with
                                            | Some si => fmp4_stream_tracks m (fst x) si
                                            | None => []
                                            end) l)
            | ClientContent.Err ClientContent.ENoVariants => PNoVariant
            | _ => POther
            end
          else PTracks (fmp4_stream_tracks m true target)
      end
  | _ => PNoStart
  end.

(* ---------------------------------------------------------------- time: muxer -> client *)
(* decode time the muxer puts into the container for a unit written with dts d on a track of rate r *)
Definition container_dts (d r : Z) : Z := d + Mux.durationToTimestamp Mux.fmp4StartDTS r.

(* the client's normalised time of that unit, the leading track's first delivered unit having been
   written with dts d0 (rate rl); fMP4 variants *)
Definition e2e_norm_fmp4 (r rl d d0 : Z) : ClientTime.res Z :=
  ClientTime.fmp4_convert {| ClientTime.leadingTimeScale := rl;
                             ClientTime.leadingBaseTime := container_dts d0 rl |}
                          (container_dts d r) r.

(* MPEG-TS: the muxer writes mulDiv(t, 90000, rate) (muxer_segment_mpegts.go), the client's
   TimeDecoder returns the distance from the first decoded value *)
Definition e2e_norm_mpegts (r rl d d0 : Z) : Z := Mux.mulDiv d 90000 r - Mux.mulDiv d0 90000 rl.

(* ---------------------------------------------------------------- content: muxer -> client *)
(* a finalized muxer part of a single-track stream as fmp4.Parts.Unmarshal hands it to the client:
   track id 1 (muxerPart.finalize: ID = 1 + i), the part track is present iff the track had samples *)
Definition to_sample (s : Mux.sample) : ClientTime.sample :=
  {| ClientTime.s_duration := Mux.s_dur s; ClientTime.s_ptsOffset := Mux.s_ptsoff s;
     ClientTime.s_payload := Mux.s_pay s; ClientTime.s_elapsed := 0 |}.

Definition to_part (p : Mux.part) : ClientTime.part :=
  if Mux.p_hastrack p
  then [{| ClientTime.pt_id := 1; ClientTime.pt_baseTime := Mux.p_base p;
           ClientTime.pt_samples := map to_sample (Mux.p_samples p); ClientTime.pt_anchor := O |}]
  else [].

(* a segment downloaded whole, with the date the playlist entry carried (if any) *)
Definition to_segment (date : option Z) (g : Mux.segrec) : ClientTime.segment :=
  {| ClientTime.sg_dateTime := date; ClientTime.sg_parts := map to_part (Mux.sg_parts g) |}.

(* a single-track stream whose init declares time scale [r] *)
Definition to_stream (r : Z) (isVideo : bool) (segs : list (option Z * Mux.segrec)) : ClientTime.stream :=
  {| ClientTime.st_init := [{| ClientTime.it_id := 1; ClientTime.it_timeScale := r;
                               ClientTime.it_isVideo := isVideo |}];
     ClientTime.st_segments := map (fun x => to_segment (fst x) (snd x)) segs |}.

(* ---------------------------------------------------------------- segments without tracks *)
(* empty := true; for _, part := range parts { if len(part.Tracks) != 0 { empty = false } } *)
Definition seg_is_empty (s : ClientTime.segment) : bool :=
  forallb (fun p : ClientTime.part => match p with [] => true | _ :: _ => false end) (ClientTime.sg_parts s).

(* what a stream processor acts on: "if empty && (!p.isLeading || p.trackProcessors != nil) { return nil }";
   [started] = the stream is a rendition, or its track processors exist (they are created by the first
   segment that is processed). An empty segment that is NOT skipped stays in the list: the client time
   model answers it with "could not find data of leading track", like the code. *)
Fixpoint skip_empty (started : bool) (segs : list ClientTime.segment) : list ClientTime.segment :=
  match segs with
  | [] => []
  | s :: r =>
      if seg_is_empty s then (if started then skip_empty started r else s :: skip_empty started r)
      else s :: skip_empty true r
  end.

Definition client_view (isLeading : bool) (st : ClientTime.stream) : ClientTime.stream :=
  {| ClientTime.st_init := ClientTime.st_init st;
     ClientTime.st_segments := skip_empty (negb isLeading) (ClientTime.st_segments st) |}.
