(* MuxAtomic - lock skeletons of the muxer's rotation and playlist code, their interleaving
   semantics, and the decidable check [atomic_rotation] (definitions only; the proofs are in
   Proofs/MuxAtomic.v, the skeleton regenerated from /repo on every run is
   Generated/MuxCritSec.v, written by tools/critsec).

   C04, last sentence: "All streams of one muxer (video and audio renditions) expose the same
   media sequence numbers and durations at the same time."  Mechanism: all streams are rotated
   inside ONE critical section of Muxer.mutex (muxer.go rotateSegments / rotateParts) and every
   playlist is generated under the same mutex.

   A skeleton is the control structure of a Go function reduced to the events that matter
   here: operations on Muxer.mutex (muxerStream.mutex is the same object: the translator
   checks the aliasing), cond.Wait on its condition variable, calls of the per-stream
   rotation methods (AMut), copies of per-stream fields (AWrite), calls that can return an
   error, reads of the playlist state (SRead), loops, branches, early returns, defers, calls.

   Per-stream state is abstracted to the HISTORY of rotations applied to the stream: a list of
   (kind, nextDTS).  The number of segments published (hence MEDIA-SEQUENCE, which is
   max 0 (published - SegmentCount) by C04's sequential theorems) and the duration of every
   segment (difference of successive rotation instants) are functions of that history, which
   is why "all histories are equal" is the statement proved. *)
From Coq Require Import List ZArith Bool String Arith.
Import ListNotations.

(* ------------------------------------------------------------------ skeleton language *)
Inductive kind := KSeg | KParts.          (* muxerStream.rotateSegments / muxerStream.rotateParts *)

(* which stream an event is about *)
Inductive who :=
| WLeading      (* m.leadingStream *)
| WCur          (* the loop variable of [for _, stream := range m.streams] *)
| WSelf         (* the receiver of a muxerStream method *)
| WFirst.       (* m.streams[0] *)

(* statements without sub-bodies *)
Inductive atom :=
| ALock | AUnlock | ADeferUnlock          (* Muxer.mutex: Lock(), Unlock(), defer Unlock() *)
| AMut (k : kind) (w : who)               (* call of a per-stream rotation; may return an error *)
| AWrite (f : string) (w : who)           (* assignment to a playlist-visible field of a stream *)
| AFallible (what : string)               (* other call whose error result is kept *)
| ARead (what : string) (w : who)         (* read of playlist-visible stream state by the generate functions *)
| AWait                                   (* cond.Wait(), cond.L = Muxer.mutex *)
| ANote (what : string).                  (* Broadcast, verifHook, user callback, other mutex: no effect here *)

(* a statement list in "cons" form: every constructor carries the statements that follow it
   ([rest]); PBreak / PReturn end the list (what follows them in the source is dead code) *)
Inductive prog :=
| PDone
| PAtom (a : atom) (rest : prog)
| PBreak | PReturn
| PCall (f : string) (rest : prog)         (* static call of a translated function *)
| PIfErr (body els rest : prog)            (* if err != nil { body } else { els } *)
| PIfNL (body rest : prog)                 (* if !stream.isLeading { body } on the loop variable *)
| PBranch (x y rest : prog)                (* any other if / else, switch *)
| PFor (body rest : prog)                  (* for _, stream := range m.streams { body } *)
| PNext (body rest : prog)                 (* the same loop after some iterations (semantics only) *)
| PLoop (body rest : prog)                 (* for { body } *)
| PFn (name : string) (body rest : prog).  (* an inlined call or an immediately invoked func literal:
                                              scope of return and of defer *)

Notation "a ;; p" := (PAtom a p) (at level 60, right associativity).

(* ------------------------------------------------------------------ flat events, big-step runs *)
Definition rot := (kind * Z)%type.
Definition hist := list rot.

Inductive fev :=
| FLock | FUnlock
| FMut (i : nat) (r : rot)     (* stream i gets rotation r appended *)
| FFail                        (* a call returned an error *)
| FTouch                       (* field copy *)
| FRead.                       (* playlist state is read *)

Record lstate := { l_failed : bool; l_cur : nat; l_dn : nat }.
Definition set_failed (s : lstate) := {| l_failed := true; l_cur := l_cur s; l_dn := l_dn s |}.
Definition set_cur (s : lstate) (c : nat) := {| l_failed := l_failed s; l_cur := c; l_dn := l_dn s |}.
Definition set_dn (s : lstate) (d : nat) := {| l_failed := l_failed s; l_cur := l_cur s; l_dn := d |}.

Inductive outc := ONormal | OBreak | OReturn | OCut.

Section Sem.
  Variables (n ld : nat) (arg : Z).   (* number of streams, index of the leading one, nextDTS *)

  Definition resolve (w : who) (s : lstate) : option nat :=
    match w with WLeading => Some ld | WCur => Some (l_cur s) | _ => None end.

  Inductive atomic_step : atom -> lstate -> list fev -> lstate -> Prop :=
  | A_lock s : atomic_step ALock s [FLock] s
  | A_unlock s : atomic_step AUnlock s [FUnlock] s
  | A_defer s : atomic_step ADeferUnlock s [] (set_dn s (S (l_dn s)))
  | A_mut k w s i : resolve w s = Some i -> atomic_step (AMut k w) s [FMut i (k, arg)] s
  | A_mut_fail1 k w s i : resolve w s = Some i ->
      atomic_step (AMut k w) s [FMut i (k, arg); FFail] (set_failed s)
  | A_mut_fail0 k w s : atomic_step (AMut k w) s [FFail] (set_failed s)
  | A_write f w s : atomic_step (AWrite f w) s [FTouch] s
  | A_fallible_ok x s : atomic_step (AFallible x) s [] s
  | A_fallible_err x s : atomic_step (AFallible x) s [FFail] (set_failed s)
  | A_read x w s : atomic_step (ARead x w) s [FRead] s
  | A_wait s : atomic_step AWait s [FUnlock; FLock] s
  | A_note x s : atomic_step (ANote x) s [] s.

  (* conditionals: [choose p s body rest]: p is a conditional whose chosen branch is body *)
  Inductive choose : prog -> lstate -> prog -> prog -> Prop :=
  | C_iferr_else b e r s : choose (PIfErr b e r) s e r
  | C_iferr_take b e r s : l_failed s = true -> choose (PIfErr b e r) s b r
  | C_nl_take b r s : l_cur s <> ld -> choose (PIfNL b r) s b r
  | C_nl_skip b r s : l_cur s = ld -> choose (PIfNL b r) s PDone r
  | C_br_l x y r s : choose (PBranch x y r) s x r
  | C_br_r x y r s : choose (PBranch x y r) s y r.

  (* [bsl p s t o s']: running p from s emits t and ends with outcome o in s'.
     OCut: the run is stopped at an arbitrary point (prefix closure: a thread need not finish). *)
  Inductive bsl : prog -> lstate -> list fev -> outc -> lstate -> Prop :=
  | B_done s : bsl PDone s [] ONormal s
  | B_cut p s : bsl p s [] OCut s
  | B_atomic a rest s ev s1 t o s' :
      atomic_step a s ev s1 -> bsl rest s1 t o s' -> bsl (PAtom a rest) s (ev ++ t) o s'
  | B_break s : bsl PBreak s [] OBreak s
  | B_return s : bsl PReturn s [] OReturn s
  | B_cond_n p s body rest t1 s1 t2 o s' :
      choose p s body rest -> bsl body s t1 ONormal s1 -> bsl rest s1 t2 o s' ->
      bsl p s (t1 ++ t2) o s'
  | B_cond_x p s body rest t1 o s1 :
      choose p s body rest -> bsl body s t1 o s1 -> o <> ONormal -> bsl p s t1 o s1
  | B_fn name body rest s t1 o1 s1 t2 o s' :
      bsl body (set_dn s 0) t1 o1 s1 -> (o1 = ONormal \/ o1 = OReturn) ->
      bsl rest (set_dn s1 (l_dn s)) t2 o s' ->
      bsl (PFn name body rest) s (t1 ++ repeat FUnlock (l_dn s1) ++ t2) o s'
  | B_fn_cut name body rest s t1 s1 :
      bsl body (set_dn s 0) t1 OCut s1 -> bsl (PFn name body rest) s t1 OCut s1
  | B_for body rest s t o s' :
      bsl (PNext body rest) (set_cur s 0) t o s' -> bsl (PFor body rest) s t o s'
  | B_next_done body rest s t o s' :
      n <= l_cur s -> bsl rest s t o s' -> bsl (PNext body rest) s t o s'
  | B_next_iter body rest s t1 s1 t2 o s' :
      l_cur s < n -> bsl body s t1 ONormal s1 ->
      bsl (PNext body rest) (set_cur s1 (S (l_cur s))) t2 o s' ->
      bsl (PNext body rest) s (t1 ++ t2) o s'
  | B_next_break body rest s t1 s1 t2 o s' :
      l_cur s < n -> bsl body s t1 OBreak s1 -> bsl rest s1 t2 o s' ->
      bsl (PNext body rest) s (t1 ++ t2) o s'
  | B_next_x body rest s t1 o s1 :
      l_cur s < n -> bsl body s t1 o s1 -> (o = OReturn \/ o = OCut) ->
      bsl (PNext body rest) s t1 o s1
  | B_loop_iter body rest s t1 s1 t2 o s' :
      bsl body s t1 ONormal s1 -> bsl (PLoop body rest) s1 t2 o s' ->
      bsl (PLoop body rest) s (t1 ++ t2) o s'
  | B_loop_break body rest s t1 s1 t2 o s' :
      bsl body s t1 OBreak s1 -> bsl rest s1 t2 o s' -> bsl (PLoop body rest) s (t1 ++ t2) o s'
  | B_loop_x body rest s t1 o s1 :
      bsl body s t1 o s1 -> (o = OReturn \/ o = OCut) -> bsl (PLoop body rest) s t1 o s1.
End Sem.

(* ------------------------------------------------------------------ sequential safety of a trace *)
Definition alleq (ss : list hist) : Prop :=
  forall i j a b, nth_error ss i = Some a -> nth_error ss j = Some b -> a = b.

Fixpoint upd (ss : list hist) (i : nat) (r : rot) : list hist :=
  match ss, i with
  | [], _ => []
  | h :: tl, O => (h ++ [r]) :: tl
  | h :: tl, S i' => h :: upd tl i' r
  end.

Record wstate := { w_held : bool; w_failed : bool; w_ss : list hist }.
Definition w_set_held (w : wstate) (b : bool) := {| w_held := b; w_failed := w_failed w; w_ss := w_ss w |}.
Definition w_set_failed (w : wstate) := {| w_held := w_held w; w_failed := true; w_ss := w_ss w |}.
Definition w_upd (w : wstate) i r := {| w_held := w_held w; w_failed := w_failed w; w_ss := upd (w_ss w) i r |}.

Definition wapply (w : wstate) (e : fev) : wstate :=
  match e with
  | FLock => w_set_held w true
  | FUnlock => w_set_held w false
  | FMut i r => w_upd w i r
  | FFail => w_set_failed w
  | _ => w
  end.

(* what the thread may do in w: take the mutex only when it does not hold it, release it only
   when it holds it AND the streams agree (or a rotation has failed before), mutate / read only
   while holding it *)
Definition wok (w : wstate) (e : fev) : Prop :=
  match e with
  | FLock => w_held w = false
  | FUnlock => w_held w = true /\ (w_failed w = true \/ alleq (w_ss w))
  | FMut _ _ => w_held w = true
  | FFail => True
  | FTouch | FRead => w_held w = true
  end.

Fixpoint wsafe (w : wstate) (t : list fev) : Prop :=
  match t with
  | [] => True
  | e :: t' => wok w e /\ wsafe (wapply w e) t'
  end.

Definition wfinal (w : wstate) (t : list fev) : wstate := fold_left wapply t w.

(* a thread that never mutates: lock discipline, reads only under the mutex *)
Fixpoint rsafe (held : bool) (t : list fev) : Prop :=
  match t with
  | [] => True
  | FLock :: t' => held = false /\ rsafe true t'
  | FUnlock :: t' => held = true /\ rsafe false t'
  | FMut _ _ :: _ => False
  | FFail :: t' => rsafe held t'
  | (FTouch | FRead) :: t' => held = true /\ rsafe held t'
  end.

(* ------------------------------------------------------------------ the interleaving semantics
   thread 0 is the writer (the goroutine calling the Write methods), threads 1.. are HTTP handlers.  Every
   thread has a flat trace still to perform; a step performs the head event of one thread.
   sync.Mutex: Lock needs the mutex free; Unlock frees it whoever holds it (Go permits unlocking
   from another goroutine) and is fatal when it is free (no step). *)
Record gstate := { g_ss : list hist; g_failed : bool; g_holder : option nat; g_thr : list (list fev) }.

Fixpoint set_nth {A} (l : list A) (i : nat) (x : A) : list A :=
  match l, i with
  | [], _ => []
  | _ :: tl, O => x :: tl
  | h :: tl, S i' => h :: set_nth tl i' x
  end.

Inductive gstep : gstate -> gstate -> Prop :=
| G_lock g t rest : nth_error (g_thr g) t = Some (FLock :: rest) -> g_holder g = None ->
    gstep g {| g_ss := g_ss g; g_failed := g_failed g; g_holder := Some t; g_thr := set_nth (g_thr g) t rest |}
| G_unlock g t rest h : nth_error (g_thr g) t = Some (FUnlock :: rest) -> g_holder g = Some h ->
    gstep g {| g_ss := g_ss g; g_failed := g_failed g; g_holder := None; g_thr := set_nth (g_thr g) t rest |}
| G_mut g t i r rest : nth_error (g_thr g) t = Some (FMut i r :: rest) ->
    gstep g {| g_ss := upd (g_ss g) i r; g_failed := g_failed g; g_holder := g_holder g; g_thr := set_nth (g_thr g) t rest |}
| G_fail g t rest : nth_error (g_thr g) t = Some (FFail :: rest) ->
    gstep g {| g_ss := g_ss g; g_failed := (if Nat.eqb t 0 then true else g_failed g);
               g_holder := g_holder g; g_thr := set_nth (g_thr g) t rest |}
| G_touch g t rest : nth_error (g_thr g) t = Some (FTouch :: rest) ->
    gstep g {| g_ss := g_ss g; g_failed := g_failed g; g_holder := g_holder g; g_thr := set_nth (g_thr g) t rest |}
| G_read g t rest : nth_error (g_thr g) t = Some (FRead :: rest) ->
    gstep g {| g_ss := g_ss g; g_failed := g_failed g; g_holder := g_holder g; g_thr := set_nth (g_thr g) t rest |}.

Inductive greach (g0 : gstate) : gstate -> Prop :=
| R_refl : greach g0 g0
| R_step g g' : greach g0 g -> gstep g g' -> greach g0 g'.

Definition ginit (ss0 : list hist) (thr : list (list fev)) : gstate :=
  {| g_ss := ss0; g_failed := false; g_holder := None; g_thr := thr |}.

(* handler thread t is about to read the playlist state: what it can see is g_ss *)
Definition reads (g : gstate) (t : nat) : Prop :=
  t <> 0 /\ exists rest, nth_error (g_thr g) t = Some (FRead :: rest).

(* what a playlist shows of a history *)
Definition seg_count (h : hist) : nat :=
  List.length (filter (fun r => match fst r with KSeg => true | _ => false end) h).
Definition seg_instants (h : hist) : list Z :=
  map snd (filter (fun r => match fst r with KSeg => true | _ => false end) h).
Definition part_instants (h : hist) : list Z := map snd h.

(* ------------------------------------------------------------------ the check: abstract interpretation *)
Inductive phase :=
| PAgree                                   (* all streams have the same history *)
| PLead (k : kind)                         (* the leading stream is one rotation (k, arg) ahead *)
| PMid (k : kind) (ldd : bool)             (* in the streams loop, between iterations: streams below
                                              the loop index are ahead (and the leading one if ldd) *)
| PIter (k : kind) (ldd cl cd : bool)      (* inside an iteration: cl = the loop variable is the
                                              leading stream, cd = it has been rotated in this iteration *)
| PPure.                                   (* inside a streams loop that rotates nothing *)

(* a_ph = None: some call has (possibly) failed before; only the lock discipline is checked then *)
Record astate := { a_held : bool; a_ph : option phase; a_dn : nat }.
Definition a_set_held a b := {| a_held := b; a_ph := a_ph a; a_dn := a_dn a |}.
Definition a_set_ph a p := {| a_held := a_held a; a_ph := p; a_dn := a_dn a |}.
Definition a_set_dn a d := {| a_held := a_held a; a_ph := a_ph a; a_dn := d |}.

Definition kind_eqb (a b : kind) : bool :=
  match a, b with KSeg, KSeg | KParts, KParts => true | _, _ => false end.

Definition phase_eqb (p q : phase) : bool :=
  match p, q with
  | PAgree, PAgree | PPure, PPure => true
  | PLead k, PLead k' => kind_eqb k k'
  | PMid k l, PMid k' l' => kind_eqb k k' && Bool.eqb l l'
  | PIter k a b c, PIter k' a' b' c' => kind_eqb k k' && Bool.eqb a a' && Bool.eqb b b' && Bool.eqb c c'
  | _, _ => false
  end.

Definition oph_eqb (p q : option phase) : bool :=
  match p, q with
  | None, None => true
  | Some x, Some y => phase_eqb x y
  | _, _ => false
  end.

Definition astate_eqb (a b : astate) : bool :=
  Bool.eqb (a_held a) (a_held b) && oph_eqb (a_ph a) (a_ph b) && Nat.eqb (a_dn a) (a_dn b).

(* phases in which the mutex may be released *)
Definition ph_ok (p : option phase) : bool :=
  match p with None | Some PAgree | Some PPure => true | _ => false end.

Definition outs := list (outc * astate).

(* successor abstract states of a statement without sub-bodies; None = rejected *)
Definition astep (st : atom) (a : astate) : option (list astate) :=
  match st with
  | ALock => if a_held a then None else Some [a_set_held a true]
  | AUnlock => if a_held a && ph_ok (a_ph a) then Some [a_set_held a false] else None
  | ADeferUnlock => Some [a_set_dn a (S (a_dn a))]
  | AMut k w =>
      if a_held a then
        match a_ph a, w with
        | None, (WLeading | WCur) => Some [a]
        | Some PAgree, WLeading => Some [a_set_ph a (Some (PLead k)); a_set_ph a None]
        | Some (PIter k' ldd cl false), WCur =>
            if kind_eqb k k' && negb (cl && ldd)
            then Some [a_set_ph a (Some (PIter k' ldd cl true)); a_set_ph a None] else None
        | _, _ => None
        end
      else None
  | AWrite _ _ => if a_held a then Some [a] else None
  | AFallible _ => Some [a; a_set_ph a None]
  | ARead _ _ => if a_held a then Some [a] else None
  | AWait => if a_held a && ph_ok (a_ph a) then Some [a] else None
  | ANote _ => Some [a]
  end.

(* bindO os f: continue every outcome of os with f *)
Fixpoint bindO (os : outs) (f : outc -> astate -> option outs) : option outs :=
  match os with
  | [] => Some []
  | (o, a) :: tl =>
      match f o a, bindO tl f with
      | Some r, Some r' => Some (r ++ r')
      | _, _ => None
      end
  end.

Definition seqO (x : option outs) (f : outc -> astate -> option outs) : option outs :=
  match x with Some os => bindO os f | None => None end.

Definition join (x y : option outs) : option outs :=
  match x, y with Some a, Some b => Some (a ++ b) | _, _ => None end.

(* Normal continues with k, everything else propagates *)
Definition contN (k : astate -> option outs) (o : outc) (a : astate) : option outs :=
  match o with ONormal => k a | _ => Some [(o, a)] end.

Fixpoint joinl (l : list astate) (k : astate -> option outs) : option outs :=
  match l with
  | [] => Some []
  | a :: tl => join (k a) (joinl tl k)
  end.

(* deferred unlocks at function exit *)
Fixpoint unl (d : nat) (a : astate) : option astate :=
  match d with
  | O => Some a
  | S d' => if a_held a && ph_ok (a_ph a) then unl d' (a_set_held a false) else None
  end.

Definition fn_exit (dn0 : nat) (k : astate -> option outs) (o : outc) (a : astate) : option outs :=
  match o with
  | ONormal | OReturn =>
      match unl (a_dn a) a with
      | Some a' => k (a_set_dn a' dn0)
      | None => None
      end
  | _ => None
  end.

(* for { body }: every iteration must come back to the entry state *)
Definition loop_any (aib air : astate -> option outs) (a : astate) : option outs :=
  match aib a with
  | None => None
  | Some ob =>
      if forallb (fun oa => match fst oa with ONormal => astate_eqb (snd oa) a | _ => true end) ob
      then bindO ob (fun o a' => match o with ONormal => Some [] | OBreak => air a' | _ => Some [(o, a')] end)
      else None
  end.

(* the streams loop after a failure: lock discipline only *)
Definition for_failed (aib air : astate -> option outs) (a : astate) : option outs :=
  match aib a with
  | None => None
  | Some ob =>
      if forallb (fun oa => match fst oa with ONormal => astate_eqb (snd oa) a | _ => true end) ob
      then join (air a)
                (bindO ob (fun o a' => match o with ONormal => Some [] | OBreak => air a' | _ => Some [(o, a')] end))
      else None
  end.

Definition iter_done (p : option phase) (k : kind) (ldd : bool) : bool :=
  match p with
  | Some (PIter k' ldd' cl cd) => kind_eqb k k' && Bool.eqb ldd ldd' && (cd || (cl && ldd))
  | _ => false
  end.

Definition for_any (aib air : astate -> option outs) (a : astate) : option outs :=
  match a_ph a with
  | None => for_failed aib air a
  | Some (PMid k ldd) =>
      let aN := a_set_ph a None in
      let it cl := a_set_ph a (Some (PIter k ldd cl false)) in
      match for_failed aib air aN, aib (it true), aib (it false) with
      | Some rN, Some o1, Some o2 =>
          if forallb (fun oa =>
                        match fst oa with
                        | ONormal => astate_eqb (snd oa) aN
                                     || (Bool.eqb (a_held (snd oa)) (a_held a) && Nat.eqb (a_dn (snd oa)) (a_dn a)
                                         && iter_done (a_ph (snd oa)) k ldd)
                        | OBreak => match a_ph (snd oa) with None => true | _ => false end
                        | _ => true
                        end) (o1 ++ o2)
          then join (join (air (a_set_ph a (Some PAgree)))
                          (bindO (o1 ++ o2) (fun o a' => match o with ONormal => Some [] | OBreak => air a' | _ => Some [(o, a')] end)))
                    (Some rN)
          else None
      | _, _, _ => None
      end
  | Some PPure =>
      let aN := a_set_ph a None in
      match for_failed aib air aN, aib a with
      | Some rN, Some ob =>
          if forallb (fun oa =>
                        match fst oa with
                        | ONormal => astate_eqb (snd oa) aN || astate_eqb (snd oa) a
                        | OBreak => match a_ph (snd oa) with None | Some PPure => true | _ => false end
                        | _ => true
                        end) ob
          then join (join (air (a_set_ph a (Some PAgree)))
                          (bindO ob (fun o a' =>
                                       match o with
                                       | ONormal => Some []
                                       | OBreak => air (match a_ph a' with Some PPure => a_set_ph a' (Some PAgree) | _ => a' end)
                                       | _ => Some [(o, a')]
                                       end)))
                    (Some rN)
          else None
      | _, _ => None
      end
  | _ => None
  end.

(* first rotation kind in a statement list (to know what a streams loop rotates) *)
Definition orelse (x y : option kind) : option kind := match x with Some k => Some k | None => y end.

(* first rotation kind in a program (to know what a streams loop rotates) *)
Fixpoint first_mut (p : prog) : option kind :=
  match p with
  | PDone | PBreak | PReturn => None
  | PAtom (AMut k _) _ => Some k
  | PAtom _ rest => first_mut rest
  | PCall _ rest => first_mut rest
  | PIfNL b rest | PFor b rest | PNext b rest | PLoop b rest | PFn _ b rest =>
      orelse (first_mut b) (first_mut rest)
  | PIfErr x y rest | PBranch x y rest => orelse (first_mut x) (orelse (first_mut y) (first_mut rest))
  end.

Definition enter_for (body : prog) (a : astate) : option astate :=
  match a_ph a with
  | None => Some a
  | Some PAgree =>
      match first_mut body with
      | Some k => Some (a_set_ph a (Some (PMid k false)))
      | None => Some (a_set_ph a (Some PPure))
      end
  | Some (PLead k) => Some (a_set_ph a (Some (PMid k true)))
  | _ => None
  end.

Fixpoint ai (p : prog) (a : astate) {struct p} : option outs :=
  match p with
  | PDone => Some [(ONormal, a)]
  | PBreak => Some [(OBreak, a)]
  | PReturn => Some [(OReturn, a)]
  | PCall _ _ => None
  | PAtom st rest =>
      match astep st a with
      | Some l' => joinl l' (ai rest)
      | None => None
      end
  | PIfErr b e rest =>
      match a_ph a with
      | None => join (seqO (ai b a) (contN (ai rest))) (seqO (ai e a) (contN (ai rest)))
      | Some _ => seqO (ai e a) (contN (ai rest))
      end
  | PIfNL b rest =>
      match a_ph a with
      | Some (PIter _ _ true _) => ai rest a
      | Some (PIter _ _ false _) => seqO (ai b a) (contN (ai rest))
      | None | Some PPure => join (seqO (ai b a) (contN (ai rest))) (ai rest a)
      | _ => None
      end
  | PBranch x y rest => join (seqO (ai x a) (contN (ai rest))) (seqO (ai y a) (contN (ai rest)))
  | PFn _ b rest => seqO (ai b (a_set_dn a 0)) (fn_exit (a_dn a) (ai rest))
  | PFor b rest =>
      match enter_for b a with
      | Some a1 => for_any (ai b) (ai rest) a1
      | None => None
      end
  | PNext b rest => for_any (ai b) (ai rest) a
  | PLoop b rest => loop_any (ai b) (ai rest) a
  end.

(* ------------------------------------------------------------------ skeletons of a package *)
Record skeleton := {
  sk_fns : list (string * prog);        (* every translated function *)
  sk_writer : list string;              (* what the writer goroutine calls (segmenter -> Muxer) *)
  sk_readers : list string;             (* playlist handlers *)
  sk_mutators : list string             (* the per-stream methods an AMut stands for *)
}.

Fixpoint lookup (f : string) (fns : list (string * prog)) : option prog :=
  match fns with
  | [] => None
  | (g, b) :: tl => if String.eqb f g then Some b else lookup f tl
  end.

Definition omap2 {A B C} (f : A -> B -> C) (x : option A) (y : option B) : option C :=
  match x, y with Some a, Some b => Some (f a b) | _, _ => None end.

(* calls are replaced by the callee's body as a PFn scope; fuel bounds the call depth *)
Fixpoint inl (fuel : nat) (fns : list (string * prog)) : prog -> option prog :=
  fix go (p : prog) : option prog :=
    match p with
    | PDone => Some PDone
    | PBreak => Some PBreak
    | PReturn => Some PReturn
    | PAtom a rest => option_map (PAtom a) (go rest)
    | PCall f rest =>
        match fuel with
        | O => None
        | S fu => match lookup f fns with
                  | Some b => omap2 (PFn f) (inl fu fns b) (go rest)
                  | None => None
                  end
        end
    | PIfErr b e rest => match go b with Some b' => omap2 (PIfErr b') (go e) (go rest) | None => None end
    | PIfNL b rest => omap2 PIfNL (go b) (go rest)
    | PBranch x y rest => match go x with Some x' => omap2 (PBranch x') (go y) (go rest) | None => None end
    | PFor b rest => omap2 PFor (go b) (go rest)
    | PNext b rest => omap2 PNext (go b) (go rest)
    | PLoop b rest => omap2 PLoop (go b) (go rest)
    | PFn nm b rest => omap2 (PFn nm) (go b) (go rest)
    end.

Definition call_depth := 12.

Definition prog_of (sk : skeleton) (f : string) : option prog :=
  match lookup f (sk_fns sk) with
  | Some b => inl call_depth (sk_fns sk) b
  | None => None
  end.

(* no streams loop inside a streams loop (the semantics has one loop variable) *)
Fixpoint no_nested (inloop : bool) (p : prog) : bool :=
  match p with
  | PDone | PBreak | PReturn => true
  | PAtom _ rest | PCall _ rest => no_nested inloop rest
  | PFor b rest | PNext b rest => negb inloop && no_nested true b && no_nested inloop rest
  | PIfNL b rest | PLoop b rest | PFn _ b rest => no_nested inloop b && no_nested inloop rest
  | PIfErr x y rest | PBranch x y rest => no_nested inloop x && no_nested inloop y && no_nested inloop rest
  end.

Fixpoint no_mut (p : prog) : bool :=
  match p with
  | PDone | PBreak | PReturn => true
  | PAtom (AMut _ _) _ => false
  | PAtom _ rest | PCall _ rest => no_mut rest
  | PIfNL b rest | PFor b rest | PNext b rest | PLoop b rest | PFn _ b rest =>
      no_mut b && no_mut rest
  | PIfErr x y rest | PBranch x y rest => no_mut x && no_mut y && no_mut rest
  end.

(* the body of a per-stream rotation method must not touch the mutex: only then is AMut one event *)
Fixpoint lock_free (p : prog) : bool :=
  match p with
  | PDone | PBreak | PReturn => true
  | PAtom (ALock | AUnlock | ADeferUnlock | AWait) _ => false
  | PAtom _ rest => lock_free rest
  | PCall _ _ => false
  | PIfNL b rest | PFor b rest | PNext b rest | PLoop b rest | PFn _ b rest =>
      lock_free b && lock_free rest
  | PIfErr x y rest | PBranch x y rest => lock_free x && lock_free y && lock_free rest
  end.

Definition a_idle (failed : bool) : astate :=
  {| a_held := false; a_ph := if failed then None else Some PAgree; a_dn := 0 |}.

(* every outcome of a top-level call: returned normally, mutex free, streams agree (or failed) *)
Definition outs_idle (os : outs) : bool :=
  forallb (fun oa => match fst oa with ONormal => true | _ => false end
                     && negb (a_held (snd oa)) && ph_ok (a_ph (snd oa)) && Nat.eqb (a_dn (snd oa)) 0) os.

Definition entry_ok_from (f : string) (p : prog) (failed : bool) : bool :=
  match ai (PFn f p PDone) (a_idle failed) with
  | Some os => outs_idle os
  | None => false
  end.

Definition writer_entry_ok (sk : skeleton) (f : string) : bool :=
  match prog_of sk f with
  | Some p => no_nested false p && entry_ok_from f p false && entry_ok_from f p true
  | None => false
  end.

Definition reader_entry_ok (sk : skeleton) (f : string) : bool :=
  match prog_of sk f with
  | Some p => no_nested false p && no_mut p && entry_ok_from f p false
  | None => false
  end.

Definition mutator_ok (sk : skeleton) (f : string) : bool :=
  match prog_of sk f with
  | Some p => lock_free p
  | None => false
  end.

Definition atomic_rotation (sk : skeleton) : bool :=
  forallb (writer_entry_ok sk) (sk_writer sk)
  && forallb (reader_entry_ok sk) (sk_readers sk)
  && forallb (mutator_ok sk) (sk_mutators sk).

(* ------------------------------------------------------------------ threads of a skeleton *)
Definition l_init (failed : bool) : lstate := {| l_failed := failed; l_cur := 0; l_dn := 0 |}.

(* the writer goroutine: any sequence of calls of the writer entries with any arguments; a call
   may be cut short (the thread is then somewhere inside it) *)
Inductive wtrace (sk : skeleton) (n ld : nat) : bool -> list fev -> Prop :=
| WT_nil failed : wtrace sk n ld failed []
| WT_op failed f p arg t1 s' t2 :
    In f (sk_writer sk) -> prog_of sk f = Some p ->
    bsl n ld arg (PFn f p PDone) (l_init failed) t1 ONormal s' ->
    wtrace sk n ld (l_failed s') t2 -> wtrace sk n ld failed (t1 ++ t2)
| WT_cut failed f p arg t1 s' :
    In f (sk_writer sk) -> prog_of sk f = Some p ->
    bsl n ld arg (PFn f p PDone) (l_init failed) t1 OCut s' -> wtrace sk n ld failed t1.

(* one HTTP request *)
Definition rtrace (sk : skeleton) (n ld : nat) (t : list fev) : Prop :=
  exists f p arg o s', In f (sk_readers sk) /\ prog_of sk f = Some p /\
                       bsl n ld arg (PFn f p PDone) (l_init false) t o s'.
