(* M2 - an exact (float-free) instance of the scalar oracles (definitions only): decimal
   arithmetic in Z. It agrees with the Go functions wherever binary64 rounding does not
   interfere and is the satisfiability witness of the envelope
   [oracle_ok] (Proofs/PlaylistIdeal.v); the tie uses Model/PlaylistOracle.go_oracles. *)
From Coq Require Import List ZArith Bool String Ascii.
From GoHls Require Import Model.PlaylistBase.
Import ListNotations.
Local Open Scope string_scope.
Local Open Scope Z_scope.

(* exactly n decimal digits of z, most significant first *)
Fixpoint pad_dec (n : nat) (z : Z) (acc : string) : string :=
  match n with
  | O => acc
  | S n' => pad_dec n' (z / 10) (String (digit_char (z mod 10)) acc)
  end.

(* [-]i.ffff with [dec] decimals, |value| = q / 10^dec *)
Definition fmt_fixed (neg : bool) (q : Z) (dec : nat) : string :=
  (if neg then "-" else "") ++ fmt_uint (q / 10 ^ Z.of_nat dec) ++ "." ++ pad_dec dec (q mod 10 ^ Z.of_nat dec) "".

Definition split_sign (s : string) : bool * string :=
  match s with
  | String "-" t => (true, t)
  | String "+" t => (false, t)
  | _ => (false, s)
  end.

(* (negative, mantissa, fractional digits) of  [+-]? digits [. digits] *)
Definition parse_fixed (s : string) : option (bool * Z * nat) :=
  let '(neg, body) := split_sign s in
  let '(ip, fp) :=
    match index_byte "." body with
    | Some i => (take i body, drop (S i) body)
    | None => (body, "")
    end in
  if Nat.eqb (slen ip + slen fp) 0 then None
  else match parse_digits 0 (ip ++ fp) with
       | Some k => Some (neg, k, slen fp)
       | None => None
       end.

(* round half up to the 10 us grid, print seconds with 5 decimals *)
Definition z_fmt_dur (d : Z) : string :=
  fmt_fixed (d <? 0) ((Z.abs d + 5000) / 10000) 5.

Definition z_parse_dur (s : string) : option Z :=
  match parse_fixed s with
  | Some (neg, k, m) =>
      let a := (k * 1000000000) / 10 ^ Z.of_nat m in
      Some (if neg then - a else a)
  | None => None
  end.

Definition z_fmt_rate (f : Z) : string :=
  fmt_fixed (f <? 0) ((Z.abs f + 500000) / 1000000) 3.

Definition z_parse_rate (s : string) : option Z :=
  match parse_fixed s with
  | Some (neg, k, m) =>
      let a := (k * 1000000000) / 10 ^ Z.of_nat m in
      Some (if neg then - a else a)
  | None => None
  end.

(* date-times: "<milliseconds since the epoch>@<zone offset in seconds>" *)
Definition parse_int (s : string) : option Z :=
  match s with
  | String "-" t => match t with "" => None | _ => option_map Z.opp (parse_digits 0 t) end
  | "" => None
  | _ => parse_digits 0 s
  end.

Definition z_fmt_time (t : dtime) : string :=
  fmt_int (dt_ns t / 1000000) ++ "@" ++ fmt_int (dt_off t).

Definition z_parse_time (s : string) : option dtime :=
  match index_byte "@" s with
  | Some i =>
      match parse_int (take i s), parse_int (drop (S i) s) with
      | Some ms, Some off => Some {| dt_ns := ms * 1000000; dt_off := off |}
      | _, _ => None
      end
  | None => None
  end.

Definition z_oracles : oracles :=
  {| fmt_dur := z_fmt_dur; parse_dur := z_parse_dur;
     fmt_rate := z_fmt_rate; parse_rate := z_parse_rate;
     fmt_time := z_fmt_time; parse_time := z_parse_time |}.
