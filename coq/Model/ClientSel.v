(* M5 - client segment selection: executable model (definitions only; proofs live in
   Proofs/ClientSelProofs.v).

   Transcribed Go (names kept), client_stream_downloader.go unless noted:
     findSegmentWithInvPosition, findSegmentWithID
     clientStreamDownloader.fillSegmentQueue   -> fillSegmentQueue (selection part) + sentinel
     clientStreamDownloader.downloadSegment    -> segment_range (Range header) + resolve oracle
     clientStreamDownloader.downloadPreloadHint-> hint_range + resolve oracle
     clientStreamDownloader.downloadPlaylist   -> EvPlaylist k skip (URL: playlistURL / with_skip oracle)
     clientStreamDownloader.runTraditional / runLowLatency / run
     clientPrimaryDownloader.run (last loop)   -> client_result
   Oracles (Section variables): [resolve base ref] = clientAbsoluteURL (url.Parse +
   ResolveReference + String; None = url.Parse error), [with_skip url] = the playlist URL after
   q.Add("_HLS_skip","YES"); RawQuery = q.Encode(). Concrete instances: Model/ClientSelURL.v.

   A HISTORY is the list of media playlists the server returns for one stream, one per poll
   (poll 0 = the first download, by the primary downloader or by the stream downloader). When the
   history is exhausted the server has nothing more to say (the harness stub answers 404): outcome
   OServerGone. Every segment / init / preload-hint request is assumed to be answered with valid
   media (the stub does). *)
From Coq Require Import List ZArith String Bool DecimalString.
Import ListNotations.
Local Open Scope Z_scope.

(* client.go constants; the harness compares them with VerifConsts on every run *)
Definition clientLiveInitialDistance : Z := 3.
Definition clientLiveMaxDistanceFromEnd : Z := 5.

(* ---------- pkg/playlist.Media, the fields the downloader reads ---------- *)
Record segment := {
  sg_uri : string;
  sg_start : option Z;      (* ByteRangeStart *uint64 *)
  sg_length : option Z;     (* ByteRangeLength *uint64 *)
  sg_payload : Z            (* ghost: identity of the media behind the URI *)
}.

Inductive pltype := PTNone | PTEvent | PTVod.

Record serverControl := { sc_canBlockReload : bool; sc_canSkipUntil : bool (* CanSkipUntil != nil *) }.

Record preloadHint := {
  ph_uri : string;
  ph_start : Z;             (* ByteRangeStart uint64 (0 when absent) *)
  ph_length : option Z      (* ByteRangeLength *uint64 *)
}.

Record mediaMap := { mp_uri : string; mp_start : option Z; mp_length : option Z }.

Record playlist := {
  MediaSequence : Z;
  Segments : list segment;
  Endlist : bool;
  PlaylistType : pltype;
  ServerControl : option serverControl;
  PreloadHint : option preloadHint;
  Map : option mediaMap
}.

Definition is_vod (t : pltype) : bool := match t with PTVod => true | _ => false end.

Definition len (l : list segment) : Z := Z.of_nat (List.length l).

(* segments[index]: None = Go panics (index out of range) *)
Definition index_seg (segments : list segment) (index : Z) : option segment :=
  if (index <? 0) || (len segments <=? index) then None
  else nth_error segments (Z.to_nat index).

(* ---------- findSegmentWithInvPosition ---------- *)
Inductive found2 := Found2 (seg : segment) (index : Z) | Nil2 | Panic2.

Definition findSegmentWithInvPosition (segments : list segment) (invPos : Z) : found2 :=
  let index := len segments - invPos in
  if index <? 0 then Nil2
  else match index_seg segments index with
       | Some s => Found2 s index
       | None => Panic2                       (* invPos <= 0: segments[len..] *)
       end.

(* ---------- findSegmentWithID ---------- *)
Inductive found3 := Found3 (seg : segment) (index : Z) (invPos : Z) | Nil3 | Panic3.

Definition findSegmentWithID (seqNo : Z) (segments : list segment) (id : Z) : found3 :=
  let index := id - seqNo in
  if (index <? 0) || (len segments <=? index) then Nil3
  else match index_seg segments index with
       | Some s => Found3 s index (len segments - index)
       | None => Panic3
       end.

(* ---------- outcomes of a stream downloader ---------- *)
Inductive outcome :=
| OEOS            (* sentinel pushed (after the last ENDLIST segment, or when ENDLIST shows up after it);
                     processor calls setEnded; downloader parks on ctx.Done *)
| OErrNoSegments  (* "no segments found" *)
| OErrNotEnough   (* "there aren't enough segments to fill the buffer" *)
| OErrNext        (* "next segment not found or not ready yet" *)
| OErrTooLate     (* "playback is too late" *)
| OErrHintGone    (* "preload hint disappeared" *)
| OErrResolve     (* clientAbsoluteURL failed (url.Parse error) *)
| OServerGone     (* history exhausted: the playlist request is answered 404 *)
| OPanic.

(* ---------- fillSegmentQueue: the selection, up to `d.curSegmentID = &v` ---------- *)
Inductive fillres :=
| FillErr (o : outcome)
| FillPanic
| FillEnd                                        (* push(nil); <-ctx.Done(): nothing left to download *)
| FillOk (v : Z) (segPos : Z) (seg : segment).   (* curSegmentID := v; then downloadSegment seg *)

Definition fillSegmentQueue (firstPlaylist : playlist) (curSegmentID : option Z) (pl : playlist)
  : fillres :=
  match curSegmentID with
  | None =>
      if is_vod (PlaylistType firstPlaylist) then
        (* VOD stream: start from the beginning; segPos keeps its zero value *)
        match Segments pl with
        | [] => FillErr OErrNoSegments
        | seg :: _ => FillOk (MediaSequence pl + 0) 0 seg
        end
      else
        match findSegmentWithInvPosition (Segments pl) clientLiveInitialDistance with
        | Nil2 => FillErr OErrNotEnough
        | Panic2 => FillPanic
        | Found2 seg segPos => FillOk (MediaSequence pl + segPos) segPos seg
        end
  | Some cur =>
      match findSegmentWithID (MediaSequence pl) (Segments pl) (cur + 1) with
      | Nil3 =>
          (* the stream has ended and its last segment has already been downloaded (fix 3b9aa17) *)
          if Endlist pl && (cur + 1 =? MediaSequence pl + len (Segments pl)) then FillEnd
          else FillErr OErrNext
      | Panic3 => FillPanic
      | Found3 seg segPos invPos =>
          if negb (Endlist pl) && (clientLiveMaxDistanceFromEnd <? invPos)
          then FillErr OErrTooLate
          else FillOk (MediaSequence pl + segPos) segPos seg
      end
  end.

(* `pl.Endlist && pl.Segments[len(pl.Segments)-1] == seg` after the download. Unmarshal allocates
   one MediaSegment per entry, so pointer equality is equality of positions.
   None = Go panics (empty list indexed). *)
Definition sentinel (pl : playlist) (segPos : Z) : option bool :=
  if Endlist pl then
    match index_seg (Segments pl) (len (Segments pl) - 1) with
    | None => None
    | Some _ => Some (segPos =? len (Segments pl) - 1)
    end
  else Some false.

(* ---------- Range header ---------- *)
Definition dec (z : Z) : string := NilZero.string_of_uint (N.to_uint (Z.to_N z)).   (* strconv.FormatUint(_, 10) *)
Definition u64 (z : Z) : Z := z mod 2 ^ 64.

Definition range_header (start length : Z) : string :=
  ("bytes=" ++ dec start ++ "-" ++ dec (u64 (start + length - 1)))%string.

(* downloadSegment: `if length != nil { if start == nil { start = &0 }; Range: ... }` *)
Definition segment_range (start length : option Z) : option string :=
  match length with
  | None => None
  | Some l => Some (range_header (match start with None => 0 | Some s => s end) l)
  end.

(* downloadPreloadHint: ByteRangeStart is a plain uint64 *)
Definition hint_range (start : Z) (length : option Z) : option string :=
  match length with
  | None => None
  | Some l => Some (range_header start l)
  end.

(* ---------- requests ---------- *)
(* what the server sees *)
Inductive wkind := WPlaylist | WSegment (* OnDownloadSegment: media segments and the init file *) | WPart.
Record wreq := { w_kind : wkind; w_url : string; w_range : option string }.

(* the request log with ghost information: which poll, which position, which MSN *)
Inductive event :=
| EvPlaylist (k : nat) (skip : bool)                         (* poll k of the media playlist *)
| EvInit (m : mediaMap)                                      (* firstPlaylist.Map *)
| EvSegment (k : nat) (segPos : Z) (msn : Z) (seg : segment) (* selected from the playlist of poll k *)
| EvHint (k : nat) (ph : preloadHint).                       (* preload hint of the playlist of poll k *)

Definition is_segment (e : event) : bool := match e with EvSegment _ _ _ _ => true | _ => false end.
Definition is_playlist (e : event) : bool := match e with EvPlaylist _ _ => true | _ => false end.
Definition is_hint (e : event) : bool := match e with EvHint _ _ => true | _ => false end.
Definition ev_msn (e : event) : Z := match e with EvSegment _ _ m _ => m | _ => 0 end.
Definition seg_events (l : list event) : list event := filter is_segment l.

Section Run.
  Variable resolve : string -> string -> option string.
  Variable with_skip : string -> string.
  Variable playlistURL : string.

  Definition resolves (uri : string) : bool :=
    match resolve playlistURL uri with Some _ => true | None => false end.

  Definition mk (k : wkind) (uri : string) (r : option string) : option wreq :=
    match resolve playlistURL uri with
    | Some u => Some {| w_kind := k; w_url := u; w_range := r |}
    | None => None
    end.

  Definition wire (e : event) : option wreq :=
    match e with
    | EvPlaylist _ skip =>
        Some {| w_kind := WPlaylist;
                w_url := if skip then with_skip playlistURL else playlistURL;
                w_range := None |}
    | EvInit m => mk WSegment (mp_uri m) (segment_range (mp_start m) (mp_length m))
    | EvSegment _ _ _ seg => mk WSegment (sg_uri seg) (segment_range (sg_start seg) (sg_length seg))
    | EvHint _ ph => mk WPart (ph_uri ph) (hint_range (ph_start ph) (ph_length ph))
    end.

  Definition wire_log (l : list event) : list (option wreq) := map wire l.

  (* ---------- runTraditional: pl is the playlist of poll k, rest the later polls ---------- *)
  Fixpoint runTraditional (firstPlaylist : playlist) (k : nat) (cur : option Z)
           (pl : playlist) (rest : list playlist) {struct rest} : list event * outcome :=
    match fillSegmentQueue firstPlaylist cur pl with
    | FillErr o => ([], o)
    | FillPanic => ([], OPanic)
    | FillEnd => ([], OEOS)
    | FillOk v segPos seg =>
        if negb (resolves (sg_uri seg)) then ([], OErrResolve)
        else
          let ev := EvSegment k segPos v seg in
          match sentinel pl segPos with
          | None => ([ev], OPanic)
          | Some true => ([ev], OEOS)                 (* push(nil); <-ctx.Done() *)
          | Some false =>
              (* waitUntilSizeIsBelow(1), then downloadPlaylist(ctx, false) *)
              let p := EvPlaylist (S k) false in
              match rest with
              | [] => ([ev; p], OServerGone)
              | pl' :: rest' =>
                  let '(l, o) := runTraditional firstPlaylist (S k) (Some v) pl' rest' in
                  (ev :: p :: l, o)
              end
          end
    end.

  (* ---------- runLowLatency ---------- *)
  Fixpoint runLowLatency (firstPlaylist : playlist) (k : nat)
           (pl : playlist) (rest : list playlist) {struct rest} : list event * outcome :=
    match PreloadHint pl with
    | None => ([], OPanic)                            (* preloadHint.URI on a nil pointer *)
    | Some ph =>
        if negb (resolves (ph_uri ph)) then ([], OErrResolve)
        else
          let ev := EvHint k ph in
          match ServerControl firstPlaylist with
          | None => ([ev], OPanic)                    (* d.firstPlaylist.ServerControl.CanSkipUntil *)
          | Some sc =>
              let p := EvPlaylist (S k) (sc_canSkipUntil sc) in
              match rest with
              | [] => ([ev; p], OServerGone)
              | pl' :: rest' =>
                  match PreloadHint pl' with
                  | None => ([ev; p], OErrHintGone)
                  | Some _ =>
                      let '(l, o) := runLowLatency firstPlaylist (S k) pl' rest' in
                      (ev :: p :: l, o)
                  end
              end
          end
    end.

  Definition isLowLatency (firstPlaylist : playlist) : bool :=
    match ServerControl firstPlaylist, PreloadHint firstPlaylist with
    | Some sc, Some _ => sc_canBlockReload sc
    | _, _ => false
    end.

  (* firstPlaylist.Map != nil && firstPlaylist.Map.URI != "": download the init file *)
  Definition init_request (firstPlaylist : playlist) : option mediaMap :=
    match Map firstPlaylist with
    | Some m => if String.eqb (mp_uri m) "" then None else Some m
    | None => None
    end.

  (* ---------- clientStreamDownloader.run (poll 0 included) ---------- *)
  Definition run (h : list playlist) : list event * outcome :=
    match h with
    | [] => ([EvPlaylist 0 false], OServerGone)
    | firstPlaylist :: rest =>
        let p0 := EvPlaylist 0 false in
        let body (_ : unit) :=
          if isLowLatency firstPlaylist
          then runLowLatency firstPlaylist 0 firstPlaylist rest
          else runTraditional firstPlaylist 0 None firstPlaylist rest in
        match init_request firstPlaylist with
        | Some m =>
            if negb (resolves (mp_uri m)) then ([p0], OErrResolve)
            else let '(l, o) := body tt in (p0 :: EvInit m :: l, o)
        | None => let '(l, o) := body tt in (p0 :: l, o)
        end
    end.
End Run.

(* ---------- clientPrimaryDownloader.run, last loop + Client.Wait ---------- *)
Definition is_eos (o : outcome) : bool := match o with OEOS => true | _ => false end.

Definition outcome_eqb (a b : outcome) : bool :=
  match a, b with
  | OEOS, OEOS | OErrNoSegments, OErrNoSegments | OErrNotEnough, OErrNotEnough
  | OErrNext, OErrNext | OErrTooLate, OErrTooLate | OErrHintGone, OErrHintGone
  | OErrResolve, OErrResolve | OServerGone, OServerGone | OPanic, OPanic => true
  | _, _ => false
  end.

(* ErrClientEOS iff every stream ended; otherwise the error of some stream that failed
   (which one wins the race for the routine pool's error channel is not determined) *)
Definition client_result (outs : list outcome) (r : outcome) : bool :=
  if forallb is_eos outs then is_eos r
  else negb (is_eos r) && existsb (outcome_eqb r) outs.
