(* C08 - the racing pairs of the access table that are RECORDED FINDINGS (DESIGN 7.2 F6), written by
   hand: (field, function containing the write, function containing the other access).
   [Props/C08.v] proves that these are exactly the unsafe pairs of the generated table
   ([c08_table_refuted], [c08_findings_exact]) and that the table minus these pairs is race free
   ([c08_race_free_model_partial]).  When a finding is repaired in /repo, delete its lines here:
   the proofs then demand that the regenerated table no longer contains the pair. *)
From Coq Require Import List String.
Import ListNotations.
Local Open Scope string_scope.

Definition finding := (string * string * string)%type.

(* F6a - fileDisk.Finalize / NewPart update a disk part (buffer := nil, size) that a part handler,
   running without the muxer mutex, reads in partDisk.Reader (Low-Latency + Directory) *)
Definition f6a_partdisk : list finding := [
  ("storage.partDisk.buffer", "storage.fileDisk.Finalize", "storage.partDisk.Reader");
  ("storage.partDisk.size",   "storage.fileDisk.Finalize", "storage.partDisk.Reader");
  ("storage.partDisk.size",   "storage.fileDisk.NewPart",  "storage.partDisk.Reader")
].

(* F6b - muxerStream.close() set closed without the muxer mutex while handlers read it under the mutex:
   REPAIRED in /repo (c04d523: Close marks the streams closed under the mutex); its two pairs are gone
   from the regenerated table, as [c08_findings_exact] demands. *)
Definition f6b_closed : list finding := [].

(* F6c - Write* stores new codec parameters into the user's Track.Codec outside the mutex; the
   multivariant playlist handler reads them under the mutex *)
Definition f6c_codec_params : list finding := [
  ("codecs.H264.SPS", "muxerSegmenter.writeH264", "muxerStream.populateMultivariantPlaylist");
  ("codecs.H264.SPS", "muxerSegmenter.writeH264", "codecparams.Marshal");
  ("codecs.H265.SPS", "muxerSegmenter.writeH265", "muxerStream.populateMultivariantPlaylist");
  ("codecs.H265.SPS", "muxerSegmenter.writeH265", "codecparams.Marshal");
  ("codecs.AV1.SequenceHeader", "muxerSegmenter.writeAV1", "muxerStream.populateMultivariantPlaylist");
  ("codecs.AV1.SequenceHeader", "muxerSegmenter.writeAV1", "codecparams.Marshal");
  ("codecs.VP9.Width",    "muxerSegmenter.writeVP9", "muxerStream.populateMultivariantPlaylist");
  ("codecs.VP9.Height",   "muxerSegmenter.writeVP9", "muxerStream.populateMultivariantPlaylist");
  ("codecs.VP9.Profile",  "muxerSegmenter.writeVP9", "codecparams.Marshal");
  ("codecs.VP9.BitDepth", "muxerSegmenter.writeVP9", "codecparams.Marshal")
].

Definition known_racing : list finding := f6a_partdisk ++ f6b_closed ++ f6c_codec_params.
