(* M7 - clientSegmentQueue (client_segment_queue.go) as a small-step concurrent system.

   Threads: the downloader (producer, TP) running a list of queue operations
   (runTraditional = Push; WaitBelow 1; Push; WaitBelow 1; ...), the processor
   (consumer, TC) running "pull; process" a given number of times, and a cancel thread
   (TX, ctx cancellation).  One [step] = one synchronisation-relevant action of the Go
   source: Lock, the code executed while the mutex is held (split wherever it touches a
   field that is ALSO read without the mutex: q.didPull), Unlock, the hook point, the
   evaluation of the select's channel operand, the select itself.

   Channels.  q.didPush / q.didPull hold a channel; the model stores the channel's
   identity as a number (its generation).  [make(chan struct{})] installs identity+1
   (fresh, because the field only ever grows); [close(c)] closes identity c.  All
   identities below [pushClosed] / [pullClosed] are closed.  A receive on channel g is
   enabled iff g is closed (nothing is ever sent).  Closing a closed channel is a Go panic
   ([SPanic]); closing an identity above the closed counter cannot be represented by the
   counter and yields [SGap] (proved unreachable, like an out-of-fuel result).

   WHICH channel a waiter waits on, and WHEN it reads the field, is transcribed literally:
     pull:                  didPush := q.didPush   while HOLDING the mutex, then Unlock, hook, select
     waitUntilSizeIsBelow:  Unlock, hook, select { case <-q.didPull: ...}  - the field is read when the
                            select is entered, AFTER the mutex was released (and without it).
   [WaitBelow true n] is the same function with the proposed fix (capture under the mutex);
   the library's code is [WaitBelow false n].

   Memory model: sequentially consistent interleaving.  The unsynchronised read of
   q.didPull is a data race in Go's memory model; the model gives it the strongest
   (most benign) semantics, the race itself is reported by the -race leg of the tie. *)
From Coq Require Import List ZArith Bool.
Import ListNotations.
Local Open Scope Z_scope.

Inductive tid := TP | TC | TX.
Inductive branch := BChan | BCtx.          (* which select case fires (only looked at by select steps) *)
Definition label := (tid * branch)%type.

Definition tid_eqb (a b : tid) : bool :=
  match a, b with TP, TP | TC, TC | TX, TX => true | _, _ => false end.

(* the end-of-stream sentinel that fillSegmentQueue pushes (a nil *segmentData) *)
Definition nilSeg : Z := -1.

Inductive pop :=
| Push (id : Z)
| WaitBelow (fixed : bool) (n : Z).

(* producer program counter *)
Inductive ppc :=
| PNext                                        (* between two queue operations *)
| PDone                                        (* waitUntilSizeIsBelow returned false: "terminated" *)
| PushLocked (id : Z)                          (* push: after q.mutex.Lock() *)
| PushClose                                    (* queueWasEmpty: before close(q.didPush) *)
| PushMake                                     (* before q.didPush = make(chan struct{}) *)
| PushUnlock                                   (* before q.mutex.Unlock() *)
| WLocked (f : bool) (n : Z)                   (* waitUntilSizeIsBelow: mutex held, at the loop condition *)
| WUnlockWait (f : bool) (n : Z) (g0 : Z)      (* len > n seen; before Unlock.  g0 = q.didPull at the check
                                                  (ghost; the captured channel in the fixed variant) *)
| WRead (f : bool) (n : Z) (g0 : Z)            (* unlocked, AT THE HOOK "queue:waitBelow:unlocked";
                                                  next: enter the select = evaluate q.didPull *)
| WSel (f : bool) (n : Z) (g0 : Z) (g : Z)     (* in the select on channel g / ctx.Done() *)
| WRelock (f : bool) (n : Z)                   (* woken; before q.mutex.Lock() *)
| WUnlockRet.                                  (* len <= n seen; before Unlock; return true *)

(* consumer program counter *)
Inductive cpc :=
| CNext                                        (* before pull *)
| CDone                                        (* pull returned (nil,false): "terminated" *)
| CLocked                                      (* pull: mutex held, at the loop condition *)
| CUnlockWait (g : Z)                          (* didPush := q.didPush = g captured UNDER the mutex; before Unlock *)
| CHook (g : Z)                                (* unlocked, AT THE HOOK "queue:pull:unlocked" *)
| CSel (g : Z)                                 (* in the select on channel g / ctx.Done() *)
| CRelock                                      (* woken; before Lock *)
| CClose (seg : Z)                             (* seg taken from the queue; before close(q.didPull) *)
| CMake (seg : Z)                              (* before q.didPull = make(chan struct{}) *)
| CUnlock (seg : Z)                            (* before Unlock; return (seg,true) *)
| CProcess (seg : Z).                          (* processSegment(seg) *)

Inductive status := SOk | SPanic | SGap.

Record state := mkState {
  queue : list Z;
  didPush : Z; pushClosed : Z;
  didPull : Z; pullClosed : Z;
  mutex : option tid;
  cancelled : bool;
  p_pc : ppc; p_prog : list pop;
  c_pc : cpc; c_pulls : nat;
  pushed : list Z; delivered : list Z; returned : list Z;      (* ghost history *)
  stat : status
}.

Definition init (prog : list pop) (pulls : nat) : state :=
  mkState [] 0 0 0 0 None false PNext prog CNext pulls [] [] [] SOk.

(* ---- field updates ---- *)
Definition set_mutex (s : state) (m : option tid) : state :=
  mkState (queue s) (didPush s) (pushClosed s) (didPull s) (pullClosed s) m (cancelled s)
          (p_pc s) (p_prog s) (c_pc s) (c_pulls s) (pushed s) (delivered s) (returned s) (stat s).
Definition set_p (s : state) (pc : ppc) (prog : list pop) : state :=
  mkState (queue s) (didPush s) (pushClosed s) (didPull s) (pullClosed s) (mutex s) (cancelled s)
          pc prog (c_pc s) (c_pulls s) (pushed s) (delivered s) (returned s) (stat s).
Definition set_ppc (s : state) (pc : ppc) : state := set_p s pc (p_prog s).
Definition set_c (s : state) (pc : cpc) (k : nat) : state :=
  mkState (queue s) (didPush s) (pushClosed s) (didPull s) (pullClosed s) (mutex s) (cancelled s)
          (p_pc s) (p_prog s) pc k (pushed s) (delivered s) (returned s) (stat s).
Definition set_cpc (s : state) (pc : cpc) : state := set_c s pc (c_pulls s).
Definition set_stat (s : state) (x : status) : state :=
  mkState (queue s) (didPush s) (pushClosed s) (didPull s) (pullClosed s) (mutex s) (cancelled s)
          (p_pc s) (p_prog s) (c_pc s) (c_pulls s) (pushed s) (delivered s) (returned s) x.
Definition set_push (s : state) (cur closed : Z) : state :=
  mkState (queue s) cur closed (didPull s) (pullClosed s) (mutex s) (cancelled s)
          (p_pc s) (p_prog s) (c_pc s) (c_pulls s) (pushed s) (delivered s) (returned s) (stat s).
Definition set_pull (s : state) (cur closed : Z) : state :=
  mkState (queue s) (didPush s) (pushClosed s) cur closed (mutex s) (cancelled s)
          (p_pc s) (p_prog s) (c_pc s) (c_pulls s) (pushed s) (delivered s) (returned s) (stat s).
Definition set_cancelled (s : state) : state :=
  mkState (queue s) (didPush s) (pushClosed s) (didPull s) (pullClosed s) (mutex s) true
          (p_pc s) (p_prog s) (c_pc s) (c_pulls s) (pushed s) (delivered s) (returned s) (stat s).
(* q.queue = append(q.queue, id)   (+ ghost) *)
Definition do_append (s : state) (id : Z) : state :=
  mkState (queue s ++ [id]) (didPush s) (pushClosed s) (didPull s) (pullClosed s) (mutex s) (cancelled s)
          (p_pc s) (p_prog s) (c_pc s) (c_pulls s) (pushed s ++ [id]) (delivered s) (returned s) (stat s).
(* seg, q.queue = q.queue[0], q.queue[1:]   (+ ghost) *)
Definition do_dequeue (s : state) (seg : Z) (rest : list Z) : state :=
  mkState rest (didPush s) (pushClosed s) (didPull s) (pullClosed s) (mutex s) (cancelled s)
          (p_pc s) (p_prog s) (c_pc s) (c_pulls s) (pushed s) (delivered s ++ [seg]) (returned s) (stat s).
Definition do_return (s : state) (seg : Z) : state :=
  mkState (queue s) (didPush s) (pushClosed s) (didPull s) (pullClosed s) (mutex s) (cancelled s)
          (p_pc s) (p_prog s) (c_pc s) (c_pulls s) (pushed s) (delivered s) (returned s ++ [seg]) (stat s).

Definition qlen (s : state) : Z := Z.of_nat (length (queue s)).

(* ---- sync.Mutex ---- *)
Definition lock (t : tid) (s : state) : option state :=
  match mutex s with
  | None => Some (set_mutex s (Some t))
  | Some _ => None                       (* Lock blocks *)
  end.
Definition unlock (s : state) : state :=
  match mutex s with
  | Some _ => set_mutex s None
  | None => set_stat s SPanic            (* fatal error: sync: unlock of unlocked mutex *)
  end.

(* ---- close(c) on a channel field ---- *)
Inductive closeres := CloseOk (closed' : Z) | ClosePanic | CloseGap.
Definition close_chan (c closed : Z) : closeres :=
  if c <? closed then ClosePanic            (* panic: close of closed channel *)
  else if c =? closed then CloseOk (closed + 1)
  else CloseGap.

(* a receive from channel g is enabled iff g has been closed *)
Definition chan_closed (g closed : Z) : bool := g <? closed.

(* ---- producer: push, waitUntilSizeIsBelow ---- *)
Definition step_p (s : state) (b : branch) : option state :=
  match p_pc s with
  | PNext =>
      match p_prog s with
      | [] => None
      | Push id :: r =>
          match lock TP s with Some s1 => Some (set_p s1 (PushLocked id) r) | None => None end
      | WaitBelow f n :: r =>
          match lock TP s with Some s1 => Some (set_p s1 (WLocked f n) r) | None => None end
      end
  | PDone => None
  | PushLocked id =>
      (* queueWasEmpty := (len(q.queue) == 0); q.queue = append(q.queue, seg) *)
      let wasEmpty := match queue s with [] => true | _ => false end in
      Some (set_ppc (do_append s id) (if wasEmpty then PushClose else PushUnlock))
  | PushClose =>
      match close_chan (didPush s) (pushClosed s) with
      | CloseOk c' => Some (set_ppc (set_push s (didPush s) c') PushMake)
      | ClosePanic => Some (set_stat s SPanic)
      | CloseGap => Some (set_stat s SGap)
      end
  | PushMake => Some (set_ppc (set_push s (didPush s + 1) (pushClosed s)) PushUnlock)
  | PushUnlock => Some (set_ppc (unlock s) PNext)
  | WLocked f n =>
      (* for len(q.queue) > n *)
      if qlen s >? n then Some (set_ppc s (WUnlockWait f n (didPull s)))
      else Some (set_ppc s WUnlockRet)
  | WUnlockWait f n g0 => Some (set_ppc (unlock s) (WRead f n g0))
  | WRead f n g0 =>
      (* entering the select: the operand q.didPull is evaluated now, without the mutex
         (fixed variant: the channel captured under the mutex is used) *)
      Some (set_ppc s (WSel f n g0 (if f then g0 else didPull s)))
  | WSel f n g0 g =>
      match b with
      | BChan => if chan_closed g (pullClosed s) then Some (set_ppc s (WRelock f n)) else None
      | BCtx => if cancelled s then Some (set_ppc s PDone) else None
      end
  | WRelock f n =>
      match lock TP s with Some s1 => Some (set_ppc s1 (WLocked f n)) | None => None end
  | WUnlockRet => Some (set_ppc (unlock s) PNext)
  end.

(* ---- consumer: pull; process ---- *)
Definition step_c (s : state) (b : branch) : option state :=
  match c_pc s with
  | CNext =>
      match c_pulls s with
      | O => None
      | S _ => match lock TC s with Some s1 => Some (set_cpc s1 CLocked) | None => None end
      end
  | CDone => None
  | CLocked =>
      (* for len(q.queue) == 0 { didPush := q.didPush ... } ; seg, q.queue = q.queue[0], q.queue[1:] *)
      match queue s with
      | [] => Some (set_cpc s (CUnlockWait (didPush s)))
      | seg :: rest => Some (set_cpc (do_dequeue s seg rest) (CClose seg))
      end
  | CUnlockWait g => Some (set_cpc (unlock s) (CHook g))
  | CHook g => Some (set_cpc s (CSel g))
  | CSel g =>
      match b with
      | BChan => if chan_closed g (pushClosed s) then Some (set_cpc s CRelock) else None
      | BCtx => if cancelled s then Some (set_cpc s CDone) else None
      end
  | CRelock =>
      match lock TC s with Some s1 => Some (set_cpc s1 CLocked) | None => None end
  | CClose seg =>
      match close_chan (didPull s) (pullClosed s) with
      | CloseOk c' => Some (set_cpc (set_pull s (didPull s) c') (CMake seg))
      | ClosePanic => Some (set_stat s SPanic)
      | CloseGap => Some (set_stat s SGap)
      end
  | CMake seg => Some (set_cpc (set_pull s (didPull s + 1) (pullClosed s)) (CUnlock seg))
  | CUnlock seg => Some (set_cpc (do_return (unlock s) seg) (CProcess seg))
  | CProcess seg => Some (set_c s CNext (pred (c_pulls s)))
  end.

(* ---- ctx cancellation (Client.Close) ---- *)
Definition step_x (s : state) : option state :=
  if cancelled s then None else Some (set_cancelled s).

(* [None] = the label is not enabled in s (the thread is blocked or has nothing to do).
   A crashed program takes no further steps. *)
Definition step (s : state) (l : label) : option state :=
  match stat s with
  | SOk =>
      match fst l with
      | TP => step_p s (snd l)
      | TC => step_c s (snd l)
      | TX => step_x s
      end
  | _ => None
  end.

(* a schedule is any list of labels; labels that are not enabled are skipped, so every
   list is a schedule and "for all schedules" is "for all lists" *)
Fixpoint run (s : state) (sched : list label) : state :=
  match sched with
  | [] => s
  | l :: r => match step s l with Some s' => run s' r | None => run s r end
  end.

Definition enabled (s : state) (l : label) : bool :=
  match step s l with Some _ => true | None => false end.

(* some select case of thread t can fire / t can take a step *)
Definition can_move (s : state) (t : tid) : bool := enabled s (t, BChan) || enabled s (t, BCtx).

(* ---- the producer programs of client_stream_downloader.go ---- *)
(* runTraditional: { fillSegmentQueue (push; on the last ENDLIST segment also push(nil) and
   wait for ctx); waitUntilSizeIsBelow(1) } *)
Inductive trad : list pop -> Prop :=
| trad_nil : trad []
| trad_eos : trad [Push nilSeg]      (* a reload shows ENDLIST right after the last downloaded segment *)
| trad_end : forall id, trad [Push id; Push nilSeg]
| trad_cons : forall id f r, trad r -> trad (Push id :: WaitBelow f 1 :: r).

Fixpoint trad_prog (f : bool) (ids : list Z) : list pop :=
  match ids with
  | [] => []
  | id :: r => Push id :: WaitBelow f 1 :: trad_prog f r
  end.

(* number of real segments (non-sentinel entries) *)
Definition segs (q : list Z) : Z :=
  Z.of_nat (length (filter (fun x => negb (x =? nilSeg)) q)).

(* ---- state predicates used by the property statements ---- *)
Definition consumer_parked_on (s : state) (g : Z) : Prop := c_pc s = CSel g.
Definition producer_parked_on (s : state) (f : bool) (n g0 g : Z) : Prop := p_pc s = WSel f n g0 g.

(* the other side is not in the middle of the critical section that performs the wake-up *)
Definition push_in_progress (s : state) : bool :=
  match p_pc s with PushClose => true | _ => false end.
Definition pull_in_progress (s : state) : bool :=
  match c_pc s with CClose _ => true | _ => false end.

(* ======================================================================================
   Macro steps: what the correspondence harness can do to the REAL queue.  The controller
   starts one operation of a thread, releases a thread parked at its hook point, or
   cancels; the chosen thread then runs until it returns, reaches its hook point, or
   blocks in its select; threads blocked in a select that became enabled run on by
   themselves ([settle]).  Every macro step is a sequence of [step]s (Proofs: macro_is_run).
   ====================================================================================== *)
Inductive decision :=
| DStart (t : tid)                 (* start the thread's next operation *)
| DRelease (t : tid) (b : branch)  (* let the thread leave its hook; b = the select case it was seen to take *)
| DCancel.

(* where the controller regains control of thread t *)
Definition parked (s : state) (t : tid) : bool :=
  match t with
  | TP => match p_pc s with PNext | PDone | WRead _ _ _ => true | _ => false end
  | TC => match c_pc s with CNext | CDone | CHook _ => true | _ => false end
  | TX => true
  end.

(* the label thread t takes next: at a select, the enabled case (b if both are) *)
Definition next_label (s : state) (t : tid) (b : branch) : label :=
  if enabled s (t, BChan) then
    (if enabled s (t, BCtx) then (t, b) else (t, BChan))
  else (t, BCtx).

(* run thread t until it is parked or cannot move *)
Fixpoint advance (fuel : nat) (t : tid) (b : branch) (s : state) : state * list label :=
  match fuel with
  | O => (s, [])
  | S k =>
      if parked s t then (s, [])
      else
        let l := next_label s t b in
        match step s l with
        | None => (s, [])
        | Some s' => let (s2, tr) := advance k t b s' in (s2, l :: tr)
        end
  end.

(* one step, then advance *)
Definition kick (fuel : nat) (t : tid) (b : branch) (s : state) : option (state * list label) :=
  let l := next_label s t b in
  match step s l with
  | None => None
  | Some s' => let (s2, tr) := advance fuel t b s' in Some (s2, l :: tr)
  end.

Definition in_select (s : state) (t : tid) : bool :=
  match t with
  | TP => match p_pc s with WSel _ _ _ _ => true | _ => false end
  | TC => match c_pc s with CSel _ => true | _ => false end
  | TX => false
  end.

Definition settle1 (fuel : nat) (t : tid) (st : state * list label) : state * list label :=
  let (s, tr) := st in
  if in_select s t && can_move s t then
    match kick fuel t BChan s with
    | Some (s2, tr2) => (s2, tr ++ tr2)
    | None => (s, tr)
    end
  else (s, tr).

Definition settle (fuel : nat) (st : state * list label) : state * list label :=
  settle1 fuel TC (settle1 fuel TP (settle1 fuel TC (settle1 fuel TP st))).

Definition adv_fuel : nat := 16.

(* None = the decision is not available in s (the harness and the model disagree about
   who is idle / at a hook) *)
Definition macro (s : state) (d : decision) : option (state * list label) :=
  match d with
  | DStart t =>
      let idle := match t with
                  | TP => match p_pc s with PNext => true | _ => false end
                  | TC => match c_pc s with CNext => true | _ => false end
                  | TX => false
                  end in
      if idle then
        match kick adv_fuel t BChan s with
        | Some st => Some (settle adv_fuel st)
        | None => None
        end
      else None
  | DRelease t b =>
      let athook := match t with
                    | TP => match p_pc s with WRead _ _ _ => true | _ => false end
                    | TC => match c_pc s with CHook _ => true | _ => false end
                    | TX => false
                    end in
      if athook then
        match kick adv_fuel t b s with
        | Some st => Some (settle adv_fuel st)
        | None => None
        end
      else None
  | DCancel =>
      match step s (TX, BChan) with
      | Some s' => Some (settle adv_fuel (s', [(TX, BChan)]))
      | None => None
      end
  end.

(* what the harness can see of a settled state:
   [producer status; producer ops left; consumer status; pulls left; len(queue); #returned] with
   status 0 = between operations, 1 = at the hook, 2 = blocked in the select, 3 = returned false
   (cancelled), 5 = anything else (never observable when settled) *)
Definition p_status (s : state) : Z :=
  match p_pc s with
  | PNext => 0 | WRead _ _ _ => 1 | WSel _ _ _ _ => 2 | PDone => 3 | _ => 5
  end.
Definition c_status (s : state) : Z :=
  match c_pc s with
  | CNext => 0 | CHook _ => 1 | CSel _ => 2 | CDone => 3 | _ => 5
  end.
Definition observe (s : state) : list Z :=
  [ p_status s; Z.of_nat (length (p_prog s)); c_status s; Z.of_nat (c_pulls s); qlen s;
    Z.of_nat (length (returned s)); (match stat s with SOk => 0 | SPanic => 1 | SGap => 2 end) ].

(* run a decision list; the observation after each decision; stops at the first unavailable one *)
Fixpoint macro_run (s : state) (ds : list decision) : state * list (list Z) * bool :=
  match ds with
  | [] => (s, [], true)
  | d :: r =>
      match macro s d with
      | None => (s, [], false)
      | Some (s', _) =>
          let '(s2, obs, ok) := macro_run s' r in (s2, observe s' :: obs, ok)
      end
  end.
