(* Specification-side definitions for C06/C07: well-formed stream states (the invariant of
   the writer operations) and the exact input classes of the recorded findings. *)
From Coq Require Import List ZArith Lia Bool String.
From GoHls Require Import Lib.MuxSched Model.MuxConcSeq.
Import ListNotations.
Local Open Scope Z_scope.

(* the i-th window entry has media sequence number k+i; a *muxerSegmentFMP4's id is its media
   sequence number; gaps only form a prefix; a Low-Latency segment has at least one part *)
Fixpoint segs_ok (v : variant) (k : Z) (seen : bool) (l : list seg) : Prop :=
  match l with
  | [] => True
  | Gap _ :: r => seen = false /\ segs_ok v (k + 1) false r
  | Seg id ps _ :: r => id = k /\ (v = LL -> ps <> []) /\ segs_ok v (k + 1) true r
  end.

Record wf_stream (v : variant) (s : stream) : Prop := {
  wf_dc : 0 <= segmentDeleteCount s;
  wf_segs : exists seen, segs_ok v (segmentDeleteCount s) seen (segments s);
  wf_next : segments s <> [] -> nextSegmentID s = segmentDeleteCount s + zlen (segments s);
  wf_empty : segments s = [] ->
             segmentDeleteCount s = 0 /\ nextSegmentID s = match v with LL => 7 | _ => 0 end;
  wf_open : segments s <> [] -> nextSegment s <> None
}.

Definition wf_mux (m : mux) : Prop := Forall (wf_stream (m_variant m)) (m_streams m).

(* ids stay far below 2^64 (the model does not wrap nextSegmentID++ itself) *)
Definition in_range (s : stream) : Prop := nextSegmentID s + 2 < two64.

(* ---- input classes of the findings ---- *)
Definition last_seg (s : stream) : option seg := nth_error (segments s) (List.length (segments s) - 1).

(* F3a: _HLS_part past the end of the LAST complete segment while the open segment already
   has a part *)
Definition f3a_input (s : stream) (M : Z) (P : option Z) : bool :=
  match P, last_seg s, nextSegment s with
  | Some p, Some (Seg id ps _), Some ops =>
      (M =? id) && (zlen ps <=? p) && (1 <=? zlen ops) && negb (M =? nextSegmentID s)
  | _, _, _ => false
  end.

(* F3b: _HLS_msn of a listed gap *)
Definition f3b_input (s : stream) (M : Z) : bool :=
  (segmentDeleteCount s <=? M) &&
  match nth_error (segments s) (Z.to_nat (M - segmentDeleteCount s)) with
  | Some (Gap _) => true
  | _ => false
  end.

(* F11: _HLS_msn of the OPEN segment without _HLS_part *)
Definition f11_input (s : stream) (M : Z) (P : option Z) : bool :=
  match P with None => M =? nextSegmentID s | Some _ => false end.

(* head of the window: the media sequence number of segments[0] *)
Definition head_msn (s : stream) : Z := segmentDeleteCount s.
Definition last_complete_msn (s : stream) : Z := nextSegmentID s - 1.
