(* Specification-side definitions for C06/C07: well-formed stream states (the invariant of
   the writer operations). *)
From Coq Require Import List ZArith Lia Bool String.
From GoHls Require Import Lib.MuxSched Model.MuxConcSeq.
Import ListNotations.
Local Open Scope Z_scope.

(* the i-th window entry has media sequence number k+i; a *muxerSegmentFMP4's id is its media
   sequence number; gaps only form a prefix; a Low-Latency segment has at least one part *)
Fixpoint segs_ok (v : variant) (k : Z) (seen : bool) (l : list seg) : Prop :=
  match l with
  | [] => True
  | Gap _ :: r => seen = false /\ segs_ok v (k + 1) false r
  | Seg id ps _ :: r => id = k /\ (v = LL -> ps <> []) /\ segs_ok v (k + 1) true r
  end.

Record wf_stream (v : variant) (s : stream) : Prop := {
  wf_dc : 0 <= segmentDeleteCount s;
  wf_segs : exists seen, segs_ok v (segmentDeleteCount s) seen (segments s);
  wf_next : segments s <> [] -> nextSegmentID s = segmentDeleteCount s + zlen (segments s);
  wf_empty : segments s = [] ->
             segmentDeleteCount s = 0 /\ nextSegmentID s = match v with LL => 7 | _ => 0 end;
  wf_open : segments s <> [] -> nextSegment s <> None;
  (* the window ends with a real segment (gaps are only inserted in front of the first one) *)
  wf_last : segments s <> [] -> exists id ps d, last (segments s) (Gap 0) = Seg id ps d
}.

Definition wf_mux (m : mux) : Prop := Forall (wf_stream (m_variant m)) (m_streams m).

(* ids stay far below 2^64 (the model does not wrap nextSegmentID++ itself) *)
Definition in_range (s : stream) : Prop := nextSegmentID s + 2 < two64.

(* head of the window: the media sequence number of segments[0] *)
Definition head_msn (s : stream) : Z := segmentDeleteCount s.
Definition last_complete_msn (s : stream) : Z := nextSegmentID s - 1.
