(* M2 - pkg/playlist: Media, Multivariant, playlist.Unmarshal (definitions only).

   Transcribed Go (names kept; one (un)marshal pair per tag):
     MultivariantStart.{unmarshal,marshal}      -> start_unmarshal / start_marshal
     MediaServerControl.{unmarshal,marshal}     -> server_control_unmarshal / server_control_marshal
     MediaPartInf, MediaMap, MediaKey (+Equal), MediaSkip, MediaPart, MediaPreloadHint
     MediaSegment.{validate,marshal}            -> segment_validate / segment_marshal
     Media.{Unmarshal,Marshal}                  -> media_unmarshal (media_line, media_loop) / media_marshal
     MultivariantRendition, MultivariantVariant -> rendition_* / variant_*
     Multivariant.{Unmarshal,Marshal}           -> multivariant_unmarshal (multi_line, multi_loop) / multivariant_marshal
     findType, Unmarshal                        -> find_type / unmarshal
   Go pointers are [option]; slices of pointers are lists of values (a nil element inside a
   slice is outside the model: Unmarshal never produces one). *)
From Coq Require Import List ZArith Bool String Ascii.
From GoHls Require Import Model.PlaylistBase.
Import ListNotations.
Local Open Scope string_scope.
Local Open Scope Z_scope.

(* ---------- the Go structs ---------- *)
Record MediaKey := {
  k_method : string; k_uri : string; k_iv : string; k_keyformat : string; k_keyformatversions : string }.
Record MediaMap := { map_uri : string; map_brlen : option Z; map_brstart : option Z }.
Record MediaPart := {
  pt_duration : Z; pt_uri : string; pt_independent : bool;
  pt_brlen : option Z; pt_brstart : option Z; pt_gap : bool }.
Record MediaPartInf := { pi_parttarget : Z }.
Record MediaPreloadHint := { ph_uri : string; ph_brstart : Z; ph_brlen : option Z }.
Record MediaServerControl := {
  sc_canblockreload : bool; sc_partholdback : option Z; sc_canskipuntil : option Z }.
Record MediaSkip := { sk_skipped : Z }.
Record MultivariantStart := { st_timeoffset : Z }.
Record MediaSegment := {
  sg_duration : Z; sg_title : string; sg_uri : string; sg_discontinuity : bool; sg_gap : bool;
  sg_datetime : option dtime; sg_bitrate : option Z; sg_key : option MediaKey;
  sg_brlen : option Z; sg_brstart : option Z; sg_parts : list MediaPart }.
Record Media := {
  m_version : Z; m_independent : bool; m_start : option MultivariantStart;
  m_allowcache : option bool; m_targetduration : Z;
  m_servercontrol : option MediaServerControl; m_partinf : option MediaPartInf;
  m_mediasequence : Z; m_discseq : option Z; m_playlisttype : option string;
  m_map : option MediaMap; m_skip : option MediaSkip;
  m_segments : list MediaSegment; m_parts : list MediaPart;
  m_preloadhint : option MediaPreloadHint; m_endlist : bool }.

Record MultivariantRendition := {
  r_type : string; r_groupid : string; r_name : string; r_language : string;
  r_autoselect : bool; r_default : bool; r_forced : bool;
  r_channels : option string; r_uri : option string; r_instreamid : option string }.
Record MultivariantVariant := {
  v_bandwidth : Z; v_codecs : list string; v_uri : string; v_avgbandwidth : option Z;
  v_resolution : string; v_framerate : option Z;
  v_video : string; v_audio : string; v_subtitles : string; v_closedcaptions : string }.
Record Multivariant := {
  mv_version : Z; mv_independent : bool; mv_start : option MultivariantStart;
  mv_variants : list MultivariantVariant; mv_renditions : list MultivariantRendition }.

Inductive playlist := PMedia (m : Media) | PMultivariant (m : Multivariant).
Inductive pkind := KMedia | KMultivariant.

Definition maxSupportedVersion : Z := 10.

(* zero values *)
Definition key0 : MediaKey :=
  {| k_method := ""; k_uri := ""; k_iv := ""; k_keyformat := ""; k_keyformatversions := "" |}.
Definition map0 : MediaMap := {| map_uri := ""; map_brlen := None; map_brstart := None |}.
Definition part0 : MediaPart :=
  {| pt_duration := 0; pt_uri := ""; pt_independent := false; pt_brlen := None;
     pt_brstart := None; pt_gap := false |}.
Definition hint0 : MediaPreloadHint := {| ph_uri := ""; ph_brstart := 0; ph_brlen := None |}.
Definition sc0 : MediaServerControl :=
  {| sc_canblockreload := false; sc_partholdback := None; sc_canskipuntil := None |}.
Definition segment0 : MediaSegment :=
  {| sg_duration := 0; sg_title := ""; sg_uri := ""; sg_discontinuity := false; sg_gap := false;
     sg_datetime := None; sg_bitrate := None; sg_key := None; sg_brlen := None;
     sg_brstart := None; sg_parts := [] |}.
Definition media0 : Media :=
  {| m_version := 0; m_independent := false; m_start := None; m_allowcache := None;
     m_targetduration := 0; m_servercontrol := None; m_partinf := None; m_mediasequence := 0;
     m_discseq := None; m_playlisttype := None; m_map := None; m_skip := None;
     m_segments := []; m_parts := []; m_preloadhint := None; m_endlist := false |}.
Definition rendition0 : MultivariantRendition :=
  {| r_type := ""; r_groupid := ""; r_name := ""; r_language := ""; r_autoselect := false;
     r_default := false; r_forced := false; r_channels := None; r_uri := None; r_instreamid := None |}.
Definition variant0 : MultivariantVariant :=
  {| v_bandwidth := 0; v_codecs := []; v_uri := ""; v_avgbandwidth := None; v_resolution := "";
     v_framerate := None; v_video := ""; v_audio := ""; v_subtitles := ""; v_closedcaptions := "" |}.
Definition multivariant0 : Multivariant :=
  {| mv_version := 0; mv_independent := false; mv_start := None; mv_variants := []; mv_renditions := [] |}.

(* field updates *)
Definition key_set_method (t : MediaKey) x := {| k_method := x; k_uri := k_uri t; k_iv := k_iv t; k_keyformat := k_keyformat t; k_keyformatversions := k_keyformatversions t |}.
Definition key_set_uri (t : MediaKey) x := {| k_method := k_method t; k_uri := x; k_iv := k_iv t; k_keyformat := k_keyformat t; k_keyformatversions := k_keyformatversions t |}.
Definition key_set_iv (t : MediaKey) x := {| k_method := k_method t; k_uri := k_uri t; k_iv := x; k_keyformat := k_keyformat t; k_keyformatversions := k_keyformatversions t |}.
Definition key_set_keyformat (t : MediaKey) x := {| k_method := k_method t; k_uri := k_uri t; k_iv := k_iv t; k_keyformat := x; k_keyformatversions := k_keyformatversions t |}.
Definition key_set_keyformatversions (t : MediaKey) x := {| k_method := k_method t; k_uri := k_uri t; k_iv := k_iv t; k_keyformat := k_keyformat t; k_keyformatversions := x |}.

Definition part_set_duration (p : MediaPart) x := {| pt_duration := x; pt_uri := pt_uri p; pt_independent := pt_independent p; pt_brlen := pt_brlen p; pt_brstart := pt_brstart p; pt_gap := pt_gap p |}.
Definition part_set_uri (p : MediaPart) x := {| pt_duration := pt_duration p; pt_uri := x; pt_independent := pt_independent p; pt_brlen := pt_brlen p; pt_brstart := pt_brstart p; pt_gap := pt_gap p |}.
Definition part_set_independent (p : MediaPart) x := {| pt_duration := pt_duration p; pt_uri := pt_uri p; pt_independent := x; pt_brlen := pt_brlen p; pt_brstart := pt_brstart p; pt_gap := pt_gap p |}.
Definition part_set_byterange (p : MediaPart) l s := {| pt_duration := pt_duration p; pt_uri := pt_uri p; pt_independent := pt_independent p; pt_brlen := l; pt_brstart := s; pt_gap := pt_gap p |}.
Definition part_set_gap (p : MediaPart) x := {| pt_duration := pt_duration p; pt_uri := pt_uri p; pt_independent := pt_independent p; pt_brlen := pt_brlen p; pt_brstart := pt_brstart p; pt_gap := x |}.

Definition seg_set_extinf (s : MediaSegment) d t k := {| sg_duration := d; sg_title := t; sg_uri := sg_uri s; sg_discontinuity := sg_discontinuity s; sg_gap := sg_gap s; sg_datetime := sg_datetime s; sg_bitrate := sg_bitrate s; sg_key := k; sg_brlen := sg_brlen s; sg_brstart := sg_brstart s; sg_parts := sg_parts s |}.
Definition seg_set_uri (s : MediaSegment) x := {| sg_duration := sg_duration s; sg_title := sg_title s; sg_uri := x; sg_discontinuity := sg_discontinuity s; sg_gap := sg_gap s; sg_datetime := sg_datetime s; sg_bitrate := sg_bitrate s; sg_key := sg_key s; sg_brlen := sg_brlen s; sg_brstart := sg_brstart s; sg_parts := sg_parts s |}.
Definition seg_set_discontinuity (s : MediaSegment) x := {| sg_duration := sg_duration s; sg_title := sg_title s; sg_uri := sg_uri s; sg_discontinuity := x; sg_gap := sg_gap s; sg_datetime := sg_datetime s; sg_bitrate := sg_bitrate s; sg_key := sg_key s; sg_brlen := sg_brlen s; sg_brstart := sg_brstart s; sg_parts := sg_parts s |}.
Definition seg_set_gap (s : MediaSegment) x := {| sg_duration := sg_duration s; sg_title := sg_title s; sg_uri := sg_uri s; sg_discontinuity := sg_discontinuity s; sg_gap := x; sg_datetime := sg_datetime s; sg_bitrate := sg_bitrate s; sg_key := sg_key s; sg_brlen := sg_brlen s; sg_brstart := sg_brstart s; sg_parts := sg_parts s |}.
Definition seg_set_datetime (s : MediaSegment) x := {| sg_duration := sg_duration s; sg_title := sg_title s; sg_uri := sg_uri s; sg_discontinuity := sg_discontinuity s; sg_gap := sg_gap s; sg_datetime := x; sg_bitrate := sg_bitrate s; sg_key := sg_key s; sg_brlen := sg_brlen s; sg_brstart := sg_brstart s; sg_parts := sg_parts s |}.
Definition seg_set_bitrate (s : MediaSegment) x := {| sg_duration := sg_duration s; sg_title := sg_title s; sg_uri := sg_uri s; sg_discontinuity := sg_discontinuity s; sg_gap := sg_gap s; sg_datetime := sg_datetime s; sg_bitrate := x; sg_key := sg_key s; sg_brlen := sg_brlen s; sg_brstart := sg_brstart s; sg_parts := sg_parts s |}.
Definition seg_set_byterange (s : MediaSegment) l st := {| sg_duration := sg_duration s; sg_title := sg_title s; sg_uri := sg_uri s; sg_discontinuity := sg_discontinuity s; sg_gap := sg_gap s; sg_datetime := sg_datetime s; sg_bitrate := sg_bitrate s; sg_key := sg_key s; sg_brlen := l; sg_brstart := st; sg_parts := sg_parts s |}.
Definition seg_set_parts (s : MediaSegment) x := {| sg_duration := sg_duration s; sg_title := sg_title s; sg_uri := sg_uri s; sg_discontinuity := sg_discontinuity s; sg_gap := sg_gap s; sg_datetime := sg_datetime s; sg_bitrate := sg_bitrate s; sg_key := sg_key s; sg_brlen := sg_brlen s; sg_brstart := sg_brstart s; sg_parts := x |}.

Definition m_set_version (m : Media) x := {| m_version := x; m_independent := m_independent m; m_start := m_start m; m_allowcache := m_allowcache m; m_targetduration := m_targetduration m; m_servercontrol := m_servercontrol m; m_partinf := m_partinf m; m_mediasequence := m_mediasequence m; m_discseq := m_discseq m; m_playlisttype := m_playlisttype m; m_map := m_map m; m_skip := m_skip m; m_segments := m_segments m; m_parts := m_parts m; m_preloadhint := m_preloadhint m; m_endlist := m_endlist m |}.
Definition m_set_independent (m : Media) x := {| m_version := m_version m; m_independent := x; m_start := m_start m; m_allowcache := m_allowcache m; m_targetduration := m_targetduration m; m_servercontrol := m_servercontrol m; m_partinf := m_partinf m; m_mediasequence := m_mediasequence m; m_discseq := m_discseq m; m_playlisttype := m_playlisttype m; m_map := m_map m; m_skip := m_skip m; m_segments := m_segments m; m_parts := m_parts m; m_preloadhint := m_preloadhint m; m_endlist := m_endlist m |}.
Definition m_set_start (m : Media) x := {| m_version := m_version m; m_independent := m_independent m; m_start := x; m_allowcache := m_allowcache m; m_targetduration := m_targetduration m; m_servercontrol := m_servercontrol m; m_partinf := m_partinf m; m_mediasequence := m_mediasequence m; m_discseq := m_discseq m; m_playlisttype := m_playlisttype m; m_map := m_map m; m_skip := m_skip m; m_segments := m_segments m; m_parts := m_parts m; m_preloadhint := m_preloadhint m; m_endlist := m_endlist m |}.
Definition m_set_allowcache (m : Media) x := {| m_version := m_version m; m_independent := m_independent m; m_start := m_start m; m_allowcache := x; m_targetduration := m_targetduration m; m_servercontrol := m_servercontrol m; m_partinf := m_partinf m; m_mediasequence := m_mediasequence m; m_discseq := m_discseq m; m_playlisttype := m_playlisttype m; m_map := m_map m; m_skip := m_skip m; m_segments := m_segments m; m_parts := m_parts m; m_preloadhint := m_preloadhint m; m_endlist := m_endlist m |}.
Definition m_set_targetduration (m : Media) x := {| m_version := m_version m; m_independent := m_independent m; m_start := m_start m; m_allowcache := m_allowcache m; m_targetduration := x; m_servercontrol := m_servercontrol m; m_partinf := m_partinf m; m_mediasequence := m_mediasequence m; m_discseq := m_discseq m; m_playlisttype := m_playlisttype m; m_map := m_map m; m_skip := m_skip m; m_segments := m_segments m; m_parts := m_parts m; m_preloadhint := m_preloadhint m; m_endlist := m_endlist m |}.
Definition m_set_servercontrol (m : Media) x := {| m_version := m_version m; m_independent := m_independent m; m_start := m_start m; m_allowcache := m_allowcache m; m_targetduration := m_targetduration m; m_servercontrol := x; m_partinf := m_partinf m; m_mediasequence := m_mediasequence m; m_discseq := m_discseq m; m_playlisttype := m_playlisttype m; m_map := m_map m; m_skip := m_skip m; m_segments := m_segments m; m_parts := m_parts m; m_preloadhint := m_preloadhint m; m_endlist := m_endlist m |}.
Definition m_set_partinf (m : Media) x := {| m_version := m_version m; m_independent := m_independent m; m_start := m_start m; m_allowcache := m_allowcache m; m_targetduration := m_targetduration m; m_servercontrol := m_servercontrol m; m_partinf := x; m_mediasequence := m_mediasequence m; m_discseq := m_discseq m; m_playlisttype := m_playlisttype m; m_map := m_map m; m_skip := m_skip m; m_segments := m_segments m; m_parts := m_parts m; m_preloadhint := m_preloadhint m; m_endlist := m_endlist m |}.
Definition m_set_mediasequence (m : Media) x := {| m_version := m_version m; m_independent := m_independent m; m_start := m_start m; m_allowcache := m_allowcache m; m_targetduration := m_targetduration m; m_servercontrol := m_servercontrol m; m_partinf := m_partinf m; m_mediasequence := x; m_discseq := m_discseq m; m_playlisttype := m_playlisttype m; m_map := m_map m; m_skip := m_skip m; m_segments := m_segments m; m_parts := m_parts m; m_preloadhint := m_preloadhint m; m_endlist := m_endlist m |}.
Definition m_set_discseq (m : Media) x := {| m_version := m_version m; m_independent := m_independent m; m_start := m_start m; m_allowcache := m_allowcache m; m_targetduration := m_targetduration m; m_servercontrol := m_servercontrol m; m_partinf := m_partinf m; m_mediasequence := m_mediasequence m; m_discseq := x; m_playlisttype := m_playlisttype m; m_map := m_map m; m_skip := m_skip m; m_segments := m_segments m; m_parts := m_parts m; m_preloadhint := m_preloadhint m; m_endlist := m_endlist m |}.
Definition m_set_playlisttype (m : Media) x := {| m_version := m_version m; m_independent := m_independent m; m_start := m_start m; m_allowcache := m_allowcache m; m_targetduration := m_targetduration m; m_servercontrol := m_servercontrol m; m_partinf := m_partinf m; m_mediasequence := m_mediasequence m; m_discseq := m_discseq m; m_playlisttype := x; m_map := m_map m; m_skip := m_skip m; m_segments := m_segments m; m_parts := m_parts m; m_preloadhint := m_preloadhint m; m_endlist := m_endlist m |}.
Definition m_set_map (m : Media) x := {| m_version := m_version m; m_independent := m_independent m; m_start := m_start m; m_allowcache := m_allowcache m; m_targetduration := m_targetduration m; m_servercontrol := m_servercontrol m; m_partinf := m_partinf m; m_mediasequence := m_mediasequence m; m_discseq := m_discseq m; m_playlisttype := m_playlisttype m; m_map := x; m_skip := m_skip m; m_segments := m_segments m; m_parts := m_parts m; m_preloadhint := m_preloadhint m; m_endlist := m_endlist m |}.
Definition m_set_skip (m : Media) x := {| m_version := m_version m; m_independent := m_independent m; m_start := m_start m; m_allowcache := m_allowcache m; m_targetduration := m_targetduration m; m_servercontrol := m_servercontrol m; m_partinf := m_partinf m; m_mediasequence := m_mediasequence m; m_discseq := m_discseq m; m_playlisttype := m_playlisttype m; m_map := m_map m; m_skip := x; m_segments := m_segments m; m_parts := m_parts m; m_preloadhint := m_preloadhint m; m_endlist := m_endlist m |}.
Definition m_set_segments (m : Media) x := {| m_version := m_version m; m_independent := m_independent m; m_start := m_start m; m_allowcache := m_allowcache m; m_targetduration := m_targetduration m; m_servercontrol := m_servercontrol m; m_partinf := m_partinf m; m_mediasequence := m_mediasequence m; m_discseq := m_discseq m; m_playlisttype := m_playlisttype m; m_map := m_map m; m_skip := m_skip m; m_segments := x; m_parts := m_parts m; m_preloadhint := m_preloadhint m; m_endlist := m_endlist m |}.
Definition m_set_parts (m : Media) x := {| m_version := m_version m; m_independent := m_independent m; m_start := m_start m; m_allowcache := m_allowcache m; m_targetduration := m_targetduration m; m_servercontrol := m_servercontrol m; m_partinf := m_partinf m; m_mediasequence := m_mediasequence m; m_discseq := m_discseq m; m_playlisttype := m_playlisttype m; m_map := m_map m; m_skip := m_skip m; m_segments := m_segments m; m_parts := x; m_preloadhint := m_preloadhint m; m_endlist := m_endlist m |}.
Definition m_set_preloadhint (m : Media) x := {| m_version := m_version m; m_independent := m_independent m; m_start := m_start m; m_allowcache := m_allowcache m; m_targetduration := m_targetduration m; m_servercontrol := m_servercontrol m; m_partinf := m_partinf m; m_mediasequence := m_mediasequence m; m_discseq := m_discseq m; m_playlisttype := m_playlisttype m; m_map := m_map m; m_skip := m_skip m; m_segments := m_segments m; m_parts := m_parts m; m_preloadhint := x; m_endlist := m_endlist m |}.
Definition m_set_endlist (m : Media) x := {| m_version := m_version m; m_independent := m_independent m; m_start := m_start m; m_allowcache := m_allowcache m; m_targetduration := m_targetduration m; m_servercontrol := m_servercontrol m; m_partinf := m_partinf m; m_mediasequence := m_mediasequence m; m_discseq := m_discseq m; m_playlisttype := m_playlisttype m; m_map := m_map m; m_skip := m_skip m; m_segments := m_segments m; m_parts := m_parts m; m_preloadhint := m_preloadhint m; m_endlist := x |}.

Definition r_set_type (t : MultivariantRendition) x := {| r_type := x; r_groupid := r_groupid t; r_name := r_name t; r_language := r_language t; r_autoselect := r_autoselect t; r_default := r_default t; r_forced := r_forced t; r_channels := r_channels t; r_uri := r_uri t; r_instreamid := r_instreamid t |}.
Definition r_set_groupid (t : MultivariantRendition) x := {| r_type := r_type t; r_groupid := x; r_name := r_name t; r_language := r_language t; r_autoselect := r_autoselect t; r_default := r_default t; r_forced := r_forced t; r_channels := r_channels t; r_uri := r_uri t; r_instreamid := r_instreamid t |}.
Definition r_set_name (t : MultivariantRendition) x := {| r_type := r_type t; r_groupid := r_groupid t; r_name := x; r_language := r_language t; r_autoselect := r_autoselect t; r_default := r_default t; r_forced := r_forced t; r_channels := r_channels t; r_uri := r_uri t; r_instreamid := r_instreamid t |}.
Definition r_set_language (t : MultivariantRendition) x := {| r_type := r_type t; r_groupid := r_groupid t; r_name := r_name t; r_language := x; r_autoselect := r_autoselect t; r_default := r_default t; r_forced := r_forced t; r_channels := r_channels t; r_uri := r_uri t; r_instreamid := r_instreamid t |}.
Definition r_set_autoselect (t : MultivariantRendition) x := {| r_type := r_type t; r_groupid := r_groupid t; r_name := r_name t; r_language := r_language t; r_autoselect := x; r_default := r_default t; r_forced := r_forced t; r_channels := r_channels t; r_uri := r_uri t; r_instreamid := r_instreamid t |}.
Definition r_set_default (t : MultivariantRendition) x := {| r_type := r_type t; r_groupid := r_groupid t; r_name := r_name t; r_language := r_language t; r_autoselect := r_autoselect t; r_default := x; r_forced := r_forced t; r_channels := r_channels t; r_uri := r_uri t; r_instreamid := r_instreamid t |}.
Definition r_set_forced (t : MultivariantRendition) x := {| r_type := r_type t; r_groupid := r_groupid t; r_name := r_name t; r_language := r_language t; r_autoselect := r_autoselect t; r_default := r_default t; r_forced := x; r_channels := r_channels t; r_uri := r_uri t; r_instreamid := r_instreamid t |}.
Definition r_set_channels (t : MultivariantRendition) x := {| r_type := r_type t; r_groupid := r_groupid t; r_name := r_name t; r_language := r_language t; r_autoselect := r_autoselect t; r_default := r_default t; r_forced := r_forced t; r_channels := x; r_uri := r_uri t; r_instreamid := r_instreamid t |}.
Definition r_set_uri (t : MultivariantRendition) x := {| r_type := r_type t; r_groupid := r_groupid t; r_name := r_name t; r_language := r_language t; r_autoselect := r_autoselect t; r_default := r_default t; r_forced := r_forced t; r_channels := r_channels t; r_uri := x; r_instreamid := r_instreamid t |}.
Definition r_set_instreamid (t : MultivariantRendition) x := {| r_type := r_type t; r_groupid := r_groupid t; r_name := r_name t; r_language := r_language t; r_autoselect := r_autoselect t; r_default := r_default t; r_forced := r_forced t; r_channels := r_channels t; r_uri := r_uri t; r_instreamid := x |}.

Definition v_set_bandwidth (v : MultivariantVariant) x := {| v_bandwidth := x; v_codecs := v_codecs v; v_uri := v_uri v; v_avgbandwidth := v_avgbandwidth v; v_resolution := v_resolution v; v_framerate := v_framerate v; v_video := v_video v; v_audio := v_audio v; v_subtitles := v_subtitles v; v_closedcaptions := v_closedcaptions v |}.
Definition v_set_codecs (v : MultivariantVariant) x := {| v_bandwidth := v_bandwidth v; v_codecs := x; v_uri := v_uri v; v_avgbandwidth := v_avgbandwidth v; v_resolution := v_resolution v; v_framerate := v_framerate v; v_video := v_video v; v_audio := v_audio v; v_subtitles := v_subtitles v; v_closedcaptions := v_closedcaptions v |}.
Definition v_set_uri (v : MultivariantVariant) x := {| v_bandwidth := v_bandwidth v; v_codecs := v_codecs v; v_uri := x; v_avgbandwidth := v_avgbandwidth v; v_resolution := v_resolution v; v_framerate := v_framerate v; v_video := v_video v; v_audio := v_audio v; v_subtitles := v_subtitles v; v_closedcaptions := v_closedcaptions v |}.
Definition v_set_avgbandwidth (v : MultivariantVariant) x := {| v_bandwidth := v_bandwidth v; v_codecs := v_codecs v; v_uri := v_uri v; v_avgbandwidth := x; v_resolution := v_resolution v; v_framerate := v_framerate v; v_video := v_video v; v_audio := v_audio v; v_subtitles := v_subtitles v; v_closedcaptions := v_closedcaptions v |}.
Definition v_set_resolution (v : MultivariantVariant) x := {| v_bandwidth := v_bandwidth v; v_codecs := v_codecs v; v_uri := v_uri v; v_avgbandwidth := v_avgbandwidth v; v_resolution := x; v_framerate := v_framerate v; v_video := v_video v; v_audio := v_audio v; v_subtitles := v_subtitles v; v_closedcaptions := v_closedcaptions v |}.
Definition v_set_framerate (v : MultivariantVariant) x := {| v_bandwidth := v_bandwidth v; v_codecs := v_codecs v; v_uri := v_uri v; v_avgbandwidth := v_avgbandwidth v; v_resolution := v_resolution v; v_framerate := x; v_video := v_video v; v_audio := v_audio v; v_subtitles := v_subtitles v; v_closedcaptions := v_closedcaptions v |}.
Definition v_set_video (v : MultivariantVariant) x := {| v_bandwidth := v_bandwidth v; v_codecs := v_codecs v; v_uri := v_uri v; v_avgbandwidth := v_avgbandwidth v; v_resolution := v_resolution v; v_framerate := v_framerate v; v_video := x; v_audio := v_audio v; v_subtitles := v_subtitles v; v_closedcaptions := v_closedcaptions v |}.
Definition v_set_audio (v : MultivariantVariant) x := {| v_bandwidth := v_bandwidth v; v_codecs := v_codecs v; v_uri := v_uri v; v_avgbandwidth := v_avgbandwidth v; v_resolution := v_resolution v; v_framerate := v_framerate v; v_video := v_video v; v_audio := x; v_subtitles := v_subtitles v; v_closedcaptions := v_closedcaptions v |}.
Definition v_set_subtitles (v : MultivariantVariant) x := {| v_bandwidth := v_bandwidth v; v_codecs := v_codecs v; v_uri := v_uri v; v_avgbandwidth := v_avgbandwidth v; v_resolution := v_resolution v; v_framerate := v_framerate v; v_video := v_video v; v_audio := v_audio v; v_subtitles := x; v_closedcaptions := v_closedcaptions v |}.
Definition v_set_closedcaptions (v : MultivariantVariant) x := {| v_bandwidth := v_bandwidth v; v_codecs := v_codecs v; v_uri := v_uri v; v_avgbandwidth := v_avgbandwidth v; v_resolution := v_resolution v; v_framerate := v_framerate v; v_video := v_video v; v_audio := v_audio v; v_subtitles := v_subtitles v; v_closedcaptions := x |}.

Definition mv_set_version (m : Multivariant) x := {| mv_version := x; mv_independent := mv_independent m; mv_start := mv_start m; mv_variants := mv_variants m; mv_renditions := mv_renditions m |}.
Definition mv_set_independent (m : Multivariant) x := {| mv_version := mv_version m; mv_independent := x; mv_start := mv_start m; mv_variants := mv_variants m; mv_renditions := mv_renditions m |}.
Definition mv_set_start (m : Multivariant) x := {| mv_version := mv_version m; mv_independent := mv_independent m; mv_start := x; mv_variants := mv_variants m; mv_renditions := mv_renditions m |}.
Definition mv_set_variants (m : Multivariant) x := {| mv_version := mv_version m; mv_independent := mv_independent m; mv_start := mv_start m; mv_variants := x; mv_renditions := mv_renditions m |}.
Definition mv_set_renditions (m : Multivariant) x := {| mv_version := mv_version m; mv_independent := mv_independent m; mv_start := mv_start m; mv_variants := mv_variants m; mv_renditions := x |}.

Definition yes (v : string) : bool := String.eqb v "YES".

Section WithOracles.
Variable orc : oracles.

(* primitives.Duration.Unmarshal *)
Definition duration_unmarshal (v : string) : res Z := of_option (parse_dur orc v).

(* ---------- EXT-X-START ---------- *)
Definition start_step (t : MultivariantStart) (key val : string) : res MultivariantStart :=
  if String.eqb key "TIME-OFFSET" then
    do d <- duration_unmarshal val ;; Ok {| st_timeoffset := d |}
  else Ok t.

Definition start_unmarshal (v : string) : res MultivariantStart :=
  do a <- attrs_unmarshal v ;;
  do t <- attrs_fold start_step a {| st_timeoffset := 0 |} ;;
  if st_timeoffset t =? 0 then Err else Ok t.

Definition start_marshal (t : MultivariantStart) : string :=
  "#EXT-X-START:TIME-OFFSET=" ++ fmt_dur orc (st_timeoffset t) ++ lf.

(* ---------- EXT-X-SERVER-CONTROL ---------- *)
Definition server_control_step (t : MediaServerControl) (key val : string) : res MediaServerControl :=
  if String.eqb key "CAN-BLOCK-RELOAD" then
    Ok {| sc_canblockreload := yes val; sc_partholdback := sc_partholdback t;
          sc_canskipuntil := sc_canskipuntil t |}
  else if String.eqb key "PART-HOLD-BACK" then
    do d <- duration_unmarshal val ;;
    Ok {| sc_canblockreload := sc_canblockreload t; sc_partholdback := Some d;
          sc_canskipuntil := sc_canskipuntil t |}
  else if String.eqb key "CAN-SKIP-UNTIL" then
    do d <- duration_unmarshal val ;;
    Ok {| sc_canblockreload := sc_canblockreload t; sc_partholdback := sc_partholdback t;
          sc_canskipuntil := Some d |}
  else Ok t.

Definition server_control_unmarshal (v : string) : res MediaServerControl :=
  do a <- attrs_unmarshal v ;;
  attrs_fold server_control_step a sc0.

(* attrs []string built by append, then strings.Join(attrs, ",") *)
Definition server_control_marshal (t : MediaServerControl) : string :=
  let a1 : list string := if sc_canblockreload t then ["CAN-BLOCK-RELOAD=YES"] else [] in
  let a2 : list string :=
    match sc_partholdback t with Some d => ["PART-HOLD-BACK=" ++ fmt_dur orc d] | None => [] end in
  let a3 : list string :=
    match sc_canskipuntil t with Some d => ["CAN-SKIP-UNTIL=" ++ fmt_dur orc d] | None => [] end in
  "#EXT-X-SERVER-CONTROL:" ++ join "," (List.app a1 (List.app a2 a3)) ++ lf.

(* ---------- EXT-X-PART-INF ---------- *)
Definition part_inf_step (t : MediaPartInf) (key val : string) : res MediaPartInf :=
  if String.eqb key "PART-TARGET" then
    do d <- duration_unmarshal val ;; Ok {| pi_parttarget := d |}
  else Ok t.

Definition part_inf_unmarshal (v : string) : res MediaPartInf :=
  do a <- attrs_unmarshal v ;;
  do t <- attrs_fold part_inf_step a {| pi_parttarget := 0 |} ;;
  if pi_parttarget t =? 0 then Err else Ok t.

Definition part_inf_marshal (t : MediaPartInf) : string :=
  "#EXT-X-PART-INF:PART-TARGET=" ++ fmt_dur orc (pi_parttarget t) ++ lf.

(* ---------- EXT-X-MAP ---------- *)
Definition map_step (t : MediaMap) (key val : string) : res MediaMap :=
  if String.eqb key "URI" then
    Ok {| map_uri := val; map_brlen := map_brlen t; map_brstart := map_brstart t |}
  else if String.eqb key "BYTERANGE" then
    do br <- byterange_unmarshal val ;;
    Ok {| map_uri := map_uri t; map_brlen := Some (fst br); map_brstart := snd br |}
  else Ok t.

Definition map_unmarshal (v : string) : res MediaMap :=
  do a <- attrs_unmarshal v ;;
  do t <- attrs_fold map_step a map0 ;;
  if String.eqb (map_uri t) "" then Err else Ok t.

Definition map_marshal (t : MediaMap) : string :=
  "#EXT-X-MAP:URI=""" ++ map_uri t ++ """"
  ++ match map_brlen t with
     | Some l => ",BYTERANGE=" ++ byterange_marshal l (map_brstart t)
     | None => ""
     end
  ++ lf.

(* ---------- EXT-X-KEY ---------- *)
Definition MediaKeyMethodNone := "NONE".
Definition MediaKeyMethodAES128 := "AES-128".
Definition MediaKeyMethodSampleAES := "SAMPLE-AES".

Definition key_step (t : MediaKey) (key val : string) : res MediaKey :=
  if String.eqb key "METHOD" then
    if negb (String.eqb val MediaKeyMethodNone) && negb (String.eqb val MediaKeyMethodAES128)
       && negb (String.eqb val MediaKeyMethodSampleAES)
    then Err else Ok (key_set_method t val)
  else if String.eqb key "URI" then Ok (key_set_uri t val)
  else if String.eqb key "IV" then Ok (key_set_iv t val)
  else if String.eqb key "KEYFORMAT" then Ok (key_set_keyformat t val)
  else if String.eqb key "KEYFORMATVERSIONS" then Ok (key_set_keyformatversions t val)
  else Ok t.

Definition key_unmarshal (v : string) : res MediaKey :=
  do a <- attrs_unmarshal v ;;
  do t <- attrs_fold key_step a key0 ;;
  if (String.eqb (k_method t) MediaKeyMethodAES128 || String.eqb (k_method t) MediaKeyMethodSampleAES)
     && String.eqb (k_uri t) ""
  then Err else Ok t.

Definition key_marshal (t : MediaKey) : string :=
  "#EXT-X-KEY:METHOD=" ++ k_method t
  ++ (if negb (String.eqb (k_method t) MediaKeyMethodNone) then
        ",URI=""" ++ k_uri t ++ """"
        ++ (if negb (String.eqb (k_iv t) "") then ",IV=" ++ k_iv t else "")
        ++ (if negb (String.eqb (k_keyformat t) "") then ",KEYFORMAT=""" ++ k_keyformat t ++ """" else "")
        ++ (if negb (String.eqb (k_keyformatversions t) "")
            then ",KEYFORMATVERSIONS=""" ++ k_keyformatversions t ++ """" else "")
      else "")
  ++ lf.

(* MediaKey.Equal on non-nil receivers: pointer equality implies field equality *)
Definition key_equal (a b : MediaKey) : bool :=
  String.eqb (k_method a) (k_method b) && String.eqb (k_uri a) (k_uri b)
  && String.eqb (k_iv a) (k_iv b) && String.eqb (k_keyformat a) (k_keyformat b)
  && String.eqb (k_keyformatversions a) (k_keyformatversions b).

(* ---------- EXT-X-SKIP ---------- *)
(* (value, skipSegFound) *)
Definition skip_step (t : MediaSkip * bool) (key val : string) : res (MediaSkip * bool) :=
  if String.eqb key "SKIPPED-SEGMENTS" then
    do n <- of_option (parse_uint 31 val) ;; Ok ({| sk_skipped := n |}, true)
  else Ok t.

Definition skip_unmarshal (v : string) : res MediaSkip :=
  do a <- attrs_unmarshal v ;;
  do t <- attrs_fold skip_step a ({| sk_skipped := 0 |}, false) ;;
  if negb (snd t) then Err else Ok (fst t).

Definition skip_marshal (t : MediaSkip) : string :=
  "#EXT-X-SKIP:SKIPPED-SEGMENTS=" ++ fmt_int (sk_skipped t) ++ lf.

(* ---------- EXT-X-PART ---------- *)
Definition part_step (p : MediaPart) (key val : string) : res MediaPart :=
  if String.eqb key "DURATION" then
    do d <- duration_unmarshal val ;; Ok (part_set_duration p d)
  else if String.eqb key "URI" then Ok (part_set_uri p val)
  else if String.eqb key "INDEPENDENT" then Ok (part_set_independent p (yes val))
  else if String.eqb key "BYTERANGE" then
    do br <- byterange_unmarshal val ;; Ok (part_set_byterange p (Some (fst br)) (snd br))
  else if String.eqb key "GAP" then Ok (part_set_gap p true)
  else Ok p.

Definition part_unmarshal (v : string) : res MediaPart :=
  do a <- attrs_unmarshal v ;;
  do p <- attrs_fold part_step a part0 ;;
  if pt_duration p =? 0 then Err
  else if String.eqb (pt_uri p) "" then Err
  else Ok p.

Definition part_marshal (p : MediaPart) : string :=
  "#EXT-X-PART:DURATION=" ++ fmt_dur orc (pt_duration p) ++ ",URI=""" ++ pt_uri p ++ """"
  ++ (if pt_independent p then ",INDEPENDENT=YES" else "")
  ++ match pt_brlen p with
     | Some l => ",BYTERANGE=" ++ byterange_marshal l (pt_brstart p)
     | None => ""
     end
  ++ (if pt_gap p then ",GAP=YES" else "")
  ++ lf.

(* ---------- EXT-X-PRELOAD-HINT ---------- *)
(* (value, typeRecv) *)
Definition preload_hint_step (t : MediaPreloadHint * bool) (key val : string)
  : res (MediaPreloadHint * bool) :=
  let h := fst t in
  if String.eqb key "TYPE" then
    if negb (String.eqb val "PART") then Err else Ok (h, true)
  else if String.eqb key "URI" then
    Ok ({| ph_uri := val; ph_brstart := ph_brstart h; ph_brlen := ph_brlen h |}, snd t)
  else if String.eqb key "BYTERANGE-START" then
    do n <- of_option (parse_uint 64 val) ;;
    Ok ({| ph_uri := ph_uri h; ph_brstart := n; ph_brlen := ph_brlen h |}, snd t)
  else if String.eqb key "BYTERANGE-LENGTH" then
    do n <- of_option (parse_uint 64 val) ;;
    Ok ({| ph_uri := ph_uri h; ph_brstart := ph_brstart h; ph_brlen := Some n |}, snd t)
  else Ok t.

Definition preload_hint_unmarshal (v : string) : res MediaPreloadHint :=
  do a <- attrs_unmarshal v ;;
  do t <- attrs_fold preload_hint_step a (hint0, false) ;;
  if negb (snd t) then Err
  else if String.eqb (ph_uri (fst t)) "" then Err
  else Ok (fst t).

Definition preload_hint_marshal (t : MediaPreloadHint) : string :=
  "#EXT-X-PRELOAD-HINT:TYPE=PART,URI=""" ++ ph_uri t ++ """"
  ++ (if negb (ph_brstart t =? 0) then ",BYTERANGE-START=" ++ fmt_int (ph_brstart t) else "")
  ++ match ph_brlen t with Some l => ",BYTERANGE-LENGTH=" ++ fmt_int l | None => "" end
  ++ lf.

(* ---------- MediaSegment ---------- *)
Definition segment_validate (s : MediaSegment) : res unit :=
  if sg_duration s =? 0 then Err
  else if String.eqb (sg_uri s) "" then Err
  else Ok tt.

Definition segment_marshal (s : MediaSegment) : string :=
  (if sg_discontinuity s then "#EXT-X-DISCONTINUITY" ++ lf else "")
  ++ (if sg_gap s then "#EXT-X-GAP" ++ lf else "")
  ++ match sg_datetime s with
     | Some t => "#EXT-X-PROGRAM-DATE-TIME:" ++ fmt_time orc t ++ lf
     | None => ""
     end
  ++ match sg_bitrate s with
     | Some b => "#EXT-X-BITRATE:" ++ fmt_int b ++ lf
     | None => ""
     end
  ++ String.concat "" (map part_marshal (sg_parts s))
  ++ "#EXTINF:" ++ fmt_dur orc (sg_duration s) ++ "," ++ sg_title s ++ lf
  ++ match sg_brlen s with
     | Some l => "#EXT-X-BYTERANGE:" ++ byterange_marshal l (sg_brstart s) ++ lf
     | None => ""
     end
  ++ sg_uri s ++ lf.

(* ---------- Media.Unmarshal ---------- *)
Record mstate := { ms_m : Media; ms_curKey : option MediaKey; ms_curSegment : MediaSegment }.
Definition ms_with_m (st : mstate) m := {| ms_m := m; ms_curKey := ms_curKey st; ms_curSegment := ms_curSegment st |}.
Definition ms_with_seg (st : mstate) s := {| ms_m := ms_m st; ms_curKey := ms_curKey st; ms_curSegment := s |}.
Definition ms_with_key (st : mstate) k := {| ms_m := ms_m st; ms_curKey := k; ms_curSegment := ms_curSegment st |}.

(* one iteration of the switch, after ReadLine and the break test *)
Definition media_line (st : mstate) (line : string) : res mstate :=
  let m := ms_m st in
  let cur := ms_curSegment st in
  if has_prefix "#EXT-X-VERSION:" line then
    do line <- cut_prefix "#EXT-X-VERSION:" line ;;
    do tmp <- of_option (parse_uint 31 line) ;;
    if tmp >? maxSupportedVersion then Err else Ok (ms_with_m st (m_set_version m tmp))
  else if has_prefix "#EXT-X-INDEPENDENT-SEGMENTS" line then
    Ok (ms_with_m st (m_set_independent m true))
  else if has_prefix "#EXT-X-START:" line then
    do line <- cut_prefix "#EXT-X-START:" line ;;
    do t <- start_unmarshal line ;;
    Ok (ms_with_m st (m_set_start m (Some t)))
  else if has_prefix "#EXT-X-ALLOW-CACHE:" line then
    do line <- cut_prefix "#EXT-X-ALLOW-CACHE:" line ;;
    Ok (ms_with_m st (m_set_allowcache m (Some (yes line))))
  else if has_prefix "#EXT-X-TARGETDURATION:" line then
    do line <- cut_prefix "#EXT-X-TARGETDURATION:" line ;;
    do line <- match index_byte "." line with
               | Some i => slice_to i line
               | None => Ok line
               end ;;
    do tmp <- of_option (parse_uint 31 line) ;;
    Ok (ms_with_m st (m_set_targetduration m tmp))
  else if has_prefix "#EXT-X-SERVER-CONTROL:" line then
    do line <- cut_prefix "#EXT-X-SERVER-CONTROL:" line ;;
    do t <- server_control_unmarshal line ;;
    Ok (ms_with_m st (m_set_servercontrol m (Some t)))
  else if has_prefix "#EXT-X-PART-INF:" line then
    do line <- cut_prefix "#EXT-X-PART-INF:" line ;;
    do t <- part_inf_unmarshal line ;;
    Ok (ms_with_m st (m_set_partinf m (Some t)))
  else if has_prefix "#EXT-X-MEDIA-SEQUENCE:" line then
    do line <- cut_prefix "#EXT-X-MEDIA-SEQUENCE:" line ;;
    do tmp <- of_option (parse_uint 31 line) ;;
    Ok (ms_with_m st (m_set_mediasequence m tmp))
  else if has_prefix "#EXT-X-DISCONTINUITY-SEQUENCE:" line then
    do line <- cut_prefix "#EXT-X-DISCONTINUITY-SEQUENCE:" line ;;
    do tmp <- of_option (parse_uint 31 line) ;;
    Ok (ms_with_m st (m_set_discseq m (Some tmp)))
  else if has_prefix "#EXT-X-PLAYLIST-TYPE:" line then
    do line <- cut_prefix "#EXT-X-PLAYLIST-TYPE:" line ;;
    if negb (String.eqb line "EVENT") && negb (String.eqb line "VOD") then Err
    else Ok (ms_with_m st (m_set_playlisttype m (Some line)))
  else if has_prefix "#EXT-X-MAP:" line then
    do line <- cut_prefix "#EXT-X-MAP:" line ;;
    do t <- map_unmarshal line ;;
    Ok (ms_with_m st (m_set_map m (Some t)))
  else if has_prefix "#EXT-X-KEY:" line then
    do line <- cut_prefix "#EXT-X-KEY:" line ;;
    do t <- key_unmarshal line ;;
    Ok (ms_with_key st (Some t))
  else if has_prefix "#EXT-X-SKIP:" line then
    do line <- cut_prefix "#EXT-X-SKIP:" line ;;
    do t <- skip_unmarshal line ;;
    Ok (ms_with_m st (m_set_skip m (Some t)))
  else if String.eqb line "#EXT-X-DISCONTINUITY" then
    Ok (ms_with_seg st (seg_set_discontinuity cur true))
  else if String.eqb line "#EXT-X-GAP" then
    Ok (ms_with_seg st (seg_set_gap cur true))
  else if has_prefix "#EXT-X-PROGRAM-DATE-TIME:" line then
    do line <- cut_prefix "#EXT-X-PROGRAM-DATE-TIME:" line ;;
    do tmp <- of_option (parse_time orc line) ;;
    Ok (ms_with_seg st (seg_set_datetime cur (Some tmp)))
  else if has_prefix "#EXT-X-BITRATE:" line then
    do line <- cut_prefix "#EXT-X-BITRATE:" line ;;
    do tmp <- of_option (parse_uint 31 line) ;;
    Ok (ms_with_seg st (seg_set_bitrate cur (Some tmp)))
  else if has_prefix "#EXTINF:" line then
    do line <- cut_prefix "#EXTINF:" line ;;
    let parts := split_n2 "," line in
    if negb (Nat.eqb (List.length parts) 2) then Err
    else
      do p0 <- list_at 0 parts ;;
      do d <- duration_unmarshal p0 ;;
      do p1 <- list_at 1 parts ;;
      Ok (ms_with_seg st (seg_set_extinf cur d (trim_space p1) (ms_curKey st)))
  else if has_prefix "#EXT-X-BYTERANGE:" line then
    do line <- cut_prefix "#EXT-X-BYTERANGE:" line ;;
    do br <- byterange_unmarshal line ;;
    Ok (ms_with_seg st (seg_set_byterange cur (Some (fst br)) (snd br)))
  else if has_prefix "#EXT-X-PART:" line then
    do line <- cut_prefix "#EXT-X-PART:" line ;;
    do part <- part_unmarshal line ;;
    Ok (ms_with_seg st (seg_set_parts cur (sg_parts cur ++ [part])))
  else
    do is_uri <- (if negb (Nat.eqb (slen line) 0)
                  then do c <- byte_at 0 line ;; Ok (negb (Ascii.eqb c "#"))
                  else Ok false) ;;
    if is_uri then
      let cur' := seg_set_uri cur line in
      do _ <- segment_validate cur' ;;
      Ok {| ms_m := m_set_segments m (m_segments m ++ [cur']); ms_curKey := ms_curKey st;
            ms_curSegment := segment0 |}
    else if has_prefix "#EXT-X-PRELOAD-HINT:" line then
      do line <- cut_prefix "#EXT-X-PRELOAD-HINT:" line ;;
      do t <- preload_hint_unmarshal line ;;
      Ok (ms_with_m st (m_set_preloadhint m (Some t)))
    else if String.eqb line "#EXT-X-ENDLIST" then
      Ok (ms_with_m st (m_set_endlist m true))
    else Ok st.

Fixpoint media_loop (fuel : nat) (st : mstate) (s : string) : res mstate :=
  match fuel with
  | O => OutOfFuel
  | S f =>
      do ls <- read_line s ;;
      let '(line, s') := ls in
      if String.eqb line "" && String.eqb s' "" then Ok st
      else do st' <- media_line st line ;; media_loop f st' s'
  end.

(* Media.Unmarshal on a fresh &Media{} *)
Definition media_unmarshal (buf : string) : res Media :=
  do s <- skip_header buf ;;
  do st <- media_loop (S (slen buf)) {| ms_m := media0; ms_curKey := None; ms_curSegment := segment0 |} s ;;
  let m := m_set_parts (ms_m st) (sg_parts (ms_curSegment st)) in
  if m_targetduration m =? 0 then Err
  else if Nat.eqb (List.length (m_segments m)) 0 then Err
  else Ok m.

(* ---------- Media.Marshal ---------- *)
Fixpoint segments_marshal (prevKey : option MediaKey) (segs : list MediaSegment) : string :=
  match segs with
  | [] => ""
  | seg :: tl =>
      match sg_key seg with
      | Some k =>
          if match prevKey with None => true | Some pk => negb (key_equal k pk) end
          then key_marshal k ++ segment_marshal seg ++ segments_marshal (Some k) tl
          else segment_marshal seg ++ segments_marshal prevKey tl
      | None => segment_marshal seg ++ segments_marshal prevKey tl
      end
  end.

Definition media_marshal (m : Media) : string :=
  "#EXTM3U" ++ lf
  ++ "#EXT-X-VERSION:" ++ fmt_int (m_version m) ++ lf
  ++ (if m_independent m then "#EXT-X-INDEPENDENT-SEGMENTS" ++ lf else "")
  ++ match m_start m with Some t => start_marshal t | None => "" end
  ++ match m_allowcache m with
     | Some b => "#EXT-X-ALLOW-CACHE:" ++ (if b then "YES" else "NO") ++ lf
     | None => ""
     end
  ++ "#EXT-X-TARGETDURATION:" ++ fmt_int (m_targetduration m) ++ lf
  ++ match m_servercontrol m with Some t => server_control_marshal t | None => "" end
  ++ match m_partinf m with Some t => part_inf_marshal t | None => "" end
  ++ "#EXT-X-MEDIA-SEQUENCE:" ++ fmt_int (m_mediasequence m) ++ lf
  ++ match m_discseq m with
     | Some d => "#EXT-X-DISCONTINUITY-SEQUENCE:" ++ fmt_int d ++ lf
     | None => ""
     end
  ++ match m_playlisttype m with
     | Some t => "#EXT-X-PLAYLIST-TYPE:" ++ t ++ lf
     | None => ""
     end
  ++ match m_map m with Some t => map_marshal t | None => "" end
  ++ match m_skip m with Some t => skip_marshal t | None => "" end
  ++ segments_marshal None (m_segments m)
  ++ String.concat "" (map part_marshal (m_parts m))
  ++ match m_preloadhint m with Some t => preload_hint_marshal t | None => "" end
  ++ (if m_endlist m then "#EXT-X-ENDLIST" ++ lf else "").

(* ---------- EXT-X-MEDIA ---------- *)
Definition rendition_step (t : MultivariantRendition) (key val : string) : res MultivariantRendition :=
  if String.eqb key "TYPE" then
    if negb (String.eqb val "AUDIO") && negb (String.eqb val "VIDEO")
       && negb (String.eqb val "SUBTITLES") && negb (String.eqb val "CLOSED-CAPTIONS")
    then Err else Ok (r_set_type t val)
  else if String.eqb key "GROUP-ID" then Ok (r_set_groupid t val)
  else if String.eqb key "LANGUAGE" then Ok (r_set_language t val)
  else if String.eqb key "NAME" then Ok (r_set_name t val)
  else if String.eqb key "DEFAULT" then Ok (r_set_default t (yes val))
  else if String.eqb key "AUTOSELECT" then Ok (r_set_autoselect t (yes val))
  else if String.eqb key "FORCED" then Ok (r_set_forced t (yes val))
  else if String.eqb key "CHANNELS" then Ok (r_set_channels t (Some val))
  else if String.eqb key "URI" then Ok (r_set_uri t (Some val))
  else if String.eqb key "INSTREAM-ID" then Ok (r_set_instreamid t (Some val))
  else Ok t.

Definition is_some {A} (o : option A) : bool := match o with Some _ => true | None => false end.

Definition rendition_unmarshal (v : string) : res MultivariantRendition :=
  do a <- attrs_unmarshal v ;;
  do t <- attrs_fold rendition_step a rendition0 ;;
  if String.eqb (r_type t) "" then Err
  else if String.eqb (r_groupid t) "" then Err
  else if String.eqb (r_type t) "CLOSED-CAPTIONS" && is_some (r_uri t) then Err
  else if String.eqb (r_type t) "SUBTITLES" && negb (is_some (r_uri t)) then Err
  else if (if String.eqb (r_type t) "CLOSED-CAPTIONS"
           then negb (is_some (r_instreamid t)) else is_some (r_instreamid t)) then Err
  else if is_some (r_channels t) && negb (String.eqb (r_type t) "AUDIO") then Err
  else Ok t.

Definition rendition_marshal (t : MultivariantRendition) : string :=
  "#EXT-X-MEDIA:TYPE=" ++ r_type t ++ ",GROUP-ID=""" ++ r_groupid t ++ """"
  ++ (if negb (String.eqb (r_language t) "") then ",LANGUAGE=""" ++ r_language t ++ """" else "")
  ++ (if negb (String.eqb (r_name t) "") then ",NAME=""" ++ r_name t ++ """" else "")
  ++ (if r_autoselect t then ",AUTOSELECT=YES" else "")
  ++ (if r_default t then ",DEFAULT=YES" else "")
  ++ (if r_forced t then ",FORCED=YES" else "")
  ++ match r_channels t with Some x => ",CHANNELS=""" ++ x ++ """" | None => "" end
  ++ match r_uri t with Some x => ",URI=""" ++ x ++ """" | None => "" end
  ++ match r_instreamid t with Some x => ",INSTREAM-ID=""" ++ x ++ """" | None => "" end
  ++ lf.

(* ---------- EXT-X-STREAM-INF ---------- *)
Definition variant_step (v : MultivariantVariant) (key val : string) : res MultivariantVariant :=
  if String.eqb key "BANDWIDTH" then
    do n <- of_option (parse_uint 31 val) ;; Ok (v_set_bandwidth v n)
  else if String.eqb key "AVERAGE-BANDWIDTH" then
    do n <- of_option (parse_uint 31 val) ;; Ok (v_set_avgbandwidth v (Some n))
  else if String.eqb key "CODECS" then Ok (v_set_codecs v (split_byte "," val))
  else if String.eqb key "RESOLUTION" then Ok (v_set_resolution v val)
  else if String.eqb key "FRAME-RATE" then
    do f <- of_option (parse_rate orc val) ;; Ok (v_set_framerate v (Some f))
  else if String.eqb key "VIDEO" then Ok (v_set_video v val)
  else if String.eqb key "AUDIO" then Ok (v_set_audio v val)
  else if String.eqb key "SUBTITLES" then Ok (v_set_subtitles v val)
  else if String.eqb key "CLOSED-CAPTIONS" then Ok (v_set_closedcaptions v val)
  else Ok v.

Definition variant_unmarshal (va : string) : res MultivariantVariant :=
  let lines := split_byte LF va in
  do l0 <- list_at 0 lines ;;
  do a <- attrs_unmarshal l0 ;;
  do v <- attrs_fold variant_step a variant0 ;;
  do l1 <- list_at 1 lines ;;
  do bad <- (if Nat.eqb (slen l1) 0 then Ok true
             else do c <- byte_at 0 l1 ;; Ok (Ascii.eqb c "#")) ;;
  if bad then Err
  else do l1' <- list_at 1 lines ;; Ok (v_set_uri v l1').

Definition variant_marshal (v : MultivariantVariant) : string :=
  "#EXT-X-STREAM-INF:BANDWIDTH=" ++ fmt_int (v_bandwidth v)
  ++ match v_avgbandwidth v with Some x => ",AVERAGE-BANDWIDTH=" ++ fmt_int x | None => "" end
  ++ ",CODECS=""" ++ join "," (v_codecs v) ++ """"
  ++ (if negb (String.eqb (v_resolution v) "") then ",RESOLUTION=" ++ v_resolution v else "")
  ++ match v_framerate v with Some f => ",FRAME-RATE=" ++ fmt_rate orc f | None => "" end
  ++ (if negb (String.eqb (v_video v) "") then ",VIDEO=""" ++ v_video v ++ """" else "")
  ++ (if negb (String.eqb (v_audio v) "") then ",AUDIO=""" ++ v_audio v ++ """" else "")
  ++ (if negb (String.eqb (v_subtitles v) "") then ",SUBTITLES=""" ++ v_subtitles v ++ """" else "")
  ++ (if negb (String.eqb (v_closedcaptions v) "")
      then ",CLOSED-CAPTIONS=""" ++ v_closedcaptions v ++ """" else "")
  ++ lf ++ v_uri v ++ lf.

(* ---------- Multivariant.Unmarshal ---------- *)
(* one iteration of the switch; the EXT-X-STREAM-INF case reads a second line from s *)
Definition multi_line (m : Multivariant) (line s : string) : res (Multivariant * string) :=
  if has_prefix "#EXT-X-VERSION:" line then
    do line <- cut_prefix "#EXT-X-VERSION:" line ;;
    do tmp <- of_option (parse_uint 31 line) ;;
    if tmp >? maxSupportedVersion then Err else Ok (mv_set_version m tmp, s)
  else if has_prefix "#EXT-X-INDEPENDENT-SEGMENTS" line then
    Ok (mv_set_independent m true, s)
  else if has_prefix "#EXT-X-START:" line then
    do line <- cut_prefix "#EXT-X-START:" line ;;
    do t <- start_unmarshal line ;;
    Ok (mv_set_start m (Some t), s)
  else if has_prefix "#EXT-X-STREAM-INF:" line then
    do line <- cut_prefix "#EXT-X-STREAM-INF:" line ;;
    do ls <- read_line s ;;
    let '(line2, s') := ls in
    do v <- variant_unmarshal (line ++ lf ++ line2) ;;
    Ok (mv_set_variants m (mv_variants m ++ [v]), s')
  else if has_prefix "#EXT-X-MEDIA:" line then
    do line <- cut_prefix "#EXT-X-MEDIA:" line ;;
    do r <- rendition_unmarshal line ;;
    Ok (mv_set_renditions m (mv_renditions m ++ [r]), s)
  else Ok (m, s).

Fixpoint multi_loop (fuel : nat) (m : Multivariant) (s : string) : res Multivariant :=
  match fuel with
  | O => OutOfFuel
  | S f =>
      do ls <- read_line s ;;
      let '(line, s') := ls in
      if String.eqb line "" && String.eqb s' "" then Ok m
      else do ms <- multi_line m line s' ;; multi_loop f (fst ms) (snd ms)
  end.

Definition multivariant_unmarshal (buf : string) : res Multivariant :=
  do s <- skip_header buf ;;
  do m <- multi_loop (S (slen buf)) multivariant0 s ;;
  if Nat.eqb (List.length (mv_variants m)) 0 then Err else Ok m.

Definition multivariant_marshal (m : Multivariant) : string :=
  "#EXTM3U" ++ lf
  ++ "#EXT-X-VERSION:" ++ fmt_int (mv_version m) ++ lf
  ++ (if mv_independent m then "#EXT-X-INDEPENDENT-SEGMENTS" ++ lf else "")
  ++ match mv_start m with Some t => start_marshal t | None => "" end
  ++ (if negb (Nat.eqb (List.length (mv_renditions m)) 0)
      then lf ++ String.concat "" (map rendition_marshal (mv_renditions m)) else "")
  ++ lf
  ++ String.concat "" (map variant_marshal (mv_variants m)).

(* ---------- findType / Unmarshal ---------- *)
(* bufio.Reader.ReadString('\n'): a last line without '\n' is returned together with io.EOF,
   which findType turns into an error *)
Fixpoint find_type (fuel : nat) (s : string) : res pkind :=
  match fuel with
  | O => OutOfFuel
  | S f =>
      match index_byte LF s with
      | None => Err
      | Some i =>
          do line <- slice_to (S i) s ;;
          do rest <- slice_from (S i) s ;;
          if has_prefix "#EXT-X-STREAM-INF:" line then Ok KMultivariant
          else if has_prefix "#EXTINF:" line then Ok KMedia
          else find_type f rest
      end
  end.

Definition unmarshal (byts : string) : res playlist :=
  do k <- find_type (S (slen byts)) byts ;;
  match k with
  | KMedia => do m <- media_unmarshal byts ;; Ok (PMedia m)
  | KMultivariant => do m <- multivariant_unmarshal byts ;; Ok (PMultivariant m)
  end.

(* Marshal never fails and has no panic site on these values *)
Definition marshal (p : playlist) : res string :=
  match p with
  | PMedia m => Ok (media_marshal m)
  | PMultivariant m => Ok (multivariant_marshal m)
  end.

End WithOracles.
