(* M4 (sequential core) - what the request handlers of the muxer READ and what the writer
   CHANGES at rotations, over an abstract stream state.  Definitions only.

   Transcribed Go (names kept):
     strconv.ParseUint(s,10,64)                      -> parseUint
     parseMSNPart                      (muxer.go)    -> parseMSNPart
     queryVal                          (muxer.go)    -> queryVal
     filterOutHLSParams          (muxer_stream.go)   -> filterOutHLSParams
     muxerStream.hasContent / hasPart                -> hasContent / hasPart
     the range check of handleMediaPlaylist          -> range_reject   (uint64 wrap written out)
     handleMediaPlaylist, part before the mutex      -> handleMediaPlaylist_pre
     generateMediaPlaylistFMP4 / MPEGTS              -> generateMediaPlaylistFMP4 / MPEGTS
     muxerStream.rotateParts / rotateSegments / createFirstSegment / close,
     Muxer.rotatePartsInner / rotateSegmentsInner    -> stream_* / mux_*
   Abstractions: a part is its id; a segment is (id, part ids, duration) or a gap (duration);
   the path table maps abstract paths to the kind of closure registered; storage is the set of
   segment files that exist.  Codec data, bytes, NTP, part durations are not represented. *)
From Coq Require Import List ZArith Lia Bool String Ascii.
From GoHls Require Import Lib.MuxSched.
Import ListNotations.
Local Open Scope Z_scope.

Inductive variant := MPEGTS | FMP4 | LL.
Definition variant_eqb (a b : variant) : bool :=
  match a, b with MPEGTS, MPEGTS | FMP4, FMP4 | LL, LL => true | _, _ => false end.

Definition two64 : Z := 2 ^ 64.
Definition u64 (z : Z) : Z := z mod two64.
Definition zlen {A} (l : list A) : Z := Z.of_nat (List.length l).

(* ---------- strconv.ParseUint(s, 10, 64) ---------- *)
Definition digit (c : ascii) : option Z :=
  let n := Z.of_nat (nat_of_ascii c) in
  if (48 <=? n) && (n <=? 57) then Some (n - 48) else None.

Fixpoint parseUint_loop (s : string) (acc : Z) : option Z :=
  match s with
  | EmptyString => Some acc
  | String c r =>
      match digit c with
      | None => None                                   (* ErrSyntax *)
      | Some d => let acc' := acc * 10 + d in
                  if two64 <=? acc' then None          (* ErrRange *)
                  else parseUint_loop r acc'
      end
  end.

Definition parseUint (s : string) : option Z :=
  match s with EmptyString => None | _ => parseUint_loop s 0 end.

Definition is_empty (s : string) : bool := match s with EmptyString => true | _ => false end.

(* parseMSNPart: None = error *)
Definition parseMSNPart (msn part : string) : option (Z * Z) :=
  match (if is_empty msn then Some 0 else parseUint msn) with
  | None => None
  | Some msnint =>
      match (if is_empty part then Some 0 else parseUint part) with
      | None => None
      | Some partint => Some (msnint, partint)
      end
  end.

(* ---------- queries ---------- *)
(* A raw query is a list of '&'-separated tokens: a decoded key/value pair, or a token that
   url.ParseQuery rejects (a ';', a bad %-escape).  ParseQuery keeps going after an error:
   r.URL.Query() (which ignores the error) still sees every good pair. *)
Inductive qitem := QPair (k v : string) | QBad.
Definition query := list qitem.

Definition is_bad (i : qitem) : bool := match i with QBad => true | _ => false end.
Definition parse_error (q : query) : bool := existsb is_bad q.

Fixpoint queryVal (q : query) (key : string) : string :=
  match q with
  | [] => EmptyString
  | QPair k v :: r => if String.eqb k key then v else queryVal r key
  | QBad :: r => queryVal r key
  end.

Definition hls_key (i : qitem) : bool :=
  match i with QPair k _ => prefix "_HLS_" k | QBad => false end.

(* q, _ := url.ParseQuery(rawQuery): what can be parsed is kept, the rest dropped, as
   r.URL.Query() does; the result is a multiset of pairs (url.Values.Encode sorts by key) *)
Definition filterOutHLSParams (rawQuery : query) : query :=
  filter (fun i => negb (hls_key i) && negb (is_bad i)) rawQuery.

(* ---------- abstract muxer state ---------- *)
Inductive seg :=
| Gap (dur : Z)                               (* *muxerGap *)
| Seg (id : Z) (parts : list Z) (dur : Z).    (* *muxerSegmentFMP4 / *muxerSegmentMPEGTS *)

Definition seg_dur (s : seg) : Z := match s with Gap d => d | Seg _ _ d => d end.

Inductive path := PPart (stream : nat) (id : Z) | PSeg (stream : nat) (id : Z).
Inductive handler :=
| HMulti                              (* Muxer.handleMultivariantPlaylist, "index.m3u8" *)
| HMedia (stream : nat)               (* muxerStream.handleMediaPlaylist *)
| HPart (stream : nat) (id : Z)       (* closure serving a finalized part *)
| HHint (stream : nat) (id : Z)       (* EXT-X-PRELOAD-HINT closure, capturePartID = id *)
| HSeg (stream : nat) (id : Z).       (* closure serving a finalized segment *)

Definition path_eqb (a b : path) : bool :=
  match a, b with
  | PPart i x, PPart j y | PSeg i x, PSeg j y => Nat.eqb i j && (x =? y)
  | _, _ => false
  end.

Definition ptable := list (path * handler).

Fixpoint lookupPath (t : ptable) (p : path) : option handler :=
  match t with
  | [] => None
  | (q, h) :: r => if path_eqb q p then Some h else lookupPath r p
  end.

Definition unregisterPath (t : ptable) (p : path) : ptable :=
  filter (fun e => negb (path_eqb (fst e) p)) t.

(* map assignment: the previous entry for the same key is replaced *)
Definition registerPath (t : ptable) (p : path) (h : handler) : ptable :=
  (p, h) :: unregisterPath t p.

Record stream := {
  nextSegmentID : Z;
  nextPartID : Z;
  segments : list seg;
  nextSegment : option (list Z);    (* None = nil; Some ps = ids of nextSegment.parts *)
  segmentDeleteCount : Z;
  targetDuration : Z;               (* seconds *)
  s_closed : bool
}.

Record mux := {
  m_variant : variant;
  m_segmentCount : Z;
  m_streams : list stream;          (* the leading stream first is NOT assumed; see m_leading *)
  m_leading : nat;
  m_closed : bool;
  m_paths : ptable;
  m_files : list (nat * Z)          (* segment files that exist in storage: (stream, segment id) *)
}.

Definition stream_init (v : variant) : stream :=
  {| nextSegmentID := match v with LL => 7 | _ => 0 end;
     nextPartID := 0; segments := []; nextSegment := None; segmentDeleteCount := 0;
     targetDuration := 0; s_closed := false |}.

Definition mux_init (v : variant) (segmentCount : Z) (nstreams : nat) (leading : nat) : mux :=
  {| m_variant := v; m_segmentCount := segmentCount;
     m_streams := repeat (stream_init v) nstreams; m_leading := leading;
     m_closed := false; m_paths := []; m_files := [] |}.

(* ---------- what the handlers read ---------- *)
Definition hasContent (v : variant) (s : stream) : bool :=
  match v with
  | FMP4 => 2 <=? zlen (segments s)
  | _ => 1 <=? zlen (segments s)
  end.

(* hasPart: the window is indexed by position (listed segments and gaps are numbered
   consecutively, the open segment follows them). None = Go panics: index out of range, or
   type assertion on a nil nextSegment *)
Definition hasPart (s : stream) (segmentID partID : Z) : option bool :=
  let open (p : Z) := match nextSegment s with
                      | None => None
                      | Some ps => Some (p <? zlen ps)
                      end in
  if negb (segmentID =? nextSegmentID s) then
    let first := u64 (nextSegmentID s - u64 (zlen (segments s))) in
    if (segmentID <? first) || (nextSegmentID s <? segmentID) then Some false
    else match nth_error (segments s) (Z.to_nat (segmentID - first)) with
         | None => None
         | Some (Gap _) => Some true
         | Some (Seg _ parts _) =>
             if partID <? zlen parts then Some true
             else if negb (u64 (segmentID + 1) =? nextSegmentID s) then Some true
                  else open 0
         end
  else open partID.

(* msnint > s.nextSegmentID+1 || msnint < s.nextSegmentID-uint64(len(s.segments)-1) *)
Definition range_reject (s : stream) (msnint : Z) : bool :=
  (u64 (nextSegmentID s + 1) <? msnint)
  || (msnint <? u64 (nextSegmentID s - u64 (zlen (segments s) - 1))).

Inductive decision := Respond400 | Ready | Block | DPanic.

(* one iteration of the wait loop of the blocking branch, after the s.closed test; P = None when
   _HLS_part is absent or empty: the request is then for the complete segment
     s.hasContent() && ((part != "" && s.hasPart(msnint, partint)) || (part == "" && msnint < s.nextSegmentID)) *)
Definition decide_core (v : variant) (s : stream) (msnint : Z) (P : option Z) : decision :=
  if range_reject s msnint then Respond400
  else if hasContent v s then
         match P with
         | Some partint =>
             match hasPart s msnint partint with
             | None => DPanic
             | Some true => Ready
             | Some false => Block
             end
         | None => if msnint <? nextSegmentID s then Ready else Block
         end
       else Block.

(* the request as the property states it: _HLS_msn=M, optional _HLS_part=P *)
Definition decide (v : variant) (s : stream) (M : Z) (P : option Z) : decision := decide_core v s M P.

(* handleMediaPlaylist up to the point where it takes the mutex *)
Inductive mkind :=
| MK400                                    (* 400 without touching the mutex *)
| MKBlocking (msnint : Z) (P : option Z) (delta : bool)
| MKPlain (delta : bool).

Definition handleMediaPlaylist_pre (v : variant) (q : query) : mkind :=
  let msn := queryVal q "_HLS_msn" in
  let part := queryVal q "_HLS_part" in
  let skip := queryVal q "_HLS_skip" in
  match v with
  | LL =>
      let delta := String.eqb skip "YES" || String.eqb skip "v2" in
      match parseMSNPart msn part with
      | None => MK400
      | Some (msnint, partint) =>
          if negb (is_empty msn)
          then MKBlocking msnint (if is_empty part then None else Some partint) delta
          else if negb (is_empty part) then MK400
          else MKPlain delta
      end
  | _ => MKPlain false
  end.

(* ---------- playlists (abstract M2 records) ---------- *)
Inductive plentry :=
| PEGap (dur : Z)
| PESeg (id : Z) (dur : Z) (parts : list Z) (dated : bool).

Record playlist := {
  pl_mediaSequence : Z;
  pl_targetDuration : Z;
  pl_map : bool;                    (* EXT-X-MAP present *)
  pl_skip : option Z;               (* EXT-X-SKIP:SKIPPED-SEGMENTS *)
  pl_segments : list plentry;
  pl_parts : list Z;                (* trailing parts (of the open segment) *)
  pl_hint : option Z;               (* EXT-X-PRELOAD-HINT part id *)
  pl_query : query                  (* the query appended to every URI *)
}.

Definition second : Z := 1000000000.

(* for _, segment := range s.segments { cur += d; if cur >= boundary { break }; shown++ } *)
Fixpoint shown_loop (segs : list seg) (cur boundary shown : Z) : Z :=
  match segs with
  | [] => shown
  | s :: r => let cur' := cur + seg_dur s in
              if boundary <=? cur' then shown else shown_loop r cur' boundary (shown + 1)
  end.

Definition skipped_count (s : stream) : Z :=
  zlen (segments s) - shown_loop (segments s) 0 (targetDuration s * 6 * second) 0.

Fixpoint entries_from (v : variant) (segs : list seg) (i len skipped : Z) : list plentry :=
  match segs with
  | [] => []
  | sg :: r =>
      let rest := entries_from v r (i + 1) len skipped in
      if i <? skipped then rest
      else match sg with
           | Gap d => PEGap d :: rest
           | Seg id parts d =>
               PESeg id d
                 (if variant_eqb v LL && (len - i <=? 2) then parts else [])
                 (len - i <=? 2) :: rest
           end
  end.

(* None = panic (nil nextSegment in the Low-Latency tail) *)
Definition generateMediaPlaylistFMP4 (v : variant) (s : stream) (isDeltaUpdate : bool)
           (rawQuery : query) : option playlist :=
  let q := filterOutHLSParams rawQuery in
  let skipped := if isDeltaUpdate then skipped_count s else 0 in
  let ents := entries_from v (segments s) 0 (zlen (segments s)) skipped in
  let mk parts hint :=
    {| pl_mediaSequence := segmentDeleteCount s; pl_targetDuration := targetDuration s;
       pl_map := negb isDeltaUpdate;
       pl_skip := if isDeltaUpdate then Some skipped else None;
       pl_segments := ents; pl_parts := parts; pl_hint := hint; pl_query := q |} in
  match v with
  | LL => match nextSegment s with
          | None => None
          | Some ps => Some (mk ps (Some (nextPartID s)))
          end
  | _ => Some (mk [] None)
  end.

Definition generateMediaPlaylistMPEGTS (s : stream) (rawQuery : query) : option playlist :=
  Some {| pl_mediaSequence := segmentDeleteCount s; pl_targetDuration := targetDuration s;
          pl_map := false; pl_skip := None;
          pl_segments := map (fun sg => match sg with
                                        | Gap d => PEGap d
                                        | Seg id _ d => PESeg id d [] true end) (segments s);
          pl_parts := []; pl_hint := None; pl_query := rawQuery |}.

Definition generateMediaPlaylist (v : variant) (s : stream) (isDeltaUpdate : bool)
           (rawQuery : query) : option playlist :=
  match v with
  | MPEGTS => generateMediaPlaylistMPEGTS s rawQuery
  | _ => generateMediaPlaylistFMP4 v s isDeltaUpdate rawQuery
  end.

(* the C06 delta-update shape: drop the first n segments and the map, add one skip tag *)
Definition replace_head (n : Z) (pl : playlist) : playlist :=
  {| pl_mediaSequence := pl_mediaSequence pl; pl_targetDuration := pl_targetDuration pl;
     pl_map := false; pl_skip := Some n;
     pl_segments := skipn (Z.to_nat n) (pl_segments pl);
     pl_parts := pl_parts pl; pl_hint := pl_hint pl; pl_query := pl_query pl |}.

(* ---------- what the property says a response must contain (read off the playlist only) ---------- *)
Definition pl_listed (pl : playlist) (M : Z) : bool :=
  (pl_mediaSequence pl <=? M) && (M <? pl_mediaSequence pl + zlen (pl_segments pl)).

Definition pl_open_msn (pl : playlist) : Z := pl_mediaSequence pl + zlen (pl_segments pl).

Definition pl_listed_parts (pl : playlist) (M : Z) : Z :=
  match nth_error (pl_segments pl) (Z.to_nat (M - pl_mediaSequence pl)) with
  | Some (PESeg _ _ parts _) => zlen parts
  | _ => 0
  end.

(* part 0 of segment K is published: K is a complete listed segment, or K is the open
   segment and has at least one part *)
Definition pl_part0 (pl : playlist) (K : Z) : bool :=
  pl_listed pl K || ((K =? pl_open_msn pl) && (1 <=? zlen (pl_parts pl))).

(* "contains the complete segment M or, when _HLS_part=P is given, part P of segment M
   (a part index past the end of a complete segment M counts as part 0 of segment M+1)" *)
Definition pl_contains (pl : playlist) (M : Z) (P : option Z) : bool :=
  match P with
  | None => pl_listed pl M
  | Some p =>
      (pl_listed pl M && ((p <? pl_listed_parts pl M) || pl_part0 pl (M + 1)))
      || ((M =? pl_open_msn pl) && (p <? zlen (pl_parts pl)))
  end.

(* ---------- what the writer changes ---------- *)
(* muxerStream.createFirstSegment *)
Definition stream_createFirstSegment (s : stream) : stream :=
  {| nextSegmentID := nextSegmentID s; nextPartID := nextPartID s; segments := segments s;
     nextSegment := Some []; segmentDeleteCount := segmentDeleteCount s;
     targetDuration := targetDuration s; s_closed := s_closed s |}.

(* muxerStream.rotateParts; None = nil dereference (s.nextPart is nil) *)
Definition stream_rotateParts (v : variant) (i : nat) (s : stream) (t : ptable)
  : option (stream * ptable) :=
  match nextSegment s with
  | None => None
  | Some ps =>
      let pid := nextPartID s in
      match v with
      | LL =>
          Some ({| nextSegmentID := nextSegmentID s; nextPartID := pid + 1;
                   segments := segments s; nextSegment := Some (ps ++ [pid]);
                   segmentDeleteCount := segmentDeleteCount s;
                   targetDuration := targetDuration s; s_closed := s_closed s |},
                registerPath (registerPath t (PPart i pid) (HPart i pid))
                             (PPart i (pid + 1)) (HHint i (pid + 1)))
      | _ =>
          Some ({| nextSegmentID := nextSegmentID s; nextPartID := pid + 1;
                   segments := segments s; nextSegment := Some ps;
                   segmentDeleteCount := segmentDeleteCount s;
                   targetDuration := targetDuration s; s_closed := s_closed s |}, t)
      end
  end.

Fixpoint unregisterParts (t : ptable) (i : nat) (parts : list Z) : ptable :=
  match parts with
  | [] => t
  | p :: r => unregisterParts (unregisterPath t (PPart i p)) i r
  end.

Definition remove_file (fs : list (nat * Z)) (i : nat) (id : Z) : list (nat * Z) :=
  filter (fun e => negb (Nat.eqb (fst e) i && (snd e =? id))) fs.

(* math.Round(d.Round(10us).Seconds()) for d >= 0 (time.Duration.Round rounds half away from
   zero, as does math.Round) *)
Definition round_seconds (d : Z) : Z :=
  let d10 := ((d + 5000) / 10000) * 10000 in
  (d10 + second / 2) / second.

Fixpoint targetDuration_max (segs : list seg) : Z :=
  match segs with
  | [] => 0
  | s :: r => Z.max (round_seconds (seg_dur s)) (targetDuration_max r)
  end.

(* targetDuration(): never below 1 ("if ret < 1 { ret = 1 }") *)
Definition targetDuration_of (segs : list seg) : Z :=
  let ret := targetDuration_max segs in if ret <? 1 then 1 else ret.

(* muxerStream.rotateSegments; [dur] = nextDTS - startDTS of the segment being closed *)
Definition stream_rotateSegments (v : variant) (segmentCount : Z) (leading : bool) (i : nat)
           (dur : Z) (s : stream) (t : ptable) (fs : list (nat * Z))
  : option (stream * ptable * list (nat * Z)) :=
  match (match v with
         | MPEGTS => match nextSegment s with None => None | Some _ => Some (s, t) end
         | _ => stream_rotateParts v i s t
         end) with
  | None => None
  | Some (s1, t1) =>
      let sid := nextSegmentID s1 in
      let segment := Seg sid (match nextSegment s1 with Some ps => ps | None => [] end) dur in
      let segs1 := match v with
                   | LL => if Nat.eqb (List.length (segments s1)) 0 then repeat (Gap dur) 7 else segments s1
                   | _ => segments s1
                   end ++ [segment] in
      let t2 := registerPath t1 (PSeg i sid) (HSeg i sid) in
      let '(segs2, t3, fs3, dc) :=
        if segmentCount <? zlen segs1 then
          match segs1 with
          | Seg hid hparts _ :: tl =>
              (tl, unregisterPath (unregisterParts t2 i hparts) (PSeg i hid),
               remove_file fs i hid, segmentDeleteCount s1 + 1)
          | Gap _ :: tl => (tl, t2, fs, segmentDeleteCount s1 + 1)
          | [] => (segs1, t2, fs, segmentDeleteCount s1)
          end
        else (segs1, t2, fs, segmentDeleteCount s1) in
      let td := if leading then
                  let n := targetDuration_of segs2 in
                  if targetDuration s1 =? 0 then n
                  else if targetDuration s1 <? n then n else targetDuration s1
                else targetDuration s1 in
      Some ({| nextSegmentID := sid + 1; nextPartID := nextPartID s1; segments := segs2;
               nextSegment := Some []; segmentDeleteCount := dc; targetDuration := td;
               s_closed := s_closed s1 |}, t3, (i, sid + 1) :: fs3)
  end.

(* muxerStream.close: every window segment's file and the open segment's file are removed
   (the closed flag is set by Muxer.Close, under the mutex) *)
Fixpoint remove_segment_files (fs : list (nat * Z)) (i : nat) (segs : list seg) : list (nat * Z) :=
  match segs with
  | [] => fs
  | Gap _ :: r => remove_segment_files fs i r
  | Seg id _ _ :: r => remove_segment_files (remove_file fs i id) i r
  end.

Definition stream_close (i : nat) (s : stream) (fs : list (nat * Z)) : stream * list (nat * Z) :=
  (s,
   let fs1 := remove_segment_files fs i (segments s) in
   match nextSegment s with
   | None => fs1
   | Some _ => remove_file fs1 i (nextSegmentID s)
   end).

(* writer operations on the whole muxer *)
Inductive wop :=
| WCreateFirst              (* Muxer.createFirstSegment (no mutex) *)
| WRotateParts              (* Muxer.rotateParts *)
| WRotateSegments (dur : Z) (* Muxer.rotateSegments *)
| WClose.                   (* Muxer.Close *)

Definition set_streams (m : mux) (ss : list stream) (t : ptable) (fs : list (nat * Z)) : mux :=
  {| m_variant := m_variant m; m_segmentCount := m_segmentCount m; m_streams := ss;
     m_leading := m_leading m; m_closed := m_closed m; m_paths := t; m_files := fs |}.

Definition stream_set_closed (s : stream) : stream :=
  {| nextSegmentID := nextSegmentID s; nextPartID := nextPartID s; segments := segments s;
     nextSegment := nextSegment s; segmentDeleteCount := segmentDeleteCount s;
     targetDuration := targetDuration s; s_closed := true |}.

(* m.closed = true; for _, stream := range m.streams { stream.closed = true } *)
Definition set_closed (m : mux) : mux :=
  {| m_variant := m_variant m; m_segmentCount := m_segmentCount m;
     m_streams := map stream_set_closed (m_streams m);
     m_leading := m_leading m; m_closed := true; m_paths := m_paths m; m_files := m_files m |}.

Definition mux_createFirstSegment (m : mux) : mux :=
  set_streams m (map stream_createFirstSegment (m_streams m)) (m_paths m)
    (map (fun p => (fst p, nextSegmentID (snd p)))
         (combine (seq 0 (List.length (m_streams m))) (m_streams m)) ++ m_files m).

(* every stream rotates inside one critical section; None = the writer goroutine panics.
   (The order "leading first, then the others" only matters for partTargetDuration /
   targetDuration copies; the non-leading streams copy the leading stream's value.) *)
Fixpoint rotateParts_all (v : variant) (i : nat) (ss : list stream) (t : ptable)
  : option (list stream * ptable) :=
  match ss with
  | [] => Some ([], t)
  | s :: r =>
      match stream_rotateParts v i s t with
      | None => None
      | Some (s', t') =>
          match rotateParts_all v (S i) r t' with
          | None => None
          | Some (r', t'') => Some (s' :: r', t'')
          end
      end
  end.

Definition mux_rotateParts (m : mux) : option mux :=
  match rotateParts_all (m_variant m) 0 (m_streams m) (m_paths m) with
  | None => None
  | Some (ss, t) => Some (set_streams m ss t (m_files m))
  end.

Fixpoint rotateSegments_all (v : variant) (sc : Z) (lead : nat) (dur : Z) (i : nat)
         (ss : list stream) (t : ptable) (fs : list (nat * Z))
  : option (list stream * ptable * list (nat * Z)) :=
  match ss with
  | [] => Some ([], t, fs)
  | s :: r =>
      match stream_rotateSegments v sc (Nat.eqb i lead) i dur s t fs with
      | None => None
      | Some (s', t', fs') =>
          match rotateSegments_all v sc lead dur (S i) r t' fs' with
          | None => None
          | Some (r', t'', fs'') => Some (s' :: r', t'', fs'')
          end
      end
  end.

Definition copy_targetDuration (lead : nat) (ss : list stream) : list stream :=
  match nth_error ss lead with
  | None => ss
  | Some l => map (fun s =>
      {| nextSegmentID := nextSegmentID s; nextPartID := nextPartID s; segments := segments s;
         nextSegment := nextSegment s; segmentDeleteCount := segmentDeleteCount s;
         targetDuration := targetDuration l; s_closed := s_closed s |}) ss
  end.

Definition mux_rotateSegments (m : mux) (dur : Z) : option mux :=
  match rotateSegments_all (m_variant m) (m_segmentCount m) (m_leading m) dur 0
          (m_streams m) (m_paths m) (m_files m) with
  | None => None
  | Some (ss, t, fs) => Some (set_streams m (copy_targetDuration (m_leading m) ss) t fs)
  end.

(* closing stream k (one iteration of the loop at the end of Muxer.Close) *)
Definition mux_closeStream (m : mux) (k : nat) : mux :=
  match nth_error (m_streams m) k with
  | None => m
  | Some s => let '(s', fs) := stream_close k s (m_files m) in
              set_streams m (upd_nth (m_streams m) k s') (m_paths m) fs
  end.

(* the sequential effect of a writer operation (requests evaluated between operations) *)
Definition close_all (m : mux) : mux :=
  fold_left mux_closeStream (seq 0 (List.length (m_streams m))) m.

Definition apply_wop (m : mux) (o : wop) : option mux :=
  match o with
  | WCreateFirst => Some (mux_createFirstSegment m)
  | WRotateParts => mux_rotateParts m
  | WRotateSegments d => mux_rotateSegments m d
  | WClose => Some (close_all (set_closed m))
  end.

Fixpoint run_wops (m : mux) (ops : list wop) : option mux :=
  match ops with
  | [] => Some m
  | o :: r => match apply_wop m o with None => None | Some m' => run_wops m' r end
  end.
