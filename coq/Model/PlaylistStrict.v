(* M2 - an independent strict recogniser of the RFC 8216 / draft-pantos-hls-rfc8216bis line
   grammar (definitions only). It is written from the RFC text, shares nothing with the
   marshal / unmarshal functions of Model/Playlist.v, and enforces the same rule set as the Go
   checker harness/internal/playlist/grammar (the tie compares the two on every run):

     * lines are separated by LF or CRLF, the final terminator is optional; blank lines and
       comment lines (# not followed by EXT) are ignored, whitespace-only lines are not allowed;
     * the first line is exactly #EXTM3U, and EXTM3U appears nowhere else;
     * every #EXT line carries a known tag; tags without a value have none, tags with a value
       have ':' and a value of the right lexical type (decimal-integer, EVENT|VOD, YES|NO,
       n[@o], ISO 8601 date-time, duration "," title, attribute-list);
     * attribute lists are NAME=value items separated by single commas, NAME in [A-Z0-9-]+,
       a quoted-string without '"', CR, LF, an unquoted value without ',', '"', whitespace, no
       NAME twice; known attributes have their lexical type (decimal-integer,
       decimal-floating-point, signed-decimal-floating-point, quoted-string, enumerated-string,
       decimal-resolution, hexadecimal-sequence, quoted byte range), unknown ones are ignored;
       required / forbidden attribute combinations of EXT-X-KEY, EXT-X-MEDIA, EXT-X-SESSION-DATA;
     * playlist-level tags at most once; segment-level tags at most once per segment and only
       before a URI line (the Low-Latency exception: DISCONTINUITY, GAP, PROGRAM-DATE-TIME and
       BITRATE may precede trailing EXT-X-PART lines);
     * media and multivariant tags are not mixed; a media playlist has EXT-X-TARGETDURATION;
     * every URI line is free of whitespace and control characters and is preceded by its
       EXTINF (media) resp. immediately preceded by EXT-X-STREAM-INF (multivariant), and every
       EXT-X-STREAM-INF is immediately followed by a URI line. *)
From Coq Require Import List ZArith Bool String Ascii.
From GoHls Require Import Model.PlaylistBase.
Import ListNotations.
Local Open Scope string_scope.
Local Open Scope Z_scope.

(* ---------- characters ---------- *)
Fixpoint mem_char (c : ascii) (set : string) : bool :=
  match set with
  | "" => false
  | String a r => Ascii.eqb a c || mem_char c r
  end.

Fixpoint chars_in (set s : string) : bool :=
  match s with
  | "" => true
  | String c r => mem_char c set && chars_in set r
  end.

(* Go allIn: non-empty and every byte in the set *)
Definition all_in (set s : string) : bool :=
  match s with "" => false | _ => chars_in set s end.

Definition HT : ascii := ascii_of_nat 9.
Definition VT : ascii := ascii_of_nat 11.
Definition FF : ascii := ascii_of_nat 12.
(* " \t\r\n\v\f" *)
Definition ascii_ws : string :=
  String " " (String HT (String CR (String LF (String VT (String FF ""))))).
Definition is_ws (c : ascii) : bool := mem_char c ascii_ws.

Definition digits : string := "0123456789".
Definition name_chars : string := "ABCDEFGHIJKLMNOPQRSTUVWXYZ0123456789-".
Definition hex_digits : string := "0123456789abcdefABCDEF".

Fixpoint has_char (p : ascii -> bool) (s : string) : bool :=
  match s with
  | "" => false
  | String c r => p c || has_char p r
  end.

Definition is_control (c : ascii) : bool :=
  let n := nat_of_ascii c in Nat.ltb n 32 || Nat.eqb n 127.

(* strings.Contains *)
Fixpoint contains (sub s : string) : bool :=
  has_prefix sub s || match s with "" => false | String _ r => contains sub r end.

(* ---------- lexical types ---------- *)
Definition is_digits (s : string) : bool := all_in digits s.

(* decimal-integer: [0-9]{1,20}, at most 2^64-1 *)
Definition is_dec_int (s : string) : bool :=
  Nat.leb (slen s) 20 && is_digits s
  && match parse_digits 0 s with Some v => v <? 2 ^ 64 | None => false end.

(* decimal-floating-point: [0-9]+(\.[0-9]+)? *)
Definition is_float (s : string) : bool :=
  match index_byte "." s with
  | None => is_digits s
  | Some i => is_digits (take i s) && is_digits (drop (S i) s)
  end.

(* signed-decimal-floating-point *)
Definition is_sfloat (s : string) : bool :=
  match s with
  | String "-" r => is_float r
  | _ => is_float s
  end.

(* decimal-resolution: [0-9]+x[0-9]+ *)
Definition is_resolution (s : string) : bool :=
  match index_byte "x" s with
  | None => false
  | Some i => is_digits (take i s) && is_digits (drop (S i) s)
  end.

(* hexadecimal-sequence: 0[xX][0-9A-Fa-f]+ *)
Definition is_hex (s : string) : bool :=
  match s with
  | String "0" (String c r) => (Ascii.eqb c "x" || Ascii.eqb c "X") && all_in hex_digits r
  | _ => false
  end.

(* n[@o] *)
Definition is_byterange (s : string) : bool :=
  match index_byte "@" s with
  | None => is_dec_int s
  | Some i => is_dec_int (take i s) && is_dec_int (drop (S i) s)
  end.

Definition num_of (s : string) : Z := match parse_digits 0 s with Some v => v | None => 0 end.

Definition days_in_month (year month : Z) : Z :=
  if (month =? 4) || (month =? 6) || (month =? 9) || (month =? 11) then 30
  else if month =? 2 then
    (if (year mod 4 =? 0) && (negb (year mod 100 =? 0) || (year mod 400 =? 0)) then 29 else 28)
  else 31.

Definition char_at (n : nat) (s : string) : ascii :=
  match String.get n s with Some c => c | None => "000"%char end.
Definition sub (a n : nat) (s : string) : string := take n (drop a s).

(* fractional part: (.|,) digit+ ; returns (rest, all digits zero), None when malformed *)
Fixpoint skip_frac_digits (s : string) (n : nat) (zero : bool) : nat * bool * string :=
  match s with
  | String c r =>
      match digit_of c with
      | Some _ => skip_frac_digits r (S n) (zero && Ascii.eqb c "0")
      | None => (n, zero, s)
      end
  | "" => (n, zero, s)
  end.

(* ISO 8601 extended date-time YYYY-MM-DDThh:mm:ss[(.|,)s+][Z|(+|-)hh[[:]mm]] *)
Definition is_datetime (s : string) : bool :=
  if Nat.ltb (slen s) 19 then false
  else if negb (is_digits (sub 0 4 s) && Ascii.eqb (char_at 4 s) "-" && is_digits (sub 5 2 s)
                && Ascii.eqb (char_at 7 s) "-" && is_digits (sub 8 2 s) && Ascii.eqb (char_at 10 s) "T"
                && is_digits (sub 11 2 s) && Ascii.eqb (char_at 13 s) ":" && is_digits (sub 14 2 s)
                && Ascii.eqb (char_at 16 s) ":" && is_digits (sub 17 2 s)) then false
  else
    let year := num_of (sub 0 4 s) in
    let month := num_of (sub 5 2 s) in
    let day := num_of (sub 8 2 s) in
    let hour := num_of (sub 11 2 s) in
    let minute := num_of (sub 14 2 s) in
    let sec := num_of (sub 17 2 s) in
    if (month <? 1) || (12 <? month) || (day <? 1) || (days_in_month year month <? day) then false
    else if (59 <? minute) || (60 <? sec) then false
    else
      let rest := drop 19 s in
      let frac :=
        match rest with
        | String c r =>
            if Ascii.eqb c "." || Ascii.eqb c "," then
              let '(n, zero, r') := skip_frac_digits r O true in
              if Nat.eqb n 0 then None else Some (zero, r')
            else Some (true, rest)
        | "" => Some (true, rest)
        end in
      match frac with
      | None => false
      | Some (frac_zero, rest) =>
          if (23 <? hour) && negb ((hour =? 24) && (minute =? 0) && (sec =? 0) && frac_zero) then false
          else
            match rest with
            | "" => true
            | String c tz =>
                if String.eqb rest "Z" then true
                else if negb (Ascii.eqb c "+" || Ascii.eqb c "-") then false
                else
                  let hm :=
                    if Nat.eqb (slen tz) 2 then Some (tz, "00")
                    else if Nat.eqb (slen tz) 4 then Some (take 2 tz, drop 2 tz)
                    else if Nat.eqb (slen tz) 5 then
                      (if Ascii.eqb (char_at 2 tz) ":" then Some (take 2 tz, drop 3 tz) else None)
                    else None in
                  match hm with
                  | None => false
                  | Some (hh, mm) =>
                      is_digits hh && is_digits mm && (num_of hh <=? 23) && (num_of mm <=? 59)
                  end
            end
      end.

(* EXTINF: <duration>,[<title>] *)
Definition is_extinf_value (s : string) : bool :=
  match index_byte "," s with
  | None => false
  | Some i => is_float (take i s)
  end.

(* ---------- attribute lists ---------- *)
Record sattr := { a_name : string; a_value : string; a_quoted : bool }.

(* longest prefix of characters satisfying p *)
Fixpoint span (p : ascii -> bool) (s : string) : string * string :=
  match s with
  | String c r => if p c then let '(a, b) := span p r in (String c a, b) else ("", s)
  | "" => ("", "")
  end.

Fixpoint parse_attr_items (fuel : nat) (s : string) (acc : list sattr) : option (list sattr) :=
  match fuel with
  | O => None
  | S f =>
      let '(name, r) := span (fun c => mem_char c name_chars) s in
      match r with
      | String "=" v =>
          if String.eqb name "" then None
          else
            match v with
            | "" => None                                         (* empty value *)
            | String c v' =>
                if Ascii.eqb c DQ then
                  match index_byte DQ v' with
                  | None => None                                 (* unterminated *)
                  | Some j =>
                      let val := take j v' in
                      let rest := drop (S j) v' in
                      if has_char (fun x => Ascii.eqb x CR || Ascii.eqb x LF) val then None
                      else
                        let acc' := (acc ++ [{| a_name := name; a_value := val; a_quoted := true |}])%list in
                        match rest with
                        | "" => Some acc'
                        | String "," rest' => if String.eqb rest' "" then None else parse_attr_items f rest' acc'
                        | _ => None
                        end
                  end
                else
                  let '(val, rest) := span (fun x => negb (Ascii.eqb x ",")) v in
                  if has_char (fun x => Ascii.eqb x DQ || is_ws x) val then None
                  else if String.eqb val "" then None
                  else
                    let acc' := (acc ++ [{| a_name := name; a_value := val; a_quoted := false |}])%list in
                    match rest with
                    | "" => Some acc'
                    | String _ rest' => if String.eqb rest' "" then None else parse_attr_items f rest' acc'
                    end
            end
      | _ => None                                                (* no '=', bad name character *)
      end
  end.

Definition parse_attr_list (s : string) : option (list sattr) :=
  match s with
  | "" => None
  | _ => parse_attr_items (S (slen s)) s []
  end.

Inductive atype :=
| AInt | AFloat | ASFloat | AQuoted | AEnum (vals : list string) | ARes | AHex | AQByteRange | AQuotedOrNone.

Fixpoint mem_str (x : string) (l : list string) : bool :=
  match l with [] => false | y :: tl => String.eqb y x || mem_str x tl end.

(* (acceptable, needs an EXT-X-DEFINE in the playlist) *)
Definition attr_type_ok (t : atype) (a : sattr) : bool * bool :=
  let unq p := (negb (a_quoted a) && p (a_value a), false) in
  match t with
  | AInt => unq is_dec_int
  | AFloat => unq is_float
  | ASFloat => unq is_sfloat
  | ARes => unq is_resolution
  | AHex =>
      if negb (a_quoted a) && is_hex (a_value a) then (true, false)
      else if negb (a_quoted a) && contains "{$" (a_value a) then (true, true)
      else (false, false)
  | AQuoted => (a_quoted a, false)
  | AEnum vals => (negb (a_quoted a) && match vals with [] => true | _ => mem_str (a_value a) vals end, false)
  | AQuotedOrNone => (a_quoted a || String.eqb (a_value a) "NONE", false)
  | AQByteRange => (a_quoted a && is_byterange (a_value a), false)
  end.

(* ---------- tags ---------- *)
Inductive tclass := CBasic | CSegment | CMediaPlaylist | CMultivariant | CEither.
Inductive vkind := VNone | VInt | VPlaylistType | VYesNo | VByteRange | VDateTime | VExtinf | VAttrList.

Record tagspec := {
  t_class : tclass; t_value : vkind; t_once : bool; t_perseg : bool;
  t_attrs : list (string * atype); t_required : list string }.

Definition yes_no : atype := AEnum ["YES"; "NO"].

Definition key_attrs (methods : list string) : list (string * atype) :=
  [("METHOD", AEnum methods); ("URI", AQuoted); ("IV", AHex); ("KEYFORMAT", AQuoted);
   ("KEYFORMATVERSIONS", AQuoted)].

Definition stream_inf_attrs (iframe : bool) : list (string * atype) :=
  ([("BANDWIDTH", AInt); ("AVERAGE-BANDWIDTH", AInt); ("SCORE", AFloat); ("CODECS", AQuoted);
   ("SUPPLEMENTAL-CODECS", AQuoted); ("RESOLUTION", ARes); ("FRAME-RATE", AFloat);
   ("HDCP-LEVEL", AEnum ["TYPE-0"; "TYPE-1"; "NONE"]); ("ALLOWED-CPC", AQuoted);
   ("VIDEO-RANGE", AEnum ["SDR"; "HLG"; "PQ"]); ("STABLE-VARIANT-ID", AQuoted);
   ("PATHWAY-ID", AQuoted); ("AUDIO", AQuoted); ("VIDEO", AQuoted); ("SUBTITLES", AQuoted);
   ("CLOSED-CAPTIONS", AQuotedOrNone)]
  ++ (if iframe then [("URI", AQuoted)] else []))%list.

Definition mk_tag c v once perseg attrs req : tagspec :=
  {| t_class := c; t_value := v; t_once := once; t_perseg := perseg; t_attrs := attrs; t_required := req |}.

Definition tag_table : list (string * tagspec) :=
  [ ("EXTM3U", mk_tag CBasic VNone false false [] []);
    ("EXT-X-VERSION", mk_tag CBasic VInt true false [] []);
    ("EXTINF", mk_tag CSegment VExtinf false true [] []);
    ("EXT-X-BYTERANGE", mk_tag CSegment VByteRange false true [] []);
    ("EXT-X-DISCONTINUITY", mk_tag CSegment VNone false true [] []);
    ("EXT-X-GAP", mk_tag CSegment VNone false true [] []);
    ("EXT-X-PROGRAM-DATE-TIME", mk_tag CSegment VDateTime false true [] []);
    ("EXT-X-BITRATE", mk_tag CSegment VInt false true [] []);
    ("EXT-X-KEY", mk_tag CSegment VAttrList false false
       (key_attrs ["NONE"; "AES-128"; "SAMPLE-AES"; "SAMPLE-AES-CTR"]) []);
    ("EXT-X-MAP", mk_tag CSegment VAttrList false false [("URI", AQuoted); ("BYTERANGE", AQByteRange)] ["URI"]);
    ("EXT-X-PART", mk_tag CSegment VAttrList false false
       [("URI", AQuoted); ("DURATION", AFloat); ("INDEPENDENT", yes_no); ("BYTERANGE", AQByteRange);
        ("GAP", yes_no)] ["URI"; "DURATION"]);
    ("EXT-X-DATERANGE", mk_tag CSegment VAttrList false false
       [("ID", AQuoted); ("CLASS", AQuoted); ("START-DATE", AQuoted); ("CUE", AQuoted);
        ("END-DATE", AQuoted); ("DURATION", AFloat); ("PLANNED-DURATION", AFloat);
        ("SCTE35-CMD", AHex); ("SCTE35-OUT", AHex); ("SCTE35-IN", AHex); ("END-ON-NEXT", AEnum ["YES"])]
       ["ID"]);
    ("EXT-X-TARGETDURATION", mk_tag CMediaPlaylist VInt true false [] []);
    ("EXT-X-MEDIA-SEQUENCE", mk_tag CMediaPlaylist VInt true false [] []);
    ("EXT-X-DISCONTINUITY-SEQUENCE", mk_tag CMediaPlaylist VInt true false [] []);
    ("EXT-X-ENDLIST", mk_tag CMediaPlaylist VNone true false [] []);
    ("EXT-X-PLAYLIST-TYPE", mk_tag CMediaPlaylist VPlaylistType true false [] []);
    ("EXT-X-I-FRAMES-ONLY", mk_tag CMediaPlaylist VNone true false [] []);
    ("EXT-X-ALLOW-CACHE", mk_tag CMediaPlaylist VYesNo true false [] []);
    ("EXT-X-PART-INF", mk_tag CMediaPlaylist VAttrList true false [("PART-TARGET", AFloat)] ["PART-TARGET"]);
    ("EXT-X-SERVER-CONTROL", mk_tag CMediaPlaylist VAttrList true false
       [("CAN-SKIP-UNTIL", AFloat); ("HOLD-BACK", AFloat); ("PART-HOLD-BACK", AFloat);
        ("CAN-SKIP-DATERANGES", yes_no); ("CAN-BLOCK-RELOAD", yes_no)] []);
    ("EXT-X-SKIP", mk_tag CMediaPlaylist VAttrList true false
       [("SKIPPED-SEGMENTS", AInt); ("RECENTLY-REMOVED-DATERANGES", AQuoted)] ["SKIPPED-SEGMENTS"]);
    ("EXT-X-PRELOAD-HINT", mk_tag CMediaPlaylist VAttrList false false
       [("TYPE", AEnum ["PART"; "MAP"]); ("URI", AQuoted); ("BYTERANGE-START", AInt);
        ("BYTERANGE-LENGTH", AInt)] ["TYPE"; "URI"]);
    ("EXT-X-RENDITION-REPORT", mk_tag CMediaPlaylist VAttrList false false
       [("URI", AQuoted); ("LAST-MSN", AInt); ("LAST-PART", AInt)] []);
    ("EXT-X-MEDIA", mk_tag CMultivariant VAttrList false false
       [("TYPE", AEnum ["AUDIO"; "VIDEO"; "SUBTITLES"; "CLOSED-CAPTIONS"]); ("URI", AQuoted);
        ("GROUP-ID", AQuoted); ("LANGUAGE", AQuoted); ("ASSOC-LANGUAGE", AQuoted); ("NAME", AQuoted);
        ("STABLE-RENDITION-ID", AQuoted); ("INSTREAM-ID", AQuoted); ("CHARACTERISTICS", AQuoted);
        ("CHANNELS", AQuoted); ("DEFAULT", yes_no); ("AUTOSELECT", yes_no); ("FORCED", yes_no)]
       ["TYPE"; "GROUP-ID"; "NAME"]);
    ("EXT-X-STREAM-INF", mk_tag CMultivariant VAttrList false false (stream_inf_attrs false) ["BANDWIDTH"]);
    ("EXT-X-I-FRAME-STREAM-INF", mk_tag CMultivariant VAttrList false false (stream_inf_attrs true)
       ["BANDWIDTH"; "URI"]);
    ("EXT-X-SESSION-DATA", mk_tag CMultivariant VAttrList false false
       [("DATA-ID", AQuoted); ("VALUE", AQuoted); ("URI", AQuoted); ("LANGUAGE", AQuoted)] ["DATA-ID"]);
    ("EXT-X-SESSION-KEY", mk_tag CMultivariant VAttrList false false
       (key_attrs ["AES-128"; "SAMPLE-AES"; "SAMPLE-AES-CTR"]) ["METHOD"; "URI"]);
    ("EXT-X-CONTENT-STEERING", mk_tag CMultivariant VAttrList false false
       [("SERVER-URI", AQuoted); ("PATHWAY-ID", AQuoted)] ["SERVER-URI"]);
    ("EXT-X-INDEPENDENT-SEGMENTS", mk_tag CEither VNone true false [] []);
    ("EXT-X-START", mk_tag CEither VAttrList true false
       [("TIME-OFFSET", ASFloat); ("PRECISE", yes_no)] ["TIME-OFFSET"]);
    ("EXT-X-DEFINE", mk_tag CEither VAttrList false false
       [("NAME", AQuoted); ("VALUE", AQuoted); ("IMPORT", AQuoted); ("QUERYPARAM", AQuoted)] []) ].

Fixpoint assoc {A} (k : string) (l : list (string * A)) : option A :=
  match l with
  | [] => None
  | (k', v) :: tl => if String.eqb k' k then Some v else assoc k tl
  end.

Definition tag_spec (name : string) : option tagspec := assoc name tag_table.

Definition has_attr (n : string) (l : list sattr) : bool :=
  existsb (fun a => String.eqb (a_name a) n) l.
Definition get_attr (n : string) (l : list sattr) : option sattr :=
  find (fun a => String.eqb (a_name a) n) l.

Fixpoint names_nodup (l : list sattr) : bool :=
  match l with
  | [] => true
  | a :: tl => negb (has_attr (a_name a) tl) && names_nodup tl
  end.

(* cross-attribute rules *)
Definition attrs_cross_ok (tag : string) (l : list sattr) : bool :=
  if String.eqb tag "EXT-X-KEY" then
    match get_attr "METHOD" l with
    | None => false
    | Some m =>
        if negb (a_quoted m) && String.eqb (a_value m) "NONE"
        then forallb (fun a => String.eqb (a_name a) "METHOD") l
        else has_attr "URI" l
    end
  else if String.eqb tag "EXT-X-MEDIA" then
    match get_attr "TYPE" l with
    | None => true
    | Some t =>
        if a_quoted t then true
        else if String.eqb (a_value t) "CLOSED-CAPTIONS" then has_attr "INSTREAM-ID" l && negb (has_attr "URI" l)
        else if String.eqb (a_value t) "AUDIO" || String.eqb (a_value t) "VIDEO" then negb (has_attr "INSTREAM-ID" l)
        else if String.eqb (a_value t) "SUBTITLES" then negb (has_attr "INSTREAM-ID" l) && has_attr "URI" l
        else true
    end
  else if String.eqb tag "EXT-X-SESSION-DATA" then xorb (has_attr "VALUE" l) (has_attr "URI" l)
  else true.

(* (acceptable, some hexadecimal value needs EXT-X-DEFINE) *)
Definition attrs_ok (tag : string) (spec : tagspec) (l : list sattr) : bool * bool :=
  let typed := map (fun a => match assoc (a_name a) (t_attrs spec) with
                             | Some t => attr_type_ok t a
                             | None => (true, false)
                             end) l in
  (names_nodup l && forallb fst typed
   && forallb (fun r => has_attr r l) (t_required spec) && attrs_cross_ok tag l,
   existsb snd typed).

Definition value_ok (tag : string) (spec : tagspec) (val : option string) : bool * bool :=
  match t_value spec, val with
  | VNone, None => (true, false)
  | VNone, Some _ => (false, false)
  | _, None => (false, false)
  | VInt, Some v => (is_dec_int v, false)
  | VPlaylistType, Some v => (String.eqb v "EVENT" || String.eqb v "VOD", false)
  | VYesNo, Some v => (String.eqb v "YES" || String.eqb v "NO", false)
  | VByteRange, Some v => (is_byterange v, false)
  | VDateTime, Some v => (is_datetime v, false)
  | VExtinf, Some v => (is_extinf_value v, false)
  | VAttrList, Some v =>
      match parse_attr_list v with
      | None => (false, false)
      | Some l => attrs_ok tag spec l
      end
  end.

(* ---------- lines ---------- *)
(* split on LF, drop the empty piece after a final LF, strip one trailing CR per line *)
Definition strip_cr (s : string) : string :=
  match slen s with
  | O => s
  | S n => if Ascii.eqb (char_at n s) CR then take n s else s
  end.

Fixpoint drop_last_empty (l : list string) : list string :=
  match l with
  | [] => []
  | [x] => if String.eqb x "" then [] else [x]
  | x :: tl => x :: drop_last_empty tl
  end.

Definition lines_of (s : string) : list string := map strip_cr (drop_last_empty (split_byte LF s)).

Record sstate := {
  s_seen : list string;        (* once-per-playlist tags seen *)
  s_pending : list string;     (* per-segment tags since the last URI line *)
  s_part_since : bool;         (* an EXT-X-PART since the last URI line *)
  s_prev_si : bool;            (* the previous line is EXT-X-STREAM-INF *)
  s_has_td : bool;
  s_saw_media : bool;          (* a media-segment or media-playlist tag *)
  s_saw_multi : bool;
  s_saw_define : bool;
  s_hex_var : bool;            (* a hexadecimal value accepted only as a variable reference *)
  s_uri_extinf : bool;         (* every URI line so far was preceded by EXTINF *)
  s_uri_si : bool              (* every URI line so far was immediately preceded by STREAM-INF *)
}.

Definition sstate0 : sstate :=
  {| s_seen := []; s_pending := []; s_part_since := false; s_prev_si := false; s_has_td := false;
     s_saw_media := false; s_saw_multi := false; s_saw_define := false; s_hex_var := false;
     s_uri_extinf := true; s_uri_si := true |}.

Definition trim_ws (s : string) : bool := negb (has_char (fun c => negb (is_ws c)) s).   (* only whitespace *)

(* the tag part of a line "#<name>[:<value>]" *)
Definition split_tag (body : string) : string * option string :=
  match index_byte ":" body with
  | Some i => (take i body, Some (drop (S i) body))
  | None => (body, None)
  end.

Definition is_media_class (c : tclass) : bool :=
  match c with CSegment | CMediaPlaylist => true | _ => false end.
Definition is_multi_class (c : tclass) : bool :=
  match c with CMultivariant => true | _ => false end.

(* the state after an accepted tag line *)
Definition tag_update (st : sstate) (name : string) (spec : tagspec) (hexvar : bool) : sstate :=
  {| s_seen := if t_once spec then name :: s_seen st else s_seen st;
     s_pending := if t_perseg spec then name :: s_pending st else s_pending st;
     s_part_since := s_part_since st || String.eqb name "EXT-X-PART";
     s_prev_si := String.eqb name "EXT-X-STREAM-INF";
     s_has_td := s_has_td st || String.eqb name "EXT-X-TARGETDURATION";
     s_saw_media := s_saw_media st || is_media_class (t_class spec);
     s_saw_multi := s_saw_multi st || is_multi_class (t_class spec);
     s_saw_define := s_saw_define st || String.eqb name "EXT-X-DEFINE";
     s_hex_var := s_hex_var st || hexvar;
     s_uri_extinf := s_uri_extinf st; s_uri_si := s_uri_si st |}.

(* the state after an accepted URI line *)
Definition uri_update (st : sstate) : sstate :=
  {| s_seen := s_seen st; s_pending := []; s_part_since := false; s_prev_si := false;
     s_has_td := s_has_td st; s_saw_media := s_saw_media st; s_saw_multi := s_saw_multi st;
     s_saw_define := s_saw_define st; s_hex_var := s_hex_var st;
     s_uri_extinf := s_uri_extinf st && mem_str "EXTINF" (s_pending st);
     s_uri_si := s_uri_si st && s_prev_si st |}.

Definition tag_step (st : sstate) (name : string) (val : option string) : option sstate :=
  match tag_spec name with
  | None => None                                      (* unknown tag (or blank after the name) *)
  | Some spec =>
      if String.eqb name "EXTM3U" then None           (* only on line 1 *)
      else if t_once spec && mem_str name (s_seen st) then None
      else if t_perseg spec && mem_str name (s_pending st) then None
      else
        let '(ok, hexvar) := value_ok name spec val in
        if negb ok then None else Some (tag_update st name spec hexvar)
  end.

Definition sstep (st : sstate) (text : string) : option sstate :=
  let is_uri := match text with String c _ => negb (Ascii.eqb c "#") && negb (trim_ws text) | "" => false end in
  if s_prev_si st && negb is_uri then None                   (* STREAM-INF not followed by a URI *)
  else
    match text with
    | "" => Some st
    | String c body =>
        if trim_ws text then None                             (* whitespace-only line *)
        else if negb (Ascii.eqb c "#") then
          if has_char (fun x => is_ws x || is_control x) text then None else Some (uri_update st)
        else if negb (has_prefix "#EXT" text) then Some st    (* comment *)
        else let '(name, val) := split_tag body in tag_step st name val
    end.

Fixpoint sfold (st : sstate) (ls : list string) : option sstate :=
  match ls with
  | [] => Some st
  | l :: tl => match sstep st l with Some st' => sfold st' tl | None => None end
  end.

(* end of playlist *)
Definition sfinal (st : sstate) : bool :=
  negb (s_prev_si st)
  && forallb (fun n => negb (mem_str n (s_pending st))
                       || (s_part_since st && negb (String.eqb n "EXTINF") && negb (String.eqb n "EXT-X-BYTERANGE")))
             ["EXTINF"; "EXT-X-BYTERANGE"; "EXT-X-DISCONTINUITY"; "EXT-X-GAP"; "EXT-X-PROGRAM-DATE-TIME";
              "EXT-X-BITRATE"]
  && negb (s_saw_media st && s_saw_multi st)                             (* mixed kinds *)
  && (negb (s_saw_media st) || s_has_td st)                              (* media: TARGETDURATION *)
  && (if s_saw_multi st then s_uri_si st else s_uri_extinf st)
  && (negb (s_hex_var st) || s_saw_define st).

Definition strict_ok (s : string) : bool :=
  match lines_of s with
  | first :: rest =>
      String.eqb first "#EXTM3U"
      && match sfold sstate0 rest with Some st => sfinal st | None => false end
  | [] => false
  end.
