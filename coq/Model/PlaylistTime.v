(* M2 - Go's date-time text codec for the two layouts of media.go, years 0..9999, in pure Z
   arithmetic (definitions only, no floats): the time part of the executable oracle instance
   Model/PlaylistOracle.go_oracles, also used by the evaluated examples of the proofs. *)
From Coq Require Import List ZArith Bool String Ascii.
From GoHls Require Import Model.PlaylistBase.
Import ListNotations.
Local Open Scope string_scope.
Local Open Scope Z_scope.

(* exactly [n] decimal digits of z (most significant first) *)
Fixpoint pad_digits (n : nat) (z : Z) (acc : string) : string :=
  match n with
  | O => acc
  | S n' => pad_digits n' (z / 10) (String (digit_char (z mod 10)) acc)
  end.

Fixpoint all_digits (s : string) : bool :=
  match s with
  | "" => true
  | String c s' => match digit_of c with Some _ => all_digits s' | None => false end
  end.

(* ---------- civil time ---------- *)
(* days since 1970-01-01 <-> proleptic Gregorian date *)
Definition days_from_civil (y m d : Z) : Z :=
  let y' := if m <=? 2 then y - 1 else y in
  let era := y' / 400 in
  let yoe := y' - era * 400 in
  let mp := (m + 9) mod 12 in
  let doy := (153 * mp + 2) / 5 + d - 1 in
  let doe := yoe * 365 + yoe / 4 - yoe / 100 + doy in
  era * 146097 + doe - 719468.

Definition civil_from_days (z : Z) : Z * Z * Z :=
  let z := z + 719468 in
  let era := z / 146097 in
  let doe := z - era * 146097 in
  let yoe := (doe - doe / 1460 + doe / 36524 - doe / 146096) / 365 in
  let y := yoe + era * 400 in
  let doy := doe - (365 * yoe + yoe / 4 - yoe / 100) in
  let mp := (5 * doy + 2) / 153 in
  let d := doy - (153 * mp + 2) / 5 + 1 in
  let m := if mp <? 10 then mp + 3 else mp - 9 in
  (if m <=? 2 then y + 1 else y, m, d).

Definition is_leap (y : Z) : bool :=
  ((y mod 4 =? 0) && negb (y mod 100 =? 0)) || (y mod 400 =? 0).

Definition days_in (m y : Z) : Z :=
  if m =? 2 then (if is_leap y then 29 else 28)
  else if (m =? 4) || (m =? 6) || (m =? 9) || (m =? 11) then 30 else 31.

Definition d2 (z : Z) : string := pad_digits 2 z "".
Definition d4 (z : Z) : string := pad_digits 4 z "".

Fixpoint trim_trailing_zeros_rev (l : list ascii) : list ascii :=
  match l with
  | c :: tl => if Ascii.eqb c "0" then trim_trailing_zeros_rev tl else l
  | [] => []
  end.

Definition frac_millis (ms : Z) : string :=
  if ms =? 0 then ""
  else "." ++ string_of_list_ascii
                (rev (trim_trailing_zeros_rev (rev (list_ascii_of_string (pad_digits 3 ms ""))))).

(* Time.Format("2006-01-02T15:04:05.999Z07:00"), years 0..9999 *)
Definition go_fmt_time (t : dtime) : string :=
  let local := dt_ns t + dt_off t * 1000000000 in
  let secs := local / 1000000000 in
  let nsec := local mod 1000000000 in
  let days := secs / 86400 in
  let sod := secs mod 86400 in
  let '(y, mo, d) := civil_from_days days in
  let off := dt_off t in
  d4 y ++ "-" ++ d2 mo ++ "-" ++ d2 d ++ "T"
  ++ d2 (sod / 3600) ++ ":" ++ d2 ((sod / 60) mod 60) ++ ":" ++ d2 (sod mod 60)
  ++ frac_millis (nsec / 1000000)
  ++ (if off =? 0 then "Z"
      else let zone := Z.quot off 60 in
           (if zone <? 0 then "-" else "+")
           ++ d2 (Z.abs zone / 60) ++ ":" ++ d2 (Z.abs zone mod 60)).

Definition num_n (n : nat) (s : string) : option (Z * string) :=
  let h := take n s in
  if Nat.eqb (slen h) n && all_digits h then
    match parse_digits 0 h with Some v => Some (v, drop n s) | None => None end
  else None.

Definition expect (c : ascii) (s : string) : option string :=
  match s with
  | String a s' => if Ascii.eqb a c then Some s' else None
  | "" => None
  end.

Fixpoint count_digits (s : string) : nat :=
  match s with
  | String c s' => match digit_of c with Some _ => S (count_digits s') | None => O end
  | "" => O
  end.

Definition opt_bind {A B} (o : option A) (k : A -> option B) : option B :=
  match o with Some a => k a | None => None end.
Notation "'let?' x := m 'in' k" := (opt_bind m (fun x => k))
  (at level 200, x pattern, m at level 100, k at level 200, right associativity).

(* zone: Z | [+-]hh:mm | [+-]hhmm, then end of input *)
Definition parse_zone (s : string) : option Z :=
  match s with
  | "Z" => Some 0
  | String sg rest =>
      if Ascii.eqb sg "+" || Ascii.eqb sg "-" then
        let? (hh, r1) := num_n 2 rest in
        let r2 := match r1 with String ":" r => r | _ => r1 end in
        let? (mm, r3) := num_n 2 r2 in
        if negb (String.eqb r3 "") then None
        else if (24 <? hh) || (60 <? mm) then None
        else let o := (hh * 60 + mm) * 60 in Some (if Ascii.eqb sg "-" then - o else o)
      else None
  | "" => None
  end.

(* parseTime on  YYYY-MM-DDThh:mm:ss[.f{1,9}](Z|[+-]hh:mm|[+-]hhmm) *)
Definition go_parse_time (s : string) : option dtime :=
  let? (y, s) := num_n 4 s in
  let? s := expect "-" s in
  let? (mo, s) := num_n 2 s in
  let? s := expect "-" s in
  let? (d, s) := num_n 2 s in
  let? s := expect "T" s in
  let? (h, s) := num_n 2 s in
  let? s := expect ":" s in
  let? (mi, s) := num_n 2 s in
  let? s := expect ":" s in
  let? (sec, s) := num_n 2 s in
  let? (frac, s) :=
    match s with
    | String "." r =>
        let n := count_digits r in
        if Nat.eqb n 0 || Nat.ltb 9 n then None
        else match parse_digits 0 (take n r) with
             | Some v => Some (v * 10 ^ Z.of_nat (9 - n), drop n r)
             | None => None
             end
    | _ => Some (0, s)
    end in
  let? off := parse_zone s in
  if (mo <? 1) || (12 <? mo) || (d <? 1) || (days_in mo y <? d)
     || (23 <? h) || (59 <? mi) || (59 <? sec) then None
  else
    let secs := days_from_civil y mo d * 86400 + h * 3600 + mi * 60 + sec - off in
    Some {| dt_ns := secs * 1000000000 + frac; dt_off := off |}.

