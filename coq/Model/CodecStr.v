(* M3/C16 - pkg/codecparams/marshal.go: the RFC 6381 codec string of a track's parameters.

   Transcription of [Marshal] and its helpers over records of exactly the fields the Go code
   reads. Parsing the parameter bytes (h265.SPS.Unmarshal, av1.SequenceHeader.Unmarshal of
   mediacommon) is NOT modelled: the parsed fields are the input, [None] stands for "Unmarshal
   returned an error". Go names are kept (snake case).

     strconv.FormatInt(v, 10)          -> fmt_int  (Model/PlaylistBase.v)
     fmt.Sprintf("%x", v)              -> fmt_hex  (lower case, no padding)
     hex.EncodeToString(b)             -> hex_byte per byte (lower case, two digits)
     strings.Join(l, ".")              -> join "."

   The second half is the grammar the strings are held against ([wf_codec_string], written
   from the bindings: ISO/IEC 14496-15 annex E for avc1 / hvc1, the VP9 and AV1 ISOBMFF
   bindings for vp09 / av01, RFC 6381 for mp4a), not from the marshal functions. *)
From Coq Require Import List ZArith Bool String Ascii.
From GoHls Require Import Model.PlaylistBase Model.PlaylistSpec.
Import ListNotations.
Local Open Scope string_scope.
Local Open Scope Z_scope.

(* ---------- hexadecimal ---------- *)
Definition hex_char (d : Z) : ascii :=
  match String.get (Z.to_nat d) "0123456789abcdef" with Some c => c | None => "0"%char end.

(* fmt.Sprintf("%x", z) for an unsigned z *)
Fixpoint fmt_hex_digits (fuel : nat) (z : Z) (acc : string) : string :=
  match fuel with
  | O => acc
  | S f =>
      let acc' := String (hex_char (z mod 16)) acc in
      if z <? 16 then acc' else fmt_hex_digits f (z / 16) acc'
  end.

Definition fmt_hex (z : Z) : string := fmt_hex_digits (S (Z.to_nat (Z.log2 z))) z "".

(* hex.EncodeToString of one byte *)
Definition hex_byte (b : Z) : string := String (hex_char (b / 16)) (String (hex_char (b mod 16)) "").

(* ---------- helpers of marshal.go ---------- *)
Fixpoint zeros (n : nat) : string := match n with O => "" | S k => String "0" (zeros k) end.

(* leadingZeros(v, size) *)
Definition leading_zeros (v : Z) (size : nat) : string :=
  let out := fmt_int v in
  if Nat.leb size (slen out) then out else zeros (size - slen out) ++ out.

Definition av1_encode_tier (v : bool) : string := if v then "H" else "M".
Definition av1_encode_bool (v : bool) : string := if v then "1" else "0".

(* h265EncodeProfileSpace: string('A' + (v - 1)) for 1 <= v <= 3 *)
Definition h265_encode_profile_space (v : Z) : string :=
  if (1 <=? v) && (v <=? 3) then String (ascii_of_nat (Z.to_nat (65 + (v - 1)))) "" else "".

(* o |= 1 << i for every set v[i] *)
Fixpoint le_bits (l : list bool) : Z :=
  match l with
  | [] => 0
  | b :: r => (if b then 1 else 0) + 2 * le_bits r
  end.

Definition h265_encode_compatibility_flag (v : list bool) : string := fmt_hex (le_bits v).

Definition h265_encode_general_tier_flag (v : Z) : string := if 0 <? v then "H" else "L".

(* the fields of h265.SPS_ProfileTierLevel that Marshal reads *)
Record h265_ptl := {
  general_profile_space : Z;                      (* uint8, 2 bits in the SPS *)
  general_tier_flag : Z;                          (* uint8, 1 bit *)
  general_profile_idc : Z;                        (* uint8, 5 bits *)
  general_profile_compatibility_flag : list bool; (* [32]bool *)
  general_progressive_source_flag : bool;
  general_interlaced_source_flag : bool;
  general_non_packed_constraint_flag : bool;
  general_frame_only_constraint_flag : bool;
  general_max_12bit_constraint_flag : bool;
  general_max_10bit_constraint_flag : bool;
  general_max_8bit_constraint_flag : bool;
  general_max_422chroma_constraint_flag : bool;
  general_max_420chroma_constraint_flag : bool;
  general_max_monochrome_constraint_flag : bool;
  general_intra_constraint_flag : bool;
  general_one_picture_only_constraint_flag : bool;
  general_lower_bit_rate_constraint_flag : bool;
  general_max_14bit_constraint_flag : bool;
  general_level_idc : Z                           (* uint8 *)
}.

Definition bit (b : bool) (k : Z) : Z := if b then 2 ^ k else 0.

Definition h265_o1 (v : h265_ptl) : Z :=
  bit (general_progressive_source_flag v) 7 + bit (general_interlaced_source_flag v) 6
  + bit (general_non_packed_constraint_flag v) 5 + bit (general_frame_only_constraint_flag v) 4
  + bit (general_max_12bit_constraint_flag v) 3 + bit (general_max_10bit_constraint_flag v) 2
  + bit (general_max_8bit_constraint_flag v) 1 + bit (general_max_422chroma_constraint_flag v) 0.

Definition h265_o2 (v : h265_ptl) : Z :=
  bit (general_max_420chroma_constraint_flag v) 7 + bit (general_max_monochrome_constraint_flag v) 6
  + bit (general_intra_constraint_flag v) 5 + bit (general_one_picture_only_constraint_flag v) 4
  + bit (general_lower_bit_rate_constraint_flag v) 3 + bit (general_max_14bit_constraint_flag v) 2.

Definition h265_encode_general_constraint_indicator_flags (v : h265_ptl) : string :=
  let ret := [fmt_hex (h265_o1 v)] in
  let ret := if negb (h265_o2 v =? 0) then List.app ret [fmt_hex (h265_o2 v)] else ret in
  join "." ret.

(* the fields of av1.SequenceHeader that Marshal reads *)
Record av1_sh := {
  seq_profile : Z;                  (* uint8, 3 bits *)
  seq_level_idx_0 : Z;              (* SeqLevelIdx[0]: uint8, 5 bits *)
  seq_tier_0 : bool;                (* SeqTier[0] *)
  bit_depth : Z;                    (* int: 8, 10, 12; 0 for a reserved profile *)
  mono_chrome : bool;
  subsampling_x : bool;
  subsampling_y : bool;
  chroma_sample_position : Z;       (* uint8, 2 bits *)
  color_description_present_flag : bool;
  color_primaries : Z;              (* uint8 *)
  transfer_characteristics : Z;     (* uint8 *)
  matrix_coefficients : Z;          (* uint8 *)
  color_range : bool
}.

Inductive codec :=
| AV1 (sh : option av1_sh)               (* None: sh.Unmarshal(codec.SequenceHeader) failed *)
| VP9 (profile bit_depth : Z)            (* uint8, uint8 *)
| H265 (ptl : option h265_ptl)           (* None: sps.Unmarshal(codec.SPS) failed *)
| H264 (sps : list Z)                    (* the bytes of codec.SPS *)
| Opus
| MPEG4Audio (object_type : Z)           (* codec.Config.Type, an int *)
| OtherCodec.                            (* any other Codec implementation *)

Definition marshal (c : codec) : string :=
  match c with
  | AV1 (Some sh) =>
      let v := "av01." ++ fmt_int (seq_profile sh) ++ "."
               ++ leading_zeros (seq_level_idx_0 sh) 2 ++ av1_encode_tier (seq_tier_0 sh) ++ "."
               ++ leading_zeros (bit_depth sh) 2 ++ "."
               ++ av1_encode_bool (mono_chrome sh) ++ "."
               ++ av1_encode_bool (subsampling_x sh) ++ av1_encode_bool (subsampling_y sh)
               ++ fmt_int (chroma_sample_position sh) ++ "." in
      if color_description_present_flag sh then
        v ++ leading_zeros (color_primaries sh) 2 ++ "."
          ++ leading_zeros (transfer_characteristics sh) 2 ++ "."
          ++ leading_zeros (matrix_coefficients sh) 2 ++ "."
          ++ av1_encode_bool (color_range sh)
      else v ++ "01.01.01.0"
  | AV1 None => ""
  | VP9 profile bd =>
      "vp09." ++ leading_zeros profile 2 ++ "." ++ "10." ++ leading_zeros bd 2
  | H265 (Some p) =>
      "hvc1." ++ h265_encode_profile_space (general_profile_space p)
      ++ fmt_int (general_profile_idc p) ++ "."
      ++ h265_encode_compatibility_flag (general_profile_compatibility_flag p) ++ "."
      ++ h265_encode_general_tier_flag (general_tier_flag p)
      ++ fmt_int (general_level_idc p) ++ "."
      ++ h265_encode_general_constraint_indicator_flags p
  | H265 None => ""
  | H264 (_ :: a :: b :: c :: _) => "avc1." ++ hex_byte a ++ hex_byte b ++ hex_byte c
  | H264 _ => ""
  | Opus => "opus"
  | MPEG4Audio t => "mp4a.40." ++ fmt_int t
  | OtherCodec => ""
  end.

(* ---------- ranges of the Go field types as the parsers fill them ---------- *)
Definition in_bits (n z : Z) : bool := (0 <=? z) && (z <? 2 ^ n).

Definition h265_ptl_ok (p : h265_ptl) : bool :=
  in_bits 2 (general_profile_space p) && in_bits 1 (general_tier_flag p)
  && in_bits 5 (general_profile_idc p)
  && Nat.eqb (List.length (general_profile_compatibility_flag p)) 32
  && in_bits 8 (general_level_idc p).

Definition av1_sh_ok (s : av1_sh) : bool :=
  in_bits 3 (seq_profile s) && in_bits 5 (seq_level_idx_0 s) && (0 <=? bit_depth s)
  && in_bits 2 (chroma_sample_position s) && in_bits 8 (color_primaries s)
  && in_bits 8 (transfer_characteristics s) && in_bits 8 (matrix_coefficients s).

Definition codec_fields_ok (c : codec) : bool :=
  match c with
  | AV1 (Some s) => av1_sh_ok s
  | VP9 p b => in_bits 8 p && in_bits 8 b
  | H265 (Some p) => h265_ptl_ok p
  | H264 l => forallb (in_bits 8) l
  | MPEG4Audio t => 0 <=? t
  | _ => true
  end.

(* ---------- the grammar of the codec strings ---------- *)
Definition is_dec_digit (c : ascii) : bool :=
  let n := nat_of_ascii c in Nat.leb 48 n && Nat.leb n 57.
(* lower-case hexadecimal digit: 0-9 a-f *)
Definition is_lhex_digit (c : ascii) : bool :=
  let n := nat_of_ascii c in is_dec_digit c || (Nat.leb 97 n && Nat.leb n 102).

Fixpoint all_chars (f : ascii -> bool) (s : string) : bool :=
  match s with "" => true | String c r => f c && all_chars f r end.

Definition dec_str (s : string) : bool := negb (String.eqb s "") && all_chars is_dec_digit s.
Definition lhex_str (s : string) : bool := negb (String.eqb s "") && all_chars is_lhex_digit s.
Definition one_of (cs : string) (c : ascii) : bool :=
  match index_byte c cs with Some _ => true | None => false end.

(* decimal, at least two digits, a leading zero only to reach two digits (leadingZeros(v, 2)) *)
Definition dec2_str (s : string) : bool :=
  dec_str s && Nat.leb 2 (slen s)
  && match s with String c _ => Nat.eqb (slen s) 2 || negb (Ascii.eqb c "0") | "" => false end.

(* decimal without a superfluous leading zero (FormatInt) *)
Definition dec1_str (s : string) : bool :=
  dec_str s && match s with String c r => negb (Ascii.eqb c "0") || String.eqb r "" | "" => false end.

(* %x: no superfluous leading zero either *)
Definition hexnum_str (s : string) : bool :=
  lhex_str s && match s with String c r => negb (Ascii.eqb c "0") || String.eqb r "" | "" => false end.

Definition hvc1_profile (s : string) : bool :=
  match s with
  | String c r => if one_of "ABC" c then dec1_str r else dec1_str s
  | "" => false
  end.

Definition hvc1_tier_level (s : string) : bool :=
  match s with String c r => one_of "LH" c && dec1_str r | "" => false end.

Definition hvc1_constraint_byte (s : string) : bool := hexnum_str s && Nat.leb (slen s) 2.

Definition av01_level_tier (s : string) : bool :=
  match s with
  | String a (String b (String t "")) => is_dec_digit a && is_dec_digit b && one_of "MH" t
  | _ => false
  end.

Definition av01_chroma (s : string) : bool :=
  match s with
  | String a (String b (String c "")) => one_of "01" a && one_of "01" b && is_dec_digit c
  | _ => false
  end.

Definition flag_str (s : string) : bool := String.eqb s "0" || String.eqb s "1".

Definition wf_codec_string (s : string) : bool :=
  match split_byte "." s with
  | [] => false
  | h :: rest =>
      if String.eqb h "opus" then match rest with [] => true | _ => false end
      else if String.eqb h "avc1" then
        match rest with [x] => Nat.eqb (slen x) 6 && all_chars is_lhex_digit x | _ => false end
      else if String.eqb h "mp4a" then
        match rest with [o; t] => String.eqb o "40" && dec1_str t | _ => false end
      else if String.eqb h "vp09" then
        match rest with [p; l; d] => dec2_str p && dec2_str l && dec2_str d | _ => false end
      else if String.eqb h "hvc1" then
        match rest with
        | [p; c; t; k1] =>
            hvc1_profile p && hexnum_str c && Nat.leb (slen c) 8 && hvc1_tier_level t
            && hvc1_constraint_byte k1
        | [p; c; t; k1; k2] =>
            hvc1_profile p && hexnum_str c && Nat.leb (slen c) 8 && hvc1_tier_level t
            && hvc1_constraint_byte k1 && hvc1_constraint_byte k2
        | _ => false
        end
      else if String.eqb h "av01" then
        match rest with
        | [p; lt; d; m; ch; cp; tc; mc; r] =>
            dec1_str p && Nat.eqb (slen p) 1 && av01_level_tier lt && dec2_str d && flag_str m
            && av01_chroma ch && dec2_str cp && dec2_str tc && dec2_str mc && flag_str r
        | _ => false
        end
      else false
  end.
