(* M8, static part: the rules over the generated blocking-operation table
   (Generated/ClientLifeBlockOps.v, regenerated from the Go source on every run).

   [all_cancellable g] is a complete boolean check of the finite table [g]; the proof
   obligation is  Proofs/ClientLifeTable.v: table_ok : all_cancellable table = true
   (vm_compute).  Removing one [<-ctx.Done()] alternative, adding a bare channel operation, a
   second send on outErr, a raw [go] statement, a context that is not the pool's, a blocking
   operation under a mutex ... changes the table and breaks it.

   Operations that are legitimately not cancellable are NOT handled by loosening the rule: they
   are listed one by one in [allow_list] (function + exact operation + reason); each entry must
   match exactly [al_count] operations of the table (1 everywhere except the two parks of
   fillSegmentQueue), and every matched operation is checked individually. *)
From Coq Require Import List String Ascii Bool Arith.
From GoHls Require Import Lib.ClientLifeIR.
Import ListNotations.
Local Open Scope string_scope.

(* ---------- decidable equality on the IR ---------- *)
Definition alt_eq_dec (a b : alt) : {a = b} + {a <> b}.
Proof. decide equality; apply string_dec. Defined.
Definition opt_string_dec (a b : option string) : {a = b} + {a <> b}.
Proof. decide equality; apply string_dec. Defined.
Definition opkind_eq_dec (a b : opkind) : {a = b} + {a <> b}.
Proof.
  decide equality; try apply string_dec; try apply opt_string_dec.
  apply (list_eq_dec alt_eq_dec).
Defined.
Definition opkind_eqb (a b : opkind) : bool := if opkind_eq_dec a b then true else false.
Definition blockop_eq_dec (a b : blockop) : {a = b} + {a <> b}.
Proof.
  decide equality; try apply string_dec; try apply (list_eq_dec string_dec).
  apply opkind_eq_dec. apply Nat.eq_dec.
Defined.
Definition blockop_eqb (a b : blockop) : bool := if blockop_eq_dec a b then true else false.

Definition mem_str (x : string) (l : list string) : bool := existsb (String.eqb x) l.

(* "F$3" (the 3rd function literal inside F) -> "F": a literal sees the variables of F *)
Fixpoint base_func (f : string) : string :=
  match f with
  | EmptyString => EmptyString
  | String c r => if Ascii.eqb c "$"%char then EmptyString else String c (base_func r)
  end.

Fixpoint lookup {A} (k : string) (l : list (string * A)) : option A :=
  match l with
  | [] => None
  | (k', v) :: r => if String.eqb k k' then Some v else lookup k r
  end.

(* ---------- which context an expression denotes ----------
   The pool context is created in clientRoutinePool.initialize (rp.ctx) and handed to every
   runnable by the wrapper goroutine of clientRoutinePool.add ([r.run(rp.ctx)]).  From there it
   only travels as the parameter [ctx] (checked below: every context argument of every call in
   these files is the caller's own [ctx] parameter, [rp.ctx] in the wrapper, or the field
   [p.ctx] of clientStreamProcessorFMP4, which its only constructor sets to [ctx]). *)
Definition has_ctx_param (g : gen) (f : string) : bool :=
  existsb (fun p => String.eqb (fst p) (base_func f) && String.eqb (snd p) "ctx") (g_ctxparams g).

Definition pool_ctx_expr (g : gen) (f e : string) : bool :=
  (String.eqb e "ctx" && has_ctx_param g f)
  || (String.eqb e "rp.ctx" && String.eqb (base_func f) "clientRoutinePool.add")
  || (String.eqb e "p.ctx" && String.prefix "clientStreamProcessorFMP4." f).

Definition flow_ok (g : gen) (c : ctxflow) : bool :=
  match cf_kind c with
  | FArg callee =>
      if String.eqb callee "context.WithCancel"
      then String.eqb (cf_expr c) "context.Background()"
           && mem_str (cf_func c) ["Client.Start"; "clientRoutinePool.initialize"]
      else pool_ctx_expr g (cf_func c) (cf_expr c)
  | FField fld =>
      String.eqb fld "clientStreamProcessorFMP4.ctx" && pool_ctx_expr g (cf_func c) (cf_expr c)
  | FAssign lhs =>
      (String.eqb (cf_func c) "Client.Start" && String.eqb lhs "c.ctx")
      || (String.eqb (cf_func c) "clientRoutinePool.initialize" && String.eqb lhs "rp.ctx")
  end.

Definition ctx_flow_ok (g : gen) : bool :=
  forallb (flow_ok g) (g_ctxflow g)
  && forallb (fun p => String.eqb (snd p) "ctx") (g_ctxparams g)
  (* the field p.ctx is set (to a pool context, by flow_ok) by some constructor *)
  && existsb (fun c => match cf_kind c with
                       | FField fld => String.eqb fld "clientStreamProcessorFMP4.ctx"
                       | _ => false end) (g_ctxflow g).

(* ---------- the rule ---------- *)
Definition is_pool_done (g : gen) (f : string) (a : alt) : bool :=
  match a with ADone c => pool_ctx_expr g f c | _ => false end.
Definition is_default (a : alt) : bool := match a with ADefault => true | _ => false end.

(* does cancelling the pool context make the operation return?  [nh] = what is assumed of
   net/http for the operations that carry a request context (Model/ClientLife.v quantifies
   over it under the hypothesis that it honours the context). *)
Definition cancel_wakes (g : gen) (nh : blockop -> bool) (o : blockop) : bool :=
  match bo_kind o with
  | KSelect alts => existsb (is_pool_done g (bo_func o)) alts
  | KRecvDone c => pool_ctx_expr g (bo_func o) c
  | KHttpDo _ (Some c) | KReadAll _ (Some c) => pool_ctx_expr g (bo_func o) c && nh o
  | _ => false
  end.

Definition carries_pool_request_ctx (g : gen) (o : blockop) : bool :=
  match bo_kind o with
  | KHttpDo _ (Some c) | KReadAll _ (Some c) => pool_ctx_expr g (bo_func o) c
  | _ => false
  end.

(* never blocks at all *)
Definition non_blocking (o : blockop) : bool :=
  match bo_kind o with
  | KSelect alts => existsb is_default alts
  | _ => false
  end.

Definition is_lock (o : blockop) : bool := match bo_kind o with KLock _ => true | _ => false end.

(* the general rule: cancellable by the pool context, or non-blocking, or a mutex Lock (mutexes
   are covered by [locks_ok]: no blocking operation, no Lock, no unknown call happens while one
   is held, and no function returns holding one - so every critical section is terminating
   code and Lock is part of "the code between blocking operations"). *)
Definition op_rule (g : gen) (o : blockop) : bool :=
  match bo_kind o with
  | KRecvDone _ => false               (* must be justified individually, see allow_list *)
  | _ => cancel_wakes g (fun _ => true) o || non_blocking o || is_lock o
  end.

(* ---------- the allow-list ---------- *)
Inductive allow_class :=
| RunThread      (* an operation of the goroutine started by Start (Client.run); modelled explicitly *)
| DoneItself     (* a bare <-ctx.Done() on the pool context: it waits for the cancellation itself *)
| NeverBlocks.   (* not a blocking operation in this program *)

(* [al_count] = the exact number of operations of the table the entry must match *)
Record allow := { al_func : string; al_kind : opkind; al_class : allow_class; al_count : nat; al_reason : string }.

Definition allow_list : list allow := [
  {| al_func := "Client.run"; al_kind := KSend "c.outErr"; al_class := RunThread; al_count := 1;
     al_reason := "outErr has capacity 1 (make(chan error, 1) in Start), Client.run is started once (the only go statement outside the pool) and this is its only send: the buffer is empty when it is executed. Proofs/ClientLife.v: inv_send_room, c12_one_result." |};
  {| al_func := "Client.runInner"; al_kind := KSelect [ARecv "rp.errorChan()"; ADone "c.ctx"]; al_class := RunThread; al_count := 1;
     al_reason := "the top-level wait of the client: first error of the pool, or Close (the client context). It is the operation that cancels the pool, not one that has to be woken by it. Model: RSelect with exactly these two alternatives." |};
  {| al_func := "clientRoutinePool.close"; al_kind := KWgWait "rp.wg"; al_class := RunThread; al_count := 1;
     al_reason := "executed after rp.ctxCancel(); returns because every pool goroutine returns once the pool context is cancelled. Proofs/ClientLife.v: c12_progress, c12_bounded (this is what c12_all_joined is about)." |};
  {| al_func := "clientStreamDownloader.fillSegmentQueue"; al_kind := KRecvDone "ctx"; al_class := DoneItself; al_count := 2;
     al_reason := "two parks, both after d.segmentQueue.push(nil): (1) the last segment of a finished playlist has just been downloaded; (2) ENDLIST appeared on a reload after the last segment had already been downloaded. The downloader waits until the pool is cancelled; each of the two operations is individually required to be woken by exactly that cancellation (allow_entry_ok: cancel_wakes; Proofs: recvdone_wakes)." |};
  {| al_func := "clientStreamProcessorFMP4.processSegment"; al_kind := KRecvDone "ctx"; al_class := DoneItself; al_count := 1;
     al_reason := "after setEnded the processor parks until the pool is cancelled; enabled exactly by the cancellation." |};
  {| al_func := "clientStreamProcessorMPEGTS.processSegment"; al_kind := KRecvDone "ctx"; al_class := DoneItself; al_count := 1;
     al_reason := "after setEnded the processor parks until the pool is cancelled; enabled exactly by the cancellation." |};
  {| al_func := "switchableReader.Read"; al_kind := KIoRead "r.r"; al_class := NeverBlocks; al_count := 1;
     al_reason := "the wrapped reader is only ever a bytes.Reader over a downloaded segment (both assignments in client_stream_processor_mpegts.go); an in-memory read. Not modelled; covered by the harness leak oracle." |}
].

Definition allow_matches (a : allow) (o : blockop) : bool :=
  String.eqb (al_func a) (bo_func o) && opkind_eqb (al_kind a) (bo_kind o).

Definition allow_entry_ok (g : gen) (a : allow) (o : blockop) : bool :=
  allow_matches a o
  && match al_class a with
     | DoneItself => cancel_wakes g (fun _ => true) o
     | _ => true
     end.

Definition allowed (g : gen) (o : blockop) : bool := existsb (fun a => allow_entry_ok g a o) allow_list.

Definition count_matches (g : gen) (a : allow) : nat :=
  List.length (filter (allow_matches a) (g_ops g)).

(* operations a pool goroutine can be blocked in: everything except mutexes, non-blocking
   selects and the RunThread / NeverBlocks entries of the allow-list *)
Definition non_pool_allowed (o : blockop) : bool :=
  existsb (fun a => allow_matches a o &&
                    match al_class a with DoneItself => false | _ => true end) allow_list.

Definition pool_op (o : blockop) : bool :=
  negb (is_lock o) && negb (non_blocking o) && negb (non_pool_allowed o).

Definition pool_ops (g : gen) : list blockop := filter pool_op (g_ops g).

(* ---------- mutexes ---------- *)
Definition locked_call_ok : list string := [
  "multiplyAndDivide";          (* integer arithmetic (muxer helpers) *)
  "timestampToDuration";        (* integer arithmetic *)
  "ext:(time.Time).Add";
  "ext:(*github.com/bluenviron/mediacommon/v2/pkg/formats/mpegts.TimeDecoder).Decode"  (* integer arithmetic *)
].

Definition locks_ok (g : gen) : bool :=
  forallb (fun o => match bo_held o with [] => true | _ => false end) (g_ops g)
  && match g_lockleaks g with [] => true | _ => false end
  && forallb (fun p => mem_str (snd p) locked_call_ok) (g_lockedcalls g).

(* ---------- goroutines, cancel functions, the skeleton of the run thread and the pool ---------- *)
Definition str_pair_eqb (a b : string * string) : bool :=
  String.eqb (fst a) (fst b) && String.eqb (snd a) (snd b).
Fixpoint list_eqb {A} (eqb : A -> A -> bool) (a b : list A) : bool :=
  match a, b with
  | [], [] => true
  | x :: a', y :: b' => eqb x y && list_eqb eqb a' b'
  | _, _ => false
  end.

(* every goroutine of the client is Client.run (once, from Start) or is owned by the pool *)
Definition go_ok (g : gen) : bool :=
  list_eqb str_pair_eqb (g_go g)
    [("Client.Start", "c.run()"); ("clientRoutinePool.add", "clientRoutinePool.add$1")].

Definition cancels_ok (g : gen) : bool :=
  list_eqb str_pair_eqb (g_cancels g)
    [("Client.Close", "c.ctxCancel"); ("clientRoutinePool.close", "rp.ctxCancel")].

(* the functions executed by the goroutine of Client.run and by the user's Close/Wait: the model's
   run thread (Model/ClientLife.v) is a transcription of exactly these skeletons *)
Definition expected_skel : list (string * list string) := [
  ("Client.run", ["call Client.runInner"; "send c.outErr"]);
  ("Client.runInner",
     ["call clientRoutinePool.initialize"; "call clientPrimaryDownloader.initialize";
      "call clientRoutinePool.add"; "call clientRoutinePool.errorChan";
      "select[recv rp.errorChan() | done c.ctx]";
      "case{"; "call clientRoutinePool.close"; "return"; "}";
      "case{"; "call clientRoutinePool.close"; "return"; "}"]);
  ("Client.Close", ["cancel c.ctxCancel"]);
  ("Client.Wait", ["return"]);
  ("clientRoutinePool.close", ["cancel rp.ctxCancel"; "wg.Wait rp.wg"]);
  ("clientRoutinePool.errorChan", ["return"]);
  ("clientRoutinePool.add", ["wg.Add rp.wg"; "go clientRoutinePool.add$1"]);
  ("clientRoutinePool.add$1",
     ["defer wg.Done rp.wg"; "call clientRoutinePoolRunnable.run";
      "if{"; "select[send rp.err | done rp.ctx]"; "}"])
].

Definition skel_ok (g : gen) : bool :=
  forallb (fun p => match lookup (fst p) (g_skel g) with
                    | Some l => list_eqb String.eqb l (snd p)
                    | None => false
                    end) expected_skel
  (* initialize functions of the run thread contain no synchronisation at all *)
  && match lookup "clientRoutinePool.initialize" (g_skel g), lookup "clientPrimaryDownloader.initialize" (g_skel g) with
     | None, None => true
     | _, _ => false
     end.

(* user callbacks ("callvalue" of a function-typed field or variable) are not invoked by the
   run thread: the functions it executes are closed under calls and contain no such call *)
Definition run_thread_funcs : list string :=
  ["Client.run"; "Client.runInner"; "clientRoutinePool.initialize"; "clientPrimaryDownloader.initialize";
   "clientRoutinePool.add"; "clientRoutinePool.errorChan"; "clientRoutinePool.close"].

Definition no_callvalue (l : list string) : bool :=
  forallb (fun t => negb (String.prefix "callvalue " t)) l.

Definition callbacks_ok (g : gen) : bool :=
  forallb (fun p => negb (mem_str (fst p) run_thread_funcs) || mem_str (snd p) run_thread_funcs) (g_calls g)
  && forallb (fun f => match lookup f (g_skel g) with Some l => no_callvalue l | None => true end) run_thread_funcs.

(* ---------- the complete check ---------- *)
Definition op_ok (g : gen) (o : blockop) : bool :=
  (op_rule g o || allowed g o)
  && (negb (pool_op o) || cancel_wakes g (fun _ => true) o).

Definition all_cancellable (g : gen) : bool :=
  forallb (op_ok g) (g_ops g)
  && forallb (fun a => Nat.eqb (count_matches g a) (al_count a)) allow_list
  && ctx_flow_ok g
  && locks_ok g
  && go_ok g
  && cancels_ok g
  && skel_ok g
  && callbacks_ok g.
