(* Checking functions over a generated access table: the complete pair check without
   materialising the product, the exclusion of recorded findings, reporting helpers. *)
From Coq Require Import List String Bool Arith.
From GoHls Require Import Model.Lockset Model.LocksetFindings.
Import ListNotations.
Local Open Scope string_scope.

(* the unsafe pairs, without materialising the product *)
Definition unsafe_list (T : list access) : list (access * access) :=
  flat_map (fun a => flat_map (fun b => if pair_safe (a, b) then [] else [(a, b)]) T) T.

Definition name_of (names : list string) (i : nat) : string := nth i names "?".

Section Named.
  Variables locs fns : list string.

  (* does the pair (a, b) realise the finding (field, writer function, other function)? *)
  Definition matches (e : finding) (p : access * access) : bool :=
    let '(f, wf, ofn) := e in
    let (a, b) := p in
    String.eqb (name_of locs (a_loc a)) f &&
    ((a_write a && String.eqb (name_of fns (a_fn a)) wf && String.eqb (name_of fns (a_fn b)) ofn)
     || (a_write b && String.eqb (name_of fns (a_fn b)) wf && String.eqb (name_of fns (a_fn a)) ofn)).

  Definition excluded (K : list finding) (p : access * access) : bool :=
    existsb (fun e => matches e p) K.

  Definition pair_ok (K : list finding) (p : access * access) : bool :=
    if pair_safe p then true else excluded K p.

  Definition table_okb_ex (K : list finding) (T : list access) : bool :=
    forallb (fun a => forallb (fun b => pair_ok K (a, b)) T) T.

  (* every finding of K is realised by an unsafe pair of the table *)
  Definition findings_real (T : list access) (K : list finding) : bool :=
    let U := unsafe_list T in forallb (fun e => existsb (matches e) U) K.

  (* the (field, writer function, other function) of an unsafe pair, writer first *)
  Definition sig_of (p : access * access) : finding :=
    let (a, b) := p in
    if a_write a
    then (name_of locs (a_loc a), name_of fns (a_fn a), name_of fns (a_fn b))
    else (name_of locs (a_loc a), name_of fns (a_fn b), name_of fns (a_fn a)).

  Definition finding_eqb (x y : finding) : bool :=
    let '(a, b, c) := x in let '(a', b', c') := y in
    String.eqb a a' && String.eqb b b' && String.eqb c c'.

  Fixpoint dedupe (l : list finding) : list finding :=
    match l with
    | [] => []
    | x :: r => if existsb (finding_eqb x) r then dedupe r else x :: dedupe r
    end.

  Definition unsafe_sigs (T : list access) : list finding := dedupe (map sig_of (unsafe_list T)).

  (* the unsafe pairs of the table are exactly the findings K, as sets of signatures *)
  Definition unsafe_exactly (T : list access) (K : list finding) : bool :=
    let U := unsafe_sigs T in
    forallb (fun s => existsb (finding_eqb s) K) U && forallb (fun e => existsb (finding_eqb e) U) K.
End Named.

Definition table_okb (T : list access) : bool :=
  forallb (fun a => forallb (fun b => pair_safe (a, b)) T) T.

(* atomic views: every reader-role row of the playlist generators holds the muxer mutex (0) *)
Definition holds_mu (a : access) : bool :=
  existsb (fun l => Nat.eqb (fst l) 0 && is_excl (snd l)) (a_locks a).
Definition is_reader (a : access) : bool := match a_role a with Reader => true | _ => false end.
Definition gen_under_mutex (gen : list nat) (T : list access) : bool :=
  forallb (fun a => if is_reader a && existsb (Nat.eqb (a_fn a)) gen then holds_mu a else true) T.
Definition gen_rows (gen : list nat) (T : list access) : nat :=
  List.length (filter (fun a => is_reader a && existsb (Nat.eqb (a_fn a)) gen) T).
