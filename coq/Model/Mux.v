(* M3 - sequential muxer core: executable model (definitions only).

   Transcribed Go (names kept):
     muxer.go             Start, createFirstSegment, rotatePartsInner, rotateSegmentsInner, bandwidth,
                          generateMultivariantPlaylist
     muxer_segmenter.go   multiplyAndDivide, durationToTimestamp, timestampToDuration,
                          partDurationIsCompatible, findCompatiblePartDuration, fmp4AdjustPartDuration,
                          write{H264,H265,VP9,AV1,Opus,MPEG4Audio} (after byte parsing), fmp4WriteSample
     muxer_stream.go      hasContent, targetDuration, partTargetDuration, createFirstSegment, rotateParts,
                          rotateSegments, generateMediaPlaylist{MPEGTS,FMP4}, populateMultivariantPlaylist
     muxer_part.go        writeSample, finalize     muxer_segment_*.go  finalize, writeH264, writeMPEG4Audio
     muxer_server.go      path table

   One writer; requests are evaluated between writes (the concurrent layer is Model/MuxConc*.v).
   Inputs are access units AFTER the byte-level front end: the harness builds real NALUs / frames /
   OBUs that make the front end derive exactly the flags given here.
   Oracles (not modelled): fMP4 / MPEG-TS byte encoding, SPS / sequence-header parsing, DTS extraction,
   storage (C17). URIs are structural (stream, kind, number); their text form is checked by the harness. *)
From Coq Require Import List ZArith Bool Lia.
Import ListNotations.
Local Open Scope Z_scope.

(* ---------------------------------------------------------------- results *)
Inductive res (A : Type) :=
| Ok (a : A)
| Err (e : nat)      (* 1 start rejected; 2 maximum segment size reached *)
| Panic (p : nat).   (* 1 integer divide by zero in bandwidth() *)
Arguments Ok {A}. Arguments Err {A}. Arguments Panic {A}.

(* ---------------------------------------------------------------- arithmetic *)
Definition mulDiv (v m d : Z) : Z := Z.quot v d * m + Z.quot (Z.rem v d * m) d.
Definition second : Z := 1000000000.
Definition millisecond : Z := 1000000.
Definition durationToTimestamp (d rate : Z) : Z := mulDiv d rate second.
Definition timestampToDuration (t rate : Z) : Z := mulDiv t second rate.
Definition fmp4StartDTS : Z := 10 * second.
Definition mpegtsSegmentMinAUCount : Z := 100.
Definition u32 (x : Z) : Z := x mod 4294967296.

Definition partDurationIsCompatible (partDuration sampleDuration : Z) : bool :=
  if partDuration <? sampleDuration then false
  else
    let f0 := Z.quot partDuration sampleDuration in
    let f1 := if Z.rem partDuration sampleDuration =? 0 then f0 else f0 + 1 in
    let f := f1 * sampleDuration in
    Z.quot (f * 85) 100 <? partDuration.

Definition compatibleWithAll (pd : Z) (sds : list Z) : bool :=
  forallb (partDurationIsCompatible pd) sds.

(* for i := min; i < 5 s; i += 5 ms *)
Fixpoint findCompat (fuel : nat) (i : Z) (sds : list Z) : Z :=
  match fuel with
  | O => i
  | S fuel' =>
      if 5 * second <=? i then i
      else if compatibleWithAll i sds then i
      else findCompat fuel' (i + 5 * millisecond) sds
  end.
Definition findCompatiblePartDuration (minPart : Z) (sds : list Z) : Z :=
  findCompat 1001 minPart sds.

(* int(math.Round(d.Seconds())) for d >= 0 *)
Definition roundSeconds (d : Z) : Z := (d + 500000000) / second.
(* d.Round(10 * time.Microsecond) for d >= 0: half away from zero, to the resolution of EXTINF *)
Definition round10us (d : Z) : Z := ((d + 5000) / 10000) * 10000.
(* time.Millisecond * ceil(d / ms) for d >= 0 *)
Definition ceilMs (d : Z) : Z := ((d + 999999) / millisecond) * millisecond.

(* ---------------------------------------------------------------- configuration *)
Inductive variant := MPEGTS | FMP4 | LL.
Inductive ckind := H264 | H265 | VP9 | AV1 | AAC | OPUS.

Definition variant_eqb (a b : variant) : bool :=
  match a, b with MPEGTS, MPEGTS | FMP4, FMP4 | LL, LL => true | _, _ => false end.
Definition isVideo (k : ckind) : bool :=
  match k with H264 | H265 | VP9 | AV1 => true | _ => false end.

Record tcfg := {
  t_kind : ckind;
  t_rate : Z;        (* Track.ClockRate *)
  t_srate : Z;       (* MPEG-4 Audio sample rate (init timescale; multi-AU spacing) *)
  t_name : Z;        (* 0 = no Name given *)
  t_lang : Z;        (* 0 = no Language *)
  t_default : bool;
  t_params0 : Z      (* id of the initial codec parameters *)
}.

Record cfg := {
  c_variant : variant;
  c_tracks : list tcfg;
  c_segcount : Z;
  c_segmin : Z;      (* ns *)
  c_partmin : Z;     (* ns *)
  c_segmax : Z       (* bytes *)
}.

Definition fmp4TimeScale (t : tcfg) : Z :=
  match t_kind t with AAC => t_srate t | OPUS => 48000 | _ => 90000 end.

(* ---------------------------------------------------------------- inputs *)
(* one access unit / frame / temporal unit, or one audio write of several units *)
Record au := {
  a_pts : Z;
  a_dts : Z;             (* video: what the DTS extractor returns; audio: = pts *)
  a_ntp : Z;             (* ns since the epoch *)
  a_ra : bool;           (* IDR / IRAP / key frame / sequence header present *)
  a_nonidr : bool;       (* H264 only: a non-IDR slice is present *)
  a_params : option Z;   (* id of the parameter sets carried in-band, if any *)
  a_units : list (Z * Z * Z * Z)
     (* video: one entry (payload id, fMP4 payload bytes, MPEG-TS payload bytes, 0);
        audio: one entry per AU / packet: (payload id, bytes, bytes, duration in 48 kHz ticks (Opus)) *)
}.

Inductive wop := WWrite (track : nat) (a : au).

(* ---------------------------------------------------------------- state *)
Record sample := {
  s_dts : Z;          (* with the +10 s offset, track clock *)
  s_ptsoff : Z;
  s_dur : Z;
  s_nonsync : bool;
  s_ntp : Z;
  s_pay : Z;
  s_size : Z
}.

Record part := {
  p_id : Z;
  p_start : Z;        (* ns *)
  p_end : Z;
  p_indep : bool;
  p_hastrack : bool;  (* a PartTrack was emitted (the track had samples) *)
  p_base : Z;         (* BaseTime of that PartTrack *)
  p_samples : list sample
}.

Record tsunit := { u_track : nat; u_pts : Z; u_dts : Z; u_ra : bool; u_pays : list (Z * Z) }.

Record segrec := {
  sg_gap : bool;
  sg_id : Z;
  sg_ntp : Z;
  sg_start : Z;       (* ns *)
  sg_end : Z;
  sg_forced : bool;
  sg_size : Z;        (* media payload bytes accounted against SegmentMaxSize *)
  sg_parts : list part;       (* storage parts in order; LL lists them *)
  sg_units : list tsunit;     (* MPEG-TS *)
  sg_aucount : Z
}.

Definition sg_dur (s : segrec) : Z := sg_end s - sg_start s.
Definition p_dur (p : part) : Z := p_end p - p_start p.

Definition mkgap (d : Z) : segrec :=
  {| sg_gap := true; sg_id := -1; sg_ntp := 0; sg_start := 0; sg_end := d; sg_forced := false;
     sg_size := 0; sg_parts := []; sg_units := []; sg_aucount := 0 |}.

Inductive pathkey :=
| KIndex
| KPlaylist (s : nat)
| KInit (s : nat)
| KSeg (s : nat) (id : Z)
| KPart (s : nat) (id : Z).
Inductive hkind := HStatic | HPart | HHint.

Definition pathkey_eqb (a b : pathkey) : bool :=
  match a, b with
  | KIndex, KIndex => true
  | KPlaylist x, KPlaylist y | KInit x, KInit y => Nat.eqb x y
  | KSeg x i, KSeg y j | KPart x i, KPart y j => Nat.eqb x y && (i =? j)
  | _, _ => false
  end.

Definition ptable := list (pathkey * hkind).
Fixpoint unregister (t : ptable) (k : pathkey) : ptable :=
  match t with
  | [] => []
  | (k', h) :: t' => if pathkey_eqb k k' then unregister t' k else (k', h) :: unregister t' k
  end.
Definition register (t : ptable) (k : pathkey) (h : hkind) : ptable := unregister t k ++ [(k, h)].
Fixpoint lookup (t : ptable) (k : pathkey) : option hkind :=
  match t with
  | [] => None
  | (k', h) :: t' => if pathkey_eqb k k' then Some h else lookup t' k
  end.

Record trk := {
  tk_cfg : tcfg;
  tk_leading : bool;
  tk_stream : nat;
  tk_firstRA : bool;            (* firstRandomAccessReceived *)
  tk_params : Z;                (* current codec parameters *)
  tk_next : option sample;      (* fmp4NextSample *)
  tk_samples : option (list sample);   (* fmp4Samples (None = nil) *)
  tk_start : Z                  (* fmp4StartDTS of the part track *)
}.

Record stream := {
  st_tracks : list nat;
  st_isvideo : bool;
  st_num : Z;                   (* i+1 of "video<i+1>" / "audio<i+1>"; 0 for "main" *)
  st_leading : bool;
  st_rendition : bool;
  st_default : bool;
  st_name : Z;                  (* 0 = the stream id is used *)
  st_lang : Z;
  st_nextSeg : Z;
  st_nextPart : Z;
  st_segments : list segrec;
  st_open : option segrec;      (* nextSegment *)
  st_openpart : option part;    (* nextPart *)
  st_init : option (list Z);    (* parameter ids captured by the cached init file *)
  st_delcount : Z;
  st_target : Z;
  st_parttarget : Z;
  st_evicted : list segrec      (* ghost: segments dropped from the head, oldest first *)
}.

Record mstate := {
  m_cfg : cfg;
  m_tracks : list trk;
  m_streams : list stream;
  m_pending : bool;             (* pendingParamsChange *)
  m_sdurs : list Z;             (* fmp4SampleDurations (set) *)
  m_adj : Z;                    (* fmp4AdjustedPartDuration *)
  m_freeze : bool;
  m_paths : ptable;
  m_errs : Z                    (* ghost: number of OnEncodeError calls *)
}.

(* ---------------------------------------------------------------- list helpers *)
Fixpoint upd {A} (l : list A) (i : nat) (f : A -> A) : list A :=
  match l, i with
  | [], _ => []
  | x :: l', O => f x :: l'
  | x :: l', S i' => x :: upd l' i' f
  end.

Definition set_stream (m : mstate) (streams : list stream) : mstate :=
  {| m_cfg := m_cfg m; m_tracks := m_tracks m; m_streams := streams; m_pending := m_pending m;
     m_sdurs := m_sdurs m; m_adj := m_adj m; m_freeze := m_freeze m; m_paths := m_paths m;
     m_errs := m_errs m |}.
Definition set_tracks (m : mstate) (tracks : list trk) : mstate :=
  {| m_cfg := m_cfg m; m_tracks := tracks; m_streams := m_streams m; m_pending := m_pending m;
     m_sdurs := m_sdurs m; m_adj := m_adj m; m_freeze := m_freeze m; m_paths := m_paths m;
     m_errs := m_errs m |}.
Definition set_paths (m : mstate) (p : ptable) : mstate :=
  {| m_cfg := m_cfg m; m_tracks := m_tracks m; m_streams := m_streams m; m_pending := m_pending m;
     m_sdurs := m_sdurs m; m_adj := m_adj m; m_freeze := m_freeze m; m_paths := p;
     m_errs := m_errs m |}.
Definition set_pending (m : mstate) (b : bool) : mstate :=
  {| m_cfg := m_cfg m; m_tracks := m_tracks m; m_streams := m_streams m; m_pending := b;
     m_sdurs := m_sdurs m; m_adj := m_adj m; m_freeze := m_freeze m; m_paths := m_paths m;
     m_errs := m_errs m |}.
Definition set_adj (m : mstate) (sdurs : list Z) (adj : Z) (freeze : bool) : mstate :=
  {| m_cfg := m_cfg m; m_tracks := m_tracks m; m_streams := m_streams m; m_pending := m_pending m;
     m_sdurs := sdurs; m_adj := adj; m_freeze := freeze; m_paths := m_paths m;
     m_errs := m_errs m |}.
Definition add_err (m : mstate) : mstate :=
  {| m_cfg := m_cfg m; m_tracks := m_tracks m; m_streams := m_streams m; m_pending := m_pending m;
     m_sdurs := m_sdurs m; m_adj := m_adj m; m_freeze := m_freeze m; m_paths := m_paths m;
     m_errs := m_errs m + 1 |}.

Definition upd_track (m : mstate) (i : nat) (f : trk -> trk) : mstate :=
  set_tracks m (upd (m_tracks m) i f).
Definition upd_stream (m : mstate) (i : nat) (f : stream -> stream) : mstate :=
  set_stream m (upd (m_streams m) i f).

Definition tk_with (t : trk) (firstRA : bool) (params : Z) (next : option sample)
           (samples : option (list sample)) (start : Z) : trk :=
  {| tk_cfg := tk_cfg t; tk_leading := tk_leading t; tk_stream := tk_stream t;
     tk_firstRA := firstRA; tk_params := params; tk_next := next; tk_samples := samples;
     tk_start := start |}.

Record stmut := {   (* the mutable part of a stream, to keep updates readable *)
  x_nextSeg : Z; x_nextPart : Z; x_segments : list segrec; x_open : option segrec;
  x_openpart : option part; x_init : option (list Z); x_delcount : Z; x_target : Z;
  x_parttarget : Z; x_evicted : list segrec
}.
Definition st_mut (s : stream) : stmut :=
  {| x_nextSeg := st_nextSeg s; x_nextPart := st_nextPart s; x_segments := st_segments s;
     x_open := st_open s; x_openpart := st_openpart s; x_init := st_init s;
     x_delcount := st_delcount s; x_target := st_target s; x_parttarget := st_parttarget s;
     x_evicted := st_evicted s |}.
Definition st_with (s : stream) (x : stmut) : stream :=
  {| st_tracks := st_tracks s; st_isvideo := st_isvideo s; st_num := st_num s;
     st_leading := st_leading s; st_rendition := st_rendition s; st_default := st_default s;
     st_name := st_name s; st_lang := st_lang s;
     st_nextSeg := x_nextSeg x; st_nextPart := x_nextPart x; st_segments := x_segments x;
     st_open := x_open x; st_openpart := x_openpart x; st_init := x_init x;
     st_delcount := x_delcount x; st_target := x_target x; st_parttarget := x_parttarget x;
     st_evicted := x_evicted x |}.

(* ---------------------------------------------------------------- Start *)
Definition count_video (ts : list tcfg) : nat := length (filter (fun t => isVideo (t_kind t)) ts).
Definition count_audio (ts : list tcfg) : nat := length (filter (fun t => negb (isVideo (t_kind t))) ts).
Definition count_default_audio (ts : list tcfg) : nat :=
  length (filter (fun t => negb (isVideo (t_kind t)) && t_default t) ts).

Definition norm_cfg (c : cfg) : cfg :=
  {| c_variant := c_variant c; c_tracks := c_tracks c;
     c_segcount := if c_segcount c =? 0 then 7 else c_segcount c;
     c_segmin := if c_segmin c =? 0 then second else c_segmin c;
     c_partmin := if c_partmin c =? 0 then 200 * millisecond else c_partmin c;
     c_segmax := if c_segmax c =? 0 then 50 * 1024 * 1024 else c_segmax c |}.

Definition start_ok (c : cfg) : bool :=
  negb (Nat.eqb (length (c_tracks c)) 0) &&
  (match c_variant c with
   | MPEGTS =>
       Nat.leb (count_video (c_tracks c)) 1 && Nat.leb (count_audio (c_tracks c)) 1 &&
       forallb (fun t => match t_kind t with H264 | AAC => true | _ => false end) (c_tracks c)
   | _ => Nat.leb (count_video (c_tracks c)) 1
   end) &&
  Nat.leb (count_default_audio (c_tracks c)) 1 &&
  (match c_variant c with LL => 7 <=? c_segcount c | _ => 3 <=? c_segcount c end).

Definition hasVideo (c : cfg) : bool := negb (Nat.eqb (count_video (c_tracks c)) 0).
Definition hasDefaultAudio (c : cfg) : bool := negb (Nat.eqb (count_default_audio (c_tracks c)) 0).

Definition track_leading (c : cfg) (i : nat) (t : tcfg) : bool :=
  isVideo (t_kind t) || (negb (hasVideo c) && Nat.eqb i 0).

(* isRendition := !track.isLeading || (!isVideo(track.Codec) && len(m.Tracks) > 1) *)
Definition is_rend (c : cfg) (i : nat) (t : tcfg) : bool :=
  negb (track_leading c i t) || (negb (isVideo (t_kind t)) && Nat.ltb 1 (length (c_tracks c))).

Definition mk_stream (tracks : list nat) (isvideo : bool) (num : Z) (leading rendition dflt : bool)
           (name lang nextSeg : Z) : stream :=
  {| st_tracks := tracks; st_isvideo := isvideo; st_num := num; st_leading := leading;
     st_rendition := rendition; st_default := dflt; st_name := name; st_lang := lang;
     st_nextSeg := nextSeg; st_nextPart := 0; st_segments := []; st_open := None;
     st_openpart := None; st_init := None; st_delcount := 0; st_target := 0; st_parttarget := 0;
     st_evicted := [] |}.

(* the per-track streams of the fMP4 variants; [chosen] = defaultAudioChosen *)
Fixpoint mk_streams (c : cfg) (i : nat) (ts : list tcfg) (chosen : bool) (nextSeg : Z) : list stream :=
  match ts with
  | [] => []
  | t :: ts' =>
      let leading := track_leading c i t in
      let rendition := is_rend c i t in
      let '(dflt, chosen') :=
        if rendition then
          if negb (hasDefaultAudio c) then (negb chosen, true) else (t_default t, chosen)
        else (false, chosen) in
      let name := if rendition then t_name t else 0 in
      mk_stream [i] (isVideo (t_kind t)) (Z.of_nat i + 1) leading rendition dflt name (t_lang t) nextSeg
      :: mk_streams c (S i) ts' chosen' nextSeg
  end.

Fixpoint mk_tracks (c : cfg) (i : nat) (ts : list tcfg) : list trk :=
  match ts with
  | [] => []
  | t :: ts' =>
      {| tk_cfg := t; tk_leading := track_leading c i t;
         tk_stream := match c_variant c with MPEGTS => O | _ => i end;
         tk_firstRA := false; tk_params := t_params0 t; tk_next := None; tk_samples := None;
         tk_start := 0 |} :: mk_tracks c (S i) ts'
  end.

Definition start (c0 : cfg) : res mstate :=
  let c := norm_cfg c0 in
  if negb (start_ok c) then Err 1 else
  let nextSeg := match c_variant c with LL => 7 | _ => 0 end in
  let streams :=
    match c_variant c with
    | MPEGTS => [mk_stream (seq 0 (length (c_tracks c))) false 0 true false false 0 0 nextSeg]
    | _ => mk_streams c 0 (c_tracks c) false nextSeg
    end in
  Ok {| m_cfg := c; m_tracks := mk_tracks c 0 (c_tracks c); m_streams := streams;
        m_pending := false; m_sdurs := []; m_adj := 0; m_freeze := false;
        m_paths := (KIndex, HStatic) :: map (fun i => (KPlaylist i, HStatic)) (seq 0 (length streams));
        m_errs := 0 |}.

(* ---------------------------------------------------------------- stream operations *)
Definition listed_parts (v : variant) (s : segrec) : list part :=
  match v with LL => sg_parts s | _ => [] end.

(* since fix 69594d6 never below 1: a zero EXT-X-TARGETDURATION is read as "not set" by clients *)
Definition targetDuration (segs : list segrec) : Z :=
  Z.max 1 (fold_left (fun acc s => Z.max acc (roundSeconds (round10us (sg_dur s)))) segs 0).

Definition partTargetDuration (v : variant) (segs : list segrec) (openparts : list part) : Z :=
  let m1 := fold_left (fun acc s =>
                         fold_left (fun a p => Z.max a (p_dur p)) (listed_parts v s) acc) segs 0 in
  ceilMs (fold_left (fun a p => Z.max a (p_dur p)) openparts m1).

Definition new_part (id start : Z) : part :=
  {| p_id := id; p_start := start; p_end := 0; p_indep := false; p_hastrack := false; p_base := 0;
     p_samples := [] |}.

Definition new_seg (id ntp start : Z) (forced : bool) : segrec :=
  {| sg_gap := false; sg_id := id; sg_ntp := ntp; sg_start := start; sg_end := 0; sg_forced := forced;
     sg_size := 0; sg_parts := []; sg_units := []; sg_aucount := 0 |}.

Definition sg_with_parts (s : segrec) (parts : list part) : segrec :=
  {| sg_gap := sg_gap s; sg_id := sg_id s; sg_ntp := sg_ntp s; sg_start := sg_start s; sg_end := sg_end s;
     sg_forced := sg_forced s; sg_size := sg_size s; sg_parts := parts; sg_units := sg_units s;
     sg_aucount := sg_aucount s |}.
Definition sg_with_end (s : segrec) (e : Z) : segrec :=
  {| sg_gap := sg_gap s; sg_id := sg_id s; sg_ntp := sg_ntp s; sg_start := sg_start s; sg_end := e;
     sg_forced := sg_forced s; sg_size := sg_size s; sg_parts := sg_parts s; sg_units := sg_units s;
     sg_aucount := sg_aucount s |}.
Definition sg_with_size (s : segrec) (sz : Z) : segrec :=
  {| sg_gap := sg_gap s; sg_id := sg_id s; sg_ntp := sg_ntp s; sg_start := sg_start s; sg_end := sg_end s;
     sg_forced := sg_forced s; sg_size := sz; sg_parts := sg_parts s; sg_units := sg_units s;
     sg_aucount := sg_aucount s |}.

(* muxerStream.createFirstSegment *)
Definition stream_createFirst (v : variant) (s : stream) (dts ntp : Z) : stream :=
  let x := st_mut s in
  st_with s {| x_nextSeg := x_nextSeg x; x_nextPart := x_nextPart x; x_segments := x_segments x;
               x_open := Some (new_seg (x_nextSeg x) ntp dts false);
               x_openpart := match v with MPEGTS => None | _ => Some (new_part (x_nextPart x) dts) end;
               x_init := x_init x; x_delcount := x_delcount x; x_target := x_target x;
               x_parttarget := x_parttarget x; x_evicted := x_evicted x |}.

Definition createFirstSegment (m : mstate) (dts ntp : Z) : mstate :=
  set_stream m (map (fun s => stream_createFirst (c_variant (m_cfg m)) s dts ntp) (m_streams m)).

(* muxerPart.finalize: drains the samples of the stream's (single) fMP4 track.
   Returns the finalized part and the updated track list. *)
Definition part_finalize (p : part) (tracks : list trk) (stracks : list nat) (endDTS : Z)
  : part * list trk :=
  match stracks with
  | ti :: _ =>
      match nth_error tracks ti with
      | Some t =>
          match tk_samples t with
          | Some ss =>
              ({| p_id := p_id p; p_start := p_start p; p_end := endDTS; p_indep := p_indep p;
                  p_hastrack := true; p_base := tk_start t; p_samples := ss |},
               upd tracks ti (fun t => tk_with t (tk_firstRA t) (tk_params t) (tk_next t) None (tk_start t)))
          | None =>
              ({| p_id := p_id p; p_start := p_start p; p_end := endDTS; p_indep := p_indep p;
                  p_hastrack := false; p_base := 0; p_samples := [] |}, tracks)
          end
      | None =>
          ({| p_id := p_id p; p_start := p_start p; p_end := endDTS; p_indep := p_indep p;
              p_hastrack := false; p_base := 0; p_samples := [] |}, tracks)
      end
  | [] =>
      ({| p_id := p_id p; p_start := p_start p; p_end := endDTS; p_indep := p_indep p;
          p_hastrack := false; p_base := 0; p_samples := [] |}, tracks)
  end.

(* ---- stream-level components of the rotations (pure functions of the stream) ---- *)

(* muxerStream.rotateParts, stream part: [p] is the finalized part *)
Definition srot_parts (v : variant) (s : stream) (seg : segrec) (p : part) (nextDTS : Z)
           (createNew : bool) : stream * bool :=
  let x := st_mut s in
  let nextPartID := x_nextPart x + 1 in
  let seg' := sg_with_parts seg (sg_parts seg ++ [p]) in
  let openpart' := if createNew then Some (new_part nextPartID nextDTS) else None in
  let pt := partTargetDuration v (x_segments x) (listed_parts v seg') in
  let '(parttarget', bump) :=
    if st_leading s then
      if x_parttarget x =? 0 then (pt, false)
      else if pt =? x_parttarget x then (x_parttarget x, false) else (pt, true)
    else (x_parttarget x, false) in
  (st_with s {| x_nextSeg := x_nextSeg x; x_nextPart := nextPartID;
                x_segments := x_segments x; x_open := Some seg';
                x_openpart := openpart'; x_init := x_init x;
                x_delcount := x_delcount x; x_target := x_target x;
                x_parttarget := parttarget'; x_evicted := x_evicted x |}, bump).

Definition paths_rot_parts (v : variant) (t : ptable) (si : nat) (partID nextPartID : Z) : ptable :=
  match v with
  | LL => register (register t (KPart si partID) HPart) (KPart si nextPartID) HHint
  | _ => t
  end.

(* muxerStream.rotateParts; [si] is the stream's index (for path keys) *)
Definition stream_rotateParts (m : mstate) (si : nat) (nextDTS : Z) (createNew : bool) : mstate :=
  match nth_error (m_streams m) si with
  | None => m
  | Some s =>
      let v := c_variant (m_cfg m) in
      match st_openpart s, st_open s with
      | Some p0, Some seg =>
          let '(p, tracks') := part_finalize p0 (m_tracks m) (st_tracks s) nextDTS in
          let '(s', bump) := srot_parts v s seg p nextDTS createNew in
          let paths' := paths_rot_parts v (m_paths m) si (p_id p) (st_nextPart s + 1) in
          let m1 := set_paths (set_tracks (set_stream m (upd (m_streams m) si (fun _ => s'))) tracks') paths' in
          if bump then add_err m1 else m1
      | _, _ => m   (* Go would dereference nil: unreachable, see mux_open_inv *)
      end
  end.

Definition unregister_parts (t : ptable) (si : nat) (parts : list part) : ptable :=
  fold_left (fun t p => unregister t (KPart si (p_id p))) parts t.

(* the window after appending [seg]: gaps on the first LL rotation, eviction of the head *)
Definition with_gaps (v : variant) (segs : list segrec) (seg : segrec) : list segrec :=
  match v, segs with
  | LL, [] => repeat (mkgap (sg_dur seg)) 7     (* initial gaps, required by iOS LL-HLS *)
  | _, l => l
  end.

Definition window_append (v : variant) (segcount : Z) (segs : list segrec) (seg : segrec)
  : list segrec * option segrec :=
  let segs1 := with_gaps v segs seg ++ [seg] in
  if segcount <? Z.of_nat (length segs1) then
    match segs1 with
    | d :: rest => (rest, Some d)
    | [] => (segs1, None)
    end
  else (segs1, None).

(* muxerStream.rotateSegments after its rotateParts call, stream part.
   [cur_params] are the stream's tracks' current parameter ids (captured if the init is regenerated) *)
Definition srot_segments (v : variant) (segcount : Z) (s : stream) (seg0 : segrec)
           (nextDTS nextNTP : Z) (force : bool) (cur_params : list Z) : stream * bool * bool :=
  let x := st_mut s in
  let nextSegID := x_nextSeg x + 1 in
  let seg := sg_with_end seg0 nextDTS in
  let '(segs2, dropped) := window_append v segcount (x_segments x) seg in
  let '(del2, ev2) := match dropped with
                      | Some d => (x_delcount x + 1, x_evicted x ++ [d])
                      | None => (x_delcount x, x_evicted x)
                      end in
  let regen := negb (variant_eqb v MPEGTS) &&
               (match x_init x with None => true | Some _ => false end || sg_forced seg) in
  let init' := if regen then Some cur_params else x_init x in
  let open' := new_seg nextSegID nextNTP nextDTS (match v with MPEGTS => false | _ => force end) in
  let openpart' := match v with MPEGTS => None | _ => Some (new_part (x_nextPart x) nextDTS) end in
  let td := targetDuration segs2 in
  let '(target', bump) :=
    if st_leading s then
      if x_target x =? 0 then (td, false)
      else if x_target x <? td then (td, true) else (x_target x, false)
    else (x_target x, false) in
  (st_with s {| x_nextSeg := nextSegID; x_nextPart := x_nextPart x;
                x_segments := segs2; x_open := Some open'; x_openpart := openpart';
                x_init := init'; x_delcount := del2; x_target := target';
                x_parttarget := x_parttarget x; x_evicted := ev2 |}, regen, bump).

Definition paths_rot_segments (v : variant) (segcount : Z) (t : ptable) (si : nat) (segs : list segrec)
           (seg : segrec) (regen : bool) : ptable :=
  let paths1 := register t (KSeg si (sg_id seg)) HStatic in
  let paths2 :=
    match snd (window_append v segcount segs seg) with
    | Some d =>
        let p1 := unregister_parts paths1 si (listed_parts v d) in
        if sg_gap d then p1 else unregister p1 (KSeg si (sg_id d))
    | None => paths1
    end in
  if regen then register paths2 (KInit si) HStatic else paths2.

(* muxerStream.rotateSegments *)
Definition stream_rotateSegments (m0 : mstate) (si : nat) (nextDTS nextNTP : Z) (force : bool) : mstate :=
  let v := c_variant (m_cfg m0) in
  let m := match v with MPEGTS => m0 | _ => stream_rotateParts m0 si nextDTS false end in
  match nth_error (m_streams m) si with
  | None => m
  | Some s =>
      match st_open s with
      | None => m
      | Some seg0 =>
          let cur := map (fun ti => match nth_error (m_tracks m) ti with
                                    | Some t => tk_params t | None => 0 end) (st_tracks s) in
          let '(s', regen, bump) :=
            srot_segments v (c_segcount (m_cfg m)) s seg0 nextDTS nextNTP force cur in
          let paths' := paths_rot_segments v (c_segcount (m_cfg m)) (m_paths m) si (st_segments s)
                                           (sg_with_end seg0 nextDTS) regen in
          let m1 := set_paths (set_stream m (upd (m_streams m) si (fun _ => s'))) paths' in
          if bump then add_err m1 else m1
      end
  end.

Definition leading_index (m : mstate) : nat :=
  let fix go (i : nat) (l : list stream) :=
    match l with
    | [] => O
    | s :: l' => if st_leading s then i else go (S i) l'
    end in
  go O (m_streams m).

Definition leading_stream (m : mstate) : option stream := nth_error (m_streams m) (leading_index m).

(* "for _, stream := range m.streams { if !stream.isLeading { rotate; copy the leading stream's
   target durations } }" *)
Definition copy_targets (both : bool) (l : stream) (s : stream) : stream :=
  if st_leading s then s
  else
    let x := st_mut s in
    st_with s {| x_nextSeg := x_nextSeg x; x_nextPart := x_nextPart x;
                 x_segments := x_segments x; x_open := x_open x;
                 x_openpart := x_openpart x; x_init := x_init x;
                 x_delcount := x_delcount x;
                 x_target := if both then st_target l else x_target x;
                 x_parttarget := st_parttarget l; x_evicted := x_evicted x |}.

Definition rotate_others (m1 : mstate) (f : mstate -> nat -> mstate) (both : bool) : mstate :=
  fold_left (fun m i =>
               match nth_error (m_streams m) i with
               | Some s =>
                   if st_leading s then m
                   else
                     let m' := f m i in
                     match leading_stream m' with
                     | Some l => upd_stream m' i (copy_targets both l)
                     | None => m'
                     end
               | None => m
               end)
            (seq 0 (length (m_streams m1))) m1.

(* Muxer.rotatePartsInner *)
Definition rotateParts (m : mstate) (nextDTS : Z) : mstate :=
  rotate_others (stream_rotateParts m (leading_index m) nextDTS true)
                (fun m i => stream_rotateParts m i nextDTS true) false.

(* Muxer.rotateSegmentsInner *)
Definition rotateSegments (m : mstate) (nextDTS nextNTP : Z) (force : bool) : mstate :=
  rotate_others (stream_rotateSegments m (leading_index m) nextDTS nextNTP force)
                (fun m i => stream_rotateSegments m i nextDTS nextNTP force) true.

(* ---------------------------------------------------------------- fMP4 sample path *)
Definition fmp4AdjustPartDuration (m : mstate) (sampleDuration : Z) : mstate :=
  match c_variant (m_cfg m) with
  | LL =>
      if m_freeze m then m
      else if sampleDuration =? 0 then m
      else if existsb (Z.eqb sampleDuration) (m_sdurs m) then m
      else
        let sds := sampleDuration :: m_sdurs m in
        set_adj m sds (findCompatiblePartDuration (c_partmin (m_cfg m)) sds) (m_freeze m)
  | _ => m
  end.

Definition stream_open_start (s : stream) : Z :=
  match st_open s with Some g => sg_start g | None => 0 end.
Definition stream_openpart_start (s : stream) : Z :=
  match st_openpart s with Some p => p_start p | None => 0 end.

(* muxerPart.writeSample on the open part of stream [si] *)
Definition part_writeSample (m : mstate) (ti si : nat) (smp : sample) : res mstate :=
  match nth_error (m_streams m) si, nth_error (m_tracks m) ti with
  | Some s, Some t =>
      match st_open s, st_openpart s with
      | Some seg, Some p =>
          if c_segmax (m_cfg m) <? sg_size seg + s_size smp then Err 2
          else
            let seg' := sg_with_size seg (sg_size seg + s_size smp) in
            let start' := match tk_samples t with None => s_dts smp | Some _ => tk_start t end in
            let indep' := if (tk_leading t || Nat.eqb (length (st_tracks s)) 1) && negb (s_nonsync smp)
                          then true else p_indep p in
            let p' := {| p_id := p_id p; p_start := p_start p; p_end := p_end p; p_indep := indep';
                         p_hastrack := p_hastrack p; p_base := p_base p; p_samples := p_samples p |} in
            let samples' := Some (match tk_samples t with None => [] | Some l => l end ++ [smp]) in
            let m1 := upd_track m ti (fun t => tk_with t (tk_firstRA t) (tk_params t) (tk_next t) samples' start') in
            Ok (upd_stream m1 si (fun s =>
                  let x := st_mut s in
                  st_with s {| x_nextSeg := x_nextSeg x; x_nextPart := x_nextPart x;
                               x_segments := x_segments x; x_open := Some seg';
                               x_openpart := Some p'; x_init := x_init x;
                               x_delcount := x_delcount x; x_target := x_target x;
                               x_parttarget := x_parttarget x; x_evicted := x_evicted x |}))
      | _, _ => Ok m
      end
  | _, _ => Ok m
  end.

(* muxerSegmenter.fmp4WriteSample. Returns the state reached and the call's result: Go mutates in
   place, so a failing call keeps what it did before failing. *)
Definition wres : Type := mstate * res unit.
Definition wok (m : mstate) : wres := (m, Ok tt).

Definition fmp4WriteSample (m : mstate) (ti : nat) (ra paramsChanged : bool) (smp0 : sample) : wres :=
  match nth_error (m_tracks m) ti with
  | None => wok m
  | Some t =>
      let rate := t_rate (tk_cfg t) in
      let dts := s_dts smp0 + durationToTimestamp fmp4StartDTS rate in
      if dts <? 0 then wok m else
      let incoming := {| s_dts := dts; s_ptsoff := s_ptsoff smp0; s_dur := 0; s_nonsync := s_nonsync smp0;
                         s_ntp := s_ntp smp0; s_pay := s_pay smp0; s_size := s_size smp0 |} in
      let m1 := upd_track m ti (fun t => tk_with t (tk_firstRA t) (tk_params t) (Some incoming)
                                                 (tk_samples t) (tk_start t)) in
      match tk_next t with
      | None => wok m1
      | Some prev =>
          let duration := dts - s_dts prev in
          let smp := {| s_dts := s_dts prev; s_ptsoff := s_ptsoff prev; s_dur := u32 duration;
                        s_nonsync := s_nonsync prev; s_ntp := s_ntp prev; s_pay := s_pay prev;
                        s_size := s_size prev |} in
          let si := tk_stream t in
          let opened := match nth_error (m_streams m1) si with
                        | Some s => match st_open s with Some _ => true | None => false end
                        | None => false end in
          if negb (tk_leading t) && negb opened then wok m1      (* wait for the leading track *)
          else
            let m2 := if tk_leading t && negb opened
                      then createFirstSegment m1 (timestampToDuration (s_dts smp) rate) (s_ntp smp)
                      else m1 in
            let m3 := if tk_leading t then fmp4AdjustPartDuration m2 (timestampToDuration duration rate)
                      else m2 in
            match part_writeSample m3 ti si smp with
            | Err e => (m3, Err e)
            | Panic p => (m3, Panic p)
            | Ok m4 =>
                if negb (tk_leading t) then wok m4
                else
                  match nth_error (m_streams m4) si with
                  | None => wok m4
                  | Some s =>
                      let nextD := timestampToDuration dts rate in
                      if ra && (paramsChanged || (c_segmin (m_cfg m4) <=? nextD - stream_open_start s)) then
                        let m5 := rotateSegments m4 nextD (s_ntp incoming) paramsChanged in
                        wok (if paramsChanged then set_adj m5 [] (m_adj m5) false
                             else set_adj m5 (m_sdurs m5) (m_adj m5) true)
                      else if variant_eqb (c_variant (m_cfg m4)) LL
                              && (m_adj m4 <=? nextD - stream_openpart_start s) then
                        wok (rotateParts m4 nextD)
                      else wok m4
                  end
            end
      end
  end.

(* ---------------------------------------------------------------- MPEG-TS segment writes *)
Definition sg_ts_write (seg : segrec) (u : tsunit) (size : Z) (endDTS : option Z) (incAU : bool) : segrec :=
  {| sg_gap := sg_gap seg; sg_id := sg_id seg; sg_ntp := sg_ntp seg; sg_start := sg_start seg;
     sg_end := match endDTS with Some e => e | None => sg_end seg end;
     sg_forced := sg_forced seg; sg_size := sg_size seg + size; sg_parts := sg_parts seg;
     sg_units := sg_units seg ++ [u];
     sg_aucount := if incAU then sg_aucount seg + 1 else sg_aucount seg |}.

Definition ts_write (m : mstate) (si : nat) (u : tsunit) (size : Z) (endDTS : option Z) (incAU : bool)
  : wres :=
  match nth_error (m_streams m) si with
  | Some s =>
      match st_open s with
      | Some seg =>
          if c_segmax (m_cfg m) <? sg_size seg + size then (m, Err 2)
          else wok (upd_stream m si (fun s =>
                 let x := st_mut s in
                 st_with s {| x_nextSeg := x_nextSeg x; x_nextPart := x_nextPart x;
                              x_segments := x_segments x;
                              x_open := Some (sg_ts_write seg u size endDTS incAU);
                              x_openpart := x_openpart x; x_init := x_init x;
                              x_delcount := x_delcount x; x_target := x_target x;
                              x_parttarget := x_parttarget x; x_evicted := x_evicted x |}))
      | None => wok m
      end
  | None => wok m
  end.

(* ---------------------------------------------------------------- codec front ends *)
Definition sum4 (f : Z * Z * Z * Z -> Z) (l : list (Z * Z * Z * Z)) : Z :=
  fold_left (fun a x => a + f x) l 0.
Definition u_id (x : Z * Z * Z * Z) : Z := let '(a, _, _, _) := x in a.
Definition u_fsize (x : Z * Z * Z * Z) : Z := let '(_, b, _, _) := x in b.
Definition u_tsize (x : Z * Z * Z * Z) : Z := let '(_, _, c, _) := x in c.
Definition u_opusdur (x : Z * Z * Z * Z) : Z := let '(_, _, _, d) := x in d.

(* parameter bookkeeping shared by the video front ends; returns (state, paramsChanged) *)
Definition video_params (m : mstate) (ti : nat) (t : trk) (a : au) (examine : bool) : mstate * bool :=
  let m1 :=
    match a_params a with
    | Some p =>
        if examine && negb (p =? tk_params t)
        then set_pending (upd_track m ti (fun t => tk_with t (tk_firstRA t) p (tk_next t)
                                                           (tk_samples t) (tk_start t))) true
        else m
    | None => m
    end in
  if a_ra a && m_pending m1 then (set_pending m1 false, true) else (m1, false).

Definition video_sample (a : au) : sample :=
  {| s_dts := a_dts a; s_ptsoff := a_pts a - a_dts a; s_dur := 0; s_nonsync := negb (a_ra a);
     s_ntp := a_ntp a;
     s_pay := match a_units a with x :: _ => u_id x | [] => 0 end;
     s_size := match a_units a with x :: _ => u_fsize x | [] => 0 end |}.

Definition set_firstRA (m : mstate) (ti : nat) : mstate :=
  upd_track m ti (fun t => tk_with t true (tk_params t) (tk_next t) (tk_samples t) (tk_start t)).

(* writeH264 / writeH265 / writeVP9 / writeAV1 after byte parsing *)
Definition write_video (m : mstate) (ti : nat) (t : trk) (a : au) : wres :=
  let k := t_kind (tk_cfg t) in
  let rate := t_rate (tk_cfg t) in
  (* H264/H265 compare parameter sets on every unit; VP9 only on key frames; AV1 with the sequence header *)
  let examine := match k with H264 | H265 => true | _ => a_ra a end in
  let '(m1, paramsChanged0) := video_params m ti t a examine in
  match k with
  | H264 =>
      (* an access unit with neither IDR nor non-IDR slices returns here (the parameter sets it
         carried have been recorded, the pending flag is not consumed since it is not random access) *)
      if negb (a_ra a) && negb (a_nonidr a) then wok m1
      else
        if negb (tk_firstRA t) && negb (a_ra a) then wok m1 else
        let m2 := set_firstRA m1 ti in
        match c_variant (m_cfg m) with
        | MPEGTS =>
            let si := tk_stream t in
            let d := timestampToDuration (a_dts a) rate in
            let opened := match nth_error (m_streams m2) si with
                          | Some s => match st_open s with Some _ => true | None => false end
                          | None => false end in
            let m3 :=
              if negb opened then createFirstSegment m2 d (a_ntp a)
              else
                match nth_error (m_streams m2) si with
                | Some s =>
                    if a_ra a && ((c_segmin (m_cfg m2) <=? d - stream_open_start s) || paramsChanged0)
                    then rotateSegments m2 d (a_ntp a) false else m2
                | None => m2
                end in
            ts_write m3 si
                     {| u_track := ti; u_pts := mulDiv (a_pts a) 90000 rate; u_dts := mulDiv (a_dts a) 90000 rate;
                        u_ra := a_ra a; u_pays := map (fun x => (u_id x, u_tsize x)) (a_units a) |}
                     (sum4 u_tsize (a_units a)) (Some d) false
        | _ => fmp4WriteSample m2 ti (a_ra a) paramsChanged0 (video_sample a)
        end
  | _ => (* H265, VP9, AV1 (AV1 gated since fix 'skip AV1 temporal units until the first random-access one') *)
      if negb (tk_firstRA t) && negb (a_ra a) then wok m1 else
      fmp4WriteSample (set_firstRA m1 ti) ti (a_ra a) paramsChanged0 (video_sample a)
  end.

(* writeOpus / writeMPEG4Audio (fMP4): one sample per packet / AU *)
Fixpoint write_audio_units (m : mstate) (ti : nat) (k : ckind) (rate srate : Z) (i : Z)
         (pts ntp : Z) (units : list (Z * Z * Z * Z)) : wres :=
  match units with
  | [] => wok m
  | x :: units' =>
      let '(upts, untp) :=
        match k with
        | OPUS => (pts, ntp)
        | _ => (pts + Z.quot (i * 1024 * rate) srate, ntp + Z.quot (i * 1024 * second) srate)
        end in
      match fmp4WriteSample m ti true false
              {| s_dts := upts; s_ptsoff := 0; s_dur := 0; s_nonsync := false; s_ntp := untp;
                 s_pay := u_id x; s_size := u_fsize x |} with
      | (m', Ok _) =>
          match k with
          | OPUS => write_audio_units m' ti k rate srate (i + 1)
                                      (pts + u_opusdur x) (ntp + timestampToDuration (u_opusdur x) 48000) units'
          | _ => write_audio_units m' ti k rate srate (i + 1) pts ntp units'
          end
      | r => r
      end
  end.

Definition write_audio (m : mstate) (ti : nat) (t : trk) (a : au) : wres :=
  let rate := t_rate (tk_cfg t) in
  match c_variant (m_cfg m) with
  | MPEGTS =>
      let si := tk_stream t in
      let d := timestampToDuration (a_pts a) rate in
      match nth_error (m_streams m) si with
      | None => wok m
      | Some s =>
          let opened := match st_open s with Some _ => true | None => false end in
          if negb (tk_leading t) && negb opened then wok m       (* wait for the video track *)
          else
            let m1 :=
              if tk_leading t then
                if negb opened then createFirstSegment m d (a_ntp a)
                else
                  match st_open s with
                  | Some seg =>
                      if (mpegtsSegmentMinAUCount <=? sg_aucount seg)
                         && (c_segmin (m_cfg m) <=? d - sg_start seg)
                      then rotateSegments m d (a_ntp a) false else m
                  | None => m
                  end
              else m in
            ts_write m1 si
                     {| u_track := ti; u_pts := mulDiv (a_pts a) 90000 rate; u_dts := mulDiv (a_pts a) 90000 rate;
                        u_ra := true; u_pays := map (fun x => (u_id x, u_tsize x)) (a_units a) |}
                     (sum4 u_tsize (a_units a))
                     (if tk_leading t then Some d else None) (tk_leading t)
      end
  | _ => write_audio_units m ti (t_kind (tk_cfg t)) rate (t_srate (tk_cfg t)) 0 (a_pts a) (a_ntp a) (a_units a)
  end.

Definition mux_write (m : mstate) (ti : nat) (a : au) : wres :=
  match nth_error (m_tracks m) ti with
  | None => wok m
  | Some t => if isVideo (t_kind (tk_cfg t)) then write_video m ti t a else write_audio m ti t a
  end.

Definition mux_step (m : mstate) (o : wop) : wres :=
  match o with WWrite ti a => mux_write m ti a end.

Fixpoint mux_run (m : mstate) (ops : list wop) : mstate :=
  match ops with
  | [] => m
  | o :: ops' => mux_run (fst (mux_step m o)) ops'
  end.

(* ---------------------------------------------------------------- playlists (abstract records) *)
Definition hasContent (v : variant) (s : stream) : bool :=
  match v with
  | FMP4 => Nat.leb 2 (length (st_segments s))
  | _ => Nat.leb 1 (length (st_segments s))
  end.

Record plpart := { pp_id : Z; pp_dur : Z; pp_indep : bool }.
Record plseg := { ps_gap : bool; ps_id : Z; ps_dur : Z; ps_dt : option Z; ps_parts : list plpart }.
Record mediapl := {
  pl_version : Z;
  pl_msn : Z;
  pl_target : Z;
  pl_ll : bool;             (* SERVER-CONTROL / PART-INF present *)
  pl_parttarget : Z;
  pl_holdback : Z;
  pl_skipuntil : Z;
  pl_map : bool;
  pl_segs : list plseg;
  pl_trailing : list plpart;
  pl_hint : option Z
}.

Definition mkplpart (p : part) : plpart := {| pp_id := p_id p; pp_dur := p_dur p; pp_indep := p_indep p |}.

Fixpoint gen_segs (v : variant) (n : nat) (segs : list segrec) : list plseg :=
  match segs with
  | [] => []
  | s :: segs' =>
      let last2 := Nat.leb (length segs) 2 in
      (if sg_gap s then {| ps_gap := true; ps_id := -1; ps_dur := sg_dur s; ps_dt := None; ps_parts := [] |}
       else {| ps_gap := false; ps_id := sg_id s; ps_dur := sg_dur s;
               ps_dt := match v with
                        | MPEGTS => Some (sg_ntp s)
                        | _ => if last2 then Some (sg_ntp s) else None
                        end;
               ps_parts := match v with
                           | LL => if last2 then map mkplpart (sg_parts s) else []
                           | _ => []
                           end |})
      :: gen_segs v n segs'
  end.

Definition gen_media_playlist (m : mstate) (si : nat) : option mediapl :=
  match nth_error (m_streams m) si with
  | None => None
  | Some s =>
      let v := c_variant (m_cfg m) in
      if negb (hasContent v s) then None else
      Some {| pl_version := match v with MPEGTS => 3 | _ => 10 end;
              pl_msn := st_delcount s;
              pl_target := st_target s;
              pl_ll := variant_eqb v LL;
              pl_parttarget := st_parttarget s;
              pl_holdback := Z.quot (st_parttarget s * 25) 10;
              pl_skipuntil := st_target s * 6 * second;
              pl_map := negb (variant_eqb v MPEGTS);
              pl_segs := gen_segs v 0 (st_segments s);
              pl_trailing := match v, st_open s with
                             | LL, Some g => map mkplpart (sg_parts g)
                             | _, _ => []
                             end;
              pl_hint := match v with LL => Some (st_nextPart s) | _ => None end |}
  end.

(* bandwidth(): (max, average) over the non-gap segments of streams[0]; zero-duration segments
   (forced rotation at an equal DTS) are skipped, as the repaired code does (finding F8) *)
Definition bandwidth (segs : list segrec) : res (Z * Z) :=
  match segs with
  | [] => Ok (0, 0)
  | _ =>
      let real := filter (fun s => negb (sg_gap s) && (0 <? sg_dur s)) segs in
      let mx := fold_left (fun a s => Z.max a (Z.quot (8 * sg_size s * second) (sg_dur s))) real 0 in
      let sizes := fold_left (fun a s => a + sg_size s) real 0 in
      let durs := fold_left (fun a s => a + sg_dur s) real 0 in
      if durs <=? 0 then Ok (0, 0) else Ok (mx, Z.quot (8 * sizes * second) durs)
  end.

Record mvrend := { r_isvideo : bool; r_num : Z; r_name : Z; r_lang : Z; r_default : bool; r_hasuri : bool }.
Record multivariant := {
  mv_version : Z;
  mv_bandwidth : Z;
  mv_avg : Z;
  mv_codecs : list (ckind * Z);      (* (kind, parameter id) per distinct codec string, in order *)
  mv_video : option (ckind * Z);     (* the video track whose parameters give RESOLUTION / FRAME-RATE *)
  mv_uri : option (bool * Z);        (* leading stream (isvideo, num) *)
  mv_audio : bool;
  mv_renditions : list mvrend
}.

Definition ck_eqb (a b : ckind) : bool :=
  match a, b with
  | H264, H264 | H265, H265 | VP9, VP9 | AV1, AV1 | AAC, AAC | OPUS, OPUS => true
  | _, _ => false
  end.

(* codec strings are a function of (kind, parameters); audio strings do not depend on in-band
   parameters, so equal kinds give equal strings there *)
Definition codec_key (t : trk) : ckind * Z :=
  (t_kind (tk_cfg t), if isVideo (t_kind (tk_cfg t)) then tk_params t else t_params0 (tk_cfg t)).
Definition ckey_eqb (a b : ckind * Z) : bool := ck_eqb (fst a) (fst b) && (snd a =? snd b).

Definition all_stream_tracks (m : mstate) : list trk :=
  flat_map (fun s => flat_map (fun ti => match nth_error (m_tracks m) ti with
                                         | Some t => [t] | None => [] end) (st_tracks s))
           (m_streams m).

Fixpoint dedup_codecs (acc : list (ckind * Z)) (ts : list trk) : list (ckind * Z) :=
  match ts with
  | [] => acc
  | t :: ts' =>
      let k := codec_key t in
      dedup_codecs (if existsb (ckey_eqb k) acc then acc else acc ++ [k]) ts'
  end.

Definition gen_multivariant (m : mstate) : res (option multivariant) :=
  match m_streams m with
  | [] => Ok None
  | s0 :: _ =>
      if negb (hasContent (c_variant (m_cfg m)) s0) then Ok None else
      match bandwidth (st_segments s0) with
      | Panic p => Panic p
      | Err e => Err e
      | Ok (mx, avg) =>
          let ts := all_stream_tracks m in
          Ok (Some {|
            mv_version := match c_variant (m_cfg m) with MPEGTS => 3 | _ => 9 end;
            mv_bandwidth := mx; mv_avg := avg;
            mv_codecs := dedup_codecs [] ts;
            mv_video := match filter (fun t => isVideo (t_kind (tk_cfg t))) ts with
                        | t :: _ => Some (t_kind (tk_cfg t), tk_params t) | [] => None end;
            mv_uri := match filter st_leading (m_streams m) with
                      | s :: _ => Some (st_isvideo s, st_num s) | [] => None end;
            mv_audio := existsb st_rendition (m_streams m);
            mv_renditions := map (fun s => {| r_isvideo := st_isvideo s; r_num := st_num s;
                                             r_name := st_name s; r_lang := st_lang s;
                                             r_default := st_default s;
                                             r_hasuri := negb (st_leading s) |})
                                 (filter st_rendition (m_streams m)) |})
      end
  end.
