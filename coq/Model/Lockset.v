(* M10 - Lockset: generic trace model and the static access-table vocabulary (definitions only;
   the soundness proof is Proofs/LocksetSound.v, the generated table Generated/LocksetTable.v).

   A trace is a list of events of a sequentially consistent interleaving.  Threads take and
   release mutexes (exclusive = Lock/Unlock, shared = RLock/RUnlock of a sync.RWMutex),
   publish and subscribe to publication keys, and access locations.  A location is a field
   of an object instance: (obj, field).

   Happens-before is the transitive closure of
     - program order (two events of one thread),
     - lock hand-over (a release of m followed later by an acquire of m, at least one of
       the two in exclusive mode - exactly the edges the Go memory model gives to
       sync.Mutex / sync.RWMutex),
     - publication (Pub k followed later by Sub k: registerPath of a handler closure -> a later
       run of that handler; an object linked into a list under the mutex -> a reader that
       found it there; Broadcast -> wake; Start returning -> any later call).
   A DATA RACE is a pair of accesses to the same location by different threads, at least one
   a write, unordered by happens-before in either direction.

   A static access row (what the translator emits per field selection and thread role)
   carries: the field, read/write, the role, the locks held, and the publication classes it is
   known to precede (a_pre) or to follow (a_post). *)
From Coq Require Import List Arith Bool Relations.
Import ListNotations.

Definition tid := nat.
Definition mutex := nat.
Definition obj := nat.
Definition field := nat.

Inductive mode := Excl | Shared.

(* publication classes:
   KStart   - Muxer.Start has returned (global)
   KContent - the first rotateSegments critical section has ended, i.e. hasContent() can be
              observed true (global)
   KInitd   - the object's constructor code has finished (per object)
   KListed  - the object has been appended to a list read by handlers / its handler has been
              registered (per object) *)
Inductive kclass := KStart | KContent | KInitd | KListed.

Definition kclass_global (k : kclass) : bool :=
  match k with KStart | KContent => true | _ => false end.

Definition key := (kclass * obj)%type.
Definition key_of (k : kclass) (o : obj) : key := if kclass_global k then (k, 0) else (k, o).

(* thread roles: Init = Muxer.Start, Writer = Muxer.Write*, Closer = Muxer.Close,
   Reader = Muxer.Handle and every registered handler *)
Inductive role := Init | Writer | Closer | Reader.

Record access := {
  a_id : nat;                      (* row number *)
  a_loc : field;                   (* Type.field, as an index into the generated name list *)
  a_write : bool;
  a_role : role;
  a_locks : list (mutex * mode);
  a_pre : list kclass;
  a_post : list kclass;
  a_fn : nat;                      (* function containing the selection (name list index) *)
  a_line : nat
}.

Inductive event :=
| Acq (t : tid) (m : mutex) (x : mode)
| Rel (t : tid) (m : mutex) (x : mode)
| Pub (t : tid) (k : key)
| Sub (t : tid) (k : key)
| Acc (t : tid) (a : access) (o : obj).

Definition trace := list event.

Definition thread_of (e : event) : tid :=
  match e with
  | Acq t _ _ | Rel t _ _ | Pub t _ | Sub t _ | Acc t _ _ => t
  end.

Definition at_ (tr : trace) (i : nat) (e : event) : Prop := nth_error tr i = Some e.

(* ---------- happens-before ---------- *)
Inductive hb1 (tr : trace) : nat -> nat -> Prop :=
| hb_po : forall i j e1 e2,
    i < j -> at_ tr i e1 -> at_ tr j e2 -> thread_of e1 = thread_of e2 -> hb1 tr i j
| hb_lock : forall r q t t' m x y,
    r < q -> at_ tr r (Rel t m x) -> at_ tr q (Acq t' m y) -> (x = Excl \/ y = Excl) -> hb1 tr r q
| hb_pub : forall p s t t' k,
    p < s -> at_ tr p (Pub t k) -> at_ tr s (Sub t' k) -> hb1 tr p s.

Definition hb (tr : trace) : nat -> nat -> Prop := clos_trans nat (hb1 tr).

(* ---------- data race ---------- *)
Definition conflicting (a b : access) : Prop :=
  a_loc a = a_loc b /\ (a_write a = true \/ a_write b = true).

Definition race (tr : trace) : Prop :=
  exists i j t t' a b o,
    i <> j /\ at_ tr i (Acc t a o) /\ at_ tr j (Acc t' b o) /\ t <> t' /\
    conflicting a b /\ ~ hb tr i j /\ ~ hb tr j i.

(* ---------- well-formed traces (what a mutex and a publication ARE) ---------- *)
(* t holds m in mode x just before position i *)
Definition holds (tr : trace) (t : tid) (m : mutex) (x : mode) (i : nat) : Prop :=
  exists q, q < i /\ at_ tr q (Acq t m x) /\
            forall r x', q < r -> r < i -> ~ at_ tr r (Rel t m x').

Record wf_trace (tr : trace) : Prop := {
  (* mutual exclusion: an acquire succeeds while another thread holds the mutex only if both
     are shared (RLock/RLock) *)
  wf_excl : forall q t m x t' x',
      at_ tr q (Acq t m x) -> t' <> t -> holds tr t' m x' q -> x = Shared /\ x' = Shared;
  (* Unlock matches Lock, RUnlock matches RLock *)
  wf_rel : forall r t m x x',
      at_ tr r (Rel t m x') -> holds tr t m x r -> x = x';
  (* a subscription observes an earlier publication of the same key *)
  wf_sub : forall s t k, at_ tr s (Sub t k) -> exists p t', p < s /\ at_ tr p (Pub t' k)
}.

(* ---------- a trace conforms to the static claims of the rows it executes ---------- *)
Definition single_thread_role (r : role) : bool :=
  match r with Writer | Closer => true | _ => false end.

Record conforms (tr : trace) : Prop := {
  (* the locks a row claims are held when it executes *)
  cf_locks : forall i t a o m x,
      at_ tr i (Acc t a o) -> In (m, x) (a_locks a) -> holds tr t m x i;
  (* a_pre: the access precedes, in its own thread, every publication of the key *)
  cf_pre : forall i t a o k p t' ,
      at_ tr i (Acc t a o) -> In k (a_pre a) -> at_ tr p (Pub t' (key_of k o)) -> i < p /\ t' = t;
  (* a_post: the accessing thread subscribed to the key before the access *)
  cf_post : forall j t a o k,
      at_ tr j (Acc t a o) -> In k (a_post a) -> exists s, s < j /\ at_ tr s (Sub t (key_of k o));
  (* one goroutine calls Write* and finally Close; Start is one call *)
  cf_writer : forall i j t t' a b o o',
      at_ tr i (Acc t a o) -> at_ tr j (Acc t' b o') ->
      single_thread_role (a_role a) = true -> single_thread_role (a_role b) = true -> t = t';
  cf_init : forall i j t t' a b o o',
      at_ tr i (Acc t a o) -> at_ tr j (Acc t' b o') ->
      a_role a = Init -> a_role b = Init -> t = t'
}.

(* ---------- the static check of one pair of rows ---------- *)
Definition mode_eqb (x y : mode) : bool :=
  match x, y with Excl, Excl | Shared, Shared => true | _, _ => false end.

Definition kclass_eqb (x y : kclass) : bool :=
  match x, y with
  | KStart, KStart | KContent, KContent | KInitd, KInitd | KListed, KListed => true
  | _, _ => false
  end.

Definition is_excl (x : mode) : bool := match x with Excl => true | Shared => false end.

Definition common_lock (a b : access) : bool :=
  existsb (fun l1 => existsb (fun l2 =>
     Nat.eqb (fst l1) (fst l2) && (is_excl (snd l1) || is_excl (snd l2))) (a_locks b)) (a_locks a).

Definition pub_ordered (a b : access) : bool :=
  existsb (fun k => existsb (kclass_eqb k) (a_post b)) (a_pre a).

Definition same_thread_roles (a b : access) : bool :=
  (single_thread_role (a_role a) && single_thread_role (a_role b)) ||
  match a_role a, a_role b with Init, Init => true | _, _ => false end.

Definition conflictb (a b : access) : bool :=
  Nat.eqb (a_loc a) (a_loc b) && (a_write a || a_write b).

Definition pair_safe (p : access * access) : bool :=
  let (a, b) := p in
  negb (conflictb a b) || same_thread_roles a b || common_lock a b
  || pub_ordered a b || pub_ordered b a.

Definition all_pairs (T : list access) : list (access * access) := list_prod T T.

Definition table_ok (T : list access) : bool := forallb pair_safe (all_pairs T).

(* the unsafe pairs of a table, for reporting *)
Definition unsafe_pairs (T : list access) : list (access * access) :=
  filter (fun p => negb (pair_safe p)) (all_pairs T).

(* every access event of the trace executes a row of the table *)
Definition runs_table (T : list access) (tr : trace) : Prop :=
  forall i t a o, at_ tr i (Acc t a o) -> In a T.
