(* M3 (segmenter arithmetic) - executable model of the Low-Latency part cutting
   (definitions only; proofs live in Proofs/PartDur*.v).

   Transcribed Go (names kept):
     muxer_segmenter.go  multiplyAndDivide / multiplyAndDivide2, durationToTimestamp,
                         timestampToDuration, partDurationIsCompatible,
                         partDurationIsCompatibleWithAll, findCompatiblePartDuration,
                         fmp4AdjustPartDuration, fmp4WriteSample (leading track, Low-Latency variant)
     muxer_stream.go     partTargetDuration, createFirstSegment, rotateParts, rotateSegments
                         (part / segment bookkeeping only), generateMediaPlaylistFMP4
                         (which parts are listed, PART-TARGET)
     muxer_part.go       getDuration, finalize (endDTS)

   Conventions: all times are unbounded [Z] (nanoseconds for time.Duration, ticks for dts);
   Go's / and % are [Z.quot]/[Z.rem]; an integer division by zero is [PPanic]; the for
   loop of findCompatiblePartDuration runs on fuel ([POutOfFuel], excluded by
   Proofs/PartDurArith.findCompatiblePartDuration_fuel).
   Not modelled: payload sizes (writeSample's "reached maximum segment size" error is
   assumed not to occur), non-leading tracks (they never rotate anything), HTTP path
   registration, the MPEG-TS and plain fMP4 variants. [p_n], [curN], [published],
   [encodeErrors] are ghost fields: they never influence the other fields. *)
From Coq Require Import List ZArith Bool.
From GoHls Require Import Lib.ZLib.
Import ListNotations.
Local Open Scope Z_scope.

Inductive pres (A : Type) : Type :=
| POk (a : A)
| PPanic          (* the Go runtime would panic here (integer divide by zero) *)
| POutOfFuel.     (* loop fuel exhausted; never happens, see the fuel lemma *)
Arguments POk {A} a.
Arguments PPanic {A}.
Arguments POutOfFuel {A}.

Definition pbind {A B} (m : pres A) (k : A -> pres B) : pres B :=
  match m with POk a => k a | PPanic => PPanic | POutOfFuel => POutOfFuel end.
Notation "'dop' x <- m ;; k" := (pbind m (fun x => k))
  (at level 200, x pattern, m at level 100, k at level 200, right associativity).

Definition second : Z := 1000000000.
Definition millisecond : Z := 1000000.
Definition fmp4StartDTS : Z := 10 * second.

(* ---------- pure functions ---------- *)

Definition multiplyAndDivide (v m d : Z) : pres Z :=
  if d =? 0 then PPanic else POk (mulDiv v m d).

Definition durationToTimestamp (d clockRate : Z) : pres Z := multiplyAndDivide d clockRate second.
Definition timestampToDuration (d clockRate : Z) : pres Z := multiplyAndDivide d second clockRate.

Definition partDurationIsCompatible (partDuration sampleDuration : Z) : pres bool :=
  if sampleDuration >? partDuration then POk false
  else if sampleDuration =? 0 then PPanic
  else
    let f := Z.quot partDuration sampleDuration in
    let f := if negb (Z.rem partDuration sampleDuration =? 0) then f + 1 else f in
    let f := f * sampleDuration in
    POk (partDuration >? Z.quot (f * 85) 100).

(* the Go map is iterated in random order; the result does not depend on the order unless a
   member is 0 (panic), which fmp4AdjustPartDuration excludes *)
Fixpoint partDurationIsCompatibleWithAll (partDuration : Z) (sampleDurations : list Z) : pres bool :=
  match sampleDurations with
  | [] => POk true
  | sd :: rest =>
      dop b <- partDurationIsCompatible partDuration sd ;;
      if b then partDurationIsCompatibleWithAll partDuration rest else POk false
  end.

Fixpoint findLoop (fuel : nat) (i : Z) (sampleDurations : list Z) : pres Z :=
  match fuel with
  | O => POutOfFuel
  | S fuel' =>
      if i <? 5 * second then
        dop b <- partDurationIsCompatibleWithAll i sampleDurations ;;
        if b then POk i else findLoop fuel' (i + 5 * millisecond) sampleDurations
      else POk i
  end.

Definition findFuel (minPartDuration : Z) : nat :=
  S (Z.to_nat ((5 * second - minPartDuration) / (5 * millisecond) + 1)).

Definition findCompatiblePartDuration (minPartDuration : Z) (sampleDurations : list Z) : pres Z :=
  findLoop (findFuel minPartDuration) minPartDuration sampleDurations.

(* ---------- muxer state (leading stream, Low-Latency variant) ---------- *)

Record part := { p_dur : Z;      (* muxerPart.getDuration() = endDTS - startDTS *)
                 p_n : Z }.      (* ghost: samples written into the part *)

Record cfg := { clockRate : Z;           (* Track.ClockRate of the leading track *)
                partMinDuration : Z;
                segmentMinDuration : Z;
                segmentCount : Z }.

Record mstate := {
  nextSample : option Z;             (* track.fmp4NextSample.dts; None = nil *)
  segStartDTS : option Z;            (* stream.nextSegment.startDTS; None = nextSegment == nil *)
  partStartDTS : Z;                  (* stream.nextPart.startDTS *)
  curN : Z;                          (* ghost: samples in stream.nextPart *)
  sampleDurations : list Z;          (* fmp4SampleDurations (a set, as a duplicate-free list) *)
  adjusted : Z;                      (* fmp4AdjustedPartDuration *)
  freeze : bool;                     (* fmp4FreezeAdjustedPartDuration *)
  nextParts : list part;             (* stream.nextSegment.parts *)
  segments : list (option (list part));  (* stream.segments; None = *muxerGap *)
  partTarget : Z;                    (* stream.partTargetDuration *)
  published : list (list part);      (* ghost: every segment ever completed *)
  encodeErrors : Z                   (* ghost: "part duration changed" reports *)
}.

Definition init_state : mstate :=
  {| nextSample := None; segStartDTS := None; partStartDTS := 0; curN := 0;
     sampleDurations := []; adjusted := 0; freeze := false; nextParts := [];
     segments := []; partTarget := 0; published := []; encodeErrors := 0 |}.

Definition maxDur (ps : list part) (acc : Z) : Z :=
  fold_left (fun ret p => if p_dur p >? ret then p_dur p else ret) ps acc.

Definition maxDurSegs (segs : list (option (list part))) (acc : Z) : Z :=
  fold_left (fun ret sg => match sg with Some ps => maxDur ps ret | None => ret end) segs acc.

(* time.Millisecond * Duration(math.Ceil(float64(ret)/float64(time.Millisecond))), ret >= 0.
   Modelled as the exact integer ceiling: the float64 quotient is exact on multiples of 1 ms
   and otherwise off by < 2^-20 ms for ret < 2^33 ms, less than the distance 10^-6 ms of a
   non-multiple to the next integer, so math.Ceil returns the exact ceiling (trusted, and
   compared on every run through the part target trace). *)
Definition ceil_ms (d : Z) : Z := ceil_to millisecond d.

Definition partTargetDuration (segs : list (option (list part))) (nextSegmentParts : list part) : Z :=
  ceil_ms (maxDur nextSegmentParts (maxDurSegs segs 0)).

Definition createFirstSegment (s : mstate) (nextDTS : Z) : mstate :=
  {| nextSample := nextSample s; segStartDTS := Some nextDTS; partStartDTS := nextDTS; curN := 0;
     sampleDurations := sampleDurations s; adjusted := adjusted s; freeze := freeze s;
     nextParts := []; segments := segments s; partTarget := partTarget s;
     published := published s; encodeErrors := encodeErrors s |}.

(* muxerStream.rotateParts(nextDTS, createNew): finalize nextPart, append it to its segment,
   recompute the part target duration (isLeading); the new part starts at nextDTS *)
Definition rotateParts (s : mstate) (nextDTS : Z) : mstate :=
  let p := {| p_dur := nextDTS - partStartDTS s; p_n := curN s |} in
  let parts' := nextParts s ++ [p] in
  let v := partTargetDuration (segments s) parts' in
  let changed := negb (partTarget s =? 0) && negb (v =? partTarget s) in
  {| nextSample := nextSample s; segStartDTS := segStartDTS s; partStartDTS := nextDTS; curN := 0;
     sampleDurations := sampleDurations s; adjusted := adjusted s; freeze := freeze s;
     nextParts := parts'; segments := segments s;
     partTarget := if partTarget s =? 0 then v else if changed then v else partTarget s;
     published := published s;
     encodeErrors := if changed then encodeErrors s + 1 else encodeErrors s |}.

(* muxerStream.rotateSegments: rotateParts(nextDTS, false); 7 gaps before the first segment;
   append; drop the oldest when more than segmentCount; new segment and part start at nextDTS *)
Definition rotateSegments (c : cfg) (s : mstate) (nextDTS : Z) : mstate :=
  let s1 := rotateParts s nextDTS in
  let seg := nextParts s1 in
  let segs0 := match segments s1 with [] => repeat None 7 | l => l end in
  let segs1 := segs0 ++ [Some seg] in
  let segs2 := if Z.of_nat (length segs1) >? segmentCount c then tl segs1 else segs1 in
  {| nextSample := nextSample s1; segStartDTS := Some nextDTS; partStartDTS := nextDTS; curN := 0;
     sampleDurations := sampleDurations s1; adjusted := adjusted s1; freeze := freeze s1;
     nextParts := []; segments := segs2; partTarget := partTarget s1;
     published := published s1 ++ [seg]; encodeErrors := encodeErrors s1 |}.

Definition set_adjust (s : mstate) (sds : list Z) (adj : Z) : mstate :=
  {| nextSample := nextSample s; segStartDTS := segStartDTS s; partStartDTS := partStartDTS s;
     curN := curN s; sampleDurations := sds; adjusted := adj; freeze := freeze s;
     nextParts := nextParts s; segments := segments s; partTarget := partTarget s;
     published := published s; encodeErrors := encodeErrors s |}.

Definition set_freeze (s : mstate) (sds : list Z) (fr : bool) : mstate :=
  {| nextSample := nextSample s; segStartDTS := segStartDTS s; partStartDTS := partStartDTS s;
     curN := curN s; sampleDurations := sds; adjusted := adjusted s; freeze := fr;
     nextParts := nextParts s; segments := segments s; partTarget := partTarget s;
     published := published s; encodeErrors := encodeErrors s |}.

Definition set_next (s : mstate) (dts : Z) : mstate :=
  {| nextSample := Some dts; segStartDTS := segStartDTS s; partStartDTS := partStartDTS s;
     curN := curN s; sampleDurations := sampleDurations s; adjusted := adjusted s; freeze := freeze s;
     nextParts := nextParts s; segments := segments s; partTarget := partTarget s;
     published := published s; encodeErrors := encodeErrors s |}.

Definition add_sample (s : mstate) : mstate :=
  {| nextSample := nextSample s; segStartDTS := segStartDTS s; partStartDTS := partStartDTS s;
     curN := curN s + 1; sampleDurations := sampleDurations s; adjusted := adjusted s; freeze := freeze s;
     nextParts := nextParts s; segments := segments s; partTarget := partTarget s;
     published := published s; encodeErrors := encodeErrors s |}.

Definition mem (x : Z) (l : list Z) : bool := existsb (Z.eqb x) l.

Definition fmp4AdjustPartDuration (c : cfg) (s : mstate) (sampleDuration : Z) : pres mstate :=
  if freeze s then POk s
  else if sampleDuration =? 0 then POk s
  else if mem sampleDuration (sampleDurations s) then POk s
  else
    let sds := sampleDuration :: sampleDurations s in
    dop a <- findCompatiblePartDuration (partMinDuration c) sds ;;
    POk (set_adjust s sds a).

(* one Write* call on the leading track after the codec front-end *)
Record write := { w_dts : Z; w_ra : bool; w_pc : bool }.   (* dts, randomAccess, paramsChanged *)

Definition fmp4WriteSample (c : cfg) (s : mstate) (w : write) : pres mstate :=
  dop off <- durationToTimestamp fmp4StartDTS (clockRate c) ;;
  let dts := w_dts w + off in
  if dts <? 0 then POk s           (* rejected silently *)
  else
    match nextSample s with
    | None => POk (set_next s dts)
    | Some sdts =>
        let s := set_next s dts in
        let duration := dts - sdts in
        dop s <- (match segStartDTS s with
                  | None => dop t <- timestampToDuration sdts (clockRate c) ;; POk (createFirstSegment s t)
                  | Some _ => POk s
                  end) ;;
        dop sd <- timestampToDuration duration (clockRate c) ;;
        dop s <- fmp4AdjustPartDuration c s sd ;;
        let s := add_sample s in                         (* nextPart.writeSample *)
        dop nd <- timestampToDuration dts (clockRate c) ;;
        let segStart := match segStartDTS s with Some t => t | None => 0 end in
        if w_ra w && (w_pc w || (nd - segStart >=? segmentMinDuration c)) then
          let s := rotateSegments c s nd in
          POk (if w_pc w then set_freeze s [] false else set_freeze s (sampleDurations s) true)
        else if nd - partStartDTS s >=? adjusted s then POk (rotateParts s nd)
        else POk s
    end.

Fixpoint run (c : cfg) (s : mstate) (ws : list write) : pres mstate :=
  match ws with
  | [] => POk s
  | w :: ws' => dop s' <- fmp4WriteSample c s w ;; run c s' ws'
  end.

(* ---------- what generateMediaPlaylistFMP4 shows ---------- *)

(* parts are listed for the segments with (len(segments) - i) <= 2, and for nextSegment *)
Definition lastTwo {A} (l : list A) : list A := skipn (length l - 2) l.

Definition listedSegments (s : mstate) : list (list part) :=
  flat_map (fun sg => match sg with Some ps => [ps] | None => [] end) (lastTwo (segments s)).

(* the parts of a playlist that are not the last of their segment *)
Definition nonFinalListed (s : mstate) : list part :=
  flat_map (fun ps => removelast ps) (listedSegments s) ++ nextParts s.

(* every retained part, the domain of partTargetDuration *)
Definition allParts (s : mstate) : list part :=
  flat_map (fun sg => match sg with Some ps => ps | None => [] end) (segments s) ++ nextParts s.

(* ---------- a leading track with constant sample duration ---------- *)

(* write k has dts d0 + k*T; flags give (randomAccess, paramsChanged) per write *)
Fixpoint constWrites (d0 T : Z) (flags : list (bool * bool)) : list write :=
  match flags with
  | [] => []
  | (ra, pc) :: fl => {| w_dts := d0; w_ra := ra; w_pc := pc |} :: constWrites (d0 + T) T fl
  end.
