(* M1 - pkg/storage: executable model (definitions only; proofs live in Proofs/StorageProofs.v).

   Transcribed Go (names kept):
     seekablebuffer.Buffer.Write / Seek          -> sbuf_write / sbuf_seek
     fileRAM{NewPart,Finalize,Reader,Size}       -> ram_step
     ramFileReader.Read                          -> rfr_read
     fileDisk{NewPart,Finalize,Remove,Reader,Size}, partDisk{Writer,Reader},
     doubleWriter, io.OffsetWriter, diskPartReader -> disk_step
   OS oracle: the file is a byte list; a positional write past the end zero-fills the hole
   (POSIX pwrite); Truncate pads with zeros or cuts; an unlinked file stays readable through
   handles opened earlier. *)
From Coq Require Import List ZArith Lia Bool.
Import ListNotations.
Local Open Scope Z_scope.

Definition zeros (n : nat) : list Z := repeat 0 n.

(* positional write into a byte list, zero-filling a hole *)
Definition pwrite (f : list Z) (off : nat) (p : list Z) : list Z :=
  match p with
  | [] => f                       (* a zero-length write changes nothing *)
  | _ => firstn off f ++ zeros (off - length f) ++ p ++ skipn (off + length p) f
  end.

(* resize to exactly n bytes (os.File.Truncate) *)
Definition truncate (f : list Z) (n : nat) : list Z :=
  firstn n f ++ zeros (n - length f).

(* ---------- seekablebuffer.Buffer ---------- *)
Record sbuf := { sb_bytes : list Z; sb_pos : Z }.
Definition sb_empty : sbuf := {| sb_bytes := []; sb_pos := 0 |}.
Definition sb_len (b : sbuf) : Z := Z.of_nat (length (sb_bytes b)).

Definition sbuf_write (b : sbuf) (p : list Z) : sbuf :=
  let len := sb_len b in
  let pos := sb_pos b in
  (* n = copy(b.Bytes()[b.pos:], p) when b.pos < b.Len() *)
  let n := if pos <? len then Z.min (Z.of_nat (length p)) (len - pos) else 0 in
  let bytes1 :=
    if pos <? len then
      firstn (Z.to_nat pos) (sb_bytes b) ++ firstn (Z.to_nat n) p
             ++ skipn (Z.to_nat (pos + n)) (sb_bytes b)
    else sb_bytes b in
  (* remaining bytes are appended *)
  {| sb_bytes := bytes1 ++ skipn (Z.to_nat n) p;
     sb_pos := pos + Z.of_nat (length p) |}.

Inductive whence := SeekStart | SeekCurrent.

Definition sbuf_seek (b : sbuf) (w : whence) (off : Z) : option sbuf :=
  let pos2 := match w with SeekStart => off | SeekCurrent => sb_pos b + off end in
  if pos2 <? 0 then None
  else Some {| sb_bytes := sb_bytes b ++ zeros (Z.to_nat (pos2 - sb_len b));
               sb_pos := pos2 |}.

(* ---------- operations and observations ---------- *)
Inductive target := TPart (p : nat) | TFile.

Inductive sop :=
| NewPart
| Write (bs : list Z)              (* on the writer of the most recently allocated part *)
| Seek (w : whence) (off : Z)      (* idem *)
| Finalize
| Remove
| Snap (p : nat)                   (* part p: open a reader, read everything, close *)
| Open (t : target)                (* open a reader and keep it as the next handle *)
| ReadH (h : nat) (n : nat)        (* one Read call with an n-byte buffer on handle h *)
| Size.

Inductive obs :=
| ONone
| OOk
| OErr
| OBytes (l : list Z)
| ONum (z : Z).

Definition set_nth {A} (l : list A) (i : nat) (x : A) : list A :=
  firstn i l ++ match skipn i l with [] => [] | _ :: t => x :: t end.

Definition upd_last {A} (l : list A) (f : A -> A) : list A :=
  match rev l with [] => [] | x :: t => rev t ++ [f x] end.

Definition sumZ (l : list Z) : Z := fold_right Z.add 0 l.

(* ---------- specification: bytes, written one at a time ---------- *)
Definition put (l : list Z) (i : nat) (x : Z) : list Z := pwrite l i [x].

Fixpoint put_all (l : list Z) (i : nat) (data : list Z) : list Z :=
  match data with
  | [] => l
  | x :: data' => put_all (put l i x) (S i) data'
  end.

Definition extend (l : list Z) (n : nat) : list Z := l ++ zeros (n - length l).

Record spec := {
  sp_parts : list (list Z);      (* contents in allocation order *)
  sp_pos : Z;                    (* writer position in the last part *)
  sp_final : bool;
  sp_handles : list (option (list Z))   (* remaining bytes of each opened reader *)
}.

Definition spec_init : spec :=
  {| sp_parts := []; sp_pos := 0; sp_final := false; sp_handles := [] |}.

Definition read_handle (hs : list (option (list Z))) (h n : nat)
  : list (option (list Z)) * obs :=
  match nth_error hs h with
  | Some (Some rem) => (set_nth hs h (Some (skipn n rem)), OBytes (firstn n rem))
  | _ => (hs, ONone)
  end.

Definition spec_step (s : spec) (o : sop) : spec * obs :=
  match o with
  | NewPart =>
      ({| sp_parts := sp_parts s ++ [[]]; sp_pos := 0; sp_final := sp_final s;
          sp_handles := sp_handles s |}, ONone)
  | Write bs =>
      ({| sp_parts := upd_last (sp_parts s) (fun l => put_all l (Z.to_nat (sp_pos s)) bs);
          sp_pos := sp_pos s + Z.of_nat (length bs); sp_final := sp_final s;
          sp_handles := sp_handles s |}, OOk)
  | Seek w off =>
      let pos2 := match w with SeekStart => off | SeekCurrent => sp_pos s + off end in
      if pos2 <? 0 then (s, OErr)
      else ({| sp_parts := upd_last (sp_parts s) (fun l => extend l (Z.to_nat pos2));
               sp_pos := pos2; sp_final := sp_final s; sp_handles := sp_handles s |}, ONum pos2)
  | Finalize =>
      ({| sp_parts := sp_parts s; sp_pos := sp_pos s; sp_final := true;
          sp_handles := sp_handles s |}, ONone)
  | Remove => (s, ONone)
  | Snap p =>
      (s, match nth_error (sp_parts s) p with Some l => OBytes l | None => ONone end)
  | Open (TPart p) =>
      match nth_error (sp_parts s) p with
      | Some l => ({| sp_parts := sp_parts s; sp_pos := sp_pos s; sp_final := sp_final s;
                      sp_handles := sp_handles s ++ [Some l] |}, OOk)
      | None => (s, ONone)
      end
  | Open TFile =>
      if sp_final s then
        ({| sp_parts := sp_parts s; sp_pos := sp_pos s; sp_final := sp_final s;
            sp_handles := sp_handles s ++ [Some (concat (sp_parts s))] |}, OOk)
      else
        ({| sp_parts := sp_parts s; sp_pos := sp_pos s; sp_final := sp_final s;
            sp_handles := sp_handles s ++ [None] |}, OErr)
  | ReadH h n =>
      let '(hs, ob) := read_handle (sp_handles s) h n in
      ({| sp_parts := sp_parts s; sp_pos := sp_pos s; sp_final := sp_final s;
          sp_handles := hs |}, ob)
  | Size =>
      (s, ONum (if sp_final s then Z.of_nat (length (concat (sp_parts s))) else 0))
  end.

(* ---------- RAM backend ---------- *)

(* ramFileReader: parts are captured at Reader() time *)
Record rfr := { rf_parts : list (list Z); rf_curPart : nat; rf_curPos : nat }.

(* ramFileReader.Read with a buffer of [lenp] bytes; [n] bytes already copied into [acc].
   One loop iteration per unit of fuel; None = out of fuel. *)
Fixpoint rfr_read_loop (fuel : nat) (r : rfr) (lenp : nat) (acc : list Z)
  : option (rfr * list Z) :=
  match fuel with
  | O => None
  | S fuel' =>
      match nth_error (rf_parts r) (rf_curPart r) with
      | None => Some (r, acc)                                   (* return n, io.EOF *)
      | Some buf =>
          let avail := skipn (rf_curPos r) buf in
          let copied := Nat.min (lenp - length acc) (length avail) in
          let acc' := acc ++ firstn copied avail in
          let curPos' := (rf_curPos r + copied)%nat in
          let r' := if Nat.eqb curPos' (length buf)
                    then {| rf_parts := rf_parts r; rf_curPart := S (rf_curPart r); rf_curPos := 0 |}
                    else {| rf_parts := rf_parts r; rf_curPart := rf_curPart r; rf_curPos := curPos' |} in
          if Nat.eqb (length acc') lenp then Some (r', acc')    (* return n, nil *)
          else rfr_read_loop fuel' r' lenp acc'
      end
  end.

Definition rfr_read (r : rfr) (lenp : nat) : option (rfr * list Z) :=
  rfr_read_loop (S (length (rf_parts r) - rf_curPart r)) r lenp [].

Inductive rhandle :=
| RHBytes (rem : list Z)           (* bytes.Reader over a part buffer *)
| RHFile (r : rfr)
| RHNone.

Record ram := {
  r_final : bool;
  r_parts : list sbuf;
  r_size : Z;
  r_handles : list rhandle
}.

Definition ram_init : ram :=
  {| r_final := false; r_parts := []; r_size := 0; r_handles := [] |}.

Definition ram_step (s : ram) (o : sop) : ram * obs :=
  match o with
  | NewPart =>
      ({| r_final := r_final s; r_parts := r_parts s ++ [sb_empty]; r_size := r_size s;
          r_handles := r_handles s |}, ONone)
  | Write bs =>
      ({| r_final := r_final s; r_parts := upd_last (r_parts s) (fun b => sbuf_write b bs);
          r_size := r_size s; r_handles := r_handles s |}, OOk)
  | Seek w off =>
      match rev (r_parts s) with
      | [] => (s, ONone)
      | b :: _ =>
          match sbuf_seek b w off with
          | None => (s, OErr)
          | Some b' =>
              ({| r_final := r_final s; r_parts := upd_last (r_parts s) (fun _ => b');
                  r_size := r_size s; r_handles := r_handles s |}, ONum (sb_pos b'))
          end
      end
  | Finalize =>
      ({| r_final := true; r_parts := r_parts s;
          r_size := r_size s + sumZ (map sb_len (r_parts s));
          r_handles := r_handles s |}, ONone)
  | Remove => (s, ONone)
  | Snap p =>
      (s, match nth_error (r_parts s) p with Some b => OBytes (sb_bytes b) | None => ONone end)
  | Open (TPart p) =>
      match nth_error (r_parts s) p with
      | Some b => ({| r_final := r_final s; r_parts := r_parts s; r_size := r_size s;
                      r_handles := r_handles s ++ [RHBytes (sb_bytes b)] |}, OOk)
      | None => (s, ONone)
      end
  | Open TFile =>
      if r_final s then
        ({| r_final := r_final s; r_parts := r_parts s; r_size := r_size s;
            r_handles := r_handles s ++
              [RHFile {| rf_parts := map sb_bytes (r_parts s); rf_curPart := 0; rf_curPos := 0 |}] |},
         OOk)
      else
        ({| r_final := r_final s; r_parts := r_parts s; r_size := r_size s;
            r_handles := r_handles s ++ [RHNone] |}, OErr)
  | ReadH h n =>
      match nth_error (r_handles s) h with
      | Some (RHBytes rem) =>
          ({| r_final := r_final s; r_parts := r_parts s; r_size := r_size s;
              r_handles := set_nth (r_handles s) h (RHBytes (skipn n rem)) |}, OBytes (firstn n rem))
      | Some (RHFile r) =>
          match rfr_read r n with
          | Some (r', out) =>
              ({| r_final := r_final s; r_parts := r_parts s; r_size := r_size s;
                  r_handles := set_nth (r_handles s) h (RHFile r') |}, OBytes out)
          | None => (s, OErr)       (* out of fuel: excluded by rfr_read_fuel_ok *)
          end
      | _ => (s, ONone)
      end
  | Size => (s, ONum (r_size s))
  end.

(* ---------- disk backend ---------- *)
Record dpart := {
  d_buf : option sbuf;     (* partDisk.buffer, nil after Finalize *)
  d_woff : Z;              (* io.OffsetWriter.off (absolute) of the part's writer *)
  d_offset : Z;            (* partDisk.offset *)
  d_size : Z               (* partDisk.size *)
}.

Record disk := {
  f_bytes : list Z;        (* content of the OS file (inode) *)
  f_open : bool;           (* fileDisk.f != nil *)
  f_exists : bool;         (* directory entry present *)
  d_parts : list dpart;
  d_final : Z;             (* fileDisk.finalSize *)
  d_handles : list (option (list Z))   (* remaining bytes visible to each opened reader *)
}.

Definition disk_init : disk :=
  {| f_bytes := []; f_open := true; f_exists := true; d_parts := []; d_final := 0;
     d_handles := [] |}.

Definition buf_len (p : dpart) : Z :=
  match d_buf p with Some b => sb_len b | None => 0 end.

Definition set_last_size (ps : list dpart) : list dpart :=
  upd_last ps (fun p => {| d_buf := d_buf p; d_woff := d_woff p; d_offset := d_offset p;
                           d_size := buf_len p |}).

Definition last_end (ps : list dpart) : Z :=
  match rev ps with [] => 0 | p :: _ => d_offset p + d_size p end.

(* diskPartReader: os.Open + Seek(offset) + LimitedReader(size) *)
Definition disk_part_bytes (f : list Z) (p : dpart) : list Z :=
  firstn (Z.to_nat (d_size p)) (skipn (Z.to_nat (d_offset p)) f).

Definition disk_step (s : disk) (o : sop) : disk * obs :=
  match o with
  | NewPart =>
      let ps := set_last_size (d_parts s) in
      let off := last_end ps in
      ({| f_bytes := f_bytes s; f_open := f_open s; f_exists := f_exists s;
          d_parts := ps ++ [{| d_buf := Some sb_empty; d_woff := off; d_offset := off; d_size := 0 |}];
          d_final := d_final s; d_handles := d_handles s |}, ONone)
  | Write bs =>
      match rev (d_parts s) with
      | [] => (s, ONone)
      | p :: _ =>
          (* doubleWriter.Write: OffsetWriter.Write (WriteAt at off), then the RAM mirror *)
          ({| f_bytes := pwrite (f_bytes s) (Z.to_nat (d_woff p)) bs;
              f_open := f_open s; f_exists := f_exists s;
              d_parts := upd_last (d_parts s) (fun p =>
                {| d_buf := option_map (fun b => sbuf_write b bs) (d_buf p);
                   d_woff := d_woff p + Z.of_nat (length bs);
                   d_offset := d_offset p; d_size := d_size p |});
              d_final := d_final s; d_handles := d_handles s |}, OOk)
      end
  | Seek w off =>
      match rev (d_parts s) with
      | [] => (s, ONone)
      | p :: _ =>
          (* io.OffsetWriter.Seek *)
          let o2 := match w with SeekStart => off + d_offset p | SeekCurrent => off + d_woff p end in
          if o2 <? d_offset p then (s, OErr)
          else
            match d_buf p with
            | None => (s, ONone)
            | Some b =>
                match sbuf_seek b w off with
                | None => (* unreachable when the two positions agree; w1 has moved *)
                    ({| f_bytes := f_bytes s; f_open := f_open s; f_exists := f_exists s;
                        d_parts := upd_last (d_parts s) (fun p =>
                          {| d_buf := d_buf p; d_woff := o2; d_offset := d_offset p; d_size := d_size p |});
                        d_final := d_final s; d_handles := d_handles s |}, OErr)
                | Some b' =>
                    ({| f_bytes := f_bytes s; f_open := f_open s; f_exists := f_exists s;
                        d_parts := upd_last (d_parts s) (fun p =>
                          {| d_buf := Some b'; d_woff := o2; d_offset := d_offset p; d_size := d_size p |});
                        d_final := d_final s; d_handles := d_handles s |}, ONum (sb_pos b'))
                end
            end
      end
  | Finalize =>
      let ps := set_last_size (d_parts s) in
      let fin := match ps with [] => d_final s | _ => last_end ps end in
      ({| f_bytes := match ps with [] => f_bytes s | _ => truncate (f_bytes s) (Z.to_nat fin) end;
          f_open := false; f_exists := f_exists s;
          d_parts := map (fun p => {| d_buf := None; d_woff := d_woff p; d_offset := d_offset p;
                                      d_size := d_size p |}) ps;
          d_final := fin; d_handles := d_handles s |}, ONone)
  | Remove =>
      ({| f_bytes := f_bytes s; f_open := f_open s; f_exists := false; d_parts := d_parts s;
          d_final := d_final s; d_handles := d_handles s |}, ONone)
  | Snap p =>
      (s, match nth_error (d_parts s) p with
          | Some dp =>
              match d_buf dp with
              | Some b => OBytes (sb_bytes b)
              | None => if f_exists s then OBytes (disk_part_bytes (f_bytes s) dp) else OErr
              end
          | None => ONone
          end)
  | Open (TPart p) =>
      match nth_error (d_parts s) p with
      | Some dp =>
          let h := match d_buf dp with
                   | Some b => Some (sb_bytes b)
                   | None => if f_exists s then Some (disk_part_bytes (f_bytes s) dp) else None
                   end in
          ({| f_bytes := f_bytes s; f_open := f_open s; f_exists := f_exists s; d_parts := d_parts s;
              d_final := d_final s; d_handles := d_handles s ++ [h] |},
           match h with Some _ => OOk | None => OErr end)
      | None => (s, ONone)
      end
  | Open TFile =>
      let h := if f_open s then None else if f_exists s then Some (f_bytes s) else None in
      ({| f_bytes := f_bytes s; f_open := f_open s; f_exists := f_exists s; d_parts := d_parts s;
          d_final := d_final s; d_handles := d_handles s ++ [h] |},
       match h with Some _ => OOk | None => OErr end)
  | ReadH h n =>
      let '(hs, ob) := read_handle (d_handles s) h n in
      ({| f_bytes := f_bytes s; f_open := f_open s; f_exists := f_exists s; d_parts := d_parts s;
          d_final := d_final s; d_handles := hs |}, ob)
  | Size => (s, ONum (d_final s))
  end.

(* ---------- running op lists ---------- *)
Section Run.
  Context {S : Type} (step : S -> sop -> S * obs).
  Fixpoint run (s : S) (ops : list sop) : S * list obs :=
    match ops with
    | [] => (s, [])
    | o :: ops' =>
        let '(s1, ob) := step s o in
        let '(s2, obs') := run s1 ops' in
        (s2, ob :: obs')
    end.
End Run.

Definition obs_spec (ops : list sop) : list obs := snd (run spec_step spec_init ops).
Definition obs_ram (ops : list sop) : list obs := snd (run ram_step ram_init ops).
Definition obs_disk (ops : list sop) : list obs := snd (run disk_step disk_init ops).

(* ---------- the op lists the property quantifies over ---------- *)
Record wfst := { w_parts : nat; w_final : bool; w_removed : bool; w_handles : nat }.

Definition wf_step (w : wfst) (o : sop) : option wfst :=
  match o with
  | NewPart => if w_final w then None
               else Some {| w_parts := S (w_parts w); w_final := false; w_removed := w_removed w;
                            w_handles := w_handles w |}
  | Write _ | Seek _ _ =>
      if w_final w || Nat.eqb (w_parts w) 0 then None else Some w
  | Finalize => if w_final w then None
                else Some {| w_parts := w_parts w; w_final := true; w_removed := w_removed w;
                             w_handles := w_handles w |}
  | Remove => if w_final w && negb (w_removed w)
              then Some {| w_parts := w_parts w; w_final := true; w_removed := true;
                           w_handles := w_handles w |}
              else None
  | Snap p => if Nat.ltb p (w_parts w) && negb (w_removed w) then Some w else None
  | Open (TPart p) =>
      (* only completed parts are opened: a later part exists, or the file is finalized *)
      if (Nat.ltb (S p) (w_parts w) || (Nat.ltb p (w_parts w) && w_final w)) && negb (w_removed w)
      then Some {| w_parts := w_parts w; w_final := w_final w; w_removed := w_removed w;
                   w_handles := S (w_handles w) |}
      else None
  | Open TFile =>
      if negb (w_removed w)
      then Some {| w_parts := w_parts w; w_final := w_final w; w_removed := w_removed w;
                   w_handles := S (w_handles w) |}
      else None
  | ReadH h _ => if Nat.ltb h (w_handles w) then Some w else None
  | Size => Some w
  end.

Fixpoint wf_from (w : wfst) (ops : list sop) : bool :=
  match ops with
  | [] => true
  | o :: ops' => match wf_step w o with Some w' => wf_from w' ops' | None => false end
  end.

Definition wf_ops (ops : list sop) : bool :=
  wf_from {| w_parts := 0; w_final := false; w_removed := false; w_handles := 0 |} ops.
