(* M2 - the hypotheses of the strict-grammar theorems of C15 (definitions only):
   [oracle_lex_ok]: the lexical shape assumed of the external formatters (FormatFloat with a
   fixed precision prints a decimal-floating-point, Time.Format an ISO 8601 date-time);
   [strict_media] / [strict_multivariant]: what the RFC grammar requires of a value beyond the
   documented field requirements [wf_media] / [wf_multivariant] of Model/PlaylistSpec.v. *)
From Coq Require Import List ZArith Bool String Ascii.
From GoHls Require Import Model.PlaylistBase Model.Playlist Model.PlaylistSpec Model.PlaylistStrict.
Import ListNotations.
Local Open Scope string_scope.
Local Open Scope Z_scope.

Record oracle_lex_ok (O : oracles) : Prop := {
  (* FormatFloat(d.Seconds(), 'f', 5, 64): [-]digits.digits, no sign for d >= 0 *)
  lex_dur : forall d, is_sfloat (fmt_dur O d) = true /\ (0 <= d -> is_float (fmt_dur O d) = true);
  (* FormatFloat(f, 'f', 3, 64) for a non-negative frame rate *)
  lex_rate : forall f, 0 <= f -> is_float (fmt_rate O f) = true;
  (* Format("2006-01-02T15:04:05.999Z07:00") for a year 0..9999 and a zone offset in whole minutes *)
  lex_time : forall t, time_ok t = true -> is_datetime (fmt_time O t) = true;
  (* ... on one line (implied by the date-time shape; kept separate to spare the proof a
     character-by-character inversion of is_datetime) *)
  lex_time_line : forall t, no_crlf (fmt_time O t) = true
}.

(* a URI line: no white space, no control characters (RFC 8216 4.1) *)
Definition uri_strict (s : string) : bool := negb (has_char (fun x => is_ws x || is_control x) s).

Definition is_none {A} (o : option A) : bool := match o with None => true | Some _ => false end.

(* the recorded finding: Marshal prints the BYTERANGE attribute of EXT-X-PART (and of EXT-X-MAP)
   unquoted; the RFC defines a quoted-string. Such values are excluded here and refuted in
   Proofs/PlaylistStrictExamples.v (c15_grammar_refuted_map_byterange, c15_grammar_refuted_part_byterange in Props/C15.v). *)
Definition strict_part (p : MediaPart) : bool := is_none (pt_brlen p).

(* IV is typed as a free string: the grammar wants a hexadecimal-sequence *)
Definition strict_key (k : MediaKey) : bool := String.eqb (k_iv k) "" || is_hex (k_iv k).

Definition strict_segment (s : MediaSegment) : bool :=
  uri_strict (sg_uri s) && opt_ok strict_key (sg_key s) && forallb strict_part (sg_parts s).

(* decimal-floating-point attributes carry no sign *)
Definition strict_server_control (t : MediaServerControl) : bool :=
  opt_ok (fun d => 0 <=? d) (sc_partholdback t) && opt_ok (fun d => 0 <=? d) (sc_canskipuntil t).

Definition strict_media (m : Media) : bool :=
  opt_ok strict_server_control (m_servercontrol m)
  && opt_ok (fun t => is_none (map_brlen t)) (m_map m)
  && forallb strict_segment (m_segments m) && forallb strict_part (m_parts m).

(* RESOLUTION is typed as a free string: the grammar wants a decimal-resolution *)
Definition strict_variant (v : MultivariantVariant) : bool :=
  uri_strict (v_uri v) && (String.eqb (v_resolution v) "" || is_resolution (v_resolution v)).

Definition strict_multivariant (m : Multivariant) : bool := forallb strict_variant (mv_variants m).
