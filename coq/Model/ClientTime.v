(* M6 (+ the decision logic of M9 that C10 needs) - client time normalisation.
   Executable model, definitions only; proofs live in Proofs/ClientTime*.v.

   Transcribed Go (names kept):
     muxer_segmenter.go    multiplyAndDivide, multiplyAndDivide2/timestampToDuration
     client_time_conv_fmp4.go    clientTimeConvFMP4.convert / setNTP / getNTP      -> fmp4_convert / fmp4_setNTP / fmp4_getNTP
     client_track.go       clientTrack.handleData                                  -> handleData
     client_track_processor_fmp4.go   clientTrackProcessorFMP4.process             -> process
     client_stream_processor_fmp4.go  fmp4PickLeadingTrack, findFirstPartTrackOfLeadingTrack,
                           findTimeScaleOfLeadingTrack, run (checks before setTracks),
                           initializeTrackProcessors (map ID -> processor), processSegment
     mediacommon mpegts/time_decoder.go   TimeDecoder.Decode                       -> Decode
     client_time_conv_mpegts.go   initialize / convert / setNTP / getNTP           -> mpegts_initialize / ...
     client_stream_processor_mpegts.go  mpegtsPickLeadingTrack, processSample, processSegment,
                           initializeReader's supportedTracks filter over Reader.Tracks()     -> supportedTracks / readerView
     mediacommon mpegts/reader.go   Read's dispatch r.onData[data.PID]               -> supportedIndex / readerDispatch
     client_stream_downloader.go  downloadSegment's Range computation              -> downloadRange

   Conventions (DESIGN.md section 3): all numbers are unbounded Z; time.Time is an integer
   number of nanoseconds (time.Time.Add(Duration) is exact in that representation); Go's
   truncating / and % are Z.quot / Z.rem; an integer division by zero is [Panic]; the
   33-bit mask of the MPEG-TS decoder is written as Z.land .. 0x1FFFFFFFF exactly as in Go
   (Z.land on negative numbers is two's complement, like Go's & on int64).

   What is NOT modelled: real-time pacing (handleData sleeps until dts): the model says what
   is delivered, not when. The wall-clock reading time.Since(startRTC) that handleData
   compares against is an environment input carried by every sample ([s_elapsed],
   [pe_elapsed]); the 10 s DTS-RTC cap is the error outcome [ErrDTSRTC].
   Payloads are opaque identifiers (decodePayload is C13's subject).
   Concurrency between stream processors: every stream is a function of the state of the
   shared leading time converter; which NTP anchor a rendition observes is an environment
   input ([pt_anchor], [pe_anchor]: index into the history of setNTP states of the leading
   stream). *)
From Coq Require Import List ZArith Bool.
Import ListNotations.
Local Open Scope Z_scope.

(* ---------- outcomes ---------- *)
Inductive err :=
| ErrDTSRTC              (* "difference between DTS and RTC is too big" *)
| ErrNoLeadingData       (* "could not find data of leading track" *)
| ErrRenditionTracks     (* "rendition playlists with multiple tracks are not supported" *)
| ErrTooManyTracks       (* "too many tracks per stream" *)
| ErrNoSupportedTracks   (* "no supported tracks found" *)
| ErrBlocked.            (* not a Go error: the goroutine would block forever
                            (waitLeadingTimeConv / getNTP with no leading state to observe) *)

Inductive res (A : Type) := Ok (a : A) | Err (e : err) | Panic.
Arguments Ok {A} a.
Arguments Err {A} e.
Arguments Panic {A}.

Definition bind {A B} (r : res A) (f : A -> res B) : res B :=
  match r with Ok a => f a | Err e => Err e | Panic => Panic end.

Local Notation "x <- e ;; k" := (bind e (fun x => k))
  (at level 61, e at next level, right associativity).

(* ---------- muxer_segmenter.go ---------- *)
Definition second : Z := 1000000000.
Definition clientMaxDTSRTCDiff : Z := 10 * second.
Definition clientMaxTracksPerStream : nat := 10.

(* secs := v / d; dec := v % d; return secs*m + dec*m/d *)
Definition multiplyAndDivide (v m d : Z) : res Z :=
  if d =? 0 then Panic
  else
    let secs := Z.quot v d in
    let dec := Z.rem v d in
    Ok (secs * m + Z.quot (dec * m) d).

(* multiplyAndDivide2(time.Duration(d), time.Second, time.Duration(clockRate)) *)
Definition timestampToDuration (d clockRate : Z) : res Z :=
  multiplyAndDivide d second clockRate.

(* ---------- client_time_conv_fmp4.go ---------- *)
Record ntpFMP4 := {
  ntpAvailable : bool; ntpValue : Z; ntpTimestamp : Z; ntpClockRate : Z }.
Definition ntpFMP4_zero : ntpFMP4 :=
  {| ntpAvailable := false; ntpValue := 0; ntpTimestamp := 0; ntpClockRate := 0 |}.

Record convFMP4 := { leadingTimeScale : Z; leadingBaseTime : Z }.

Definition fmp4_convert (ts : convFMP4) (v clockRate : Z) : res Z :=
  x <- multiplyAndDivide (leadingBaseTime ts) clockRate (leadingTimeScale ts) ;;
  Ok (v - x).

Definition fmp4_setNTP (value timestamp clockRate : Z) : ntpFMP4 :=
  {| ntpAvailable := true; ntpValue := value; ntpTimestamp := timestamp; ntpClockRate := clockRate |}.

Definition fmp4_getNTP (n : ntpFMP4) (timestamp clockRate : Z) : res (option Z) :=
  if negb (ntpAvailable n) then Ok None
  else
    x <- multiplyAndDivide (ntpTimestamp n) clockRate (ntpClockRate n) ;;
    d <- timestampToDuration (timestamp - x) clockRate ;;
    Ok (Some (ntpValue n + d)).

(* ---------- client_track.go ---------- *)
Record delivery := { dl_pts : Z; dl_dts : Z; dl_ntp : option Z; dl_data : Z }.

(* [elapsed] = time.Since(t.startRTC) at the call (environment input) *)
Definition handleData (clockRate elapsed pts dts : Z) (ntp : option Z) (data : Z)
  : res (option delivery) :=
  if pts <? 0 then Ok None
  else
    dtsDuration <- timestampToDuration dts clockRate ;;
    if (dtsDuration >? elapsed) && (dtsDuration - elapsed >? clientMaxDTSRTCDiff)
    then Err ErrDTSRTC
    else Ok (Some {| dl_pts := pts; dl_dts := dts; dl_ntp := ntp; dl_data := data |}).

(* ---------- parsed fMP4 content ---------- *)
Record initTrack := { it_id : Z; it_timeScale : Z; it_isVideo : bool }.
Record sample := { s_duration : Z; s_ptsOffset : Z; s_payload : Z; s_elapsed : Z }.
Record partTrack := { pt_id : Z; pt_baseTime : Z; pt_samples : list sample; pt_anchor : nat }.
Definition part := list partTrack.
Record segment := { sg_dateTime : option Z; sg_parts : list part }.
Record stream := { st_init : list initTrack; st_segments : list segment }.

(* ---------- client_track_processor_fmp4.go: process ---------- *)
Fixpoint process (clockRate entryDts : Z) (entryNtp : option Z) (dts : Z) (samples : list sample)
  : res (list delivery) :=
  match samples with
  | [] => Ok []
  | s :: rest =>
      let pts := dts + s_ptsOffset s in
      ntp <- (match entryNtp with
              | None => Ok None
              | Some n => d <- timestampToDuration (dts - entryDts) clockRate ;; Ok (Some (n + d))
              end) ;;
      r <- handleData clockRate (s_elapsed s) pts dts ntp (s_payload s) ;;
      ds <- process clockRate entryDts entryNtp (dts + s_duration s) rest ;;
      Ok (match r with Some d => d :: ds | None => ds end)
  end.

(* ---------- client_stream_processor_fmp4.go ---------- *)
Definition fmp4PickLeadingTrack (init : list initTrack) : res Z :=
  match find it_isVideo init with
  | Some t => Ok (it_id t)
  | None => match init with [] => Panic (* init.Tracks[0] *) | t :: _ => Ok (it_id t) end
  end.

Definition findInPart (p : part) (leadingTrackID : Z) : option partTrack :=
  find (fun pt => pt_id pt =? leadingTrackID) p.

Fixpoint findFirstPartTrackOfLeadingTrack (parts : list part) (leadingTrackID : Z)
  : option partTrack :=
  match parts with
  | [] => None
  | p :: ps =>
      match findInPart p leadingTrackID with
      | Some pt => Some pt
      | None => findFirstPartTrackOfLeadingTrack ps leadingTrackID
      end
  end.

Definition findTimeScaleOfLeadingTrack (tracks : list initTrack) (leadingTrackID : Z) : Z :=
  match find (fun t => it_id t =? leadingTrackID) tracks with
  | Some t => it_timeScale t
  | None => 0
  end.

(* p.trackProcessors[p.init.Tracks[i].ID] = trackProc for i = 0,1,..: a later track with the
   same ID overwrites; result = (position in the stream's track list, Track.ClockRate) *)
Fixpoint lookupProc_from (i : nat) (init : list initTrack) (id : Z) (acc : option (nat * Z))
  : option (nat * Z) :=
  match init with
  | [] => acc
  | t :: r => lookupProc_from (S i) r id (if it_id t =? id then Some (i, it_timeScale t) else acc)
  end.
Definition lookupProc (init : list initTrack) (id : Z) : option (nat * Z) :=
  lookupProc_from 0 init id None.

(* one part track of processSegment's double loop: convert, getNTP, push -> process *)
Definition processPartTrack (init : list initTrack) (conv : convFMP4)
           (ntpFor : partTrack -> res ntpFMP4) (pt : partTrack) : res (list (nat * delivery)) :=
  match lookupProc init (pt_id pt) with
  | None => Ok []                                     (* if !ok { continue } *)
  | Some (j, rate) =>
      dts <- fmp4_convert conv (pt_baseTime pt) rate ;;
      n <- ntpFor pt ;;
      ntp <- fmp4_getNTP n dts rate ;;
      ds <- process rate dts ntp dts (pt_samples pt) ;;
      Ok (map (pair j) ds)
  end.

Fixpoint processPartTracks (init : list initTrack) (conv : convFMP4)
         (ntpFor : partTrack -> res ntpFMP4) (pts : list partTrack) : res (list (nat * delivery)) :=
  match pts with
  | [] => Ok []
  | pt :: r =>
      a <- processPartTrack init conv ntpFor pt ;;
      b <- processPartTracks init conv ntpFor r ;;
      Ok (a ++ b)
  end.

Definition processParts (init : list initTrack) (conv : convFMP4)
           (ntpFor : partTrack -> res ntpFMP4) (parts : list part) : res (list (nat * delivery)) :=
  processPartTracks init conv ntpFor (concat parts).

(* the head of processSegment for the leading stream: find the leading part track, create
   the time converter on the first segment, setNTP when the segment has a date *)
Definition segStartLeading (init : list initTrack) (leadingTrackID : Z)
           (conv0 : option convFMP4) (cur : ntpFMP4) (seg : segment) : res (convFMP4 * ntpFMP4) :=
  match findFirstPartTrackOfLeadingTrack (sg_parts seg) leadingTrackID with
  | None => Err ErrNoLeadingData
  | Some lpt =>
      let conv := match conv0 with
                  | Some c => c
                  | None => {| leadingTimeScale := findTimeScaleOfLeadingTrack init leadingTrackID;
                               leadingBaseTime := pt_baseTime lpt |}
                  end in
      match sg_dateTime seg with
      | None => Ok (conv, cur)
      | Some dt =>
          match lookupProc init (pt_id lpt) with
          | None => Panic            (* p.trackProcessors[leadingPartTrack.ID] is nil *)
          | Some (_, rate) =>
              dts <- fmp4_convert conv (pt_baseTime lpt) rate ;;
              Ok (conv, fmp4_setNTP dt dts rate)
          end
      end
  end.

(* leading stream: returns deliveries (track position, delivery), the converter, and the
   history of NTP states (one per processed segment) that renditions may observe *)
Fixpoint runLeadingSegs (init : list initTrack) (leadingTrackID : Z)
         (conv0 : option convFMP4) (cur : ntpFMP4) (segs : list segment)
  : res (list (nat * delivery) * option convFMP4 * list ntpFMP4) :=
  match segs with
  | [] => Ok ([], conv0, [])
  | seg :: rest =>
      cn <- segStartLeading init leadingTrackID conv0 cur seg ;;
      let '(conv, n) := cn in
      a <- processParts init conv (fun _ => Ok n) (sg_parts seg) ;;
      r <- runLeadingSegs init leadingTrackID (Some conv) n rest ;;
      let '(b, c, h) := r in
      Ok (a ++ b, c, n :: h)
  end.

(* the checks of run() before setTracks *)
Definition streamPrologue (isLeading : bool) (init : list initTrack) : res Z :=
  if negb isLeading && negb (Nat.eqb (length init) 1) then Err ErrRenditionTracks
  else
    lid <- fmp4PickLeadingTrack init ;;
    if Nat.ltb clientMaxTracksPerStream (length init) then Err ErrTooManyTracks
    else Ok lid.

Definition runLeadingFMP4 (st : stream)
  : res (list (nat * delivery) * option convFMP4 * list ntpFMP4) :=
  lid <- streamPrologue true (st_init st) ;;
  runLeadingSegs (st_init st) lid None ntpFMP4_zero (st_segments st).

(* a rendition stream: every segment must contain its (only) track; the converter is the
   leading stream's; the NTP state is whichever the leading stream set last ([pt_anchor]) *)
Definition anchorNtp (hist : list ntpFMP4) (pt : partTrack) : res ntpFMP4 :=
  match nth_error hist (pt_anchor pt) with Some n => Ok n | None => Err ErrBlocked end.

Fixpoint runRenditionSegs (init : list initTrack) (leadingTrackID : Z)
         (conv : convFMP4) (hist : list ntpFMP4) (segs : list segment)
  : res (list (nat * delivery)) :=
  match segs with
  | [] => Ok []
  | seg :: rest =>
      match findFirstPartTrackOfLeadingTrack (sg_parts seg) leadingTrackID with
      | None => Err ErrNoLeadingData
      | Some _ =>
          a <- processParts init conv (anchorNtp hist) (sg_parts seg) ;;
          b <- runRenditionSegs init leadingTrackID conv hist rest ;;
          Ok (a ++ b)
      end
  end.

Definition runRenditionFMP4 (conv : option convFMP4) (hist : list ntpFMP4) (st : stream)
  : res (list (nat * delivery)) :=
  lid <- streamPrologue false (st_init st) ;;
  match st_segments st with
  | [] => Ok []
  | _ =>
      match conv with
      | None => Err ErrBlocked                   (* waitLeadingTimeConv never returns *)
      | Some c => runRenditionSegs (st_init st) lid c hist (st_segments st)
      end
  end.

Definition shiftTrack (off : nat) (l : list (nat * delivery)) : list (nat * delivery) :=
  map (fun x => ((fst x + off)%nat, snd x)) l.

(* client tracks = leading stream's tracks ++ one track per rendition, in order *)
Fixpoint runRenditionsFMP4 (conv : option convFMP4) (hist : list ntpFMP4) (off : nat)
         (rs : list stream) : res (list (nat * delivery)) :=
  match rs with
  | [] => Ok []
  | st :: r =>
      a <- runRenditionFMP4 conv hist st ;;
      b <- runRenditionsFMP4 conv hist (S off) r ;;
      Ok (shiftTrack off a ++ b)
  end.

Definition runClientFMP4 (leading : stream) (renditions : list stream)
  : res (list (nat * delivery)) :=
  l <- runLeadingFMP4 leading ;;
  let '(a, conv, hist) := l in
  b <- runRenditionsFMP4 conv hist (length (st_init leading)) renditions ;;
  Ok (a ++ b).

(* deliveries of client track j, in delivery order *)
Definition proj (j : nat) (l : list (nat * delivery)) : list delivery :=
  map snd (filter (fun x => Nat.eqb (fst x) j) l).

(* ---------- mediacommon: mpegts.TimeDecoder ---------- *)
Definition maximum : Z := 8589934591.           (* 0x1FFFFFFFF, 33 bits *)
Definition negativeThreshold : Z := Z.quot 8589934591 2.

Record timeDecoder := { td_initialized : bool; td_overall : Z; td_prev : Z }.
Definition td_zero : timeDecoder := {| td_initialized := false; td_overall := 0; td_prev := 0 |}.

Definition Decode (d : timeDecoder) (ts : Z) : timeDecoder * Z :=
  (* if !d.initialized { d.initialized = true; d.prev = ts } *)
  let prev0 := if td_initialized d then td_prev d else ts in
  let diff := Z.land (ts - prev0) maximum in
  if diff >? negativeThreshold then
    let diff2 := Z.land (prev0 - ts) maximum in
    ({| td_initialized := true; td_overall := td_overall d - diff2; td_prev := ts |},
     td_overall d - diff2)
  else
    ({| td_initialized := true; td_overall := td_overall d + diff; td_prev := ts |},
     td_overall d + diff).

Fixpoint decode_all (d : timeDecoder) (calls : list Z) : list Z :=
  match calls with
  | [] => []
  | ts :: r => let '(d', v) := Decode d ts in v :: decode_all d' r
  end.

(* ---------- client_time_conv_mpegts.go ---------- *)
Record ntpMPEGTS := { mntpAvailable : bool; mntpValue : Z; mntpTimestamp : Z }.
Definition ntpMPEGTS_zero : ntpMPEGTS := {| mntpAvailable := false; mntpValue := 0; mntpTimestamp := 0 |}.

(* initialize: td.Decode(startDTS) *)
Definition mpegts_initialize (startDTS : Z) : timeDecoder := fst (Decode td_zero startDTS).
Definition mpegts_convert (td : timeDecoder) (v : Z) : timeDecoder * Z := Decode td v.
Definition mpegts_setNTP (value timestamp : Z) : ntpMPEGTS :=
  {| mntpAvailable := true; mntpValue := value; mntpTimestamp := timestamp |}.
Definition mpegts_getNTP (n : ntpMPEGTS) (timestamp : Z) : res (option Z) :=
  if negb (mntpAvailable n) then Ok None
  else d <- timestampToDuration (timestamp - mntpTimestamp n) 90000 ;; Ok (Some (mntpValue n + d)).

(* ---------- parsed MPEG-TS content: the callbacks of mpegts.Reader in call order ---------- *)
Inductive mcodec := MH264 | MAudio.
Record pes := { pe_track : nat;        (* index into the supported tracks *)
                pe_rawPTS : Z; pe_rawDTS : Z; pe_payload : Z; pe_elapsed : Z; pe_anchor : nat }.
Record msegment := { ms_dateTime : option Z; ms_pes : list pes }.
Record mstream := { mst_tracks : list mcodec; mst_segments : list msegment }.

Fixpoint firstH264_from (i : nat) (tracks : list mcodec) : option nat :=
  match tracks with
  | [] => None
  | MH264 :: _ => Some i
  | _ :: r => firstH264_from (S i) r
  end.
Definition mpegtsPickLeadingTrack (tracks : list mcodec) : nat :=
  match firstH264_from 0 tracks with Some i => i | None => O end.

(* state of one clientStreamProcessorMPEGTS + the shared converter *)
Record mstate := {
  m_td : option timeDecoder;        (* the client's leading time converter, once it exists *)
  m_ntp : ntpMPEGTS;                (* its NTP anchor *)
  m_hist : list ntpMPEGTS;          (* every state setNTP / segment start produced (leading stream) *)
  m_trackProcessors : bool;         (* p.trackProcessors != nil *)
  m_leadingTrackFound : bool;
  m_dateTimeProcessed : bool }.

Definition set_td (s : mstate) (td : timeDecoder) : mstate :=
  {| m_td := Some td; m_ntp := m_ntp s; m_hist := m_hist s; m_trackProcessors := m_trackProcessors s;
     m_leadingTrackFound := m_leadingTrackFound s; m_dateTimeProcessed := m_dateTimeProcessed s |}.

(* processSample; [isLeading] = p.isLeading, [lead] = leadingTrackID, [dt] = curSegment.dateTime *)
Definition processSample (isLeading : bool) (tracks : list mcodec) (lead : nat)
           (dt : option Z) (s : mstate) (e : pes) : res (mstate * list (nat * delivery)) :=
  match nth_error tracks (pe_track e) with
  | None => Ok (s, [])                         (* no callback registered for that PID *)
  | Some codec =>
      (* OnDataMPEG4Audio: processSample(pts, pts, aus) *)
      let rawPTS := pe_rawPTS e in
      let rawDTS := match codec with MH264 => pe_rawDTS e | MAudio => pe_rawPTS e end in
      let isLeadingTrack := Nat.eqb (pe_track e) lead in
      (* if isLeadingTrack { leadingTrackFound = true; if trackProcessors == nil { initializeTrackProcessors } } *)
      s1 <- (if isLeadingTrack then
               if m_trackProcessors s then
                 Ok {| m_td := m_td s; m_ntp := m_ntp s; m_hist := m_hist s; m_trackProcessors := true;
                       m_leadingTrackFound := true; m_dateTimeProcessed := m_dateTimeProcessed s |}
               else
                 td <- (if isLeading then Ok (Some (mpegts_initialize rawDTS))
                        else match m_td s with Some td => Ok (Some td) | None => Err ErrBlocked end) ;;
                 Ok {| m_td := td; m_ntp := m_ntp s; m_hist := m_hist s; m_trackProcessors := true;
                       m_leadingTrackFound := true; m_dateTimeProcessed := m_dateTimeProcessed s |}
             else Ok s) ;;
      (* wait leading track before proceeding *)
      if negb (m_trackProcessors s1) then Ok (s1, [])
      else
        match m_td s1 with
        | None => Panic                          (* leadingTimeConvMPEGTS on a nil interface *)
        | Some td0 =>
            let '(td1, pts) := mpegts_convert td0 rawPTS in
            let '(td2, dts) := mpegts_convert td1 rawDTS in
            let setsDate := negb (m_dateTimeProcessed s1) && isLeading && isLeadingTrack in
            let n := if setsDate then match dt with Some v => mpegts_setNTP v dts | None => m_ntp s1 end
                     else m_ntp s1 in
            let hist := if setsDate then m_hist s1 ++ [n] else m_hist s1 in
            nobs <- (if isLeading then Ok n
                     else match nth_error hist (pe_anchor e) with
                          | Some x => Ok x | None => Err ErrBlocked end) ;;
            ntp <- mpegts_getNTP nobs dts ;;
            r <- handleData 90000 (pe_elapsed e) pts dts ntp (pe_payload e) ;;
            Ok ({| m_td := Some td2; m_ntp := n; m_hist := hist; m_trackProcessors := true;
                   m_leadingTrackFound := m_leadingTrackFound s1;
                   m_dateTimeProcessed := m_dateTimeProcessed s1 || setsDate |},
                match r with Some d => [(pe_track e, d)] | None => [] end)
        end
  end.

Fixpoint processPES (isLeading : bool) (tracks : list mcodec) (lead : nat) (dt : option Z)
         (s : mstate) (l : list pes) : res (mstate * list (nat * delivery)) :=
  match l with
  | [] => Ok (s, [])
  | e :: r =>
      x <- processSample isLeading tracks lead dt s e ;;
      let '(s1, a) := x in
      y <- processPES isLeading tracks lead dt s1 r ;;
      let '(s2, b) := y in
      Ok (s2, a ++ b)
  end.

(* processSegment: reset the per-segment flags, read everything, check leadingTrackFound *)
Definition processSegmentM (isLeading : bool) (tracks : list mcodec) (lead : nat)
           (s : mstate) (seg : msegment) : res (mstate * list (nat * delivery)) :=
  let s0 := {| m_td := m_td s; m_ntp := m_ntp s; m_hist := m_hist s;
               m_trackProcessors := m_trackProcessors s;
               m_leadingTrackFound := false; m_dateTimeProcessed := false |} in
  x <- processPES isLeading tracks lead (ms_dateTime seg) s0 (ms_pes seg) ;;
  let '(s1, a) := x in
  if negb (m_leadingTrackFound s1) then Err ErrNoLeadingData else Ok (s1, a).

Fixpoint processSegmentsM (isLeading : bool) (tracks : list mcodec) (lead : nat)
         (s : mstate) (segs : list msegment) : res (mstate * list (nat * delivery)) :=
  match segs with
  | [] => Ok (s, [])
  | seg :: r =>
      x <- processSegmentM isLeading tracks lead s seg ;;
      let '(s1, a) := x in
      y <- processSegmentsM isLeading tracks lead s1 r ;;
      let '(s2, b) := y in
      Ok (s2, a ++ b)
  end.

(* initializeReader's checks happen when the first segment arrives *)
Definition runStreamMPEGTS (isLeading : bool) (s : mstate) (st : mstream)
  : res (mstate * list (nat * delivery)) :=
  match mst_segments st with
  | [] => Ok (s, [])
  | _ =>
      if Nat.eqb (length (mst_tracks st)) 0 then Err ErrNoSupportedTracks
      else if Nat.ltb clientMaxTracksPerStream (length (mst_tracks st)) then Err ErrTooManyTracks
      else
        let s0 := {| m_td := m_td s; m_ntp := m_ntp s; m_hist := m_hist s; m_trackProcessors := false;
                     m_leadingTrackFound := false; m_dateTimeProcessed := false |} in
        processSegmentsM isLeading (mst_tracks st) (mpegtsPickLeadingTrack (mst_tracks st)) s0
                         (mst_segments st)
  end.

Definition mstate_zero : mstate :=
  {| m_td := None; m_ntp := ntpMPEGTS_zero; m_hist := []; m_trackProcessors := false;
     m_leadingTrackFound := false; m_dateTimeProcessed := false |}.

(* One representative schedule of the concurrent stream processors: the leading stream,
   then each rendition (they share the TimeDecoder). Proofs/ClientTimeDecode.v shows every
   Decode result is t - t0 whatever the call order as long as consecutive calls are less
   than 2^32 ticks apart, so the delivered values do not depend on this choice. *)
Fixpoint runRenditionsMPEGTS (s : mstate) (off : nat) (rs : list mstream)
  : res (list (nat * delivery)) :=
  match rs with
  | [] => Ok []
  | st :: r =>
      x <- runStreamMPEGTS false s st ;;
      let '(s1, a) := x in
      b <- runRenditionsMPEGTS s1 (off + length (mst_tracks st))%nat r ;;
      Ok (shiftTrack off a ++ b)
  end.

Definition runClientMPEGTS (leading : mstream) (renditions : list mstream)
  : res (list (nat * delivery)) :=
  x <- runStreamMPEGTS true mstate_zero leading ;;
  let '(s1, a) := x in
  b <- runRenditionsMPEGTS s1 (length (mst_tracks leading)) renditions ;;
  Ok (a ++ b).

(* ---------- the PMT: mediacommon's Reader.Tracks() and initializeReader's filter ---------- *)
(* What an elementary stream of the PMT is to the client: initializeReader's type switch
   keeps *mpegts.CodecH264 and *mpegts.CodecMPEG4Audio, every other codec mediacommon's
   Track.unmarshal can produce (H265, MPEG-1/2/4 video, MPEG-1 audio, AC-3, Opus,
   CodecUnsupported) is skipped. *)
Inductive pmtCodec := PH264 | PMPEG4Audio | POther.

(* a MPEG-TS playlist as mediacommon's Reader presents it: [pmt_tracks] = p.reader.Tracks()
   (PMT order); the segments list every PES the demultiplexer completes, in order, with
   [pe_track] = position of the PES's PID in the PMT *)
Record pmtStream := { pmt_tracks : list pmtCodec; pmt_segments : list msegment }.

(* supportedTracks: for _, track := range p.reader.Tracks() { switch track.Codec.(type) {
   case *mpegts.CodecH264, *mpegts.CodecMPEG4Audio: supportedTracks = append(..) } } *)
Fixpoint supportedTracks (l : list pmtCodec) : list mcodec :=
  match l with
  | [] => []
  | PH264 :: r => MH264 :: supportedTracks r
  | PMPEG4Audio :: r => MAudio :: supportedTracks r
  | POther :: r => supportedTracks r
  end.

(* Reader.Read: onData, ok := r.onData[data.PID]; if !ok { return nil }. initializeReader
   registers a callback for supportedTracks[i] only (OnDataH264 / OnDataMPEG4Audio), whose
   closure knows i: PMT position k -> i, None when no callback is registered for that PID *)
Fixpoint supportedIndex (l : list pmtCodec) (k : nat) : option nat :=
  match l with
  | [] => None
  | c :: r =>
      match k with
      | O => match c with POther => None | _ => Some O end
      | S k' =>
          match supportedIndex r k' with
          | None => None
          | Some i => Some (match c with POther => i | _ => S i end)
          end
      end
  end.

Definition readerDispatch (l : list pmtCodec) (e : pes) : list pes :=
  match supportedIndex l (pe_track e) with
  | None => []
  | Some i => [{| pe_track := i; pe_rawPTS := pe_rawPTS e; pe_rawDTS := pe_rawDTS e;
                  pe_payload := pe_payload e; pe_elapsed := pe_elapsed e; pe_anchor := pe_anchor e |}]
  end.

Definition readerSegment (l : list pmtCodec) (s : msegment) : msegment :=
  {| ms_dateTime := ms_dateTime s; ms_pes := flat_map (readerDispatch l) (ms_pes s) |}.

(* what the stream processor's callbacks see: the supported tracks, and the PES that arrive
   on their PIDs; leadingTrackID := mpegtsPickLeadingTrack(supportedTracks) and the
   "no supported tracks found" check are in [runStreamMPEGTS] *)
Definition readerView (st : pmtStream) : mstream :=
  {| mst_tracks := supportedTracks (pmt_tracks st);
     mst_segments := map (readerSegment (pmt_tracks st)) (pmt_segments st) |}.

Definition runStreamPMT (isLeading : bool) (s : mstate) (st : pmtStream)
  : res (mstate * list (nat * delivery)) :=
  runStreamMPEGTS isLeading s (readerView st).

(* the tracks OnTracks reports: the supported tracks of the leading playlist, then those of
   each rendition (setTracks), every one with ClockRate 90000 *)
Definition reportedTracksPMT (leading : pmtStream) (renditions : list pmtStream) : list mcodec :=
  supportedTracks (pmt_tracks leading) ++ flat_map (fun st => supportedTracks (pmt_tracks st)) renditions.

Definition runClientPMT (leading : pmtStream) (renditions : list pmtStream)
  : res (list (nat * delivery)) :=
  runClientMPEGTS (readerView leading) (map readerView renditions).

(* ---------- client_stream_downloader.go: downloadSegment's Range header ---------- *)
(* length != nil: "bytes=<start>-<start+length-1>" with start defaulting to 0 *)
Definition downloadRange (start length : option Z) : option (Z * Z) :=
  match length with
  | None => None                              (* whole resource *)
  | Some l => let s := match start with Some s => s | None => 0 end in Some (s, s + l - 1)
  end.
