(* M8 - client lifecycle: executable process-network skeleton (definitions only; proofs in
   Proofs/ClientLife.v).

   Transcribed Go (names kept; the synchronisation skeletons of these functions are compared
   with the source by Model/ClientLifeOps.v: skel_ok on every run):

     Client.run            c.outErr <- c.runInner()                      -> RSend / ERunSend
     Client.runInner       rp.initialize(); rp.add(primaryDownloader)    -> init
                           select { err := <-rp.errorChan(): rp.close(); return err
                                    <-c.ctx.Done():          rp.close(); return "terminated" }
                                                                         -> RSelect, ERunRecv / ERunCtx
     clientRoutinePool.close   rp.ctxCancel(); rp.wg.Wait()              -> RCancel / RWait, ERunCancel / ERunWait
     clientRoutinePool.add     rp.wg.Add(1); go func() { defer rp.wg.Done()
                                 err := r.run(rp.ctx)
                                 if err != nil { select { rp.err <- err; <-rp.ctx.Done() } } }()
                                                                         -> ASpawn; GSending, GExit, AWgDone
     Client.Close          c.ctxCancel()                                 -> EClose (any time, any number of times)
     Client.Wait           return c.outErr                               -> [out]

   A runnable (r.run) is a sequence of blocking operations taken from the generated table
   ([pool_ops tbl]) with arbitrary code between them: which operation comes next, whether the
   runnable adds another runnable to the pool, invokes a user callback or returns (with or
   without an error) is chosen by the schedule, so a theorem for all schedules is a theorem for
   all such code.  The unbuffered channels between runnables are over-approximated: a blocking
   operation with a non-cancellation alternative may complete at any time ([AComplete]); it may
   complete through its cancellation alternative only when the pool context is cancelled and
   [cancel_wakes] holds for it.

   What is assumed (explicit parameters, hypotheses of the theorems in Proofs/ClientLife.v):
     nh      what net/http does with an operation that carries a request context when that
             context is cancelled (hypothesis: Do and body reads return);
     fuel    once the pool context is cancelled the code of the runnables performs at most
             [fuel] further actions in total (operations started, runnables added, callbacks
             invoked) - "code between blocking operations terminates", including the loops over
             the finite content of a segment.  Before the cancellation nothing is bounded (a live
             stream runs forever). *)
From Coq Require Import List Bool Arith String.
From GoHls Require Import Lib.ClientLifeIR Model.ClientLifeOps.
Import ListNotations.

Inductive err :=
| EEOS            (* ErrClientEOS, returned by clientPrimaryDownloader.run *)
| EHttpStatus     (* "bad status code" *)
| ETransport      (* error returned by http.Client.Do *)
| EBodyRead       (* error returned by io.ReadAll(res.Body) *)
| EOnTracks       (* error returned by the user's OnTracks *)
| EOther.         (* any other error returned by a runnable (decode error, "terminated", ...) *)

Inductive result := RErr (e : err) | RTerminated.      (* the value sent on outErr *)

Inductive cbk := CbOnTracks | CbOther.  (* OnTracks / OnRequest, OnDownload*, OnData*, OnDecodeError *)

(* program counter of a pool goroutine (the wrapper of clientRoutinePool.add around r.run) *)
Inductive gpc :=
| GBody                     (* inside r.run, between blocking operations *)
| GBlocked (o : blockop)    (* inside r.run, in blocking operation o *)
| GSending (e : err)        (* r.run returned e: select { rp.err <- e; <-rp.ctx.Done() } *)
| GExit                     (* deferred rp.wg.Done() not yet executed *)
| GDone.

Inductive runpc :=
| RSelect                   (* runInner: in the select *)
| RCancel (v : result)      (* a case was taken; rp.close(): before rp.ctxCancel() *)
| RWait (v : result)        (* rp.close(): in rp.wg.Wait() *)
| RSend (v : result)        (* run: about to send on outErr *)
| RDone.

Inductive gact :=
| AStart (o : blockop)      (* GBody -> GBlocked o *)
| AComplete                 (* the operation returns through a non-cancellation alternative *)
| AFault (e : err)          (* an HTTP operation fails; the runnable returns e *)
| ACancelled                (* the operation returns because the pool context is cancelled *)
| ASpawn                    (* rp.add(another runnable) *)
| ACallback (cb : cbk) (ret : option err)   (* a user callback; OnTracks may return an error *)
| AReturn (r : option err)  (* r.run returns *)
| ASendCancelled            (* wrapper select takes <-rp.ctx.Done() *)
| AWgDone.                  (* deferred rp.wg.Done() *)

Inductive event :=
| EClose                    (* the user calls Client.Close() *)
| EG (g : nat) (a : gact)   (* pool goroutine g *)
| ERunRecv (g : nat)        (* runInner's select receives the error goroutine g is sending *)
| ERunCtx                   (* runInner's select takes <-c.ctx.Done() *)
| ERunCancel                (* rp.ctxCancel() *)
| ERunWait                  (* rp.wg.Wait() returns *)
| ERunSend.                 (* c.outErr <- v *)

(* ghost history, newest first *)
Inductive logev :=
| LClose
| LCallback (g : nat) (cb : cbk)
| LFault (g : nat) (e : err)        (* an HTTP failure or an OnTracks error occurred in g *)
| LDelivered (g : nat) (e : err)    (* runInner received e from g on the pool's error channel *)
| LPoolCancel
| LResult (v : result).             (* v was sent on outErr *)

Record state := {
  cctx : bool;              (* client context cancelled (Close was called) *)
  pctx : bool;              (* pool context cancelled *)
  wg : nat;                 (* rp.wg counter *)
  gs : list gpc;            (* pool goroutines, in the order they were added *)
  rpc : runpc;
  out : list result;        (* content of the buffered channel outErr (capacity 1) *)
  fuel : nat;
  log : list logev
}.

Definition out_cap : nat := 1.

Definition init (F : nat) : state :=
  {| cctx := false; pctx := false; wg := 1; gs := [GBody]; rpc := RSelect; out := []; fuel := F; log := [] |}.

Fixpoint upd (l : list gpc) (i : nat) (p : gpc) : list gpc :=
  match l, i with
  | [], _ => []
  | _ :: r, O => p :: r
  | x :: r, S i' => x :: upd r i' p
  end.

Definition is_http (o : blockop) : bool :=
  match bo_kind o with KHttpDo _ _ | KReadAll _ _ => true | _ => false end.

(* has an alternative other than the cancellation *)
Definition has_normal_alt (o : blockop) : bool :=
  match bo_kind o with KRecvDone _ => false | _ => true end.

Section Model.
  Variable tbl : gen.
  Variable nh : blockop -> bool.

  Definition set_g (s : state) (g : nat) (p : gpc) (l : list logev) : state :=
    {| cctx := cctx s; pctx := pctx s; wg := wg s; gs := upd (gs s) g p; rpc := rpc s; out := out s;
       fuel := fuel s; log := l ++ log s |}.

  (* an action of the runnable's own code: free before the cancellation, costs fuel after it *)
  Definition spend (s : state) : option state :=
    if pctx s then
      match fuel s with
      | O => None
      | S f => Some {| cctx := cctx s; pctx := pctx s; wg := wg s; gs := gs s; rpc := rpc s; out := out s;
                       fuel := f; log := log s |}
      end
    else Some s.

  Definition gstep (s : state) (g : nat) (a : gact) : option state :=
    match nth_error (gs s) g with
    | None => None
    | Some pc =>
        match pc, a with
        | GBody, AStart o =>
            if existsb (blockop_eqb o) (pool_ops tbl)
            then match spend s with Some s1 => Some (set_g s1 g (GBlocked o) []) | None => None end
            else None
        | GBody, ASpawn =>
            match spend s with
            | Some s1 => Some {| cctx := cctx s1; pctx := pctx s1; wg := S (wg s1); gs := gs s1 ++ [GBody];
                                 rpc := rpc s1; out := out s1; fuel := fuel s1; log := log s1 |}
            | None => None
            end
        | GBody, ACallback cb ret =>
            match spend s with
            | Some s1 =>
                match cb, ret with
                | CbOnTracks, Some e => Some (set_g s1 g (GSending e) [LFault g e; LCallback g cb])
                | _, _ => Some (set_g s1 g GBody [LCallback g cb])
                end
            | None => None
            end
        | GBody, AReturn (Some e) => Some (set_g s g (GSending e) [])
        | GBody, AReturn None => Some (set_g s g GExit [])
        | GBlocked o, AComplete => if has_normal_alt o then Some (set_g s g GBody []) else None
        | GBlocked o, AFault e => if is_http o then Some (set_g s g (GSending e) [LFault g e]) else None
        | GBlocked o, ACancelled =>
            if pctx s && cancel_wakes tbl nh o then Some (set_g s g GBody []) else None
        | GSending e, ASendCancelled => if pctx s then Some (set_g s g GExit []) else None
        | GExit, AWgDone =>
            Some {| cctx := cctx s; pctx := pctx s; wg := pred (wg s); gs := upd (gs s) g GDone; rpc := rpc s;
                    out := out s; fuel := fuel s; log := log s |}
        | _, _ => None
        end
    end.

  Definition set_run (s : state) (p : runpc) (l : list logev) : state :=
    {| cctx := cctx s; pctx := pctx s; wg := wg s; gs := gs s; rpc := p; out := out s; fuel := fuel s;
       log := l ++ log s |}.

  Definition step (s : state) (e : event) : option state :=
    match e with
    | EClose =>
        Some {| cctx := true; pctx := pctx s; wg := wg s; gs := gs s; rpc := rpc s; out := out s; fuel := fuel s;
                log := LClose :: log s |}
    | EG g a => gstep s g a
    | ERunRecv g =>
        match rpc s, nth_error (gs s) g with
        | RSelect, Some (GSending e) =>
            Some {| cctx := cctx s; pctx := pctx s; wg := wg s; gs := upd (gs s) g GExit; rpc := RCancel (RErr e);
                    out := out s; fuel := fuel s; log := LDelivered g e :: log s |}
        | _, _ => None
        end
    | ERunCtx =>
        match rpc s with
        | RSelect => if cctx s then Some (set_run s (RCancel RTerminated) []) else None
        | _ => None
        end
    | ERunCancel =>
        match rpc s with
        | RCancel v =>
            Some {| cctx := cctx s; pctx := true; wg := wg s; gs := gs s; rpc := RWait v; out := out s;
                    fuel := fuel s; log := LPoolCancel :: log s |}
        | _ => None
        end
    | ERunWait =>
        match rpc s with
        | RWait v => if Nat.eqb (wg s) 0 then Some (set_run s (RSend v) []) else None
        | _ => None
        end
    | ERunSend =>
        match rpc s with
        | RSend v =>
            if Nat.ltb (List.length (out s)) out_cap
            then Some {| cctx := cctx s; pctx := pctx s; wg := wg s; gs := gs s; rpc := RDone; out := out s ++ [v];
                         fuel := fuel s; log := LResult v :: log s |}
            else None          (* the send would block *)
        | _ => None
        end
    end.

  (* a schedule is a list of events; an event that is not enabled is a stutter *)
  Definition step_or_stay (s : state) (e : event) : state :=
    match step s e with Some s' => s' | None => s end.

  Definition exec (s : state) (sch : list event) : state := fold_left step_or_stay sch s.

  Definition reachable (F : nat) (s : state) : Prop := exists sch, s = exec (init F) sch.
End Model.

(* ---------- observations used by the theorems and by the tie ---------- *)
Fixpoint live (l : list gpc) : nat :=
  match l with
  | [] => 0
  | GDone :: r => live r
  | _ :: r => S (live r)
  end.

Definition all_done (l : list gpc) : bool :=
  forallb (fun p => match p with GDone => true | _ => false end) l.

Definition is_callback (e : logev) : bool := match e with LCallback _ _ => true | _ => false end.
Definition is_result (e : logev) : bool := match e with LResult _ => true | _ => false end.

(* the errors delivered on the pool's error channel, oldest first *)
Fixpoint delivered (l : list logev) : list err :=
  match l with
  | [] => []
  | LDelivered _ e :: r => delivered r ++ [e]
  | _ :: r => delivered r
  end.

(* the values ever sent on outErr, oldest first *)
Fixpoint results (l : list logev) : list result :=
  match l with
  | [] => []
  | LResult v :: r => results r ++ [v]
  | _ :: r => results r
  end.

Fixpoint closed_before_result (l : list logev) : bool :=   (* a Close precedes the result in time *)
  match l with
  | [] => false
  | LResult _ :: r => existsb (fun e => match e with LClose => true | _ => false end) r
  | _ :: r => closed_before_result r
  end.

(* no callback entry is newer than a result entry (log is newest first) *)
Fixpoint no_callback_after_result (l : list logev) : bool :=
  match l with
  | [] => true
  | LCallback _ _ :: r => negb (existsb is_result r) && no_callback_after_result r
  | _ :: r => no_callback_after_result r
  end.
