(* The small IR of synchronisation skeletons (DESIGN 6.3): what tools/muxconc extracts from the
   Go source and what the pc automata of Model/MuxConcPar.v were transcribed from. *)
From Coq Require Import List String.

Inductive sk :=
| SLock | SUnlock | SDeferUnlock | SWait | SBroadcast
| SRLock | SRUnlock            (* the server's table lock (sync.RWMutex), not modelled as a thread *)
| SSetClosed                   (* an assignment to a field named closed *)
| SStreamClose                 (* stream.close() *)
| SHook (h : string)
| SRange (over : string) (body : list sk)
| SLoop (body : list sk)
| SIf (cond : string) (thn els : list sk)
| SBreak | SReturn
| SFunc (body : list sk).      (* a function literal (called in place, or registered) *)
