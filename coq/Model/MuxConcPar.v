(* M4 (concurrent layer) - small-step system over the abstract muxer state of MuxConcSeq.

   Threads: the writer (which also calls Close) and any finite number of requesters.
   Shared: the abstract muxer, the owner of Muxer.mutex, and the notify list of Muxer.cond -
   which is exactly the set of requesters whose pc is [PWaiting] (sync.Cond.Wait adds the
   caller to the notify list BEFORE it releases the mutex, so "release + enqueue" is atomic;
   Broadcast wakes every goroutine on the list; sync.Cond has no spurious wake-ups).

   Program-counter automata transcribed from:
     muxerServer.handle                    PStart -> PCall        (hook server:looked-up)
     Muxer.handleMultivariantPlaylist      frame FMulti           (hook wait:multivariant)
     muxerStream.handleMediaPlaylist       frames FBlocking / FPlain
                                           (hooks wait:blocking-reload, wait:media-playlist)
     the EXT-X-PRELOAD-HINT closure        frame FHint            (hook wait:preload-hint)
     Muxer.rotateParts / rotateSegments    WIdle -> WLocked -> WRotated -> WUnlocked -> WIdle
                                           (hooks rotateParts:unlocked, rotateSegments:unlocked)
     Muxer.Close                           WIdle -> CLocked -> CSet -> CUnlocked -> CStreams 0..n
                                           (hook close:broadcasted) -> WFinished
   Exit paths are as written: the three handlers with [defer Unlock] go through [PUnlock];
   the hint closure unlocks explicitly: before answering 500 on its [s.closed] path (also
   [PUnlock]) and before calling the part's handler on its normal path ([PUnlockCall]). *)
From Coq Require Import List ZArith Lia Bool String.
From GoHls Require Import Lib.MuxSched Model.MuxConcSeq.
Import ListNotations.
Local Open Scope Z_scope.

Inductive tid := TW | TR (i : nat).

Definition tid_eqb (a b : tid) : bool :=
  match a, b with TW, TW => true | TR i, TR j => Nat.eqb i j | _, _ => false end.

Inductive request :=
| RqMulti                          (* GET index.m3u8 *)
| RqMedia (i : nat) (q : query)    (* GET <stream i>_stream.m3u8?q *)
| RqPath (p : path).               (* GET a part / preload hint / segment URI *)

Definition req_query (r : request) : query :=
  match r with RqMedia _ q => q | _ => [] end.

Inductive response :=
| R200Multi
| R200Playlist (pl : playlist)
| R200Part (stream : nat) (id : Z)   (* the part handler ran: that part's bytes *)
| R200Seg (stream : nat) (id : Z)
| R400
| R404
| R500
| RNone                              (* nothing written: net/http answers an empty 200 *)
| RPanic.

Definition is_200 (r : response) : bool :=
  match r with R200Multi | R200Playlist _ | R200Part _ _ | R200Seg _ _ | RNone => true | _ => false end.

Inductive frame :=
| FMulti
| FBlocking (i : nat) (msnint : Z) (P : option Z) (delta : bool)
| FPlain (i : nat) (delta : bool)
| FHint (i : nat) (id : Z).

Inductive rpc :=
| PStart                            (* muxerServer.handle, before the table lookup *)
| PCall (h : option handler)        (* handler looked up / about to be called *)
| PLock (f : frame)                 (* about to mutex.Lock() *)
| PTest (f : frame)                 (* holds the mutex, top of the for loop *)
| PWaiting (f : frame)              (* in cond.Wait(): mutex released, on the notify list *)
| PWoken (f : frame)                (* notified: cond.Wait() is re-acquiring the mutex *)
| PUnlock (r : response)            (* response decided, mutex.Unlock() pending *)
| PUnlockCall (h : option handler)  (* hint closure: mutex.Unlock(), then h(w, r) *)
| PDone (r : response).

Record rstate := {
  r_req : request;
  r_pc : rpc;
  (* ghost: *)
  r_waits : nat;            (* how many times it went to sleep *)
  r_stamp : option Z;       (* writer progress counter when the response was decided *)
  r_at : option mux         (* the shared state in which the response was decided *)
}.

Definition req_init (r : request) : rstate :=
  {| r_req := r; r_pc := PStart; r_waits := 0%nat; r_stamp := None; r_at := None |}.

Inductive wpc :=
| WIdle                 (* between operations *)
| WLocked (o : wop)     (* rotate*: mutex.Lock() done *)
| WRotated              (* rotate*Inner done, mutex held *)
| WUnlocked             (* mutex.Unlock() done; cond.Broadcast() owed *)
| CLocked               (* Close: mutex.Lock() done *)
| CSet                  (* m.closed = true and every stream.closed = true, mutex held *)
| CUnlocked             (* mutex.Unlock() done; cond.Broadcast() owed *)
| CStreams (k : nat)    (* broadcast done; stream.close() of stream k (file removal) is next *)
| WFinished             (* Close returned *)
| WCrashed.             (* unrecovered panic in the writer goroutine: the process is gone *)

Record cstate := {
  c_mux : mux;
  c_owner : option tid;
  c_wpc : wpc;
  c_prog : list wop;        (* operations the writer has still to perform *)
  c_reqs : list rstate;
  c_progress : Z            (* number of rotations applied so far *)
}.

Definition cinit (m : mux) (prog : list wop) (reqs : list request) : cstate :=
  {| c_mux := m; c_owner := None; c_wpc := WIdle; c_prog := prog;
     c_reqs := map req_init reqs; c_progress := 0 |}.

(* the notify list of Muxer.cond *)
Definition is_waiting (r : rstate) : bool :=
  match r_pc r with PWaiting _ => true | _ => false end.

Definition wake (r : rstate) : rstate :=
  match r_pc r with
  | PWaiting f => {| r_req := r_req r; r_pc := PWoken f;
                     r_waits := r_waits r; r_stamp := r_stamp r; r_at := r_at r |}
  | _ => r
  end.

Definition broadcast (rs : list rstate) : list rstate := map wake rs.

(* ---------- the writer ---------- *)
Definition mk (m : mux) (o : option tid) (w : wpc) (p : list wop) (rs : list rstate) (n : Z) :=
  {| c_mux := m; c_owner := o; c_wpc := w; c_prog := p; c_reqs := rs; c_progress := n |}.

Definition wstep (c : cstate) : cstate :=
  match c_wpc c with
  | WIdle =>
      match c_prog c with
      | [] => c
      | WCreateFirst :: rest =>
          mk (mux_createFirstSegment (c_mux c)) (c_owner c) WIdle rest (c_reqs c) (c_progress c)
      | WClose :: rest =>
          match c_owner c with
          | None => mk (c_mux c) (Some TW) CLocked rest (c_reqs c) (c_progress c)
          | Some _ => c
          end
      | o :: rest =>
          match c_owner c with
          | None => mk (c_mux c) (Some TW) (WLocked o) rest (c_reqs c) (c_progress c)
          | Some _ => c
          end
      end
  | WLocked o =>
      match apply_wop (c_mux c) o with
      | None => mk (c_mux c) (c_owner c) WCrashed (c_prog c) (c_reqs c) (c_progress c)
      | Some m' => mk m' (c_owner c) WRotated (c_prog c) (c_reqs c) (c_progress c + 1)
      end
  | WRotated => mk (c_mux c) None WUnlocked (c_prog c) (c_reqs c) (c_progress c)
  | WUnlocked => mk (c_mux c) (c_owner c) WIdle (c_prog c) (broadcast (c_reqs c)) (c_progress c)
  | CLocked => mk (set_closed (c_mux c)) (c_owner c) CSet (c_prog c) (c_reqs c) (c_progress c)
  | CSet => mk (c_mux c) None CUnlocked (c_prog c) (c_reqs c) (c_progress c)
  | CUnlocked => mk (c_mux c) (c_owner c) (CStreams 0) (c_prog c) (broadcast (c_reqs c)) (c_progress c)
  | CStreams k =>
      if Nat.ltb k (List.length (m_streams (c_mux c)))
      then mk (mux_closeStream (c_mux c) k) (c_owner c) (CStreams (S k)) (c_prog c) (c_reqs c) (c_progress c)
      else mk (c_mux c) (c_owner c) WFinished (c_prog c) (c_reqs c) (c_progress c)
  | WFinished => c
  | WCrashed => c
  end.

(* ---------- the requesters ---------- *)
(* muxerServer.handle: pathHandlers[path] *)
Definition lookup (m : mux) (r : request) : option handler :=
  match r with
  | RqMulti => Some HMulti
  | RqMedia i _ => if Nat.ltb i (List.length (m_streams m)) then Some (HMedia i) else None
  | RqPath p => lookupPath (m_paths m) p
  end.

(* calling a handler: what happens before it takes the muxer mutex *)
Definition call (m : mux) (q : query) (h : option handler) : rpc :=
  match h with
  | None => PDone RNone
  | Some HMulti => PLock FMulti
  | Some (HMedia i) =>
      match handleMediaPlaylist_pre (m_variant m) q with
      | MK400 => PDone R400
      | MKBlocking msnint P delta => PLock (FBlocking i msnint P delta)
      | MKPlain delta => PLock (FPlain i delta)
      end
  | Some (HPart i id) => PDone (R200Part i id)
  | Some (HSeg i id) => PDone (R200Seg i id)
  | Some (HHint i id) => PLock (FHint i id)
  end.

Inductive tres :=
| TExit (r : response)             (* return; the deferred / explicit Unlock runs *)
| TBreakHint (h : option handler)  (* break; getPathHandler; Unlock; h(w, r) *)
| TWait.                           (* cond.Wait() *)

Definition playlist_response (v : variant) (s : stream) (delta : bool) (q : query) : response :=
  match generateMediaPlaylist v s delta q with
  | Some pl => R200Playlist pl
  | None => RPanic
  end.

(* one iteration of the handler's for loop, executed with the mutex held *)
Definition test (m : mux) (q : query) (f : frame) : tres :=
  match f with
  | FMulti =>
      if m_closed m then TExit R500
      else match nth_error (m_streams m) 0 with
           | None => TExit RPanic                        (* m.streams[0]: index out of range *)
           | Some s0 => if hasContent (m_variant m) s0 then TExit R200Multi else TWait
           end
  | FBlocking i msnint P delta =>
      match nth_error (m_streams m) i with
      | None => TExit RPanic
      | Some s =>
          if s_closed s then TExit R500
          else match decide_core (m_variant m) s msnint P with
               | Respond400 => TExit R400
               | Ready => TExit (playlist_response (m_variant m) s delta q)
               | DPanic => TExit RPanic
               | Block => TWait
               end
      end
  | FPlain i delta =>
      match nth_error (m_streams m) i with
      | None => TExit RPanic
      | Some s =>
          if s_closed s then TExit R500
          else if hasContent (m_variant m) s
               then TExit (playlist_response (m_variant m) s delta q)
               else TWait
      end
  | FHint i id =>
      match nth_error (m_streams m) i with
      | None => TExit RPanic
      | Some s =>
          if s_closed s then TExit R500
          else if id <? nextPartID s then TBreakHint (lookupPath (m_paths m) (PPart i id))
               else TWait
      end
  end.

Definition close_broadcast_done (w : wpc) : bool :=
  match w with CStreams _ | WFinished => true | _ => false end.

Definition set_pc (r : rstate) (pc : rpc) : rstate :=
  {| r_req := r_req r; r_pc := pc; r_waits := r_waits r; r_stamp := r_stamp r; r_at := r_at r |}.

Definition decided (m : mux) (n : Z) (r : rstate) (pc : rpc) : rstate :=
  {| r_req := r_req r; r_pc := pc; r_waits := r_waits r; r_stamp := Some n; r_at := Some m |}.

Definition sleeping (r : rstate) (f : frame) : rstate :=
  {| r_req := r_req r; r_pc := PWaiting f; r_waits := S (r_waits r);
     r_stamp := r_stamp r; r_at := r_at r |}.

(* the hint closure after its Unlock: h(w, r), or 404 when the part has been evicted *)
Definition hint_call (h : option handler) : rpc :=
  match h with Some _ => PCall h | None => PDone R404 end.

(* one step of requester i: its own state and the mutex owner change, nothing else does.
   m = shared muxer state, w = the writer's pc (unused), n = progress counter (ghost) *)
Definition lstep (m : mux) (w : wpc) (n : Z) (i : nat) (r : rstate) (o : option tid)
  : rstate * option tid :=
  match r_pc r with
  | PStart => (set_pc r (PCall (lookup m (r_req r))), o)
  | PCall h => (set_pc r (call m (req_query (r_req r)) h), o)
  | PLock f =>
      match o with
      | None => (set_pc r (PTest f), Some (TR i))
      | Some _ => (r, o)                                  (* Lock() blocks *)
      end
  | PTest f =>
      match test m (req_query (r_req r)) f with
      | TExit resp => (decided m n r (PUnlock resp), o)
      | TBreakHint h => (decided m n r (PUnlockCall h), o)
      | TWait => (sleeping r f, None)
      end
  | PWaiting _ => (r, o)                                  (* asleep until a Broadcast *)
  | PWoken f =>
      match o with
      | None => (set_pc r (PTest f), Some (TR i))
      | Some _ => (r, o)
      end
  | PUnlock resp => (set_pc r (PDone resp), None)
  | PUnlockCall h => (set_pc r (hint_call h), None)
  | PDone _ => (r, o)
  end.

Definition with_req (c : cstate) (i : nat) (r : rstate) (o : option tid) : cstate :=
  mk (c_mux c) o (c_wpc c) (c_prog c) (upd_nth (c_reqs c) i r) (c_progress c).

Definition rstep (c : cstate) (i : nat) : cstate :=
  match nth_error (c_reqs c) i with
  | None => c
  | Some r =>
      let '(r', o') := lstep (c_mux c) (c_wpc c) (c_progress c) i r (c_owner c) in
      with_req c i r' o'
  end.

(* a schedule is a list of thread ids; a step that is not enabled is a no-op; after a crash
   of the writer goroutine nothing runs any more *)
Definition step (c : cstate) (t : tid) : cstate :=
  match c_wpc c with
  | WCrashed => c
  | _ => match t with TW => wstep c | TR i => rstep c i end
  end.

Definition crun (c : cstate) (sched : list tid) : cstate := run step c sched.

(* ---------- observations used by the theorems ---------- *)
Definition req_pc (c : cstate) (i : nat) : option rpc := option_map r_pc (nth_error (c_reqs c) i).

Definition done_with (c : cstate) (i : nat) : option response :=
  match req_pc c i with Some (PDone r) => Some r | _ => None end.

(* thread t is inside a critical section of Muxer.mutex *)
Definition w_holds (w : wpc) : bool :=
  match w with WLocked _ | WRotated | CLocked | CSet | WCrashed => true | _ => false end.

Definition r_holds (r : rstate) : bool :=
  match r_pc r with PTest _ | PUnlock _ | PUnlockCall _ => true | _ => false end.

(* the writer is between a state change and the broadcast that announces it *)
Definition broadcast_owed (w : wpc) : bool :=
  match w with WRotated | WUnlocked | CSet | CUnlocked => true | _ => false end.

(* thread activity: inside a handler / inside a writer operation *)
Definition r_inside (r : rstate) : bool :=
  match r_pc r with PStart | PDone _ => false | _ => true end.

Definition w_inside (w : wpc) : bool :=
  match w with WIdle | WFinished => false | _ => true end.
