(* Atomic views (C08, third clause) - a deliberately small model.

   Scope.  The muxer mutex serialises critical sections, and (checked on the generated access
   table, Props/C08.v [c08_generate_under_mutex]) every field read performed by the playlist
   generators in a handler happens with that mutex held, between one Lock and the matching
   Unlock, with no cond.Wait in between (the Wait loops end before generate* is called).
   Hence at the granularity of critical sections an execution is a SEQUENCE of steps:
     WStep s'  - a writer critical section (rotateParts / rotateSegments / Close) leaving the
                 muxer in state s'
     RGen r    - requester r runs generate* once, on the current state.
   [S], [R], [gen] are arbitrary (section variables): the theorems about [run] are generic and are
   not instantiated with the sequential muxer model or a C03-C05 invariant; the single-playlist
   invariants of each real response are checked by the harness oracle. *)
From Coq Require Import List Arith.
Import ListNotations.

Section AtomicViews.
  Variables (S R : Type).
  Variable gen : S -> R.

  Inductive step := WStep (s' : S) | RGen (r : nat).

  (* the writer's history: every state the muxer went through, oldest first *)
  Fixpoint history_from (steps : list step) : list S :=
    match steps with
    | [] => []
    | WStep s' :: rest => s' :: history_from rest
    | RGen _ :: rest => history_from rest
    end.
  Definition history (s0 : S) (steps : list step) : list S := s0 :: history_from steps.

  (* the log of responses: (requester, index into the history, body), in time order *)
  Fixpoint run (cur : S) (idx : nat) (steps : list step) : list (nat * nat * R) :=
    match steps with
    | [] => []
    | WStep s' :: rest => run s' (Datatypes.S idx) rest
    | RGen r :: rest => (r, idx, gen cur) :: run cur idx rest
    end.

  Definition responses (s0 : S) (steps : list step) : list (nat * nat * R) := run s0 0 steps.

  Definition of_requester (r : nat) (log : list (nat * nat * R)) : list (nat * nat * R) :=
    filter (fun e => Nat.eqb (fst (fst e)) r) log.

  Definition indices (log : list (nat * nat * R)) : list nat := map (fun e => snd (fst e)) log.
End AtomicViews.

Arguments WStep {S} _.
Arguments RGen {S} _.
