(* M2 - specification side of C14/C15 (definitions only): the documented field requirements
   [wf_media] / [wf_multivariant], the field-by-field equivalence of the round trip
   [media_eqvb] / [multivariant_eqvb] (durations to 10 us, date-times to 1 ms) and the assumed
   envelope of the scalar oracles [oracle_ok]. *)
From Coq Require Import List ZArith Bool String Ascii.
From GoHls Require Import Model.PlaylistBase Model.Playlist.
Import ListNotations.
Local Open Scope string_scope.
Local Open Scope Z_scope.

(* ---------- lexical classes ---------- *)
Fixpoint no_byte (c : ascii) (s : string) : bool :=
  match s with
  | "" => true
  | String a s' => negb (Ascii.eqb a c) && no_byte c s'
  end.

Definition no_crlf (s : string) : bool := no_byte LF s && no_byte CR s.
(* value of a quoted attribute *)
Definition quoted_ok (s : string) : bool := no_crlf s && no_byte DQ s.
(* value of an unquoted attribute (RESOLUTION, IV): no separator, does not open a quote *)
Definition unquoted_ok (s : string) : bool :=
  no_crlf s && no_byte "," s && match s with String c _ => negb (Ascii.eqb c DQ) | "" => false end.
(* a URI line *)
Definition uri_line_ok (s : string) : bool :=
  no_crlf s && match s with String c _ => negb (Ascii.eqb c "#") | "" => false end.
Definition nonempty (s : string) : bool := negb (String.eqb s "").
Definition title_ok (s : string) : bool := no_crlf s && String.eqb (trim_space s) s.

Definition int31 (z : Z) : bool := (0 <=? z) && (z <? 2 ^ 31).
Definition uint64 (z : Z) : bool := (0 <=? z) && (z <? 2 ^ 64).
Definition opt_ok {A} (f : A -> bool) (o : option A) : bool :=
  match o with Some a => f a | None => true end.

(* durations: representable and not a negative value that prints as "-0.00000" ([dur_any]);
   required ones non-zero at the 10 us resolution of the text form ([dur_pos], [dur_signed]
   for EXT-X-START) *)
Definition dur_any (d : Z) : bool := (Z.abs d <? 2 ^ 62) && ((0 <=? d) || (d <? -6000)).
Definition dur_pos (d : Z) : bool := (6000 <? d) && (d <? 2 ^ 62).
Definition dur_signed (d : Z) : bool := (6000 <? Z.abs d) && (Z.abs d <? 2 ^ 62).
(* frame rates (units of 1e-9): three decimals *)
Definition rate_ok (f : Z) : bool := (0 <=? f) && (f <? 2 ^ 50) && (f mod 1000000 =? 0).
(* date-times: local year 0..9999, zone offset in whole minutes, less than a day *)
Definition time_ok (t : dtime) : bool :=
  let local := dt_ns t + dt_off t * 1000000000 in
  (-62167219200 * 1000000000 <=? local) && (local <? 253402300800 * 1000000000)
  && (dt_off t mod 60 =? 0) && (Z.abs (dt_off t) <? 86400).

Definition byterange_ok (l s : option Z) : bool :=
  opt_ok uint64 l && opt_ok uint64 s && (match s, l with Some _, None => false | _, _ => true end).

(* ---------- documented field requirements ---------- *)
Definition wf_key (k : MediaKey) : bool :=
  if String.eqb (k_method k) "NONE" then
    String.eqb (k_uri k) "" && String.eqb (k_iv k) "" && String.eqb (k_keyformat k) ""
    && String.eqb (k_keyformatversions k) ""
  else
    (String.eqb (k_method k) "AES-128" || String.eqb (k_method k) "SAMPLE-AES")
    && nonempty (k_uri k) && quoted_ok (k_uri k)
    && (String.eqb (k_iv k) "" || unquoted_ok (k_iv k))
    && quoted_ok (k_keyformat k) && quoted_ok (k_keyformatversions k).

Definition wf_part (p : MediaPart) : bool :=
  dur_pos (pt_duration p) && nonempty (pt_uri p) && quoted_ok (pt_uri p)
  && byterange_ok (pt_brlen p) (pt_brstart p).

Definition wf_segment (s : MediaSegment) : bool :=
  dur_pos (sg_duration s) && title_ok (sg_title s) && uri_line_ok (sg_uri s)
  && opt_ok time_ok (sg_datetime s) && opt_ok int31 (sg_bitrate s) && opt_ok wf_key (sg_key s)
  && byterange_ok (sg_brlen s) (sg_brstart s) && forallb wf_part (sg_parts s).

(* EXT-X-KEY has no "unset": once a segment has a key, every later one has one *)
Fixpoint keys_sticky (seen : bool) (l : list MediaSegment) : bool :=
  match l with
  | [] => true
  | s :: tl => match sg_key s with
               | Some _ => keys_sticky true tl
               | None => negb seen && keys_sticky false tl
               end
  end.

Definition wf_server_control (t : MediaServerControl) : bool :=
  opt_ok dur_any (sc_partholdback t) && opt_ok dur_any (sc_canskipuntil t)
  (* a tag without any attribute cannot be written *)
  && (sc_canblockreload t || is_some (sc_partholdback t) || is_some (sc_canskipuntil t)).

Definition wf_map (t : MediaMap) : bool :=
  nonempty (map_uri t) && quoted_ok (map_uri t) && byterange_ok (map_brlen t) (map_brstart t).

Definition wf_hint (t : MediaPreloadHint) : bool :=
  nonempty (ph_uri t) && quoted_ok (ph_uri t) && uint64 (ph_brstart t) && opt_ok uint64 (ph_brlen t).

Definition wf_media (m : Media) : bool :=
  (0 <=? m_version m) && (m_version m <=? maxSupportedVersion)
  && opt_ok (fun t => dur_signed (st_timeoffset t)) (m_start m)
  && (0 <? m_targetduration m) && (m_targetduration m <? 2 ^ 31)
  && opt_ok wf_server_control (m_servercontrol m)
  && opt_ok (fun t => dur_pos (pi_parttarget t)) (m_partinf m)
  && int31 (m_mediasequence m) && opt_ok int31 (m_discseq m)
  && opt_ok (fun t => String.eqb t "EVENT" || String.eqb t "VOD") (m_playlisttype m)
  && opt_ok wf_map (m_map m) && opt_ok (fun t => int31 (sk_skipped t)) (m_skip m)
  && negb (Nat.eqb (List.length (m_segments m)) 0) && forallb wf_segment (m_segments m)
  && keys_sticky false (m_segments m)
  && forallb wf_part (m_parts m) && opt_ok wf_hint (m_preloadhint m).

Definition codec_ok (c : string) : bool := nonempty c && quoted_ok c && no_byte "," c.

Definition wf_variant (v : MultivariantVariant) : bool :=
  int31 (v_bandwidth v) && negb (Nat.eqb (List.length (v_codecs v)) 0) && forallb codec_ok (v_codecs v)
  && uri_line_ok (v_uri v) && opt_ok int31 (v_avgbandwidth v)
  && (String.eqb (v_resolution v) "" || unquoted_ok (v_resolution v))
  && opt_ok rate_ok (v_framerate v)
  && quoted_ok (v_video v) && quoted_ok (v_audio v) && quoted_ok (v_subtitles v)
  && quoted_ok (v_closedcaptions v).

Definition wf_rendition (r : MultivariantRendition) : bool :=
  (String.eqb (r_type r) "AUDIO" || String.eqb (r_type r) "VIDEO"
   || String.eqb (r_type r) "SUBTITLES" || String.eqb (r_type r) "CLOSED-CAPTIONS")
  && nonempty (r_groupid r) && quoted_ok (r_groupid r)
  && nonempty (r_name r) && quoted_ok (r_name r) && quoted_ok (r_language r)
  && opt_ok quoted_ok (r_channels r) && opt_ok quoted_ok (r_uri r) && opt_ok quoted_ok (r_instreamid r)
  && (negb (is_some (r_channels r)) || String.eqb (r_type r) "AUDIO")
  && (if String.eqb (r_type r) "CLOSED-CAPTIONS"
      then negb (is_some (r_uri r)) && is_some (r_instreamid r)
      else negb (is_some (r_instreamid r)))
  && (negb (String.eqb (r_type r) "SUBTITLES") || is_some (r_uri r)).

Definition wf_multivariant (m : Multivariant) : bool :=
  (0 <=? mv_version m) && (mv_version m <=? maxSupportedVersion)
  && opt_ok (fun t => dur_signed (st_timeoffset t)) (mv_start m)
  && negb (Nat.eqb (List.length (mv_variants m)) 0) && forallb wf_variant (mv_variants m)
  && forallb wf_rendition (mv_renditions m).

(* ---------- equivalence up to the resolution of the text form ---------- *)
Definition dur_close (a b : Z) : bool := Z.abs (a - b) <? 10000.          (* 10 us *)
Definition time_close (a b : dtime) : bool :=
  (Z.abs (dt_ns a - dt_ns b) <? 1000000) && (dt_off a =? dt_off b).        (* 1 ms, same zone offset *)

Definition opt_eqvb {A} (f : A -> A -> bool) (a b : option A) : bool :=
  match a, b with
  | Some x, Some y => f x y
  | None, None => true
  | _, _ => false
  end.

Fixpoint list_eqvb {A} (f : A -> A -> bool) (a b : list A) : bool :=
  match a, b with
  | [], [] => true
  | x :: a', y :: b' => f x y && list_eqvb f a' b'
  | _, _ => false
  end.

Definition part_eqvb (a b : MediaPart) : bool :=
  dur_close (pt_duration a) (pt_duration b) && String.eqb (pt_uri a) (pt_uri b)
  && Bool.eqb (pt_independent a) (pt_independent b) && opt_eqvb Z.eqb (pt_brlen a) (pt_brlen b)
  && opt_eqvb Z.eqb (pt_brstart a) (pt_brstart b) && Bool.eqb (pt_gap a) (pt_gap b).

Definition segment_eqvb (a b : MediaSegment) : bool :=
  dur_close (sg_duration a) (sg_duration b) && String.eqb (sg_title a) (sg_title b)
  && String.eqb (sg_uri a) (sg_uri b) && Bool.eqb (sg_discontinuity a) (sg_discontinuity b)
  && Bool.eqb (sg_gap a) (sg_gap b) && opt_eqvb time_close (sg_datetime a) (sg_datetime b)
  && opt_eqvb Z.eqb (sg_bitrate a) (sg_bitrate b) && opt_eqvb key_equal (sg_key a) (sg_key b)
  && opt_eqvb Z.eqb (sg_brlen a) (sg_brlen b) && opt_eqvb Z.eqb (sg_brstart a) (sg_brstart b)
  && list_eqvb part_eqvb (sg_parts a) (sg_parts b).

Definition sc_eqvb (a b : MediaServerControl) : bool :=
  Bool.eqb (sc_canblockreload a) (sc_canblockreload b)
  && opt_eqvb dur_close (sc_partholdback a) (sc_partholdback b)
  && opt_eqvb dur_close (sc_canskipuntil a) (sc_canskipuntil b).

Definition map_eqvb (a b : MediaMap) : bool :=
  String.eqb (map_uri a) (map_uri b) && opt_eqvb Z.eqb (map_brlen a) (map_brlen b)
  && opt_eqvb Z.eqb (map_brstart a) (map_brstart b).

Definition hint_eqvb (a b : MediaPreloadHint) : bool :=
  String.eqb (ph_uri a) (ph_uri b) && (ph_brstart a =? ph_brstart b)
  && opt_eqvb Z.eqb (ph_brlen a) (ph_brlen b).

Definition start_eqvb (a b : MultivariantStart) : bool := dur_close (st_timeoffset a) (st_timeoffset b).

Definition media_eqvb (a b : Media) : bool :=
  (m_version a =? m_version b) && Bool.eqb (m_independent a) (m_independent b)
  && opt_eqvb start_eqvb (m_start a) (m_start b)
  && opt_eqvb Bool.eqb (m_allowcache a) (m_allowcache b)
  && (m_targetduration a =? m_targetduration b)
  && opt_eqvb sc_eqvb (m_servercontrol a) (m_servercontrol b)
  && opt_eqvb (fun x y => dur_close (pi_parttarget x) (pi_parttarget y)) (m_partinf a) (m_partinf b)
  && (m_mediasequence a =? m_mediasequence b) && opt_eqvb Z.eqb (m_discseq a) (m_discseq b)
  && opt_eqvb String.eqb (m_playlisttype a) (m_playlisttype b)
  && opt_eqvb map_eqvb (m_map a) (m_map b)
  && opt_eqvb (fun x y => sk_skipped x =? sk_skipped y) (m_skip a) (m_skip b)
  && list_eqvb segment_eqvb (m_segments a) (m_segments b)
  && list_eqvb part_eqvb (m_parts a) (m_parts b)
  && opt_eqvb hint_eqvb (m_preloadhint a) (m_preloadhint b)
  && Bool.eqb (m_endlist a) (m_endlist b).

Definition variant_eqvb (a b : MultivariantVariant) : bool :=
  (v_bandwidth a =? v_bandwidth b) && list_eqvb String.eqb (v_codecs a) (v_codecs b)
  && String.eqb (v_uri a) (v_uri b) && opt_eqvb Z.eqb (v_avgbandwidth a) (v_avgbandwidth b)
  && String.eqb (v_resolution a) (v_resolution b) && opt_eqvb Z.eqb (v_framerate a) (v_framerate b)
  && String.eqb (v_video a) (v_video b) && String.eqb (v_audio a) (v_audio b)
  && String.eqb (v_subtitles a) (v_subtitles b) && String.eqb (v_closedcaptions a) (v_closedcaptions b).

Definition rendition_eqvb (a b : MultivariantRendition) : bool :=
  String.eqb (r_type a) (r_type b) && String.eqb (r_groupid a) (r_groupid b)
  && String.eqb (r_name a) (r_name b) && String.eqb (r_language a) (r_language b)
  && Bool.eqb (r_autoselect a) (r_autoselect b) && Bool.eqb (r_default a) (r_default b)
  && Bool.eqb (r_forced a) (r_forced b) && opt_eqvb String.eqb (r_channels a) (r_channels b)
  && opt_eqvb String.eqb (r_uri a) (r_uri b) && opt_eqvb String.eqb (r_instreamid a) (r_instreamid b).

Definition multivariant_eqvb (a b : Multivariant) : bool :=
  (mv_version a =? mv_version b) && Bool.eqb (mv_independent a) (mv_independent b)
  && opt_eqvb start_eqvb (mv_start a) (mv_start b)
  && list_eqvb variant_eqvb (mv_variants a) (mv_variants b)
  && list_eqvb rendition_eqvb (mv_renditions a) (mv_renditions b).

(* ---------- the assumed envelope of the scalar oracles ---------- *)
(* characters of a printed number: digits, '-', '.' *)
Fixpoint num_chars (s : string) : bool :=
  match s with
  | "" => true
  | String c s' =>
      (match digit_of c with Some _ => true | None => Ascii.eqb c "-" || Ascii.eqb c "." end)
      && num_chars s'
  end.

Record oracle_ok (O : oracles) : Prop := {
  (* FormatFloat(d.Seconds(),'f',5) then ParseFloat, *1e9, truncate: within 10 us, stable *)
  ok_dur : forall d, dur_any d = true ->
    exists d', parse_dur O (fmt_dur O d) = Some d' /\ dur_close d d' = true
               /\ fmt_dur O d' = fmt_dur O d
               /\ (6000 < Z.abs d -> d' <> 0);
  ok_dur_chars : forall d, num_chars (fmt_dur O d) = true /\ fmt_dur O d <> "";
  ok_rate : forall f, rate_ok f = true -> parse_rate O (fmt_rate O f) = Some f;
  ok_rate_chars : forall f, num_chars (fmt_rate O f) = true /\ fmt_rate O f <> "";
  (* Format with millisecond precision then Parse: same instant to 1 ms, same offset, stable *)
  ok_time : forall t, time_ok t = true ->
    exists t', parse_time O (fmt_time O t) = Some t' /\ time_close t t' = true
               /\ fmt_time O t' = fmt_time O t;
  ok_time_chars : forall t, no_crlf (fmt_time O t) = true
}.

(* ---------- statements (as booleans, so that witnesses can be computed) ---------- *)
Definition media_roundtrip_ok (O : oracles) (p : Media) : bool :=
  match media_unmarshal O (media_marshal O p) with
  | Ok p' => media_eqvb p p'
  | _ => false
  end.

Definition multivariant_roundtrip_ok (O : oracles) (p : Multivariant) : bool :=
  match multivariant_unmarshal O (multivariant_marshal O p) with
  | Ok p' => multivariant_eqvb p p'
  | _ => false
  end.

Definition media_fixpoint_ok (O : oracles) (p : Media) : bool :=
  match media_unmarshal O (media_marshal O p) with
  | Ok p' => String.eqb (media_marshal O p') (media_marshal O p)
  | _ => false
  end.

Definition multivariant_fixpoint_ok (O : oracles) (p : Multivariant) : bool :=
  match multivariant_unmarshal O (multivariant_marshal O p) with
  | Ok p' => String.eqb (multivariant_marshal O p') (multivariant_marshal O p)
  | _ => false
  end.
