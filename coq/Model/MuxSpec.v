(* The abstract specification of the sample path of an fMP4 / Low-Latency muxer (C01).

   Short enough to be read in a minute: per track a LOG of the units handed to the segmenter, the
   one-unit LOOK-AHEAD and "a random-access unit has been seen"; globally "the presentation has
   started" (the leading track has emitted its first unit).  No segments, parts, rotations, windows,
   playlists, storage: Proofs/MuxAccount.v proves that along every history of successful writes the
   executable muxer model (Model/Mux.v, the one the correspondence run ties to /repo) computes,
   for every track, exactly this log and this look-ahead unit.

   The static description of a track is what Start derives from the configuration and no operation
   changes: its [tcfg], whether it is the leading track, its stream index (unused here). *)
From Coq Require Import List ZArith Bool Lia.
From GoHls Require Import Model.Mux.
Import ListNotations.
Local Open Scope Z_scope.

Record atrk := { a_seen : bool; a_pend : option sample; a_log : list sample }.
Record aspec := { sp_open : bool; sp_trk : list atrk }.

Definition sp_init (n : nat) : aspec :=
  {| sp_open := false; sp_trk := repeat {| a_seen := false; a_pend := None; a_log := [] |} n |}.

(* a written unit, moved by the constant +10 s offset; its duration is not known yet *)
Definition sp_incoming (cf : tcfg) (smp0 : sample) : sample :=
  {| s_dts := s_dts smp0 + durationToTimestamp fmp4StartDTS (t_rate cf); s_ptsoff := s_ptsoff smp0; s_dur := 0;
     s_nonsync := s_nonsync smp0; s_ntp := s_ntp smp0; s_pay := s_pay smp0; s_size := s_size smp0 |}.

(* the look-ahead unit as it is emitted: only the duration is filled in, with the (uint32) distance of
   the decode times *)
Definition sp_emit (prev : sample) (dts : Z) : sample :=
  {| s_dts := s_dts prev; s_ptsoff := s_ptsoff prev; s_dur := u32 (dts - s_dts prev);
     s_nonsync := s_nonsync prev; s_ntp := s_ntp prev; s_pay := s_pay prev; s_size := s_size prev |}.

Definition sp_set (sp : aspec) (ti : nat) (op : bool) (x : atrk) : aspec :=
  {| sp_open := op; sp_trk := upd (sp_trk sp) ti (fun _ => x) |}.

(* one unit offered to track ti *)
Definition sp_unit (cf : tcfg) (leading : bool) (sp : aspec) (ti : nat) (smp0 : sample) : aspec :=
  match nth_error (sp_trk sp) ti with
  | None => sp
  | Some x =>
      let inc := sp_incoming cf smp0 in
      if s_dts inc <? 0 then sp                                              (* before -10 s: dropped *)
      else match a_pend x with
           | None => sp_set sp ti (sp_open sp) {| a_seen := a_seen x; a_pend := Some inc; a_log := a_log x |}
           | Some prev =>
               if negb leading && negb (sp_open sp)
               then (* the presentation has not started: the older unit is dropped, the newer one waits *)
                    sp_set sp ti (sp_open sp) {| a_seen := a_seen x; a_pend := Some inc; a_log := a_log x |}
               else sp_set sp ti true
                      {| a_seen := a_seen x; a_pend := Some inc; a_log := a_log x ++ [sp_emit prev (s_dts inc)] |}
           end
  end.

(* video units before the first random-access one are skipped (H264: also units without any slice) *)
Definition sp_video_skipped (k : ckind) (seen : bool) (a : au) : bool :=
  match k with
  | H264 => (negb (a_ra a) && negb (a_nonidr a)) || (negb seen && negb (a_ra a))
  | _ => negb seen && negb (a_ra a)
  end.

Definition sp_video (cf : tcfg) (leading : bool) (sp : aspec) (ti : nat) (a : au) : aspec :=
  match nth_error (sp_trk sp) ti with
  | None => sp
  | Some x =>
      if sp_video_skipped (t_kind cf) (a_seen x) a then sp
      else sp_unit cf leading
             (sp_set sp ti (sp_open sp) {| a_seen := true; a_pend := a_pend x; a_log := a_log x |})
             ti (video_sample a)
  end.

(* an audio write carries one unit per access unit / packet: MPEG-4 Audio units are 1024 samples
   apart (timestamps computed from the index, as the code does), Opus packets follow each other by
   their own durations *)
Fixpoint sp_audio_units (cf : tcfg) (leading : bool) (sp : aspec) (ti : nat) (i pts ntp : Z)
         (units : list (Z * Z * Z * Z)) : aspec :=
  match units with
  | [] => sp
  | x :: units' =>
      let '(upts, untp) :=
        match t_kind cf with
        | OPUS => (pts, ntp)
        | _ => (pts + Z.quot (i * 1024 * t_rate cf) (t_srate cf), ntp + Z.quot (i * 1024 * second) (t_srate cf))
        end in
      let sp' := sp_unit cf leading sp ti
                   {| s_dts := upts; s_ptsoff := 0; s_dur := 0; s_nonsync := false; s_ntp := untp;
                      s_pay := u_id x; s_size := u_fsize x |} in
      match t_kind cf with
      | OPUS => sp_audio_units cf leading sp' ti (i + 1) (pts + u_opusdur x)
                               (ntp + timestampToDuration (u_opusdur x) 48000) units'
      | _ => sp_audio_units cf leading sp' ti (i + 1) pts ntp units'
      end
  end.

Definition sp_step (T0 : list (tcfg * bool * nat)) (sp : aspec) (o : wop) : aspec :=
  match o with
  | WWrite ti a =>
      match nth_error T0 ti with
      | None => sp
      | Some (cf, leading, _) =>
          if isVideo (t_kind cf) then sp_video cf leading sp ti a
          else sp_audio_units cf leading sp ti 0 (a_pts a) (a_ntp a) (a_units a)
      end
  end.

Definition sp_run (T0 : list (tcfg * bool * nat)) (sp : aspec) (ops : list wop) : aspec :=
  fold_left (sp_step T0) ops sp.

Definition sp_log (sp : aspec) (j : nat) : list sample :=
  match nth_error (sp_trk sp) j with Some x => a_log x | None => [] end.
Definition sp_pend (sp : aspec) (j : nat) : option sample :=
  match nth_error (sp_trk sp) j with Some x => a_pend x | None => None end.
Definition sp_seen (sp : aspec) (j : nat) : bool :=
  match nth_error (sp_trk sp) j with Some x => a_seen x | None => false end.

(* ---------------------------------------------------------------- MPEG-TS variant
   One stream, no look-ahead: a written unit is appended at once. Video is H264; units before the first
   random-access one (and units without any slice) are skipped; audio of a non-leading track waits for the
   presentation to start (with video present every video track is leading, otherwise the first audio track is). *)
Record tspec := { tp_open : bool; tp_seen : list bool; tp_log : list tsunit }.

Definition tsp_init (n : nat) : tspec := {| tp_open := false; tp_seen := repeat false n; tp_log := [] |}.

Definition tsp_video_unit (ti : nat) (cf : tcfg) (a : au) : tsunit :=
  {| u_track := ti; u_pts := mulDiv (a_pts a) 90000 (t_rate cf); u_dts := mulDiv (a_dts a) 90000 (t_rate cf);
     u_ra := a_ra a; u_pays := map (fun x => (u_id x, u_tsize x)) (a_units a) |}.

Definition tsp_audio_unit (ti : nat) (cf : tcfg) (a : au) : tsunit :=
  {| u_track := ti; u_pts := mulDiv (a_pts a) 90000 (t_rate cf); u_dts := mulDiv (a_pts a) 90000 (t_rate cf);
     u_ra := true; u_pays := map (fun x => (u_id x, u_tsize x)) (a_units a) |}.

Definition tsp_step (T0 : list (tcfg * bool * nat)) (sp : tspec) (o : wop) : tspec :=
  match o with
  | WWrite ti a =>
      match nth_error T0 ti, nth_error (tp_seen sp) ti with
      | Some (cf, leading, _), Some seen =>
          if isVideo (t_kind cf) then
            if sp_video_skipped H264 seen a then sp
            else {| tp_open := true; tp_seen := upd (tp_seen sp) ti (fun _ => true);
                    tp_log := tp_log sp ++ [tsp_video_unit ti cf a] |}
          else
            if negb leading && negb (tp_open sp) then sp
            else {| tp_open := true; tp_seen := tp_seen sp; tp_log := tp_log sp ++ [tsp_audio_unit ti cf a] |}
      | _, _ => sp
      end
  end.

Definition tsp_run (T0 : list (tcfg * bool * nat)) (sp : tspec) (ops : list wop) : tspec :=
  fold_left (tsp_step T0) ops sp.
