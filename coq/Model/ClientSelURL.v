(* M5 - concrete executable instances of the URL oracles of Model/ClientSel.v, used by the tie
   (the theorems are proved for ANY [resolve] / [with_skip]).

     resolve_url base ref = clientAbsoluteURL(base, ref).String()
        url.Parse(ref) (None on error) ; base.ResolveReference ; String
        written from RFC 3986 section 5.2 (transform references, merge, remove_dot_segments),
        not from net/url's source; covers the reference forms the generator produces:
        relative paths with ./ and ../, absolute paths, network-path references, absolute URIs,
        each with or without a query; no fragments, no userinfo, no opaque URIs, no characters
        that String() would re-escape.
     add_skip url = the URL after q := u.Query(); q.Add("_HLS_skip","YES"); u.RawQuery = q.Encode()
        (url.Values.Encode sorts by key, keeps the order of the values of one key); covers
        queries made of k=v pairs that need no escaping.
   The harness checks both against the real functions on every URI it generates and on the
   RFC 3986 section 5.4 examples (Tie/ClientSelTie.v url cases). *)
From Coq Require Import List String Ascii Bool.
Import ListNotations.
Local Open Scope string_scope.

Fixpoint split_on (c : ascii) (s : string) : list string :=
  match s with
  | EmptyString => [EmptyString]
  | String a s' =>
      if Ascii.eqb a c then EmptyString :: split_on c s'
      else match split_on c s' with
           | x :: r => String a x :: r
           | [] => [String a EmptyString]
           end
  end.

Fixpoint join (sep : string) (l : list string) : string :=
  match l with
  | [] => ""
  | [x] => x
  | x :: r => x ++ sep ++ join sep r
  end.

(* strings.Cut *)
Fixpoint cut_first (c : ascii) (s : string) : string * option string :=
  match s with
  | EmptyString => (EmptyString, None)
  | String a s' =>
      if Ascii.eqb a c then (EmptyString, Some s')
      else let '(b, r) := cut_first c s' in (String a b, r)
  end.

Definition starts_with (p s : string) : bool := String.prefix p s.
Definition drop (n : nat) (s : string) : string := substring n (String.length s - n) s.

Definition is_alpha (a : ascii) : bool :=
  let n := nat_of_ascii a in
  (Nat.leb 65 n && Nat.leb n 90) || (Nat.leb 97 n && Nat.leb n 122).
Definition is_digit (a : ascii) : bool :=
  let n := nat_of_ascii a in Nat.leb 48 n && Nat.leb n 57.
Definition is_hex (a : ascii) : bool :=
  let n := nat_of_ascii a in
  is_digit a || (Nat.leb 65 n && Nat.leb n 70) || (Nat.leb 97 n && Nat.leb n 102).

(* net/url getScheme: None = error ("missing protocol scheme"), Some None = no scheme *)
Fixpoint get_scheme_from (i : nat) (acc s : string) : option (option (string * string)) :=
  match s with
  | EmptyString => Some None
  | String a s' =>
      if is_alpha a then get_scheme_from (S i) (acc ++ String a EmptyString) s'
      else if is_digit a || Ascii.eqb a "+" || Ascii.eqb a "-" || Ascii.eqb a "." then
             match i with O => Some None | _ => get_scheme_from (S i) (acc ++ String a EmptyString) s' end
      else if Ascii.eqb a ":" then
             match i with O => None | _ => Some (Some (acc, s')) end
      else Some None
  end.
Definition get_scheme (s : string) : option (option (string * string)) := get_scheme_from 0 "" s.

(* every % is followed by two hex digits *)
Fixpoint escapes_ok (s : string) : bool :=
  match s with
  | EmptyString => true
  | String a s' =>
      if Ascii.eqb a "%" then
        match s' with
        | String h1 (String h2 s'') => is_hex h1 && is_hex h2 && escapes_ok s''
        | _ => false
        end
      else escapes_ok s'
  end.

Fixpoint contains (c : ascii) (s : string) : bool :=
  match s with
  | EmptyString => false
  | String a s' => Ascii.eqb a c || contains c s'
  end.

Record uref := { u_scheme : option string; u_auth : option string; u_path : string; u_query : option string }.

(* url.Parse on the supported forms; None = error *)
Definition parse (s : string) : option uref :=
  let '(s1, q) := cut_first "?" s in
  match get_scheme s1 with
  | None => None
  | Some sch =>
      let rest := match sch with Some (_, r) => r | None => s1 end in
      let scheme := match sch with Some (x, _) => Some x | None => None end in
      let '(auth, path) :=
        if starts_with "//" rest then
          let r2 := drop 2 rest in
          let '(a, p) := cut_first "/" r2 in
          (Some a, match p with Some p => "/" ++ p | None => "" end)
        else (None, rest) in
      (* "first path segment in URL cannot contain colon" *)
      let colon_bad :=
        match scheme, auth with
        | None, None => if starts_with "/" path then false
                        else contains ":" (fst (cut_first "/" path))
        | _, _ => false
        end in
      if colon_bad || negb (escapes_ok path) then None
      else Some {| u_scheme := scheme; u_auth := auth; u_path := path; u_query := q |}
  end.

(* RFC 3986 5.2.4 on an absolute path *)
Fixpoint rds (stack : list string) (elems : list string) : list string :=
  match elems with
  | [] => stack
  | e :: r =>
      if String.eqb e "." then rds stack r
      else if String.eqb e ".." then rds (removelast stack) r
      else rds (stack ++ [e]) r
  end.

Definition remove_dot_segments (path : string) : string :=
  if String.eqb path "" then ""
  else
    let elems := match split_on "/" path with
                 | x :: r => if String.eqb x "" then r else x :: r
                 | [] => []
                 end in
    let st := rds [] elems in
    let lastdot := match rev elems with
                   | e :: _ => String.eqb e "." || String.eqb e ".."
                   | [] => false
                   end in
    "/" ++ join "/" st ++ (if lastdot then match st with [] => "" | _ => "/" end else "").

(* RFC 3986 5.2.3 (the base always has an authority and a non-empty path here) *)
Definition merge (basepath refpath : string) : string :=
  let segs := split_on "/" basepath in
  join "/" (removelast segs ++ [refpath]).

Definition recompose (scheme auth path : string) (q : option string) : string :=
  scheme ++ "://" ++ auth ++ path ++ match q with Some q => "?" ++ q | None => "" end.

Definition resolve_url (base ref : string) : option string :=
  match parse base, parse ref with
  | Some b, Some r =>
      let bs := match u_scheme b with Some x => x | None => "" end in
      let ba := match u_auth b with Some x => x | None => "" end in
      match u_scheme r with
      | Some sc =>
          Some (recompose sc (match u_auth r with Some a => a | None => "" end)
                          (remove_dot_segments (u_path r)) (u_query r))
      | None =>
          match u_auth r with
          | Some a => Some (recompose bs a (remove_dot_segments (u_path r)) (u_query r))
          | None =>
              if String.eqb (u_path r) "" then
                Some (recompose bs ba (remove_dot_segments (u_path b))
                                (match u_query r with Some q => Some q | None => u_query b end))
              else if starts_with "/" (u_path r) then
                Some (recompose bs ba (remove_dot_segments (u_path r)) (u_query r))
              else
                Some (recompose bs ba (remove_dot_segments (merge (u_path b) (u_path r))) (u_query r))
          end
      end
  | _, _ => None
  end.

(* ---------- _HLS_skip=YES ---------- *)
Definition key_of (kv : string) : string := fst (cut_first "=" kv).

Fixpoint insert_kv (kv : string) (l : list string) : list string :=
  match l with
  | [] => [kv]
  | x :: r => if String.leb (key_of x) (key_of kv) then x :: insert_kv kv r else kv :: x :: r
  end.

(* stable insertion sort by key *)
Definition sort_kv (l : list string) : list string := fold_left (fun acc kv => insert_kv kv acc) l [].

Definition add_skip (url : string) : string :=
  let '(p, q) := cut_first "?" url in
  match q with
  | None => p ++ "?_HLS_skip=YES"
  | Some q => p ++ "?" ++ join "&" (sort_kv (split_on "&" q ++ ["_HLS_skip=YES"]))
  end.
