(* M2 - pkg/playlist: byte strings, results, scalar codecs, primitives (definitions only).

   Transcribed Go (names kept):
     primitives.ReadLine                 -> read_line
     primitives.SkipHeader               -> skip_header
     primitives.Attributes.Unmarshal     -> attrs_unmarshal  (loop: attrs_loop, fuel = len v + 1)
     primitives.ByteRange.{Unmarshal,Marshal} -> byterange_unmarshal / byterange_marshal
     strconv.ParseUint(s, 10, bits)      -> parse_uint       (exact: digits only, non-empty, < 2^bits)
     strconv.FormatInt / FormatUint      -> fmt_int
     strings.{IndexByte,HasPrefix,TrimLeft(" "),TrimSpace,Split,SplitN(..,2),Join}
   Every Go slice / index expression is a guarded partial operation returning [Panic] when the
   bound check of the Go runtime would fail ([slice_to], [slice_from], [byte_at], [list_at]).
   Oracles (external code, see [oracles]): strconv.FormatFloat / ParseFloat as used for durations
   and frame rates, time.Format / time.Parse as used for EXT-X-PROGRAM-DATE-TIME. *)
From Coq Require Import List ZArith Bool String Ascii.
Import ListNotations.
Local Open Scope string_scope.
Local Open Scope Z_scope.

(* ---------- results ---------- *)
Inductive res (A : Type) : Type :=
| Ok (a : A)
| Err            (* the Go function returned a non-nil error *)
| Panic          (* the Go runtime would panic here *)
| OutOfFuel.     (* a loop ran out of fuel: excluded by the *_fuel lemmas *)
Arguments Ok {A} a.
Arguments Err {A}.
Arguments Panic {A}.
Arguments OutOfFuel {A}.

Definition bind {A B} (m : res A) (k : A -> res B) : res B :=
  match m with
  | Ok a => k a
  | Err => Err
  | Panic => Panic
  | OutOfFuel => OutOfFuel
  end.

Notation "'do' x <- m ;; k" := (bind m (fun x => k))
  (at level 200, x pattern, m at level 100, k at level 200, right associativity).

Definition of_option {A} (o : option A) : res A :=
  match o with Some a => Ok a | None => Err end.

(* ---------- bytes ---------- *)
Definition LF : ascii := ascii_of_nat 10.
Definition CR : ascii := ascii_of_nat 13.
Definition DQ : ascii := ascii_of_nat 34.
Definition lf : string := String LF "".

Definition slen (s : string) : nat := String.length s.

Fixpoint take (n : nat) (s : string) : string :=
  match n, s with
  | S n', String c s' => String c (take n' s')
  | _, _ => ""
  end.

Fixpoint drop (n : nat) (s : string) : string :=
  match n, s with
  | S n', String _ s' => drop n' s'
  | _, _ => s
  end.

(* s[:n], s[n:], s[n]: the Go runtime panics when n is out of range *)
Definition slice_to (n : nat) (s : string) : res string :=
  if Nat.leb n (slen s) then Ok (take n s) else Panic.
Definition slice_from (n : nat) (s : string) : res string :=
  if Nat.leb n (slen s) then Ok (drop n s) else Panic.
Definition byte_at (n : nat) (s : string) : res ascii :=
  match String.get n s with Some c => Ok c | None => Panic end.
Definition list_at {A} (n : nat) (l : list A) : res A :=
  match nth_error l n with Some a => Ok a | None => Panic end.

(* strings.IndexByte *)
Fixpoint index_byte (c : ascii) (s : string) : option nat :=
  match s with
  | "" => None
  | String a s' => if Ascii.eqb a c then Some O else option_map S (index_byte c s')
  end.

(* strings.HasPrefix(s, p) *)
Fixpoint has_prefix (p s : string) : bool :=
  match p, s with
  | "", _ => true
  | String a p', String b s' => Ascii.eqb a b && has_prefix p' s'
  | _, _ => false
  end.

(* the idiom   if strings.HasPrefix(line, p) { line = line[len(p):] ... *)
Definition cut_prefix (p line : string) : res string := slice_from (slen p) line.

(* strings.TrimLeft(s, " ") *)
Fixpoint trim_left_sp (s : string) : string :=
  match s with
  | String c s' => if Ascii.eqb c " " then trim_left_sp s' else s
  | "" => ""
  end.

(* strings.TrimSpace: unicode.IsSpace over UTF-8; an invalid byte decodes to U+FFFD (not a space).
   White space runes: U+0009..U+000D, U+0020, U+0085, U+00A0, U+1680, U+2000..U+200A,
   U+2028, U+2029, U+202F, U+205F, U+3000. *)
Definition ascii_space (c : ascii) : bool :=
  let n := nat_of_ascii c in
  (Nat.leb 9 n && Nat.leb n 13) || Nat.eqb n 32.

(* width in bytes of the white-space rune encoded by the bytes c d e (0 = not a white-space
   rune); absent bytes are passed as 0 *)
Definition space_rune (c d e : nat) : nat :=
  if (Nat.leb 9 c && Nat.leb c 13) || Nat.eqb c 32 then 1%nat
  else if Nat.eqb c 194 then (if Nat.eqb d 133 || Nat.eqb d 160 then 2%nat else 0%nat)
  else if Nat.eqb c 225 then (if Nat.eqb d 154 && Nat.eqb e 128 then 3%nat else 0%nat)
  else if Nat.eqb c 226 then
    (if Nat.eqb d 128 then
       (if (Nat.leb 128 e && Nat.leb e 138) || Nat.eqb e 168 || Nat.eqb e 169 || Nat.eqb e 175
        then 3%nat else 0%nat)
     else if Nat.eqb d 129 && Nat.eqb e 159 then 3%nat else 0%nat)
  else if Nat.eqb c 227 then (if Nat.eqb d 128 && Nat.eqb e 128 then 3%nat else 0%nat)
  else 0%nat.

(* utf8.DecodeRuneInString at the head of the byte list *)
Definition space_rune_len (l : list nat) : nat :=
  space_rune (nth 0 l 0%nat) (nth 1 l 0%nat) (nth 2 l 0%nat).

(* utf8.DecodeLastRuneInString, the byte list given in reverse order *)
Definition space_rune_len_rev (r : list nat) : nat :=
  if Nat.eqb (space_rune (nth 0 r 0%nat) 0 0) 1 then 1%nat
  else if Nat.eqb (space_rune (nth 1 r 0%nat) (nth 0 r 0%nat) 0) 2 then 2%nat
  else if Nat.eqb (space_rune (nth 2 r 0%nat) (nth 1 r 0%nat) (nth 0 r 0%nat)) 3 then 3%nat
  else 0%nat.

Definition bytes_of (s : string) : list nat := map nat_of_ascii (list_ascii_of_string s).
Definition string_of_bytes (l : list nat) : string := string_of_list_ascii (map ascii_of_nat l).

Fixpoint trim_runes (f : list nat -> nat) (fuel : nat) (l : list nat) : list nat :=
  match fuel with
  | O => l
  | S fuel' => match f l with
               | O => l
               | n => trim_runes f fuel' (skipn n l)
               end
  end.

Definition trim_space (s : string) : string :=
  let l := bytes_of s in
  let l1 := trim_runes space_rune_len (List.length l) l in
  let r1 := trim_runes space_rune_len_rev (List.length l1) (rev l1) in
  string_of_bytes (rev r1).

(* strings.Split(s, sep) for a one-byte separator: always at least one element *)
Fixpoint split_byte (c : ascii) (s : string) : list string :=
  match s with
  | "" => [""]
  | String a s' =>
      if Ascii.eqb a c then "" :: split_byte c s'
      else match split_byte c s' with
           | x :: tl => String a x :: tl
           | [] => [String a ""]          (* unreachable *)
           end
  end.

(* strings.SplitN(s, sep, 2) *)
Definition split_n2 (c : ascii) (s : string) : list string :=
  match index_byte c s with
  | None => [s]
  | Some i => [take i s; drop (S i) s]
  end.

(* strings.Join *)
Fixpoint join (sep : string) (l : list string) : string :=
  match l with
  | [] => ""
  | [x] => x
  | x :: tl => x ++ sep ++ join sep tl
  end.

(* ---------- unsigned decimals ---------- *)
Definition digit_of (c : ascii) : option Z :=
  let n := nat_of_ascii c in
  if Nat.leb 48 n && Nat.leb n 57 then Some (Z.of_nat n - 48) else None.

Fixpoint parse_digits (acc : Z) (s : string) : option Z :=
  match s with
  | "" => Some acc
  | String c s' => match digit_of c with
                   | Some d => parse_digits (acc * 10 + d) s'
                   | None => None
                   end
  end.

(* strconv.ParseUint(s, 10, bits): empty -> ErrSyntax; a sign, an underscore or any other
   non-digit -> ErrSyntax; value >= 2^bits -> ErrRange *)
Definition parse_uint (bits : Z) (s : string) : option Z :=
  match s with
  | "" => None
  | _ => match parse_digits 0 s with
         | Some v => if v <? 2 ^ bits then Some v else None
         | None => None
         end
  end.

Definition digit_char (d : Z) : ascii := ascii_of_nat (Z.to_nat (48 + d)).

Fixpoint fmt_digits (fuel : nat) (z : Z) (acc : string) : string :=
  match fuel with
  | O => acc
  | S f =>
      let acc' := String (digit_char (z mod 10)) acc in
      if z <? 10 then acc' else fmt_digits f (z / 10) acc'
  end.

Definition fmt_uint (z : Z) : string := fmt_digits (S (Z.to_nat (Z.log2 z))) z "".

(* strconv.FormatInt(v, 10) *)
Definition fmt_int (z : Z) : string :=
  if z <? 0 then String "-" (fmt_uint (- z)) else fmt_uint z.

(* ---------- oracles: float and time text codecs of the Go standard library ---------- *)
(* time.Time as far as the playlist code can observe it: the instant in ns since the Unix
   epoch and the zone offset in seconds east of UTC *)
Record dtime := { dt_ns : Z; dt_off : Z }.

Record oracles := {
  (* strconv.FormatFloat(time.Duration(d).Seconds(), 'f', 5, 64), d in ns *)
  fmt_dur : Z -> string;
  (* primitives.Duration.Unmarshal: ParseFloat(v, 64), then time.Duration(tmp * 1e9) *)
  parse_dur : string -> option Z;
  (* strconv.FormatFloat(f, 'f', 3, 64); a frame rate is carried in units of 1e-9 *)
  fmt_rate : Z -> string;
  (* strconv.ParseFloat(v, 64) *)
  parse_rate : string -> option Z;
  (* Time.Format("2006-01-02T15:04:05.999Z07:00") *)
  fmt_time : dtime -> string;
  (* parseTime: time.Parse with the RFC3339 layout, then with the ISO8601 one *)
  parse_time : string -> option dtime
}.

(* ---------- primitives.ReadLine ---------- *)
Definition read_line (s : string) : res (string * string) :=
  match index_byte LF s with
  | None => Ok (s, "")
  | Some i =>
      do line <- slice_to i s ;;
      do remaining <- slice_from (S i) s ;;
      do line' <- (if negb (Nat.eqb (slen line) 0) then
                     do c <- byte_at (slen line - 1) line ;;
                     if Ascii.eqb c CR then slice_to (slen line - 1) line else Ok line
                   else Ok line) ;;
      Ok (line', remaining)
  end.

(* ---------- primitives.SkipHeader ---------- *)
Definition skip_header (s : string) : res string :=
  do ls <- read_line s ;;
  let '(line, s') := ls in
  if String.eqb line "#EXTM3U" then Ok s' else Err.

(* ---------- primitives.Attributes ---------- *)
(* Go: map[string]string. Model: association list with unique keys; assignment to an
   existing key replaces the value in place, a new key is appended. *)
Definition attrs := list (string * string).

Fixpoint map_set (a : attrs) (k v : string) : attrs :=
  match a with
  | [] => [(k, v)]
  | (k', v') :: tl => if String.eqb k' k then (k', v) :: tl else (k', v') :: map_set tl k v
  end.

Fixpoint attrs_loop (fuel : nat) (v : string) (a : attrs) : res attrs :=
  match fuel with
  | O => OutOfFuel
  | S f =>
      if Nat.eqb (slen v) 0 then Ok a
      else
        match index_byte "=" v with
        | None => Err                                     (* key not found *)
        | Some i =>
            do key0 <- slice_to i v ;;
            do v1 <- slice_from (S i) v ;;
            let key := trim_left_sp key0 in
            do quoted <- (if negb (Nat.eqb (slen v1) 0)
                          then do c <- byte_at 0 v1 ;; Ok (Ascii.eqb c DQ)
                          else Ok false) ;;
            if quoted then
              do v2 <- slice_from 1 v1 ;;
              match index_byte DQ v2 with
              | None => Err                               (* value end delimiter not found *)
              | Some j =>
                  do val <- slice_to j v2 ;;
                  do v3 <- slice_from (S j) v2 ;;
                  let a' := map_set a key val in
                  if negb (Nat.eqb (slen v3) 0) then
                    do c <- byte_at 0 v3 ;;
                    if negb (Ascii.eqb c ",") then Err    (* delimiter not found *)
                    else do v4 <- slice_from 1 v3 ;; attrs_loop f v4 a'
                  else attrs_loop f v3 a'
              end
            else
              match index_byte "," v1 with
              | Some j =>
                  do val <- slice_to j v1 ;;
                  do v2 <- slice_from (S j) v1 ;;
                  attrs_loop f v2 (map_set a key val)
              | None => Ok (map_set a key v1)
              end
        end
  end.

Definition attrs_unmarshal (v : string) : res attrs := attrs_loop (S (slen v)) v [].

(* for key, val := range attrs { ... }: the model walks the list in order (Go's order is
   random; Proofs/PlaylistAttrs.v shows the order does not matter) *)
Fixpoint attrs_fold {T} (step : T -> string -> string -> res T) (a : attrs) (t : T) : res T :=
  match a with
  | [] => Ok t
  | (k, v) :: tl => do t' <- step t k v ;; attrs_fold step tl t'
  end.

(* ---------- primitives.ByteRange ---------- *)
(* (Length, Start) *)
Definition byterange_unmarshal (v : string) : res (Z * option Z) :=
  match index_byte "@" v with
  | Some i =>
      do str1 <- slice_to i v ;;
      do str2 <- slice_from (S i) v ;;
      do len <- of_option (parse_uint 64 str1) ;;
      do start <- of_option (parse_uint 64 str2) ;;
      Ok (len, Some start)
  | None =>
      do len <- of_option (parse_uint 64 v) ;;
      Ok (len, None)
  end.

Definition byterange_marshal (len : Z) (start : option Z) : string :=
  fmt_int len ++ match start with Some s => "@" ++ fmt_int s | None => "" end.
