(* M2 - executable instance of the scalar oracles of Model/PlaylistBase.v, used by the tie and
   by the refutation witnesses (definitions only).

   [go_oracles] reproduces what the Go standard library does on the input classes the harness
   generates (everything else is answered [None] and kept out of the model-compared streams):
     * decimal numbers  [+-]? digits [. digits]  |  [+-]? . digits   with at most 15 digits:
       strconv.ParseFloat is correctly rounded, so its result is the IEEE-754 quotient
       k / 10^m of two exactly representable doubles (Coq primitive floats = binary64);
     * primitives.Duration.Unmarshal: the double times 1e9, truncated toward zero
       (out of the int64 range: the amd64 "integer indefinite" value -2^63);
     * strconv.FormatFloat(x, 'f', prec, 64): exact decimal expansion of the double, rounded
       half-to-even at [prec] decimals (computed exactly in Z from mantissa and exponent);
     * time.Duration.Seconds(): float64(d / 1e9) + float64(d % 1e9) / 1e9;
     * Time.Format / time.Parse for the two layouts of media.go, years 0..9999
       (Model/PlaylistTime.v, pure Z). *)
From Coq Require Import List ZArith Bool String Ascii Floats Uint63.
From GoHls Require Import Model.PlaylistBase Model.PlaylistTime.
Import ListNotations.
Local Open Scope string_scope.
Local Open Scope Z_scope.

(* ---------- binary64 helpers ---------- *)
Definition float_of_Z (z : Z) : float :=          (* exact for |z| < 2^53 *)
  if z <? 0 then PrimFloat.opp (PrimFloat.of_uint63 (Uint63.of_Z (- z)))
  else PrimFloat.of_uint63 (Uint63.of_Z z).

(* (negative, mantissa, exponent): the double is (-1)^neg * mantissa * 2^exponent; None for
   infinities and NaN *)
Definition float_exact (f : float) : option (bool * Z * Z) :=
  match Prim2SF f with
  | S754_zero s => Some (s, 0, 0)
  | S754_finite s m e => Some (s, Zpos m, e)
  | _ => None
  end.

(* round-half-even of |f| * 10^dec, with the sign bit *)
Definition float_scaled (f : float) (dec : Z) : option (bool * Z) :=
  match float_exact f with
  | None => None
  | Some (s, m, e) =>
      let num := m * 10 ^ dec in
      if 0 <=? e then Some (s, num * 2 ^ e)
      else
        let den := 2 ^ (- e) in
        let q := num / den in
        let r := num mod den in
        let up := (den <? 2 * r) || ((den =? 2 * r) && Z.odd q) in
        Some (s, if up then q + 1 else q)
  end.

(* strconv.FormatFloat(f, 'f', dec, 64) for finite f *)
Definition format_fixed (f : float) (dec : nat) : string :=
  match float_scaled f (Z.of_nat dec) with
  | None => "NaN"
  | Some (s, q) =>
      let p := 10 ^ Z.of_nat dec in
      (if s then "-" else "") ++ fmt_uint (q / p) ++ "." ++ pad_digits dec (q mod p) ""
  end.

(* ---------- the decimal class ---------- *)
(* (negative, mantissa k, number of fractional digits m): the text denotes (-1)^neg * k / 10^m *)
Definition parse_decimal (s : string) : option (bool * Z * nat) :=
  let '(neg, body) :=
    match s with
    | String "-" t => (true, t)
    | String "+" t => (false, t)
    | _ => (false, s)
    end in
  let '(ip, fp) :=
    match index_byte "." body with
    | Some i => (take i body, drop (S i) body)
    | None => (body, "")
    end in
  if all_digits ip && all_digits fp
     && negb (Nat.eqb (slen ip + slen fp) 0) && Nat.leb (slen ip + slen fp) 15
  then match parse_digits 0 (ip ++ fp) with
       | Some k => Some (neg, k, slen fp)
       | None => None
       end
  else None.

(* strconv.ParseFloat on the class *)
Definition parse_float (s : string) : option float :=
  match parse_decimal s with
  | Some (neg, k, m) =>
      let f := PrimFloat.div (float_of_Z k) (float_of_Z (10 ^ Z.of_nat m)) in
      Some (if neg then PrimFloat.opp f else f)
  | None => None
  end.

Definition float_1e9 : float := float_of_Z 1000000000.

(* int64(f): truncation toward zero; outside int64 the amd64 result *)
Definition float_to_int64 (f : float) : Z :=
  match float_exact f with
  | None => - 2 ^ 63
  | Some (s, m, e) =>
      let a := if 0 <=? e then m * 2 ^ e else m / 2 ^ (- e) in
      let v := if s then - a else a in
      if (- 2 ^ 63 <=? v) && (v <? 2 ^ 63) then v else - 2 ^ 63
  end.

Definition go_parse_dur (s : string) : option Z :=
  match parse_float s with
  | Some f => Some (float_to_int64 (PrimFloat.mul f float_1e9))
  | None => None
  end.

Definition go_seconds (d : Z) : float :=
  PrimFloat.add (float_of_Z (Z.quot d 1000000000))
                (PrimFloat.div (float_of_Z (Z.rem d 1000000000)) float_1e9).

Definition go_fmt_dur (d : Z) : string := format_fixed (go_seconds d) 5.

(* frame rates are carried in units of 1e-9: exact for at most 9 fractional digits *)
Definition go_parse_rate (s : string) : option Z :=
  match parse_decimal s with
  | Some (neg, k, m) =>
      if Nat.leb m 9 then
        let n := k * 10 ^ Z.of_nat (9 - m) in Some (if neg then - n else n)
      else None
  | None => None
  end.

Definition go_fmt_rate (n : Z) : string :=
  format_fixed (PrimFloat.div (float_of_Z n) float_1e9) 3.

Definition go_oracles : oracles :=
  {| fmt_dur := go_fmt_dur; parse_dur := go_parse_dur;
     fmt_rate := go_fmt_rate; parse_rate := go_parse_rate;
     fmt_time := go_fmt_time; parse_time := go_parse_time |}.
