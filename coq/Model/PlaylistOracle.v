(* M2 - executable instance of the scalar oracles of Model/PlaylistBase.v, used by the tie and
   by the refutation witnesses (definitions only).

   [go_oracles] reproduces what the Go standard library does on the input classes the harness
   generates (everything else is answered [None] and kept out of the model-compared streams):
     * decimal numbers  [+-]? digits [. digits]  |  [+-]? . digits   with at most 15 digits:
       strconv.ParseFloat is correctly rounded, so its result is the IEEE-754 quotient
       k / 10^m of two exactly representable doubles (Coq primitive floats = binary64);
     * primitives.Duration.Unmarshal: the double times 1e9, truncated toward zero
       (out of the int64 range: the amd64 "integer indefinite" value -2^63);
     * strconv.FormatFloat(x, 'f', prec, 64): exact decimal expansion of the double, rounded
       half-to-even at [prec] decimals (computed exactly in Z from mantissa and exponent);
     * time.Duration.Seconds(): float64(d / 1e9) + float64(d % 1e9) / 1e9;
     * Time.Format / time.Parse for the two layouts of media.go, years 0..9999. *)
From Coq Require Import List ZArith Bool String Ascii Floats Uint63.
From GoHls Require Import Model.PlaylistBase.
Import ListNotations.
Local Open Scope string_scope.
Local Open Scope Z_scope.

(* ---------- binary64 helpers ---------- *)
Definition float_of_Z (z : Z) : float :=          (* exact for |z| < 2^53 *)
  if z <? 0 then PrimFloat.opp (PrimFloat.of_uint63 (Uint63.of_Z (- z)))
  else PrimFloat.of_uint63 (Uint63.of_Z z).

(* (negative, mantissa, exponent): the double is (-1)^neg * mantissa * 2^exponent; None for
   infinities and NaN *)
Definition float_exact (f : float) : option (bool * Z * Z) :=
  match Prim2SF f with
  | S754_zero s => Some (s, 0, 0)
  | S754_finite s m e => Some (s, Zpos m, e)
  | _ => None
  end.

(* round-half-even of |f| * 10^dec, with the sign bit *)
Definition float_scaled (f : float) (dec : Z) : option (bool * Z) :=
  match float_exact f with
  | None => None
  | Some (s, m, e) =>
      let num := m * 10 ^ dec in
      if 0 <=? e then Some (s, num * 2 ^ e)
      else
        let den := 2 ^ (- e) in
        let q := num / den in
        let r := num mod den in
        let up := (den <? 2 * r) || ((den =? 2 * r) && Z.odd q) in
        Some (s, if up then q + 1 else q)
  end.

(* exactly [n] decimal digits of z (most significant first) *)
Fixpoint pad_digits (n : nat) (z : Z) (acc : string) : string :=
  match n with
  | O => acc
  | S n' => pad_digits n' (z / 10) (String (digit_char (z mod 10)) acc)
  end.

(* strconv.FormatFloat(f, 'f', dec, 64) for finite f *)
Definition format_fixed (f : float) (dec : nat) : string :=
  match float_scaled f (Z.of_nat dec) with
  | None => "NaN"
  | Some (s, q) =>
      let p := 10 ^ Z.of_nat dec in
      (if s then "-" else "") ++ fmt_uint (q / p) ++ "." ++ pad_digits dec (q mod p) ""
  end.

(* ---------- the decimal class ---------- *)
Fixpoint all_digits (s : string) : bool :=
  match s with
  | "" => true
  | String c s' => match digit_of c with Some _ => all_digits s' | None => false end
  end.

(* (negative, mantissa k, number of fractional digits m): the text denotes (-1)^neg * k / 10^m *)
Definition parse_decimal (s : string) : option (bool * Z * nat) :=
  let '(neg, body) :=
    match s with
    | String "-" t => (true, t)
    | String "+" t => (false, t)
    | _ => (false, s)
    end in
  let '(ip, fp) :=
    match index_byte "." body with
    | Some i => (take i body, drop (S i) body)
    | None => (body, "")
    end in
  if all_digits ip && all_digits fp
     && negb (Nat.eqb (slen ip + slen fp) 0) && Nat.leb (slen ip + slen fp) 15
  then match parse_digits 0 (ip ++ fp) with
       | Some k => Some (neg, k, slen fp)
       | None => None
       end
  else None.

(* strconv.ParseFloat on the class *)
Definition parse_float (s : string) : option float :=
  match parse_decimal s with
  | Some (neg, k, m) =>
      let f := PrimFloat.div (float_of_Z k) (float_of_Z (10 ^ Z.of_nat m)) in
      Some (if neg then PrimFloat.opp f else f)
  | None => None
  end.

Definition float_1e9 : float := float_of_Z 1000000000.

(* int64(f): truncation toward zero; outside int64 the amd64 result *)
Definition float_to_int64 (f : float) : Z :=
  match float_exact f with
  | None => - 2 ^ 63
  | Some (s, m, e) =>
      let a := if 0 <=? e then m * 2 ^ e else m / 2 ^ (- e) in
      let v := if s then - a else a in
      if (- 2 ^ 63 <=? v) && (v <? 2 ^ 63) then v else - 2 ^ 63
  end.

Definition go_parse_dur (s : string) : option Z :=
  match parse_float s with
  | Some f => Some (float_to_int64 (PrimFloat.mul f float_1e9))
  | None => None
  end.

Definition go_seconds (d : Z) : float :=
  PrimFloat.add (float_of_Z (Z.quot d 1000000000))
                (PrimFloat.div (float_of_Z (Z.rem d 1000000000)) float_1e9).

Definition go_fmt_dur (d : Z) : string := format_fixed (go_seconds d) 5.

(* frame rates are carried in units of 1e-9: exact for at most 9 fractional digits *)
Definition go_parse_rate (s : string) : option Z :=
  match parse_decimal s with
  | Some (neg, k, m) =>
      if Nat.leb m 9 then
        let n := k * 10 ^ Z.of_nat (9 - m) in Some (if neg then - n else n)
      else None
  | None => None
  end.

Definition go_fmt_rate (n : Z) : string :=
  format_fixed (PrimFloat.div (float_of_Z n) float_1e9) 3.

(* ---------- civil time ---------- *)
(* days since 1970-01-01 <-> proleptic Gregorian date *)
Definition days_from_civil (y m d : Z) : Z :=
  let y' := if m <=? 2 then y - 1 else y in
  let era := y' / 400 in
  let yoe := y' - era * 400 in
  let mp := (m + 9) mod 12 in
  let doy := (153 * mp + 2) / 5 + d - 1 in
  let doe := yoe * 365 + yoe / 4 - yoe / 100 + doy in
  era * 146097 + doe - 719468.

Definition civil_from_days (z : Z) : Z * Z * Z :=
  let z := z + 719468 in
  let era := z / 146097 in
  let doe := z - era * 146097 in
  let yoe := (doe - doe / 1460 + doe / 36524 - doe / 146096) / 365 in
  let y := yoe + era * 400 in
  let doy := doe - (365 * yoe + yoe / 4 - yoe / 100) in
  let mp := (5 * doy + 2) / 153 in
  let d := doy - (153 * mp + 2) / 5 + 1 in
  let m := if mp <? 10 then mp + 3 else mp - 9 in
  (if m <=? 2 then y + 1 else y, m, d).

Definition is_leap (y : Z) : bool :=
  ((y mod 4 =? 0) && negb (y mod 100 =? 0)) || (y mod 400 =? 0).

Definition days_in (m y : Z) : Z :=
  if m =? 2 then (if is_leap y then 29 else 28)
  else if (m =? 4) || (m =? 6) || (m =? 9) || (m =? 11) then 30 else 31.

Definition d2 (z : Z) : string := pad_digits 2 z "".
Definition d4 (z : Z) : string := pad_digits 4 z "".

Fixpoint trim_trailing_zeros_rev (l : list ascii) : list ascii :=
  match l with
  | c :: tl => if Ascii.eqb c "0" then trim_trailing_zeros_rev tl else l
  | [] => []
  end.

Definition frac_millis (ms : Z) : string :=
  if ms =? 0 then ""
  else "." ++ string_of_list_ascii
                (rev (trim_trailing_zeros_rev (rev (list_ascii_of_string (pad_digits 3 ms ""))))).

(* Time.Format("2006-01-02T15:04:05.999Z07:00"), years 0..9999 *)
Definition go_fmt_time (t : dtime) : string :=
  let local := dt_ns t + dt_off t * 1000000000 in
  let secs := local / 1000000000 in
  let nsec := local mod 1000000000 in
  let days := secs / 86400 in
  let sod := secs mod 86400 in
  let '(y, mo, d) := civil_from_days days in
  let off := dt_off t in
  d4 y ++ "-" ++ d2 mo ++ "-" ++ d2 d ++ "T"
  ++ d2 (sod / 3600) ++ ":" ++ d2 ((sod / 60) mod 60) ++ ":" ++ d2 (sod mod 60)
  ++ frac_millis (nsec / 1000000)
  ++ (if off =? 0 then "Z"
      else let zone := Z.quot off 60 in
           (if zone <? 0 then "-" else "+")
           ++ d2 (Z.abs zone / 60) ++ ":" ++ d2 (Z.abs zone mod 60)).

Definition num_n (n : nat) (s : string) : option (Z * string) :=
  let h := take n s in
  if Nat.eqb (slen h) n && all_digits h then
    match parse_digits 0 h with Some v => Some (v, drop n s) | None => None end
  else None.

Definition expect (c : ascii) (s : string) : option string :=
  match s with
  | String a s' => if Ascii.eqb a c then Some s' else None
  | "" => None
  end.

Fixpoint count_digits (s : string) : nat :=
  match s with
  | String c s' => match digit_of c with Some _ => S (count_digits s') | None => O end
  | "" => O
  end.

Definition opt_bind {A B} (o : option A) (k : A -> option B) : option B :=
  match o with Some a => k a | None => None end.
Notation "'let?' x := m 'in' k" := (opt_bind m (fun x => k))
  (at level 200, x pattern, m at level 100, k at level 200, right associativity).

(* zone: Z | [+-]hh:mm | [+-]hhmm, then end of input *)
Definition parse_zone (s : string) : option Z :=
  match s with
  | "Z" => Some 0
  | String sg rest =>
      if Ascii.eqb sg "+" || Ascii.eqb sg "-" then
        let? (hh, r1) := num_n 2 rest in
        let r2 := match r1 with String ":" r => r | _ => r1 end in
        let? (mm, r3) := num_n 2 r2 in
        if negb (String.eqb r3 "") then None
        else if (24 <? hh) || (60 <? mm) then None
        else let o := (hh * 60 + mm) * 60 in Some (if Ascii.eqb sg "-" then - o else o)
      else None
  | "" => None
  end.

(* parseTime on  YYYY-MM-DDThh:mm:ss[.f{1,9}](Z|[+-]hh:mm|[+-]hhmm) *)
Definition go_parse_time (s : string) : option dtime :=
  let? (y, s) := num_n 4 s in
  let? s := expect "-" s in
  let? (mo, s) := num_n 2 s in
  let? s := expect "-" s in
  let? (d, s) := num_n 2 s in
  let? s := expect "T" s in
  let? (h, s) := num_n 2 s in
  let? s := expect ":" s in
  let? (mi, s) := num_n 2 s in
  let? s := expect ":" s in
  let? (sec, s) := num_n 2 s in
  let? (frac, s) :=
    match s with
    | String "." r =>
        let n := count_digits r in
        if Nat.eqb n 0 || Nat.ltb 9 n then None
        else match parse_digits 0 (take n r) with
             | Some v => Some (v * 10 ^ Z.of_nat (9 - n), drop n r)
             | None => None
             end
    | _ => Some (0, s)
    end in
  let? off := parse_zone s in
  if (mo <? 1) || (12 <? mo) || (d <? 1) || (days_in mo y <? d)
     || (23 <? h) || (59 <? mi) || (59 <? sec) then None
  else
    let secs := days_from_civil y mo d * 86400 + h * 3600 + mi * 60 + sec - off in
    Some {| dt_ns := secs * 1000000000 + frac; dt_off := off |}.

Definition go_oracles : oracles :=
  {| fmt_dur := go_fmt_dur; parse_dur := go_parse_dur;
     fmt_rate := go_fmt_rate; parse_rate := go_parse_rate;
     fmt_time := go_fmt_time; parse_time := go_parse_time |}.
