(* M9 proofs, part 5: absence of a wedge. A run of the model ends in [Err EBlocked] exactly when a
   goroutine of the client is parked for ever (until Close). The producers of EBlocked inside a
   whole client run are: a push to a track processor stuck in onPartTrackProcessed (finding 3),
   a rendition waiting for the leading stream's time converter, and a pull from a segment queue
   nobody will fill. With the repair of finding 3 in the tree (rep_join = true) none of them is
   reachable, for EVERY scenario: no hypothesis on playlists or media content. *)
From Coq Require Import List ZArith Bool String Lia.
From GoHls Require Import Model.ClientContent Proofs.ClientContentOps.
Import ListNotations.
Local Open Scope Z_scope.

Definition is_blocked {A} (r : res A) : bool :=
  match r with Err EBlocked => true | _ => false end.

(* [good r P]: r is not the wedge, and if it is a value the value satisfies P *)
Definition good {A} (r : res A) (P : A -> Prop) : Prop :=
  is_blocked r = false /\ forall a, r = Ok a -> P a.

Lemma good_bind : forall A B (m : res A) (k : A -> res B) (Q : A -> Prop) (P : B -> Prop),
  good m Q -> (forall a, Q a -> good (k a) P) -> good (bind m k) P.
Proof.
  intros A B m k Q P [H1 H2] H. destruct m as [a|e|p|]; cbn [bind].
  - apply H. apply H2. reflexivity.
  - split; [exact H1|discriminate].
  - split; [reflexivity|discriminate].
  - split; [reflexivity|discriminate].
Qed.

Lemma bind_nb : forall A B (m : res A) (k : A -> res B),
  is_blocked m = false -> (forall a, is_blocked (k a) = false) -> is_blocked (bind m k) = false.
Proof. intros A B m k H1 H2. destruct m as [a|e|p|]; cbn [bind]; auto. Qed.

Lemma good_nb : forall A (r : res A), is_blocked r = false -> good r (fun _ => True).
Proof. intros. split; auto. Qed.

Lemma good_ok : forall A (a : A) (P : A -> Prop), P a -> good (Ok a) P.
Proof. intros. split; [reflexivity|]. intros b E. inversion E; subst; auto. Qed.

Lemma good_weaken : forall A (r : res A) (P Q : A -> Prop),
  good r P -> (forall a, P a -> Q a) -> good r Q.
Proof. intros A r P Q [H1 H2] H. split; auto. Qed.

Lemma good_stop : forall A (r : res A) (P : A -> Prop),
  is_blocked r = false -> (forall a, r <> Ok a) -> good r P.
Proof. intros A r P H N. split; auto. intros a E. exfalso. apply (N a E). Qed.

Ltac stop := apply good_stop; [reflexivity|intros ? ?; discriminate].
Ltac step_nb lem := eapply good_bind; [apply good_nb; apply lem|intros ? _].

(* ---------- operations that never block ---------- *)
Lemma index_at_nb : forall A (l : list A) i, is_blocked (index_at l i) = false.
Proof. intros. unfold index_at. destruct (i <? 0); auto. destruct (nth_error _ _); auto. Qed.

Lemma deref_nb : forall A (o : option A), is_blocked (deref o) = false.
Proof. intros. destruct o; auto. Qed.

Lemma mad_nb : forall v m d, is_blocked (multiplyAndDivide v m d) = false.
Proof. intros. unfold multiplyAndDivide. destruct (d =? 0); auto. Qed.

Lemma handleData_nb : forall cr el pts dts, is_blocked (handleData cr el pts dts) = false.
Proof.
  intros. unfold handleData. destruct (pts <? 0); auto.
  unfold timestampToDuration, multiplyAndDivide. destruct (cr =? 0); auto. cbn [bind].
  repeat dif; reflexivity.
Qed.

Lemma process_loop_nb : forall tp el edts entp samples dts n,
  is_blocked (process_loop tp el edts entp dts samples n) = false.
Proof.
  intros tp el edts entp samples. induction samples as [|s rest IH]; intros dts n; cbn; auto.
  destruct (tp_decode tp) as [d|]; auto.
  destruct (decodePayload d s); cbn [negb]; auto.
  apply bind_nb.
  - destruct entp; auto. apply bind_nb; [apply mad_nb|reflexivity].
  - intros _. apply bind_nb; [apply handleData_nb|]. intros r. apply IH.
Qed.

Lemma lconvF_nb : forall c, is_blocked (leadingTimeConvFMP4 c) = false.
Proof. intros [[|]|]; auto. Qed.
Lemma lconvT_nb : forall c, is_blocked (leadingTimeConvMPEGTS c) = false.
Proof. intros [[|]|]; auto. Qed.

Lemma fconvert_nb : forall tc v cr, is_blocked (fconvert tc v cr) = false.
Proof. intros. unfold fconvert. apply bind_nb; [apply mad_nb|reflexivity]. Qed.

Lemma fgetNTP_nb : forall tc ts cr, is_blocked (fgetNTP tc ts cr) = false.
Proof.
  intros. unfold fgetNTP. destruct (tc_ntp tc) as [[[v nts] ncr]|]; auto.
  apply bind_nb; [apply mad_nb|intros ?].
  apply bind_nb; [apply mad_nb|reflexivity].
Qed.

Lemma tgetNTP_nb : forall c ts, is_blocked (tgetNTP c ts) = false.
Proof. intros. destruct (tgetNTP_ok c ts) as [x ->]. reflexivity. Qed.

Lemma build_procs_nb : forall cst i init, is_blocked (build_procs i cst init) = false.
Proof.
  induction cst as [|t r IH]; intros; cbn; auto.
  apply bind_nb; [apply index_at_nb|intros ?].
  apply bind_nb; [apply IH|reflexivity].
Qed.

(* ---------- finding 3 repaired: nobody gets stuck in onPartTrackProcessed ---------- *)
Lemma pt_loop_good : forall procs c el pts counts js,
  j_stuck js = [] ->
  good (pt_loop true procs c el pts counts js) (fun x => j_stuck (snd x) = []).
Proof.
  intros procs c el pts. induction pts as [|pt r IH]; intros counts js H; cbn [pt_loop].
  - apply good_ok. exact H.
  - destruct (find_proc procs (pt_id pt)) as [tp|]; [|apply IH; exact H].
    step_nb lconvF_nb. step_nb fconvert_nb. step_nb fgetNTP_nb.
    unfold j_is_stuck. rewrite H. cbn [existsb].
    eapply good_bind; [apply good_nb; apply process_loop_nb|intros n _].
    apply IH. unfold j_done. cbn [orb j_stuck]. exact H.
Qed.

Lemma parts_loop_good : forall procs c el parts counts js,
  j_stuck js = [] ->
  good (parts_loop true procs c el parts counts js) (fun _ => True).
Proof.
  intros procs c el parts. induction parts as [|p r IH]; intros counts js H; cbn [parts_loop].
  - apply good_ok. exact I.
  - eapply good_bind; [apply pt_loop_good; exact H|]. intros x Hx. apply IH. exact Hx.
Qed.

(* ---------- the fMP4 stream processor ---------- *)
Lemma fmp4_init_good : forall p c pt,
  (f_isLeading p = true \/ c <> None) ->
  good (fmp4_initializeTrackProcessors p c pt)
       (fun pc => f_procs (fst pc) <> None /\ snd pc <> None /\ f_isLeading (fst pc) = f_isLeading p
                  /\ f_repJoin (fst pc) = f_repJoin p).
Proof.
  intros p c pt L. unfold fmp4_initializeTrackProcessors.
  eapply good_bind with (Q := fun c' : option conv => c' <> None).
  - destruct (f_isLeading p).
    + apply good_ok. discriminate.
    + destruct L as [L|L]; [discriminate|]. destruct c as [[tc|tc]|]; [apply good_ok; discriminate|stop|contradiction].
  - intros c' Hc'. eapply good_bind; [apply good_nb; apply build_procs_nb|intros procs _].
    apply good_ok. cbn. repeat split; auto. discriminate.
Qed.

(* W: processors exist only after the time converter was set / seen *)
Definition fW (p : fsp) (c : option conv) : Prop := f_procs p <> None -> c <> None.

Lemma fmp4_processSegment_good : forall p c el seg counts,
  f_repJoin p = true -> fW p c -> (f_isLeading p = true \/ c <> None) ->
  good (fmp4_processSegment p c el seg counts)
       (fun r => let '(p', c', _) := r in
                 f_repJoin p' = true /\ fW p' c' /\ f_isLeading p' = f_isLeading p
                 /\ (c <> None -> c' <> None) /\ (f_isLeading p = true -> f_procs p' <> None)).
Proof.
  intros p c el seg counts HR HW HL. unfold fmp4_processSegment.
  destruct (fg_parts seg) as [parts|]; [|stop].
  destruct (findFirstPartTrackOfLeadingTrack parts (f_leadingTrackID p)) as [lpt|].
  - eapply good_bind with (Q := fun pc : fsp * option conv =>
      f_procs (fst pc) <> None /\ snd pc <> None /\ f_isLeading (fst pc) = f_isLeading p /\ f_repJoin (fst pc) = true).
    + destruct (f_procs p) as [pr|] eqn:FP.
      * apply good_ok. cbn. rewrite FP. repeat split; auto; try discriminate. apply HW. rewrite FP. discriminate.
      * eapply good_weaken; [apply fmp4_init_good; exact HL|]. intros pc [a [b [d e]]]. rewrite e. auto.
    + intros [p1 c1] [H1 [H2 [H3 H4]]]. cbn [fst snd] in *.
      destruct (f_procs p1) as [procs|] eqn:FP1; [|contradiction]. cbn [deref bind].
      eapply good_bind with (Q := fun c2 : option conv => c2 <> None).
      * destruct (f_isLeading p1); [|apply good_ok; exact H2].
        destruct (fg_dateTime seg).
        -- step_nb deref_nb. step_nb lconvF_nb. step_nb fconvert_nb. step_nb lconvF_nb. apply good_ok. discriminate.
        -- step_nb lconvF_nb. apply good_ok. exact H2.
      * intros c2 Hc2. rewrite H4.
        eapply good_bind; [apply parts_loop_good; reflexivity|intros x _].
        apply good_ok. repeat split; auto.
        -- intros _. exact Hc2.
        -- intros _. rewrite FP1. discriminate.
  - destruct (parts_empty parts && (negb (f_isLeading p) || match f_procs p with Some _ => true | None => false end)) eqn:E; [|stop].
    apply good_ok. repeat split; auto.
    intros L. rewrite L in E. cbn in E. apply andb_true_iff in E. destruct E as [_ E].
    destruct (f_procs p); [discriminate|discriminate].
Qed.

Lemma fmp4_run_loop_good : forall el segs fuel p c counts,
  f_repJoin p = true -> fW p c -> (f_isLeading p = true \/ c <> None) ->
  good (fmp4_run_loop fuel p c el (map Some segs ++ [None]) counts)
       (fun r => (c <> None -> fst r <> None) /\ (f_isLeading p = true -> segs <> [] -> fst r <> None)).
Proof.
  intros el segs. induction segs as [|s rest IH]; intros fuel p c counts HR HW HL;
    (destruct fuel as [|fuel]; [split; [reflexivity|discriminate]|]); cbn [map app fmp4_run_loop].
  - apply good_ok. cbn. split; auto; try (intros; congruence).
  - eapply good_bind; [apply fmp4_processSegment_good; auto|].
    intros [[p' c'] counts'] [a [b [d [e f]]]].
    assert (Hc' : f_isLeading p = true \/ c <> None -> c' <> None).
    { intros [L|L]; [apply b; apply f; exact L|apply e; exact L]. }
    eapply good_weaken.
    + apply IH; [exact a|exact b|right; apply Hc'; exact HL].
    + intros r [R1 _]. split.
      * intros N. apply R1. apply e. exact N.
      * intros L _. apply R1. apply Hc'. left. exact L.
Qed.

(* ---------- the MPEG-TS stream processor ---------- *)
Definition tT (p : tsp) (c : option conv) : Prop := s_procsInit p = true -> c <> None.
Definition tF (p : tsp) : Prop := s_leadingTrackFound p = true -> s_procsInit p = true.

Definition ts_post (p : tsp) (c : option conv) (p' : tsp) (c' : option conv) : Prop :=
  tT p' c' /\ tF p' /\ s_isLeading p' = s_isLeading p /\ (c <> None -> c' <> None).

Lemma ts_init_good : forall p c dts,
  (s_isLeading p = true \/ c <> None) ->
  good (ts_initializeTrackProcessors p c dts) (fun c' => c' <> None).
Proof.
  intros p c dts L. unfold ts_initializeTrackProcessors. destruct (s_isLeading p).
  - apply good_ok. discriminate.
  - destruct L as [L|L]; [discriminate|]. destruct c as [[tc|tc]|]; [stop|apply good_ok; discriminate|contradiction].
Qed.

Lemma ts_processSample_good : forall p c el dt i rawPTS rawDTS counts,
  tT p c -> tF p -> (s_isLeading p = true \/ c <> None) ->
  good (ts_processSample p c el dt i rawPTS rawDTS counts)
       (fun r => let '(p', c', _) := r in ts_post p c p' c').
Proof.
  intros p c el dt i rawPTS rawDTS counts HT HF HL. unfold ts_processSample.
  set (isL := Nat.eqb i (s_leadingIdx p)).
  eapply good_bind with (Q := fun pc : tsp * option conv => ts_post p c (fst pc) (snd pc)).
  - destruct isL.
    + destruct (s_procsInit p) eqn:PI.
      * apply good_ok. unfold ts_post, tT, tF. cbn. repeat split; auto.
      * eapply good_bind; [apply ts_init_good; exact HL|intros c' Hc'].
        apply good_ok. unfold ts_post, tT, tF. cbn. repeat split; auto.
    + apply good_ok. unfold ts_post. cbn. repeat split; auto.
  - intros [p1 c1] [A [B [D E]]]. cbn [fst snd] in *.
    destruct (s_procsInit p1) eqn:PI; cbn [negb].
    + step_nb lconvT_nb. destruct (td_decode _ rawPTS) as [tc1 pts]. cbn [leadingTimeConvMPEGTS bind].
      destruct (td_decode tc1 rawDTS) as [tc2 dts].
      step_nb tgetNTP_nb. step_nb handleData_nb.
      apply good_ok. unfold ts_post, tT, tF in *.
      destruct (negb (s_dateTimeProcessed p1) && s_isLeading p1 && isL); cbn; repeat split; auto; try discriminate.
    + apply good_ok. unfold ts_post. repeat split; auto.
Qed.

Lemma ts_on_data_good : forall p c el dt i pts dts counts,
  tT p c -> tF p -> (s_isLeading p = true \/ c <> None) ->
  good (ts_on_data p c el dt i pts dts counts) (fun r => let '(p', c', _) := r in ts_post p c p' c').
Proof.
  intros p c el dt i pts dts counts HT HF HL. unfold ts_on_data.
  destruct (nth_error (s_cst p) i) as [[[[]|] cr]|];
    try (apply ts_processSample_good; auto);
    (apply good_ok; unfold ts_post; repeat split; auto).
Qed.

Lemma ts_read_loop_good : forall (R : Type) (rd_read : R -> R * ts_read) fuel rd p c el dt counts nerr,
  tT p c -> tF p -> (s_isLeading p = true \/ c <> None) ->
  good (ts_read_loop rd_read fuel rd p c el dt counts nerr)
       (fun r => let '(_, p', c', _, _) := r in ts_post p c p' c').
Proof.
  intros R rd_read. induction fuel as [|fuel IH]; intros rd p c el dt counts nerr HT HF HL; cbn [ts_read_loop].
  - split; [reflexivity|discriminate].
  - destruct (rd_read rd) as [rd' x]. destruct x as [n i pts dts|n|n|n].
    + eapply good_bind; [apply ts_on_data_good; auto|].
      intros [[p' c'] counts'] [A [B [D E]]].
      eapply good_weaken.
      * apply IH; auto. rewrite D. destruct HL as [L|L]; [left; exact L|right; apply E; exact L].
      * intros [[[[rd2 p2] c2] cs2] n2] [A2 [B2 [D2 E2]]]. unfold ts_post. repeat split; auto.
        -- rewrite D2. exact D.
    + apply IH; auto.
    + stop.
    + apply good_ok. unfold ts_post. repeat split; auto.
Qed.

Lemma ts_processSegment_good : forall p c el seg counts nerr,
  tT p c -> (s_isLeading p = true \/ c <> None) ->
  good (ts_processSegment p c el seg counts nerr)
       (fun r => let '(p', c', _, _) := r in tT p' c' /\ s_isLeading p' = s_isLeading p /\ c' <> None).
Proof.
  intros p c el seg counts nerr HT HL. unfold ts_processSegment.
  eapply good_bind.
  - apply ts_read_loop_good with (p := tsp_set p (s_procsInit p) false false); auto.
    unfold tF. cbn. discriminate.
  - intros [[[[rd' p1] c1] counts1] nerr1] [A [B [D E]]]. cbn in D.
    destruct (s_leadingTrackFound p1) eqn:LF; cbn [negb]; [|stop].
    apply good_ok. repeat split; auto.
Qed.

Lemma ts_run_loop_good : forall el segs fuel p c counts nerr,
  tT p c -> (s_isLeading p = true \/ c <> None) ->
  good (ts_run_loop fuel p c el (map Some segs ++ [None]) counts nerr)
       (fun r => (c <> None -> fst (fst r) <> None) /\ (segs <> [] -> fst (fst r) <> None)).
Proof.
  intros el segs. induction segs as [|s rest IH]; intros fuel p c counts nerr HT HL;
    (destruct fuel as [|fuel]; [split; [reflexivity|discriminate]|]); cbn [map app ts_run_loop].
  - apply good_ok. cbn. split; auto; try (intros; congruence).
  - eapply good_bind; [apply ts_processSegment_good; auto|].
    intros [[[p' c'] counts'] nerr'] [A [B D]].
    eapply good_weaken; [apply IH; auto|].
    intros r [R1 _]. split; intros _; apply R1; exact D.
Qed.

(* ---------- heads ---------- *)
Definition head_leading (h : head) : bool :=
  match h with HF p _ => f_isLeading p | HT p _ => s_isLeading p end.

Definition head_nb (h : head) : Prop :=
  match h with
  | HF p segs => f_repJoin p = true /\ f_procs p = None /\ segs <> []
  | HT p segs => s_procsInit p = false /\ segs <> []
  end.

Lemma run_head_good : forall h c el,
  head_nb h -> (head_leading h = true \/ c <> None) ->
  good (run_head h c el) (fun r => fst (fst r) <> None).
Proof.
  intros [p segs|p segs] c el Hh HL; cbn [run_head]; cbn in Hh, HL.
  - destruct Hh as [HR [HP HS]].
    eapply good_bind.
    + apply fmp4_run_loop_good; auto. unfold fW. rewrite HP. intros N. contradiction.
    + intros [c' counts] [R1 R2]. cbn [fst] in *. apply good_ok. cbn.
      destruct HL as [L|L]; auto.
  - destruct Hh as [HP HS].
    eapply good_weaken.
    + apply ts_run_loop_good; auto. unfold tT. rewrite HP. discriminate.
    + intros r [_ R2]. auto.
Qed.

Lemma run_heads_nb : forall hs c el acc nerr,
  Forall head_nb hs ->
  (c <> None \/ match hs with [] => True | h :: _ => head_leading h = true end) ->
  is_blocked (snd (run_heads hs c el acc nerr)) = false.
Proof.
  induction hs as [|h rest IH]; intros c el acc nerr HF HL; cbn [run_heads]; auto.
  inversion HF; subst.
  assert (L : head_leading h = true \/ c <> None) by tauto.
  destruct (run_head_good h c el H1 L) as [N S].
  destruct (run_head h c el) as [[[c' counts] n]| | |]; cbn [snd]; auto.
  apply IH; auto. left. apply (S _ eq_refl).
Qed.

Lemma fix_filter_nb : forall t0, is_blocked (fmp4_fix_filter t0) = false.
Proof. intros. unfold fmp4_fix_filter. destruct (existsb _ t0); auto. destruct (filter _ t0); auto. Qed.

Lemma pick_video_nb : forall tracks, is_blocked (pick_video tracks) = false.
Proof. induction tracks as [|t r IH]; cbn; auto. destruct (it_codec t); cbn; auto. Qed.

Lemma fmp4_run_head_nb : forall rep isLeading init, is_blocked (fmp4_run_head rep isLeading init) = false.
Proof.
  intros rep isLeading [init|]; cbn; auto.
  destruct (negb isLeading && negb (zlen init =? 1)); auto.
  apply bind_nb; [destruct rep; [apply fix_filter_nb|reflexivity]|intros tracks].
  apply bind_nb.
  - unfold fmp4PickLeadingTrack. apply bind_nb; [apply pick_video_nb|intros [id|]]; [reflexivity|].
    apply bind_nb; [apply index_at_nb|reflexivity].
  - intros lead. destruct (_ >? clientMaxTracksPerStream); auto.
Qed.

Lemma ts_initializeReader_nb : forall pmt, is_blocked (ts_initializeReader pmt) = false.
Proof.
  intros [all|]; cbn; auto. destruct (filter ts_supported all); auto.
  destruct (_ >? clientMaxTracksPerStream); auto.
Qed.

Lemma stream_head_good : forall rp sc isL r,
  rep_join rp = true ->
  good (stream_head rp sc isL r) (fun h => head_nb h /\ head_leading h = isL).
Proof.
  intros rp sc isL r HR. unfold stream_head.
  destruct (nth_error (sc_streams sc) _) as [[f|t]|]; [| |stop].
  - destruct (fs_segs f) as [|s0 ss] eqn:SG; [stop|]. rewrite <- SG.
    eapply good_bind; [apply good_nb; apply fmp4_run_head_nb|intros [[lead ts] init] _].
    apply good_ok. cbn. rewrite SG. repeat split; auto. discriminate.
  - destruct (tst_segs t) as [|s0 ss] eqn:SG; [stop|]. rewrite <- SG.
    eapply good_bind; [apply good_nb; apply ts_initializeReader_nb|intros [lead ts] _].
    apply good_ok. cbn. rewrite SG. repeat split; auto. discriminate.
Qed.

Lemma heads_good : forall rp sc refs,
  rep_join rp = true ->
  good (heads rp sc refs) (fun hs => Forall head_nb hs /\ map head_leading hs = map fst refs).
Proof.
  intros rp sc refs HR. induction refs as [|[isL r] rest IH]; cbn [heads].
  - apply good_ok. split; [constructor|reflexivity].
  - eapply good_bind; [apply stream_head_good; exact HR|intros h [H1 H2]].
    eapply good_bind; [exact IH|intros hs [H3 H4]].
    apply good_ok. split; [constructor; auto|]. cbn. rewrite H2, H4. reflexivity.
Qed.

(* ---------- the primary playlist ---------- *)
Lemma clientAbsoluteURL_nb : forall u, is_blocked (clientAbsoluteURL u) = false.
Proof. intros. unfold clientAbsoluteURL. destruct (u_parse_ok u); auto. Qed.

Lemma candidates_nb : forall vs, is_blocked (candidates vs) = false.
Proof.
  induction vs as [|o r IH]; cbn; auto.
  apply bind_nb; [apply deref_nb|intros ?].
  apply bind_nb; [apply IH|reflexivity].
Qed.

Lemma getRenditionsByGroup_nb : forall rs g, is_blocked (getRenditionsByGroup rs g) = false.
Proof.
  induction rs as [|o r IH]; intros; cbn; auto.
  apply bind_nb; [apply deref_nb|intros ?].
  apply bind_nb; [apply IH|reflexivity].
Qed.

Lemma rendition_streams_nb : forall rs, is_blocked (rendition_streams rs) = false.
Proof.
  induction rs as [|pl r IH]; cbn; auto. destruct (r_uri pl) as [u|]; auto.
  apply bind_nb; [apply clientAbsoluteURL_nb|intros ?].
  apply bind_nb; [apply IH|reflexivity].
Qed.

(* the leading stream comes first *)
Lemma primary_streams_good : forall pl,
  good (primary_streams pl) (fun refs => match refs with [] => True | x :: _ => fst x = true end).
Proof.
  intros [m|m]; cbn [primary_streams]; [apply good_ok; reflexivity|].
  eapply good_bind.
  - apply good_nb. unfold pickLeadingPlaylist. apply bind_nb; [apply candidates_nb|reflexivity].
  - intros [v|] _; [|stop].
    eapply good_bind; [apply good_nb; apply clientAbsoluteURL_nb|intros u _].
    destruct (String.eqb (v_audio v) ""); [apply good_ok; reflexivity|].
    eapply good_bind; [apply good_nb; apply getRenditionsByGroup_nb|intros [|a l] _]; [stop|].
    eapply good_bind; [apply good_nb; apply rendition_streams_nb|intros rs _].
    apply good_ok. reflexivity.
Qed.

(* ---------- the whole run ---------- *)
Theorem client_run_gen_nb : forall rp sc el,
  rep_join rp = true -> is_blocked (o_end (client_run_gen rp sc el)) = false.
Proof.
  intros rp sc el HR. unfold client_run_gen.
  destruct (primary_streams_good (sc_primary sc)) as [NP SP].
  destruct (primary_streams (sc_primary sc)) as [refs| | |]; cbn [fail_outcome o_end]; auto.
  destruct (heads_good rp sc refs HR) as [NH SH].
  destruct (heads rp sc refs) as [hs| | |]; cbn [fail_outcome o_end]; auto.
  destruct (List.concat (map head_tracks hs)); cbn [fail_outcome o_end]; auto.
  destruct (sc_onTracksErr sc); cbn [o_end]; auto.
  destruct (SH _ eq_refl) as [HF HM].
  assert (R : is_blocked (snd (run_heads hs None el [] 0)) = false).
  { apply run_heads_nb; auto. right. specialize (SP _ eq_refl).
    destruct hs as [|h rest]; auto. destruct refs as [|x xs]; [discriminate|].
    cbn in HM. inversion HM. rewrite H0. exact SP. }
  destruct (run_heads hs None el [] 0) as [[counts nerr] e]. cbn in *. exact R.
Qed.

Theorem client_run_gen_never_wedges : forall rp sc el,
  rep_join rp = true -> o_end (client_run_gen rp sc el) <> Err EBlocked.
Proof.
  intros rp sc el HR E. pose proof (client_run_gen_nb rp sc el HR) as N. rewrite E in N. discriminate.
Qed.

Theorem client_run_fixed_never_wedges : forall sc el, o_end (client_run_fixed sc el) <> Err EBlocked.
Proof. intros. apply client_run_gen_never_wedges. reflexivity. Qed.
