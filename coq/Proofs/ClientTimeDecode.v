(* mediacommon's mpegts.TimeDecoder unwraps 33-bit timestamps: for true (unwrapped) 90 kHz
   times fed in call order, each less than 2^32 ticks away from the previous one, the
   decoder returns t_k - t_0 wherever t_0 lies on the 33-bit circle and however many wraps
   occur. *)
From Coq Require Import List ZArith Bool Lia.
From GoHls Require Import Model.ClientTime.
Import ListNotations.
Local Open Scope Z_scope.

Definition M33 : Z := 8589934592.      (* 2^33 *)
Definition wrap33 (t : Z) : Z := t mod M33.

Lemma land_maximum : forall x, Z.land x maximum = x mod M33.
Proof.
  intros x. change maximum with (Z.ones 33). rewrite Z.land_ones by lia. reflexivity.
Qed.

Lemma negativeThreshold_val : negativeThreshold = 4294967295.
Proof. reflexivity. Qed.

(* the call-order hypothesis: each call within [-2^32, 2^32) of the previous one *)
Fixpoint gaps_ok (p : Z) (ts : list Z) : Prop :=
  match ts with
  | [] => True
  | t :: r => (-4294967296 <= t - p <= 4294967295) /\ gaps_ok t r
  end.

(* decoder state after the true time [last], for origin [t0] *)
Definition td_inv (t0 last : Z) (d : timeDecoder) : Prop :=
  td_initialized d = true /\ td_prev d = wrap33 last /\ td_overall d = last - t0.

Lemma wrap_diff : forall t p, (wrap33 t - wrap33 p) mod M33 = (t - p) mod M33.
Proof. intros. unfold wrap33. rewrite <- Zminus_mod. reflexivity. Qed.

Lemma Decode_step : forall t0 p d t,
  td_inv t0 p d -> -4294967296 <= t - p <= 4294967295 ->
  snd (Decode d (wrap33 t)) = t - t0 /\ td_inv t0 t (fst (Decode d (wrap33 t))).
Proof.
  intros t0 p d t (Hi & Hp & Ho) Hg. unfold Decode. rewrite Hi, Hp, Ho.
  rewrite !land_maximum, !wrap_diff, negativeThreshold_val.
  destruct (Z_le_gt_dec 0 (t - p)) as [Hpos|Hneg].
  - assert (E : (t - p) mod M33 = t - p) by (apply Z.mod_small; unfold M33; lia).
    rewrite E. destruct (t - p >? 4294967295) eqn:C; [apply Z.gtb_lt in C; lia|].
    cbn [fst snd]. unfold td_inv. cbn [td_initialized td_prev td_overall].
    repeat split; lia.
  - assert (E : (t - p) mod M33 = t - p + M33).
    { symmetry. apply (Z.mod_unique_pos _ _ (-1)); unfold M33; lia. }
    rewrite E. destruct (t - p + M33 >? 4294967295) eqn:C;
      [|rewrite Z.gtb_ltb, Z.ltb_ge in C; unfold M33 in C; lia].
    assert (E2 : (p - t) mod M33 = p - t) by (apply Z.mod_small; unfold M33; lia).
    rewrite E2. cbn [fst snd]. unfold td_inv. cbn [td_initialized td_prev td_overall].
    repeat split; lia.
Qed.

Lemma Decode_first : forall t0,
  snd (Decode td_zero (wrap33 t0)) = 0 /\ td_inv t0 t0 (fst (Decode td_zero (wrap33 t0))).
Proof.
  intros t0. unfold Decode, td_zero. cbn [td_initialized td_prev td_overall].
  rewrite Z.sub_diag. change (Z.land 0 maximum) with 0. rewrite negativeThreshold_val.
  change (0 >? 4294967295) with false. cbn [fst snd]. unfold td_inv.
  cbn [td_initialized td_prev td_overall]. repeat split; lia.
Qed.

Lemma decode_all_from : forall ts t0 p d,
  td_inv t0 p d -> gaps_ok p ts ->
  decode_all d (map wrap33 ts) = map (fun t => t - t0) ts.
Proof.
  induction ts as [|t r IH]; intros t0 p d Hinv Hg; [reflexivity|].
  destruct Hg as [Hg Hr]. cbn [map decode_all].
  destruct (Decode_step t0 p d t Hinv Hg) as [Hv Hi].
  destruct (Decode d (wrap33 t)) as [d' v]. cbn [fst snd] in *. subst v.
  f_equal. apply (IH t0 t d' Hi Hr).
Qed.

(* c10_mpegts_unwrap *)
Lemma mpegts_unwrap : forall t0 ts,
  gaps_ok t0 ts ->
  decode_all td_zero (map wrap33 (t0 :: ts)) = map (fun t => t - t0) (t0 :: ts).
Proof.
  intros t0 ts Hg. cbn [map decode_all].
  destruct (Decode_first t0) as [Hv Hi].
  destruct (Decode td_zero (wrap33 t0)) as [d' v]. cbn [fst snd] in *. subst v.
  rewrite Z.sub_diag. f_equal. apply (decode_all_from ts t0 t0 d' Hi Hg).
Qed.

(* the converter of the client: initialize() decodes startDTS first, so t_0 = startDTS *)
Lemma mpegts_initialize_inv : forall t0, td_inv t0 t0 (mpegts_initialize (wrap33 t0)).
Proof. intros. unfold mpegts_initialize. apply Decode_first. Qed.

(* the values handed to Decode are 33-bit *)
Lemma wrap33_range : forall t, 0 <= wrap33 t < M33.
Proof. intros. apply Z.mod_pos_bound. unfold M33. lia. Qed.

(* the bound is tight: a forward jump of exactly 2^32 ticks is decoded as a backward one *)
Lemma gap_bound_tight :
  exists t0 t1, t1 - t0 = 4294967296 /\
    decode_all td_zero (map wrap33 [t0; t1]) <> map (fun t => t - t0) [t0; t1].
Proof. exists 0, 4294967296. split; [reflexivity|]. vm_compute. discriminate. Qed.

(* the hypothesis is satisfiable by a stream that wraps several times: 40 steps of 2^32-1
   ticks starting 1000 ticks before the wrap point cover more than 19 turns of the circle *)
Definition long_stream : list Z :=
  map (fun k => 8589933592 + Z.of_nat k * 4294967295) (seq 1 40).

Lemma long_stream_gaps : gaps_ok 8589933592 long_stream.
Proof. vm_compute. repeat split; discriminate. Qed.

Lemma long_stream_wraps : 19 * M33 < last long_stream 0 - 8589933592.
Proof. vm_compute. reflexivity. Qed.
