(* Two-state (history) properties of streams: along any write history the list of published
   segments only grows at its tail, evicted segments only accumulate, media sequence numbers,
   segment ids, part ids and the leading stream's target duration never decrease, and the static
   attributes of a stream never change. *)
From Coq Require Import List ZArith Bool Lia Arith.
From GoHls Require Import Model.Mux Proofs.MuxStream Proofs.MuxLift Proofs.MuxWindow.
Import ListNotations.
Local Open Scope Z_scope.

Record R (s s' : stream) : Prop := {
  r_pub : exists new, published s' = published s ++ new;
  r_evi : exists dr, st_evicted s' = st_evicted s ++ dr
                     /\ st_delcount s' = st_delcount s + Z.of_nat (length dr);
  r_nseg : st_nextSeg s <= st_nextSeg s';
  r_npart : st_nextPart s <= st_nextPart s';
  r_static : st_tracks s' = st_tracks s /\ st_isvideo s' = st_isvideo s /\ st_num s' = st_num s
             /\ st_leading s' = st_leading s /\ st_rendition s' = st_rendition s
             /\ st_default s' = st_default s /\ st_name s' = st_name s /\ st_lang s' = st_lang s
}.

Lemma R_refl s : R s s.
Proof.
  constructor; try lia.
  - exists []. now rewrite app_nil_r.
  - exists []. rewrite app_nil_r. simpl. split; [reflexivity|lia].
  - repeat split.
Qed.

Lemma R_trans a b c : R a b -> R b c -> R a c.
Proof.
  intros [[n1 P1] [d1 [E1 D1]] S1 T1 X1] [[n2 P2] [d2 [E2 D2]] S2 T2 X2].
  constructor; try lia.
  - exists (n1 ++ n2). rewrite P2, P1. now rewrite app_assoc.
  - exists (d1 ++ d2). rewrite E2, E1, D2, D1, app_length. split; [now rewrite app_assoc|lia].
  - destruct X1 as (a1 & a2 & a3 & a4 & a5 & a6 & a7 & a8).
    destruct X2 as (b1 & b2 & b3 & b4 & b5 & b6 & b7 & b8).
    repeat split; congruence.
Qed.

Lemma R_createFirst v s d ntp : R s (stream_createFirst v s d ntp).
Proof.
  constructor; unfold published, stream_createFirst; simpl; try lia.
  - exists []. now rewrite app_nil_r.
  - exists []. rewrite app_nil_r. simpl. split; [reflexivity|lia].
  - repeat split.
Qed.

Lemma st_with_static s x :
  st_tracks (st_with s x) = st_tracks s /\ st_isvideo (st_with s x) = st_isvideo s
  /\ st_num (st_with s x) = st_num s /\ st_leading (st_with s x) = st_leading s
  /\ st_rendition (st_with s x) = st_rendition s /\ st_default (st_with s x) = st_default s
  /\ st_name (st_with s x) = st_name s /\ st_lang (st_with s x) = st_lang s.
Proof. repeat split. Qed.

Lemma srot_parts_static v s seg p d cn :
  exists x, fst (srot_parts v s seg p d cn) = st_with s x.
Proof.
  unfold srot_parts. cbv zeta.
  destruct (st_leading s); [destruct (x_parttarget (st_mut s) =? 0);
    [|destruct (partTargetDuration v _ _ =? _)]|]; eexists; reflexivity.
Qed.

Lemma R_srot_parts v s seg p d cn : R s (fst (srot_parts v s seg p d cn)).
Proof.
  destruct (srot_parts_frame v s seg p d cn) as (F1 & F2 & F3 & F4 & _ & _ & F7 & _).
  destruct (srot_parts_static v s seg p d cn) as [x Hx].
  constructor; unfold published; rewrite ?F1, ?F2, ?F3, ?F4, ?F7; try lia.
  - exists []. now rewrite app_nil_r.
  - exists []. rewrite app_nil_r. simpl. split; [reflexivity|lia].
  - rewrite Hx. apply st_with_static.
Qed.

Lemma srot_segments_static v sc s seg0 d ntp f cur :
  exists x, fst (fst (srot_segments v sc s seg0 d ntp f cur)) = st_with s x.
Proof.
  unfold srot_segments. cbv zeta.
  destruct (window_append v sc (x_segments (st_mut s)) (sg_with_end seg0 d)) as [segs2 dropped].
  destruct dropped; destruct (st_leading s);
    try destruct (x_target (st_mut s) =? 0); try destruct (x_target (st_mut s) <? _);
    eexists; reflexivity.
Qed.

Lemma R_srot_segments v sc s seg0 d ntp f cur :
  R s (fst (fst (srot_segments v sc s seg0 d ntp f cur))).
Proof.
  destruct (srot_segments_frame v sc s seg0 d ntp f cur) as (F1 & F2 & F3 & F4 & F5 & _).
  destruct (srot_segments_static v sc s seg0 d ntp f cur) as [x Hx].
  destruct (published_grows v sc s seg0 d ntp f cur) as (new & Hn & _).
  constructor; rewrite ?F4, ?F5; try lia.
  - exists new. exact Hn.
  - rewrite F2, F3. destruct (snd (window_append _ _ _ _)) as [y|].
    + exists [y]. simpl. split; [reflexivity|lia].
    + exists []. rewrite app_nil_r. simpl. split; [reflexivity|lia].
  - rewrite Hx. apply st_with_static.
Qed.

(* ---- lifting to states: every stream of a later state is R-related to the same stream earlier ---- *)
Lemma Forall2_refl {A} (Q : A -> A -> Prop) l : (forall x, Q x x) -> Forall2 Q l l.
Proof. intros H. induction l; constructor; auto. Qed.

Lemma Forall2_upd_r {A} (Q : A -> A -> Prop) l0 l i f :
  Forall2 Q l0 l -> (forall x y, Q x y -> Q x (f y)) -> Forall2 Q l0 (upd l i f).
Proof.
  intros H Hf. revert i. induction H as [|x y l0 l Hxy H IH]; intros i; [destruct i; constructor|].
  destruct i; simpl; constructor; auto.
Qed.

Lemma Forall2_map_r {A} (Q : A -> A -> Prop) l0 l f :
  Forall2 Q l0 l -> (forall x y, Q x y -> Q x (f y)) -> Forall2 Q l0 (map f l).
Proof. intros H Hf. induction H; simpl; constructor; auto. Qed.

Section Hist.
  Variable m0 : mstate.
  Definition GH (m : mstate) : Prop := Forall2 R (m_streams m0) (m_streams m).

  Lemma GH_rotp m si d cn : GH m -> GH (stream_rotateParts m si d cn).
  Proof.
    unfold GH. intros H.
    destruct (stream_rotateParts_streams m si d cn) as [->|(s & seg & p0 & Es & Eo & Ep & ->)]; [exact H|].
    (* the updated stream is R-related to the one it replaces *)
    assert (Hupd : forall l0 l, Forall2 R l0 l -> nth_error l si = Some s ->
                   Forall2 R l0 (upd l si (fun _ => fst (srot_parts (c_variant (m_cfg m)) s seg
                      (fst (part_finalize p0 (m_tracks m) (st_tracks s) d)) d cn)))).
    { clear. intros l0 l HF. revert si. induction HF as [|x y l0 l Hxy HF IH]; intros si Hn.
      - destruct si; discriminate.
      - destruct si; simpl in *.
        + injection Hn as ->. constructor; auto. eapply R_trans; [exact Hxy|apply R_srot_parts].
        + constructor; auto. }
    apply Hupd; auto.
  Qed.

  Lemma GH_rots m si d ntp f : GH m -> GH (stream_rotateSegments m si d ntp f).
  Proof.
    intros H.
    pose proof (stream_rotateSegments_streams m si d ntp f) as HS. cbv zeta in HS.
    set (m1 := match c_variant (m_cfg m) with MPEGTS => m | _ => stream_rotateParts m si d false end) in *.
    assert (H1 : GH m1) by (subst m1; destruct (c_variant (m_cfg m)); auto using GH_rotp).
    unfold GH in *. destruct HS as [->|(s & seg0 & cur & Es & Eo & ->)]; [exact H1|].
    revert Es. generalize (m_streams m1) as l, (m_streams m0) as l0, H1. clear.
    intros l l0 HF. revert si. induction HF as [|x y l0 l Hxy HF IH]; intros si Hn.
    - destruct si; discriminate.
    - destruct si; simpl in *.
      + injection Hn as ->. constructor; auto. eapply R_trans; [exact Hxy|apply R_srot_segments].
      + constructor; auto.
  Qed.

  Lemma R_st_with_same s x :
    x_segments x = st_segments s -> x_evicted x = st_evicted s -> x_delcount x = st_delcount s ->
    x_nextSeg x = st_nextSeg s -> x_nextPart x = st_nextPart s -> R s (st_with s x).
  Proof.
    intros E1 E2 E3 E4 E5. constructor; unfold published; simpl; rewrite ?E1, ?E2, ?E3, ?E4, ?E5; try lia.
    - exists []. now rewrite app_nil_r.
    - exists []. rewrite app_nil_r. simpl. split; [reflexivity|lia].
    - repeat split.
  Qed.

  Theorem GH_mux_step m o : GH m -> GH (fst (mux_step m o)).
  Proof.
    apply (T_mux_step GH).
    - intros; assumption.
    - intros m' d ntp ti0 t0 _ _ H. unfold GH, createFirstSegment in *. cbn [set_stream m_streams].
      apply Forall2_map_r; auto. intros x y Hxy. eapply R_trans; [exact Hxy|apply R_createFirst].
    - intros; now apply GH_rotp.
    - apply GH_rots.
    - intros m' i l both H. unfold GH, upd_stream in *. cbn [set_stream m_streams].
      apply Forall2_upd_r; auto. intros x y Hxy. eapply R_trans; [exact Hxy|].
      unfold copy_targets. destruct (st_leading y); [apply R_refl|].
      apply R_st_with_same; reflexivity.
    - intros m' ti si smp m'' H. unfold part_writeSample.
      destruct (nth_error (m_streams m') si) as [s|]; [|now intros [= <-]].
      destruct (nth_error (m_tracks m') ti) as [t|]; [|now intros [= <-]].
      destruct (st_open s); [|now intros [= <-]]. destruct (st_openpart s); [|now intros [= <-]].
      destruct (_ <? _); [discriminate|]. intros [= <-].
      unfold GH, upd_stream, upd_track in *. cbn [set_stream set_tracks m_streams].
      apply Forall2_upd_r; auto. intros x y Hxy. eapply R_trans; [exact Hxy|].
      apply R_st_with_same; reflexivity.
    - intros m' si u size e inc H. unfold ts_write.
      destruct (nth_error (m_streams m') si) as [s|]; [|exact H].
      destruct (st_open s); [|exact H]. destruct (_ <? _); [exact H|].
      cbn [fst wok]. unfold GH, upd_stream in *. cbn [set_stream m_streams].
      apply Forall2_upd_r; auto. intros x y Hxy. eapply R_trans; [exact Hxy|].
      apply R_st_with_same; reflexivity.
  Qed.

  Theorem GH_mux_run ops : forall m, GH m -> GH (mux_run m ops).
  Proof.
    induction ops as [|o ops IH]; intros m H; [exact H|]. cbn [mux_run]. apply IH. now apply GH_mux_step.
  Qed.
End Hist.

(* any later state of a history is R-related, stream by stream, to any earlier one *)
Theorem history_monotone m ops : Forall2 R (m_streams m) (m_streams (mux_run m ops)).
Proof. apply GH_mux_run. unfold GH. apply Forall2_refl. apply R_refl. Qed.

Lemma mux_run_app ops1 ops2 m : mux_run m (ops1 ++ ops2) = mux_run (mux_run m ops1) ops2.
Proof. revert m; induction ops1 as [|o ops1 IH]; intros m; simpl; auto. Qed.
