(* Decimal integers: strconv.FormatInt / ParseUint round trip, character classes. *)
From Coq Require Import List ZArith Bool String Ascii Lia.
From GoHls Require Import Model.PlaylistBase Model.PlaylistSpec Proofs.PlaylistStr.
Import ListNotations.
Local Open Scope string_scope.
Local Open Scope Z_scope.

Fixpoint digits_only (s : string) : bool :=
  match s with
  | "" => true
  | String c s' => match digit_of c with Some _ => digits_only s' | None => false end
  end.

Lemma digit_of_char d : 0 <= d < 10 -> digit_of (digit_char d) = Some d.
Proof.
  intros H. assert (C : d = 0 \/ d = 1 \/ d = 2 \/ d = 3 \/ d = 4 \/ d = 5 \/ d = 6 \/ d = 7 \/ d = 8 \/ d = 9) by lia.
  destruct C as [->|[->|[->|[->|[->|[->|[->|[->|[->| ->]]]]]]]]]; reflexivity.
Qed.

Lemma digits_only_app a b : digits_only (a ++ b) = digits_only a && digits_only b.
Proof. induction a as [|c a IH]; simpl; auto. destruct (digit_of c); auto. Qed.

Lemma parse_digits_app a b : forall acc,
  parse_digits acc (a ++ b) =
  match parse_digits acc a with Some v => parse_digits v b | None => None end.
Proof. induction a as [|c a IH]; intros acc; simpl; auto. destruct (digit_of c); auto. Qed.

Lemma no_byte_app c a b : no_byte c (a ++ b) = no_byte c a && no_byte c b.
Proof. induction a as [|x a IH]; simpl; auto. rewrite IH. now rewrite andb_assoc. Qed.

Lemma digits_only_no_byte c s : digits_only s = true -> digit_of c = None -> no_byte c s = true.
Proof.
  intros H Hc. induction s as [|a s IH]; simpl in *; auto.
  destruct (digit_of a) eqn:E; [|discriminate].
  destruct (Ascii.eqb_spec a c); [subst; congruence|]. simpl. auto.
Qed.

Lemma num_chars_no_byte c s :
  num_chars s = true -> digit_of c = None -> c <> "-"%char -> c <> "."%char -> no_byte c s = true.
Proof.
  intros H Hc H1 H2. induction s as [|a s IH]; simpl in *; auto.
  apply andb_true_iff in H as [Ha Hs].
  destruct (Ascii.eqb_spec a c).
  - subst. rewrite Hc in Ha. apply orb_true_iff in Ha as [Ha|Ha]; apply Ascii.eqb_eq in Ha; congruence.
  - simpl. auto.
Qed.

Lemma num_chars_app a b : num_chars (a ++ b) = num_chars a && num_chars b.
Proof. induction a as [|c a IH]; simpl; auto. rewrite IH. now rewrite andb_assoc. Qed.

Lemma digits_only_num_chars s : digits_only s = true -> num_chars s = true.
Proof.
  induction s as [|a s IH]; simpl; auto. destruct (digit_of a); [auto|discriminate].
Qed.

(* the digits printed by fmt_digits, in front of the accumulator *)
Lemma fmt_digits_S f z acc :
  fmt_digits (S f) z acc =
  if z <? 10 then String (digit_char (z mod 10)) acc
  else fmt_digits f (z / 10) (String (digit_char (z mod 10)) acc).
Proof. reflexivity. Qed.

Lemma fmt_digits_spec fuel : forall z acc,
  0 <= z < 10 ^ Z.of_nat (S fuel) ->
  exists ds, fmt_digits (S fuel) z acc = ds ++ acc /\ digits_only ds = true /\ ds <> ""
             /\ forall a, parse_digits a ds = Some (a * 10 ^ Z.of_nat (slen ds) + z).
Proof.
  induction fuel as [|f IH]; intros z acc Hz; rewrite fmt_digits_S;
    assert (Hd : 0 <= z mod 10 < 10) by (apply Z.mod_pos_bound; lia);
    destruct (z <? 10) eqn:E.
  1, 3: (apply Z.ltb_lt in E; exists (String (digit_char (z mod 10)) "");
      rewrite Z.mod_small by lia;
      repeat split; simpl; try (rewrite digit_of_char by lia; reflexivity); try discriminate;
      intros a; rewrite digit_of_char by lia; f_equal; lia).
  - apply Z.ltb_ge in E. change (10 ^ Z.of_nat 1) with 10 in Hz. lia.
  - apply Z.ltb_ge in E.
    assert (Hq : 0 <= z / 10 < 10 ^ Z.of_nat (S f)).
    { split; [apply Z.div_pos; lia|]. apply Z.div_lt_upper_bound; [lia|].
      rewrite (Nat2Z.inj_succ (S f)), Z.pow_succ_r in Hz by lia. lia. }
    destruct (IH (z / 10) (String (digit_char (z mod 10)) acc) Hq) as (ds & E1 & D & N & P).
    exists (ds ++ String (digit_char (z mod 10)) "").
    rewrite E1, app_assoc'. simpl. repeat split.
    + rewrite digits_only_app, D. simpl. now rewrite digit_of_char.
    + destruct ds; [congruence|discriminate].
    + intros a. rewrite parse_digits_app, P. simpl. rewrite digit_of_char by lia.
      f_equal. rewrite slen_app. simpl. rewrite Nat2Z.inj_add, Z.pow_add_r by lia.
      change (Z.of_nat 1) with 1. rewrite Z.pow_1_r.
      pose proof (Z.div_mod z 10). lia.
Qed.

Lemma pow10_bound z : 0 <= z -> z < 10 ^ Z.of_nat (S (Z.to_nat (Z.log2 z))).
Proof.
  intros Hz. destruct (Z.eq_dec z 0) as [->|Hn]; [reflexivity|].
  assert (H2 : z < 2 ^ (Z.log2 z + 1)) by (apply Z.log2_spec; lia).
  pose proof (Z.log2_nonneg z).
  rewrite Nat2Z.inj_succ, Z2Nat.id by lia.
  eapply Z.lt_le_trans; [exact H2|]. unfold Z.succ. apply Z.pow_le_mono_l. lia.
Qed.

Lemma fmt_uint_spec z : 0 <= z ->
  digits_only (fmt_uint z) = true /\ fmt_uint z <> ""
  /\ forall a, parse_digits a (fmt_uint z) = Some (a * 10 ^ Z.of_nat (slen (fmt_uint z)) + z).
Proof.
  intros Hz. unfold fmt_uint.
  destruct (fmt_digits_spec _ z "" (conj Hz (pow10_bound z Hz))) as (ds & E & D & N & P).
  rewrite E, app_empty_r. auto.
Qed.

(* strconv.ParseUint(strconv.FormatInt(z, 10), 10, bits) = z *)
Lemma parse_uint_fmt_int bits z : 0 <= z < 2 ^ bits -> parse_uint bits (fmt_int z) = Some z.
Proof.
  intros [H0 H1]. unfold fmt_int. destruct (z <? 0) eqn:E; [apply Z.ltb_lt in E; lia|].
  destruct (fmt_uint_spec z H0) as (D & N & P).
  unfold parse_uint. destruct (fmt_uint z) eqn:F; [congruence|].
  rewrite P. simpl Z.mul. simpl Z.add. apply Z.ltb_lt in H1. now rewrite H1.
Qed.

Lemma fmt_int_digits z : 0 <= z -> digits_only (fmt_int z) = true /\ fmt_int z <> "".
Proof.
  intros H0. unfold fmt_int. destruct (z <? 0) eqn:E; [apply Z.ltb_lt in E; lia|].
  destruct (fmt_uint_spec z H0) as (D & N & _). auto.
Qed.

Lemma int31_range z : int31 z = true -> 0 <= z < 2 ^ 31.
Proof. unfold int31. intros H. apply andb_true_iff in H as [A B]. apply Z.leb_le in A. apply Z.ltb_lt in B. lia. Qed.

Lemma uint64_range z : uint64 z = true -> 0 <= z < 2 ^ 64.
Proof. unfold uint64. intros H. apply andb_true_iff in H as [A B]. apply Z.leb_le in A. apply Z.ltb_lt in B. lia. Qed.

(* ByteRange round trip *)
Lemma index_byte_app_sep c a b : no_byte c a = true -> index_byte c (a ++ String c b) = Some (slen a).
Proof.
  induction a as [|x a IH]; simpl; intros H.
  - now rewrite Ascii.eqb_refl.
  - apply andb_true_iff in H as [Hx Ha]. apply negb_true_iff in Hx. rewrite Hx, IH by auto. reflexivity.
Qed.

Lemma index_byte_none c a : no_byte c a = true -> index_byte c a = None.
Proof.
  induction a as [|x a IH]; simpl; intros H; auto.
  apply andb_true_iff in H as [Hx Ha]. apply negb_true_iff in Hx. now rewrite Hx, IH.
Qed.

Lemma slice_to_app a b : slice_to (slen a) (a ++ b) = Ok a.
Proof.
  unfold slice_to. rewrite slen_app.
  replace (Nat.leb (slen a) (slen a + slen b)) with true by (symmetry; apply Nat.leb_le; lia).
  now rewrite take_app_exact.
Qed.

Lemma slice_from_app a b : slice_from (slen a) (a ++ b) = Ok b.
Proof.
  unfold slice_from. rewrite slen_app.
  replace (Nat.leb (slen a) (slen a + slen b)) with true by (symmetry; apply Nat.leb_le; lia).
  now rewrite drop_app_exact.
Qed.

Lemma slice_from_app_S a c b : slice_from (S (slen a)) (a ++ String c b) = Ok b.
Proof.
  replace (a ++ String c b) with ((a ++ String c "") ++ b) by (rewrite app_assoc'; reflexivity).
  replace (S (slen a)) with (slen (a ++ String c "")) by (rewrite slen_app; simpl; lia).
  apply slice_from_app.
Qed.

Lemma byterange_roundtrip l s :
  uint64 l = true -> opt_ok uint64 s = true ->
  byterange_unmarshal (byterange_marshal l s) = Ok (l, s).
Proof.
  intros Hl Hs. apply uint64_range in Hl.
  destruct (fmt_int_digits l) as [Dl Nl]; [lia|].
  unfold byterange_marshal, byterange_unmarshal. destruct s as [st|]; simpl in Hs.
  - apply uint64_range in Hs. change ("@" ++ fmt_int st) with (String "@" (fmt_int st)).
    rewrite index_byte_app_sep by (apply digits_only_no_byte; auto).
    rewrite slice_to_app. cbn [bind]. rewrite slice_from_app_S. cbn [bind].
    rewrite !parse_uint_fmt_int by lia. reflexivity.
  - rewrite app_empty_r.
    rewrite index_byte_none by (apply digits_only_no_byte; auto).
    rewrite parse_uint_fmt_int by lia. reflexivity.
Qed.

Lemma byterange_chars l s c :
  uint64 l = true -> opt_ok uint64 s = true -> digit_of c = None -> c <> "@"%char ->
  no_byte c (byterange_marshal l s) = true.
Proof.
  intros Hl Hs Hc Hat. apply uint64_range in Hl.
  destruct (fmt_int_digits l) as [Dl _]; [lia|].
  unfold byterange_marshal. rewrite no_byte_app, (digits_only_no_byte c _ Dl Hc).
  destruct s as [st|]; [|reflexivity].
  cbn [opt_ok] in Hs. apply uint64_range in Hs. destruct (fmt_int_digits st) as [Ds _]; [lia|].
  change ("@" ++ fmt_int st) with (String "@" (fmt_int st)). cbn [no_byte andb].
  rewrite (digits_only_no_byte c _ Ds Hc).
  destruct (Ascii.eqb_spec "@"%char c); [congruence|reflexivity].
Qed.

Lemma byterange_nonempty l s : uint64 l = true -> byterange_marshal l s <> "".
Proof.
  intros Hl. apply uint64_range in Hl. destruct (fmt_int_digits l) as [_ N]; [lia|].
  unfold byterange_marshal. destruct (fmt_int l); [congruence|discriminate].
Qed.
