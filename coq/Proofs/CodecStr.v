(* C16, codec strings: every string codecparams.Marshal builds is a dot-joined list of
   components of the shape its family's binding prescribes (well-formedness, lower-case
   hexadecimal), and it determines the fields it was built from (injectivity). *)
From Coq Require Import List ZArith Bool String Ascii Lia.
From GoHls Require Import Model.PlaylistBase Model.PlaylistSpec Model.CodecStr Proofs.PlaylistStr Proofs.CodecStrLex.
Import ListNotations.
Local Open Scope string_scope.
Local Open Scope Z_scope.

(* ---------- Marshal as a dot-joined list of components ---------- *)
Definition av1_colour (s : av1_sh) : list string :=
  if color_description_present_flag s
  then [leading_zeros (color_primaries s) 2; leading_zeros (transfer_characteristics s) 2;
        leading_zeros (matrix_coefficients s) 2; av1_encode_bool (color_range s)]
  else ["01"; "01"; "01"; "0"].

Definition av1_comps (s : av1_sh) : list string :=
  ["av01"; fmt_int (seq_profile s);
   leading_zeros (seq_level_idx_0 s) 2 ++ av1_encode_tier (seq_tier_0 s);
   leading_zeros (bit_depth s) 2;
   av1_encode_bool (mono_chrome s);
   av1_encode_bool (subsampling_x s) ++ av1_encode_bool (subsampling_y s) ++ fmt_int (chroma_sample_position s)]
  ++ av1_colour s.

Definition h265_constraints (p : h265_ptl) : list string :=
  if h265_o2 p =? 0 then [fmt_hex (h265_o1 p)] else [fmt_hex (h265_o1 p); fmt_hex (h265_o2 p)].

Definition h265_comps (p : h265_ptl) : list string :=
  ["hvc1"; h265_encode_profile_space (general_profile_space p) ++ fmt_int (general_profile_idc p);
   fmt_hex (le_bits (general_profile_compatibility_flag p));
   h265_encode_general_tier_flag (general_tier_flag p) ++ fmt_int (general_level_idc p)]
  ++ h265_constraints p.

Definition comps (c : codec) : list string :=
  match c with
  | AV1 (Some s) => av1_comps s
  | VP9 p b => ["vp09"; leading_zeros p 2; "10"; leading_zeros b 2]
  | H265 (Some p) => h265_comps p
  | H264 (_ :: a :: b :: c :: _) => ["avc1"; hex_byte a ++ hex_byte b ++ hex_byte c]
  | Opus => ["opus"]
  | MPEG4Audio t => ["mp4a"; "40"; fmt_int t]
  | _ => []
  end.

(* the values for which Marshal returns the empty string *)
Definition no_string (c : codec) : bool :=
  match c with
  | AV1 None | H265 None | OtherCodec => true
  | H264 (_ :: _ :: _ :: _ :: _) => false
  | H264 _ => true
  | _ => false
  end.

Lemma marshal_comps c : no_string c = false -> marshal c = join "." (comps c) /\ comps c <> [].
Proof.
  destruct c as [[s|]|p b|[p|]|l| |t|]; try discriminate; intros Hn.
  - split; [|unfold comps, av1_comps; cbn [List.app]; discriminate]. unfold marshal, comps, av1_comps, av1_colour.
    destruct (color_description_present_flag s); cbn [join List.app]; repeat rewrite app_assoc'; reflexivity.
  - split; [reflexivity|discriminate].
  - split; [|unfold comps, h265_comps; cbn [List.app]; discriminate]. unfold marshal, comps, h265_comps, h265_constraints,
      h265_encode_general_constraint_indicator_flags, h265_encode_compatibility_flag.
    destruct (h265_o2 p =? 0); cbn [negb join List.app]; repeat rewrite app_assoc'; reflexivity.
  - destruct l as [|x [|a [|b [|c r]]]]; try discriminate Hn. split; [|cbn [comps]; discriminate].
    cbn [marshal comps join]. repeat rewrite app_assoc'. reflexivity.
  - split; [reflexivity|discriminate].
  - split; [reflexivity|discriminate].
Qed.

Lemma marshal_no_string c : no_string c = true -> marshal c = "".
Proof.
  destruct c as [[s|]|p b|[p|]|l| |t|]; try discriminate; try reflexivity.
  destruct l as [|x [|a [|b [|c r]]]]; try discriminate; reflexivity.
Qed.

(* ---------- the components, one by one ---------- *)
Lemma in_bits_range n z : in_bits n z = true -> 0 <= z < 2 ^ n.
Proof. unfold in_bits. intros H. apply andb_true_iff in H as [A B]. apply Z.leb_le in A. apply Z.ltb_lt in B. lia. Qed.

Lemma dec1_fmt_int z : 0 <= z -> dec1_str (fmt_int z) = true.
Proof.
  intros Hz. destruct (fmt_int_spec z Hz) as (D & L & _ & H0 & H1). unfold dec1_str, dec_str. rewrite D.
  destruct (Z.eq_dec z 0) as [->|Hn]; [reflexivity|].
  destruct (H1 ltac:(lia)) as (c & r & -> & Hc). cbn [String.eqb negb andb].
  destruct (Ascii.eqb_spec c "0"); [congruence|reflexivity].
Qed.

Lemma fmt_int_no_dot z : 0 <= z -> no_dot (fmt_int z) = true.
Proof. intros Hz. destruct (fmt_int_spec z Hz) as (D & _). now apply (all_chars_no_byte is_dec_digit). Qed.

Lemma dec2_all s : dec2_str s = true -> all_chars is_dec_digit s = true.
Proof. unfold dec2_str, dec_str. intros H. repeat (apply andb_true_iff in H as [H ?]). auto. Qed.

Lemma lz_no_dot v : 0 <= v -> no_dot (leading_zeros v 2) = true.
Proof. intros Hv. destruct (leading_zeros_2 v Hv) as (D & _). apply dec2_all in D. now apply (all_chars_no_byte is_dec_digit). Qed.

Lemma fmt_hex_no_dot z k : 0 <= z < 16 ^ Z.of_nat (S k) -> no_dot (fmt_hex z) = true.
Proof. intros Hz. destruct (fmt_hex_spec z k Hz) as (D & _). now apply (all_chars_no_byte is_lhex_digit). Qed.

Lemma bool_no_dot b : no_dot (av1_encode_bool b) = true.
Proof. now destruct b. Qed.

Lemma fmt_int_head z : 0 <= z -> exists c r, fmt_int z = String c r /\ is_dec_digit c = true.
Proof.
  intros Hz. destruct (fmt_int_spec z Hz) as (D & L & _). destruct (fmt_int z) as [|c r]; [simpl in L; lia|].
  simpl in D. apply andb_true_iff in D as [D _]. eauto.
Qed.

Lemma dec_not_letter cs c : is_dec_digit c = true -> all_chars (fun x => negb (is_dec_digit x)) cs = true -> one_of cs c = false.
Proof.
  intros Hc. unfold one_of. induction cs as [|x cs IH]; simpl; intros H; [reflexivity|].
  apply andb_true_iff in H as [Hx Hs]. destruct (Ascii.eqb_spec x c); [subst; rewrite Hc in Hx; discriminate|].
  specialize (IH Hs). destruct (index_byte c cs); [discriminate|reflexivity].
Qed.

Lemma profile_space_cases v : in_bits 2 v = true ->
  h265_encode_profile_space v = "" /\ v = 0 \/ h265_encode_profile_space v = "A" /\ v = 1
  \/ h265_encode_profile_space v = "B" /\ v = 2 \/ h265_encode_profile_space v = "C" /\ v = 3.
Proof.
  intros H. apply in_bits_range in H. change (2 ^ 2) with 4 in H.
  assert (C : v = 0 \/ v = 1 \/ v = 2 \/ v = 3) by lia.
  destruct C as [->|[->|[->| ->]]]; [left|right; left|right; right; left|right; right; right]; split; reflexivity.
Qed.

Lemma hvc1_profile_ok v i : in_bits 2 v = true -> 0 <= i ->
  hvc1_profile (h265_encode_profile_space v ++ fmt_int i) = true
  /\ no_dot (h265_encode_profile_space v ++ fmt_int i) = true.
Proof.
  intros Hv Hi. pose proof (dec1_fmt_int i Hi) as D. pose proof (fmt_int_no_dot i Hi) as N.
  destruct (profile_space_cases v Hv) as [[-> _]|[[-> _]|[[-> _]|[-> _]]]]; cbn [append]; split; auto.
  destruct (fmt_int_head i Hi) as (c & r & E & Hc). rewrite E in *. unfold hvc1_profile.
  now rewrite (dec_not_letter "ABC" c Hc eq_refl).
Qed.

Lemma hvc1_tier_level_ok t l : 0 <= l ->
  hvc1_tier_level (h265_encode_general_tier_flag t ++ fmt_int l) = true
  /\ no_dot (h265_encode_general_tier_flag t ++ fmt_int l) = true.
Proof.
  intros Hl. pose proof (dec1_fmt_int l Hl) as D. pose proof (fmt_int_no_dot l Hl) as N.
  unfold h265_encode_general_tier_flag. destruct (0 <? t); cbn [append]; split; auto.
Qed.

Lemma bit_bound b k : 0 <= k -> 0 <= bit b k <= 2 ^ k.
Proof. intros Hk. unfold bit. destruct b; [|split; [lia|apply Z.pow_nonneg; lia]]. lia. Qed.

Lemma h265_o1_range p : 0 <= h265_o1 p < 256.
Proof.
  unfold h265_o1.
  pose proof (bit_bound (general_progressive_source_flag p) 7 ltac:(lia)).
  pose proof (bit_bound (general_interlaced_source_flag p) 6 ltac:(lia)).
  pose proof (bit_bound (general_non_packed_constraint_flag p) 5 ltac:(lia)).
  pose proof (bit_bound (general_frame_only_constraint_flag p) 4 ltac:(lia)).
  pose proof (bit_bound (general_max_12bit_constraint_flag p) 3 ltac:(lia)).
  pose proof (bit_bound (general_max_10bit_constraint_flag p) 2 ltac:(lia)).
  pose proof (bit_bound (general_max_8bit_constraint_flag p) 1 ltac:(lia)).
  pose proof (bit_bound (general_max_422chroma_constraint_flag p) 0 ltac:(lia)).
  change (2 ^ 7) with 128 in *. change (2 ^ 6) with 64 in *. change (2 ^ 5) with 32 in *. change (2 ^ 4) with 16 in *.
  change (2 ^ 3) with 8 in *. change (2 ^ 2) with 4 in *. change (2 ^ 1) with 2 in *. change (2 ^ 0) with 1 in *. lia.
Qed.

Lemma h265_o2_range p : 0 <= h265_o2 p < 256.
Proof.
  unfold h265_o2.
  pose proof (bit_bound (general_max_420chroma_constraint_flag p) 7 ltac:(lia)).
  pose proof (bit_bound (general_max_monochrome_constraint_flag p) 6 ltac:(lia)).
  pose proof (bit_bound (general_intra_constraint_flag p) 5 ltac:(lia)).
  pose proof (bit_bound (general_one_picture_only_constraint_flag p) 4 ltac:(lia)).
  pose proof (bit_bound (general_lower_bit_rate_constraint_flag p) 3 ltac:(lia)).
  pose proof (bit_bound (general_max_14bit_constraint_flag p) 2 ltac:(lia)).
  change (2 ^ 7) with 128 in *. change (2 ^ 6) with 64 in *. change (2 ^ 5) with 32 in *. change (2 ^ 4) with 16 in *.
  change (2 ^ 3) with 8 in *. change (2 ^ 2) with 4 in *. lia.
Qed.

Lemma constraint_byte_ok z : 0 <= z < 256 -> hvc1_constraint_byte (fmt_hex z) = true /\ no_dot (fmt_hex z) = true.
Proof.
  intros Hz. assert (Hz' : 0 <= z < 16 ^ Z.of_nat 2) by (change (16 ^ Z.of_nat 2) with 256; lia).
  destruct (hexnum_fmt_hex z 1 Hz') as (A & B). split; [|now apply (fmt_hex_no_dot z 1)].
  unfold hvc1_constraint_byte. rewrite A. now apply Nat.leb_le.
Qed.

Lemma le_bits_range l : 0 <= le_bits l < 2 ^ Z.of_nat (List.length l).
Proof.
  induction l as [|b l IH]; [simpl; lia|]. cbn [le_bits List.length]. rewrite Nat2Z.inj_succ, Z.pow_succ_r by lia.
  destruct b; lia.
Qed.

Lemma compat_ok l : List.length l = 32%nat ->
  hexnum_str (fmt_hex (le_bits l)) = true /\ (slen (fmt_hex (le_bits l)) <= 8)%nat /\ no_dot (fmt_hex (le_bits l)) = true.
Proof.
  intros H. pose proof (le_bits_range l) as R. rewrite H in R.
  assert (R' : 0 <= le_bits l < 16 ^ Z.of_nat 8) by (change (16 ^ Z.of_nat 8) with (2 ^ Z.of_nat 32); exact R).
  destruct (hexnum_fmt_hex _ 7 R') as (A & B). repeat split; auto. now apply (fmt_hex_no_dot _ 7).
Qed.

Lemma av01_level_tier_ok l t : 0 <= l < 100 ->
  av01_level_tier (leading_zeros l 2 ++ av1_encode_tier t) = true /\ no_dot (leading_zeros l 2 ++ av1_encode_tier t) = true.
Proof.
  intros Hl. destruct (leading_zeros_2 l ltac:(lia)) as (D & _ & L). specialize (L ltac:(lia)).
  pose proof (lz_no_dot l ltac:(lia)) as N. apply dec2_all in D.
  destruct (leading_zeros l 2) as [|a [|b [|x r]]]; simpl in L; try lia.
  simpl in D. apply andb_true_iff in D as [Da D]. apply andb_true_iff in D as [Db _].
  unfold no_dot in *. simpl in N. apply andb_true_iff in N as [Na N]. apply andb_true_iff in N as [Nb _].
  destruct t; cbn; rewrite Da, Db, Na, Nb; auto.
Qed.

Lemma av01_chroma_ok x y p : in_bits 2 p = true ->
  av01_chroma (av1_encode_bool x ++ av1_encode_bool y ++ fmt_int p) = true
  /\ no_dot (av1_encode_bool x ++ av1_encode_bool y ++ fmt_int p) = true.
Proof.
  intros H. apply in_bits_range in H. change (2 ^ 2) with 4 in H.
  assert (C : p = 0 \/ p = 1 \/ p = 2 \/ p = 3) by lia.
  destruct C as [->|[->|[->| ->]]]; destruct x, y; split; reflexivity.
Qed.

Lemma profile1_ok p : in_bits 3 p = true -> dec1_str (fmt_int p) = true /\ Nat.eqb (slen (fmt_int p)) 1 = true.
Proof.
  intros H. apply in_bits_range in H. change (2 ^ 3) with 8 in H. split; [apply dec1_fmt_int; lia|].
  destruct (fmt_int_spec p ltac:(lia)) as (_ & L & _).
  pose proof (fmt_int_len p 0 ltac:(change (10 ^ Z.of_nat 1) with 10; lia)). apply Nat.eqb_eq. lia.
Qed.

Lemma flag_ok b : flag_str (av1_encode_bool b) = true.
Proof. now destruct b. Qed.

Lemma hex3_ok a b c : 0 <= a < 256 -> 0 <= b < 256 -> 0 <= c < 256 ->
  Nat.eqb (slen (hex_byte a ++ hex_byte b ++ hex_byte c)) 6 = true
  /\ all_chars is_lhex_digit (hex_byte a ++ hex_byte b ++ hex_byte c) = true.
Proof.
  intros Ha Hb Hc.
  destruct (hex_byte_spec a Ha) as (a1 & a2 & -> & A1 & A2 & _).
  destruct (hex_byte_spec b Hb) as (b1 & b2 & -> & B1 & B2 & _).
  destruct (hex_byte_spec c Hc) as (c1 & c2 & -> & C1 & C2 & _).
  cbn. rewrite A1, A2, B1, B2, C1, C2. auto.
Qed.

(* ---------- (1) well-formedness ---------- *)
Ltac and_split := repeat (apply andb_true_iff; split).
Ltac ranges :=
  repeat match goal with
         | H : _ && _ = true |- _ => apply andb_true_iff in H; destruct H
         | H : in_bits _ _ = true |- _ => apply in_bits_range in H
         | H : (0 <=? _) = true |- _ => apply Z.leb_le in H
         end.

Ltac hsplit := repeat match goal with H : andb _ _ = true |- _ => apply andb_true_iff in H; destruct H end.

Theorem marshal_wellformed c :
  codec_fields_ok c = true -> no_string c = false -> wf_codec_string (marshal c) = true.
Proof.
  intros Hok Hn. destruct (marshal_comps c Hn) as (E & Ne). rewrite E. unfold wf_codec_string.
  destruct c as [[s|]|p b|[p|]|l| |t|]; try discriminate.
  - (* av01 *)
    cbn [codec_fields_ok] in Hok. unfold av1_sh_ok in Hok. hsplit.
    match goal with H : in_bits 3 _ = true |- _ => rename H into Hok end.
    match goal with H : in_bits 5 _ = true |- _ => pose proof (in_bits_range _ _ H) as Hl end. change (2 ^ 5) with 32 in Hl.
    match goal with H : (0 <=? bit_depth s) = true |- _ => apply Z.leb_le in H end.
    destruct (profile1_ok _ Hok) as (P1 & P2).
    destruct (av01_level_tier_ok (seq_level_idx_0 s) (seq_tier_0 s) ltac:(lia)) as (L1 & L2).
    destruct (leading_zeros_2 (bit_depth s) ltac:(lia)) as (B1 & _).
    pose proof (lz_no_dot (bit_depth s) ltac:(lia)) as B2.
    match goal with H : in_bits 2 _ = true |- _ =>
      destruct (av01_chroma_ok (subsampling_x s) (subsampling_y s) _ H) as (C1 & C2) end.
    pose proof (fmt_int_no_dot (seq_profile s) ltac:(apply in_bits_range in Hok; lia)) as P3.
    assert (Hc : forallb no_dot (av1_colour s) = true
                 /\ match av1_colour s with
                    | [cp; tc; mc; r] => dec2_str cp && dec2_str tc && dec2_str mc && flag_str r = true
                    | _ => False
                    end).
    { unfold av1_colour. destruct (color_description_present_flag s); [|split; reflexivity].
      repeat match goal with H : in_bits 8 _ = true |- _ => apply in_bits_range in H end.
      destruct (leading_zeros_2 (color_primaries s) ltac:(lia)) as (X1 & _).
      destruct (leading_zeros_2 (transfer_characteristics s) ltac:(lia)) as (X2 & _).
      destruct (leading_zeros_2 (matrix_coefficients s) ltac:(lia)) as (X3 & _).
      cbn [forallb]. rewrite !lz_no_dot by lia. rewrite bool_no_dot, X1, X2, X3, flag_ok. split; reflexivity. }
    destruct Hc as (N & W).
    rewrite split_join; [|exact Ne|].
    2:{ cbn [comps]. unfold av1_comps. rewrite forallb_app, N. cbn [forallb]. rewrite P3, L2, B2, bool_no_dot, C2. reflexivity. }
    cbn [comps]. unfold av1_comps. destruct (av1_colour s) as [|cp [|tc [|mc [|r [|]]]]]; try contradiction.
    cbn [List.app]. cbn. rewrite P1, P2, L1, B1, flag_ok, C1. exact W.
  - (* vp09 *)
    cbn [codec_fields_ok] in Hok. ranges.
    destruct (leading_zeros_2 p ltac:(lia)) as (X1 & _). destruct (leading_zeros_2 b ltac:(lia)) as (X2 & _).
    rewrite split_join; [|exact Ne|cbn [comps forallb]; rewrite !lz_no_dot by lia; reflexivity].
    cbn. rewrite X1, X2. reflexivity.
  - (* hvc1 *)
    cbn [codec_fields_ok] in Hok. unfold h265_ptl_ok in Hok. hsplit.
    match goal with H : in_bits 2 _ = true |- _ => rename H into Hok end.
    match goal with H : Nat.eqb _ 32 = true |- _ => apply Nat.eqb_eq in H; destruct (compat_ok _ H) as (K1 & K2 & K3) end.
    match goal with H : in_bits 5 _ = true |- _ => apply in_bits_range in H end.
    match goal with H : in_bits 8 _ = true |- _ => apply in_bits_range in H end.
    destruct (hvc1_profile_ok _ (general_profile_idc p) Hok ltac:(lia)) as (P1 & P2).
    destruct (hvc1_tier_level_ok (general_tier_flag p) (general_level_idc p) ltac:(lia)) as (T1 & T2).
    destruct (constraint_byte_ok _ (h265_o1_range p)) as (O1 & O1').
    destruct (constraint_byte_ok _ (h265_o2_range p)) as (O2 & O2').
    apply Nat.leb_le in K2.
    rewrite split_join; [|exact Ne|].
    2:{ cbn [comps]. unfold h265_comps, h265_constraints. destruct (h265_o2 p =? 0); cbn [List.app forallb];
        rewrite P2, K3, T2, O1', ?O2'; reflexivity. }
    cbn [comps]. unfold h265_comps, h265_constraints. destruct (h265_o2 p =? 0); cbn [List.app];
      cbn [String.eqb Ascii.eqb Bool.eqb andb]; rewrite P1, K1, K2, T1, O1, ?O2; reflexivity.
  - (* avc1 *)
    destruct l as [|x [|a [|b [|c r]]]]; try discriminate Hn.
    cbn [codec_fields_ok forallb] in Hok. ranges. change (2 ^ 8) with 256 in *.
    destruct (hex3_ok a b c ltac:(lia) ltac:(lia) ltac:(lia)) as (X1 & X2).
    rewrite split_join; [|exact Ne|].
    2:{ cbn [comps forallb]. unfold no_dot at 2. rewrite (all_chars_no_byte is_lhex_digit "." _ X2 eq_refl). reflexivity. }
    cbn [comps]. cbn [String.eqb Ascii.eqb Bool.eqb andb]. rewrite X1, X2. reflexivity.
  - (* opus *) reflexivity.
  - (* mp4a *)
    cbn [codec_fields_ok] in Hok. apply Z.leb_le in Hok.
    rewrite split_join; [|exact Ne|cbn [comps forallb]; rewrite fmt_int_no_dot by lia; reflexivity].
    cbn. now rewrite dec1_fmt_int.
Qed.

Lemma comps_no_dot c : codec_fields_ok c = true -> forallb no_dot (comps c) = true.
Proof.
  intros Hok. destruct c as [[s|]|p b|[p|]|l| |t|]; try reflexivity.
  - cbn [codec_fields_ok] in Hok. unfold av1_sh_ok in Hok. hsplit.
    repeat match goal with H : in_bits 8 _ = true |- _ => apply in_bits_range in H end.
    match goal with H : in_bits 5 _ = true |- _ => pose proof (in_bits_range _ _ H) as Hl end. change (2 ^ 5) with 32 in Hl.
    match goal with H : (0 <=? bit_depth s) = true |- _ => apply Z.leb_le in H end.
    destruct (av01_level_tier_ok (seq_level_idx_0 s) (seq_tier_0 s) ltac:(lia)) as (_ & L2).
    match goal with H : in_bits 2 _ = true |- _ =>
      destruct (av01_chroma_ok (subsampling_x s) (subsampling_y s) _ H) as (_ & C2) end.
    match goal with H : in_bits 3 _ = true |- _ => apply in_bits_range in H end.
    cbn [comps]. unfold av1_comps, av1_colour. destruct (color_description_present_flag s); cbn [List.app forallb];
      rewrite fmt_int_no_dot, L2, !lz_no_dot, !bool_no_dot, C2 by lia; reflexivity.
  - cbn [codec_fields_ok] in Hok. ranges. cbn [comps forallb]. rewrite !lz_no_dot by lia. reflexivity.
  - cbn [codec_fields_ok] in Hok. unfold h265_ptl_ok in Hok. hsplit.
    match goal with H : Nat.eqb _ 32 = true |- _ => apply Nat.eqb_eq in H; destruct (compat_ok _ H) as (_ & _ & K3) end.
    match goal with H : in_bits 5 _ = true |- _ => apply in_bits_range in H end.
    match goal with H : in_bits 8 _ = true |- _ => apply in_bits_range in H end.
    match goal with H : in_bits 2 _ = true |- _ =>
      destruct (hvc1_profile_ok _ (general_profile_idc p) H ltac:(lia)) as (_ & P2) end.
    destruct (hvc1_tier_level_ok (general_tier_flag p) (general_level_idc p) ltac:(lia)) as (_ & T2).
    destruct (constraint_byte_ok _ (h265_o1_range p)) as (_ & O1').
    destruct (constraint_byte_ok _ (h265_o2_range p)) as (_ & O2').
    cbn [comps]. unfold h265_comps, h265_constraints. destruct (h265_o2 p =? 0); cbn [List.app forallb];
      rewrite P2, K3, T2, O1', ?O2'; reflexivity.
  - destruct l as [|x [|a [|b [|c r]]]]; try reflexivity.
    cbn [codec_fields_ok forallb] in Hok. ranges. change (2 ^ 8) with 256 in *.
    destruct (hex3_ok a b c ltac:(lia) ltac:(lia) ltac:(lia)) as (_ & X2).
    cbn [comps forallb]. unfold no_dot at 2. rewrite (all_chars_no_byte is_lhex_digit "." _ X2 eq_refl). reflexivity.
  - cbn [codec_fields_ok] in Hok. apply Z.leb_le in Hok. cbn [comps forallb]. rewrite fmt_int_no_dot by lia. reflexivity.
Qed.

(* equal strings have equal components *)
Lemma marshal_eq_comps c c' :
  codec_fields_ok c = true -> codec_fields_ok c' = true -> no_string c = false -> no_string c' = false ->
  marshal c = marshal c' -> comps c = comps c'.
Proof.
  intros H H' N N' E. destruct (marshal_comps c N) as (E1 & Ne). destruct (marshal_comps c' N') as (E2 & Ne').
  rewrite E1, E2 in E. apply join_inj; auto using comps_no_dot.
Qed.

(* ---------- (3) hexadecimal digits are lower-case ---------- *)
Lemma lhex_not_upper c : is_lhex_digit c = true ->
  (Nat.leb 65 (nat_of_ascii c) && Nat.leb (nat_of_ascii c) 90)%bool = false.
Proof.
  unfold is_lhex_digit, is_dec_digit. intros H. apply orb_true_iff in H as [H|H];
    apply andb_true_iff in H as [A B]; apply Nat.leb_le in A; apply Nat.leb_le in B;
    apply andb_false_iff; destruct (Nat.leb_spec 65 (nat_of_ascii c)); auto; right; apply Nat.leb_gt; lia.
Qed.

(* ---------- (2) the string determines the fields ---------- *)
Lemma lz_inj v v' : 0 <= v -> 0 <= v' -> leading_zeros v 2 = leading_zeros v' 2 -> v = v'.
Proof.
  intros H H' E. destruct (leading_zeros_2 v H) as (_ & P & _). destruct (leading_zeros_2 v' H') as (_ & P' & _).
  rewrite E in P. congruence.
Qed.

Lemma bool_inj x y : av1_encode_bool x = av1_encode_bool y -> x = y.
Proof. destruct x, y; simpl; congruence. Qed.

Lemma le_bits_inj l : forall l', List.length l = List.length l' -> le_bits l = le_bits l' -> l = l'.
Proof.
  induction l as [|b l IH]; intros [|b' l'] L E; simpl in L; try discriminate; [reflexivity|].
  cbn [le_bits] in E. assert (b = b' /\ le_bits l = le_bits l') as [-> E'] by (destruct b, b'; split; try reflexivity; lia).
  f_equal. apply IH; [lia|exact E'].
Qed.

Lemma profile_space_inj v v' i i' : in_bits 2 v = true -> in_bits 2 v' = true -> 0 <= i -> 0 <= i' ->
  h265_encode_profile_space v ++ fmt_int i = h265_encode_profile_space v' ++ fmt_int i' -> v = v' /\ i = i'.
Proof.
  intros Hv Hv' Hi Hi'.
  destruct (fmt_int_head i Hi) as (c & r & Ei & Hc). destruct (fmt_int_head i' Hi') as (c' & r' & Ei' & Hc').
  destruct (profile_space_cases v Hv) as [[-> ->]|[[-> ->]|[[-> ->]|[-> ->]]]];
    destruct (profile_space_cases v' Hv') as [[-> ->]|[[-> ->]|[[-> ->]|[-> ->]]]];
    cbn [append]; intros E;
    try (split; [reflexivity|apply fmt_int_inj; auto; congruence]);
    exfalso; rewrite ?Ei, ?Ei' in E; inversion E; subst; discriminate.
Qed.

Lemma tier_level_inj t t' l l' : in_bits 1 t = true -> in_bits 1 t' = true -> 0 <= l -> 0 <= l' ->
  h265_encode_general_tier_flag t ++ fmt_int l = h265_encode_general_tier_flag t' ++ fmt_int l' -> t = t' /\ l = l'.
Proof.
  intros Ht Ht' Hl Hl'. apply in_bits_range in Ht. apply in_bits_range in Ht'. change (2 ^ 1) with 2 in *.
  assert (C : t = 0 \/ t = 1) by lia. assert (C' : t' = 0 \/ t' = 1) by lia.
  destruct C as [->| ->]; destruct C' as [->| ->]; cbn; intros E; inversion E;
    split; try reflexivity; apply fmt_int_inj; auto.
Qed.

Lemma o1_bits p : h265_o1 p = le_bits [general_max_422chroma_constraint_flag p; general_max_8bit_constraint_flag p;
  general_max_10bit_constraint_flag p; general_max_12bit_constraint_flag p; general_frame_only_constraint_flag p;
  general_non_packed_constraint_flag p; general_interlaced_source_flag p; general_progressive_source_flag p].
Proof.
  unfold h265_o1. destruct (general_max_422chroma_constraint_flag p), (general_max_8bit_constraint_flag p),
    (general_max_10bit_constraint_flag p), (general_max_12bit_constraint_flag p), (general_frame_only_constraint_flag p),
    (general_non_packed_constraint_flag p), (general_interlaced_source_flag p), (general_progressive_source_flag p); reflexivity.
Qed.

Lemma o2_bits p : h265_o2 p = le_bits [false; false; general_max_14bit_constraint_flag p;
  general_lower_bit_rate_constraint_flag p; general_one_picture_only_constraint_flag p; general_intra_constraint_flag p;
  general_max_monochrome_constraint_flag p; general_max_420chroma_constraint_flag p].
Proof.
  unfold h265_o2. destruct (general_max_14bit_constraint_flag p), (general_lower_bit_rate_constraint_flag p),
    (general_one_picture_only_constraint_flag p), (general_intra_constraint_flag p),
    (general_max_monochrome_constraint_flag p), (general_max_420chroma_constraint_flag p); reflexivity.
Qed.

Lemma byte_hex_inj z z' : 0 <= z < 256 -> 0 <= z' < 256 -> fmt_hex z = fmt_hex z' -> z = z'.
Proof. intros H H'. apply (fmt_hex_inj z z' 1); change (16 ^ Z.of_nat 2) with 256; auto. Qed.

Lemma constraints_inj p q : h265_constraints p = h265_constraints q -> h265_o1 p = h265_o1 q /\ h265_o2 p = h265_o2 q.
Proof.
  unfold h265_constraints. pose proof (h265_o1_range p). pose proof (h265_o1_range q).
  pose proof (h265_o2_range p). pose proof (h265_o2_range q).
  destruct (Z.eqb_spec (h265_o2 p) 0) as [Ep|Np]; destruct (Z.eqb_spec (h265_o2 q) 0) as [Eq|Nq]; intros E; inversion E.
  - split; [now apply byte_hex_inj|congruence].
  - split; now apply byte_hex_inj.
Qed.

Theorem marshal_h265_injective p q : h265_ptl_ok p = true -> h265_ptl_ok q = true ->
  marshal (H265 (Some p)) = marshal (H265 (Some q)) -> p = q.
Proof.
  intros Hp Hq E. apply (marshal_eq_comps (H265 (Some p)) (H265 (Some q)) Hp Hq eq_refl eq_refl) in E.
  cbn [comps] in E. unfold h265_comps in E. cbn [List.app] in E. inversion E as [[E1 E2 E3 E4]]. clear E.
  unfold h265_ptl_ok in Hp, Hq. hsplit.
  repeat match goal with H : Nat.eqb _ 32 = true |- _ => apply Nat.eqb_eq in H end.
  repeat match goal with H : in_bits 5 _ = true |- _ => apply in_bits_range in H end.
  repeat match goal with H : in_bits 8 _ = true |- _ => apply in_bits_range in H end.
  apply profile_space_inj in E1; auto; try lia. destruct E1 as [S1 S2].
  apply tier_level_inj in E3; auto; try lia. destruct E3 as [T1 T2].
  apply constraints_inj in E4. destruct E4 as [O1 O2]. rewrite !o1_bits in O1. rewrite !o2_bits in O2.
  apply le_bits_inj in O1; [|reflexivity]. apply le_bits_inj in O2; [|reflexivity].
  assert (C : general_profile_compatibility_flag p = general_profile_compatibility_flag q).
  { apply le_bits_inj; [congruence|].
    pose proof (le_bits_range (general_profile_compatibility_flag p)) as R1.
    pose proof (le_bits_range (general_profile_compatibility_flag q)) as R2.
    apply (fmt_hex_inj _ _ 7); auto; change (16 ^ Z.of_nat 8) with (2 ^ Z.of_nat 32); congruence. }
  inversion O1. inversion O2. destruct p, q. cbn in *. subst. reflexivity.
Qed.

(* what an av01 string shows of the sequence header: everything Marshal reads, except that an
   absent colour description is printed as the code points 1, 1, 1 and range 0 - the same text as an
   explicit description with these values *)
Definition av1_colour_shown (s : av1_sh) : Z * Z * Z * bool :=
  if color_description_present_flag s
  then (color_primaries s, transfer_characteristics s, matrix_coefficients s, color_range s)
  else (1, 1, 1, false).

Definition av1_shown (s : av1_sh) :=
  (seq_profile s, seq_level_idx_0 s, seq_tier_0 s, bit_depth s, mono_chrome s,
   subsampling_x s, subsampling_y s, chroma_sample_position s, av1_colour_shown s).

Lemma av1_colour_eq s :
  av1_colour s = let '(a, b, c, r) := av1_colour_shown s in
                 [leading_zeros a 2; leading_zeros b 2; leading_zeros c 2; av1_encode_bool r].
Proof. unfold av1_colour, av1_colour_shown. destruct (color_description_present_flag s); reflexivity. Qed.

Lemma av1_colour_shown_range s : av1_sh_ok s = true ->
  let '(a, b, c, r) := av1_colour_shown s in 0 <= a /\ 0 <= b /\ 0 <= c.
Proof.
  intros H. unfold av1_sh_ok in H. hsplit. repeat match goal with H : in_bits 8 _ = true |- _ => apply in_bits_range in H end.
  unfold av1_colour_shown. destruct (color_description_present_flag s); lia.
Qed.

Lemma level_tier_inj l l' t t' : 0 <= l -> 0 <= l' ->
  leading_zeros l 2 ++ av1_encode_tier t = leading_zeros l' 2 ++ av1_encode_tier t' -> l = l' /\ t = t'.
Proof.
  intros H H' E. assert (T : forall b, av1_encode_tier b = String (if b then "H" else "M")%char "") by (intros []; reflexivity).
  rewrite !T in E. apply app_last_inj in E as [E1 E2]. split; [now apply lz_inj|]. destruct t, t'; congruence.
Qed.

Lemma chroma_inj x y p x' y' p' : 0 <= p -> 0 <= p' ->
  av1_encode_bool x ++ av1_encode_bool y ++ fmt_int p = av1_encode_bool x' ++ av1_encode_bool y' ++ fmt_int p' ->
  x = x' /\ y = y' /\ p = p'.
Proof.
  intros H H'. destruct x, y, x', y'; cbn; intros E; inversion E; repeat split; auto using fmt_int_inj.
Qed.

Theorem marshal_av1_injective s t : av1_sh_ok s = true -> av1_sh_ok t = true ->
  marshal (AV1 (Some s)) = marshal (AV1 (Some t)) -> av1_shown s = av1_shown t.
Proof.
  intros Hs Ht E. apply (marshal_eq_comps (AV1 (Some s)) (AV1 (Some t)) Hs Ht eq_refl eq_refl) in E.
  pose proof (av1_colour_shown_range s Hs) as Rs. pose proof (av1_colour_shown_range t Ht) as Rt.
  cbn [comps] in E. unfold av1_comps in E. rewrite !av1_colour_eq in E. unfold av1_shown.
  destruct (av1_colour_shown s) as [[[a b] c] r]. destruct (av1_colour_shown t) as [[[a' b'] c'] r'].
  cbn [List.app] in E. inversion E as [[E1 E2 E3 E4 E5 E6 E7 E8 E9]]. clear E.
  unfold av1_sh_ok in Hs, Ht. hsplit.
  repeat match goal with H : in_bits _ _ = true |- _ => apply in_bits_range in H end.
  repeat match goal with H : (0 <=? _) = true |- _ => apply Z.leb_le in H end.
  apply fmt_int_inj in E1; try lia. apply level_tier_inj in E2 as [E2 E2']; try lia.
  apply lz_inj in E3; try lia. apply bool_inj in E4. apply chroma_inj in E5 as (E5 & E5' & E5''); try lia.
  apply lz_inj in E6; try lia. apply lz_inj in E7; try lia. apply lz_inj in E8; try lia. apply bool_inj in E9.
  congruence.
Qed.

Theorem marshal_vp9_injective p b p' b' :
  in_bits 8 p = true -> in_bits 8 b = true -> in_bits 8 p' = true -> in_bits 8 b' = true ->
  marshal (VP9 p b) = marshal (VP9 p' b') -> p = p' /\ b = b'.
Proof.
  intros H1 H2 H3 H4 E.
  apply (marshal_eq_comps (VP9 p b) (VP9 p' b')) in E; try reflexivity;
    try (cbn [codec_fields_ok]; rewrite ?H1, ?H2, ?H3, ?H4; reflexivity).
  apply in_bits_range in H1, H2, H3, H4. cbn [comps] in E. inversion E as [[E1 E2]].
  split; apply lz_inj; auto; lia.
Qed.

Lemma hex_byte_app_inj x y r r' : 0 <= x < 256 -> 0 <= y < 256 -> hex_byte x ++ r = hex_byte y ++ r' -> x = y /\ r = r'.
Proof.
  intros Hx Hy E. destruct (hex_byte_spec x Hx) as (a & b & Ex & _ & _ & Va & Vb).
  destruct (hex_byte_spec y Hy) as (a' & b' & Ey & _ & _ & Va' & Vb').
  rewrite Ex, Ey in E. cbn [append] in E. inversion E; subst. split; [|reflexivity].
  apply hex_byte_inj; auto. congruence.
Qed.

Lemma app_prefix_inj (p a b : string) : p ++ a = p ++ b -> a = b.
Proof. induction p as [|x p IH]; simpl; intros E; [exact E|]. inversion E. auto. Qed.

(* avc1: bytes 1..3 of the SPS *)
Theorem marshal_h264_injective x a b c r x' a' b' c' r' :
  forallb (in_bits 8) [a; b; c; a'; b'; c'] = true ->
  marshal (H264 (x :: a :: b :: c :: r)) = marshal (H264 (x' :: a' :: b' :: c' :: r')) -> a = a' /\ b = b' /\ c = c'.
Proof.
  intros H E. cbn [forallb] in H. hsplit. repeat match goal with H : in_bits 8 _ = true |- _ => apply in_bits_range in H end.
  change (2 ^ 8) with 256 in *. cbn [marshal] in E. apply app_prefix_inj in E. rename E into E'.
  apply hex_byte_app_inj in E' as [-> E']; try lia. apply hex_byte_app_inj in E' as [-> E']; try lia.
  apply hex_byte_inj in E'; try lia.
Qed.

Theorem marshal_mpeg4audio_injective t t' : 0 <= t -> 0 <= t' ->
  marshal (MPEG4Audio t) = marshal (MPEG4Audio t') -> t = t'.
Proof. intros H H' E. cbn [marshal] in E. apply app_prefix_inj in E. now apply fmt_int_inj. Qed.

(* strings of different families differ *)
Definition family (c : codec) : nat :=
  match c with AV1 _ => 1 | VP9 _ _ => 2 | H265 _ => 3 | H264 _ => 4 | Opus => 5 | MPEG4Audio _ => 6 | OtherCodec => 7 end%nat.

Lemma comps_head c : no_string c = false ->
  exists tl, comps c = nth (family c) [""; "av01"; "vp09"; "hvc1"; "avc1"; "opus"; "mp4a"; ""] "" :: tl.
Proof.
  destruct c as [[s|]|p b|[p|]|l| |t|]; try discriminate; intros Hn; cbn [family nth comps];
    try (unfold av1_comps, h265_comps; cbn [List.app]; eexists; reflexivity).
  destruct l as [|x [|a [|b [|c r]]]]; try discriminate Hn. eexists; reflexivity.
Qed.

Theorem marshal_family c c' :
  codec_fields_ok c = true -> codec_fields_ok c' = true -> no_string c = false -> no_string c' = false ->
  marshal c = marshal c' -> family c = family c'.
Proof.
  intros H H' N N' E. apply (marshal_eq_comps c c' H H' N N') in E.
  destruct (comps_head c N) as (tl & E1). destruct (comps_head c' N') as (tl' & E2). rewrite E1, E2 in E.
  inversion E as [[Eh _]]. clear - Eh N N'.
  destruct c as [[?|]|? ?|[?|]|?| |?|]; try discriminate N; destruct c' as [[?|]|? ?|[?|]|?| |?|]; try discriminate N';
    try reflexivity; discriminate Eh.
Qed.

(* Marshal returns the empty string exactly for the values without a string *)
Theorem marshal_empty_iff c : codec_fields_ok c = true -> (marshal c = "" <-> no_string c = true).
Proof.
  intros H. split; [|apply marshal_no_string]. intros E. destruct (no_string c) eqn:N; [reflexivity|].
  pose proof (marshal_wellformed c H N) as W. rewrite E in W. discriminate W.
Qed.

(* ---------- the strings of pkg/codecparams/marshal_test.go ---------- *)
Definition ex_h265 : h265_ptl :=
  Build_h265_ptl 0 0 1 (false :: true :: true :: repeat false 29)
    true false false true false false false false false false false false false false 120.
Definition ex_av1 : av1_sh := Build_av1_sh 0 8 false 8 false true true 0 false 2 2 2 false.

Lemma examples_marshal :
  marshal (H265 (Some ex_h265)) = "hvc1.1.6.L120.90" /\ marshal (AV1 (Some ex_av1)) = "av01.0.08M.08.0.110.01.01.01.0"
  /\ marshal (VP9 1 8) = "vp09.01.10.08" /\ marshal (H264 [103; 66; 192; 40; 217]) = "avc1.42c028"
  /\ marshal Opus = "opus" /\ marshal (MPEG4Audio 2) = "mp4a.40.2"
  /\ forallb codec_fields_ok [H265 (Some ex_h265); AV1 (Some ex_av1); VP9 1 8; H264 [103; 66; 192; 40; 217]; Opus; MPEG4Audio 2] = true.
Proof. vm_compute. repeat split. Qed.

(* a dangling period, an empty component, upper-case hexadecimal: rejected by the grammar *)
Lemma examples_rejected :
  map wf_codec_string ["hvc1.1.6.L120."; "hvc1.1..L120.90"; "hvc1.1.6.L120.B0"; "avc1.42C028"; "avc1.42c02";
                       "av01.0.08M.08"; "vp09.1.10.08"; "mp4a.40."; "hvc1.1.6.L120.90.0.0"; ""]
  = [false; false; false; false; false; false; false; false; false; false].
Proof. vm_compute. reflexivity. Qed.
