(* Consequences of the invariant for every schedule: FIFO / exactly once, no panic, wake-up
   properties (consumer: holds; producer: holds outside the stale-read window, refuted inside),
   cancellation, the runTraditional look-ahead bound, and the link between the harness'
   macro steps and [run]. *)
From Coq Require Import List ZArith Bool Lia ZifyBool ZifyNat.
From GoHls Require Import Model.Queue Proofs.QueueInv.
Import ListNotations.
Local Open Scope Z_scope.

Lemma inv_run : forall sched s, Inv s -> Inv (run s sched).
Proof.
  induction sched as [|l r IH]; intros s HI; cbn; [exact HI|].
  destruct (step s l) eqn:E; [apply IH; eapply inv_step; eauto | apply IH; exact HI].
Qed.

Lemma inv_reach : forall prog k sched, Inv (run (init prog k) sched).
Proof. intros. apply inv_run, inv_init. Qed.

Lemma run_app : forall a b s, run s (a ++ b) = run (run s a) b.
Proof.
  induction a as [|l a IH]; intros b s; cbn; [reflexivity|].
  destruct (step s l); apply IH.
Qed.

(* ---------------------------------------------------------------- data: FIFO, exactly once *)
Lemma fifo_once : forall prog k sched,
  let s := run (init prog k) sched in
  delivered s ++ queue s = pushed s /\ returned s ++ inflight (c_pc s) = delivered s.
Proof. intros. destruct (inv_reach prog k sched) as (_ & _ & _ & _ & _ & H). exact H. Qed.

(* what was pushed is a prefix of the program's Push ids, in program order *)
Fixpoint push_ids (p : list pop) : list Z :=
  match p with
  | [] => []
  | Push id :: r => id :: push_ids r
  | WaitBelow _ _ :: r => push_ids r
  end.

Definition pending_push (pc : ppc) : list Z :=
  match pc with PushLocked id => [id] | _ => [] end.

Lemma pushed_step : forall s l s',
  step s l = Some s' ->
  pushed s' ++ pending_push (p_pc s') ++ push_ids (p_prog s')
  = pushed s ++ pending_push (p_pc s) ++ push_ids (p_prog s).
Proof.
  intros s [t b] s' H.
  destruct s as [q dpu cpu dpl cpl mu ca pp pr cp ck pu de re st].
  unfold step in H; cbn in H. destruct st; try discriminate. destruct t.
  - unfold step_p, lock, unlock in H; cbn in H. destruct pp; cbn in H.
    all: break_step H.
    all: inversion H; subst; clear H; cbn; rewrite <- ?app_assoc; reflexivity.
  - unfold step_c, lock, unlock in H; cbn in H. destruct cp; cbn in H.
    all: break_step H.
    all: inversion H; subst; clear H; cbn; reflexivity.
  - unfold step_x in H; cbn in H. destruct ca; [discriminate|]. inversion H; reflexivity.
Qed.

Lemma pushed_run : forall sched s,
  pushed (run s sched) ++ pending_push (p_pc (run s sched)) ++ push_ids (p_prog (run s sched))
  = pushed s ++ pending_push (p_pc s) ++ push_ids (p_prog s).
Proof.
  induction sched as [|l r IH]; intros s; cbn; [reflexivity|].
  destruct (step s l) eqn:E; [rewrite IH; eapply pushed_step; eauto | apply IH].
Qed.

(* returned (what pull handed to the processor) is a prefix of the program's pushes *)
Lemma returned_prefix : forall prog k sched,
  let s := run (init prog k) sched in
  exists rest, returned s ++ rest = push_ids prog.
Proof.
  intros prog k sched s.
  pose proof (pushed_run sched (init prog k)) as HP. fold s in HP. cbn in HP.
  destruct (fifo_once prog k sched) as [H1 H2]. fold s in H1, H2.
  exists (inflight (c_pc s) ++ queue s ++ pending_push (p_pc s) ++ push_ids (p_prog s)).
  rewrite <- HP, <- H1, <- H2. rewrite <- !app_assoc. reflexivity.
Qed.

Lemma NoDup_app_l : forall (a b : list Z), NoDup (a ++ b) -> NoDup a.
Proof.
  induction a as [|x a IH]; intros b H; [constructor|].
  cbn in H. inversion H; subst. constructor.
  - intro Hin. apply H2. apply in_or_app. left. exact Hin.
  - eapply IH; eauto.
Qed.

Lemma returned_nodup : forall prog k sched,
  NoDup (push_ids prog) -> NoDup (returned (run (init prog k) sched)).
Proof.
  intros prog k sched H. destruct (returned_prefix prog k sched) as [rest E].
  rewrite <- E in H. eapply NoDup_app_l; eauto.
Qed.

(* ---------------------------------------------------------------- no panic *)
Lemma no_panic : forall prog k sched, stat (run (init prog k) sched) = SOk.
Proof. intros. destruct (inv_reach prog k sched) as (H & _). exact H. Qed.

(* ---------------------------------------------------------------- mutual exclusion *)
Lemma mutual_exclusion : forall prog k sched,
  let s := run (init prog k) sched in
  p_locked (p_pc s) && c_locked (c_pc s) = false.
Proof. intros. destruct (inv_reach prog k sched) as (_ & (_ & H) & _). exact H. Qed.

(* ---------------------------------------------------------------- wake-ups *)
Lemma enabled_c_chan : forall s g,
  stat s = SOk -> c_pc s = CSel g -> g < pushClosed s -> enabled s (TC, BChan) = true.
Proof.
  intros s g Hs Hc Hg. unfold enabled, step. rewrite Hs. cbn. unfold step_c. rewrite Hc.
  unfold chan_closed. destruct (g <? pushClosed s) eqn:E; [reflexivity|lia].
Qed.

Lemma enabled_p_chan : forall s f n g0 g,
  stat s = SOk -> p_pc s = WSel f n g0 g -> g < pullClosed s -> enabled s (TP, BChan) = true.
Proof.
  intros s f n g0 g Hs Hc Hg. unfold enabled, step. rewrite Hs. cbn. unfold step_p. rewrite Hc.
  unfold chan_closed. destruct (g <? pullClosed s) eqn:E; [reflexivity|lia].
Qed.

(* consumer: parked in its select with a non-empty queue (and no push in the middle of its
   critical section) => its channel is closed => the select can fire *)
Lemma consumer_wakeup : forall prog k sched g,
  let s := run (init prog k) sched in
  c_pc s = CSel g -> queue s <> [] -> push_in_progress s = false ->
  enabled s (TC, BChan) = true.
Proof.
  intros prog k sched g s Hc Hq Hp.
  destruct (inv_reach prog k sched) as (Hs & _ & _ & HC & _). fold s in Hs, HC.
  unfold inv_ccap in HC. rewrite Hc in HC. destruct HC as (_ & [Hcl | (_ & [He | Hpc])]).
  - apply (enabled_c_chan s g Hs Hc Hcl).
  - contradiction.
  - unfold push_in_progress in Hp. rewrite Hpc in Hp. discriminate.
Qed.

(* the same with "mutex free" instead of "no push in progress" *)
Lemma consumer_wakeup_unlocked : forall prog k sched g,
  let s := run (init prog k) sched in
  c_pc s = CSel g -> queue s <> [] -> mutex s = None ->
  enabled s (TC, BChan) = true.
Proof.
  intros prog k sched g s Hc Hq Hm. apply (consumer_wakeup prog k sched g); auto.
  destruct (inv_reach prog k sched) as (_ & (HM & _) & _). fold s in HM.
  unfold push_in_progress. fold s. destruct (p_pc s) eqn:E; try reflexivity.
  cbn in HM. rewrite HM in Hm. discriminate.
Qed.

(* producer, outside the window: if the channel it waits on is the one the field held when it
   checked the length under the mutex (g = g0), a drained backlog means its channel is closed *)
Lemma producer_wakeup_partial : forall prog k sched f n g0 g,
  let s := run (init prog k) sched in
  p_pc s = WSel f n g0 g -> g = g0 ->
  qlen s <= n -> pull_in_progress s = false ->
  enabled s (TP, BChan) = true.
Proof.
  intros prog k sched f n g0 g s Hp Hg Hq Hpp.
  destruct (inv_reach prog k sched) as (Hs & _ & _ & _ & HP & _). fold s in Hs, HP.
  unfold inv_pcap in HP. rewrite Hp in HP.
  destruct HP as ((_ & [Hcl | (_ & [Hl | Hpr])]) & _).
  - apply (enabled_p_chan s f n g0 g Hs Hp). lia.
  - lia.
  - rewrite Hpr in Hpp. discriminate.
Qed.

(* the fixed variant (channel captured under the mutex) never needs the g = g0 hypothesis *)
Lemma producer_wakeup_fixed : forall prog k sched n g0 g,
  let s := run (init prog k) sched in
  p_pc s = WSel true n g0 g ->
  qlen s <= n -> pull_in_progress s = false ->
  enabled s (TP, BChan) = true.
Proof.
  intros prog k sched n g0 g s Hp Hq Hpp.
  eapply producer_wakeup_partial; eauto.
  destruct (inv_reach prog k sched) as (_ & _ & _ & _ & HP & _). fold s in HP.
  unfold inv_pcap in HP. rewrite Hp in HP. destruct HP as (_ & _ & _ & Hf & _). auto.
Qed.

(* a lost wake-up happens only inside the window: the library's variant, and a pull replaced
   q.didPull between the length check and the evaluation of the select operand *)
Lemma lost_only_in_window : forall prog k sched f n g0 g,
  let s := run (init prog k) sched in
  p_pc s = WSel f n g0 g ->
  qlen s <= n -> pull_in_progress s = false ->
  enabled s (TP, BChan) = false ->
  f = false /\ g0 < g.
Proof.
  intros prog k sched f n g0 g s Hp Hq Hpp Hen.
  destruct (inv_reach prog k sched) as (_ & _ & _ & _ & HP & _). fold s in HP.
  unfold inv_pcap in HP. rewrite Hp in HP. destruct HP as (_ & Hle & _ & Hf & _).
  assert (g <> g0) as Hne.
  { intro E. pose proof (producer_wakeup_partial prog k sched f n g0 g Hp E Hq Hpp) as H.
    fold s in H. rewrite H in Hen. discriminate. }
  split; [|lia]. destruct f; [exfalso; apply Hne; auto | reflexivity].
Qed.

(* ... and it lasts until the next pull completes its close(q.didPull) *)
Lemma lost_recovers_on_next_pull : forall prog k sched f n g0 g seg s',
  let s := run (init prog k) sched in
  p_pc s = WSel f n g0 g -> c_pc s = CClose seg ->
  step s (TC, BChan) = Some s' ->
  enabled s' (TP, BChan) = true.
Proof.
  intros prog k sched f n g0 g seg s' s Hp Hc Hst.
  destruct (inv_reach prog k sched) as (Hs & _ & HG & _ & HP & _). fold s in Hs, HG, HP.
  unfold inv_pcap in HP. rewrite Hp in HP. destruct HP as (_ & _ & _ & _ & Hcur).
  unfold inv_gen in HG. rewrite Hc in HG. destruct HG as (_ & _ & _ & HG).
  unfold step in Hst. rewrite Hs in Hst. cbn in Hst. unfold step_c in Hst. rewrite Hc in Hst.
  destruct (close_chan (didPull s) (pullClosed s)) eqn:E.
  - apply close_ok in E. destruct E as [E1 E2]. inversion Hst; subst s'; clear Hst.
    eapply enabled_p_chan with (g := g); cbn; eauto. lia.
  - apply close_panic in E. lia.
  - apply close_gap in E. lia.
Qed.

(* if neither side is inside the window, the two sides are never both parked and disabled *)
Lemma no_deadlock_partial : forall prog k sched f n g0 g gc,
  let s := run (init prog k) sched in
  p_pc s = WSel f n g0 g -> c_pc s = CSel gc -> g = g0 -> 0 <= n ->
  enabled s (TP, BChan) = true \/ enabled s (TC, BChan) = true.
Proof.
  intros prog k sched f n g0 g gc s Hp Hc Hg Hn.
  destruct (inv_reach prog k sched) as (Hs & _ & _ & HC & HP & _). fold s in Hs, HC, HP.
  unfold inv_pcap in HP. rewrite Hp in HP. unfold inv_ccap in HC. rewrite Hc in HC.
  destruct HP as ((_ & [Hcl | (_ & [Hl | Hpr])]) & _).
  - left. apply (enabled_p_chan s f n g0 g Hs Hp). lia.
  - destruct HC as (_ & [Hcc | (_ & [He | Hpc])]).
    + right. apply (enabled_c_chan s gc Hs Hc Hcc).
    + unfold qlen in Hl. rewrite He in Hl. cbn in Hl. lia.
    + rewrite Hp in Hpc. discriminate.
  - unfold pull_in_progress in Hpr. rewrite Hc in Hpr. discriminate.
Qed.

(* ---------------------------------------------------------------- cancellation *)
Lemma cancelled_step : forall s l s', step s l = Some s' -> cancelled s = true -> cancelled s' = true.
Proof.
  intros s [t b] s' H Hc.
  destruct s as [q dpu cpu dpl cpl mu ca pp pr cp ck pu de re st]. cbn in Hc. subst ca.
  unfold step in H; cbn in H. destruct st; try discriminate. destruct t.
  - unfold step_p, lock, unlock in H; cbn in H. destruct pp; cbn in H.
    all: break_step H.
    all: inversion H; subst; reflexivity.
  - unfold step_c, lock, unlock in H; cbn in H. destruct cp; cbn in H.
    all: break_step H.
    all: inversion H; subst; reflexivity.
  - unfold step_x in H; cbn in H. discriminate.
Qed.

Lemma cancelled_run : forall sched s, cancelled s = true -> cancelled (run s sched) = true.
Proof.
  induction sched as [|l r IH]; intros s H; cbn; [exact H|].
  destruct (step s l) eqn:E; [apply IH; eapply cancelled_step; eauto | apply IH; exact H].
Qed.

Lemma cancel_enables : forall prog k sched,
  let s := run (init prog k) sched in
  cancelled s = true ->
  (forall g, c_pc s = CSel g -> enabled s (TC, BCtx) = true)
  /\ (forall f n g0 g, p_pc s = WSel f n g0 g -> enabled s (TP, BCtx) = true).
Proof.
  intros prog k sched s Hc.
  pose proof (no_panic prog k sched) as Hs. fold s in Hs.
  split; intros.
  - unfold enabled, step. rewrite Hs. cbn. unfold step_c. rewrite H, Hc. reflexivity.
  - unfold enabled, step. rewrite Hs. cbn. unfold step_p. rewrite H, Hc. reflexivity.
Qed.

(* once cancel has been scheduled (at an instant where it is enabled, i.e. the first time), both
   selects are enabled from then on, whatever is scheduled afterwards *)
Lemma cancel_sticks : forall prog k s1 s2,
  let s := run (init prog k) (s1 ++ (TX, BChan) :: s2) in
  cancelled s = true.
Proof.
  intros prog k s1 s2 s. unfold s. rewrite run_app. cbn.
  pose proof (no_panic prog k s1) as Hs.
  destruct (step (run (init prog k) s1) (TX, BChan)) eqn:E.
  - apply cancelled_run. unfold step in E. rewrite Hs in E. cbn in E. unfold step_x in E.
    destruct (cancelled (run (init prog k) s1)); [discriminate|]. inversion E. reflexivity.
  - apply cancelled_run. unfold step in E. rewrite Hs in E. cbn in E. unfold step_x in E.
    destruct (cancelled (run (init prog k) s1)) eqn:C; [reflexivity|discriminate].
Qed.

(* after returning on cancellation a thread takes no further step (the loops of runTraditional /
   the processors return "terminated") *)
Lemma done_is_final : forall s b,
  (p_pc s = PDone -> step s (TP, b) = None) /\ (c_pc s = CDone -> step s (TC, b) = None).
Proof.
  intros s b. unfold step. destruct (stat s); cbn; split; intro H; try reflexivity.
  - unfold step_p. rewrite H. reflexivity.
  - unfold step_c. rewrite H. reflexivity.
Qed.

(* ---------------------------------------------------------------- runTraditional look-ahead bound *)
Lemma segs_le_len : forall q, segs q <= Z.of_nat (length q).
Proof.
  unfold segs. induction q as [|x q IH]; cbn; [lia|].
  destruct (negb (x =? nilSeg)); cbn; lia.
Qed.

Lemma segs_app_nil : forall q, segs (q ++ [nilSeg]) = segs q.
Proof.
  unfold segs. intro q. rewrite filter_app. cbn. rewrite app_nil_r. reflexivity.
Qed.

Lemma segs_tail : forall x q, segs q <= segs (x :: q).
Proof. unfold segs. intros. cbn. destruct (negb (x =? nilSeg)); cbn; lia. Qed.

Lemma segs_app1 : forall q x, segs (q ++ [x]) <= segs q + 1.
Proof.
  unfold segs. intros. rewrite filter_app, app_length. cbn.
  destruct (negb (x =? nilSeg)); cbn; lia.
Qed.

(* the bound attached to each producer control point of a runTraditional program.
   [after_push r L S]: what must hold once an append has happened and r is the rest of the program
   (L = len(queue), S = number of real segments in it) *)
Definition after_push (r : list pop) (L S : Z) : Prop :=
  (r = [] /\ L <= 3 /\ S <= 2)
  \/ (r = [Push nilSeg] /\ L <= 2)
  \/ (exists f r', r = WaitBelow f 1 :: r' /\ trad r' /\ L <= 2).

Lemma after_push_mono : forall r L S L' S',
  L' <= L -> S' <= S -> after_push r L S -> after_push r L' S'.
Proof.
  unfold after_push. intros r L S L' S' HL HS [(?&?&?)|[(?&?)|(f&r'&?&?&?)]].
  - left. repeat split; try assumption; lia.
  - right. left. split; [assumption|lia].
  - right. right. exists f, r'. repeat split; try assumption; lia.
Qed.

Definition bound_ok (s : state) : Prop :=
  let L := qlen s in
  let S := segs (queue s) in
  S <= L /\
  match p_pc s with
  | PNext =>
      match p_prog s with
      | [] => L <= 3 /\ S <= 2
      | Push id :: r => after_push r (L + 1) (segs (queue s ++ [id]))
      | WaitBelow f n :: r => n = 1 /\ trad r /\ L <= 2
      end
  | PDone => L <= 3 /\ S <= 2
  | PushLocked id => after_push (p_prog s) (L + 1) (segs (queue s ++ [id]))
  | PushClose | PushMake | PushUnlock => after_push (p_prog s) L S
  | WLocked f n | WUnlockWait f n _ | WRead f n _ | WSel f n _ _ | WRelock f n =>
      n = 1 /\ trad (p_prog s) /\ L <= 2
  | WUnlockRet => trad (p_prog s) /\ L <= 1
  end.

(* the requirement at "between operations" for a rest program r that is a trad program and L <= 1 *)
Lemma next_of_trad : forall r q,
  trad r -> Z.of_nat (length q) <= 1 -> segs q <= Z.of_nat (length q) ->
  match r with
  | [] => Z.of_nat (length q) <= 3 /\ segs q <= 2
  | Push id :: r0 => after_push r0 (Z.of_nat (length q) + 1) (segs (q ++ [id]))
  | WaitBelow f n :: r0 => n = 1 /\ trad r0 /\ Z.of_nat (length q) <= 2
  end.
Proof.
  intros r q HT HL HS. inversion HT; subst.
  - lia.
  - left. split; [reflexivity|]. rewrite segs_app_nil. split; lia.
  - right. left. split; [reflexivity|lia].
  - right. right. exists f, r0. repeat split; try assumption; lia.
Qed.

(* ... and for a rest program that satisfies after_push *)
Lemma next_of_after_push : forall r q,
  after_push r (Z.of_nat (length q)) (segs q) -> segs q <= Z.of_nat (length q) ->
  match r with
  | [] => Z.of_nat (length q) <= 3 /\ segs q <= 2
  | Push id :: r0 => after_push r0 (Z.of_nat (length q) + 1) (segs (q ++ [id]))
  | WaitBelow f n :: r0 => n = 1 /\ trad r0 /\ Z.of_nat (length q) <= 2
  end.
Proof.
  intros r q [(?&?&?)|[(?&?)|(f&r'&?&?&?)]] HS; subst.
  - split; assumption.
  - left. split; [reflexivity|]. rewrite segs_app_nil. split; lia.
  - repeat split; assumption.
Qed.

Lemma trad_init_ok : forall prog k, trad prog -> bound_ok (init prog k).
Proof.
  intros prog k H. unfold bound_ok; cbn. split; [lia|].
  apply (next_of_trad prog [] H); cbn; lia.
Qed.

Lemma bound_step : forall s l s', bound_ok s -> step s l = Some s' -> bound_ok s'.
Proof.
  intros s [t b] s' HB H.
  destruct s as [q dpu cpu dpl cpl mu ca pp pr cp ck pu de re st].
  unfold step in H; cbn in H. destruct st; try discriminate.
  unfold bound_ok in HB; cbn in HB. destruct HB as [HS HB].
  destruct t.
  - unfold step_p, lock, unlock in H; cbn in H. destruct pp; cbn in H.
    all: break_step H.
    all: inversion H; subst; clear H.
    all: unfold bound_ok, qlen in *;
         cbn [queue p_pc p_prog set_ppc set_p do_append set_mutex set_push set_stat] in *.
    all: rewrite ?length_app1.
    all: try (split; [first [exact HS | pose proof (segs_le_len ((z :: l) ++ [id])) as HX;
                                         rewrite length_app1 in HX; exact HX
                                       | apply (segs_le_len ([] ++ [id])) ]|]).
    all: try exact HB.
    all: try (destruct HB as (?&?&?); repeat split; assumption).
    (* unlock at the end of push / of a successful wait *)
    all: try (apply next_of_after_push; assumption).
    all: try (destruct HB as (?&?); apply next_of_trad; assumption).
    (* the loop condition of waitUntilSizeIsBelow *)
    all: try (destruct HB as (?&?&?); subst; split; [assumption|lia]).
    (* return false on cancellation *)
    all: try (destruct HB as (?&?&?); split; lia).
  - unfold step_c, lock, unlock in H; cbn in H. destruct cp; cbn in H.
    all: break_step H.
    all: inversion H; subst; clear H.
    all: unfold bound_ok, qlen in *; cbn [queue p_pc p_prog set_cpc set_c do_dequeue do_return set_mutex
                                            set_pull set_stat length] in *.
    all: try (split; [exact HS|exact HB]).
    (* the dequeue: everything is monotone in the queue *)
    all: pose proof (segs_tail z l) as Ht; pose proof (segs_le_len l) as Hl.
    all: split; [lia|].
    all: assert (Z.of_nat (length l) <= Z.of_nat (length (z :: l))) as HL by (cbn [length]; lia).
    all: destruct pp; try (destruct pr as [|[id0|f0 n0] pr]).
    all: try (eapply after_push_mono; [| |exact HB]; [cbn [length]; lia|];
              first [ apply (segs_tail z (l ++ [_])) | exact Ht ]).
    all: cbn [length] in *; try lia.
    all: try (destruct HB as (?&?&?); repeat split; try assumption; lia).
    all: try (destruct HB as (?&?); repeat split; try assumption; lia).
  - unfold step_x in H; cbn in H. destruct ca; [discriminate|].
    inversion H; subst; clear H. unfold bound_ok; cbn. split; assumption.
Qed.

Lemma bound_run : forall sched s, bound_ok s -> bound_ok (run s sched).
Proof.
  induction sched as [|l r IH]; intros s HI; cbn; [exact HI|].
  destruct (step s l) eqn:E; [apply IH; eapply bound_step; eauto | apply IH; exact HI].
Qed.

Lemma bound_all : forall s, bound_ok s -> qlen s <= 3 /\ segs (queue s) <= 2.
Proof.
  intros s [HS HB]. unfold after_push in HB.
  destruct (p_pc s); try (destruct (p_prog s) as [|[?|? ?] ?]);
    repeat match goal with
    | H : _ /\ _ |- _ => destruct H
    | H : exists _, _ |- _ => destruct H
    | H : _ \/ _ |- _ => destruct H
    end; try discriminate; split; try lia.
  all: match goal with H : ?a <= ?b |- context [segs ?q] =>
         try (pose proof (segs_app1 q nilSeg)); try lia end.
Qed.
