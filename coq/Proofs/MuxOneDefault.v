(* C16: "exactly one rendition is DEFAULT: the one the user marked, else the first" as one statement
   about every muxer Start accepts and every write history: the number of streams that are a
   DEFAULT rendition is 1 when the muxer has any rendition and 0 when it has none, at every moment. *)
From Coq Require Import List ZArith Bool Lia Arith.
From GoHls Require Import Model.Mux Proofs.MuxStream Proofs.MuxLift Proofs.MuxWindow Proofs.MuxHistory
  Proofs.MuxPlaylist Proofs.MuxMulti.
Import ListNotations.
Local Open Scope Z_scope.

(* whether audio tracks are renditions at all: a video track exists, or there are several tracks *)
Definition RA (c : cfg) : bool := hasVideo c || Nat.ltb 1 (length (c_tracks c)).

Lemma is_rend_video c i t : isVideo (t_kind t) = true -> is_rend c i t = false.
Proof. intros Hv. unfold is_rend, track_leading. rewrite Hv. reflexivity. Qed.

Lemma is_rend_audio c i t :
  isVideo (t_kind t) = false -> (i < length (c_tracks c))%nat -> is_rend c i t = RA c.
Proof.
  intros Hv Hi. unfold is_rend, track_leading, RA. rewrite Hv. cbn [negb orb andb].
  destruct (hasVideo c); cbn [negb orb andb]; [reflexivity|].
  destruct i as [|i]; cbn [Nat.eqb negb orb]; [reflexivity|].
  symmetry. apply Nat.ltb_lt. lia.
Qed.

Lemma count_rend_default_suffix c : forall ts i,
  (i + length ts = length (c_tracks c))%nat ->
  count_rend_default c i ts = if RA c then count_default_audio ts else O.
Proof.
  induction ts as [|t ts IH]; intros i Hl; [destruct (RA c); reflexivity|].
  cbn [length] in Hl. cbn [count_rend_default]. rewrite (IH (S i)) by lia.
  unfold count_default_audio. cbn [filter].
  destruct (isVideo (t_kind t)) eqn:Hv; cbn [negb andb].
  - rewrite (is_rend_video c i t Hv). cbn [andb]. reflexivity.
  - rewrite (is_rend_audio c i t Hv) by lia.
    destruct (RA c), (t_default t); cbn [andb length]; reflexivity.
Qed.

Lemma count_rend_suffix c : forall ts i,
  (i + length ts = length (c_tracks c))%nat ->
  count_rend c i ts = if RA c then count_audio ts else O.
Proof.
  induction ts as [|t ts IH]; intros i Hl; [destruct (RA c); reflexivity|].
  cbn [length] in Hl. cbn [count_rend]. rewrite (IH (S i)) by lia.
  unfold count_audio. cbn [filter].
  destruct (isVideo (t_kind t)) eqn:Hv; cbn [negb].
  - rewrite (is_rend_video c i t Hv). reflexivity.
  - rewrite (is_rend_audio c i t Hv) by lia. destruct (RA c); cbn [length]; reflexivity.
Qed.

Lemma default_audio_le_audio ts : (count_default_audio ts <= count_audio ts)%nat.
Proof.
  unfold count_default_audio, count_audio. induction ts as [|t ts IH]; [reflexivity|].
  cbn [filter]. destruct (isVideo (t_kind t)), (t_default t); cbn [negb andb length]; lia.
Qed.

(* the renditions of the stream list are the rendition tracks *)
Lemma rend_streams_count c : forall ts i ch n,
  length (filter st_rendition (mk_streams c i ts ch n)) = count_rend c i ts.
Proof.
  induction ts as [|t ts IH]; intros i ch n; [reflexivity|].
  cbn [mk_streams count_rend].
  match goal with |- context [let '(a, b) := ?x in _] => destruct x as [d ch'] end.
  cbn [filter st_rendition mk_stream]. destruct (is_rend c i t); cbn [length]; now rewrite IH.
Qed.

(* ---- Start: one DEFAULT rendition iff a rendition exists ---- *)
Definition n_rend (l : list stream) : nat := length (filter st_rendition l).

Lemma start_ok_default c : start_ok c = true -> (count_default_audio (c_tracks c) <= 1)%nat.
Proof.
  unfold start_ok. intros H. apply andb_prop in H. destruct H as [H _].
  apply andb_prop in H. destruct H as [_ H]. now apply Nat.leb_le.
Qed.

Lemma one_default_mk c : (count_default_audio (c_tracks c) <= 1)%nat -> forall n,
  count_rd (mk_streams c 0 (c_tracks c) false n)
  = if Nat.eqb (n_rend (mk_streams c 0 (c_tracks c) false n)) 0 then O else 1%nat.
Proof.
  intros Hd n. unfold n_rend. rewrite rend_streams_count.
  destruct (hasDefaultAudio c) eqn:Hh.
  - rewrite (defaults_marked c _ Hh).
    rewrite count_rend_default_suffix, count_rend_suffix by reflexivity.
    unfold hasDefaultAudio in Hh. apply negb_true_iff, Nat.eqb_neq in Hh.
    pose proof (default_audio_le_audio (c_tracks c)) as Hle.
    destruct (RA c); [|reflexivity].
    assert (count_default_audio (c_tracks c) = 1%nat) as -> by lia.
    destruct (Nat.eqb_spec (count_audio (c_tracks c)) 0); [lia|reflexivity].
  - rewrite (defaults_first c _ Hh). reflexivity.
Qed.

Theorem one_default_at_start c m :
  start c = Ok m -> c_variant c <> MPEGTS ->
  count_rd (m_streams m) = if Nat.eqb (n_rend (m_streams m)) 0 then O else 1%nat.
Proof.
  unfold start. intros H Hv. destruct (start_ok (norm_cfg c)) eqn:Hok; cbn [negb] in H; [|discriminate].
  injection H as <-. cbn [m_streams].
  pose proof (start_ok_default _ Hok) as Hd.
  replace (c_variant (norm_cfg c)) with (c_variant c) by reflexivity.
  destruct (c_variant c); [congruence| |]; apply (one_default_mk (norm_cfg c)); exact Hd.
Qed.

(* MPEG-TS muxers have one stream, which is no rendition *)
Lemma ts_no_rendition c m :
  start c = Ok m -> c_variant c = MPEGTS -> count_rd (m_streams m) = O /\ n_rend (m_streams m) = O.
Proof.
  unfold start. intros H Hv. destruct (start_ok (norm_cfg c)); cbn [negb] in H; [|discriminate].
  injection H as <-. cbn [m_streams]. replace (c_variant (norm_cfg c)) with (c_variant c) by reflexivity.
  rewrite Hv. split; reflexivity.
Qed.

(* ---- along a history ---- *)
Lemma Forall2_R_counts l l' : Forall2 R l l' -> count_rd l' = count_rd l /\ n_rend l' = n_rend l.
Proof.
  unfold n_rend. induction 1 as [|x y l1 l2 Hxy HF [IH1 IH2]]; [split; reflexivity|].
  destruct (r_static _ _ Hxy) as (_ & _ & _ & _ & Hr & Hd & _).
  cbn [count_rd filter]. unfold rd. rewrite Hr, Hd, IH1.
  split; [reflexivity|]. destruct (st_rendition x); cbn [length]; now rewrite IH2.
Qed.

Theorem one_default_always c m ops :
  start c = Ok m ->
  let m' := mux_run m ops in
  count_rd (m_streams m') = if Nat.eqb (n_rend (m_streams m')) 0 then O else 1%nat.
Proof.
  intros Hs m'. destruct (Forall2_R_counts _ _ (history_monotone m ops)) as [E1 E2].
  subst m'. rewrite E1, E2.
  destruct (c_variant c) eqn:Hv.
  - destruct (ts_no_rendition c m Hs Hv) as [-> ->]. reflexivity.
  - apply (one_default_at_start c m Hs). congruence.
  - apply (one_default_at_start c m Hs). congruence.
Qed.

(* and in the playlist served: exactly one EXT-X-MEDIA entry is DEFAULT when any is listed *)
Fixpoint count_default_r (l : list mvrend) : nat :=
  match l with [] => O | r :: l' => ((if r_default r then 1 else 0) + count_default_r l')%nat end.

Lemma count_default_r_streams l :
  count_default_r (map (fun s => {| r_isvideo := st_isvideo s; r_num := st_num s; r_name := st_name s;
                                    r_lang := st_lang s; r_default := st_default s;
                                    r_hasuri := negb (st_leading s) |}) (filter st_rendition l))
  = count_rd l.
Proof.
  induction l as [|s l IH]; [reflexivity|]. cbn [filter count_rd]. unfold rd.
  destruct (st_rendition s); cbn [map count_default_r r_default andb]; now rewrite IH.
Qed.

Theorem one_default_in_playlist c m ops mv :
  start c = Ok m -> gen_multivariant (mux_run m ops) = Ok (Some mv) ->
  count_default_r (mv_renditions mv) = if Nat.eqb (length (mv_renditions mv)) 0 then O else 1%nat.
Proof.
  intros Hs Hg. destruct (gen_multivariant_shape _ _ Hg) as (Hr & _).
  rewrite Hr, count_default_r_streams, map_length.
  exact (one_default_always c m ops Hs).
Qed.
