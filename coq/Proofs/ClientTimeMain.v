(* C10: client-level composition, the property statements in "for every delivered unit" form,
   witnesses, and the byte-range deviation. *)
From Coq Require Import List ZArith Bool Lia.
From GoHls Require Import Model.ClientTime Proofs.ClientTimeArith Proofs.ClientTimeDecode
                          Proofs.ClientTimeFMP4 Proofs.ClientTimeMPEGTS.
Import ListNotations.
Local Open Scope Z_scope.

(* ---------- track positions of deliveries ---------- *)
Definition pos_lt (n : nat) (l : list (nat * delivery)) : Prop := Forall (fun x => (fst x < n)%nat) l.

Lemma processPartTrack_pos : forall init conv nf pt out,
  processPartTrack init conv nf pt = Ok out -> pos_lt (length init) out.
Proof.
  intros init conv nf pt out H. unfold processPartTrack in H.
  destruct (lookupProc init (pt_id pt)) as [[j rate]|] eqn:L.
  - bind_inv H. bind_inv H. bind_inv H. bind_inv H. injection H as <-.
    apply lookupProc_spec in L. destruct L as (t & Hn & _).
    assert (j < length init)%nat by (apply nth_error_Some; congruence).
    unfold pos_lt. apply Forall_forall. intros x Hx. apply in_map_iff in Hx.
    destruct Hx as (d & <- & _). exact H.
  - injection H as <-. constructor.
Qed.

Lemma processPartTracks_pos : forall init conv nf pts out,
  processPartTracks init conv nf pts = Ok out -> pos_lt (length init) out.
Proof.
  intros init conv nf pts. induction pts as [|pt r IH]; intros out H.
  - cbn in H. injection H as <-. constructor.
  - cbn [processPartTracks] in H. bind_inv H. bind_inv H. injection H as <-.
    unfold pos_lt. apply Forall_app. split.
    + eapply processPartTrack_pos; eauto.
    + apply IH. assumption.
Qed.

Lemma runLeadingSegs_pos : forall init lid segs conv0 cur out c h,
  runLeadingSegs init lid conv0 cur segs = Ok (out, c, h) -> pos_lt (length init) out.
Proof.
  intros init lid segs. induction segs as [|seg r IH]; intros conv0 cur out c h H.
  - cbn in H. injection H as <- <- <-. constructor.
  - cbn [runLeadingSegs] in H. bind_inv H. destruct a as [conv n]. bind_inv H. bind_inv H.
    destruct a0 as [[b c2] h2]. injection H as <- <- <-.
    unfold pos_lt. apply Forall_app. split.
    + unfold processParts in Ha0. eapply processPartTracks_pos; eauto.
    + eapply IH; eauto.
Qed.

Lemma runRenditionSegs_pos : forall init lid conv hist segs out,
  runRenditionSegs init lid conv hist segs = Ok out -> pos_lt (length init) out.
Proof.
  intros init lid conv hist segs. induction segs as [|seg r IH]; intros out H.
  - cbn in H. injection H as <-. constructor.
  - cbn [runRenditionSegs] in H.
    destruct (findFirstPartTrackOfLeadingTrack (sg_parts seg) lid); [|discriminate].
    bind_inv H. bind_inv H. injection H as <-.
    unfold pos_lt. apply Forall_app. split.
    + unfold processParts in Ha. eapply processPartTracks_pos; eauto.
    + apply IH. assumption.
Qed.

Lemma runRenditionFMP4_pos : forall conv hist st out,
  runRenditionFMP4 conv hist st = Ok out -> pos_lt 1 out.
Proof.
  intros conv hist st out H. unfold runRenditionFMP4 in H. bind_inv H.
  unfold streamPrologue in Ha. cbn [negb andb] in Ha.
  destruct (Nat.eqb (length (st_init st)) 1) eqn:E; [|discriminate]. apply Nat.eqb_eq in E.
  destruct (st_segments st); [injection H as <-; constructor|].
  destruct conv as [c|]; [|discriminate].
  apply runRenditionSegs_pos in H. rewrite E in H. exact H.
Qed.

Lemma proj_out_of_range : forall n l j, pos_lt n l -> (n <= j)%nat -> proj j l = [].
Proof.
  intros n l j H Hj. unfold proj. induction H as [|x r Hx _ IH]; [reflexivity|].
  cbn [filter]. destruct (Nat.eqb (fst x) j) eqn:E; [apply Nat.eqb_eq in E; lia|]. exact IH.
Qed.

Lemma proj_shift : forall off a j,
  pos_lt 1 a -> proj j (shiftTrack off a) = if Nat.eqb j off then proj 0 a else [].
Proof.
  intros off a j H. unfold proj, shiftTrack. induction H as [|x r Hx _ IH].
  - destruct (Nat.eqb j off); reflexivity.
  - cbn [map filter fst snd]. assert (fst x = 0%nat) by lia. rewrite H. cbn [Nat.add Nat.eqb].
    rewrite (Nat.eqb_sym off j). destruct (Nat.eqb j off) eqn:E; cbn [map snd]; rewrite IH; reflexivity.
Qed.

Lemma runRenditionsFMP4_proj : forall conv hist rs off b,
  runRenditionsFMP4 conv hist off rs = Ok b ->
  (forall j, (j < off)%nat -> proj j b = []) /\
  (forall k st, nth_error rs k = Some st ->
     exists bk, runRenditionFMP4 conv hist st = Ok bk /\ proj (off + k) b = proj 0 bk).
Proof.
  intros conv hist rs. induction rs as [|st r IH]; intros off b H.
  - cbn in H. injection H as <-. split; [reflexivity|]. intros k st H. destruct k; discriminate.
  - cbn [runRenditionsFMP4] in H. bind_inv H. bind_inv H. injection H as <-.
    pose proof (runRenditionFMP4_pos _ _ _ _ Ha) as P.
    destruct (IH _ _ Ha0) as [I1 I2]. split.
    + intros j Hj. rewrite proj_app, proj_shift by assumption.
      destruct (Nat.eqb j off) eqn:E; [apply Nat.eqb_eq in E; lia|]. apply I1. lia.
    + intros k st' Hk. destruct k as [|k].
      * cbn in Hk. injection Hk as <-. exists a. split; [assumption|].
        rewrite Nat.add_0_r, proj_app, proj_shift by assumption. rewrite Nat.eqb_refl.
        rewrite I1 by lia. apply app_nil_r.
      * cbn in Hk. destruct (I2 k st' Hk) as (bk & Hb & Hp). exists bk. split; [assumption|].
        rewrite proj_app, proj_shift by assumption.
        destruct (Nat.eqb (off + S k) off) eqn:E; [apply Nat.eqb_eq in E; lia|].
        replace (off + S k)%nat with (S off + k)%nat by lia. exact Hp.
Qed.

(* the client = its leading stream on the first tracks, one rendition per further track *)
Lemma runClientFMP4_decompose : forall leading rends out,
  runClientFMP4 leading rends = Ok out ->
  exists a conv hist,
    runLeadingFMP4 leading = Ok (a, conv, hist) /\
    (forall j, (j < length (st_init leading))%nat -> proj j out = proj j a) /\
    (forall k st, nth_error rends k = Some st ->
       exists bk, runRenditionFMP4 conv hist st = Ok bk /\
                  proj (length (st_init leading) + k) out = proj 0 bk).
Proof.
  intros leading rends out H. unfold runClientFMP4 in H. bind_inv H.
  destruct a as [[a conv] hist]. bind_inv H. injection H as <-.
  exists a, conv, hist. split; [assumption|].
  destruct (runRenditionsFMP4_proj _ _ _ _ _ Ha0) as [I1 I2].
  assert (P : pos_lt (length (st_init leading)) a).
  { unfold runLeadingFMP4 in Ha. bind_inv Ha. eapply runLeadingSegs_pos; eauto. }
  split.
  - intros j Hj. rewrite proj_app, I1 by assumption. apply app_nil_r.
  - intros k st Hk. destruct (I2 k st Hk) as (bk & Hb & Hp). exists bk. split; [assumption|].
    rewrite proj_app, (proj_out_of_range _ _ _ P) by lia. exact Hp.
Qed.

(* ---------- c10_fmp4_time in "for every delivered unit" form ---------- *)
Lemma partTrack_units_in : forall init j pt u,
  In u (partTrack_units init j pt) ->
  exists rate i s, lookupProc init (pt_id pt) = Some (j, rate) /\
    nth_error (pt_samples pt) i = Some s /\
    u = (pt_baseTime pt + sumDur (firstn i (pt_samples pt)), s).
Proof.
  intros init j pt u H. unfold partTrack_units in H.
  destruct (lookupProc init (pt_id pt)) as [[j' rate]|]; [|contradiction].
  destruct (Nat.eqb j' j) eqn:E; [|contradiction]. apply Nat.eqb_eq in E. subst j'.
  apply In_nth_error in H. destruct H as [i Hi]. destruct u as [x s].
  apply annotate_nth in Hi. destruct Hi as [-> Hs]. exists rate, i, s. auto.
Qed.

Lemma stream_units_in : forall init j segs u,
  In u (stream_units init j segs) ->
  exists seg p pt rate i s,
    In seg segs /\ In p (sg_parts seg) /\ In pt p /\
    lookupProc init (pt_id pt) = Some (j, rate) /\
    nth_error (pt_samples pt) i = Some s /\
    u = (pt_baseTime pt + sumDur (firstn i (pt_samples pt)), s).
Proof.
  intros init j segs u H. unfold stream_units in H. apply in_flat_map in H.
  destruct H as (seg & Hseg & H). unfold segment_units in H. apply in_flat_map in H.
  destruct H as (pt & Hpt & H). apply in_concat in Hpt. destruct Hpt as (p & Hp & Hptp).
  apply partTrack_units_in in H. destruct H as (rate & i & s & H1 & H2 & H3).
  exists seg, p, pt, rate, i, s. auto 10.
Qed.

Lemma delivered_unit_form : forall conv rate units d ds,
  map dkey ds = filter keepk (map (norm conv rate) units) -> In d ds ->
  exists u, In u units /\
    dl_dts d = fst u - leadingBaseTime conv * rate / leadingTimeScale conv /\
    dl_pts d = dl_dts d + s_ptsOffset (snd u) /\ dl_data d = s_payload (snd u) /\ 0 <= dl_pts d.
Proof.
  intros conv rate units d ds E Hin.
  assert (K : In (dkey d) (map dkey ds)) by (apply in_map; assumption).
  rewrite E in K. apply filter_In in K. destruct K as [K Hk].
  apply in_map_iff in K. destruct K as (u & Hu & Hin2). exists u. split; [assumption|].
  unfold norm, dkey in Hu. injection Hu as H1 H2 H3.
  unfold keepk, dkey in Hk. cbn [fst] in Hk. apply Z.leb_le in Hk.
  repeat split; try lia; congruence.
Qed.

Lemma fmp4_time_leading : forall st out conv h j t d,
  wf_init (st_init st) -> wf_segs (st_segments st) ->
  runLeadingFMP4 st = Ok (out, Some conv, h) ->
  nth_error (st_init st) j = Some t -> In d (proj j out) ->
  exists seg p pt i s,
    In seg (st_segments st) /\ In p (sg_parts seg) /\ In pt p /\
    lookupProc (st_init st) (pt_id pt) = Some (j, it_timeScale t) /\
    nth_error (pt_samples pt) i = Some s /\
    dl_dts d = pt_baseTime pt + sumDur (firstn i (pt_samples pt))
               - leadingBaseTime conv * it_timeScale t / leadingTimeScale conv /\
    dl_pts d = dl_dts d + s_ptsOffset s /\ dl_data d = s_payload s /\ 0 <= dl_pts d.
Proof.
  intros st out conv h j t d W Ws H Hj Hd.
  pose proof (fmp4_leading_delivers st out (Some conv) h conv j t W Ws H eq_refl Hj) as E.
  destruct (delivered_unit_form _ _ _ _ _ E Hd) as (u & Hu & D1 & D2 & D3 & D4).
  apply stream_units_in in Hu. destruct Hu as (seg & p & pt & rate & i & s & A1 & A2 & A3 & A4 & A5 & ->).
  cbn [fst snd] in *. exists seg, p, pt, i, s.
  assert (rate = it_timeScale t) by (eapply lookupProc_rate_at; eauto). subst rate.
  repeat split; auto.
Qed.

Lemma fmp4_time_rendition : forall conv hist st out t d,
  wf_init (st_init st) -> wf_conv conv -> Forall ntp_ok hist ->
  runRenditionFMP4 (Some conv) hist st = Ok out ->
  nth_error (st_init st) 0 = Some t -> In d (proj 0 out) ->
  exists seg p pt i s,
    In seg (st_segments st) /\ In p (sg_parts seg) /\ In pt p /\
    nth_error (pt_samples pt) i = Some s /\
    dl_dts d = pt_baseTime pt + sumDur (firstn i (pt_samples pt))
               - leadingBaseTime conv * it_timeScale t / leadingTimeScale conv /\
    dl_pts d = dl_dts d + s_ptsOffset s /\ dl_data d = s_payload s /\ 0 <= dl_pts d.
Proof.
  intros conv hist st out t d W Wc Hh H Ht Hd.
  pose proof (fmp4_rendition_delivers conv hist st out t W Wc Hh H Ht) as E.
  destruct (delivered_unit_form _ _ _ _ _ E Hd) as (u & Hu & D1 & D2 & D3 & D4).
  apply stream_units_in in Hu. destruct Hu as (seg & p & pt & rate & i & s & A1 & A2 & A3 & A4 & A5 & ->).
  cbn [fst snd] in *. exists seg, p, pt, i, s. repeat split; auto.
Qed.

(* ---------- non-negativity, and what happens to dts ---------- *)
Lemma handleData_nonneg : forall rate el pts dts ntp data d,
  handleData rate el pts dts ntp data = Ok (Some d) -> 0 <= dl_pts d /\ dl_pts d = pts /\ dl_dts d = dts.
Proof.
  intros rate el pts dts ntp data d H. apply handleData_ok in H.
  destruct (pts <? 0) eqn:C; [discriminate|]. apply Z.ltb_ge in C. injection H as H. subst d. cbn. lia.
Qed.

(* dts is non-negative too when the pts offset is not positive, and on the leading track *)
Lemma dts_nonneg_offset : forall dts off, 0 <= dts + off -> off <= 0 -> 0 <= dts.
Proof. intros. lia. Qed.

Lemma dts_nonneg_leading : forall B rl c, rl <> 0 -> B <= c ->
  exists d, fmp4_convert {| leadingTimeScale := rl; leadingBaseTime := B |} c rl = Ok d /\ 0 <= d.
Proof. intros B rl c Hr Hc. exists (c - B). rewrite fmp4_convert_leading by assumption. split; [reflexivity|lia]. Qed.

(* a unit of another track whose decode time precedes the origin while its presentation
   time does not IS delivered, with a negative dts *)
Definition neg_dts_stream : stream :=
  {| st_init := [ {| it_id := 1; it_timeScale := 90000; it_isVideo := true |};
                  {| it_id := 2; it_timeScale := 48000; it_isVideo := false |} ];
     st_segments := [ {| sg_dateTime := None; sg_parts := [[
        {| pt_id := 1; pt_baseTime := 90000;
           pt_samples := [ {| s_duration := 3000; s_ptsOffset := 0; s_payload := 1; s_elapsed := 0 |} ];
           pt_anchor := 0 |};
        {| pt_id := 2; pt_baseTime := 47000;
           pt_samples := [ {| s_duration := 1024; s_ptsOffset := 2000; s_payload := 2; s_elapsed := 0 |} ];
           pt_anchor := 0 |} ]] |} ] |}.

Lemma negative_dts_delivered :
  exists out d, runClientFMP4 neg_dts_stream [] = Ok out /\ In d (proj 1 out) /\
                dl_dts d < 0 /\ 0 <= dl_pts d.
Proof.
  eexists. eexists. split; [vm_compute; reflexivity|]. split; [left; reflexivity|].
  cbn. split; lia.
Qed.

(* ---------- fMP4 AbsoluteTime ---------- *)
Fixpoint segNtps (init : list initTrack) (lid : Z) (conv : convFMP4) (cur : ntpFMP4)
         (segs : list segment) : list ntpFMP4 :=
  match segs with
  | [] => []
  | seg :: r => let n := spec_segNtp init lid conv cur seg in n :: segNtps init lid conv n r
  end.

Lemma spec_leadingSegs_hist : forall init lid conv segs cur,
  snd (spec_leadingSegs init lid conv cur segs) = segNtps init lid conv cur segs.
Proof.
  intros init lid conv segs. induction segs as [|seg r IH]; intros cur; [reflexivity|].
  cbn [spec_leadingSegs segNtps]. specialize (IH (spec_segNtp init lid conv cur seg)).
  destruct (spec_leadingSegs init lid conv (spec_segNtp init lid conv cur seg) r). cbn [snd] in *.
  f_equal. exact IH.
Qed.

Lemma spec_leadingSegs_in : forall init lid conv segs cur x,
  In x (fst (spec_leadingSegs init lid conv cur segs)) ->
  exists k seg n, nth_error segs k = Some seg /\
    nth_error (segNtps init lid conv cur segs) k = Some n /\
    In x (spec_parts init conv (fun _ => n) (sg_parts seg)).
Proof.
  intros init lid conv segs. induction segs as [|seg r IH]; intros cur x H; [contradiction|].
  cbn [spec_leadingSegs] in H.
  destruct (spec_leadingSegs init lid conv (spec_segNtp init lid conv cur seg) r) as [b h] eqn:E.
  cbn [fst] in H. apply in_app_or in H. destruct H as [H|H].
  - exists 0%nat, seg, (spec_segNtp init lid conv cur seg). cbn. auto.
  - specialize (IH (spec_segNtp init lid conv cur seg) x). rewrite E in IH. cbn [fst] in IH.
    destruct (IH H) as (k & seg' & n & A & B & C). exists (S k), seg', n. cbn. auto.
Qed.

Lemma segNtps_nth : forall init lid conv segs cur k seg n,
  nth_error segs k = Some seg -> nth_error (segNtps init lid conv cur segs) k = Some n ->
  exists prev, n = spec_segNtp init lid conv prev seg.
Proof.
  intros init lid conv segs. induction segs as [|s r IH]; intros cur k seg n A B.
  - destruct k; discriminate.
  - destruct k as [|k]; cbn in A, B.
    + injection A as <-. injection B as <-. eauto.
    + eapply IH; eauto.
Qed.

(* c10_abs_time (fMP4, leading stream) *)
Lemma fmp4_abs_time : forall st out conv h j d,
  wf_init (st_init st) -> wf_segs (st_segments st) ->
  runLeadingFMP4 st = Ok (out, Some conv, h) -> In (j, d) out ->
  exists lid k seg n pt rate,
    fmp4PickLeadingTrack (st_init st) = Ok lid /\
    nth_error (st_segments st) k = Some seg /\ nth_error h k = Some n /\
    In pt (concat (sg_parts seg)) /\ lookupProc (st_init st) (pt_id pt) = Some (j, rate) /\
    (let pd := pt_baseTime pt - leadingBaseTime conv * rate / leadingTimeScale conv in
     dl_ntp d = match spec_getNTP n pd rate with
                | None => None
                | Some v => Some (v + Z.quot ((dl_dts d - pd) * second) rate)
                end) /\
    (* the anchor of a dated segment: its date at the segment's first leading part track *)
    (forall dt lpt jj R,
       sg_dateTime seg = Some dt ->
       findFirstPartTrackOfLeadingTrack (sg_parts seg) lid = Some lpt ->
       lookupProc (st_init st) (pt_id lpt) = Some (jj, R) ->
       n = fmp4_setNTP dt (pt_baseTime lpt - leadingBaseTime conv * R / leadingTimeScale conv) R).
Proof.
  intros st out conv h j d W Ws H Hin.
  apply runLeadingFMP4_spec in H; auto. destruct H as (lid & Hl & _ & _ & Hs & _).
  assert (Eo : out = fst (spec_leadingSegs (st_init st) lid conv ntpFMP4_zero (st_segments st)))
    by (rewrite <- Hs; reflexivity).
  assert (Eh : h = segNtps (st_init st) lid conv ntpFMP4_zero (st_segments st))
    by (rewrite <- spec_leadingSegs_hist, <- Hs; reflexivity).
  rewrite Eo in Hin. apply spec_leadingSegs_in in Hin.
  destruct Hin as (k & seg & n & A & B & C).
  unfold spec_parts in C. apply in_flat_map in C. destruct C as (pt & Hpt & C).
  apply spec_partTrack_ntp in C. destruct C as (rate & L & N).
  exists lid, k, seg, n, pt, rate. rewrite Eh. repeat split; auto.
  intros dt lpt jj R Hd Hf Hr.
  destruct (segNtps_nth _ _ _ _ _ _ _ _ A B) as [prev ->].
  unfold spec_segNtp. rewrite Hd, Hf, Hr. reflexivity.
Qed.

(* ---------- MPEG-TS: for every delivered unit ---------- *)
Lemma mpegts_time : forall isL st s0 s' out t0g lastg j d,
  (isL = true \/ exists td, m_td s0 = Some td /\ td_inv t0g lastg td) ->
  runStreamMPEGTS isL s0 (wrap_stream st) = Ok (s', out) ->
  let tracks := mst_tracks st in
  let p := processed st in
  let t0 := if isL then origin_of tracks p else t0g in
  let last0 := if isL then origin_of tracks p else lastg in
  pes_gaps tracks last0 p ->
  In d (proj j out) ->
  exists e, In e p /\ pe_track e = j /\
    dl_pts d = pe_rawPTS e - t0 /\ dl_dts d = tdts tracks e - t0 /\
    dl_data d = pe_payload e /\ 0 <= dl_pts d.
Proof.
  intros isL st s0 s' out t0g lastg j d Hc H tracks p t0 last0 G Hd.
  pose proof (mpegts_stream_delivers isL st s0 s' out t0g lastg j Hc H G) as E.
  assert (K : In (dkey d) (map dkey (proj j out))) by (apply in_map; assumption).
  rewrite E in K. apply filter_In in K. destruct K as [K Hk].
  apply in_map_iff in K. destruct K as (e & He & Hin).
  unfold track_units in Hin. apply filter_In in Hin. destruct Hin as [Hin Ht].
  exists e. split; [exact Hin|].
  destruct (nth_error (mst_tracks st) (pe_track e)); [|discriminate]. apply Nat.eqb_eq in Ht.
  unfold mnorm, dkey in He. injection He as H1 H2 H3.
  unfold keepk, dkey in Hk. cbn [fst] in Hk. apply Z.leb_le in Hk.
  repeat split; auto; lia.
Qed.

(* ---------- EXT-X-BYTERANGE without offset (RFC 8216 4.3.2.2) ---------- *)
Record segRef := { sr_uri : Z; sr_start : option Z; sr_length : option Z }.

Inductive brange := Whole | Bytes (first last : Z) | Undefined.

(* the sub-range each segment of a playlist designates according to the RFC: an omitted
   offset continues after the previous segment's sub-range of the same resource *)
Fixpoint rfcRanges (prev : option (Z * Z)) (l : list segRef) : list brange :=
  match l with
  | [] => []
  | r :: t =>
      match sr_length r with
      | None => Whole :: rfcRanges None t
      | Some len =>
          match sr_start r with
          | Some s => Bytes s (s + len - 1) :: rfcRanges (Some (sr_uri r, s + len)) t
          | None =>
              match prev with
              | Some (u, next) =>
                  if u =? sr_uri r
                  then Bytes next (next + len - 1) :: rfcRanges (Some (u, next + len)) t
                  else Undefined :: rfcRanges None t
              | None => Undefined :: rfcRanges None t
              end
          end
      end
  end.

(* what the client requests *)
Definition codeRanges (l : list segRef) : list brange :=
  map (fun r => match downloadRange (sr_start r) (sr_length r) with
                | None => Whole
                | Some (a, b) => Bytes a b
                end) l.

Definition byterange_witness : list segRef :=
  [ {| sr_uri := 1; sr_start := Some 0; sr_length := Some 100 |};
    {| sr_uri := 1; sr_start := None; sr_length := Some 50 |} ].

Lemma byterange_refuted :
  exists l, ~ In Undefined (rfcRanges None l) /\ codeRanges l <> rfcRanges None l.
Proof.
  exists byterange_witness. split.
  - vm_compute. intros [H|[H|[]]]; discriminate.
  - vm_compute. discriminate.
Qed.

Lemma byterange_partial : forall l prev,
  Forall (fun r => sr_length r <> None -> sr_start r <> None) l ->
  codeRanges l = rfcRanges prev l.
Proof.
  induction l as [|r t IH]; intros prev H; [reflexivity|].
  inversion H as [|? ? Hr Ht]; subst. cbn [codeRanges map rfcRanges]. unfold downloadRange.
  destruct (sr_length r) as [len|].
  - destruct (sr_start r) as [s|]; [|exfalso; apply Hr; congruence].
    f_equal. apply IH. assumption.
  - f_equal. apply IH. assumption.
Qed.
