(* C15, strict grammar, tag level: the strict recogniser accepts every tag line Marshal prints
   for a value satisfying wf and the strict side conditions. *)
From Coq Require Import List ZArith Bool String Ascii Lia.
From GoHls Require Import Model.PlaylistBase Model.Playlist Model.PlaylistSpec Model.PlaylistStrict
  Model.PlaylistStrictSpec Proofs.PlaylistStr Proofs.PlaylistNum Proofs.PlaylistAttrs Proofs.PlaylistTags
  Proofs.PlaylistTagsMulti Proofs.PlaylistStrictLex.
Import ListNotations.
Local Open Scope string_scope.
Local Open Scope Z_scope.

Local Arguments fmt_int : simpl never.
Local Arguments is_float : simpl never.
Local Arguments is_sfloat : simpl never.
Local Arguments is_dec_int : simpl never.
Local Arguments is_hex : simpl never.
Local Arguments is_resolution : simpl never.
Local Arguments is_datetime : simpl never.
Local Arguments is_byterange : simpl never.
Local Arguments unq_ok : simpl never.
Local Arguments no_crlf : simpl never.

Definition spec_of (name : string) : tagspec :=
  match tag_spec name with Some s => s | None => mk_tag CBasic VNone false false [] [] end.

Ltac norm_spec :=
  repeat match goal with
  | |- context [spec_of ?n] => let s := eval vm_compute in (spec_of n) in change (spec_of n) with s
  end.

(* an accepted tag line *)
Lemma tag_step_ok st name v :
  tag_spec name = Some (spec_of name) -> String.eqb name "EXTM3U" = false ->
  t_once (spec_of name) && mem_str name (s_seen st) = false ->
  t_perseg (spec_of name) && mem_str name (s_pending st) = false ->
  value_ok name (spec_of name) v = (true, false) ->
  tag_step st name v = Some (tag_update st name (spec_of name) false).
Proof.
  intros Hs Hn Ho Hp Hv. unfold tag_step. rewrite Hs, Hn, Ho, Hp, Hv. reflexivity.
Qed.

Lemma value_ok_attrs name spec l :
  t_value spec = VAttrList -> l <> [] -> forallb sitem_ok l = true ->
  attrs_ok name spec (map to_sattr l) = (true, false) ->
  value_ok name spec (Some (render_attrs l)) = (true, false).
Proof.
  intros Hv Hl Hok Ha. unfold value_ok. rewrite Hv, (parse_attr_list_render l Hl Hok), Ha. reflexivity.
Qed.

(* an accepted attribute list is one line *)
Lemma attrs_value_no_crlf name spec v b :
  t_value spec = VAttrList -> value_ok name spec (Some v) = (true, b) -> no_crlf v = true.
Proof.
  intros Hv H. unfold value_ok in H. rewrite Hv in H.
  destruct (parse_attr_list v) eqn:E; [|discriminate]. eapply parse_attr_list_no_crlf; eauto.
Qed.

Lemma quoted_sitem s : quoted_ok s = true -> no_byte DQ s && no_crlf s = true.
Proof. unfold quoted_ok. intros H. apply andb_true_iff in H as [A B]. now rewrite A, B. Qed.

Ltac quoted_rw :=
  repeat match goal with
  | H : quoted_ok ?s = true |- context [no_byte DQ ?s && no_crlf ?s] => rewrite (quoted_sitem s H)
  end.

Section WithOracles.
Variable orc : oracles.
Hypothesis LEX : oracle_lex_ok orc.

Lemma dur_unq d : unq_ok (fmt_dur orc d) = true.
Proof. apply sfloat_unq. apply (lex_dur orc LEX d). Qed.

Lemma dur_float d : 0 <= d -> is_float (fmt_dur orc d) = true.
Proof. intros H. now apply (lex_dur orc LEX d). Qed.

Lemma dur_sfloat d : is_sfloat (fmt_dur orc d) = true.
Proof. apply (lex_dur orc LEX d). Qed.

Lemma int_unq z : 0 <= z < 2 ^ 64 -> unq_ok (fmt_int z) = true.
Proof. intros H. apply dec_int_unq, fmt_int_dec_int, H. Qed.

Lemma int31_64 z : int31 z = true -> 0 <= z < 2 ^ 64.
Proof. intros H. apply int31_range in H. split; [lia|]. eapply Z.lt_trans; [apply H|reflexivity]. Qed.

Lemma dur_pos_nonneg d : dur_pos d = true -> 0 <= d.
Proof. unfold dur_pos. intros H. apply andb_true_iff in H as [H _]. apply Z.ltb_lt in H. lia. Qed.

(* ---------- scalar tags ---------- *)
Lemma int_value_ok name z : t_value (spec_of name) = VInt -> 0 <= z < 2 ^ 64 ->
  value_ok name (spec_of name) (Some (fmt_int z)) = (true, false).
Proof. intros Hv Hz. unfold value_ok. rewrite Hv, fmt_int_dec_int by exact Hz. reflexivity. Qed.

Lemma datetime_value_ok t : time_ok t = true ->
  value_ok "EXT-X-PROGRAM-DATE-TIME" (spec_of "EXT-X-PROGRAM-DATE-TIME") (Some (fmt_time orc t)) = (true, false).
Proof. intros H. norm_spec. unfold value_ok. cbn [t_value mk_tag]. now rewrite (lex_time orc LEX t H). Qed.

Lemma byterange_value_ok l s : byterange_ok (Some l) s = true ->
  value_ok "EXT-X-BYTERANGE" (spec_of "EXT-X-BYTERANGE") (Some (byterange_marshal l s)) = (true, false).
Proof.
  intros H. destruct (byterange_ok_some _ _ H) as [Hl Hs]. norm_spec. unfold value_ok. cbn [t_value mk_tag].
  now rewrite byterange_is.
Qed.

Lemma extinf_value_ok d title : dur_pos d = true ->
  value_ok "EXTINF" (spec_of "EXTINF") (Some (fmt_dur orc d ++ "," ++ title)) = (true, false).
Proof.
  intros H. norm_spec. unfold value_ok. cbn [t_value mk_tag]. unfold is_extinf_value.
  pose proof (dur_float d (dur_pos_nonneg d H)) as Hf.
  destruct (float_chars _ Hf) as [Hc _].
  change ("," ++ title) with (String "," title).
  rewrite index_byte_app_sep.
  - now rewrite take_app_exact, Hf.
  - rewrite no_byte_has_char. rewrite (chars_in_has_char "0123456789." _ _ Hc); [reflexivity|].
    intros c Hm. apply (mem_char_false_neq "0123456789." c "," eq_refl Hm).
Qed.

(* ---------- attribute-list tags ---------- *)
Lemma start_value_ok t :
  value_ok "EXT-X-START" (spec_of "EXT-X-START") (Some (render_attrs (start_attrs orc t))) = (true, false).
Proof.
  norm_spec. apply value_ok_attrs; [reflexivity|discriminate| |].
  - unfold start_attrs. cbn [forallb]. unfold sitem_ok. cbn [fst snd]. rewrite dur_unq. reflexivity.
  - unfold start_attrs, attrs_ok. cbn - [is_sfloat]. rewrite dur_sfloat. reflexivity.
Qed.

Lemma part_inf_value_ok t : dur_pos (pi_parttarget t) = true ->
  value_ok "EXT-X-PART-INF" (spec_of "EXT-X-PART-INF") (Some (render_attrs (part_inf_attrs orc t))) = (true, false).
Proof.
  intros H. norm_spec. apply value_ok_attrs; [reflexivity|discriminate| |].
  - unfold part_inf_attrs. cbn [forallb]. unfold sitem_ok. cbn [fst snd]. rewrite dur_unq. reflexivity.
  - unfold part_inf_attrs, attrs_ok. cbn - [is_float]. rewrite dur_float by (now apply dur_pos_nonneg). reflexivity.
Qed.

Lemma skip_value_ok t : int31 (sk_skipped t) = true ->
  value_ok "EXT-X-SKIP" (spec_of "EXT-X-SKIP") (Some (render_attrs (skip_attrs t))) = (true, false).
Proof.
  intros H. apply int31_64 in H. norm_spec. apply value_ok_attrs; [reflexivity|discriminate| |].
  - unfold skip_attrs. cbn [forallb]. unfold sitem_ok. cbn [fst snd]. rewrite int_unq by exact H. reflexivity.
  - unfold skip_attrs, attrs_ok. cbn - [is_dec_int]. rewrite fmt_int_dec_int by exact H. reflexivity.
Qed.

Lemma map_value_ok t : wf_map t = true -> map_brlen t = None ->
  value_ok "EXT-X-MAP" (spec_of "EXT-X-MAP") (Some (render_attrs (map_attrs t))) = (true, false).
Proof.
  unfold wf_map. intros H Hb. split_and H. unfold map_attrs. rewrite Hb. cbn [app].
  norm_spec. apply value_ok_attrs; [reflexivity|discriminate| |].
  - cbn [forallb]. unfold sitem_ok. cbn [fst snd]. quoted_rw. reflexivity.
  - reflexivity.
Qed.

Lemma server_control_value_ok t : wf_server_control t = true -> strict_server_control t = true ->
  value_ok "EXT-X-SERVER-CONTROL" (spec_of "EXT-X-SERVER-CONTROL") (Some (render_attrs (sc_attrs orc t))) = (true, false).
Proof.
  unfold wf_server_control, strict_server_control. intros H Hs. split_and H. split_and Hs.
  unfold sc_attrs, opt_list. norm_spec.
  destruct (sc_canblockreload t), (sc_partholdback t) as [d1|], (sc_canskipuntil t) as [d2|];
    try discriminate; cbn [opt_ok app] in *;
    (apply value_ok_attrs; [reflexivity|discriminate| |]);
    try (cbn [forallb]; unfold sitem_ok; cbn [fst snd]; rewrite ?dur_unq; reflexivity);
    unfold attrs_ok; cbn - [is_float];
    repeat match goal with
    | Hd : (0 <=? ?d) = true |- context [is_float (fmt_dur orc ?d)] =>
        rewrite (dur_float d) by (apply Z.leb_le; exact Hd)
    end; reflexivity.
Qed.

Lemma part_value_ok p : wf_part p = true -> strict_part p = true ->
  value_ok "EXT-X-PART" (spec_of "EXT-X-PART") (Some (render_attrs (part_attrs orc p))) = (true, false).
Proof.
  unfold wf_part, strict_part. intros H Hs. split_and H.
  assert (Hd : 0 <= pt_duration p) by (apply dur_pos_nonneg; assumption).
  assert (Hq : quoted_ok (pt_uri p) = true) by assumption.
  unfold part_attrs, opt_list. destruct (pt_brlen p); [discriminate|]. norm_spec.
  destruct (pt_independent p), (pt_gap p); cbn [app];
    (apply value_ok_attrs; [reflexivity|discriminate| |]);
    try (cbn [forallb]; unfold sitem_ok; cbn [fst snd]; rewrite ?dur_unq; quoted_rw; reflexivity);
    unfold attrs_ok; cbn - [is_float]; rewrite (dur_float _ Hd); reflexivity.
Qed.

Lemma hint_value_ok t : wf_hint t = true ->
  value_ok "EXT-X-PRELOAD-HINT" (spec_of "EXT-X-PRELOAD-HINT") (Some (render_attrs (hint_attrs t))) = (true, false).
Proof.
  unfold wf_hint. intros H. split_and H.
  assert (Hq : quoted_ok (ph_uri t) = true) by assumption.
  assert (Hs : 0 <= ph_brstart t < 2 ^ 64) by (apply uint64_range; assumption).
  unfold hint_attrs, opt_list. norm_spec.
  destruct (negb (ph_brstart t =? 0)), (ph_brlen t) as [l|] eqn:El; cbn [app opt_ok] in *;
    try (assert (Hl : 0 <= l < 2 ^ 64) by (apply uint64_range; assumption));
    (apply value_ok_attrs; [reflexivity|discriminate| |]);
    try (cbn [forallb]; unfold sitem_ok; cbn [fst snd]; rewrite ?int_unq by assumption; quoted_rw; reflexivity);
    unfold attrs_ok; cbn - [is_dec_int]; rewrite ?fmt_int_dec_int by assumption; reflexivity.
Qed.

Lemma key_value_ok k : wf_key k = true -> strict_key k = true ->
  value_ok "EXT-X-KEY" (spec_of "EXT-X-KEY") (Some (render_attrs (PlaylistTags.key_attrs k))) = (true, false).
Proof.
  unfold wf_key, strict_key, PlaylistTags.key_attrs, opt_list. intros H Hs. norm_spec.
  destruct (String.eqb (k_method k) "NONE") eqn:En.
  - apply value_ok_attrs; reflexivity || discriminate.
  - split_and H.
    assert (Hm : k_method k = "AES-128" \/ k_method k = "SAMPLE-AES") by
      (match goal with Hx : (_ || _) = true |- _ => apply orb_true_iff in Hx as [Hx|Hx]; apply String.eqb_eq in Hx; auto end).
    assert (Hu : quoted_ok (k_uri k) = true) by assumption.
    assert (Hkf : quoted_ok (k_keyformat k) = true) by assumption.
    assert (Hkv : quoted_ok (k_keyformatversions k) = true) by assumption.
    destruct (String.eqb (k_iv k) "") eqn:Ei; cbn [orb] in Hs;
    destruct Hm as [Hm|Hm]; rewrite Hm;
    destruct (String.eqb (k_keyformat k) ""), (String.eqb (k_keyformatversions k) ""); cbn [negb app];
      (apply value_ok_attrs; [reflexivity|discriminate| |]);
      try (cbn [forallb]; unfold sitem_ok; cbn [fst snd]; rewrite ?(hex_unq _ Hs); quoted_rw; reflexivity);
      unfold attrs_ok; cbn - [is_hex]; rewrite ?Hs; reflexivity.
Qed.

Lemma rendition_value_ok r : wf_rendition r = true ->
  value_ok "EXT-X-MEDIA" (spec_of "EXT-X-MEDIA") (Some (render_attrs (rendition_attrs r))) = (true, false).
Proof.
  unfold wf_rendition. intros H. split_and H. norm_spec.
  unfold rendition_attrs, opt_list, opt_q, nonempty in *.
  destruct r as [ty gid name lang au de fo ch uri isid];
    cbn [r_type r_groupid r_name r_language r_autoselect r_default r_forced r_channels r_uri r_instreamid] in *.
  assert (Hgq : quoted_ok gid = true) by assumption.
  assert (Hnq : quoted_ok name = true) by assumption.
  assert (Hlq : quoted_ok lang = true) by assumption.
  assert (Hn : String.eqb name "" = false) by
    (match goal with Hx : negb (String.eqb name "") = true |- _ => apply negb_true_iff in Hx; exact Hx end).
  assert (Hty : ty = "AUDIO" \/ ty = "VIDEO" \/ ty = "SUBTITLES" \/ ty = "CLOSED-CAPTIONS").
  { repeat match goal with
    | Hx : (_ || _) = true |- _ => apply orb_true_iff in Hx as [Hx|Hx]
    end;
    match goal with Hx : String.eqb ty _ = true |- _ => apply String.eqb_eq in Hx; auto end. }
  rewrite Hn. cbn [negb].
  destruct Hty as [-> | [-> | [-> | ->]]];
    destruct ch as [ch|], uri as [uri|], isid as [isid|];
    try (match goal with Hx : _ = true |- _ => cbn in Hx; discriminate Hx end);
    cbn [opt_ok] in *;
    destruct (String.eqb lang ""), au, de, fo; cbn [negb app];
    (apply value_ok_attrs; [reflexivity|discriminate| |reflexivity]);
    cbn [forallb]; unfold sitem_ok; cbn [fst snd]; quoted_rw; reflexivity.
Qed.

Lemma rate_unq f : 0 <= f -> unq_ok (fmt_rate orc f) = true.
Proof. intros H. apply float_unq, (lex_rate orc LEX f H). Qed.

Lemma variant_value_ok v : wf_variant v = true -> strict_variant v = true ->
  value_ok "EXT-X-STREAM-INF" (spec_of "EXT-X-STREAM-INF") (Some (render_attrs (variant_attrs orc v))) = (true, false).
Proof.
  unfold wf_variant, strict_variant. intros H Hs. split_and H. split_and Hs. norm_spec.
  assert (Hbw : 0 <= v_bandwidth v < 2 ^ 64) by (apply int31_64; assumption).
  assert (Hcod : quoted_ok (join "," (v_codecs v)) = true) by (apply join_quoted_ok; assumption).
  assert (Hvq : quoted_ok (v_video v) = true) by assumption.
  assert (Haq : quoted_ok (v_audio v) = true) by assumption.
  assert (Hsq : quoted_ok (v_subtitles v) = true) by assumption.
  assert (Hcq : quoted_ok (v_closedcaptions v) = true) by assumption.
  unfold variant_attrs, opt_list.
  destruct (v_avgbandwidth v) as [ab|], (v_framerate v) as [f|]; cbn [opt_ok] in *;
    try (assert (Hab : 0 <= ab < 2 ^ 64) by (apply int31_64; assumption));
    try (assert (Hf0 : 0 <= f) by
           (match goal with Hx : rate_ok f = true |- _ => unfold rate_ok in Hx; split_and Hx end;
            match goal with Hx : (0 <=? f) = true |- _ => apply Z.leb_le in Hx; exact Hx end));
    destruct (String.eqb (v_resolution v) "") eqn:Er; cbn [orb] in *;
    destruct (String.eqb (v_video v) ""), (String.eqb (v_audio v) ""), (String.eqb (v_subtitles v) ""),
      (String.eqb (v_closedcaptions v) ""); cbn [negb app];
    (apply value_ok_attrs; [reflexivity|discriminate| |]);
    try (cbn [forallb]; unfold sitem_ok; cbn [fst snd];
         rewrite ?int_unq by assumption; rewrite ?rate_unq by assumption;
         rewrite ?(resolution_unq (v_resolution v)) by assumption; quoted_rw; reflexivity);
    unfold attrs_ok; cbn - [is_dec_int is_float is_resolution];
    rewrite ?fmt_int_dec_int by assumption; rewrite ?(lex_rate orc LEX) by assumption;
    repeat match goal with Hx : is_resolution _ = true |- _ => rewrite Hx end; reflexivity.
Qed.

End WithOracles.
