(* C02, MPEG-TS variant: every segment begins with a random-access unit of a leading track.
   The GROUPED log of the (single) MPEG-TS stream lists the units handed to the segment writer segment by
   segment: one group per evicted or listed segment, in order, and - when the stream is open - a last
   group for the open segment.  A segment rotation (and the creation of the first segment) appends one
   empty group; the segment writer appends its unit to the last group.  A whole write that returns nil
   either leaves the groups alone, or appends its unit to the last group, or opens a new group WITH its
   unit - and the last happens only for a random-access unit of a leading track (the cut condition
   demands random access; before the stream has started the first-random-access gate does). *)
From Coq Require Import List ZArith Bool Lia Arith.
From GoHls Require Import Model.Mux Proofs.MuxStream Proofs.MuxLift Proofs.MuxWindow Proofs.MuxHistory
  Proofs.MuxTimes Proofs.MuxMulti Proofs.MuxCut Proofs.MuxLog Proofs.MuxLogStep Proofs.MuxLogTS Proofs.MuxRAHist.
Import ListNotations.
Local Open Scope Z_scope.

Definition tsg_s (s : stream) : list (list tsunit) :=
  map sg_units (published s) ++ match st_open s with Some g => [sg_units g] | None => [] end.

Definition tsg (m : mstate) : list (list tsunit) :=
  match m_streams m with s :: _ => tsg_s s | [] => [] end.

Lemma tsg_st_with s x :
  x_segments x = st_segments s -> x_evicted x = st_evicted s ->
  option_map sg_units (x_open x) = option_map sg_units (st_open s) ->
  tsg_s (st_with s x) = tsg_s s.
Proof.
  intros E1 E2 E3. unfold tsg_s, published. cbn [st_with st_evicted st_segments st_open].
  rewrite E1, E2. f_equal.
  destruct (x_open x), (st_open s); simpl in E3; try discriminate; [|reflexivity]. now injection E3 as ->.
Qed.

Lemma tsg_srot sc s seg0 d ntp f cur :
  st_open s = Some seg0 ->
  tsg_s (fst (fst (srot_segments MPEGTS sc s seg0 d ntp f cur))) = tsg_s s ++ [[]].
Proof.
  intros Ho. pose proof (published_srot_segments MPEGTS sc s seg0 d ntp f cur) as HP. cbv zeta in HP.
  destruct (srot_segments_frame MPEGTS sc s seg0 d ntp f cur) as (_ & _ & _ & _ & _ & F6 & _).
  unfold tsg_s. rewrite HP, F6, Ho. cbn [new_seg sg_units].
  unfold published, with_gaps. rewrite !map_app. cbn [map sg_with_end sg_units]. rewrite <- !app_assoc. reflexivity.
Qed.

(* one MPEG-TS stream, and it is the leading one *)
Definition TSL (m : mstate) : Prop := TSI m /\ exists s, m_streams m = [s] /\ st_leading s = true.

Lemma TSL_of m m' : TSL m -> TSI m' -> map st_leading (m_streams m') = map st_leading (m_streams m) -> TSL m'.
Proof.
  intros [_ (s & Hs & Hl)] HT E. split; [exact HT|]. destruct (tsi_one _ HT) as [s' Hs'].
  exists s'. split; [exact Hs'|]. rewrite Hs, Hs' in E. cbn in E. injection E as ->. exact Hl.
Qed.

Lemma tsg_rots0 m d ntp f :
  TSL m ->
  let m1 := stream_rotateSegments m 0 d ntp f in
  TSL m1 /\ m_tracks m1 = m_tracks m
  /\ tsg m1 = (if ts_opened m then tsg m ++ [[]] else tsg m) /\ ts_opened m1 = ts_opened m.
Proof.
  intros HL. cbv zeta. pose proof HL as [HT (s0 & T2 & Hl0)]. pose proof HT as [T1 _ T3].
  destruct (ts_rots m 0%nat d ntp f HT) as [HT1 _].
  assert (HL1 : TSL (stream_rotateSegments m 0 d ntp f)) by (apply (TSL_of m); auto; apply flags_rots).
  split; [exact HL1|].
  pose proof (rots_spec m 0%nat d ntp f) as [HS HTr]. cbv zeta in HS, HTr. rewrite T1 in HS, HTr.
  split; [exact HTr|].
  destruct HS as [E|(s & seg0 & cur & Es & Eo & E)].
  - (* streams unchanged: then the stream was not open *)
    assert (Hno : st_open s0 = None).
    { destruct (st_open s0) as [g|] eqn:Eo; [|reflexivity]. exfalso.
      destruct (rots_own m 0%nat d ntp f s0) as (s1 & Hs1 & Hn1 & _); [rewrite T2; reflexivity|congruence|].
      rewrite E, T2 in Hs1. cbn in Hs1. injection Hs1 as <-. lia. }
    unfold tsg, ts_opened. rewrite E, T2, Hno. split; reflexivity.
  - rewrite T2 in Es. cbn [nth_error] in Es. injection Es as <-.
    unfold tsg, ts_opened. rewrite E, T2. cbn [upd]. rewrite Eo.
    split; [now apply tsg_srot|].
    destruct (srot_segments_frame MPEGTS (c_segcount (m_cfg m)) s0 seg0 d ntp f cur) as (_ & _ & _ & _ & _ & F6 & _).
    now rewrite F6.
Qed.

Lemma tsg_rotateSegments m d ntp f :
  TSL m ->
  let m1 := rotateSegments m d ntp f in
  TSL m1 /\ m_tracks m1 = m_tracks m
  /\ tsg m1 = (if ts_opened m then tsg m ++ [[]] else tsg m) /\ ts_opened m1 = ts_opened m.
Proof.
  intros HL. pose proof HL as [HT (s0 & T2 & Hl0)].
  assert (Hli : leading_index m = 0%nat) by (unfold leading_index; rewrite T2, Hl0; reflexivity).
  cbv zeta. unfold rotateSegments. rewrite Hli.
  destruct (tsg_rots0 m d ntp f HL) as (HL1 & A & B & C). cbv zeta in *.
  set (m1 := stream_rotateSegments m 0 d ntp f) in *.
  destruct HL1 as [HT1 (s1 & S1 & Hl1)].
  unfold rotate_others. rewrite S1. cbn [length seq fold_left]. rewrite S1. cbn [nth_error]. rewrite Hl1.
  split; [split; eauto|]. auto.
Qed.

Lemma tsg_create m d ntp :
  TSL m -> ts_opened m = false ->
  let m1 := createFirstSegment m d ntp in
  TSL m1 /\ m_tracks m1 = m_tracks m /\ tsg m1 = tsg m ++ [[]] /\ ts_opened m1 = true.
Proof.
  intros HL Hno. pose proof HL as [HT (s0 & T2 & Hl0)]. cbv zeta.
  assert (Hn : forall s, In s (m_streams m) -> st_open s = None).
  { rewrite T2. intros s [<-|[]]. unfold ts_opened in Hno. rewrite T2 in Hno. destruct (st_open s0); [discriminate|reflexivity]. }
  destruct (ts_create m d ntp HT Hn) as (A & _ & _).
  unfold createFirstSegment in *. cbn [set_stream m_streams m_tracks] in *. rewrite T2 in *. cbn [map] in *.
  split; [|split; [reflexivity|]].
  - split; [exact A|]. eexists. split; [reflexivity|]. unfold stream_createFirst. cbn [st_with st_leading]. exact Hl0.
  - unfold tsg, ts_opened. cbn [set_stream m_streams]. rewrite ?T2. unfold stream_createFirst, tsg_s, published.
    cbn [st_with st_evicted st_segments st_open x_evicted x_segments x_open st_mut new_seg sg_units].
    rewrite (Hn s0) by (now left). rewrite app_nil_r. split; reflexivity.
Qed.

Lemma tsg_write m u size e inc :
  TSL m ->
  let r := ts_write m 0 u size e inc in
  TSL (fst r) /\ m_tracks (fst r) = m_tracks m /\ ts_opened (fst r) = ts_opened m
  /\ (snd r = Ok tt -> forall G g, tsg m = G ++ [g] -> ts_opened m = true -> tsg (fst r) = G ++ [g ++ [u]]).
Proof.
  intros HL. pose proof HL as [HT (s0 & T2 & Hl0)]. cbv zeta.
  destruct (ts_write_log m u size e inc HT) as [A _].
  unfold ts_write in *. rewrite T2 in *. cbn [nth_error] in *.
  destruct (st_open s0) as [seg|] eqn:Eo.
  2:{ cbn [fst snd wok]. split; [exact HL|]. split; [reflexivity|]. split; [reflexivity|].
      intros _ G g _ Ho. unfold ts_opened in Ho. rewrite T2, Eo in Ho. discriminate. }
  destruct (_ <? _).
  { cbn [fst snd]. split; [exact HL|]. split; [reflexivity|]. split; [reflexivity|]. discriminate. }
  cbn [fst snd wok] in *. unfold upd_stream in *. cbn [set_stream m_streams m_tracks] in *. rewrite T2 in *. cbn [upd] in *.
  split; [|split; [reflexivity|split]].
  - split; [exact A|]. eexists. split; [reflexivity|]. cbn [st_with st_leading]. exact Hl0.
  - unfold ts_opened. cbn [m_streams st_with st_open x_open]. now rewrite T2, Eo.
  - intros _ G g Hg _. unfold tsg in *. cbn [m_streams]. rewrite T2 in Hg. unfold tsg_s in *. rewrite Eo in Hg.
    apply app_inj_tail in Hg. destruct Hg as [<- <-].
    unfold published. cbn [st_with st_evicted st_segments st_open x_evicted x_segments x_open st_mut sg_ts_write sg_units].
    reflexivity.
Qed.

(* ---------------------------------------------------------------- the invariant *)
Definition lead_flags (m : mstate) : list bool := map tk_leading (m_tracks m).

Definition ok_group (fl : list bool) (g : list tsunit) : Prop :=
  match g with u :: _ => u_ra u = true /\ nth_error fl (u_track u) = Some true | [] => False end.

Lemma ok_group_app fl g u : ok_group fl g -> ok_group fl (g ++ [u]).
Proof. destruct g; simpl; auto. intros []. Qed.

(* every video track is a leading one *)
Definition VL (m : mstate) : Prop :=
  forall i t, nth_error (m_tracks m) i = Some t -> isVideo (t_kind (tk_cfg t)) = true -> tk_leading t = true.
(* before the stream has started no video track has accepted a unit *)
Definition GATE (m : mstate) : Prop :=
  ts_opened m = false ->
  forall i t, nth_error (m_tracks m) i = Some t -> isVideo (t_kind (tk_cfg t)) = true -> tk_firstRA t = false.
Definition GOK (m : mstate) : Prop := Forall (ok_group (lead_flags m)) (tsg m).

Record TSR (m : mstate) : Prop := { tsr_l : TSL m; tsr_v : VL m; tsr_g : GOK m; tsr_gate : GATE m }.

Definition tk_sig (t : trk) : tcfg * bool * nat * bool := (tk_cfg t, tk_leading t, tk_stream t, tk_firstRA t).

Lemma sig_nth l l' i t' : map tk_sig l' = map tk_sig l -> nth_error l' i = Some t' ->
  exists t, nth_error l i = Some t /\ tk_sig t' = tk_sig t.
Proof.
  intros E H. assert (H2 : nth_error (map tk_sig l') i = Some (tk_sig t')) by (erewrite map_nth_error; eauto).
  rewrite E in H2. apply map_nth_error_inv in H2. destruct H2 as (t & A & B). eauto.
Qed.

Lemma static_nth l l' i t' : map tk_static l' = map tk_static l -> nth_error l' i = Some t' ->
  exists t, nth_error l i = Some t /\ tk_static t' = tk_static t.
Proof.
  intros E H. assert (H2 : nth_error (map tk_static l') i = Some (tk_static t')) by (erewrite map_nth_error; eauto).
  rewrite E in H2. apply map_nth_error_inv in H2. destruct H2 as (t & A & B). eauto.
Qed.

Lemma flags_of_sig l l' : map tk_sig l' = map tk_sig l -> map tk_leading l' = map tk_leading l.
Proof.
  intros H. assert (E : map (fun t => snd (fst (fst (tk_sig t)))) l' = map (fun t => snd (fst (fst (tk_sig t)))) l).
  { rewrite <- !(map_map tk_sig (fun x => snd (fst (fst x)))). now rewrite H. }
  exact E.
Qed.

Lemma static_of_sig l l' : map tk_sig l' = map tk_sig l -> map tk_static l' = map tk_static l.
Proof.
  intros H. assert (E : map (fun t => fst (tk_sig t)) l' = map (fun t => fst (tk_sig t)) l).
  { rewrite <- !(map_map tk_sig fst). now rewrite H. }
  exact E.
Qed.

(* the parameter bookkeeping of the video front end only rewrites a track's parameters and the pending flag *)
Lemma TSR_ext m m' :
  m_cfg m' = m_cfg m -> m_streams m' = m_streams m -> map tk_sig (m_tracks m') = map tk_sig (m_tracks m) ->
  TSR m -> TSR m'.
Proof.
  intros Ec Es Et [[HT (s0 & T2 & Hl0)] HV HG HGa].
  assert (HT' : TSI m').
  { apply (TSI_ext m); auto; [rewrite Es; eauto|now apply static_of_sig]. }
  constructor.
  - split; [exact HT'|]. exists s0. now rewrite Es.
  - intros i t' Ht' Hv. destruct (sig_nth _ _ i t' Et Ht') as (t & A & B). unfold tk_sig in B. injection B as B1 B2 B3 B4.
    rewrite B2. apply (HV i t A). now rewrite <- B1.
  - unfold GOK, lead_flags, tsg in *. rewrite Es. now rewrite (flags_of_sig _ _ Et).
  - intros Ho i t' Ht' Hv. destruct (sig_nth _ _ i t' Et Ht') as (t & A & B). unfold tk_sig in B. injection B as B1 B2 B3 B4.
    rewrite B4. apply (HGa ltac:(unfold ts_opened in *; now rewrite <- Es) i t A). now rewrite <- B1.
Qed.

(* the three ways a write can end *)
Lemma TSR_new_group m m3 m' u :
  TSR m -> TSL m3 -> m_tracks m3 = m_tracks m -> tsg m3 = tsg m ++ [[]] -> ts_opened m3 = true ->
  u_ra u = true -> nth_error (lead_flags m) (u_track u) = Some true ->
  forall size e inc, ts_write m3 0 u size e inc = (m', Ok tt) -> TSR m'.
Proof.
  intros [HL HV HG HGa] HL3 Et3 Eg3 Ho3 Hra Hfl size e inc Hw.
  destruct (tsg_write m3 u size e inc HL3) as (A & B & C & D). cbv zeta in *. rewrite Hw in *. cbn [fst snd] in *.
  specialize (D eq_refl (tsg m) [] Eg3 Ho3). cbn [app] in D.
  constructor.
  - exact A.
  - intros i t Ht. rewrite B, Et3 in Ht. now apply (HV i t).
  - unfold GOK, lead_flags in *. rewrite D, B, Et3. apply Forall_app. split; [exact HG|].
    constructor; [|constructor]. split; assumption.
  - intros Hno. rewrite C, Ho3 in Hno. discriminate.
Qed.

Lemma TSR_same_group m m3 m' u :
  TSR m -> TSL m3 -> m_tracks m3 = m_tracks m -> tsg m3 = tsg m -> ts_opened m3 = true ->
  forall size e inc, ts_write m3 0 u size e inc = (m', Ok tt) -> TSR m'.
Proof.
  intros [HL HV HG HGa] HL3 Et3 Eg3 Ho3 size e inc Hw.
  destruct (tsg_write m3 u size e inc HL3) as (A & B & C & D). cbv zeta in *. rewrite Hw in *. cbn [fst snd] in *.
  (* an open stream has a last group *)
  assert (Hlast : exists G g, tsg m3 = G ++ [g]).
  { destruct HL3 as [_ (s3 & S3 & _)]. unfold tsg, ts_opened in *. rewrite S3 in *. unfold tsg_s.
    destruct (st_open s3); [eauto|discriminate]. }
  destruct Hlast as (G & g & Hlast). specialize (D eq_refl G g Hlast Ho3).
  constructor.
  - exact A.
  - intros i t Ht. rewrite B, Et3 in Ht. now apply (HV i t).
  - unfold GOK, lead_flags in *. rewrite D, B, Et3. rewrite <- Eg3, Hlast in HG.
    apply Forall_app in HG. destruct HG as [H1 H2]. apply Forall_app. split; [exact H1|].
    inversion H2; subst. constructor; [|constructor]. now apply ok_group_app.
  - intros Hno. rewrite C, Ho3 in Hno. discriminate.
Qed.

(* ---------------------------------------------------------------- whole writes *)
Theorem ts_video_groups m ti t a m' :
  TSR m -> nth_error (m_tracks m) ti = Some t -> t_kind (tk_cfg t) = H264 ->
  write_video m ti t a = (m', Ok tt) -> TSR m'.
Proof.
  intros HR Ht Hk. pose proof HR as [HL HV HG HGa]. pose proof HL as [HT (s0 & Hs0 & Hl0)].
  unfold write_video. rewrite Hk. cbv zeta.
  destruct (tsi_tracks m HT ti t Ht) as [Hsi _]. rewrite Hsi.
  assert (Hvid : isVideo (t_kind (tk_cfg t)) = true) by (now rewrite Hk).
  assert (HV1 : let m1 := fst (video_params m ti t a true) in
               m_cfg m1 = m_cfg m /\ m_streams m1 = m_streams m /\ map tk_sig (m_tracks m1) = map tk_sig (m_tracks m)).
  { cbv zeta. unfold video_params.
    assert (Hu : forall p, map tk_sig (upd (m_tracks m) ti (fun t0 => tk_with t0 (tk_firstRA t0) p (tk_next t0) (tk_samples t0) (tk_start t0)))
                           = map tk_sig (m_tracks m)).
    { intros p. apply map_upd_static. intros x. reflexivity. }
    destruct (a_params a) as [p|]; [destruct (true && negb (p =? tk_params t))|];
      match goal with |- context [if ?c then _ else _] => destruct c end; cbn [fst];
      unfold set_pending, upd_track, set_tracks; cbn [m_cfg m_streams m_tracks]; rewrite ?Hu; auto. }
  cbv zeta in HV1. destruct (video_params m ti t a true) as [m1 pc0]. cbn [fst] in HV1. destruct HV1 as (C1 & S1 & G1).
  assert (HR1 : TSR m1) by (apply (TSR_ext m); auto).
  assert (Hskip : forall mr, wok m1 = (mr, Ok tt) -> TSR mr) by (intros mr [= <-]; exact HR1).
  destruct (negb (a_ra a) && negb (a_nonidr a)); [apply Hskip|].
  destruct (negb (tk_firstRA t) && negb (a_ra a)) eqn:Egate; [apply Hskip|].
  rewrite (tsi_variant m HT).
  set (m2 := set_firstRA m1 ti).
  assert (E2 : m_streams m2 = m_streams m /\ m_cfg m2 = m_cfg m /\ map tk_static (m_tracks m2) = map tk_static (m_tracks m)
               /\ lead_flags m2 = lead_flags m).
  { subst m2. unfold set_firstRA, upd_track, set_tracks. cbn [m_cfg m_streams m_tracks]. split; [exact S1|]. split; [exact C1|].
    unfold lead_flags. cbn [m_tracks].
    rewrite (map_upd_static tk_static) by (intros x; reflexivity).
    rewrite (map_upd_static tk_leading) by (intros x; reflexivity).
    split; [now apply static_of_sig|now apply flags_of_sig]. }
  destruct E2 as (S2 & C2 & T2 & F2).
  assert (HL2 : TSL m2).
  { split; [|exists s0; now rewrite S2]. apply (TSI_ext m); auto. rewrite S2. eauto. }
  rewrite S2, Hs0. cbn [nth_error].
  set (d := timestampToDuration (a_dts a) (t_rate (tk_cfg t))).
  fold (ts_video_unit ti t a).
  assert (Hflag : nth_error (lead_flags m) ti = Some true).
  { unfold lead_flags. erewrite map_nth_error by exact Ht. now rewrite (HV ti t Ht Hvid). }
  assert (HGm2 : Forall (ok_group (lead_flags m2)) (tsg m2)).
  { rewrite F2. unfold tsg. rewrite S2. exact HG. }
  assert (HVm2 : VL m2).
  { intros i tx Hx Hv. destruct (static_nth _ _ i tx T2 Hx) as (t0 & A & B). unfold tk_static in B. injection B as B1 B2 B3.
    rewrite B2. apply (HV i t0 A). now rewrite <- B1. }
  assert (Hclose_new : forall m3 u, TSL m3 -> m_tracks m3 = m_tracks m2 -> tsg m3 = tsg m2 ++ [[]] -> ts_opened m3 = true ->
            u_ra u = true -> nth_error (lead_flags m2) (u_track u) = Some true ->
            forall size e inc, ts_write m3 0 u size e inc = (m', Ok tt) -> TSR m').
  { intros m3 u HL3 Et3 Eg3 Ho3 Hra Hfl size e inc Hw.
    destruct (tsg_write m3 u size e inc HL3) as (A & B & C & D). cbv zeta in *. rewrite Hw in *. cbn [fst snd] in *.
    specialize (D eq_refl (tsg m2) [] Eg3 Ho3). cbn [app] in D.
    constructor; [exact A| | |].
    - intros i tx Hx. rewrite B, Et3 in Hx. now apply (HVm2 i tx).
    - unfold GOK, lead_flags in *. rewrite D, B, Et3. apply Forall_app. split; [exact HGm2|].
      constructor; [|constructor]. split; assumption.
    - intros Hno. rewrite C, Ho3 in Hno. discriminate. }
  assert (Hclose_same : forall m3 u, TSL m3 -> m_tracks m3 = m_tracks m2 -> tsg m3 = tsg m2 -> ts_opened m3 = true ->
            forall size e inc, ts_write m3 0 u size e inc = (m', Ok tt) -> TSR m').
  { intros m3 u HL3 Et3 Eg3 Ho3 size e inc Hw.
    destruct (tsg_write m3 u size e inc HL3) as (A & B & C & D). cbv zeta in *. rewrite Hw in *. cbn [fst snd] in *.
    assert (Hlast : exists G g, tsg m3 = G ++ [g]).
    { destruct HL3 as [_ (s3 & S3 & _)]. unfold tsg, ts_opened in *. rewrite S3 in *. unfold tsg_s.
      destruct (st_open s3); [eauto|discriminate]. }
    destruct Hlast as (G & g & Hlast). specialize (D eq_refl G g Hlast Ho3).
    constructor; [exact A| | |].
    - intros i tx Hx. rewrite B, Et3 in Hx. now apply (HVm2 i tx).
    - unfold GOK, lead_flags in *. rewrite D, B, Et3. pose proof HGm2 as HG2. rewrite <- Eg3, Hlast in HG2.
      apply Forall_app in HG2. destruct HG2 as [H1 H2]. apply Forall_app. split; [exact H1|].
      inversion H2; subst. constructor; [|constructor]. now apply ok_group_app.
    - intros Hno. rewrite C, Ho3 in Hno. discriminate. }
  assert (Hfl2 : nth_error (lead_flags m2) (u_track (ts_video_unit ti t a)) = Some true) by (rewrite F2; exact Hflag).
  assert (Eop2 : ts_opened m2 = match st_open s0 with Some _ => true | None => false end)
    by (unfold ts_opened; now rewrite S2, Hs0).
  destruct (st_open s0) as [g|] eqn:Eo; cbn [negb].
  - (* open: cut when due, at a random-access unit *)
    match goal with |- context [if ?c then _ else _] => destruct c eqn:Edue end.
    + destruct (tsg_rotateSegments m2 d (a_ntp a) false HL2) as (A & B & C & D). cbv zeta in *.
      rewrite Eop2 in C, D. apply andb_true_iff in Edue. destruct Edue as [Hra _].
      eapply Hclose_new; eauto.
    + eapply Hclose_same; eauto.
  - (* not open: the gate says this is the first accepted unit, hence random access *)
    assert (Hra : a_ra a = true).
    { assert (Hf : tk_firstRA t = false).
      { apply (HGa ltac:(unfold ts_opened; now rewrite Hs0, Eo) ti t Ht Hvid). }
      rewrite Hf in Egate. cbn [negb andb] in Egate. now destruct (a_ra a). }
    destruct (tsg_create m2 d (a_ntp a) HL2 Eop2) as (A & B & C & D). cbv zeta in *.
    eapply Hclose_new; eauto.
Qed.

Theorem ts_audio_groups m ti t a m' :
  TSR m -> nth_error (m_tracks m) ti = Some t ->
  write_audio m ti t a = (m', Ok tt) -> TSR m'.
Proof.
  intros HR Ht. pose proof HR as [HL HV HG HGa]. pose proof HL as [HT (s0 & Hs0 & Hl0)].
  unfold write_audio. rewrite (tsi_variant m HT).
  destruct (tsi_tracks m HT ti t Ht) as [Hsi _]. rewrite Hsi. rewrite Hs0. cbn [nth_error].
  assert (Eop : ts_opened m = match st_open s0 with Some _ => true | None => false end)
    by (unfold ts_opened; now rewrite Hs0).
  destruct (negb (tk_leading t) && negb (match st_open s0 with Some _ => true | None => false end)) eqn:Eg.
  { intros [= <-]. exact HR. }
  fold (ts_audio_unit ti t a).
  set (d := timestampToDuration (a_pts a) (t_rate (tk_cfg t))).
  destruct (tk_leading t) eqn:El.
  - assert (Hfl : nth_error (lead_flags m) (u_track (ts_audio_unit ti t a)) = Some true).
    { unfold lead_flags. cbn [ts_audio_unit u_track]. erewrite map_nth_error by exact Ht. now rewrite El. }
    destruct (st_open s0) as [seg|] eqn:Eo; cbn [negb].
    + match goal with |- context [if ?c then _ else _] => destruct c end.
      * destruct (tsg_rotateSegments m d (a_ntp a) false HL) as (A & B & C & D). cbv zeta in *. rewrite Eop in C, D.
        intros Hw. eapply (TSR_new_group m); eauto; reflexivity.
      * intros Hw. eapply (TSR_same_group m m); eauto.
    + destruct (tsg_create m d (a_ntp a) HL Eop) as (A & B & C & D). cbv zeta in *.
      intros Hw. eapply (TSR_new_group m); eauto; reflexivity.
  - cbn [negb andb] in Eg. destruct (st_open s0) as [seg|] eqn:Eo; [|discriminate].
    intros Hw. eapply (TSR_same_group m m); eauto.
Qed.

Theorem TSR_mux_step m ti a m' : TSR m -> mux_step m (WWrite ti a) = (m', Ok tt) -> TSR m'.
Proof.
  intros HR. pose proof HR as [[HT _] _ _ _]. unfold mux_step, mux_write.
  destruct (nth_error (m_tracks m) ti) as [t|] eqn:Ht; [|intros [= <-]; exact HR].
  destruct (isVideo (t_kind (tk_cfg t))) eqn:Ev.
  - intros Hw. destruct (tsi_tracks m HT ti t Ht) as [_ Hk]. exact (ts_video_groups m ti t a m' HR Ht (Hk Ev) Hw).
  - intros Hw. exact (ts_audio_groups m ti t a m' HR Ht Hw).
Qed.

Theorem TSR_mux_run ops : forall m, TSR m -> all_ok m ops -> TSR (mux_run m ops).
Proof.
  induction ops as [|[ti a] ops IH]; intros m HR Hok; cbn [mux_run]; [exact HR|].
  destruct Hok as [Hr Hok]. apply IH; [|exact Hok].
  apply (TSR_mux_step m ti a); [exact HR|]. rewrite <- Hr. apply surjective_pairing.
Qed.

Theorem start_TSR c m : start c = Ok m -> c_variant c = MPEGTS -> TSR m.
Proof.
  intros Hs Hv. destruct (start_TSI c m Hs Hv) as [HT _].
  pose proof (start_streams c m Hs) as ES. rewrite Hv in ES.
  assert (ET : m_tracks m = mk_tracks (norm_cfg c) 0 (c_tracks c)).
  { unfold start in Hs. destruct (negb (start_ok (norm_cfg c))); [discriminate|]. now injection Hs as <-. }
  constructor.
  - split; [exact HT|]. eexists. split; [exact ES|reflexivity].
  - intros i t Ht Hvid. rewrite ET in Ht. destruct (mk_tracks_static _ _ _ _ _ Ht) as (t0 & _ & B & C & _).
    rewrite C. unfold track_leading. rewrite <- B, Hvid. reflexivity.
  - unfold GOK, tsg. rewrite ES. cbn. constructor.
  - intros _ i t Ht _. rewrite ET in Ht. destruct (mk_tracks_static _ _ _ _ _ Ht) as (t0 & _ & _ & _ & _ & D & _). exact D.
Qed.

(* MPEG-TS: in every state reachable from Start by successful writes, every segment of the stream - evicted,
   listed or open - is non-empty and begins with a random-access unit of a leading track *)
Theorem ts_segments_start_with_random_access c m0 ops :
  start c = Ok m0 -> c_variant c = MPEGTS -> all_ok m0 ops ->
  let m := mux_run m0 ops in
  Forall (fun g => exists u rest t, g = u :: rest /\ u_ra u = true
                                    /\ nth_error (m_tracks m) (u_track u) = Some t /\ tk_leading t = true) (tsg m).
Proof.
  intros Hs Hv Hok m. destruct (TSR_mux_run ops m0 (start_TSR c m0 Hs Hv) Hok) as [_ _ HG _]. fold m in HG.
  unfold GOK in HG. eapply Forall_impl; [|exact HG].
  intros g Hg. destruct g as [|u rest]; [destruct Hg|]. destruct Hg as [Hra Hfl].
  unfold lead_flags in Hfl. apply map_nth_error_inv in Hfl. destruct Hfl as (t & A & B). exists u, rest, t. auto.
Qed.

(* non-vacuity: an H264 + AAC MPEG-TS muxer; the audio unit and the non-IDR unit written before the first IDR are
   dropped, the second IDR (one second later) cuts, and both segments begin with the IDR of track 0 *)
Definition ts_cfg : cfg :=
  {| c_variant := MPEGTS;
     c_tracks := [ {| t_kind := H264; t_rate := 90000; t_srate := 0; t_name := 0; t_lang := 0; t_default := false; t_params0 := 1 |};
                   {| t_kind := AAC; t_rate := 48000; t_srate := 48000; t_name := 0; t_lang := 0; t_default := false; t_params0 := 2 |} ];
     c_segcount := 3; c_segmin := 1000000000; c_partmin := 200000000; c_segmax := 50000000 |}.
Definition ts_ops : list wop :=
  [WWrite 1 (ex_au 0 true 20); WWrite 0 (ex_au 0 false 10); WWrite 0 (ex_au 45000 true 11); WWrite 1 (ex_au 24000 true 21);
   WWrite 0 (ex_au 90000 false 12); WWrite 0 (ex_au 135000 true 13); WWrite 1 (ex_au 48000 true 22); WWrite 0 (ex_au 180000 false 14)].

Lemma ts_ra_example : exists m0,
  start ts_cfg = Ok m0 /\ c_variant ts_cfg = MPEGTS /\ all_ok m0 ts_ops
  /\ map (map (fun u => (u_track u, u_ra u, u_dts u))) (tsg (mux_run m0 ts_ops))
     = [[(0%nat, true, 45000); (1%nat, true, 45000); (0%nat, false, 90000)];
        [(0%nat, true, 135000); (1%nat, true, 90000); (0%nat, false, 180000)]].
Proof.
  destruct (start ts_cfg) as [m0| |] eqn:E; [|vm_compute in E; discriminate|vm_compute in E; discriminate].
  exists m0. split; [reflexivity|]. split; [reflexivity|].
  vm_compute in E. injection E as <-. split; vm_compute; tauto.
Qed.
