(* Concrete schedules: the lost wake-up of waitUntilSizeIsBelow and the resulting deadlock of the
   runTraditional pipeline (refutations), satisfiability examples for the implication-shaped
   theorems, and the link between the harness' macro steps and [run]. *)
From Coq Require Import List ZArith Bool Lia.
From GoHls Require Import Model.Queue Proofs.QueueInv Proofs.QueueMain.
Import ListNotations.
Local Open Scope Z_scope.

Definition P : label := (TP, BChan).
Definition C : label := (TC, BChan).
Definition X : label := (TX, BChan).
Definition rep {A} (n : nat) (x : A) : list A := repeat x n.

(* runTraditional with the library's waitUntilSizeIsBelow, two / three segments *)
Definition prog2 : list pop := trad_prog false [10; 11].
Definition prog3 : list pop := trad_prog false [10; 11; 12].

(* the downloader runs alone up to the hook point of its second waitUntilSizeIsBelow(1):
   push 10 (5 steps), wait (3 steps: len 1 <= 1), push 11 (3 steps), wait: Lock, len 2 > 1, Unlock *)
Definition to_hook : list label := rep 14 P.

(* THE WINDOW: the processor completes one pull (Lock, dequeue, close, make, Unlock) while the
   downloader sits between Unlock and the evaluation of q.didPull; then the downloader enters
   its select *)
Definition lost_sched : list label := to_hook ++ rep 5 C ++ [P].

Definition lost_state (s : state) : Prop :=
  exists n g0 g,
    p_pc s = WSel false n g0 g            (* the downloader is in its select ... *)
    /\ qlen s <= n                        (* ... although the queue is at/below the bound ... *)
    /\ mutex s = None /\ pull_in_progress s = false   (* ... nobody is in a critical section ... *)
    /\ cancelled s = false
    /\ can_move s TP = false              (* ... and no case of its select can fire *)
    /\ g0 < g.                            (* it waits on a channel installed AFTER its length check *)

Lemma lost_wakeup_witness : lost_state (run (init prog2 1) lost_sched).
Proof.
  unfold lost_state. exists 1, 0, 1. vm_compute. repeat split; try reflexivity; discriminate.
Qed.

(* two pulls inside the window (pull, process, pull, process), the processor then waits for the
   next segment: both sides wait for each other *)
Definition deadlock_sched : list label := to_hook ++ rep 6 C ++ rep 6 C ++ rep 5 C ++ [P].

Definition deadlocked (s : state) : Prop :=
  (exists f n g0 g, p_pc s = WSel f n g0 g /\ qlen s <= n)   (* downloader waits though the queue is below the bound *)
  /\ (exists g, c_pc s = CSel g)                             (* processor waits for a segment *)
  /\ p_prog s <> [] /\ c_pulls s <> O                        (* both have work left *)
  /\ cancelled s = false /\ stat s = SOk
  /\ can_move s TP = false /\ can_move s TC = false.         (* only Close can end this *)

Lemma deadlock_witness : deadlocked (run (init prog3 3) deadlock_sched).
Proof.
  unfold deadlocked. repeat split.
  - exists false, 1, 0, 2. vm_compute. split; [reflexivity|discriminate].
  - exists 1. reflexivity.
  - vm_compute. discriminate.
  - vm_compute. discriminate.
Qed.

(* the same schedules with the fixed waitUntilSizeIsBelow: the downloader proceeds *)
Lemma fixed_not_lost :
  can_move (run (init (trad_prog true [10; 11]) 1) lost_sched) TP = true
  /\ can_move (run (init (trad_prog true [10; 11; 12]) 3) deadlock_sched) TP = true.
Proof. split; vm_compute; reflexivity. Qed.

(* a deadlock state stays a deadlock state until cancel: no label other than cancel is enabled *)
Lemma deadlock_is_stuck : forall s l,
  can_move s TP = false -> can_move s TC = false -> fst l <> TX -> step s l = None.
Proof.
  intros s [t b] HP HC Ht. unfold can_move, enabled in *. cbn in Ht.
  destruct t; [| |congruence].
  - destruct (step s (TP, BChan)) eqn:E1; [discriminate|].
    destruct (step s (TP, BCtx)) eqn:E2; [discriminate|]. destruct b; assumption.
  - destruct (step s (TC, BChan)) eqn:E1; [discriminate|].
    destruct (step s (TC, BCtx)) eqn:E2; [discriminate|]. destruct b; assumption.
Qed.

(* ---------------------------------------------------------------- satisfiability examples *)
(* consumer parked, queue non-empty, no push in progress: reachable (so consumer_wakeup is not vacuous) *)
Example ex_consumer_parked :
  let s := run (init prog2 1) (rep 4 C ++ rep 5 P) in
  c_pc s = CSel 0 /\ queue s <> [] /\ push_in_progress s = false /\ enabled s (TC, BChan) = true.
Proof. vm_compute. repeat split; try reflexivity; discriminate. Qed.

(* producer parked on the channel it saw under the mutex (g = g0) with the backlog drained *)
Example ex_producer_parked :
  let s := run (init prog2 1) (to_hook ++ [P] ++ rep 5 C) in
  p_pc s = WSel false 1 0 0 /\ qlen s <= 1 /\ pull_in_progress s = false
  /\ enabled s (TP, BChan) = true.
Proof. vm_compute. repeat split; try reflexivity; discriminate. Qed.

Example ex_producer_parked_fixed :
  let s := run (init (trad_prog true [10; 11]) 1) lost_sched in
  p_pc s = WSel true 1 0 0 /\ qlen s <= 1 /\ pull_in_progress s = false.
Proof. vm_compute. repeat split; try reflexivity; discriminate. Qed.

(* cancelled while both are parked *)
Example ex_cancel_both_parked :
  let s := run (init prog3 3) (deadlock_sched ++ [X]) in
  cancelled s = true /\ (exists g, c_pc s = CSel g) /\ (exists f n g0 g, p_pc s = WSel f n g0 g)
  /\ enabled s (TC, BCtx) = true /\ enabled s (TP, BCtx) = true.
Proof.
  vm_compute. repeat split; try reflexivity.
  - exists 1. reflexivity.
  - exists false, 1, 0, 2. reflexivity.
Qed.

(* the lost state, then the processor starts its next pull and is about to close(q.didPull) *)
Example ex_recover :
  let s := run (init prog2 2) (lost_sched ++ rep 3 C) in
  p_pc s = WSel false 1 0 1 /\ c_pc s = CClose 11 /\ enabled s (TP, BChan) = false
  /\ exists s', step s (TC, BChan) = Some s' /\ enabled s' (TP, BChan) = true.
Proof.
  vm_compute. repeat split; try reflexivity. eexists. split; reflexivity.
Qed.

(* both sides parked, the downloader on the channel it saw under the mutex: it is enabled *)
Example ex_both_parked_outside_window :
  let s := run (init prog3 3) (to_hook ++ [P] ++ rep 6 C ++ rep 6 C ++ rep 4 C) in
  p_pc s = WSel false 1 0 0 /\ c_pc s = CSel 1 /\ enabled s (TP, BChan) = true.
Proof. vm_compute. repeat split; reflexivity. Qed.

Example ex_trad : trad prog3 /\ trad (trad_prog true [1; 2] ++ [Push 3; Push nilSeg]).
Proof. split; repeat constructor. Qed.

(* the bound is attained: two segments waiting *)
Example ex_bound_tight :
  qlen (run (init prog2 0) (rep 11 P)) = 2.
Proof. vm_compute. reflexivity. Qed.

(* three entries with the sentinel *)
Example ex_bound_tight_sentinel :
  let s := run (init (trad_prog false [1] ++ [Push 2; Push nilSeg]) 0) (rep 14 P) in
  qlen s = 3 /\ segs (queue s) = 2.
Proof. vm_compute. split; reflexivity. Qed.

(* without the wait the backlog is unbounded (runLowLatency pushes without waiting) *)
Example ex_no_wait_unbounded :
  qlen (run (init [Push 1; Push 2; Push 3; Push 4] 0) (rep 14 P)) = 4.
Proof. vm_compute. reflexivity. Qed.

(* ---------------------------------------------------------------- macro steps are schedules *)
Lemma advance_is_run : forall fuel t b s, run s (snd (advance fuel t b s)) = fst (advance fuel t b s).
Proof.
  induction fuel as [|k IH]; intros t b s; cbn; [reflexivity|].
  destruct (parked s t); cbn; [reflexivity|].
  destruct (step s (next_label s t b)) eqn:E; cbn; [|reflexivity].
  specialize (IH t b s0). destruct (advance k t b s0) as [s2 tr]. cbn in *. rewrite E. exact IH.
Qed.

Lemma kick_is_run : forall fuel t b s s2 tr, kick fuel t b s = Some (s2, tr) -> run s tr = s2.
Proof.
  unfold kick. intros fuel t b s s2 tr H.
  destruct (step s (next_label s t b)) eqn:E; [|discriminate].
  pose proof (advance_is_run fuel t b s0) as HA.
  destruct (advance fuel t b s0) as [s3 tr3]. inversion H; subst. cbn. rewrite E. exact HA.
Qed.

Lemma settle1_is_run : forall fuel t s0 st,
  run s0 (snd st) = fst st -> run s0 (snd (settle1 fuel t st)) = fst (settle1 fuel t st).
Proof.
  intros fuel t s0 [s tr] H. cbn in H. unfold settle1.
  destruct (in_select s t && can_move s t); [|exact H].
  destruct (kick fuel t BChan s) as [[s2 tr2]|] eqn:E; [|exact H].
  cbn. rewrite run_app, H. eapply kick_is_run; eauto.
Qed.

Lemma settle_is_run : forall fuel s0 st,
  run s0 (snd st) = fst st -> run s0 (snd (settle fuel st)) = fst (settle fuel st).
Proof. intros. unfold settle. repeat apply settle1_is_run. assumption. Qed.

Lemma macro_is_run : forall s d s' tr, macro s d = Some (s', tr) -> run s tr = s'.
Proof.
  intros s d s' tr H. unfold macro in H. destruct d as [t|t b|].
  - match type of H with (if ?c then _ else _) = _ => destruct c end; [|discriminate].
    destruct (kick adv_fuel t BChan s) as [[s2 tr2]|] eqn:E; [|discriminate].
    pose proof (settle_is_run adv_fuel s (s2, tr2) (kick_is_run _ _ _ _ _ _ E)) as HS.
    inversion H as [H1]. rewrite H1 in HS. exact HS.
  - match type of H with (if ?c then _ else _) = _ => destruct c end; [|discriminate].
    destruct (kick adv_fuel t b s) as [[s2 tr2]|] eqn:E; [|discriminate].
    pose proof (settle_is_run adv_fuel s (s2, tr2) (kick_is_run _ _ _ _ _ _ E)) as HS.
    inversion H as [H1]. rewrite H1 in HS. exact HS.
  - destruct (step s (TX, BChan)) eqn:E; [|discriminate].
    assert (run s (snd (s0, [(TX, BChan)])) = fst (s0, [(TX, BChan)])) as H0 by (cbn; rewrite E; reflexivity).
    pose proof (settle_is_run adv_fuel s _ H0) as HS.
    inversion H as [H1]. rewrite H1 in HS. exact HS.
Qed.

(* every state the harness compares against is the end state of a schedule: the theorems about
   [run] apply to it *)
Lemma macro_run_reachable : forall ds s,
  exists sched, fst (fst (macro_run s ds)) = run s sched.
Proof.
  induction ds as [|d r IH]; intros s; cbn.
  - exists []. reflexivity.
  - destruct (macro s d) as [[s' tr]|] eqn:E.
    + destruct (IH s') as [sch Hs]. destruct (macro_run s' r) as [[s2 obs] ok]. cbn in *.
      exists (tr ++ sch). rewrite run_app. rewrite (macro_is_run _ _ _ _ E). exact Hs.
    + exists []. reflexivity.
Qed.

(* ---------------------------------------------------------------- the repaired downloader never deadlocks *)
(* a program whose every throttle is the repaired waitUntilSizeIsBelow (q.didPull captured under the
   mutex, [WaitBelow true]) - the variant the tie selects when the source captures the channel *)
Definition repaired (prog : list pop) : Prop := forall f n, In (WaitBelow f n) prog -> f = true.

Definition pc_repaired (pc : ppc) : Prop :=
  match pc with
  | WLocked f _ | WUnlockWait f _ _ | WRead f _ _ | WSel f _ _ _ | WRelock f _ => f = true
  | _ => True
  end.

Definition inv_repaired (s : state) : Prop := repaired (p_prog s) /\ pc_repaired (p_pc s).

Lemma repaired_step : forall s l s', inv_repaired s -> step s l = Some s' -> inv_repaired s'.
Proof.
  intros s [t b] s' [HR HP] H.
  destruct s as [q dpu cpu dpl cpl mu ca pp pr cp ck pu de re st].
  unfold step in H; cbn in H. destruct st; try discriminate.
  unfold inv_repaired, repaired in *; cbn in HR, HP. destruct t.
  - unfold step_p, lock, unlock in H; cbn in H. destruct pp; cbn in H.
    all: break_step H.
    all: inversion H; subst; clear H; cbn.
    all: try (split; [exact HR | first [exact HP | exact I]]).
    + split; [intros f n Hin; apply (HR f n); right; exact Hin | exact I].
    + split; [intros f0 n0 Hin; apply (HR f0 n0); right; exact Hin | apply (HR fixed n); left; reflexivity].
  - unfold step_c, lock, unlock in H; cbn in H. destruct cp; cbn in H.
    all: break_step H.
    all: inversion H; subst; clear H; cbn; split; assumption.
  - unfold step_x in H; cbn in H. destruct ca; [discriminate|].
    inversion H; subst; clear H; cbn. split; assumption.
Qed.

Lemma repaired_run : forall sched s, inv_repaired s -> inv_repaired (run s sched).
Proof.
  induction sched as [|l r IH]; intros s HI; cbn; [exact HI|].
  destruct (step s l) eqn:E; [apply IH; eapply repaired_step; eauto | apply IH; exact HI].
Qed.

Lemma repaired_both_parked : forall prog k sched,
  repaired prog ->
  let s := run (init prog k) sched in
  forall f n g0 g gc, p_pc s = WSel f n g0 g -> c_pc s = CSel gc -> 0 <= n ->
  enabled s (TP, BChan) = true \/ enabled s (TC, BChan) = true.
Proof.
  intros prog k sched HR s f n g0 g gc Hp Hc Hn.
  assert (inv_repaired s) as [_ HP] by (apply repaired_run; split; [exact HR | exact I]).
  rewrite Hp in HP. cbn in HP.
  destruct (inv_reach prog k sched) as (_ & _ & _ & _ & HI & _). fold s in HI.
  unfold inv_pcap in HI. rewrite Hp in HI. destruct HI as (_ & _ & _ & Hf & _).
  apply (no_deadlock_partial prog k sched f n g0 g gc Hp Hc (Hf HP) Hn).
Qed.

Lemma repaired_not_deadlocked : forall prog k sched,
  repaired prog -> ~ deadlocked (run (init prog k) sched).
Proof.
  intros prog k sched HR ((f & n & g0 & g & Hp & Hq) & (gc & Hc) & _ & _ & _ & _ & HmP & HmC).
  assert (0 <= n) as Hn by (unfold qlen in Hq; lia).
  unfold can_move in HmP, HmC.
  destruct (repaired_both_parked prog k sched HR f n g0 g gc Hp Hc Hn) as [E | E];
    [rewrite E in HmP | rewrite E in HmC]; discriminate.
Qed.

Lemma no_deadlock_fixed : forall prog k sched,
  repaired prog ->
  let s := run (init prog k) sched in
  ~ deadlocked s
  /\ (forall f n g0 g gc, p_pc s = WSel f n g0 g -> c_pc s = CSel gc -> 0 <= n ->
        enabled s (TP, BChan) = true \/ enabled s (TC, BChan) = true).
Proof.
  intros prog k sched HR s. split.
  - apply repaired_not_deadlocked; exact HR.
  - apply repaired_both_parked; exact HR.
Qed.

(* the schedule that deadlocks the unrepaired pipeline, run on the repaired one: both sides are parked,
   the backlog is drained, and the downloader's select can fire *)
Example ex_repaired_both_parked :
  let prog := trad_prog true [10; 11; 12] in
  let s := run (init prog 3) deadlock_sched in
  repaired prog /\ (exists g0 g, p_pc s = WSel true 1 g0 g) /\ (exists gc, c_pc s = CSel gc)
  /\ qlen s <= 1 /\ p_prog s <> [] /\ c_pulls s <> O /\ cancelled s = false
  /\ enabled s (TP, BChan) = true.
Proof.
  cbv zeta. split.
  - intros f n Hin. cbn in Hin.
    repeat (destruct Hin as [Hin | Hin]; [inversion Hin; reflexivity || discriminate Hin|]).
    contradiction.
  - vm_compute. repeat split; try discriminate.
    + exists 0, 0. reflexivity.
    + exists 1. reflexivity.
Qed.
