(* C01, fMP4 variants: what one write does to the logs (continues MuxLog.v).
   fmp4_log_step: a call of muxerSegmenter.fmp4WriteSample that returns nil appends to the log of the
   written track's stream exactly the look-ahead unit (the previously written one), with its duration
   set to the distance of the two decode times and every other field untouched - or nothing, when there
   is no look-ahead unit yet, when the unit lies before -10 s, or when a non-leading track is still
   waiting for the stream to start - and leaves every other stream's log alone; the written unit
   becomes the look-ahead unit.  log_monotone lifts this to every write and every history: a log only
   ever grows at its tail. *)
From Coq Require Import List ZArith Bool Lia Arith.
From GoHls Require Import Model.Mux Proofs.MuxStream Proofs.MuxLift Proofs.MuxWindow Proofs.MuxHistory
  Proofs.MuxTimes Proofs.MuxMulti Proofs.MuxLog.
Import ListNotations.
Local Open Scope Z_scope.

(* ---- the composite rotations keep LI and every log ---- *)
Definition SameLogs (m0 m : mstate) : Prop := LI m /\ forall j, slog m j = slog m0 j.

Lemma SameLogs_refl m : LI m -> SameLogs m m.
Proof. split; auto. Qed.

Lemma SameLogs_rotp m0 m si d cn : SameLogs m0 m -> cn = true -> SameLogs m0 (stream_rotateParts m si d cn).
Proof.
  intros [HL HS] ->. split; [now apply LI_rotp|]. intros j. rewrite slog_rotp; [apply HS|]. exact (li_streams m HL).
Qed.

Lemma SameLogs_rots m0 m si d ntp f : SameLogs m0 m -> SameLogs m0 (stream_rotateSegments m si d ntp f).
Proof.
  intros [HL HS]. split; [now apply LI_rots|]. intros j. rewrite slog_rots; [apply HS|]. exact (li_streams m HL).
Qed.

Lemma SameLogs_copy m0 m i l both : SameLogs m0 m -> SameLogs m0 (upd_stream m i (copy_targets both l)).
Proof. intros [HL HS]. split; [now apply LI_copy|]. intros j. rewrite slog_copy. apply HS. Qed.

Lemma SameLogs_rotateSegments m d ntp f : LI m -> SameLogs m (rotateSegments m d ntp f).
Proof.
  intros HL. apply (T_rotateSegments (SameLogs m)); auto using SameLogs_refl, SameLogs_rots, SameLogs_copy.
Qed.

Lemma SameLogs_rotateParts m d : LI m -> SameLogs m (rotateParts m d).
Proof.
  intros HL. apply (T_rotateParts (SameLogs m)); auto using SameLogs_refl, SameLogs_copy.
  intros m' si d' H. now apply SameLogs_rotp.
Qed.

Lemma SameLogs_ext m0 m m' :
  m_cfg m' = m_cfg m -> m_streams m' = m_streams m -> map tk_frame (m_tracks m') = map tk_frame (m_tracks m) ->
  SameLogs m0 m -> SameLogs m0 m'.
Proof.
  intros Ec Es Et [HL HS]. split.
  - apply (LI_ext m); auto. now apply tk_stream_of_frame.
  - intros j. rewrite <- HS. apply slog_ext; auto.
    assert (E : map (fun t => snd (fst (tk_frame t))) (m_tracks m') = map (fun t => snd (fst (tk_frame t))) (m_tracks m)).
    { rewrite <- !(map_map tk_frame (fun x => snd (fst x))). now rewrite Et. }
    exact E.
Qed.

(* ---- the look-ahead sample of a track survives every rotation ---- *)
Definition tk_nexts (m : mstate) : list (option sample) := map tk_next (m_tracks m).

Lemma nexts_rotp m si d cn : tk_nexts (stream_rotateParts m si d cn) = tk_nexts m.
Proof.
  unfold tk_nexts. destruct (rotp_spec m si d cn) as [[_ E2]|(s & seg & p0 & _ & _ & _ & _ & E2)]; cbv zeta in E2; rewrite E2; auto.
  unfold part_finalize. destruct (st_tracks s) as [|ti rest]; auto. destruct (nth_error (m_tracks m) ti) as [t|]; auto.
  destruct (tk_samples t); auto. cbn [snd]. apply map_upd_static. intros x. reflexivity.
Qed.

Lemma nexts_rots m si d ntp f : tk_nexts (stream_rotateSegments m si d ntp f) = tk_nexts m.
Proof.
  unfold tk_nexts. destruct (rots_spec m si d ntp f) as [_ HT]. cbv zeta in HT. rewrite HT.
  destruct (c_variant (m_cfg m)); auto; apply nexts_rotp.
Qed.

Lemma nexts_rotateSegments m d ntp f : tk_nexts (rotateSegments m d ntp f) = tk_nexts m.
Proof.
  apply (T_rotateSegments (fun m' => tk_nexts m' = tk_nexts m)); auto.
  - intros m' si d' ntp' f' H. now rewrite nexts_rots.
Qed.

Lemma nexts_rotateParts m d : tk_nexts (rotateParts m d) = tk_nexts m.
Proof.
  apply (T_rotateParts (fun m' => tk_nexts m' = tk_nexts m)); auto.
  - intros m' si d' H. now rewrite nexts_rotp.
Qed.

Lemma nexts_pws m ti si smp m' : part_writeSample m ti si smp = Ok m' -> tk_nexts m' = tk_nexts m.
Proof.
  unfold part_writeSample.
  destruct (nth_error (m_streams m) si) as [s|]; [|now intros [= <-]].
  destruct (nth_error (m_tracks m) ti) as [t|]; [|now intros [= <-]].
  destruct (st_open s); [|now intros [= <-]]. destruct (st_openpart s); [|now intros [= <-]].
  destruct (_ <? _); [discriminate|]. intros [= <-].
  unfold tk_nexts, upd_stream, upd_track. cbn [set_stream set_tracks m_tracks].
  apply map_upd_static. intros x. reflexivity.
Qed.

Lemma adjust_frame m sd :
  m_cfg (fmp4AdjustPartDuration m sd) = m_cfg m /\ m_streams (fmp4AdjustPartDuration m sd) = m_streams m
  /\ m_tracks (fmp4AdjustPartDuration m sd) = m_tracks m.
Proof.
  unfold fmp4AdjustPartDuration. destruct (c_variant (m_cfg m)); auto.
  destruct (m_freeze m); auto. destruct (sd =? 0); auto. destruct (existsb _ _); auto.
Qed.

(* ---- the exact effect of one fmp4WriteSample ---- *)
(* opened_at is defined in MuxLift.v *)
Definition shifted (t : trk) (smp0 : sample) : Z :=
  s_dts smp0 + durationToTimestamp fmp4StartDTS (t_rate (tk_cfg t)).

Definition incoming_of (t : trk) (smp0 : sample) : sample :=
  {| s_dts := shifted t smp0; s_ptsoff := s_ptsoff smp0; s_dur := 0; s_nonsync := s_nonsync smp0;
     s_ntp := s_ntp smp0; s_pay := s_pay smp0; s_size := s_size smp0 |}.

(* the look-ahead unit as it is emitted: only its duration is filled in *)
Definition emit_of (prev : sample) (dts : Z) : sample :=
  {| s_dts := s_dts prev; s_ptsoff := s_ptsoff prev; s_dur := u32 (dts - s_dts prev);
     s_nonsync := s_nonsync prev; s_ntp := s_ntp prev; s_pay := s_pay prev; s_size := s_size prev |}.

Definition emitted_by (m : mstate) (ti : nat) (t : trk) (smp0 : sample) : list sample :=
  if shifted t smp0 <? 0 then []
  else match tk_next t with
       | None => []
       | Some prev => if negb (tk_leading t) && negb (opened_at m ti) then [] else [emit_of prev (shifted t smp0)]
       end.

Lemma all_closed m ti t s :
  LI m -> nth_error (m_tracks m) ti = Some t -> nth_error (m_streams m) ti = Some s -> st_open s = None ->
  forall s', In s' (m_streams m) -> st_open s' = None.
Proof.
  intros HL Ht Hs Ho. destruct (li_sync m HL) as [H|H]; [exact H|].
  exfalso. apply (H s); [eapply nth_error_In; eauto|exact Ho].
Qed.

Lemma stream_exists m ti t : LI m -> nth_error (m_tracks m) ti = Some t -> exists s, nth_error (m_streams m) ti = Some s.
Proof.
  intros HL Ht. destruct (nth_error (m_streams m) ti) as [s|] eqn:E; [eauto|].
  apply nth_error_None in E. rewrite (li_len m HL) in E.
  assert (ti < length (m_tracks m))%nat by (apply nth_error_Some; congruence). lia.
Qed.

Ltac five := split; [|split; [|split; [|split]]].

Theorem fmp4_log_step m ti t ra pc smp0 m' :
  LI m -> nth_error (m_tracks m) ti = Some t ->
  fmp4WriteSample m ti ra pc smp0 = (m', Ok tt) ->
  LI m'
  /\ (forall j, j <> ti -> slog m' j = slog m j)
  /\ slog m' ti = slog m ti ++ emitted_by m ti t smp0
  /\ (0 <= shifted t smp0 -> nth_error (tk_nexts m') ti = Some (Some (incoming_of t smp0)))
  /\ (shifted t smp0 < 0 -> m' = m).
Proof.
  intros HL Ht. unfold fmp4WriteSample, emitted_by. rewrite Ht. cbv zeta.
  fold (shifted t smp0). pose proof (li_tracks m HL ti t Ht) as Hsi. rewrite Hsi.
  destruct (shifted t smp0 <? 0) eqn:E0.
  { apply Z.ltb_lt in E0. intros [= <-]. five; auto; try (now rewrite app_nil_r); lia. }
  apply Z.ltb_ge in E0.
  fold (incoming_of t smp0).
  set (m1 := upd_track m ti (fun t0 => tk_with t0 (tk_firstRA t0) (tk_params t0) (Some (incoming_of t smp0))
                                               (tk_samples t0) (tk_start t0))).
  assert (S1 : SameLogs m m1).
  { apply (SameLogs_ext m m); auto using SameLogs_refl. subst m1. unfold upd_track. cbn [set_tracks m_tracks].
    apply map_upd_static. intros x. reflexivity. }
  assert (N1 : nth_error (tk_nexts m1) ti = Some (Some (incoming_of t smp0))).
  { subst m1. unfold tk_nexts, upd_track. cbn [set_tracks m_tracks]. rewrite nth_error_map.
    rewrite (nth_error_upd_same _ ti _ t Ht). reflexivity. }
  assert (O1 : opened_at m1 ti = opened_at m ti) by reflexivity.
  destruct (tk_next t) as [prev|] eqn:En.
  2:{ intros [= <-]. destruct S1 as [L1 S1]. five; auto; try (rewrite app_nil_r; apply S1); try lia; try (intros _; exact N1). }
  fold (opened_at m1 ti). rewrite O1.
  destruct (negb (tk_leading t) && negb (opened_at m ti)) eqn:Eg.
  { intros [= <-]. destruct S1 as [L1 S1]. five; auto; try (rewrite app_nil_r; apply S1); try lia; try (intros _; exact N1). }
  (* the stream of the track *)
  destruct S1 as [L1 S1].
  assert (Ht1 : exists t1, nth_error (m_tracks m1) ti = Some t1 /\ tk_leading t1 = tk_leading t).
  { subst m1. unfold upd_track. cbn [set_tracks m_tracks]. rewrite (nth_error_upd_same _ ti _ t Ht). eauto. }
  destruct Ht1 as (t1 & Ht1 & Hl1).
  destruct (stream_exists m1 ti t1 L1 Ht1) as (s1 & Hs1).
  (* m2: the first segment is created if need be *)
  set (smp := emit_of prev (shifted t smp0)).
  set (m2 := if tk_leading t && negb (opened_at m ti)
             then createFirstSegment m1 (timestampToDuration (s_dts smp) (t_rate (tk_cfg t))) (s_ntp smp) else m1).
  assert (S2 : SameLogs m m2 /\ opened_at m2 ti = true /\ tk_nexts m2 = tk_nexts m1).
  { subst m2. destruct (tk_leading t && negb (opened_at m ti)) eqn:Ec.
    - apply andb_true_iff in Ec. destruct Ec as [_ Ec]. apply negb_true_iff in Ec.
      assert (Ho1 : st_open s1 = None).
      { rewrite <- O1 in Ec. unfold opened_at in Ec. rewrite Hs1 in Ec. now destruct (st_open s1). }
      split; [split; [now apply LI_create|]|split].
      + intros j. rewrite slog_create; [apply S1|]. eapply all_closed; eauto.
      + unfold opened_at, createFirstSegment. cbn [set_stream m_streams]. rewrite nth_error_map, Hs1. reflexivity.
      + reflexivity.
    - split; [split; auto|]. split; [|reflexivity].
      destruct (tk_leading t), (opened_at m ti); simpl in *; congruence. }
  destruct S2 as ((L2 & S2) & O2 & N2).
  set (m3 := if tk_leading t then fmp4AdjustPartDuration m2 (timestampToDuration (shifted t smp0 - s_dts prev) (t_rate (tk_cfg t))) else m2).
  assert (S3 : SameLogs m m3 /\ opened_at m3 ti = true /\ tk_nexts m3 = tk_nexts m1 /\ m_tracks m3 = m_tracks m2).
  { subst m3. destruct (tk_leading t).
    - destruct (adjust_frame m2 (timestampToDuration (shifted t smp0 - s_dts prev) (t_rate (tk_cfg t)))) as (A & B & C).
      split; [apply (SameLogs_ext m m2); auto; [now rewrite C|split; auto]|].
      split; [unfold opened_at; rewrite B; exact O2|]. split; [unfold tk_nexts; now rewrite C|exact C].
    - split; [split; auto|]. split; [exact O2|]. split; [exact N2|reflexivity]. }
  destruct S3 as ((L3 & S3) & O3 & N3 & T3).
  change (emit_of prev (shifted t smp0)) with smp.
  match goal with |- context [part_writeSample ?a ti ti ?b] => change a with m3; change b with smp end.
  destruct (part_writeSample m3 ti ti smp) as [m4| |] eqn:Ew; [|discriminate|discriminate].
  pose proof (LI_pws _ _ _ _ _ L3 Ew) as L4.
  pose proof (slog_pws m3 ti smp m4 (li_streams m3 L3) (li_part m3 L3) Ew) as S4.
  pose proof (nexts_pws _ _ _ _ _ Ew) as N4.
  (* stream and track ti exist in m3 and the stream is open *)
  assert (Hex : exists s3 t3, nth_error (m_streams m3) ti = Some s3 /\ nth_error (m_tracks m3) ti = Some t3 /\ st_open s3 <> None).
  { assert (Ht3 : exists t3, nth_error (m_tracks m3) ti = Some t3).
    { rewrite T3. subst m2. destruct (tk_leading t && negb (opened_at m ti)); eauto. }
    destruct Ht3 as (t3 & Ht3). destruct (stream_exists m3 ti t3 L3 Ht3) as (s3 & Hs3).
    exists s3, t3. repeat split; auto. unfold opened_at in O3. rewrite Hs3 in O3. destruct (st_open s3); congruence. }
  destruct Hex as (s3 & t3 & Hs3 & Ht3 & Ho3).
  assert (Slog4 : (forall j, j <> ti -> slog m4 j = slog m j) /\ slog m4 ti = slog m ti ++ [smp]).
  { split.
    - intros j Hj. rewrite S4. destruct (Nat.eqb_spec j ti); [congruence|apply S3].
    - rewrite S4, Nat.eqb_refl, Hs3, Ht3. destruct (st_open s3); [|congruence]. now rewrite S3. }
  destruct Slog4 as [Sa Sb].
  assert (Fin : forall mf, SameLogs m4 mf -> tk_nexts mf = tk_nexts m4 ->
            LI mf /\ (forall j, j <> ti -> slog mf j = slog m j) /\ slog mf ti = slog m ti ++ [smp]
            /\ (0 <= shifted t smp0 -> nth_error (tk_nexts mf) ti = Some (Some (incoming_of t smp0)))
            /\ (shifted t smp0 < 0 -> mf = m)).
  { intros mf [Lf Sf] Nf. five; auto.
    - intros j Hj. rewrite Sf. now apply Sa.
    - now rewrite Sf.
    - intros _. rewrite Nf, N4, N3. exact N1.
    - lia. }
  destruct (negb (tk_leading t)).
  { intros [= <-]. apply Fin; auto using SameLogs_refl. }
  destruct (nth_error (m_streams m4) ti) as [s4|].
  2:{ intros [= <-]. apply Fin; auto using SameLogs_refl. }
  match goal with |- context [if ?c then _ else _] => destruct c end.
  - intros [= <-].
    pose proof (SameLogs_rotateSegments m4
      (timestampToDuration (shifted t smp0) (t_rate (tk_cfg t))) (s_ntp (incoming_of t smp0)) pc L4) as S5.
    pose proof (nexts_rotateSegments m4
      (timestampToDuration (shifted t smp0) (t_rate (tk_cfg t))) (s_ntp (incoming_of t smp0)) pc) as N5.
    destruct pc; apply Fin; try exact N5; (eapply SameLogs_ext; [| | |exact S5]; reflexivity).
  - match goal with |- context [if ?c then _ else _] => destruct c end.
    + intros [= <-]. apply Fin; [now apply SameLogs_rotateParts|apply nexts_rotateParts].
    + intros [= <-]. apply Fin; auto using SameLogs_refl.
Qed.

(* ================================================================================================
   Lifting to whole writes and to histories (fMP4 variants, writes that return nil).
   ================================================================================================ *)
Lemma video_params_same m ti t a ex :
  nth_error (m_tracks m) ti = Some t -> LI m ->
  let m1 := fst (video_params m ti t a ex) in
  SameLogs m m1 /\ tk_nexts m1 = tk_nexts m /\ m_streams m1 = m_streams m
  /\ map tk_static (m_tracks m1) = map tk_static (m_tracks m).
Proof.
  intros Ht HL. cbv zeta. unfold video_params.
  assert (Hu : forall p, let mu := upd_track m ti (fun t0 => tk_with t0 (tk_firstRA t0) p (tk_next t0) (tk_samples t0) (tk_start t0)) in
            SameLogs m mu /\ tk_nexts mu = tk_nexts m /\ m_streams mu = m_streams m
            /\ map tk_static (m_tracks mu) = map tk_static (m_tracks m)).
  { intros p. cbv zeta. unfold upd_track. cbn [set_tracks m_tracks m_streams]. split; [|split; [|split]].
    - apply (SameLogs_ext m m); auto using SameLogs_refl. cbn [set_tracks m_tracks]. apply map_upd_static. intros x. reflexivity.
    - unfold tk_nexts. cbn [set_tracks m_tracks]. apply map_upd_static. intros x. reflexivity.
    - reflexivity.
    - apply map_upd_static. intros x. reflexivity. }
  assert (Hp : forall mx b, SameLogs m mx /\ tk_nexts mx = tk_nexts m /\ m_streams mx = m_streams m
                            /\ map tk_static (m_tracks mx) = map tk_static (m_tracks m) ->
               SameLogs m (set_pending mx b) /\ tk_nexts (set_pending mx b) = tk_nexts m
               /\ m_streams (set_pending mx b) = m_streams m
               /\ map tk_static (m_tracks (set_pending mx b)) = map tk_static (m_tracks m)).
  { intros mx b (A & B & C & D). split; [|split; [|split]]; auto.
    apply (SameLogs_ext m mx); auto. }
  destruct (a_params a) as [p|].
  - destruct (ex && negb (p =? tk_params t));
      match goal with |- context [if ?c then _ else _] => destruct c end; cbn [fst];
      repeat apply Hp; try apply Hu; (split; [apply SameLogs_refl; exact HL|auto]).
  - match goal with |- context [if ?c then _ else _] => destruct c end; cbn [fst];
      repeat apply Hp; (split; [apply SameLogs_refl; exact HL|auto]).
Qed.

Definition grows (m m' : mstate) (ti : nat) : Prop :=
  LI m' /\ (forall j, j <> ti -> slog m' j = slog m j) /\ exists new, slog m' ti = slog m ti ++ new.

Lemma grows_refl m ti : LI m -> grows m m ti.
Proof. intros H. split; [exact H|]. split; [auto|]. exists []. now rewrite app_nil_r. Qed.

Lemma grows_trans m1 m2 m3 ti : grows m1 m2 ti -> grows m2 m3 ti -> grows m1 m3 ti.
Proof.
  intros (_ & A2 & n1 & A3) (B1 & B2 & n2 & B3). split; [exact B1|]. split.
  - intros j Hj. rewrite B2, A2; auto.
  - exists (n1 ++ n2). now rewrite B3, A3, app_assoc.
Qed.

Lemma grows_same m m' ti : SameLogs m m' -> grows m m' ti.
Proof. intros [HL HS]. split; [exact HL|]. split; [intros; apply HS|]. exists []. now rewrite app_nil_r, HS. Qed.

Lemma fmp4_grows m ti t ra pc smp0 m' :
  LI m -> nth_error (m_tracks m) ti = Some t -> fmp4WriteSample m ti ra pc smp0 = (m', Ok tt) -> grows m m' ti.
Proof.
  intros HL Ht Hw. destruct (fmp4_log_step m ti t ra pc smp0 m' HL Ht Hw) as (A & B & C & _).
  split; [exact A|]. split; [exact B|]. eauto.
Qed.

(* the units a video write emits: exactly what fmp4_log_step says, unless the unit is skipped *)
Definition video_skipped (t : trk) (a : au) : bool :=
  match t_kind (tk_cfg t) with
  | H264 => (negb (a_ra a) && negb (a_nonidr a)) || (negb (tk_firstRA t) && negb (a_ra a))
  | _ => negb (tk_firstRA t) && negb (a_ra a)
  end.

Theorem write_video_log m ti t a m' :
  LI m -> nth_error (m_tracks m) ti = Some t -> write_video m ti t a = (m', Ok tt) ->
  LI m' /\ (forall j, j <> ti -> slog m' j = slog m j)
  /\ slog m' ti = slog m ti ++ (if video_skipped t a then [] else emitted_by m ti t (video_sample a)).
Proof.
  intros HL Ht. unfold write_video, video_skipped. cbv zeta.
  set (ex := match t_kind (tk_cfg t) with H264 | H265 => true | _ => a_ra a end).
  pose proof (video_params_same m ti t a ex Ht HL) as HV. cbv zeta in HV.
  destruct (video_params m ti t a ex) as [m1 pc0]. cbn [fst] in HV. destruct HV as ((L1 & S1) & N1 & E1 & T1).
  (* the state handed to fmp4WriteSample *)
  set (m2 := set_firstRA m1 ti).
  assert (H2 : SameLogs m m2 /\ tk_nexts m2 = tk_nexts m /\ m_streams m2 = m_streams m
               /\ map tk_static (m_tracks m2) = map tk_static (m_tracks m)).
  { subst m2. unfold set_firstRA, upd_track. cbn [set_tracks m_tracks m_streams]. split; [|split; [|split]].
    - apply (SameLogs_ext m m1); [reflexivity|reflexivity| |split; auto]. cbn [set_tracks m_tracks].
      apply map_upd_static. intros x. reflexivity.
    - rewrite <- N1. unfold tk_nexts. cbn [set_tracks m_tracks]. apply map_upd_static. intros x. reflexivity.
    - exact E1.
    - rewrite <- T1. apply map_upd_static. intros x. reflexivity. }
  destruct H2 as ((L2 & S2) & N2 & E2 & T2).
  assert (Ht2 : exists t2, nth_error (m_tracks m2) ti = Some t2 /\ tk_static t2 = tk_static t /\ tk_next t2 = tk_next t).
  { assert (A : option_map tk_static (nth_error (m_tracks m2) ti) = option_map tk_static (nth_error (m_tracks m) ti))
      by (rewrite <- !nth_error_map, T2; reflexivity).
    assert (B : nth_error (tk_nexts m2) ti = nth_error (tk_nexts m) ti) by now rewrite N2.
    unfold tk_nexts in B. rewrite !nth_error_map, Ht in B. rewrite Ht in A.
    destruct (nth_error (m_tracks m2) ti) as [t2|]; simpl in *; [|discriminate].
    exists t2. split; [reflexivity|]. split; congruence. }
  destruct Ht2 as (t2 & Ht2 & St2 & Nt2).
  assert (Hem : forall smp0, emitted_by m2 ti t2 smp0 = emitted_by m ti t smp0).
  { intros smp0. unfold emitted_by, shifted, opened_at. rewrite E2, Nt2.
    unfold tk_static in St2. injection St2 as Sa Sb Sc. now rewrite Sa, Sb. }
  assert (Hskip : forall mr, wok m1 = (mr, Ok tt) ->
            LI mr /\ (forall j, j <> ti -> slog mr j = slog m j) /\ slog mr ti = slog m ti ++ []).
  { intros mr [= <-]. split; [exact L1|]. split; [intros; apply S1|]. now rewrite app_nil_r, S1. }
  assert (Hgo : forall ra pc mr, fmp4WriteSample m2 ti ra pc (video_sample a) = (mr, Ok tt) ->
            LI mr /\ (forall j, j <> ti -> slog mr j = slog m j)
            /\ slog mr ti = slog m ti ++ emitted_by m ti t (video_sample a)).
  { intros ra pc mr Hw. destruct (fmp4_log_step m2 ti t2 ra pc (video_sample a) mr L2 Ht2 Hw) as (A & B & C & _).
    split; [exact A|]. split; [intros j Hj; rewrite B, S2; auto|]. now rewrite C, S2, Hem. }
  destruct (t_kind (tk_cfg t)).
  - destruct (negb (a_ra a) && negb (a_nonidr a)); [cbn [orb]; apply Hskip|].
    destruct (negb (tk_firstRA t) && negb (a_ra a)); [cbn [orb]; apply Hskip|]. cbn [orb].
    destruct (c_variant (m_cfg m)) eqn:Ev; [exfalso; exact (li_variant m HL Ev)| |]; apply Hgo.
  - destruct (negb (tk_firstRA t) && negb (a_ra a)); [apply Hskip|apply Hgo].
  - destruct (negb (tk_firstRA t) && negb (a_ra a)); [apply Hskip|apply Hgo].
  - destruct (negb (tk_firstRA t) && negb (a_ra a)); [apply Hskip|apply Hgo].
  - destruct (negb (tk_firstRA t) && negb (a_ra a)); [apply Hskip|apply Hgo].
  - destruct (negb (tk_firstRA t) && negb (a_ra a)); [apply Hskip|apply Hgo].
Qed.

Lemma write_audio_units_grows units : forall m ti k rate srate i pts ntp m',
  LI m -> write_audio_units m ti k rate srate i pts ntp units = (m', Ok tt) -> grows m m' ti.
Proof.
  induction units as [|x units IH]; intros m ti k rate srate i pts ntp m' HL; cbn [write_audio_units].
  - intros [= <-]. now apply grows_refl.
  - destruct (match k with OPUS => (pts, ntp) | _ => _ end) as [upts untp].
    match goal with |- context [fmp4WriteSample m ti true false ?s] =>
      destruct (fmp4WriteSample m ti true false s) as [m1 r] eqn:Ew end.
    destruct r as [[]|e|p]; [|discriminate|discriminate].
    assert (G1 : grows m m1 ti).
    { destruct (nth_error (m_tracks m) ti) as [t|] eqn:Ht.
      - eapply fmp4_grows; eauto.
      - unfold fmp4WriteSample in Ew. rewrite Ht in Ew. injection Ew as <-. now apply grows_refl. }
    intros Hr. destruct k; (eapply grows_trans; [exact G1|]); eapply IH; eauto; destruct G1 as (L1 & _); exact L1.
Qed.

Theorem mux_step_grows m ti a m' :
  LI m -> mux_step m (WWrite ti a) = (m', Ok tt) -> grows m m' ti.
Proof.
  intros HL. unfold mux_step, mux_write.
  destruct (nth_error (m_tracks m) ti) as [t|] eqn:Ht; [|intros [= <-]; now apply grows_refl].
  destruct (isVideo _).
  - intros Hw. destruct (write_video_log m ti t a m' HL Ht Hw) as (A & B & C).
    split; [exact A|]. split; [exact B|]. eauto.
  - unfold write_audio. destruct (c_variant (m_cfg m)) eqn:Ev; [exfalso; exact (li_variant m HL Ev)| |];
      apply write_audio_units_grows; exact HL.
Qed.

(* histories in which every write returns nil *)
Fixpoint all_ok (m : mstate) (ops : list wop) : Prop :=
  match ops with
  | [] => True
  | o :: ops' => snd (mux_step m o) = Ok tt /\ all_ok (fst (mux_step m o)) ops'
  end.

(* a log only ever grows at its tail: nothing that has been emitted is lost, changed or reordered *)
Theorem log_monotone ops : forall m, LI m -> all_ok m ops ->
  LI (mux_run m ops) /\ forall j, exists new, slog (mux_run m ops) j = slog m j ++ new.
Proof.
  induction ops as [|[ti a] ops IH]; intros m HL Hok; cbn [mux_run].
  - split; [exact HL|]. intros j. exists []. now rewrite app_nil_r.
  - destruct Hok as [Hr Hok].
    assert (Hs : mux_step m (WWrite ti a) = (fst (mux_step m (WWrite ti a)), Ok tt))
      by (rewrite <- Hr; apply surjective_pairing).
    destruct (mux_step_grows m ti a _ HL Hs) as (L1 & G2 & n1 & G3).
    destruct (IH _ L1 Hok) as (L2 & G).
    split; [exact L2|]. intros j. destruct (G j) as (n2 & E2). rewrite E2.
    destruct (Nat.eq_dec j ti) as [->|Hne].
    + rewrite G3. exists (n1 ++ n2). now rewrite app_assoc.
    + rewrite G2 by exact Hne. eauto.
Qed.

(* ---- the initial state of a started fMP4 / Low-Latency muxer satisfies LI, with empty logs ---- *)
Lemma mk_tracks_nth c ts : forall i k t,
  nth_error (mk_tracks c i ts) k = Some t -> c_variant c <> MPEGTS -> tk_stream t = (i + k)%nat.
Proof.
  induction ts as [|t0 ts IH]; intros i k t H Hv; [destruct k; discriminate|].
  destruct k as [|k]; cbn [mk_tracks nth_error] in H.
  - injection H as <-. cbn [tk_stream]. destruct (c_variant c); [congruence|lia|lia].
  - rewrite (IH (S i) k t H Hv). lia.
Qed.

Lemma mk_tracks_length c ts : forall i, length (mk_tracks c i ts) = length ts.
Proof. induction ts; intros i; simpl; auto. Qed.

Lemma mk_streams_open c ts : forall i ch n s, In s (mk_streams c i ts ch n) -> st_open s = None /\ st_segments s = [] /\ st_evicted s = [].
Proof.
  induction ts as [|t ts IH]; intros i ch n s H; [destruct H|]. cbn [mk_streams] in H.
  match type of H with context [let '(a, b) := ?x in _] => destruct x as [dflt chosen'] end.
  destruct H as [<-|H]; [cbn; auto|]. eapply IH; eauto.
Qed.

Theorem start_LI c m : start c = Ok m -> c_variant c <> MPEGTS -> LI m /\ forall j, slog m j = [].
Proof.
  intros Hs Hv. pose proof (start_streams c m Hs) as ES.
  assert (ET : m_tracks m = mk_tracks (norm_cfg c) 0 (c_tracks c) /\ m_cfg m = norm_cfg c).
  { unfold start in Hs. destruct (negb (start_ok (norm_cfg c))); [discriminate|]. now injection Hs as <-. }
  destruct ET as [ET EC].
  assert (EM : exists n, m_streams m = mk_streams (norm_cfg c) 0 (c_tracks c) false n).
  { rewrite ES. destruct (c_variant c); [congruence|eauto|eauto]. }
  destruct EM as (n & EM).
  assert (Hopen : forall s, In s (m_streams m) -> st_open s = None /\ st_segments s = [] /\ st_evicted s = []).
  { intros s Hin. rewrite EM in Hin. eapply mk_streams_open; eauto. }
  split.
  - constructor.
    + rewrite EC. exact Hv.
    + intros j s Hj. rewrite EM in Hj. destruct (mk_streams_nth _ _ _ _ _ _ _ Hj) as (t & _ & A & _). exact A.
    + intros i t Ht. rewrite ET in Ht. apply (mk_tracks_nth _ _ 0%nat i t Ht). exact Hv.
    + left. intros s Hin. now apply Hopen.
    + intros s Hin Ho. exfalso. apply Ho. now apply Hopen.
    + rewrite EM, ET, mk_streams_length, mk_tracks_length. reflexivity.
  - intros j. unfold slog. destruct (nth_error (m_streams m) j) as [s|] eqn:Ej; [|reflexivity].
    destruct (Hopen s (nth_error_In _ _ Ej)) as (A & B & C).
    unfold stream_emitted, published. rewrite A, B, C. cbn [app flat_map].
    unfold buffered. rewrite EM in Ej. destruct (mk_streams_nth _ _ _ _ _ _ _ Ej) as (t & Ht & T & _).
    rewrite T, ET. cbn [Nat.add].
    destruct (nth_error (mk_tracks (norm_cfg c) 0 (c_tracks c)) j) as [tk|] eqn:Etk; [|reflexivity].
    assert (Hs0 : tk_samples tk = None).
    { clear - Etk. revert Etk. generalize 0%nat at 1. revert j. induction (c_tracks c) as [|t0 ts IH]; intros j i H; [destruct j; discriminate|].
      destruct j; cbn [mk_tracks nth_error] in H; [now injection H as <-|eauto]. }
    now rewrite Hs0.
Qed.

(* every reachable state of a started fMP4 / Low-Latency muxer, along any history of successful writes *)
Theorem log_monotone_reachable c m0 ops1 ops2 :
  start c = Ok m0 -> c_variant c <> MPEGTS -> all_ok m0 (ops1 ++ ops2) ->
  forall j, exists new, slog (mux_run m0 (ops1 ++ ops2)) j = slog (mux_run m0 ops1) j ++ new.
Proof.
  intros Hs Hv Hok. destruct (start_LI c m0 Hs Hv) as [HL _].
  assert (Hsplit : all_ok m0 ops1 /\ all_ok (mux_run m0 ops1) ops2).
  { clear - Hok. revert m0 Hok. induction ops1 as [|o ops1 IH]; intros m0 Hok; [split; [exact I|exact Hok]|].
    cbn [app all_ok mux_run] in *. destruct Hok as [A B]. destruct (IH _ B) as [C D]. auto. }
  destruct Hsplit as [H1 H2].
  destruct (log_monotone ops1 m0 HL H1) as [L1 _].
  rewrite mux_run_app. destruct (log_monotone ops2 _ L1 H2) as [_ G]. exact G.
Qed.

(* ---- statements used verbatim by Props/C01.v ---- *)
Lemma emit_fields prev dts :
  s_dts (emit_of prev dts) = s_dts prev /\ s_ptsoff (emit_of prev dts) = s_ptsoff prev
  /\ s_nonsync (emit_of prev dts) = s_nonsync prev /\ s_ntp (emit_of prev dts) = s_ntp prev
  /\ s_pay (emit_of prev dts) = s_pay prev /\ s_size (emit_of prev dts) = s_size prev
  /\ s_dur (emit_of prev dts) = u32 (dts - s_dts prev).
Proof. repeat split. Qed.

Lemma rotations_keep_logs m d ntp f : LI m ->
  (LI (rotateSegments m d ntp f) /\ forall j, slog (rotateSegments m d ntp f) j = slog m j)
  /\ (LI (rotateParts m d) /\ forall j, slog (rotateParts m d) j = slog m j).
Proof. intros HL. split; [apply SameLogs_rotateSegments|apply SameLogs_rotateParts]; exact HL. Qed.

Lemma structure_reachable c m0 ops :
  start c = Ok m0 -> c_variant c <> MPEGTS -> LI (mux_run m0 ops) /\ forall j, slog m0 j = [].
Proof. intros Hs Hv. destruct (start_LI c m0 Hs Hv) as [HL H0]. split; [now apply LI_mux_run|exact H0]. Qed.

Definition ex_cfg : cfg :=
  {| c_variant := LL;
     c_tracks := [ {| t_kind := H264; t_rate := 90000; t_srate := 0; t_name := 0; t_lang := 0; t_default := false; t_params0 := 1 |};
                   {| t_kind := AAC; t_rate := 48000; t_srate := 48000; t_name := 0; t_lang := 0; t_default := false; t_params0 := 2 |} ];
     c_segcount := 7; c_segmin := 1000000000; c_partmin := 200000000; c_segmax := 50000000 |}.
Definition ex_au (dts : Z) (ra : bool) (id : Z) : au :=
  {| a_pts := dts; a_dts := dts; a_ntp := 1700000000000000000 + dts * 11111; a_ra := ra; a_nonidr := negb ra;
     a_params := None; a_units := [(id, 100, 100, 0)] |}.
Definition ex_ops : list wop :=
  [WWrite 0 (ex_au 0 true 11); WWrite 0 (ex_au 3000 false 12); WWrite 1 (ex_au 0 true 21); WWrite 0 (ex_au 6000 false 13)].


Lemma log_example : exists m0,
  start ex_cfg = Ok m0 /\ c_variant ex_cfg <> MPEGTS /\ all_ok m0 ex_ops
  /\ map (fun s => (s_pay s, s_dts s, s_dur s)) (slog (mux_run m0 ex_ops) 0) = [(11, 900000, 3000); (12, 903000, 3000)].
Proof.
  destruct (start ex_cfg) as [m0| |] eqn:E; [|vm_compute in E; discriminate|vm_compute in E; discriminate].
  exists m0. split; [reflexivity|]. split; [discriminate|].
  vm_compute in E. injection E as <-. split; vm_compute; auto.
Qed.
