(* Small theorems added after an audit of the claims:
   C01: a write leaves the look-ahead units of the other tracks alone;
   C02: a write of a non-leading fMP4 track never cuts (no stream's segment counter, open segment start or date moves);
   C18: a write refused by SegmentMaxSize leaves every segment's accounted size unchanged (Write level). *)
From Coq Require Import List ZArith Bool Lia Arith.
From GoHls Require Import Model.Mux Proofs.MuxStream Proofs.MuxLift Proofs.MuxWindow Proofs.MuxHistory
  Proofs.MuxTimes Proofs.MuxMulti Proofs.MuxCut Proofs.MuxLog Proofs.MuxLogStep Proofs.MuxGroups Proofs.MuxRAStart.
Import ListNotations.
Local Open Scope Z_scope.

(* ---- C01 ---- *)
Theorem write_leaves_other_lookaheads m ti t ra pc smp0 m' :
  nth_error (m_tracks m) ti = Some t -> fmp4WriteSample m ti ra pc smp0 = (m', Ok tt) ->
  forall j, j <> ti -> pending m' j = pending m j.
Proof.
  intros Ht Hw j Hne. pose proof (heads_fmp4WriteSample m ti t ra pc smp0 m' Ht Hw) as Hh.
  assert (Hp : forall mm, pending mm j = match nth_error (heads mm) j with Some h => fst h | None => None end).
  { intros mm. unfold pending, heads. rewrite nth_error_map. destruct (nth_error (m_tracks mm) j); reflexivity. }
  rewrite !Hp, Hh. destruct (shifted t smp0 <? 0); [reflexivity|]. now rewrite nth_error_upd_other by congruence.
Qed.

(* ---- C02 ---- *)
Lemma Same_pws m ti si smp m' :
  part_writeSample m ti si smp = Ok m' ->
  forall j sj, nth_error (m_streams m) j = Some sj -> exists sj', nth_error (m_streams m') j = Some sj' /\ Same sj sj'.
Proof.
  unfold part_writeSample.
  destruct (nth_error (m_streams m) si) as [s|] eqn:Es; [|intros [= <-] j sj Hj; exists sj; split; [exact Hj|apply Same_refl]].
  destruct (nth_error (m_tracks m) ti) as [t|]; [|intros [= <-] j sj Hj; exists sj; split; [exact Hj|apply Same_refl]].
  destruct (st_open s) as [seg|] eqn:Eo; [|intros [= <-] j sj Hj; exists sj; split; [exact Hj|apply Same_refl]].
  destruct (st_openpart s) as [p|]; [|intros [= <-] j sj Hj; exists sj; split; [exact Hj|apply Same_refl]].
  destruct (_ <? _); [discriminate|]. intros [= <-] j sj Hj.
  unfold upd_stream, upd_track. cbn [set_stream set_tracks m_streams].
  destruct (Nat.eq_dec si j) as [<-|Hne].
  - rewrite Es in Hj. injection Hj as <-. rewrite (nth_error_upd_same _ si _ s Es). eexists. split; [reflexivity|].
    split; [reflexivity|]. split; [reflexivity|].
    intros g Hg. rewrite Eo in Hg. injection Hg as <-. cbn [st_with st_open x_open]. eexists. split; [reflexivity|]. split; reflexivity.
  - rewrite nth_error_upd_other by exact Hne. exists sj. split; [exact Hj|apply Same_refl].
Qed.

Theorem fmp4_nonleading_never_cuts m ti t ra pc smp0 :
  nth_error (m_tracks m) ti = Some t -> tk_leading t = false ->
  forall j sj, nth_error (m_streams m) j = Some sj ->
  exists sj', nth_error (m_streams (fst (fmp4WriteSample m ti ra pc smp0))) j = Some sj' /\ Same sj sj'.
Proof.
  intros Ht Hl j sj Hj. unfold fmp4WriteSample. rewrite Ht. cbv zeta.
  destruct (_ <? 0); [exists sj; split; [exact Hj|apply Same_refl]|].
  set (m1 := upd_track m ti _).
  assert (Hj1 : nth_error (m_streams m1) j = Some sj) by exact Hj.
  destruct (tk_next t) as [prev|]; [|exists sj; split; [exact Hj1|apply Same_refl]].
  rewrite Hl. cbn [negb andb].
  destruct (match nth_error (m_streams m1) (tk_stream t) with
            | Some s => match st_open s with Some _ => true | None => false end | None => false end);
    cbn [negb]; [|exists sj; split; [exact Hj1|apply Same_refl]].
  match goal with |- context [part_writeSample ?a ?b ?c ?d] => destruct (part_writeSample a b c d) as [m4|e|p] eqn:Ew end.
  - cbn [fst wok]. exact (Same_pws _ _ _ _ _ Ew j sj Hj1).
  - cbn [fst]. exists sj. split; [exact Hj1|apply Same_refl].
  - cbn [fst]. exists sj. split; [exact Hj1|apply Same_refl].
Qed.

(* ---- C18 ---- *)
(* what a stream holds: the listed segments, and of the open segment its accounted size and its finalized parts *)
Definition holds_same (s s' : stream) : Prop :=
  st_segments s' = st_segments s /\ st_evicted s' = st_evicted s /\
  match st_open s, st_open s' with
  | Some g, Some g' => sg_size g' = sg_size g /\ sg_parts g' = sg_parts g
  | None, Some g' => sg_size g' = 0 /\ sg_parts g' = []      (* a first segment was created, empty *)
  | None, None => True
  | Some _, None => False
  end.

Lemma holds_same_refl s : holds_same s s.
Proof. unfold holds_same. destruct (st_open s); auto. Qed.

(* the write that SegmentMaxSize refuses returns the error and buffers nothing: no listed segment changes, the
   open segment's accounted size and parts stay (or a first, empty segment has been created), and no track's
   buffered samples change; only the refused look-ahead unit is replaced by the incoming one *)
Lemma adj_keeps mm z :
  m_tracks (fmp4AdjustPartDuration mm z) = m_tracks mm /\ m_streams (fmp4AdjustPartDuration mm z) = m_streams mm.
Proof.
  unfold fmp4AdjustPartDuration. destruct (c_variant (m_cfg mm)); auto.
  destruct (m_freeze mm); auto. destruct (z =? 0); auto. destruct (existsb _ _); auto.
Qed.

Theorem refused_write_buffers_nothing m ti ra pc smp0 m' e :
  LI m -> fmp4WriteSample m ti ra pc smp0 = (m', Err e) ->
  map tk_samples (m_tracks m') = map tk_samples (m_tracks m)
  /\ length (m_streams m') = length (m_streams m)
  /\ forall j sj, nth_error (m_streams m) j = Some sj ->
       exists sj', nth_error (m_streams m') j = Some sj' /\ holds_same sj sj'.
Proof.
  intros HL. unfold fmp4WriteSample, wok.
  destruct (nth_error (m_tracks m) ti) as [t|] eqn:Ht; [|discriminate]. cbv zeta.
  destruct (_ <? 0); [discriminate|].
  set (m1 := upd_track m ti _).
  assert (T1 : map tk_samples (m_tracks m1) = map tk_samples (m_tracks m)).
  { subst m1. unfold upd_track, set_tracks. cbn [m_tracks]. apply map_upd_static. intros x. reflexivity. }
  assert (S1 : m_streams m1 = m_streams m) by reflexivity.
  assert (C1 : m_cfg m1 = m_cfg m) by reflexivity.
  pose proof (li_tracks m HL ti t Ht) as Hsi. rewrite Hsi.
  destruct (tk_next t) as [prev|]; [|discriminate].
  rewrite S1.
  set (opened := match nth_error (m_streams m) ti with
                 | Some s => match st_open s with Some _ => true | None => false end | None => false end).
  destruct (negb (tk_leading t) && negb opened); [discriminate|].
  match goal with |- context [part_writeSample ?a ?b ?c ?d] => set (m3 := a) end.
  destruct (part_writeSample m3 _ _ _) as [m4|e'|p] eqn:Ew.
  - destruct (negb (tk_leading t)); [discriminate|].
    destruct (nth_error (m_streams m4) ti); [|discriminate].
    repeat match goal with |- context [if ?c then _ else _] => destruct c end; discriminate.
  - intros [= <- <-].
    destruct (tk_leading t && negb opened) eqn:Ecreate.
    + (* a first segment is created: every stream was closed *)
      apply andb_true_iff in Ecreate. destruct Ecreate as [El Eno]. apply negb_true_iff in Eno.
      assert (Hclosed : forall s', In s' (m_streams m) -> st_open s' = None).
      { subst opened. destruct (nth_error (m_streams m) ti) as [s|] eqn:Es.
        - destruct (st_open s) eqn:Eo; [discriminate|]. exact (all_closed m ti t s HL Ht Es Eo).
        - exfalso. pose proof (li_len m HL) as Hlen. apply nth_error_None in Es.
          assert (ti < length (m_tracks m))%nat by (apply nth_error_Some; congruence). lia. }
      subst m3. rewrite El. cbn [andb].
      match goal with |- context [fmp4AdjustPartDuration ?mm ?z] => destruct (adj_keeps mm z) as [A B]; rewrite A, B end.
      unfold createFirstSegment. cbn [set_stream m_tracks m_streams]. rewrite S1, map_length.
      split; [exact T1|]. split; [reflexivity|].
      intros j sj Hj. eexists. split; [erewrite map_nth_error by exact Hj; reflexivity|].
      unfold holds_same, stream_createFirst.
      cbn [st_with st_segments st_evicted st_open x_segments x_evicted x_open st_mut new_seg sg_size sg_parts].
      rewrite (Hclosed sj (nth_error_In _ _ Hj)). auto.
    + assert (E3 : m_tracks m3 = m_tracks m1 /\ m_streams m3 = m_streams m1).
      { subst m3. destruct (tk_leading t); [|auto]. apply adj_keeps. }
      destruct E3 as [A B]. rewrite A, B, S1. split; [exact T1|]. split; [reflexivity|].
      intros j sj Hj. exists sj. split; [exact Hj|apply holds_same_refl].
  - discriminate.
Qed.
