(* C14, tag level: every tag's marshal output is "#TAG:" ++ an attribute list ++ "\n", and
   the tag's unmarshal reads that attribute list back (for values satisfying the documented
   requirements, under the oracle envelope). *)
From Coq Require Import List ZArith Bool String Ascii Lia.
From GoHls Require Import Model.PlaylistBase Model.Playlist Model.PlaylistSpec
  Proofs.PlaylistStr Proofs.PlaylistNum Proofs.PlaylistAttrs.
Import ListNotations.
Local Open Scope string_scope.
Local Open Scope Z_scope.

Definition opt_list {A} (b : bool) (x : A) : list A := if b then [x] else [].

(* ---------- side conditions of the tokenizer, and line hygiene ---------- *)
Definition attr_ok2 (kv : string * aval) : bool :=
  attr_ok kv && no_crlf (fst kv) && no_crlf (aval_str (snd kv)).

Lemma attr_ok2_ok l : forallb attr_ok2 l = true -> forallb attr_ok l = true.
Proof.
  induction l as [|x l IH]; simpl; auto. intros H. apply andb_true_iff in H as [H1 H2].
  unfold attr_ok2 in H1. apply andb_true_iff in H1 as [H1 _]. apply andb_true_iff in H1 as [H1 _].
  now rewrite H1, IH.
Qed.

Lemma no_crlf_app a b : no_crlf (a ++ b) = no_crlf a && no_crlf b.
Proof.
  unfold no_crlf. rewrite !no_byte_app.
  destruct (no_byte LF a), (no_byte LF b), (no_byte CR a), (no_byte CR b); reflexivity.
Qed.

Lemma no_crlf_string c s : no_crlf (String c s) = negb (Ascii.eqb c LF) && negb (Ascii.eqb c CR) && no_crlf s.
Proof.
  unfold no_crlf. simpl.
  destruct (Ascii.eqb c LF), (Ascii.eqb c CR), (no_byte LF s), (no_byte CR s); reflexivity.
Qed.

Lemma render_attr_no_crlf x : attr_ok2 x = true -> no_crlf (render_attr x) = true.
Proof.
  unfold attr_ok2. intros H. apply andb_true_iff in H as [H Hv]. apply andb_true_iff in H as [_ Hk].
  unfold render_attr. rewrite no_crlf_app, Hk. rewrite no_crlf_string. cbn [andb].
  change (Ascii.eqb "=" LF) with false. change (Ascii.eqb "=" CR) with false. cbn [negb andb].
  destruct (snd x) as [s|s]; cbn [render_val aval_str] in *; auto.
  rewrite no_crlf_string. change (Ascii.eqb DQ LF) with false. change (Ascii.eqb DQ CR) with false.
  cbn [negb andb]. rewrite no_crlf_app, Hv. reflexivity.
Qed.

Lemma render_tail_no_crlf l : forallb attr_ok2 l = true -> no_crlf (render_tail l) = true.
Proof.
  induction l as [|x l IH]; [reflexivity|]. cbn [forallb render_tail]. intros H.
  apply andb_true_iff in H as [Hx Hl]. rewrite no_crlf_string.
  change (Ascii.eqb "," LF) with false. change (Ascii.eqb "," CR) with false. cbn [negb andb].
  now rewrite no_crlf_app, render_attr_no_crlf, IH.
Qed.

Lemma render_attrs_no_crlf l : forallb attr_ok2 l = true -> no_crlf (render_attrs l) = true.
Proof.
  destruct l as [|x l]; [reflexivity|]. cbn [forallb render_attrs]. intros H.
  apply andb_true_iff in H as [Hx Hl]. now rewrite no_crlf_app, render_attr_no_crlf, render_tail_no_crlf.
Qed.

Lemma first_not_of_no_byte c s : no_byte c s = true -> first_not c s = true.
Proof. destruct s; simpl; auto. intros H. apply andb_true_iff in H as [H _]. exact H. Qed.

Lemma num_chars_no_crlf s : num_chars s = true -> no_crlf s = true.
Proof.
  intros H. unfold no_crlf.
  rewrite !(num_chars_no_byte _ s H) by (reflexivity || discriminate). reflexivity.
Qed.

Lemma digits_no_crlf s : digits_only s = true -> no_crlf s = true.
Proof. intros H. apply num_chars_no_crlf, digits_only_num_chars, H. Qed.

Lemma num_attr_ok2 k s :
  key_ok k = true -> no_crlf k = true -> num_chars s = true -> attr_ok2 (k, AU s) = true.
Proof.
  intros Hk Hk2 H. unfold attr_ok2, attr_ok. cbn [fst snd aval_ok aval_str].
  rewrite Hk, Hk2, (num_chars_no_crlf s H).
  rewrite (num_chars_no_byte "," s H) by (reflexivity || discriminate).
  rewrite first_not_of_no_byte; [reflexivity|]. apply num_chars_no_byte; auto; discriminate.
Qed.

Lemma quoted_attr_ok2 k s :
  key_ok k = true -> no_crlf k = true -> quoted_ok s = true -> attr_ok2 (k, AQ s) = true.
Proof.
  unfold quoted_ok. intros Hk Hk2 H. apply andb_true_iff in H as [H1 H2].
  unfold attr_ok2, attr_ok. cbn [fst snd aval_ok aval_str]. now rewrite Hk, Hk2, H1, H2.
Qed.

Lemma unquoted_attr_ok2 k s :
  key_ok k = true -> no_crlf k = true -> unquoted_ok s = true -> attr_ok2 (k, AU s) = true.
Proof.
  unfold unquoted_ok. intros Hk Hk2 H. apply andb_true_iff in H as [H H3]. apply andb_true_iff in H as [H1 H2].
  unfold attr_ok2, attr_ok. cbn [fst snd aval_ok aval_str]. rewrite Hk, Hk2, H1, H2. cbn [andb].
  destruct s; [discriminate|]. cbn [first_not]. now rewrite H3.
Qed.

Lemma byterange_ok_some l s : byterange_ok (Some l) s = true -> uint64 l = true /\ opt_ok uint64 s = true.
Proof.
  unfold byterange_ok. cbn [opt_ok]. intros H. apply andb_true_iff in H as [H _].
  apply andb_true_iff in H as [Hl Hs]. auto.
Qed.

Lemma byterange_ok_none z : byterange_ok None (Some z) = false.
Proof. unfold byterange_ok. cbn [opt_ok]. apply andb_false_r. Qed.

Lemma byterange_attr_ok2 k l s :
  key_ok k = true -> no_crlf k = true -> byterange_ok (Some l) s = true ->
  attr_ok2 (k, AU (byterange_marshal l s)) = true.
Proof.
  intros Hk Hk2 H. destruct (byterange_ok_some _ _ H) as [Hl Hs].
  unfold attr_ok2, attr_ok. cbn [fst snd aval_ok aval_str]. rewrite Hk, Hk2.
  unfold no_crlf. rewrite !byterange_chars by (auto; discriminate).
  rewrite first_not_of_no_byte; [reflexivity|]. apply byterange_chars; auto; discriminate.
Qed.

Lemma int_attr_ok2 k z :
  key_ok k = true -> no_crlf k = true -> 0 <= z -> attr_ok2 (k, AU (fmt_int z)) = true.
Proof.
  intros Hk Hk2 Hz. apply num_attr_ok2; auto. apply digits_only_num_chars. apply fmt_int_digits; auto.
Qed.

Local Arguments byterange_marshal : simpl never.
Local Arguments byterange_unmarshal : simpl never.
Local Arguments fmt_int : simpl never.
Local Arguments parse_uint : simpl never.

Ltac split_and H :=
  repeat match type of H with
  | (_ && _) = true => let H1 := fresh H in apply andb_true_iff in H as [H H1]
  end.

Ltac norm_str := unfold render_attrs, render_attr, render_val, lf; simpl; repeat (rewrite ?app_assoc'; simpl).

Section WithOracles.
Variable orc : oracles.
Hypothesis OK : oracle_ok orc.

Lemma dur_pos_any d : dur_pos d = true -> dur_any d = true /\ 6000 < Z.abs d.
Proof.
  unfold dur_pos, dur_any. intros H. apply andb_true_iff in H as [H1 H2]. apply Z.ltb_lt in H1, H2.
  split; [|lia]. apply andb_true_iff; split; [apply Z.ltb_lt; lia|]. apply orb_true_iff; left. apply Z.leb_le; lia.
Qed.

Lemma dur_signed_any d : dur_signed d = true -> dur_any d = true /\ 6000 < Z.abs d.
Proof.
  unfold dur_signed, dur_any. intros H. apply andb_true_iff in H as [H1 H2]. apply Z.ltb_lt in H1, H2.
  split; [|lia]. apply andb_true_iff; split; [apply Z.ltb_lt; lia|].
  apply orb_true_iff. destruct (Z.le_gt_cases 0 d); [left; apply Z.leb_le; lia|right; apply Z.ltb_lt; lia].
Qed.

(* the facts about one printed duration *)
Lemma dur_facts d : dur_any d = true ->
  exists d', parse_dur orc (fmt_dur orc d) = Some d' /\ dur_close d d' = true
             /\ fmt_dur orc d' = fmt_dur orc d /\ (6000 < Z.abs d -> (d' =? 0) = false)
             /\ num_chars (fmt_dur orc d) = true.
Proof.
  intros H. destruct (ok_dur orc OK d H) as (d' & Hp & Hc & Hf & Hnz).
  destruct (ok_dur_chars orc OK d) as [Hch _].
  exists d'. repeat split; auto. intros Hd. apply Z.eqb_neq. auto.
Qed.

(* ---------- EXT-X-PART ---------- *)
Definition part_attrs (p : MediaPart) : list (string * aval) :=
  [("DURATION", AU (fmt_dur orc (pt_duration p))); ("URI", AQ (pt_uri p))]
  ++ opt_list (pt_independent p) ("INDEPENDENT", AU "YES")
  ++ match pt_brlen p with Some l => [("BYTERANGE", AU (byterange_marshal l (pt_brstart p)))] | None => [] end
  ++ opt_list (pt_gap p) ("GAP", AU "YES").

Lemma part_marshal_render p :
  part_marshal orc p = "#EXT-X-PART:" ++ render_attrs (part_attrs p) ++ lf.
Proof.
  unfold part_marshal, part_attrs, opt_list.
  destruct (pt_independent p), (pt_brlen p), (pt_gap p); norm_str; reflexivity.
Qed.

Lemma part_attrs_ok p : wf_part p = true -> forallb attr_ok2 (part_attrs p) = true.
Proof.
  unfold wf_part. intros H. split_and H.
  destruct (dur_pos_any _ H) as [Ha _]. destruct (dur_facts _ Ha) as (d' & _ & _ & _ & _ & Hch).
  unfold part_attrs, opt_list.
  destruct (pt_independent p), (pt_brlen p) eqn:Eb, (pt_gap p); cbn [app forallb];
    rewrite ?num_attr_ok2, ?quoted_attr_ok2, ?byterange_attr_ok2 by (auto; rewrite <- ?Eb; auto); reflexivity.
Qed.

Lemma part_roundtrip p : wf_part p = true ->
  exists p', part_unmarshal orc (render_attrs (part_attrs p)) = Ok p'
             /\ part_eqvb p p' = true /\ part_marshal orc p' = part_marshal orc p.
Proof.
  intros Hwf. pose proof (part_attrs_ok p Hwf) as Hok.
  unfold wf_part in Hwf. split_and Hwf. rename Hwf into Hd, Hwf0 into Hbr, Hwf1 into Hq, Hwf2 into Hn.
  destruct (dur_pos_any _ Hd) as [Ha Hbig]. destruct (dur_facts _ Ha) as (d' & Hp & Hc & Hf & Hnz & Hch).
  specialize (Hnz Hbig).
  unfold part_unmarshal. rewrite attrs_unmarshal_render by (apply attr_ok2_ok, Hok).
  cbn [bind]. unfold part_attrs, opt_list, nonempty in *.
  destruct p as [d u ind bl bs gap]; cbn [pt_duration pt_uri pt_independent pt_brlen pt_brstart pt_gap] in *.
  destruct ind, bl as [l|], gap; cbn; unfold duration_unmarshal; rewrite ?Hp; cbn;
    try (destruct (byterange_ok_some _ _ Hbr) as [Hb1 Hb2]; rewrite (byterange_roundtrip _ _ Hb1 Hb2); cbn);
    rewrite ?Hnz; cbn; apply negb_true_iff in Hn; rewrite ?Hn;
    eexists; (split; [reflexivity|]); unfold part_eqvb, part_marshal;
    cbn [pt_duration pt_uri pt_independent pt_brlen pt_brstart pt_gap part_set_gap part_set_byterange
         part_set_independent part_set_uri part_set_duration part0 fst snd].
  all: try (destruct bs; [rewrite byterange_ok_none in Hbr; discriminate Hbr|]).
  all: rewrite ?Hc, ?String.eqb_refl, ?Hf; cbn [opt_eqvb Bool.eqb andb]; rewrite ?Z.eqb_refl;
       try (destruct bs; cbn [opt_eqvb]; rewrite ?Z.eqb_refl); auto.
Qed.

(* ---------- EXT-X-START ---------- *)
Definition start_attrs (t : MultivariantStart) : list (string * aval) :=
  [("TIME-OFFSET", AU (fmt_dur orc (st_timeoffset t)))].

Lemma start_marshal_render t : start_marshal orc t = "#EXT-X-START:" ++ render_attrs (start_attrs t) ++ lf.
Proof. unfold start_marshal, start_attrs. norm_str. reflexivity. Qed.

Lemma start_attrs_ok t : dur_signed (st_timeoffset t) = true -> forallb attr_ok2 (start_attrs t) = true.
Proof.
  intros H. destruct (dur_signed_any _ H) as [Ha _]. destruct (dur_facts _ Ha) as (d' & _ & _ & _ & _ & Hch).
  unfold start_attrs. cbn [forallb]. rewrite num_attr_ok2; auto.
Qed.

Lemma start_roundtrip t : dur_signed (st_timeoffset t) = true ->
  exists t', start_unmarshal orc (render_attrs (start_attrs t)) = Ok t'
             /\ start_eqvb t t' = true /\ start_marshal orc t' = start_marshal orc t.
Proof.
  intros H. pose proof (start_attrs_ok t H) as Hok.
  destruct (dur_signed_any _ H) as [Ha Hbig]. destruct (dur_facts _ Ha) as (d' & Hp & Hc & Hf & Hnz & Hch).
  specialize (Hnz Hbig).
  unfold start_unmarshal. rewrite attrs_unmarshal_render by (apply attr_ok2_ok, Hok).
  destruct t as [d]. cbn. unfold duration_unmarshal. cbn [st_timeoffset] in *. rewrite Hp. cbn. rewrite Hnz.
  eexists; split; [reflexivity|]. unfold start_eqvb, start_marshal. cbn [st_timeoffset]. now rewrite Hc, Hf.
Qed.

(* ---------- EXT-X-PART-INF ---------- *)
Definition part_inf_attrs (t : MediaPartInf) : list (string * aval) :=
  [("PART-TARGET", AU (fmt_dur orc (pi_parttarget t)))].

Lemma part_inf_marshal_render t :
  part_inf_marshal orc t = "#EXT-X-PART-INF:" ++ render_attrs (part_inf_attrs t) ++ lf.
Proof. unfold part_inf_marshal, part_inf_attrs. norm_str. reflexivity. Qed.

Lemma part_inf_attrs_ok t : dur_pos (pi_parttarget t) = true -> forallb attr_ok2 (part_inf_attrs t) = true.
Proof.
  intros H. destruct (dur_pos_any _ H) as [Ha _]. destruct (dur_facts _ Ha) as (d' & _ & _ & _ & _ & Hch).
  unfold part_inf_attrs. cbn [forallb]. rewrite num_attr_ok2; auto.
Qed.

Lemma part_inf_roundtrip t : dur_pos (pi_parttarget t) = true ->
  exists t', part_inf_unmarshal orc (render_attrs (part_inf_attrs t)) = Ok t'
             /\ dur_close (pi_parttarget t) (pi_parttarget t') = true
             /\ part_inf_marshal orc t' = part_inf_marshal orc t.
Proof.
  intros H. pose proof (part_inf_attrs_ok t H) as Hok.
  destruct (dur_pos_any _ H) as [Ha Hbig]. destruct (dur_facts _ Ha) as (d' & Hp & Hc & Hf & Hnz & Hch).
  specialize (Hnz Hbig).
  unfold part_inf_unmarshal. rewrite attrs_unmarshal_render by (apply attr_ok2_ok, Hok).
  destruct t as [d]. cbn. unfold duration_unmarshal. cbn [pi_parttarget] in *. rewrite Hp. cbn. rewrite Hnz.
  eexists; split; [reflexivity|]. unfold part_inf_marshal. cbn [pi_parttarget]. now rewrite Hc, Hf.
Qed.

(* ---------- EXT-X-SKIP ---------- *)
Definition skip_attrs (t : MediaSkip) : list (string * aval) :=
  [("SKIPPED-SEGMENTS", AU (fmt_int (sk_skipped t)))].

Lemma skip_marshal_render t : skip_marshal t = "#EXT-X-SKIP:" ++ render_attrs (skip_attrs t) ++ lf.
Proof. unfold skip_marshal, skip_attrs. norm_str. reflexivity. Qed.

Lemma skip_attrs_ok t : int31 (sk_skipped t) = true -> forallb attr_ok2 (skip_attrs t) = true.
Proof.
  intros H. apply int31_range in H. unfold skip_attrs. cbn [forallb]. rewrite int_attr_ok2; auto. lia.
Qed.

Lemma skip_roundtrip t : int31 (sk_skipped t) = true ->
  skip_unmarshal (render_attrs (skip_attrs t)) = Ok t.
Proof.
  intros H. pose proof (skip_attrs_ok t H) as Hok. apply int31_range in H.
  unfold skip_unmarshal. rewrite attrs_unmarshal_render by (apply attr_ok2_ok, Hok).
  destruct t as [n]. cbn. cbn [sk_skipped] in H. rewrite parse_uint_fmt_int by lia. reflexivity.
Qed.

(* ---------- EXT-X-MAP ---------- *)
Definition map_attrs (t : MediaMap) : list (string * aval) :=
  [("URI", AQ (map_uri t))]
  ++ match map_brlen t with Some l => [("BYTERANGE", AU (byterange_marshal l (map_brstart t)))] | None => [] end.

Lemma map_marshal_render t : map_marshal t = "#EXT-X-MAP:" ++ render_attrs (map_attrs t) ++ lf.
Proof. unfold map_marshal, map_attrs. destruct (map_brlen t); norm_str; reflexivity. Qed.

Lemma map_attrs_ok t : wf_map t = true -> forallb attr_ok2 (map_attrs t) = true.
Proof.
  unfold wf_map. intros H. split_and H. unfold map_attrs.
  destruct (map_brlen t) eqn:Eb; cbn [app forallb];
    rewrite ?quoted_attr_ok2, ?byterange_attr_ok2 by (auto; rewrite <- ?Eb; auto); reflexivity.
Qed.

Lemma map_roundtrip t : wf_map t = true -> map_unmarshal (render_attrs (map_attrs t)) = Ok t.
Proof.
  intros Hwf. pose proof (map_attrs_ok t Hwf) as Hok. unfold wf_map in Hwf. split_and Hwf.
  unfold map_unmarshal. rewrite attrs_unmarshal_render by (apply attr_ok2_ok, Hok).
  unfold map_attrs, nonempty in *. destruct t as [u bl bs]; cbn [map_uri map_brlen map_brstart] in *.
  apply negb_true_iff in Hwf.
  destruct bl as [l|]; cbn;
    try (destruct (byterange_ok_some _ _ Hwf0) as [Hb1 Hb2]; rewrite (byterange_roundtrip _ _ Hb1 Hb2); cbn);
    rewrite Hwf; try reflexivity.
  destruct bs; [rewrite byterange_ok_none in Hwf0; discriminate|reflexivity].
Qed.

(* ---------- EXT-X-PRELOAD-HINT ---------- *)
Definition hint_attrs (t : MediaPreloadHint) : list (string * aval) :=
  [("TYPE", AU "PART"); ("URI", AQ (ph_uri t))]
  ++ opt_list (negb (ph_brstart t =? 0)) ("BYTERANGE-START", AU (fmt_int (ph_brstart t)))
  ++ match ph_brlen t with Some l => [("BYTERANGE-LENGTH", AU (fmt_int l))] | None => [] end.

Lemma hint_marshal_render t :
  preload_hint_marshal t = "#EXT-X-PRELOAD-HINT:" ++ render_attrs (hint_attrs t) ++ lf.
Proof.
  unfold preload_hint_marshal, hint_attrs, opt_list.
  destruct (negb (ph_brstart t =? 0)), (ph_brlen t); norm_str; reflexivity.
Qed.

Lemma hint_attrs_ok t : wf_hint t = true -> forallb attr_ok2 (hint_attrs t) = true.
Proof.
  unfold wf_hint. intros H. split_and H. apply uint64_range in H1. unfold hint_attrs, opt_list.
  destruct (negb (ph_brstart t =? 0)), (ph_brlen t) eqn:Eb; cbn [app forallb opt_ok] in *;
    try apply uint64_range in H0;
    rewrite ?quoted_attr_ok2, ?int_attr_ok2 by (auto; lia); reflexivity.
Qed.

Lemma hint_roundtrip t : wf_hint t = true ->
  preload_hint_unmarshal (render_attrs (hint_attrs t)) = Ok t.
Proof.
  intros Hwf. pose proof (hint_attrs_ok t Hwf) as Hok. unfold wf_hint in Hwf. split_and Hwf.
  unfold preload_hint_unmarshal. rewrite attrs_unmarshal_render by (apply attr_ok2_ok, Hok).
  unfold hint_attrs, opt_list, nonempty in *. destruct t as [u bs bl]; cbn [ph_uri ph_brstart ph_brlen] in *.
  apply negb_true_iff in Hwf. apply uint64_range in Hwf1.
  destruct (bs =? 0) eqn:E0, bl as [l|]; cbn [negb opt_ok] in *; try apply uint64_range in Hwf0; cbn;
    rewrite ?parse_uint_fmt_int by lia; cbn; rewrite Hwf; try reflexivity;
    apply Z.eqb_eq in E0; subst; reflexivity.
Qed.

(* ---------- EXT-X-KEY ---------- *)
Definition key_attrs (k : MediaKey) : list (string * aval) :=
  if String.eqb (k_method k) "NONE" then [("METHOD", AU "NONE")]
  else
    [("METHOD", AU (k_method k)); ("URI", AQ (k_uri k))]
    ++ opt_list (negb (String.eqb (k_iv k) "")) ("IV", AU (k_iv k))
    ++ opt_list (negb (String.eqb (k_keyformat k) "")) ("KEYFORMAT", AQ (k_keyformat k))
    ++ opt_list (negb (String.eqb (k_keyformatversions k) "")) ("KEYFORMATVERSIONS", AQ (k_keyformatversions k)).

Lemma key_marshal_render k : key_marshal k = "#EXT-X-KEY:" ++ render_attrs (key_attrs k) ++ lf.
Proof.
  unfold key_marshal, key_attrs, opt_list, MediaKeyMethodNone.
  destruct (String.eqb (k_method k) "NONE") eqn:E.
  - apply String.eqb_eq in E. rewrite E. norm_str. reflexivity.
  - destruct (String.eqb (k_iv k) ""), (String.eqb (k_keyformat k) ""), (String.eqb (k_keyformatversions k) "");
      norm_str; reflexivity.
Qed.

Lemma key_attrs_ok k : wf_key k = true -> forallb attr_ok2 (key_attrs k) = true.
Proof.
  unfold wf_key, key_attrs, opt_list. destruct (String.eqb (k_method k) "NONE") eqn:E; intros H; [reflexivity|].
  split_and H.
  assert (Hm : attr_ok2 ("METHOD", AU (k_method k)) = true).
  { apply orb_true_iff in H as [H|H]; apply String.eqb_eq in H; rewrite H; reflexivity. }
  destruct (String.eqb (k_iv k) "") eqn:Ei, (String.eqb (k_keyformat k) ""), (String.eqb (k_keyformatversions k) "");
    cbn [negb app forallb]; rewrite Hm;
    rewrite ?quoted_attr_ok2, ?unquoted_attr_ok2 by (auto; cbn [orb] in *; auto); reflexivity.
Qed.

Lemma key_roundtrip k : wf_key k = true -> key_unmarshal (render_attrs (key_attrs k)) = Ok k.
Proof.
  intros Hwf. pose proof (key_attrs_ok k Hwf) as Hok.
  unfold key_unmarshal. rewrite attrs_unmarshal_render by (apply attr_ok2_ok, Hok).
  unfold wf_key, key_attrs, opt_list, nonempty in *.
  destruct k as [m u iv kf kfv]; cbn [k_method k_uri k_iv k_keyformat k_keyformatversions] in *.
  destruct (String.eqb m "NONE") eqn:E.
  - apply String.eqb_eq in E. subst m. split_and Hwf.
    apply String.eqb_eq in Hwf, Hwf0, Hwf1, Hwf2. subst. reflexivity.
  - split_and Hwf.
    assert (Hu : String.eqb u "" = false) by
      (match goal with H : negb (String.eqb u "") = true |- _ => apply negb_true_iff in H; exact H end).
    assert (Hm : m = "AES-128" \/ m = "SAMPLE-AES") by
      (match goal with H : (_ || _) = true |- _ => apply orb_true_iff in H as [H|H]; apply String.eqb_eq in H; auto end).
    destruct Hm as [-> | ->];
    destruct (String.eqb iv "") eqn:Ei, (String.eqb kf "") eqn:Ek, (String.eqb kfv "") eqn:Ev;
      cbn; rewrite ?Hu; cbn;
      repeat match goal with
      | H : String.eqb _ "" = true |- _ => apply String.eqb_eq in H; subst
      end; reflexivity.
Qed.

(* ---------- EXT-X-SERVER-CONTROL ---------- *)
Definition sc_attrs (t : MediaServerControl) : list (string * aval) :=
  opt_list (sc_canblockreload t) ("CAN-BLOCK-RELOAD", AU "YES")
  ++ match sc_partholdback t with Some d => [("PART-HOLD-BACK", AU (fmt_dur orc d))] | None => [] end
  ++ match sc_canskipuntil t with Some d => [("CAN-SKIP-UNTIL", AU (fmt_dur orc d))] | None => [] end.

(* strings.Join over the appended attributes is the rendered attribute list *)
Lemma server_control_marshal_render t :
  server_control_marshal orc t = "#EXT-X-SERVER-CONTROL:" ++ render_attrs (sc_attrs t) ++ lf.
Proof.
  unfold server_control_marshal, sc_attrs, opt_list.
  destruct (sc_canblockreload t), (sc_partholdback t), (sc_canskipuntil t);
    cbn [List.app join]; norm_str; reflexivity.
Qed.

Lemma sc_attrs_ok t : wf_server_control t = true -> forallb attr_ok2 (sc_attrs t) = true.
Proof.
  unfold wf_server_control. intros H. split_and H. unfold sc_attrs, opt_list.
  destruct (sc_canblockreload t), (sc_partholdback t) as [d1|], (sc_canskipuntil t) as [d2|];
    cbn [app forallb opt_ok] in *;
    repeat match goal with
    | Hd : dur_any ?d = true |- _ => destruct (dur_facts _ Hd) as (? & _ & _ & _ & _ & ?); clear Hd
    end;
    change (attr_ok2 ("CAN-BLOCK-RELOAD", AU "YES")) with true;
    rewrite ?num_attr_ok2 by auto; reflexivity.
Qed.

Lemma server_control_roundtrip t : wf_server_control t = true ->
  exists t', server_control_unmarshal orc (render_attrs (sc_attrs t)) = Ok t'
             /\ sc_eqvb t t' = true
             /\ server_control_marshal orc t' = server_control_marshal orc t.
Proof.
  intros Hwf. pose proof (sc_attrs_ok t Hwf) as Hok. unfold wf_server_control in Hwf. split_and Hwf.
  unfold server_control_unmarshal. rewrite attrs_unmarshal_render by (apply attr_ok2_ok, Hok).
  unfold sc_attrs, opt_list in *.
  destruct t as [cbr phb csu]; cbn [sc_canblockreload sc_partholdback sc_canskipuntil] in *.
  destruct cbr, phb as [d1|], csu as [d2|]; cbn [opt_ok] in *;
    try (assert (F1 : dur_any d1 = true) by assumption; destruct (dur_facts _ F1) as (d1' & Hp1 & Hc1 & Hf1 & _ & _));
    try (assert (F2 : dur_any d2 = true) by assumption; destruct (dur_facts _ F2) as (d2' & Hp2 & Hc2 & Hf2 & _ & _));
    cbn; unfold duration_unmarshal; rewrite ?Hp1, ?Hp2; cbn; rewrite ?Hp1, ?Hp2; cbn;
    eexists; (split; [reflexivity|]); unfold sc_eqvb, server_control_marshal;
    cbn [sc_canblockreload sc_partholdback sc_canskipuntil opt_eqvb Bool.eqb andb sc0];
    rewrite ?Hc1, ?Hc2, ?Hf1, ?Hf2; auto.
Qed.

End WithOracles.
