(* RAM backend refines the specification (simulation relation RRel). *)
From Coq Require Import List ZArith Lia Bool Arith.
From GoHls Require Import Model.Storage Proofs.StorageLists.
Import ListNotations.

(* ---------- ramFileReader.Read ---------- *)
Definition rfr_remaining (r : rfr) : list Z :=
  skipn (rf_curPos r) (nth (rf_curPart r) (rf_parts r) [])
  ++ concat (skipn (S (rf_curPart r)) (rf_parts r)).

Definition rfr_ok (r : rfr) : Prop :=
  rf_curPos r <= length (nth (rf_curPart r) (rf_parts r) []).

Lemma skipn_nth_cons {A} (l : list A) n d :
  n < length l -> skipn n l = nth n l d :: skipn (S n) l.
Proof.
  revert n; induction l as [|x l IH]; intros n H; simpl in H; [lia|].
  destruct n; [reflexivity|]. simpl. apply IH. lia.
Qed.

Lemma rest_step (parts : list (list Z)) cp :
  nth cp parts [] ++ concat (skipn (S cp) parts) = concat (skipn cp parts).
Proof.
  destruct (le_lt_dec (length parts) cp) as [Hl|Hl].
  - rewrite (@skipn_all2 _ cp) by lia. rewrite (@skipn_all2 _ (S cp)) by lia.
    rewrite nth_overflow by lia. reflexivity.
  - rewrite (skipn_nth_cons parts cp []) by lia. reflexivity.
Qed.

Lemma skipn_0 {A} (l : list A) : skipn 0 l = l.
Proof. reflexivity. Qed.

Lemma nth_error_nth' {A} (l : list A) n d x : nth_error l n = Some x -> nth n l d = x.
Proof. intros H. now apply nth_error_nth. Qed.

Lemma rfr_loop_spec fuel : forall r lenp acc,
  rfr_ok r -> length acc <= lenp ->
  length (rf_parts r) - rf_curPart r < fuel ->
  exists r',
    rfr_read_loop fuel r lenp acc
      = Some (r', acc ++ firstn (lenp - length acc) (rfr_remaining r))
    /\ rfr_ok r'
    /\ rfr_remaining r' = skipn (lenp - length acc) (rfr_remaining r)
    /\ rf_parts r' = rf_parts r.
Proof.
  induction fuel as [|fuel IH]; intros r lenp acc Hok Hacc Hfuel; [lia|].
  cbn [rfr_read_loop]. unfold rfr_ok, rfr_remaining in Hok |- *.
  destruct r as [parts cp pos]. cbn [rf_parts rf_curPart rf_curPos] in *.
  destruct (nth_error parts cp) as [buf|] eqn:En.
  - assert (Hnth : nth cp parts [] = buf) by now apply nth_error_nth'.
    assert (Hcp : cp < length parts) by (apply nth_error_Some; congruence).
    rewrite Hnth in *.
    set (avail := skipn pos buf).
    set (rest := concat (skipn (S cp) parts)).
    assert (Hav : length avail = length buf - pos) by (subst avail; now rewrite skipn_length).
    set (copied := Nat.min (lenp - length acc) (length avail)).
    assert (Hlen' : length (acc ++ firstn copied avail) = length acc + copied).
    { rewrite app_length, firstn_length. subst copied. lia. }
    destruct (Nat.eqb (length (acc ++ firstn copied avail)) lenp) eqn:Eret.
    + apply Nat.eqb_eq in Eret.
      assert (Hc : copied = lenp - length acc) by lia.
      assert (Hc2 : copied <= length avail) by (subst copied; lia).
      assert (Hfirst : firstn (lenp - length acc) (avail ++ rest) = firstn copied avail).
      { rewrite <- Hc. rewrite firstn_app.
        replace (copied - length avail) with 0 by lia. simpl. now rewrite app_nil_r. }
      rewrite Hfirst. rewrite <- Hc.
      destruct (Nat.eqb (pos + copied) (length buf)) eqn:Eadv;
        (eexists; split; [reflexivity|]); cbn [rf_parts rf_curPart rf_curPos].
      * apply Nat.eqb_eq in Eadv.
        assert (Hall : copied = length avail) by lia.
        repeat split.
        -- lia.
        -- rewrite skipn_app, Hall, skipn_all, Nat.sub_diag. rewrite !skipn_0.
           cbn [app]. subst rest. apply rest_step.
      * apply Nat.eqb_neq in Eadv.
        repeat split.
        -- rewrite Hnth. lia.
        -- rewrite Hnth. rewrite skipn_app. replace (copied - length avail) with 0 by lia.
           simpl. f_equal. subst avail. rewrite skipn_skipn'. reflexivity.
    + apply Nat.eqb_neq in Eret.
      assert (Hc : copied = length avail) by (subst copied; lia).
      assert (Hle : length avail <= lenp - length acc) by (subst copied; lia).
      assert (Eadv : Nat.eqb (pos + copied) (length buf) = true) by (apply Nat.eqb_eq; lia).
      rewrite Eadv.
      rewrite Hc, firstn_all in *.
      destruct (IH {| rf_parts := parts; rf_curPart := S cp; rf_curPos := 0 |} lenp (acc ++ avail))
        as (r' & Hr & Hok' & Hrem & Hparts); cbn [rf_parts rf_curPart rf_curPos].
      * unfold rfr_ok. simpl. lia.
      * lia.
      * lia.
      * exists r'. unfold rfr_ok, rfr_remaining in Hok', Hrem, Hr.
        cbn [rf_parts rf_curPart rf_curPos] in *.
        assert (Hrest : skipn 0 (nth (S cp) parts []) ++ concat (skipn (S (S cp)) parts) = rest).
        { rewrite skipn_0. subst rest. apply rest_step. }
        rewrite Hrest in *.
        repeat split; auto.
        -- rewrite Hr. f_equal. f_equal. rewrite <- app_assoc. f_equal.
           rewrite firstn_app. rewrite (@firstn_all2 _ _ avail) by lia.
           f_equal. f_equal. rewrite app_length. lia.
        -- rewrite Hrem. rewrite skipn_app. rewrite (@skipn_all2 _ _ avail) by (rewrite app_length in *; lia).
           simpl. f_equal. rewrite app_length. lia.
  - assert (Hcp : length parts <= cp) by now apply nth_error_None.
    rewrite nth_overflow in * by lia. simpl in Hok. assert (pos = 0) by lia. subst pos.
    rewrite (@skipn_all2 _ (S cp)) by lia. cbn [concat app].
    exists {| rf_parts := parts; rf_curPart := cp; rf_curPos := 0 |}.
    cbn [rf_parts rf_curPart rf_curPos].
    rewrite nth_overflow by lia. rewrite (@skipn_all2 _ (S cp)) by lia. cbn [concat app].
    rewrite firstn_nil, !skipn_nil, app_nil_r. repeat split; auto.
Qed.

(* Termination of the Read loop (the fuel handed out by rfr_read suffices), what it
   returns, and progress: with a non-empty buffer it returns n > 0 unless at EOF. *)
Lemma rfr_read_spec r n :
  rfr_ok r ->
  exists r', rfr_read r n = Some (r', firstn n (rfr_remaining r))
             /\ rfr_ok r' /\ rfr_remaining r' = skipn n (rfr_remaining r)
             /\ rf_parts r' = rf_parts r.
Proof.
  intros Hok. unfold rfr_read.
  destruct (rfr_loop_spec (S (length (rf_parts r) - rf_curPart r)) r n [] Hok) as (r' & H1 & H2 & H3 & H4).
  - simpl; lia.
  - lia.
  - exists r'. simpl in *. rewrite Nat.sub_0_r in *. auto.
Qed.

Lemma rfr_read_progress r n out r' :
  rfr_ok r -> 0 < n -> rfr_read r n = Some (r', out) ->
  out = [] -> rfr_remaining r = [].
Proof.
  intros Hok Hn Hr Hout.
  destruct (rfr_read_spec r n Hok) as (r'' & H1 & _).
  rewrite H1 in Hr. injection Hr as _ Ho. subst out.
  destruct (rfr_remaining r); [reflexivity|]. destruct n; [lia|discriminate].
Qed.

(* ---------- simulation relation ---------- *)
Local Open Scope Z_scope.

Definition rh_rem (h : rhandle) : option (list Z) :=
  match h with
  | RHBytes r => Some r
  | RHFile r => Some (rfr_remaining r)
  | RHNone => None
  end.

Definition rh_ok (h : rhandle) : Prop :=
  match h with RHFile r => rfr_ok r | _ => True end.

Definition last_pos (ps : list sbuf) : Z :=
  match rev ps with b :: _ => sb_pos b | [] => 0 end.

Record RRel (r : ram) (s : spec) : Prop := {
  rr_parts : map sb_bytes (r_parts r) = sp_parts s;
  rr_ok : Forall sb_ok (r_parts r);
  rr_pos : sp_pos s = last_pos (r_parts r);
  rr_final : r_final r = sp_final s;
  rr_size : r_size r = if r_final r then Z.of_nat (length (concat (sp_parts s))) else 0;
  rr_handles : map rh_rem (r_handles r) = sp_handles s;
  rr_hok : Forall rh_ok (r_handles r)
}.

(* wf bookkeeping agrees with the RAM state *)
Record WRam (w : wfst) (r : ram) : Prop := {
  wr_parts : w_parts w = length (r_parts r);
  wr_final : w_final w = r_final r;
  wr_handles : w_handles w = length (r_handles r)
}.

Lemma RRel_init : RRel ram_init spec_init.
Proof. constructor; simpl; auto. Qed.

Lemma WRam_init : WRam {| w_parts := 0; w_final := false; w_removed := false; w_handles := 0 |} ram_init.
Proof. constructor; reflexivity. Qed.

Lemma sum_lens (ps : list sbuf) :
  sumZ (map sb_len ps) = Z.of_nat (length (concat (map sb_bytes ps))).
Proof.
  induction ps as [|b ps IH]; [reflexivity|].
  cbn [map sumZ fold_right concat]. fold (sumZ (map sb_len ps)).
  rewrite IH, app_length. unfold sb_len. lia.
Qed.

Lemma last_pos_snoc ps b : last_pos (ps ++ [b]) = sb_pos b.
Proof. unfold last_pos. rewrite rev_app_distr. reflexivity. Qed.

Lemma Forall_snoc {A} (P : A -> Prop) l x : Forall P (l ++ [x]) <-> Forall P l /\ P x.
Proof.
  rewrite Forall_app. split; intros [H1 H2]; split; auto.
  now inversion H2.
Qed.

Lemma Forall_firstn {A} (P : A -> Prop) n : forall l, Forall P l -> Forall P (firstn n l).
Proof.
  induction n as [|n IH]; intros l H; simpl; [constructor|].
  destruct l; [constructor|]. inversion H; subst. constructor; auto.
Qed.

Lemma Forall_skipn {A} (P : A -> Prop) n : forall l, Forall P l -> Forall P (skipn n l).
Proof.
  induction n as [|n IH]; intros l H; simpl; [exact H|].
  destruct l; [constructor|]. inversion H; subst. auto.
Qed.

Lemma Forall_set_nth {A} (P : A -> Prop) l i x : Forall P l -> P x -> Forall P (set_nth l i x).
Proof.
  intros Hl Hx. unfold set_nth. apply Forall_app. split.
  - now apply Forall_firstn.
  - assert (Hs : Forall P (skipn i l)) by now apply Forall_skipn.
    destruct (skipn i l); [constructor|]. inversion Hs; subst. now constructor.
Qed.

Lemma ram_step_sim w w' r s o :
  RRel r s -> WRam w r -> wf_step w o = Some w' ->
  let '(r', ob) := ram_step r o in
  let '(s', ob') := spec_step s o in
  ob = ob' /\ RRel r' s' /\ WRam w' r'.
Proof.
  intros HR HW Hwf. destruct HR as [Hp Hok Hpos Hfin Hsz Hh Hhok].
  destruct HW as [Wp Wf Wh].
  destruct o as [|bs|wh off| | |p|t|h n|].
  - (* NewPart *)
    cbn [wf_step] in Hwf. destruct (w_final w) eqn:Ef; [discriminate|]. injection Hwf as <-.
    cbn [ram_step spec_step]. split; [reflexivity|]. split.
    + constructor; cbn [r_parts r_final r_size r_handles sp_parts sp_pos sp_final sp_handles]; auto.
      * rewrite map_app, Hp. reflexivity.
      * apply Forall_snoc. split; auto. unfold sb_ok, sb_len. simpl. lia.
      * now rewrite last_pos_snoc.
      * rewrite <- Wf in *. rewrite Hsz. reflexivity.
    + constructor; simpl; auto. rewrite app_length. simpl. lia.
  - (* Write *)
    cbn [wf_step] in Hwf.
    destruct (w_final w || Nat.eqb (w_parts w) 0)%bool eqn:E; [discriminate|]. injection Hwf as <-.
    apply orb_false_iff in E. destruct E as [Ef En]. apply Nat.eqb_neq in En.
    destruct (list_snoc_cases (r_parts r)) as [Hnil|(ps0 & b & Hps)].
    { rewrite Hnil in Wp. simpl in Wp. lia. }
    cbn [ram_step spec_step]. split; [reflexivity|].
    rewrite Hps in *. rewrite upd_last_app.
    rewrite Forall_snoc in Hok. destruct Hok as [Hok0 Hokb].
    rewrite last_pos_snoc in Hpos.
    rewrite map_app in Hp. simpl in Hp.
    split.
    + constructor; cbn [r_parts r_final r_size r_handles sp_parts sp_pos sp_final sp_handles]; auto.
      * rewrite <- Hp, upd_last_app, map_app. simpl. f_equal. f_equal.
        rewrite put_all_pwrite, Hpos. now apply sbuf_write_bytes.
      * apply Forall_snoc. split; auto. now apply sbuf_write_ok.
      * rewrite last_pos_snoc. simpl. now rewrite Hpos.
      * rewrite <- Wf, Ef in *. auto.
    + constructor; simpl; auto. rewrite !app_length in *. simpl in *. lia.
  - (* Seek *)
    cbn [wf_step] in Hwf.
    destruct (w_final w || Nat.eqb (w_parts w) 0)%bool eqn:E; [discriminate|]. injection Hwf as <-.
    apply orb_false_iff in E. destruct E as [Ef En]. apply Nat.eqb_neq in En.
    destruct (list_snoc_cases (r_parts r)) as [Hnil|(ps0 & b & Hps)].
    { rewrite Hnil in Wp. simpl in Wp. lia. }
    cbn [ram_step spec_step]. rewrite Hps in *. rewrite rev_app_distr. cbn [rev app].
    rewrite Forall_snoc in Hok. destruct Hok as [Hok0 Hokb].
    rewrite last_pos_snoc in Hpos. rewrite map_app in Hp. simpl in Hp.
    rewrite Hpos.
    destruct (sbuf_seek b wh off) as [b'|] eqn:Es.
    + destruct (sbuf_seek_some _ _ _ _ Hokb Es) as (Hok' & Hpos' & Hbytes').
      assert (Hnn : (match wh with SeekStart => off | SeekCurrent => sb_pos b + off end <? 0) = false).
      { apply Z.ltb_ge. rewrite <- Hpos'. unfold sb_ok in Hok'. lia. }
      rewrite Hnn. rewrite <- Hpos'. split; [reflexivity|].
      rewrite upd_last_app. split.
      * constructor; cbn [r_parts r_final r_size r_handles sp_parts sp_pos sp_final sp_handles]; auto.
        -- rewrite <- Hp, upd_last_app, map_app. simpl. now rewrite Hbytes'.
        -- apply Forall_snoc. split; auto.
        -- now rewrite last_pos_snoc.
        -- rewrite <- Wf, Ef in *. auto.
      * constructor; simpl; auto. rewrite !app_length in *. simpl in *. lia.
    + apply sbuf_seek_none in Es. apply Z.ltb_lt in Es. rewrite Es.
      split; [reflexivity|]. split.
      * constructor; auto.
        -- rewrite Hps. rewrite map_app. simpl. exact Hp.
        -- rewrite Hps. apply Forall_snoc. auto.
        -- rewrite Hps, last_pos_snoc. exact Hpos.
      * constructor; auto. now rewrite Hps.
  - (* Finalize *)
    cbn [wf_step] in Hwf. destruct (w_final w) eqn:Ef; [discriminate|]. injection Hwf as <-.
    cbn [ram_step spec_step]. split; [reflexivity|]. split.
    + constructor; cbn [r_parts r_final r_size r_handles sp_parts sp_pos sp_final sp_handles]; auto.
      rewrite <- Wf in Hsz. rewrite Hsz. rewrite sum_lens, Hp. lia.
    + constructor; simpl; auto.
  - (* Remove *)
    cbn [wf_step] in Hwf. destruct (w_final w && negb (w_removed w))%bool eqn:E; [|discriminate].
    injection Hwf as <-. apply andb_true_iff in E. destruct E as [Ef _].
    cbn [ram_step spec_step]. split; [reflexivity|]. split.
    + constructor; auto.
    + constructor; simpl; auto. congruence.
  - (* Snap *)
    cbn [wf_step] in Hwf. destruct (Nat.ltb p (w_parts w) && negb (w_removed w))%bool; [|discriminate].
    injection Hwf as <-.
    cbn [ram_step spec_step]. rewrite <- Hp, nth_error_map.
    destruct (nth_error (r_parts r) p); simpl; (split; [reflexivity|]); split; constructor; auto;
      try (rewrite Hp; assumption).
  - (* Open *)
    destruct t as [p|].
    + cbn [wf_step] in Hwf.
      destruct (((Nat.ltb (S p) (w_parts w)) || (Nat.ltb p (w_parts w) && w_final w)) && negb (w_removed w))%bool eqn:E;
        [|discriminate].
      injection Hwf as <-.
      assert (Hlt : (p < length (r_parts r))%nat).
      { apply andb_true_iff in E. destruct E as [E _]. apply orb_true_iff in E.
        destruct E as [E|E].
        - apply Nat.ltb_lt in E. lia.
        - apply andb_true_iff in E. destruct E as [E _]. apply Nat.ltb_lt in E. lia. }
      cbn [ram_step spec_step]. rewrite <- Hp, nth_error_map.
      destruct (nth_error (r_parts r) p) as [b|] eqn:En; cbn [option_map].
      * split; [reflexivity|]. split.
        -- constructor; cbn [r_parts r_final r_size r_handles sp_parts sp_pos sp_final sp_handles]; auto;
             try (rewrite Hp; assumption).
           ++ rewrite map_app, Hh. reflexivity.
           ++ apply Forall_snoc. split; auto. exact I.
        -- constructor; simpl; auto. rewrite app_length. simpl. lia.
      * apply nth_error_None in En. lia.
    + cbn [wf_step] in Hwf. destruct (negb (w_removed w)); [|discriminate]. injection Hwf as <-.
      cbn [ram_step spec_step]. rewrite <- Hfin.
      destruct (r_final r) eqn:Ef.
      * split; [reflexivity|]. split.
        -- constructor; cbn [r_parts r_final r_size r_handles sp_parts sp_pos sp_final sp_handles]; auto.
           ++ rewrite map_app, Hh. cbn [map rh_rem]. unfold rfr_remaining.
              cbn [rf_parts rf_curPart rf_curPos]. rewrite Hp. do 3 f_equal.
              destruct (sp_parts s); reflexivity.
           ++ apply Forall_snoc. split; auto. unfold rh_ok, rfr_ok. simpl. lia.
        -- constructor; simpl; auto. rewrite app_length. simpl. lia.
      * split; [reflexivity|]. split.
        -- constructor; cbn [r_parts r_final r_size r_handles sp_parts sp_pos sp_final sp_handles]; auto.
           ++ rewrite map_app, Hh. reflexivity.
           ++ apply Forall_snoc. split; auto. exact I.
        -- constructor; simpl; auto. rewrite app_length. simpl. lia.
  - (* ReadH *)
    cbn [wf_step] in Hwf. destruct (Nat.ltb h (w_handles w)) eqn:E; [|discriminate]. injection Hwf as <-.
    cbn [ram_step spec_step]. unfold read_handle. rewrite <- Hh, nth_error_map.
    destruct (nth_error (r_handles r) h) as [hd|] eqn:En; cbn [option_map].
    + destruct hd as [rem|fr|]; cbn [rh_rem].
      * split; [reflexivity|]. split.
        -- constructor; cbn [r_parts r_final r_size r_handles sp_parts sp_pos sp_final sp_handles]; auto.
           ++ rewrite map_set_nth. reflexivity.
           ++ apply Forall_set_nth; auto. exact I.
        -- constructor; simpl; auto. now rewrite set_nth_length.
      * assert (Hfok : rfr_ok fr).
        { rewrite Forall_forall in Hhok. apply (Hhok (RHFile fr)). eapply nth_error_In; eauto. }
        destruct (rfr_read_spec fr n Hfok) as (fr' & Hrd & Hok' & Hrem' & _).
        rewrite Hrd. split; [reflexivity|]. split.
        -- constructor; cbn [r_parts r_final r_size r_handles sp_parts sp_pos sp_final sp_handles]; auto.
           ++ rewrite map_set_nth. cbn [rh_rem]. now rewrite Hrem'.
           ++ apply Forall_set_nth; auto.
        -- constructor; simpl; auto. now rewrite set_nth_length.
      * split; [reflexivity|]. split; constructor; auto.
    + split; [reflexivity|]. split; constructor; auto.
  - (* Size *)
    cbn [wf_step] in Hwf. injection Hwf as <-.
    cbn [ram_step spec_step]. rewrite Hsz, Hfin. split; [reflexivity|]. split; constructor; auto.
Qed.
