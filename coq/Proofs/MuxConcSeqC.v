(* Sequential core of C06, part C: the writer operations preserve well-formedness (so the
   theorems of part B speak about every reachable state), and the refutation witnesses of the
   findings F3a, F3b, F11 on reachable states. *)
From Coq Require Import List ZArith Lia Bool String Ascii ZifyBool ZifyNat.
From GoHls Require Import Lib.MuxSched Model.MuxConcSeq Model.MuxConcSpec Proofs.MuxConcSeqA
  Proofs.MuxConcSeqB.
Import ListNotations.
Local Open Scope Z_scope.

Lemma segs_ok_app_seg : forall v l k b ps d,
  segs_ok v k b l -> (v = LL -> ps <> []) -> segs_ok v k b (l ++ [Seg (k + zlen l) ps d]).
Proof.
  intros v l; induction l as [|[d0|id ps0 d0] r IH]; intros k b ps d Hok Hps; simpl.
  - rewrite zlen_nil. split; [lia|]. split; [exact Hps|exact I].
  - destruct Hok as [Hb Hok]. split; [exact Hb|].
    rewrite zlen_cons. replace (k + (zlen r + 1)) with (k + 1 + zlen r) by lia. apply IH; assumption.
  - destruct Hok as [-> [Hp0 Hok]]. split; [reflexivity|]. split; [exact Hp0|].
    rewrite zlen_cons. replace (k + (zlen r + 1)) with (k + 1 + zlen r) by lia. apply IH; assumption.
Qed.

Lemma segs_ok_gaps : forall v n k d, segs_ok v k false (repeat (Gap d) n).
Proof. intros v n; induction n as [|n IH]; intros k d; simpl; auto. Qed.

Lemma segs_ok_tail : forall v a r k b, segs_ok v k b (a :: r) -> exists b', segs_ok v (k + 1) b' r.
Proof. intros v [d|id ps d] r k b H; simpl in H; [exists false; tauto|exists true; tauto]. Qed.

Lemma createFirst_wf : forall v s, wf_stream v s -> wf_stream v (stream_createFirstSegment s).
Proof.
  intros v s W. destruct W as [W1 W2 W3 W4 W5 W6].
  constructor; simpl; auto. intros _; discriminate.
Qed.

Lemma rotateParts_wf : forall v i s t s' t',
  stream_rotateParts v i s t = Some (s', t') -> wf_stream v s ->
  wf_stream v s' /\ segments s' = segments s /\ nextSegmentID s' = nextSegmentID s
  /\ segmentDeleteCount s' = segmentDeleteCount s
  /\ (exists ps, nextSegment s' = Some ps /\ (v = LL -> ps <> []))
  /\ s_closed s' = s_closed s.
Proof.
  intros v i s t s' t' H W. unfold stream_rotateParts in H.
  destruct (nextSegment s) as [ps|] eqn:E; [|discriminate].
  destruct W as [W1 W2 W3 W4 W5 W6].
  destruct v; inversion H; subst; clear H; simpl;
    (split; [constructor; simpl; auto; intros _; discriminate|]);
    repeat split; eauto.
  - eexists; split; [reflexivity|discriminate].
  - eexists; split; [reflexivity|discriminate].
  - eexists; split; [reflexivity|]. intros _. destruct ps; discriminate.
Qed.

Lemma rotateSegments_wf : forall v sc lead i dur s t fs s' t' fs',
  1 <= sc ->
  stream_rotateSegments v sc lead i dur s t fs = Some (s', t', fs') ->
  wf_stream v s -> wf_stream v s' /\ s_closed s' = s_closed s.
Proof.
  intros v sc lead i dur s t fs s' t' fs' Hsc H W. unfold stream_rotateSegments in H.
  (* the state after the embedded rotateParts *)
  assert (exists s1 t1,
    (match v with
     | MPEGTS => match nextSegment s with None => None | Some _ => Some (s, t) end
     | _ => stream_rotateParts v i s t end) = Some (s1, t1)
    /\ wf_stream v s1 /\ segments s1 = segments s /\ nextSegmentID s1 = nextSegmentID s
    /\ segmentDeleteCount s1 = segmentDeleteCount s
    /\ (exists ps, nextSegment s1 = Some ps /\ (v = LL -> ps <> []))
    /\ s_closed s1 = s_closed s) as [s1 [t1 [E1 [W1 [Es [En [Ed [[ps [Eo Hps]] Ec]]]]]]]].
  { destruct v.
    - destruct (nextSegment s) eqn:E; [|discriminate]. exists s, t.
      split; [reflexivity|]. split; [exact W|]. do 3 (split; [reflexivity|]).
      split; [eexists; split; [exact E|discriminate]|reflexivity].
    - destruct (stream_rotateParts FMP4 i s t) as [[s1 t1]|] eqn:E; [|discriminate].
      exists s1, t1. split; [reflexivity|]. eapply rotateParts_wf; eauto.
    - destruct (stream_rotateParts LL i s t) as [[s1 t1]|] eqn:E; [|discriminate].
      exists s1, t1. split; [reflexivity|]. eapply rotateParts_wf; eauto. }
  rewrite E1 in H. rewrite Eo in H.
  set (sid := nextSegmentID s1) in *.
  set (base := match v with
               | LL => if Nat.eqb (List.length (segments s1)) 0 then repeat (Gap dur) 7 else segments s1
               | _ => segments s1 end) in *.
  set (segs1 := base ++ [Seg sid ps dur]) in *.
  (* segs1 is a well-formed window starting at dc whose end is sid+1 *)
  assert (Hok1 : exists b, segs_ok v (segmentDeleteCount s1) b segs1
                           /\ sid + 1 = segmentDeleteCount s1 + zlen segs1).
  { destruct W1 as [Wd [b Wok] Wn We Wo].
    destruct (segments s1) as [|a r] eqn:Esg.
    - destruct (We eq_refl) as [Hd0 Hn0]. unfold segs1, base. rewrite Hd0.
      destruct v; simpl Nat.eqb; cbv iota.
      + exists false. simpl. unfold sid. rewrite Hn0, zlen_cons, zlen_nil. repeat split; auto; lia.
      + exists false. simpl. unfold sid. rewrite Hn0, zlen_cons, zlen_nil. repeat split; auto; lia.
      + exists false. split.
        * replace sid with (0 + zlen (repeat (Gap dur) 7)) by (unfold sid; rewrite Hn0; reflexivity).
          apply segs_ok_app_seg; [apply segs_ok_gaps|exact Hps].
        * unfold sid. rewrite Hn0. reflexivity.
    - assert (Hne : a :: r <> []) by discriminate. specialize (Wn Hne).
      assert (Eb : base = a :: r) by (unfold base; destruct v; reflexivity).
      unfold segs1. rewrite Eb. exists b. split.
      + replace sid with (segmentDeleteCount s1 + zlen (a :: r)) by (unfold sid; lia).
        apply segs_ok_app_seg; assumption.
      + rewrite zlen_app. change (zlen [Seg sid ps dur]) with 1. unfold sid. lia. }
  destruct Hok1 as [b [Hok1 Hend]].
  assert (Hlen1 : 1 <= zlen segs1).
  { unfold segs1. rewrite zlen_app. change (zlen [Seg sid ps dur]) with 1.
    pose proof (zlen_nonneg _ base). lia. }
  pose proof (wf_dc _ _ W1) as Hdc.
  destruct (sc <? zlen segs1) eqn:Ev.
  - destruct segs1 as [|hd tl] eqn:E2; [rewrite zlen_nil in Hlen1; lia|].
    rewrite zlen_cons in *.
    destruct (segs_ok_tail _ _ _ _ _ Hok1) as [b' Hok2].
    assert (Htl : tl <> []) by (intro; subst tl; rewrite zlen_nil in Ev; lia).
    assert (Hlast2 : exists id0 ps0 d0, last tl (Gap 0) = Seg id0 ps0 d0).
    { exists sid, ps, dur. assert (HL : last (hd :: tl) (Gap 0) = Seg sid ps dur)
        by (rewrite <- E2; unfold segs1; apply last_last).
      destruct tl; [congruence|exact HL]. }
    assert (W' : forall td cl, wf_stream v
       {| nextSegmentID := sid + 1; nextPartID := nextPartID s1; segments := tl;
          nextSegment := Some []; segmentDeleteCount := segmentDeleteCount s1 + 1;
          targetDuration := td; s_closed := cl |}).
    { intros; constructor; simpl; try lia; eauto; try congruence; try (intros _; lia). }
    destruct hd; inversion H; subst; (split; [apply W'|simpl; congruence]).
  - assert (Hlast1 : exists id0 ps0 d0, last segs1 (Gap 0) = Seg id0 ps0 d0)
      by (exists sid, ps, dur; unfold segs1; apply last_last).
    assert (W' : forall td cl, wf_stream v
       {| nextSegmentID := sid + 1; nextPartID := nextPartID s1; segments := segs1;
          nextSegment := Some []; segmentDeleteCount := segmentDeleteCount s1;
          targetDuration := td; s_closed := cl |}).
    { intros; constructor; simpl; try lia; eauto; try congruence.
      intros E; rewrite E, zlen_nil in Hlen1; lia. }
    inversion H; subst. split; [apply W'|simpl; congruence].
Qed.

Lemma close_wf : forall v i s fs, wf_stream v s -> wf_stream v (fst (stream_close i s fs)).
Proof. intros v i s fs W; exact W. Qed.

Lemma set_closed_wf : forall v s, wf_stream v s -> wf_stream v (stream_set_closed s).
Proof. intros v s [W1 W2 W3 W4 W5 W6]; constructor; simpl; auto. Qed.

Lemma init_wf : forall v, wf_stream v (stream_init v).
Proof.
  intros v; constructor; simpl; try lia; auto; try congruence.
  exists false; exact I.
Qed.

(* ---- lifting to the muxer ---- *)
Lemma rotateParts_all_wf : forall v ss i t ss' t',
  rotateParts_all v i ss t = Some (ss', t') -> Forall (wf_stream v) ss -> Forall (wf_stream v) ss'.
Proof.
  intros v ss; induction ss as [|s r IH]; intros i t ss' t' H F; simpl in H.
  - inversion H; constructor.
  - destruct (stream_rotateParts v i s t) as [[s1 t1]|] eqn:E; [|discriminate].
    destruct (rotateParts_all v (S i) r t1) as [[r' t2]|] eqn:E2; [|discriminate].
    inversion H; subst. inversion F; subst. constructor.
    + eapply rotateParts_wf; eauto.
    + eapply IH; eauto.
Qed.

Lemma rotateSegments_all_wf : forall v sc lead dur ss i t fs ss' t' fs',
  1 <= sc ->
  rotateSegments_all v sc lead dur i ss t fs = Some (ss', t', fs') ->
  Forall (wf_stream v) ss -> Forall (wf_stream v) ss'.
Proof.
  intros v sc lead dur ss; induction ss as [|s r IH]; intros i t fs ss' t' fs' Hsc H F; simpl in H.
  - inversion H; constructor.
  - destruct (stream_rotateSegments v sc (Nat.eqb i lead) i dur s t fs) as [[[s1 t1] fs1]|] eqn:E; [|discriminate].
    destruct (rotateSegments_all v sc lead dur (S i) r t1 fs1) as [[[r' t2] fs2]|] eqn:E2; [|discriminate].
    inversion H; subst. inversion F; subst. constructor.
    + eapply rotateSegments_wf; eauto.
    + eapply IH; eauto.
Qed.

Lemma copy_targetDuration_wf : forall v lead ss,
  Forall (wf_stream v) ss -> Forall (wf_stream v) (copy_targetDuration lead ss).
Proof.
  intros v lead ss F. unfold copy_targetDuration. destruct (nth_error ss lead); [|exact F].
  apply Forall_forall. intros x Hin. apply in_map_iff in Hin. destruct Hin as [y [<- Hy]].
  rewrite Forall_forall in F. destruct (F y Hy) as [W1 W2 W3 W4 W5 W6]. constructor; simpl; auto.
Qed.

Lemma Forall_upd_nth : forall A (P : A -> Prop) l i x, Forall P l -> P x -> Forall P (upd_nth l i x).
Proof.
  intros A P l; induction l as [|a l IH]; intros [|i] x F Hx; simpl; auto.
  - inversion F; subst. constructor; auto.
  - inversion F; subst. constructor; auto. apply IH; auto.
Qed.

Lemma closeStream_wf : forall m k, wf_mux m -> wf_mux (mux_closeStream m k).
Proof.
  intros m k W. unfold mux_closeStream. destruct (nth_error (m_streams m) k) as [s|] eqn:E; [|exact W].
  unfold wf_mux in *. simpl. apply Forall_upd_nth; [exact W|].
  rewrite Forall_forall in W. apply (close_wf (m_variant m) k s (m_files m)).
  apply W. eapply nth_error_In; eauto.
Qed.

Lemma closeStream_variant : forall m k, m_variant (mux_closeStream m k) = m_variant m
  /\ m_segmentCount (mux_closeStream m k) = m_segmentCount m.
Proof.
  intros m k. unfold mux_closeStream. destruct (nth_error (m_streams m) k); [|auto].
  destruct (stream_close _ _ _); auto.
Qed.

Lemma close_all_wf : forall m, wf_mux m -> wf_mux (close_all m).
Proof.
  intros m. unfold close_all. generalize (seq 0 (List.length (m_streams m))).
  intros l; revert m; induction l as [|k l IH]; intros m W; simpl; auto.
  apply IH. apply closeStream_wf; exact W.
Qed.

Lemma apply_wop_wf : forall m o m',
  1 <= m_segmentCount m -> apply_wop m o = Some m' -> wf_mux m ->
  wf_mux m' /\ m_variant m' = m_variant m /\ m_segmentCount m' = m_segmentCount m.
Proof.
  intros m o m' Hsc H W. destruct o; simpl in H.
  - inversion H; subst. split; [|auto]. unfold wf_mux, mux_createFirstSegment; simpl.
    apply Forall_forall. intros x Hin. apply in_map_iff in Hin. destruct Hin as [y [<- Hy]].
    apply createFirst_wf. unfold wf_mux in W. rewrite Forall_forall in W. auto.
  - unfold mux_rotateParts in H.
    destruct (rotateParts_all _ _ _ _) as [[ss t]|] eqn:E; [|discriminate]. inversion H; subst.
    split; [|auto]. unfold wf_mux; simpl. eapply rotateParts_all_wf; eauto.
  - unfold mux_rotateSegments in H.
    destruct (rotateSegments_all _ _ _ _ _ _ _ _) as [[[ss t] fs]|] eqn:E; [|discriminate].
    inversion H; subst. split; [|auto]. unfold wf_mux; simpl.
    apply copy_targetDuration_wf. eapply rotateSegments_all_wf; eauto.
  - inversion H; subst. split.
    + apply close_all_wf. unfold wf_mux in *. simpl. apply Forall_forall. intros x Hin.
      apply in_map_iff in Hin. destruct Hin as [y [<- Hy]]. apply set_closed_wf.
      rewrite Forall_forall in W. auto.
    + unfold close_all. generalize (seq 0 (List.length (m_streams (set_closed m)))).
      assert (G : forall l m0, m_variant (fold_left mux_closeStream l m0) = m_variant m0 /\
                               m_segmentCount (fold_left mux_closeStream l m0) = m_segmentCount m0).
      { induction l as [|k l IH]; intros m0; simpl; auto.
        destruct (IH (mux_closeStream m0 k)) as [A B]. destruct (closeStream_variant m0 k) as [C D].
        split; congruence. }
      intros l. apply (G l (set_closed m)).
Qed.

Lemma init_mux_wf : forall v sc n lead, wf_mux (mux_init v sc n lead).
Proof.
  intros; unfold wf_mux, mux_init; simpl. apply Forall_forall. intros x Hin.
  apply repeat_spec in Hin. subst. apply init_wf.
Qed.

(* every state the writer can produce is well-formed *)
Lemma reachable_wf : forall ops m m',
  1 <= m_segmentCount m -> wf_mux m -> run_wops m ops = Some m' -> wf_mux m'.
Proof.
  induction ops as [|o r IH]; intros m m' Hsc W H; simpl in H.
  - inversion H; subst; exact W.
  - destruct (apply_wop m o) as [m1|] eqn:E; [|discriminate].
    destruct (apply_wop_wf m o m1 Hsc E W) as [W1 [_ Hs]].
    eapply IH; [|exact W1|exact H]. lia.
Qed.

(* ---- a concrete reachable Low-Latency state used by the Examples and refutations ---- *)
Definition ex_prog : list wop :=
  [WCreateFirst; WRotateParts; WRotateParts; WRotateSegments 1000000000; WRotateParts].

Definition ex_stream : stream :=
  {| nextSegmentID := 8; nextPartID := 4;
     segments := repeat (Gap 1000000000) 6 ++ [Seg 7 [0; 1; 2] 1000000000];
     nextSegment := Some [3]; segmentDeleteCount := 1; targetDuration := 1; s_closed := false |}.

Lemma ex_reachable :
  option_map m_streams (run_wops (mux_init LL 7 1 0) ex_prog) = Some [ex_stream].
Proof. vm_compute. reflexivity. Qed.

Lemma ex_wf : wf_stream LL ex_stream.
Proof.
  assert (W : wf_mux (mux_init LL 7 1 0)) by apply init_mux_wf.
  destruct (run_wops (mux_init LL 7 1 0) ex_prog) as [m|] eqn:E; [|vm_compute in E; discriminate].
  assert (Hsc : 1 <= m_segmentCount (mux_init LL 7 1 0)) by (simpl; lia).
  pose proof (reachable_wf ex_prog _ m Hsc W E) as Wm.
  pose proof ex_reachable as R. rewrite E in R. simpl in R. inversion R as [R1].
  unfold wf_mux in Wm. rewrite R1 in Wm. inversion Wm; subst.
  replace (m_variant m) with LL in *; [assumption|].
  clear - E. vm_compute in E. inversion E. reflexivity.
Qed.

Lemma ex_in_range : in_range ex_stream.
Proof. unfold in_range; simpl. reflexivity. Qed.

(* the inputs of the repaired defects F3a, F3b, F11 on this state: part 3 of segment 7 (past
   its end: part 0 of the open segment 8, which exists) and the listed gap 3 are answered;
   segment 8 without a part index waits for the complete segment *)
Lemma ex_former_findings :
  decide LL ex_stream 7 (Some 3) = Ready /\ decide LL ex_stream 3 None = Ready /\
  decide LL ex_stream 3 (Some 5) = Ready /\ decide LL ex_stream 8 None = Block.
Proof. vm_compute. auto. Qed.

(* hypotheses of the theorems are satisfiable: a blocking request that is Ready, one that
   Blocks, one that is rejected *)
Lemma ex_ready : decide LL ex_stream 8 (Some 0) = Ready.
Proof. vm_compute. auto. Qed.

Lemma ex_contained :
  exists pl, generateMediaPlaylistFMP4 LL ex_stream false [] = Some pl /\
             pl_contains pl 7 (Some 1) = true /\ pl_contains pl 7 (Some 3) = true /\
             pl_contains pl 3 None = true /\ pl_contains pl 8 None = false /\
             decide LL ex_stream 7 (Some 1) = Ready.
Proof. eexists. vm_compute. auto 10. Qed.

Lemma ex_reject : decide LL ex_stream 10 None = Respond400 /\ decide LL ex_stream 1 None = Respond400
  /\ decide LL ex_stream 9 (Some 0) = Block.
Proof. vm_compute. auto. Qed.

(* finding F28: the code's range check excludes the HEAD of the window: the first listed
   segment (media sequence number 1 here: a listed gap, contained in the playlist of the same
   state) is rejected with 400 although it has not expired *)
Lemma head_of_window_400_refuted :
  exists s M pl, wf_stream LL s /\ in_range s /\ M = head_msn s /\
    generateMediaPlaylistFMP4 LL s false [] = Some pl /\
    pl_contains pl M None = true /\ pl_contains pl M (Some 0) = true /\
    decide LL s M None = Respond400 /\ decide LL s M (Some 0) = Respond400.
Proof.
  exists ex_stream, 1. eexists. split; [apply ex_wf|]. split; [apply ex_in_range|]. vm_compute. auto 10.
Qed.
