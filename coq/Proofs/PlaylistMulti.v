(* C14, playlist level (Multivariant): Unmarshal (Marshal p) for a value p satisfying the
   documented requirements, line by line. *)
From Coq Require Import List ZArith Bool String Ascii Lia.
From GoHls Require Import Model.PlaylistBase Model.Playlist Model.PlaylistSpec
  Proofs.PlaylistStr Proofs.PlaylistNum Proofs.PlaylistAttrs Proofs.PlaylistTags Proofs.PlaylistTagsMulti
  Proofs.PlaylistTotal Proofs.PlaylistMedia.
Import ListNotations.
Local Open Scope string_scope.
Local Open Scope Z_scope.

Local Arguments fmt_int : simpl never.
Local Arguments parse_uint : simpl never.

Section WithOracles.
Variable orc : oracles.
Hypothesis OK : oracle_ok orc.

Definition runM (m : Multivariant) (s : string) (r : Multivariant) : Prop :=
  exists f, multi_loop orc f m s = Ok r.

Lemma runM_nil m : runM m "" m.
Proof. exists 1%nat. reflexivity. Qed.

Lemma runM_line m line rest m' rest' r :
  no_crlf line = true -> (line <> "" \/ rest <> "") ->
  multi_line orc m line rest = Ok (m', rest') -> runM m' rest' r -> runM m (line ++ lf ++ rest) r.
Proof.
  intros Hl Hne Hm [f Hf]. exists (S f). cbn [multi_loop]. rewrite read_line_lf by exact Hl. cbn [bind].
  replace (String.eqb line "" && String.eqb rest "") with false.
  - rewrite Hm. cbn [bind fst snd]. exact Hf.
  - symmetry. destruct Hne as [Hne|Hne].
    + destruct line; [congruence|reflexivity].
    + destruct rest; [congruence|]. apply andb_false_r.
Qed.

Lemma runM_tag m pfx body rest m' r :
  no_crlf pfx = true -> pfx <> "" -> no_crlf body = true ->
  multi_line orc m (pfx ++ body) rest = Ok (m', rest) -> runM m' rest r ->
  runM m ((pfx ++ body ++ lf) ++ rest) r.
Proof.
  intros Hp Hne Hb Hm Hr. rewrite !app_assoc'. rewrite <- (app_assoc' pfx body).
  eapply runM_line; eauto.
  - now rewrite no_crlf_app, Hp, Hb.
  - left. destruct pfx; [congruence|discriminate].
Qed.

Lemma mm_blank m s : multi_line orc m "" s = Ok (m, s).
Proof. reflexivity. Qed.

Lemma mm_version m body s : multi_line orc m ("#EXT-X-VERSION:" ++ body) s =
  do tmp <- of_option (parse_uint 31 body) ;;
  if tmp >? maxSupportedVersion then Err else Ok (mv_set_version m tmp, s).
Proof. reflexivity. Qed.

Lemma mm_independent m s : multi_line orc m "#EXT-X-INDEPENDENT-SEGMENTS" s = Ok (mv_set_independent m true, s).
Proof. reflexivity. Qed.

Lemma mm_start m body s : multi_line orc m ("#EXT-X-START:" ++ body) s =
  do t <- start_unmarshal orc body ;; Ok (mv_set_start m (Some t), s).
Proof. reflexivity. Qed.

Lemma mm_streaminf m body s : multi_line orc m ("#EXT-X-STREAM-INF:" ++ body) s =
  do ls <- read_line s ;;
  let '(line2, s') := ls in
  do v <- variant_unmarshal orc (body ++ lf ++ line2) ;;
  Ok (mv_set_variants m (mv_variants m ++ [v]), s').
Proof. reflexivity. Qed.

Lemma mm_media m body s : multi_line orc m ("#EXT-X-MEDIA:" ++ body) s =
  do r <- rendition_unmarshal body ;; Ok (mv_set_renditions m (mv_renditions m ++ [r]), s).
Proof. reflexivity. Qed.

Lemma mv_eta :
  (forall m, mv_independent m = false -> mv_set_independent m false = m)
  /\ (forall m, mv_start m = None -> mv_set_start m None = m)
  /\ (forall m, mv_set_variants m (mv_variants m) = m)
  /\ (forall m, mv_set_renditions m (mv_renditions m) = m).
Proof. repeat split; intros m; intros; destruct m; simpl in *; subst; reflexivity. Qed.

Lemma mh_version m v REST r : 0 <= v <= maxSupportedVersion ->
  runM (mv_set_version m v) REST r -> runM m ("#EXT-X-VERSION:" ++ fmt_int v ++ lf ++ REST) r.
Proof.
  intros Hv H. rewrite reassoc3. unfold maxSupportedVersion in Hv.
  eapply runM_tag; [reflexivity|discriminate|apply fmt_int_no_crlf; lia| |exact H].
  rewrite mm_version, parse_uint_fmt_int by lia. cbn [of_option bind].
  replace (v >? maxSupportedVersion) with false; [reflexivity|].
  symmetry. unfold maxSupportedVersion. rewrite Z.gtb_ltb. apply Z.ltb_ge. lia.
Qed.

Lemma mh_independent m (b : bool) REST r : mv_independent m = false ->
  runM (mv_set_independent m b) REST r ->
  runM m ((if b then "#EXT-X-INDEPENDENT-SEGMENTS" ++ lf else "") ++ REST) r.
Proof.
  intros Hm H. destruct b.
  - rewrite app_assoc'. eapply runM_line; [reflexivity|left; discriminate|apply mm_independent|exact H].
  - destruct mv_eta as (E & _). rewrite E in H by exact Hm. exact H.
Qed.

Lemma mh_start st : opt_ok (fun t => dur_signed (st_timeoffset t)) st = true ->
  exists st', opt_eqvb start_eqvb st st' = true
    /\ match st' with Some t => start_marshal orc t | None => "" end =
       match st with Some t => start_marshal orc t | None => "" end
    /\ forall m REST r, mv_start m = None -> runM (mv_set_start m st') REST r ->
         runM m (match st with Some t => start_marshal orc t | None => "" end ++ REST) r.
Proof.
  intros Hwf. destruct st as [t|]; cbn [opt_ok] in *.
  - destruct (start_roundtrip orc OK t Hwf) as (t' & Hu & He & Hf).
    exists (Some t'). split; [exact He|]. split; [exact Hf|]. intros m REST r Hm H.
    rewrite start_marshal_render.
    eapply runM_tag; [reflexivity|discriminate|apply render_attrs_no_crlf, start_attrs_ok; auto| |exact H].
    rewrite mm_start, Hu. reflexivity.
  - exists None. split; [reflexivity|]. split; [reflexivity|]. intros m REST r Hm H.
    destruct mv_eta as (_ & E & _). rewrite E in H by exact Hm. exact H.
Qed.

Lemma mv_set_renditions_twice m x y : mv_set_renditions (mv_set_renditions m x) y = mv_set_renditions m y.
Proof. reflexivity. Qed.
Lemma mv_set_variants_twice m x y : mv_set_variants (mv_set_variants m x) y = mv_set_variants m y.
Proof. reflexivity. Qed.

Lemma renditions_run : forall rs m REST r, forallb wf_rendition rs = true ->
  runM (mv_set_renditions m (mv_renditions m ++ rs)) REST r ->
  runM m (String.concat "" (map rendition_marshal rs) ++ REST) r.
Proof.
  induction rs as [|x rs IH]; intros m REST r Hwf H.
  - rewrite app_nil_r in H. destruct mv_eta as (_ & _ & _ & E). rewrite E in H. exact H.
  - cbn [forallb] in Hwf. apply andb_true_iff in Hwf as [Hx Hrs].
    cbn [map]. rewrite concat_cons, app_assoc', rendition_marshal_render.
    eapply runM_tag; [reflexivity|discriminate|apply render_attrs_no_crlf, rendition_attrs_ok; auto| |].
    + rewrite mm_media, rendition_roundtrip by auto. reflexivity.
    + apply IH; [exact Hrs|]. rewrite mv_set_renditions_twice. cbn [mv_renditions mv_set_renditions].
      rewrite <- app_assoc. exact H.
Qed.

Lemma variants_run : forall vs m REST r, forallb wf_variant vs = true ->
  runM (mv_set_variants m (mv_variants m ++ vs)) REST r ->
  runM m (String.concat "" (map (variant_marshal orc) vs) ++ REST) r.
Proof.
  induction vs as [|x vs IH]; intros m REST r Hwf H.
  - rewrite app_nil_r in H. destruct mv_eta as (_ & _ & E & _). rewrite E in H. exact H.
  - cbn [forallb] in Hwf. apply andb_true_iff in Hwf as [Hx Hvs].
    pose proof (variant_attrs_ok orc OK x Hx) as Hok.
    assert (Hu : uri_line_ok (v_uri x) = true) by (unfold wf_variant in Hx; split_and Hx; assumption).
    destruct (uri_line_facts _ Hu) as (Hn & c & rr & Eu & Hc).
    cbn [map]. rewrite concat_cons, app_assoc', (variant_marshal_render orc).
    rewrite !app_assoc'. rewrite <- (app_assoc' "#EXT-X-STREAM-INF:" (render_attrs (variant_attrs orc x))).
    eapply runM_line.
    + rewrite no_crlf_app. rewrite (render_attrs_no_crlf _ Hok). reflexivity.
    + left. discriminate.
    + rewrite mm_streaminf, read_line_lf by exact Hn. cbn [bind].
      rewrite (variant_roundtrip orc OK) by exact Hx. reflexivity.
    + apply IH; [exact Hvs|]. rewrite mv_set_variants_twice. cbn [mv_variants mv_set_variants].
      rewrite <- app_assoc. exact H.
Qed.

Lemma multi_loop_mono f : forall m s R f',
  multi_loop orc f m s = R -> R <> OutOfFuel -> (f <= f')%nat -> multi_loop orc f' m s = R.
Proof.
  induction f as [|f IH]; intros m s R f' H Hn Hle; simpl in H; [congruence|].
  destruct f' as [|f']; [lia|]. cbn [multi_loop].
  destruct (read_line s) as [[line s']| | |]; cbn [bind] in *; auto.
  destruct (String.eqb line "" && String.eqb s' ""); auto.
  destruct (multi_line orc m line s') as [[m1 s1]| | |]; cbn [bind fst snd] in *; auto.
  apply IH with (f' := f') in H; auto. lia.
Qed.

Lemma runM_fuel m s r f : runM m s r -> safe (multi_loop orc f m s) -> multi_loop orc f m s = Ok r.
Proof.
  intros [f0 H0] Hs.
  destruct (Nat.le_ge_cases f0 f) as [Hle|Hle].
  - eapply multi_loop_mono; eauto. discriminate.
  - assert (Hn : multi_loop orc f m s <> OutOfFuel) by (intros E; rewrite E in Hs; exact Hs).
    pose proof (multi_loop_mono f m s _ f0 eq_refl Hn Hle) as E. congruence.
Qed.

Lemma variant_marshal_nonempty v : variant_marshal orc v <> "".
Proof. unfold variant_marshal. discriminate. Qed.

Lemma list_eqvb_refl {A} (f : A -> A -> bool) l : (forall x, f x x = true) -> list_eqvb f l l = true.
Proof. intros H. induction l; simpl; auto. now rewrite H, IHl. Qed.

Lemma variant_eqvb_refl v : variant_eqvb v v = true.
Proof.
  unfold variant_eqvb. rewrite !Z.eqb_refl, !String.eqb_refl, !opt_eqvb_Z_refl.
  now rewrite (list_eqvb_refl String.eqb _ String.eqb_refl).
Qed.

Lemma rendition_eqvb_refl r : rendition_eqvb r r = true.
Proof.
  unfold rendition_eqvb. rewrite !String.eqb_refl, !eqb_reflx.
  now rewrite !(opt_eqvb_refl String.eqb _ String.eqb_refl).
Qed.

Theorem multivariant_roundtrip p : wf_multivariant p = true ->
  exists p', multivariant_unmarshal orc (multivariant_marshal orc p) = Ok p'
    /\ multivariant_eqvb p p' = true
    /\ multivariant_marshal orc p' = multivariant_marshal orc p.
Proof.
  unfold wf_multivariant. intros H. split_and H.
  destruct p as [ver indep start variants renditions].
  cbn [mv_version mv_independent mv_start mv_variants mv_renditions] in *.
  assert (Hver1 : 0 <= ver) by (apply Z.leb_le; assumption).
  assert (Hver2 : ver <= maxSupportedVersion) by (apply Z.leb_le; assumption).
  assert (Hst : opt_ok (fun t => dur_signed (st_timeoffset t)) start = true) by assumption.
  assert (Hne : negb (Nat.eqb (List.length variants) 0) = true) by assumption.
  assert (Hvs : forallb wf_variant variants = true) by assumption.
  assert (Hrs : forallb wf_rendition renditions = true) by assumption.
  destruct (mh_start start Hst) as (start' & Est & Fst & Rst).
  set (p' := {| mv_version := ver; mv_independent := indep; mv_start := start';
                mv_variants := variants; mv_renditions := renditions |}).
  exists p'. split; [|split].
  - unfold multivariant_unmarshal, multivariant_marshal.
    cbn [mv_version mv_independent mv_start mv_variants mv_renditions].
    unfold skip_header. rewrite read_line_lf by reflexivity. cbn [bind String.eqb Ascii.eqb Bool.eqb].
    match goal with |- context [multi_loop orc ?f ?st ?s] => assert (Hrun : runM st s p') end.
    { apply mh_version; [unfold maxSupportedVersion in *; lia|].
      apply mh_independent; [reflexivity|].
      apply Rst; [reflexivity|].
      assert (Hvne : String.concat "" (map (variant_marshal orc) variants) <> "").
      { destruct variants as [|v vs]; [discriminate Hne|]. cbn [map]. rewrite concat_cons.
        pose proof (variant_marshal_nonempty v). destruct (variant_marshal orc v); [congruence|discriminate]. }
      destruct (Nat.eqb (List.length renditions) 0) eqn:El; cbn [negb].
      - (* no renditions *)
        destruct renditions; [|discriminate El].
        cbn [append]. change (lf ++ ?x) with ("" ++ lf ++ x).
        eapply runM_line; [reflexivity|right; exact Hvne|apply mm_blank|].
        rewrite <- (app_empty_r (String.concat "" (map (variant_marshal orc) variants))).
        apply variants_run; [exact Hvs|]. apply runM_nil.
      - rewrite !app_assoc'. change (lf ++ ?x) with ("" ++ lf ++ x) at 1.
        eapply runM_line; [reflexivity| |apply mm_blank|].
        { right. destruct renditions as [|x rs]; [discriminate El|]. cbn [map]. rewrite concat_cons.
          rewrite rendition_marshal_render. discriminate. }
        apply renditions_run; [exact Hrs|].
        change (lf ++ ?x) with ("" ++ lf ++ x).
        eapply runM_line; [reflexivity|right; exact Hvne|apply mm_blank|].
        rewrite <- (app_empty_r (String.concat "" (map (variant_marshal orc) variants))).
        apply variants_run; [exact Hvs|]. apply runM_nil. }
    rewrite (runM_fuel _ _ _ _ Hrun).
    2:{ apply multi_loop_safe. rewrite !slen_app. simpl. lia. }
    cbn [bind]. unfold p'. cbn [mv_variants].
    apply negb_true_iff in Hne. rewrite Hne. reflexivity.
  - unfold multivariant_eqvb, p'. cbn [mv_version mv_independent mv_start mv_variants mv_renditions].
    rewrite Z.eqb_refl, eqb_reflx, Est.
    rewrite (list_eqvb_refl _ _ variant_eqvb_refl), (list_eqvb_refl _ _ rendition_eqvb_refl). reflexivity.
  - unfold multivariant_marshal, p'. cbn [mv_version mv_independent mv_start mv_variants mv_renditions].
    now rewrite Fst.
Qed.

End WithOracles.
