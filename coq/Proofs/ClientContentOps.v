(* M9 proofs, part 1: per-operation lemmas. Every lemma here quantifies over ALL arguments of
   one operation of one goroutine, so it holds under every interleaving. *)
From Coq Require Import List ZArith Bool String Lia.
From GoHls Require Import Model.ClientContent.
Import ListNotations.
Local Open Scope Z_scope.

Ltac dif := match goal with |- context [if ?c then _ else _] => destruct c eqn:? end.

Definition is_oof {A} (r : res A) : bool := match r with OutOfFuel => true | _ => false end.

(* ---------- bind ---------- *)
Lemma bind_np : forall A B (m : res A) (k : A -> res B),
  is_panic m = false -> (forall a, m = Ok a -> is_panic (k a) = false) -> is_panic (bind m k) = false.
Proof. intros A B m k Hm Hk. destruct m; cbn in *; auto. Qed.

Lemma bind_noof : forall A B (m : res A) (k : A -> res B),
  is_oof m = false -> (forall a, m = Ok a -> is_oof (k a) = false) -> is_oof (bind m k) = false.
Proof. intros A B m k Hm Hk. destruct m; cbn in *; auto. Qed.

Lemma bind_ok : forall A B (m : res A) (k : A -> res B) b,
  bind m k = Ok b -> exists a, m = Ok a /\ k a = Ok b.
Proof. intros A B m k b H. destruct m; cbn in H; try discriminate. eauto. Qed.

(* ---------- indexing ---------- *)
Lemma index_at_ok : forall A (l : list A) i,
  0 <= i < zlen l -> exists x, index_at l i = Ok x /\ nth_error l (Z.to_nat i) = Some x.
Proof.
  intros A l i [H0 H1]. unfold index_at, zlen in *.
  destruct (i <? 0) eqn:E; [apply Z.ltb_lt in E; lia|].
  destruct (nth_error l (Z.to_nat i)) eqn:N; eauto.
  apply nth_error_None in N. lia.
Qed.

Lemma index_at_noof : forall A (l : list A) i, is_oof (index_at l i) = false.
Proof. intros. unfold index_at. destruct (i <? 0); auto. destruct (nth_error _ _); auto. Qed.

Lemma deref_noof : forall A (o : option A), is_oof (deref o) = false.
Proof. intros. destruct o; auto. Qed.

(* ---------- arithmetic ---------- *)
Lemma mad_ok : forall v m d, d <> 0 -> exists x, multiplyAndDivide v m d = Ok x.
Proof.
  intros v m d Hd. unfold multiplyAndDivide.
  destruct (d =? 0) eqn:E; [apply Z.eqb_eq in E; contradiction|]. eauto.
Qed.

Lemma mad_zero : forall v m, multiplyAndDivide v m 0 = Panic PDivZero.
Proof. reflexivity. Qed.

Lemma mad_noof : forall v m d, is_oof (multiplyAndDivide v m d) = false.
Proof. intros. unfold multiplyAndDivide. destruct (d =? 0); auto. Qed.

Lemma mad_cases : forall v m d,
  (d = 0 /\ multiplyAndDivide v m d = Panic PDivZero) \/ (d <> 0 /\ exists x, multiplyAndDivide v m d = Ok x).
Proof.
  intros. destruct (Z.eq_dec d 0) as [->|H]; [left; split; auto|right; split; auto; apply mad_ok; auto].
Qed.

Lemma t2d_ok : forall d cr, cr <> 0 -> exists x, timestampToDuration d cr = Ok x.
Proof. intros. apply mad_ok; auto. Qed.

(* ---------- handleData ---------- *)
Lemma handleData_np : forall cr el pts dts, cr <> 0 -> is_panic (handleData cr el pts dts) = false.
Proof.
  intros cr el pts dts H. unfold handleData.
  destruct (pts <? 0); auto.
  destruct (t2d_ok dts cr H) as [x ->]. cbn.
  repeat dif; auto.
Qed.

Lemma handleData_noof : forall cr el pts dts, is_oof (handleData cr el pts dts) = false.
Proof.
  intros. unfold handleData. destruct (pts <? 0); auto.
  unfold timestampToDuration, multiplyAndDivide. destruct (cr =? 0); auto. cbn.
  repeat dif; auto.
Qed.

(* a track at zero clock rate panics on the first sample that is not discarded *)
Lemma handleData_zero : forall el pts dts, 0 <= pts -> handleData 0 el pts dts = Panic PDivZero.
Proof.
  intros. unfold handleData. destruct (pts <? 0) eqn:E; [apply Z.ltb_lt in E; lia|]. reflexivity.
Qed.

(* ---------- clientTrackProcessorFMP4 ---------- *)
Definition tproc_ok (tp : tproc) : Prop :=
  tp_decode tp <> None /\ t_clockRate (tp_track tp) <> 0.

Lemma process_loop_np : forall tp el edts entp samples dts n,
  tproc_ok tp -> is_panic (process_loop tp el edts entp dts samples n) = false.
Proof.
  intros tp el edts entp samples. induction samples as [|s rest IH]; intros dts n [Hd Hc]; cbn; auto.
  destruct (tp_decode tp) as [d|] eqn:D; [|contradiction].
  destruct (decodePayload d s); cbn; auto.
  apply bind_np.
  - destruct entp; cbn; auto.
    destruct (t2d_ok (sub64 dts edts) _ Hc) as [x ->]. reflexivity.
  - intros _ _. apply bind_np; [apply handleData_np; auto|].
    intros r _. apply IH. split; [rewrite D; discriminate|auto].
Qed.

Lemma process_loop_noof : forall tp el edts entp samples dts n,
  is_oof (process_loop tp el edts entp dts samples n) = false.
Proof.
  intros tp el edts entp samples. induction samples as [|s rest IH]; intros dts n; cbn; auto.
  destruct (tp_decode tp) as [d|]; auto.
  destruct (decodePayload d s); cbn; auto.
  apply bind_noof.
  - destruct entp; cbn; auto. apply bind_noof; [apply mad_noof|auto].
  - intros _ _. apply bind_noof; [apply handleData_noof|]. intros. apply IH.
Qed.

Lemma process_np : forall tp el dts ntp samples, tproc_ok tp -> is_panic (process tp el dts ntp samples) = false.
Proof. intros. apply process_loop_np; auto. Qed.

(* the finding, at operation level: a processor without decodePayload panics on its first sample *)
Lemma process_nil_decoder : forall tp el dts ntp s rest,
  tp_decode tp = None -> process tp el dts ntp (s :: rest) = Panic PNilFunc.
Proof. intros tp el dts ntp s rest H. unfold process. cbn. rewrite H. reflexivity. Qed.

Lemma tp_initialize_none : forall t, tp_initialize t = None <-> t_codec t = None.
Proof. intros [c r]. unfold tp_initialize. cbn. destruct c as [[]|]; split; intro; congruence. Qed.

(* ---------- clientTimeConvFMP4 ---------- *)
Definition tconv_ok (tc : tconv) : Prop :=
  tc_lts tc <> 0 /\ match tc_ntp tc with Some (_, _, ncr) => ncr <> 0 | None => True end.

Lemma fconvert_ok : forall tc v cr, tc_lts tc <> 0 -> exists x, fconvert tc v cr = Ok x.
Proof.
  intros tc v cr H. unfold fconvert. destruct (mad_ok (tc_lbt tc) cr _ H) as [x ->]. cbn. eauto.
Qed.

Lemma fconvert_noof : forall tc v cr, is_oof (fconvert tc v cr) = false.
Proof. intros. unfold fconvert. apply bind_noof; [apply mad_noof|auto]. Qed.

Lemma fgetNTP_ok : forall tc ts cr, tconv_ok tc -> cr <> 0 -> exists x, fgetNTP tc ts cr = Ok x.
Proof.
  intros tc ts cr [_ Hn] Hc. unfold fgetNTP. destruct (tc_ntp tc) as [[[v nts] ncr]|]; eauto.
  destruct (mad_ok nts cr ncr Hn) as [x ->]. cbn.
  destruct (t2d_ok (sub64 ts x) cr Hc) as [y ->]. cbn. eauto.
Qed.

Lemma fgetNTP_noof : forall tc ts cr, is_oof (fgetNTP tc ts cr) = false.
Proof.
  intros. unfold fgetNTP. destruct (tc_ntp tc) as [[[v nts] ncr]|]; auto.
  apply bind_noof; [apply mad_noof|]. intros. apply bind_noof; [apply mad_noof|auto].
Qed.

(* ---------- clientTimeConvMPEGTS ---------- *)
Lemma tgetNTP_ok : forall c ts, exists x, tgetNTP c ts = Ok x.
Proof.
  intros. unfold tgetNTP. destruct (tn_ntp c) as [[v nts]|]; eauto.
  destruct (t2d_ok (sub64 ts nts) 90000) as [x ->]; [lia|]. cbn. eauto.
Qed.

(* ---------- codecs ---------- *)
Lemma FromFMP4_supported : forall c,
  FromFMP4 c <> None <-> In c [FAV1; FVP9; FH265; FH264; FOpus; FMPEG4Audio].
Proof. intros []; cbn; split; intro H; try congruence; intuition congruence. Qed.

Lemma FromMPEGTS_supported : forall c, ts_supported c = true -> FromMPEGTS c <> None.
Proof. intros []; cbn; congruence. Qed.
