(* C04 (and C02): all streams of one muxer expose the same media sequence numbers and durations at the
   same time.  In every state reachable between two writes all streams have the same SHAPE: segment
   counter, number of evicted segments (= EXT-X-MEDIA-SEQUENCE), the listed segments' gap flags, ids,
   start and end times (hence durations) and wall clocks, and the open segment's id, start and wall clock. *)
From Coq Require Import List ZArith Bool Lia Arith.
From GoHls Require Import Model.Mux Proofs.MuxStream Proofs.MuxLift Proofs.MuxWindow Proofs.MuxHistory Proofs.MuxTimes
  Proofs.MuxMulti Proofs.MuxCut Proofs.MuxLog Proofs.MuxLogStep Proofs.MuxLogTS Proofs.MuxPartIds.
Import ListNotations.
Local Open Scope Z_scope.

Definition seg_shape (g : segrec) : bool * Z * Z * Z * Z := (sg_gap g, sg_id g, sg_start g, sg_end g, sg_ntp g).
Definition open_shape (g : segrec) : bool * Z * Z * Z := (sg_gap g, sg_id g, sg_start g, sg_ntp g).
Definition shape (s : stream) : Z * Z * list (bool * Z * Z * Z * Z) * option (bool * Z * Z * Z) :=
  (st_nextSeg s, st_delcount s, map seg_shape (st_segments s), option_map open_shape (st_open s)).

(* ---- one rotation maps equal shapes to equal shapes ---- *)
Lemma with_gaps_shape v segs1 segs2 g1 g2 :
  map seg_shape segs1 = map seg_shape segs2 -> seg_shape g1 = seg_shape g2 ->
  map seg_shape (with_gaps v segs1 g1) = map seg_shape (with_gaps v segs2 g2).
Proof.
  intros E1 E2. unfold with_gaps. destruct v; auto.
  destruct segs1, segs2; try discriminate; auto.
  unfold seg_shape in E2. injection E2 as Ea Eb Ec Ed. unfold sg_dur. now rewrite Ec, Ed.
Qed.

Lemma window_append_shape v sc segs1 segs2 g1 g2 :
  map seg_shape segs1 = map seg_shape segs2 -> seg_shape g1 = seg_shape g2 ->
  map seg_shape (fst (window_append v sc segs1 g1)) = map seg_shape (fst (window_append v sc segs2 g2))
  /\ (snd (window_append v sc segs1 g1) = None <-> snd (window_append v sc segs2 g2) = None).
Proof.
  intros E1 E2. unfold window_append.
  pose proof (with_gaps_shape v segs1 segs2 g1 g2 E1 E2) as Eg.
  assert (El : map seg_shape (with_gaps v segs1 g1 ++ [g1]) = map seg_shape (with_gaps v segs2 g2 ++ [g2]))
    by (rewrite !map_app, Eg; simpl; now rewrite E2).
  assert (Elen : length (with_gaps v segs1 g1 ++ [g1]) = length (with_gaps v segs2 g2 ++ [g2]))
    by (rewrite <- (map_length seg_shape), El, map_length; reflexivity).
  rewrite Elen. destruct (sc <? _).
  - destruct (with_gaps v segs1 g1 ++ [g1]) as [|a r1], (with_gaps v segs2 g2 ++ [g2]) as [|b r2]; try discriminate.
    + simpl. tauto.
    + simpl in *. assert (Hr : map seg_shape r1 = map seg_shape r2) by (injection El; auto). split; [exact Hr|split; discriminate].
  - simpl. split; [exact El|tauto].
Qed.

Lemma srot_segments_shape v sc a ga b gb d ntp f1 c1 f2 c2 :
  shape a = shape b -> st_open a = Some ga -> st_open b = Some gb ->
  shape (fst (fst (srot_segments v sc a ga d ntp f1 c1))) = shape (fst (fst (srot_segments v sc b gb d ntp f2 c2))).
Proof.
  intros Es Ha Hb. unfold shape in Es. rewrite Ha, Hb in Es. cbn [option_map] in Es.
  assert (E1 : st_nextSeg a = st_nextSeg b) by congruence.
  assert (E2 : st_delcount a = st_delcount b) by congruence.
  assert (E3 : map seg_shape (st_segments a) = map seg_shape (st_segments b)) by congruence.
  assert (E4 : open_shape ga = open_shape gb) by congruence.
  destruct (srot_segments_frame v sc a ga d ntp f1 c1) as (A1 & _ & A3 & A4 & _ & A6 & _).
  destruct (srot_segments_frame v sc b gb d ntp f2 c2) as (B1 & _ & B3 & B4 & _ & B6 & _).
  assert (Eg : seg_shape (sg_with_end ga d) = seg_shape (sg_with_end gb d)).
  { unfold open_shape in E4. unfold seg_shape. cbn [sg_with_end sg_gap sg_id sg_start sg_end sg_ntp]. congruence. }
  destruct (window_append_shape v sc (st_segments a) (st_segments b) _ _ E3 Eg) as [W1 W2].
  unfold shape. rewrite A1, A3, A4, A6, B1, B3, B4, B6, W1, E1. cbn [option_map open_shape new_seg sg_gap sg_id sg_start sg_ntp].
  repeat f_equal.
  destruct (snd (window_append v sc (st_segments a) (sg_with_end ga d))),
           (snd (window_append v sc (st_segments b) (sg_with_end gb d))); try lia;
    exfalso; destruct W2 as [W2a W2b]; (discriminate (W2a eq_refl) || discriminate (W2b eq_refl)).
Qed.

Lemma srot_parts_shape v s seg p d cn : st_open s = Some seg -> shape (fst (srot_parts v s seg p d cn)) = shape s.
Proof.
  intros Ho. destruct (srot_parts_frame v s seg p d cn) as (F1 & _ & F3 & F4 & _ & _ & _ & F8 & _).
  unfold shape. now rewrite F1, F3, F4, F8, Ho.
Qed.

Lemma copy_targets_shape both l s : shape (copy_targets both l s) = shape s.
Proof. unfold copy_targets. destruct (st_leading s); reflexivity. Qed.

(* what one own rotation does, up to shape: the result is a rotation of a stream of the same shape *)
Definition Rot (v : variant) (sc d ntp : Z) (s s' : stream) : Prop :=
  st_leading s' = st_leading s /\
  exists s0 g0 f cur, shape s0 = shape s /\ st_open s0 = Some g0 /\
                          shape s' = shape (fst (fst (srot_segments v sc s0 g0 d ntp f cur))).

Lemma rots_own_rot m li d ntp f s :
  nth_error (m_streams m) li = Some s -> st_open s <> None ->
  exists s1, nth_error (m_streams (stream_rotateSegments m li d ntp f)) li = Some s1
             /\ Rot (c_variant (m_cfg m)) (c_segcount (m_cfg m)) d ntp s s1.
Proof.
  intros Hs Ho.
  destruct (rots_own m li d ntp f s Hs Ho) as (s1 & Hs1 & Hn1 & Hl1).
  exists s1. split; [exact Hs1|]. split; [exact Hl1|].
  pose proof (stream_rotateSegments_streams m li d ntp f) as HS. cbv zeta in HS.
  set (m1 := match c_variant (m_cfg m) with MPEGTS => m | _ => stream_rotateParts m li d false end) in *.
  (* stream li of m1: same shape as s, still open *)
  assert (H1 : exists s0, nth_error (m_streams m1) li = Some s0 /\ shape s0 = shape s /\ st_open s0 <> None).
  { destruct (st_open s) as [seg|] eqn:Eo; [|congruence].
    assert (Hp : forall cn, exists s0, nth_error (m_streams (stream_rotateParts m li d cn)) li = Some s0
                                    /\ shape s0 = shape s /\ st_open s0 <> None).
    { intros cn. destruct (stream_rotateParts_streams m li d cn) as [E|(sx & segx & px & Esx & Eox & Epx & E)]; rewrite E.
      - exists s. rewrite Eo. split; [exact Hs|]. split; [reflexivity|discriminate].
      - rewrite Hs in Esx. injection Esx as <-. eexists. split; [apply (nth_error_upd_same _ li _ s Hs)|].
        split; [now apply srot_parts_shape|].
        destruct (srot_parts_frame (c_variant (m_cfg m)) s segx (fst (part_finalize px (m_tracks m) (st_tracks s) d)) d cn)
          as (_ & _ & _ & _ & _ & _ & _ & F8 & _). rewrite F8. discriminate. }
    subst m1. destruct (c_variant (m_cfg m)); [exists s; rewrite Eo; split; [exact Hs|]; split; [reflexivity|discriminate]|apply Hp|apply Hp]. }
  destruct H1 as (s0 & Es0 & Sh0 & Oo0).
  destruct HS as [E|(sx & segx & cur & Esx & Eox & E)].
  - (* no rotation: impossible, the counter advanced *)
    exfalso. rewrite E, Es0 in Hs1. injection Hs1 as <-.
    unfold shape in Sh0. injection Sh0 as A _ _ _. lia.
  - rewrite E in Hs1. rewrite Es0 in Esx. injection Esx as <-.
    rewrite (nth_error_upd_same _ li _ s0 Es0) in Hs1. injection Hs1 as <-.
    exists s0, segx, f, cur. auto.
Qed.

(* ---- every stream of the leading-or-non-leading kind is rotated exactly once by the composite ---- *)
Lemma rotate_others_rot m1 d ntp f j s :
  (j < length (m_streams m1))%nat ->
  nth_error (m_streams m1) j = Some s -> st_leading s = false -> st_open s <> None ->
  (forall m i, m_cfg (stream_rotateSegments m i d ntp f) = m_cfg m) ->
  exists s', nth_error (m_streams (rotate_others m1 (fun m i => stream_rotateSegments m i d ntp f) true)) j = Some s'
             /\ exists mm, m_cfg mm = m_cfg m1 /\ Rot (c_variant (m_cfg mm)) (c_segcount (m_cfg mm)) d ntp s s'.
Proof.
  intros Hlt Hj Hl Ho Hcfg. unfold rotate_others. rewrite (seq_split j _ Hlt), fold_left_app.
  cbn [fold_left].
  set (F := fun (m : mstate) (i : nat) => match nth_error (m_streams m) i with
     | Some s0 => if st_leading s0 then m
                  else match leading_stream (stream_rotateSegments m i d ntp f) with
                       | Some l => upd_stream (stream_rotateSegments m i d ntp f) i (copy_targets true l)
                       | None => stream_rotateSegments m i d ntp f end
     | None => m end).
  set (ma := fold_left F (seq 0 j) m1).
  assert (Ha : nth_error (m_streams ma) j = Some s).
  { subst ma F. rewrite (rotate_fold_other (fun m i => stream_rotateSegments m i d ntp f) true j).
    - exact Hj.
    - intros m i Hij. now apply rots_other.
    - rewrite in_seq. lia. }
  assert (Hca : m_cfg ma = m_cfg m1).
  { subst ma. apply (cfg_fold F (seq 0 j)). intros m i. subst F. cbv beta.
    destruct (nth_error (m_streams m) i) as [s0|]; [|reflexivity]. destruct (st_leading s0); [reflexivity|].
    destruct (leading_stream _); [unfold upd_stream; cbn [set_stream m_cfg]|]; apply Hcfg. }
  rewrite (rotate_fold_other (fun m i => stream_rotateSegments m i d ntp f) true j).
  2:{ intros m i Hij. now apply rots_other. }
  2:{ rewrite in_seq. lia. }
  rewrite Ha, Hl.
  destruct (rots_own_rot ma j d ntp f s Ha Ho) as (s1 & Hs1 & Hc).
  destruct (leading_stream (stream_rotateSegments ma j d ntp f)) as [l|].
  - unfold upd_stream. cbn [set_stream m_streams].
    rewrite (nth_error_upd_same _ j _ s1 Hs1). eexists. split; [reflexivity|]. exists ma. split; [exact Hca|].
    destruct Hc as (C1 & s0 & g0 & f0 & cur0 & C2 & C3 & C4).
    split; [rewrite copy_targets_leading; exact C1|]. exists s0, g0, f0, cur0.
    repeat split; auto. now rewrite copy_targets_shape.
  - exists s1. split; [exact Hs1|]. exists ma. auto.
Qed.

Theorem rotateSegments_rots_all m d ntp f sl :
  leading_stream m = Some sl -> st_leading sl = true ->
  forall j s, nth_error (m_streams m) j = Some s -> st_open s <> None ->
              (j = leading_index m \/ st_leading s = false) ->
  exists s', nth_error (m_streams (rotateSegments m d ntp f)) j = Some s'
             /\ Rot (c_variant (m_cfg m)) (c_segcount (m_cfg m)) d ntp s s'.
Proof.
  intros Hsl Hll j s Hj Ho [->|Hl].
  - rewrite leading_stream_nth in Hsl. rewrite Hsl in Hj. injection Hj as <-.
    destruct (rots_own_rot m (leading_index m) d ntp f sl Hsl Ho) as (s1 & Hs1 & Hc).
    exists s1. split; [|exact Hc]. unfold rotateSegments.
    apply rotate_others_keeps_leading; auto using rots_other, flags_rots.
    destruct Hc as (C1 & _). congruence.
  - assert (Hne : leading_index m <> j).
    { intros E. rewrite leading_stream_nth, E, Hj in Hsl. injection Hsl as <-. congruence. }
    unfold rotateSegments.
    destruct (rotate_others_rot (stream_rotateSegments m (leading_index m) d ntp f) d ntp f j s) as (s' & Hs' & mm & Hmm & HR); auto.
    + rewrite <- (map_length st_leading), flags_rots, map_length. apply nth_error_Some. congruence.
    + rewrite rots_other by exact Hne. exact Hj.
    + intros; apply cfg_stream_rotateSegments.
    + exists s'. split; [exact Hs'|]. rewrite Hmm, cfg_stream_rotateSegments in HR. exact HR.
Qed.

(* ================================================================================================
   The agreement invariant.
   ================================================================================================ *)
Definition Agree (m : mstate) : Prop := exists sh, Forall (fun s => shape s = sh) (m_streams m).

Record AGI (m : mstate) : Prop := {
  ag_sync : SYNC m;
  ag_lead : OneLead (map st_leading (m_streams m));
  ag_agree : Agree m
}.

(* ---- SYNC through the primitive operations ---- *)
Lemma SYNC_rotp m si d cn : SYNC m -> SYNC (stream_rotateParts m si d cn).
Proof.
  intros HS. destruct (rotp_spec m si d cn) as [[E1 E2]|(s & seg & p0 & Es & Eo & Ep & E1 & E2)]; cbv zeta in *.
  - apply (SYNC_pointwise m); [now rewrite E2|rewrite E1; apply Forall2_same; apply SameOpen_refl|exact HS].
  - apply (SYNC_pointwise m); [rewrite E2; apply tk_stream_of_static; apply part_finalize_static| |exact HS].
    rewrite E1. apply Forall2_upd_const with (s := s); auto using SameOpen_refl.
    destruct (srot_parts_frame (c_variant (m_cfg m)) s seg (fst (part_finalize p0 (m_tracks m) (st_tracks s) d)) d cn)
      as (_ & _ & _ & _ & _ & _ & _ & F8 & _).
    unfold SameOpen. rewrite F8, Eo. split; discriminate.
Qed.

Lemma SYNC_rots m si d ntp f : SYNC m -> SYNC (stream_rotateSegments m si d ntp f).
Proof.
  intros HS. pose proof (rots_spec m si d ntp f) as [HS' HT]. cbv zeta in HS', HT.
  set (m1 := match c_variant (m_cfg m) with MPEGTS => m | _ => stream_rotateParts m si d false end) in *.
  assert (S1 : SYNC m1) by (subst m1; destruct (c_variant (m_cfg m)); auto using SYNC_rotp).
  destruct HS' as [E|(s & seg0 & cur & Es & Eo & E)].
  - apply (SYNC_pointwise m1); [now rewrite HT|rewrite E; apply Forall2_same; apply SameOpen_refl|exact S1].
  - apply (SYNC_pointwise m1); [now rewrite HT| |exact S1]. rewrite E.
    apply Forall2_upd_const with (s := s); auto using SameOpen_refl.
    destruct (srot_segments_frame (c_variant (m_cfg m)) (c_segcount (m_cfg m)) s seg0 d ntp f cur) as (_ & _ & _ & _ & _ & F6 & _).
    unfold SameOpen. rewrite F6, Eo. split; discriminate.
Qed.

Lemma SYNC_copy m i (l : stream) (both : bool) : SYNC m -> SYNC (upd_stream m i (copy_targets both l)).
Proof.
  intros HS. apply (SYNC_pointwise m); [reflexivity| |exact HS]. unfold upd_stream. cbn [set_stream m_streams].
  apply Forall2_upd_fun; auto using SameOpen_refl. intros x. unfold copy_targets, SameOpen. destruct (st_leading x); tauto.
Qed.

Lemma SYNC_rotateSegments m d ntp f : SYNC m -> SYNC (rotateSegments m d ntp f).
Proof. apply (T_rotateSegments SYNC); auto using SYNC_rots, SYNC_copy. Qed.

Lemma SYNC_rotateParts m d : SYNC m -> SYNC (rotateParts m d).
Proof. apply (T_rotateParts SYNC); auto using SYNC_copy. intros; now apply SYNC_rotp. Qed.

(* ---- leading flags through the composites ---- *)
Lemma flags_copy m i (l : stream) (both : bool) :
  map st_leading (m_streams (upd_stream m i (copy_targets both l))) = map st_leading (m_streams m).
Proof. unfold upd_stream. cbn [set_stream m_streams]. apply flags_upd_with. intros s. apply copy_targets_leading. Qed.

Lemma flags_rotateSegments m d ntp f : map st_leading (m_streams (rotateSegments m d ntp f)) = map st_leading (m_streams m).
Proof.
  apply (T_rotateSegments (fun m' => map st_leading (m_streams m') = map st_leading (m_streams m))); auto.
  - intros m' si d' ntp' f' H. now rewrite flags_rots.
  - intros m' i l both H. now rewrite flags_copy.
Qed.

Lemma flags_rotateParts m d : map st_leading (m_streams (rotateParts m d)) = map st_leading (m_streams m).
Proof.
  apply (T_rotateParts (fun m' => map st_leading (m_streams m') = map st_leading (m_streams m))); auto.
  - intros m' si d' H. now rewrite flags_rotp.
  - intros m' i l both H. now rewrite flags_copy.
Qed.

(* ---- shapes through the part rotation ---- *)
Lemma shapes_rotp m si d cn : map shape (m_streams (stream_rotateParts m si d cn)) = map shape (m_streams m).
Proof.
  destruct (stream_rotateParts_streams m si d cn) as [->|(s & seg & p0 & Es & Eo & Ep & ->)]; [reflexivity|].
  revert si Es. induction (m_streams m) as [|x l IH]; intros [|si] Es; simpl in *; auto; try discriminate.
  - injection Es as ->. f_equal. now apply srot_parts_shape.
  - f_equal. now apply IH.
Qed.

Lemma shapes_copy m i (l : stream) (both : bool) :
  map shape (m_streams (upd_stream m i (copy_targets both l))) = map shape (m_streams m).
Proof.
  unfold upd_stream. cbn [set_stream m_streams]. generalize (m_streams m) as ls. intros ls. revert i.
  induction ls as [|x ls IH]; intros [|i]; simpl; auto; now rewrite ?copy_targets_shape, ?IH.
Qed.

Lemma shapes_rotateParts m d : map shape (m_streams (rotateParts m d)) = map shape (m_streams m).
Proof.
  apply (T_rotateParts (fun m' => map shape (m_streams m') = map shape (m_streams m))); auto.
  - intros m' si d' H. now rewrite shapes_rotp.
  - intros m' i l both H. now rewrite shapes_copy.
Qed.

Lemma Agree_of_shapes m m' : map shape (m_streams m') = map shape (m_streams m) -> Agree m -> Agree m'.
Proof.
  intros E [sh H]. exists sh. rewrite Forall_forall in *. intros s' Hs'.
  apply (in_map shape) in Hs'. rewrite E in Hs'. apply in_map_iff in Hs'. destruct Hs' as (s & <- & Hs). now apply H.
Qed.

Lemma Forall_nth_intro {A} (P : A -> Prop) l : (forall j x, nth_error l j = Some x -> P x) -> Forall P l.
Proof.
  intros H. apply Forall_forall. intros x Hx. apply In_nth_error in Hx. destruct Hx as [j Hj]. eauto.
Qed.

(* ---- the segment rotation of all streams keeps them in agreement ---- *)
Lemma Agree_rotateSegments m d ntp f : AGI m -> Agree (rotateSegments m d ntp f).
Proof.
  intros [HS HL [sh HA]]. rewrite Forall_forall in HA.
  destruct (sy_sync m HS) as [Hc|Ho].
  - (* every stream is closed: nothing rotates *)
    assert (E : map shape (m_streams (rotateSegments m d ntp f)) = map shape (m_streams m)).
    { apply (T_rotateSegments (fun m' => (forall s, In s (m_streams m') -> st_open s = None)
                                        /\ map shape (m_streams m') = map shape (m_streams m))); auto.
      - intros m' si d' ntp' f' [Hc' E'].
        assert (Es : m_streams (stream_rotateSegments m' si d' ntp' f') = m_streams m').
        { destruct (rots_spec m' si d' ntp' f') as [HS' _]. cbv zeta in HS'.
          assert (Ep : m_streams (stream_rotateParts m' si d' false) = m_streams m').
          { destruct (rotp_spec m' si d' false) as [[E1 _]|(s & seg & p0 & Es & Eo & _)]; [exact E1|].
            exfalso. rewrite (Hc' s (nth_error_In _ _ Es)) in Eo. discriminate. }
          destruct HS' as [E|(s & seg0 & cur & Es & Eo & E)].
          - rewrite E. destruct (c_variant (m_cfg m')); auto.
          - exfalso. assert (Hin : In s (m_streams m')).
            { destruct (c_variant (m_cfg m')); [eapply nth_error_In; eauto| |]; rewrite Ep in Es; eapply nth_error_In; eauto. }
            rewrite (Hc' s Hin) in Eo. discriminate. }
        rewrite Es. auto.
      - intros m' i l both [Hc' E']. split; [|now rewrite shapes_copy].
        intros s Hin. unfold upd_stream in Hin. cbn [set_stream m_streams] in Hin.
        apply In_upd in Hin. destruct Hin as [Hin|(x & Hx & ->)]; [auto|].
        destruct (copy_targets_keeps both l x) as (_ & K2 & _). rewrite K2. apply Hc'. eapply nth_error_In; eauto. }
    apply (Agree_of_shapes m); [exact E|]. exists sh. now apply Forall_forall.
  - (* every stream is open: each is rotated exactly once, from equal shapes *)
    destruct HL as (k & Hk & Hu).
    assert (Hli : leading_index m = k).
    { rewrite leading_index_flags. rewrite (lead_go_unique _ 0 k Hk Hu). lia. }
    apply map_nth_error_inv in Hk. destruct Hk as (sl & Hsl & Hl).
    assert (Hls : leading_stream m = Some sl) by (rewrite leading_stream_nth, Hli; exact Hsl).
    set (sh' := shape (fst (fst (srot_segments (c_variant (m_cfg m)) (c_segcount (m_cfg m)) sl
                  (match st_open sl with Some g => g | None => new_seg 0 0 0 false end) d ntp false [])))).
    exists sh'. apply Forall_nth_intro. intros j s' Hj'.
    assert (Hlen : length (m_streams (rotateSegments m d ntp f)) = length (m_streams m))
      by (rewrite <- (map_length st_leading), flags_rotateSegments, map_length; reflexivity).
    destruct (nth_error (m_streams m) j) as [s|] eqn:Ej.
    2:{ apply nth_error_None in Ej. assert (j < length (m_streams (rotateSegments m d ntp f)))%nat by (apply nth_error_Some; congruence). lia. }
    assert (Hcase : j = leading_index m \/ st_leading s = false).
    { destruct (st_leading s) eqn:Els; [left|now right]. rewrite Hli. apply Hu. erewrite map_nth_error by exact Ej. now rewrite Els. }
    destruct (rotateSegments_rots_all m d ntp f sl Hls Hl j s Ej (Ho s (nth_error_In _ _ Ej)) Hcase)
      as (s'' & Hs'' & _ & s0 & g0 & f0 & cur0 & Sh0 & Og0 & Sh').
    rewrite Hj' in Hs''. injection Hs'' as <-.
    rewrite Sh'. subst sh'.
    destruct (st_open sl) as [gl|] eqn:Eol; [|exfalso; apply (Ho sl (nth_error_In _ _ Hsl)); exact Eol].
    apply srot_segments_shape; auto.
    rewrite Sh0, (HA s (nth_error_In _ _ Ej)), (HA sl (nth_error_In _ _ Hsl)). reflexivity.
Qed.

(* ---- AGI is kept by every write ---- *)
Lemma AGI_ext m m' :
  m_streams m' = m_streams m -> map tk_stream (m_tracks m') = map tk_stream (m_tracks m) -> AGI m -> AGI m'.
Proof.
  intros Es Et [A B C]. constructor.
  - apply (SYNC_pointwise m); auto. rewrite Es. apply Forall2_same. apply SameOpen_refl.
  - rewrite Es. exact B.
  - unfold Agree in *. rewrite Es. exact C.
Qed.

Lemma Agree_upd_same_shape m si s f :
  nth_error (m_streams m) si = Some s -> shape (f s) = shape s ->
  map shape (upd (m_streams m) si f) = map shape (m_streams m).
Proof.
  intros Es Hf. revert si Es. induction (m_streams m) as [|x l IH]; intros [|si] Es; simpl in *; auto; try discriminate.
  - injection Es as ->. now rewrite Hf.
  - f_equal. now apply IH.
Qed.

Theorem AGI_mux_step m o : AGI m -> AGI (fst (mux_step m o)).
Proof.
  apply (TC_mux_step AGI).
  - (* frame *) intros m0 tracks pending sdurs adj freeze errs Hf H. apply (AGI_ext m0); auto.
    cbn [m_tracks]. now apply tk_stream_of_frame.
  - (* createFirstSegment *)
    intros m0 d ntp ti t Ht Ho [HS HL [sh HA]]. unfold createFirstSegment. constructor.
    + destruct HS as [S1 S2]. constructor; cbn [set_stream m_streams m_tracks].
      * right. intros s' Hs'. apply in_map_iff in Hs'. destruct Hs' as (s & <- & _). discriminate.
      * intros ti0 t0 Ht0. rewrite map_length. now apply (S2 ti0 t0).
    + cbn [set_stream m_streams]. rewrite map_map. cbn [stream_createFirst st_with st_leading]. exact HL.
    + cbn [set_stream m_streams].
      destruct sh as [[[ns dc] segs] op].
      exists (ns, dc, segs, Some (false, ns, d, ntp)). apply Forall_map. eapply Forall_impl; [|exact HA].
      intros s Hs. unfold shape in *. cbn [stream_createFirst st_with st_nextSeg st_delcount st_segments st_open
        x_nextSeg x_delcount x_segments x_open st_mut option_map open_shape new_seg sg_gap sg_id sg_start sg_ntp].
      injection Hs as -> -> -> _. reflexivity.
  - (* rotateParts (all streams) *)
    intros m0 d [HS HL HA]. constructor.
    + now apply SYNC_rotateParts.
    + now rewrite flags_rotateParts.
    + apply (Agree_of_shapes m0); [apply shapes_rotateParts|exact HA].
  - (* rotateSegments (all streams) *)
    intros m0 d ntp f H. pose proof H as [HS HL HA]. constructor.
    + now apply SYNC_rotateSegments.
    + now rewrite flags_rotateSegments.
    + now apply Agree_rotateSegments.
  - (* muxerPart.writeSample *)
    intros m0 ti si smp m' H. pose proof H as [HS HL HA]. unfold part_writeSample.
    destruct (nth_error (m_streams m0) si) as [s|] eqn:Es; [|now intros [= <-]].
    destruct (nth_error (m_tracks m0) ti) as [t|] eqn:Et; [|now intros [= <-]].
    destruct (st_open s) as [seg|] eqn:Eo; [|now intros [= <-]].
    destruct (st_openpart s) as [p|] eqn:Ep; [|now intros [= <-]].
    destruct (_ <? _); [discriminate|]. intros [= <-]. constructor.
    + apply (SYNC_pointwise m0).
      * unfold upd_stream, upd_track. cbn [set_stream set_tracks m_tracks]. apply map_upd_static. intros x. reflexivity.
      * unfold upd_stream, upd_track. cbn [set_stream set_tracks m_streams]. rewrite (upd_ext_at _ si _ s Es).
        apply Forall2_upd_const with (s := s); auto using SameOpen_refl.
        unfold SameOpen. cbn [st_with st_open x_open]. rewrite Eo. split; discriminate.
      * exact HS.
    + unfold upd_stream, upd_track. cbn [set_stream set_tracks m_streams]. rewrite flags_upd_with; [exact HL|]. intros x. reflexivity.
    + apply (Agree_of_shapes m0); [|exact HA]. unfold upd_stream, upd_track. cbn [set_stream set_tracks m_streams].
      apply (Agree_upd_same_shape m0 si s); auto.
      unfold shape. cbn [st_with st_nextSeg st_delcount st_segments st_open x_nextSeg x_delcount x_segments x_open st_mut option_map].
      rewrite Eo. reflexivity.
  - (* MPEG-TS segment write *)
    intros m0 si u size e inc H. pose proof H as [HS HL HA]. unfold ts_write.
    destruct (nth_error (m_streams m0) si) as [s|] eqn:Es; [|exact H].
    destruct (st_open s) as [seg|] eqn:Eo; [|exact H].
    destruct (_ <? _); [exact H|]. cbn [fst wok]. constructor.
    + apply (SYNC_pointwise m0); [reflexivity| |exact HS]. unfold upd_stream. cbn [set_stream m_streams].
      rewrite (upd_ext_at _ si _ s Es). apply Forall2_upd_const with (s := s); auto using SameOpen_refl.
      unfold SameOpen. cbn [st_with st_open x_open]. rewrite Eo. split; discriminate.
    + unfold upd_stream. cbn [set_stream m_streams]. rewrite flags_upd_with; [exact HL|]. intros x. reflexivity.
    + apply (Agree_of_shapes m0); [|exact HA]. unfold upd_stream. cbn [set_stream m_streams].
      apply (Agree_upd_same_shape m0 si s); auto.
      unfold shape. cbn [st_with st_nextSeg st_delcount st_segments st_open x_nextSeg x_delcount x_segments x_open st_mut option_map].
      rewrite Eo. reflexivity.
Qed.

Theorem AGI_mux_run ops : forall m, AGI m -> AGI (mux_run m ops).
Proof. induction ops as [|o ops IH]; intros m H; [exact H|]. cbn [mux_run]. apply IH. now apply AGI_mux_step. Qed.

Lemma mk_streams_shape c ts : forall i ch n, Forall (fun s => shape s = (n, 0, [], None)) (mk_streams c i ts ch n).
Proof.
  induction ts as [|t ts IH]; intros i ch n; [constructor|]. cbn [mk_streams].
  match goal with |- context [let '(a, b) := ?x in _] => destruct x as [dflt chosen'] end.
  constructor; [reflexivity|apply IH].
Qed.

Theorem start_AGI c m : start c = Ok m -> AGI m.
Proof.
  intros Hs. destruct (start_GPI c m Hs) as [HS _]. constructor; [exact HS|now apply (start_one_leading c)|].
  pose proof (start_streams c m Hs) as ES. unfold Agree. rewrite ES.
  destruct (c_variant c).
  - exists (0, 0, [], None). constructor; [reflexivity|constructor].
  - eexists. apply mk_streams_shape.
  - eexists. apply mk_streams_shape.
Qed.

(* between two writes, all streams of a muxer have the same segment counter, the same number of evicted
   segments (EXT-X-MEDIA-SEQUENCE), the same listed gap flags / ids / start and end times, and open
   segments with the same id and start *)
Theorem streams_agree c m0 ops s1 s2 :
  start c = Ok m0 -> In s1 (m_streams (mux_run m0 ops)) -> In s2 (m_streams (mux_run m0 ops)) ->
  shape s1 = shape s2.
Proof.
  intros Hs H1 H2. destruct (AGI_mux_run ops m0 (start_AGI c m0 Hs)) as [_ _ [sh HA]].
  rewrite Forall_forall in HA. now rewrite (HA s1 H1), (HA s2 H2).
Qed.
