(* C03, MPEG-TS variant: EXTINF is the media time spanned by the segment and PROGRAM-DATE-TIME the wall clock of
   its first unit.
   The segment writer keeps only the 90 kHz timestamps of a unit, so the written decode time and the wall clock
   are not in the state.  We pair every segment record with its units (the KEYED grouped log tskg: one entry
   (start, wall clock, end; units) per evicted or listed segment and one for the open segment) and describe what a
   whole write that returns nil does to it (TsStep): nothing; or the unit joins the open segment (whose start
   and wall clock stay); or a segment is opened WITH the unit, starting at d = timestampToDuration of the unit's
   written decode time and carrying its wall clock - and if a segment was open it is closed at that same d.
   MuxSpanTSHist.v keeps a ghost log of the written units beside the state and reads the theorem off. *)
From Coq Require Import List ZArith Bool Lia Arith.
From GoHls Require Import Model.Mux Proofs.MuxStream Proofs.MuxLift Proofs.MuxWindow Proofs.MuxHistory
  Proofs.MuxTimes Proofs.MuxMulti Proofs.MuxCut Proofs.MuxLog Proofs.MuxLogStep Proofs.MuxLogTS Proofs.MuxRAHist
  Proofs.MuxTSStart Proofs.MuxSpan.
Import ListNotations.
Local Open Scope Z_scope.

Definition kg (g : segrec) : skey * list tsunit := (seg_key g, sg_units g).

Definition tskg_s (s : stream) : list (skey * list tsunit) :=
  map kg (published s) ++ match st_open s with Some g => [kg g] | None => [] end.

Definition tskg (m : mstate) : list (skey * list tsunit) :=
  match m_streams m with s :: _ => tskg_s s | [] => [] end.

Lemma tskg_tsg m : map snd (tskg m) = tsg m.
Proof.
  unfold tskg, tsg. destruct (m_streams m) as [|s rest]; [reflexivity|].
  unfold tskg_s, tsg_s. rewrite map_app, map_map. f_equal. destruct (st_open s); reflexivity.
Qed.

Lemma tskg_ext m m' : m_streams m' = m_streams m -> tskg m' = tskg m.
Proof. intros E. unfold tskg. now rewrite E. Qed.

(* ---- the segment rotation of the stream ---- *)
Lemma tskg_srot sc s seg0 d ntp f cur :
  st_open s = Some seg0 ->
  tskg_s (fst (fst (srot_segments MPEGTS sc s seg0 d ntp f cur)))
  = map kg (published s) ++ [((sg_start seg0, sg_ntp seg0, d), sg_units seg0); ((d, ntp, 0), [])].
Proof.
  intros Ho. pose proof (published_srot_segments MPEGTS sc s seg0 d ntp f cur) as HP. cbv zeta in HP.
  destruct (srot_segments_frame MPEGTS sc s seg0 d ntp f cur) as (_ & _ & _ & _ & _ & F6 & _).
  unfold tskg_s. rewrite HP, F6.
  unfold published, with_gaps. rewrite !map_app. cbn [map kg seg_key new_seg sg_with_end sg_units sg_start sg_ntp sg_end].
  rewrite <- !app_assoc. reflexivity.
Qed.

(* with one stream, which leads, Muxer.rotateSegmentsInner is that stream's rotation *)
Lemma ts_rotateSegments_eq m d ntp f : TSL m -> rotateSegments m d ntp f = stream_rotateSegments m 0 d ntp f.
Proof.
  intros HL. pose proof HL as [HT (s0 & T2 & Hl0)].
  assert (Hli : leading_index m = 0%nat) by (unfold leading_index; rewrite T2, Hl0; reflexivity).
  unfold rotateSegments. rewrite Hli.
  destruct (tsg_rots0 m d ntp f HL) as (HL1 & _). cbv zeta in HL1.
  destruct HL1 as [_ (s1 & S1 & Hl1)].
  unfold rotate_others. rewrite S1. cbn [length seq fold_left]. rewrite S1. cbn [nth_error]. now rewrite Hl1.
Qed.

Lemma tskg_rots0 m d ntp f :
  TSL m ->
  let m1 := stream_rotateSegments m 0 d ntp f in
  (ts_opened m = false /\ tskg m1 = tskg m)
  \/ (ts_opened m = true /\ exists X k g, tskg m = X ++ [(k, g)]
                                      /\ tskg m1 = X ++ [((kstart k, kntp k, d), g); ((d, ntp, 0), [])]).
Proof.
  intros HL. cbv zeta. pose proof HL as [HT (s0 & T2 & Hl0)]. pose proof HT as [T1 _ T3].
  pose proof (rots_spec m 0%nat d ntp f) as [HS _]. cbv zeta in HS. rewrite T1 in HS.
  destruct HS as [E|(s & seg0 & cur & Es & Eo & E)].
  - assert (Hno : st_open s0 = None).
    { destruct (st_open s0) as [g|] eqn:Eo; [|reflexivity]. exfalso.
      destruct (rots_own m 0%nat d ntp f s0) as (s1 & Hs1 & Hn1 & _); [rewrite T2; reflexivity|congruence|].
      rewrite E, T2 in Hs1. cbn in Hs1. injection Hs1 as <-. lia. }
    left. unfold ts_opened. rewrite T2, Hno. split; [reflexivity|]. now apply tskg_ext.
  - rewrite T2 in Es. cbn [nth_error] in Es. injection Es as <-.
    right. unfold ts_opened. rewrite T2, Eo. split; [reflexivity|].
    exists (map kg (published s0)), (seg_key seg0), (sg_units seg0).
    unfold tskg. rewrite E, T2. cbn [upd]. split.
    + unfold tskg_s. now rewrite Eo.
    + rewrite (tskg_srot _ s0 seg0 d ntp f cur Eo). reflexivity.
Qed.

Lemma tskg_create m d ntp :
  TSL m -> ts_opened m = false -> tskg (createFirstSegment m d ntp) = tskg m ++ [((d, ntp, 0), [])].
Proof.
  intros HL Hno. pose proof HL as [HT (s0 & T2 & Hl0)].
  assert (Ho : st_open s0 = None) by (unfold ts_opened in Hno; rewrite T2 in Hno; destruct (st_open s0); [discriminate|reflexivity]).
  unfold tskg, createFirstSegment. cbn [set_stream m_streams]. rewrite T2. cbn [map].
  unfold stream_createFirst, tskg_s, published.
  cbn [st_with st_evicted st_segments st_open x_evicted x_segments x_open st_mut].
  rewrite Ho, app_nil_r. reflexivity.
Qed.

Lemma tskg_write m u size e inc m' :
  TSL m -> ts_write m 0 u size e inc = (m', Ok tt) -> ts_opened m = true ->
  forall X k g, tskg m = X ++ [(k, g)] ->
  tskg m' = X ++ [((kstart k, kntp k, match e with Some x => x | None => kend k end), g ++ [u])].
Proof.
  intros HL Hw Hop X k g Hg. pose proof HL as [HT (s0 & T2 & Hl0)].
  unfold ts_write in Hw. rewrite T2 in Hw. cbn [nth_error] in Hw.
  destruct (st_open s0) as [seg|] eqn:Eo.
  2:{ unfold ts_opened in Hop. rewrite T2, Eo in Hop. discriminate. }
  destruct (_ <? _); [discriminate|]. injection Hw as <-.
  unfold tskg in *. unfold upd_stream. cbn [set_stream m_streams]. rewrite T2 in *. cbn [upd].
  unfold tskg_s in *. rewrite Eo in Hg. apply app_inj_tail in Hg. destruct Hg as [<- Hk]. injection Hk as <- <-.
  unfold published. cbn [st_with st_evicted st_segments st_open x_evicted x_segments x_open st_mut].
  reflexivity.
Qed.

(* ---------------------------------------------------------------- whole writes *)
(* [u] the unit, [d] the written decode time as a duration, [ntp] the wall clock of the write *)
Definition TsStep (m m' : mstate) (u : tsunit) (d ntp : Z) : Prop :=
  (tskg m' = tskg m /\ ts_opened m' = ts_opened m)
  \/ (ts_opened m' = true /\
      exists X k g e', tskg m = X ++ [(k, g)] /\ tskg m' = X ++ [((kstart k, kntp k, e'), g ++ [u])])
  \/ (ts_opened m' = true /\ ts_opened m = false /\ exists e', tskg m' = tskg m ++ [((d, ntp, e'), [u])])
  \/ (ts_opened m' = true /\
      exists X k g e', tskg m = X ++ [(k, g)]
                       /\ tskg m' = X ++ [((kstart k, kntp k, d), g); ((d, ntp, e'), [u])]).

Lemma ts_write_opened m u size e inc m' : TSL m -> ts_write m 0 u size e inc = (m', Ok tt) -> ts_opened m' = ts_opened m.
Proof.
  intros HL Hw. destruct (tsg_write m u size e inc HL) as (_ & _ & C & _). cbv zeta in C. now rewrite Hw in C.
Qed.

Lemma tskg_open_last m : TSL m -> ts_opened m = true -> exists X k g, tskg m = X ++ [(k, g)].
Proof.
  intros [_ (s0 & T2 & _)] Ho. unfold ts_opened, tskg in *. rewrite T2 in *. unfold tskg_s.
  destruct (st_open s0) as [g0|]; [|discriminate]. exists (map kg (published s0)), (seg_key g0), (sg_units g0). reflexivity.
Qed.

(* the three ways a write can end, on the keyed log *)
Lemma TsStep_same m2 m' u size e inc d ntp :
  TSL m2 -> ts_opened m2 = true -> ts_write m2 0 u size e inc = (m', Ok tt) -> TsStep m2 m' u d ntp.
Proof.
  intros HL Ho Hw. destruct (tskg_open_last m2 HL Ho) as (X & k & g & Hg).
  right. left. split; [now rewrite (ts_write_opened _ _ _ _ _ _ HL Hw)|].
  exists X, k, g. eexists. split; [exact Hg|]. exact (tskg_write m2 u size e inc m' HL Hw Ho X k g Hg).
Qed.

Lemma TsStep_rotate m2 m' u size e inc d ntp f :
  TSL m2 -> ts_opened m2 = true ->
  ts_write (rotateSegments m2 d ntp f) 0 u size e inc = (m', Ok tt) -> TsStep m2 m' u d ntp.
Proof.
  intros HL Ho Hw. rewrite (ts_rotateSegments_eq m2 d ntp f HL) in Hw.
  destruct (tsg_rots0 m2 d ntp f HL) as (HL3 & _ & _ & Ho3). cbv zeta in HL3, Ho3. rewrite Ho in Ho3.
  destruct (tskg_rots0 m2 d ntp f HL) as [[Hc _]|(_ & X & k & g & Hg & Hg3)]; [congruence|]. cbv zeta in Hg3.
  right. right. right. split; [now rewrite (ts_write_opened _ _ _ _ _ _ HL3 Hw)|].
  exists X, k, g. eexists. split; [exact Hg|].
  change (X ++ [((kstart k, kntp k, d), g); ((d, ntp, 0), [])])
    with (X ++ [((kstart k, kntp k, d), g)] ++ [((d, ntp, 0), @nil tsunit)]) in Hg3.
  rewrite app_assoc in Hg3.
  rewrite (tskg_write _ u size e inc m' HL3 Hw Ho3 _ _ _ Hg3). rewrite <- app_assoc. reflexivity.
Qed.

Lemma TsStep_create m2 m' u size e inc d ntp :
  TSL m2 -> ts_opened m2 = false ->
  ts_write (createFirstSegment m2 d ntp) 0 u size e inc = (m', Ok tt) -> TsStep m2 m' u d ntp.
Proof.
  intros HL Ho Hw. destruct (tsg_create m2 d ntp HL Ho) as (HL3 & _ & _ & Ho3). cbv zeta in HL3, Ho3.
  pose proof (tskg_create m2 d ntp HL Ho) as Hg3.
  right. right. left. split; [now rewrite (ts_write_opened _ _ _ _ _ _ HL3 Hw)|]. split; [exact Ho|]. eexists.
  exact (tskg_write _ u size e inc m' HL3 Hw Ho3 _ _ _ Hg3).
Qed.

Lemma TsStep_ext m0 m2 m' u d ntp : m_streams m2 = m_streams m0 -> TsStep m2 m' u d ntp -> TsStep m0 m' u d ntp.
Proof.
  intros E H. unfold TsStep in *. rewrite (tskg_ext m0 m2 E) in H.
  assert (Ho : ts_opened m2 = ts_opened m0) by (unfold ts_opened; now rewrite E). now rewrite Ho in H.
Qed.

Definition wtime_v (t : trk) (a : au) : Z := timestampToDuration (a_dts a) (t_rate (tk_cfg t)).
Definition wtime_a (t : trk) (a : au) : Z := timestampToDuration (a_pts a) (t_rate (tk_cfg t)).

Theorem ts_video_step m ti t a m' :
  TSL m -> nth_error (m_tracks m) ti = Some t -> t_kind (tk_cfg t) = H264 ->
  write_video m ti t a = (m', Ok tt) ->
  TsStep m m' (ts_video_unit ti t a) (wtime_v t a) (a_ntp a)
  /\ map tk_static (m_tracks m') = map tk_static (m_tracks m).
Proof.
  intros HL Ht Hk. pose proof HL as [HT (s0 & Hs0 & Hl0)].
  unfold write_video. rewrite Hk. cbv zeta.
  destruct (tsi_tracks m HT ti t Ht) as [Hsi _]. rewrite Hsi.
  assert (HV1 : let m1 := fst (video_params m ti t a true) in
               m_cfg m1 = m_cfg m /\ m_streams m1 = m_streams m /\ map tk_sig (m_tracks m1) = map tk_sig (m_tracks m)).
  { cbv zeta. unfold video_params.
    assert (Hu : forall p, map tk_sig (upd (m_tracks m) ti (fun t0 => tk_with t0 (tk_firstRA t0) p (tk_next t0) (tk_samples t0) (tk_start t0)))
                           = map tk_sig (m_tracks m)).
    { intros p. apply map_upd_static. intros x. reflexivity. }
    destruct (a_params a) as [p|]; [destruct (true && negb (p =? tk_params t))|];
      match goal with |- context [if ?c then _ else _] => destruct c end; cbn [fst];
      unfold set_pending, upd_track, set_tracks; cbn [m_cfg m_streams m_tracks]; rewrite ?Hu; auto. }
  cbv zeta in HV1. destruct (video_params m ti t a true) as [m1 pc0]. cbn [fst] in HV1. destruct HV1 as (C1 & S1 & G1).
  assert (Hskip : forall mr, wok m1 = (mr, Ok tt) ->
            TsStep m mr (ts_video_unit ti t a) (wtime_v t a) (a_ntp a) /\ map tk_static (m_tracks mr) = map tk_static (m_tracks m)).
  { intros mr [= <-]. split; [left; split; [now apply tskg_ext|unfold ts_opened; now rewrite S1]|now apply static_of_sig]. }
  destruct (negb (a_ra a) && negb (a_nonidr a)); [apply Hskip|].
  destruct (negb (tk_firstRA t) && negb (a_ra a)) eqn:Egate; [apply Hskip|].
  rewrite (tsi_variant m HT).
  set (m2 := set_firstRA m1 ti).
  assert (E2 : m_streams m2 = m_streams m /\ m_cfg m2 = m_cfg m /\ map tk_static (m_tracks m2) = map tk_static (m_tracks m)).
  { subst m2. unfold set_firstRA, upd_track, set_tracks. cbn [m_cfg m_streams m_tracks]. split; [exact S1|]. split; [exact C1|].
    rewrite (map_upd_static tk_static) by (intros x; reflexivity). now apply static_of_sig. }
  destruct E2 as (S2 & C2 & T2).
  assert (HL2 : TSL m2).
  { split; [|exists s0; now rewrite S2]. apply (TSI_ext m); auto. rewrite S2. eauto. }
  rewrite S2, Hs0. cbn [nth_error].
  fold (wtime_v t a). fold (ts_video_unit ti t a).
  assert (Eop2 : ts_opened m2 = match st_open s0 with Some _ => true | None => false end)
    by (unfold ts_opened; now rewrite S2, Hs0).
  assert (Hfin : forall m3 u size e inc, ts_write m3 0 u size e inc = (m', Ok tt) ->
            m_tracks m3 = m_tracks m2 -> TSL m3 -> map tk_static (m_tracks m') = map tk_static (m_tracks m)).
  { intros m3 u size e inc Hw Et3 HL3. destruct (tsg_write m3 u size e inc HL3) as (_ & B & _). cbv zeta in B.
    rewrite Hw in B. cbn [fst] in B. now rewrite B, Et3. }
  destruct (st_open s0) as [g|] eqn:Eo; cbn [negb].
  - match goal with |- context [if ?c then _ else _] => destruct c eqn:Edue end; intros Hw.
    + split; [apply (TsStep_ext m m2 m' _ _ _ S2); eapply TsStep_rotate; eauto|].
      destruct (tsg_rotateSegments m2 (wtime_v t a) (a_ntp a) false HL2) as (A & B & _). cbv zeta in A, B.
      exact (Hfin _ _ _ _ _ Hw B A).
    + split; [apply (TsStep_ext m m2 m' _ _ _ S2); eapply TsStep_same; eauto|].
      exact (Hfin _ _ _ _ _ Hw eq_refl HL2).
  - intros Hw. split; [apply (TsStep_ext m m2 m' _ _ _ S2); eapply TsStep_create; eauto|].
    destruct (tsg_create m2 (wtime_v t a) (a_ntp a) HL2 Eop2) as (A & B & _). cbv zeta in A, B.
    exact (Hfin _ _ _ _ _ Hw B A).
Qed.

Theorem ts_audio_step m ti t a m' :
  TSL m -> nth_error (m_tracks m) ti = Some t ->
  write_audio m ti t a = (m', Ok tt) ->
  TsStep m m' (ts_audio_unit ti t a) (wtime_a t a) (a_ntp a)
  /\ map tk_static (m_tracks m') = map tk_static (m_tracks m)
  /\ (* a non-leading track never opens a segment *)
     (tk_leading t = false -> tskg m' = tskg m
                              \/ exists X k g, tskg m = X ++ [(k, g)] /\ tskg m' = X ++ [(k, g ++ [ts_audio_unit ti t a])]).
Proof.
  intros HL Ht. pose proof HL as [HT (s0 & Hs0 & Hl0)].
  unfold write_audio. rewrite (tsi_variant m HT).
  destruct (tsi_tracks m HT ti t Ht) as [Hsi _]. rewrite Hsi. rewrite Hs0. cbn [nth_error].
  assert (Eop : ts_opened m = match st_open s0 with Some _ => true | None => false end)
    by (unfold ts_opened; now rewrite Hs0).
  destruct (negb (tk_leading t) && negb (match st_open s0 with Some _ => true | None => false end)) eqn:Eg.
  { intros [= <-]. split; [left; split; reflexivity|]. split; [reflexivity|]. intros _. now left. }
  fold (ts_audio_unit ti t a). fold (wtime_a t a).
  assert (Hfin : forall m3 u size e inc, ts_write m3 0 u size e inc = (m', Ok tt) ->
            m_tracks m3 = m_tracks m -> TSL m3 -> map tk_static (m_tracks m') = map tk_static (m_tracks m)).
  { intros m3 u size e inc Hw Et3 HL3. destruct (tsg_write m3 u size e inc HL3) as (_ & B & _). cbv zeta in B.
    rewrite Hw in B. cbn [fst] in B. now rewrite B, Et3. }
  destruct (tk_leading t) eqn:El.
  - destruct (st_open s0) as [seg|] eqn:Eo; cbn [negb].
    + match goal with |- context [if ?c then _ else _] => destruct c end; intros Hw.
      * split; [eapply TsStep_rotate; eauto|]. split; [|discriminate].
        destruct (tsg_rotateSegments m (wtime_a t a) (a_ntp a) false HL) as (A & B & _). cbv zeta in A, B.
        exact (Hfin _ _ _ _ _ Hw B A).
      * split; [eapply TsStep_same; eauto|]. split; [exact (Hfin _ _ _ _ _ Hw eq_refl HL)|discriminate].
    + intros Hw. split; [eapply TsStep_create; eauto|]. split; [|discriminate].
      destruct (tsg_create m (wtime_a t a) (a_ntp a) HL Eop) as (A & B & _). cbv zeta in A, B.
      exact (Hfin _ _ _ _ _ Hw B A).
  - cbn [negb andb] in Eg. destruct (st_open s0) as [seg|] eqn:Eo; [|discriminate].
    intros Hw. split; [eapply TsStep_same; eauto|]. split; [exact (Hfin _ _ _ _ _ Hw eq_refl HL)|].
    intros _. right. destruct (tskg_open_last m HL Eop) as (X & k & g & Hg). exists X, k, g. split; [exact Hg|].
    rewrite (tskg_write m _ _ _ _ m' HL Hw Eop X k g Hg). destruct k as [[a0 n0] e0]. reflexivity.
Qed.
