(* The window invariant holds in every reachable muxer state; consequences for playlists (C04, C18). *)
From Coq Require Import List ZArith Bool Lia Arith.
From GoHls Require Import Model.Mux Proofs.MuxStream Proofs.MuxLift.
Import ListNotations.
Local Open Scope Z_scope.

Definition cfg_wf (c : cfg) : Prop :=
  3 <= c_segcount c /\ (c_variant c = LL -> 7 <= c_segcount c).

(* ---- how the single-stream operations change the stream list ---- *)
Lemma part_finalize_spec p0 tracks stracks d :
  let p := fst (part_finalize p0 tracks stracks d) in
  p_id p = p_id p0 /\ p_start p = p_start p0 /\ p_end p = d /\ p_indep p = p_indep p0.
Proof.
  unfold part_finalize. destruct stracks as [|ti _]; [simpl; auto|].
  destruct (nth_error tracks ti) as [t|]; [|simpl; auto].
  destruct (tk_samples t); simpl; auto.
Qed.

Lemma stream_rotateParts_streams m si d cn :
  m_streams (stream_rotateParts m si d cn) = m_streams m
  \/ exists s seg p0,
       nth_error (m_streams m) si = Some s /\ st_open s = Some seg /\ st_openpart s = Some p0 /\
       m_streams (stream_rotateParts m si d cn) =
       upd (m_streams m) si
           (fun _ => fst (srot_parts (c_variant (m_cfg m)) s seg
                                     (fst (part_finalize p0 (m_tracks m) (st_tracks s) d)) d cn)).
Proof.
  unfold stream_rotateParts.
  destruct (nth_error (m_streams m) si) as [s|] eqn:Es; [|left; reflexivity].
  destruct (st_openpart s) as [p0|] eqn:Ep; [|left; reflexivity].
  destruct (st_open s) as [seg|] eqn:Eo; [|left; reflexivity].
  right. exists s, seg, p0. repeat split; auto.
  destruct (part_finalize p0 (m_tracks m) (st_tracks s) d) as [p tracks'] eqn:Ef. cbn [fst].
  destruct (srot_parts (c_variant (m_cfg m)) s seg p d cn) as [s' bump] eqn:Er. cbn [fst].
  destruct bump; reflexivity.
Qed.

Lemma stream_rotateSegments_streams m0 si d ntp f :
  let v := c_variant (m_cfg m0) in
  let m := match v with MPEGTS => m0 | _ => stream_rotateParts m0 si d false end in
  m_streams (stream_rotateSegments m0 si d ntp f) = m_streams m
  \/ exists s seg0 cur,
       nth_error (m_streams m) si = Some s /\ st_open s = Some seg0 /\
       m_streams (stream_rotateSegments m0 si d ntp f) =
       upd (m_streams m) si
           (fun _ => fst (fst (srot_segments v (c_segcount (m_cfg m0)) s seg0 d ntp f cur))).
Proof.
  cbv zeta. unfold stream_rotateSegments.
  set (m := match c_variant (m_cfg m0) with MPEGTS => m0 | _ => stream_rotateParts m0 si d false end).
  assert (Hc : m_cfg m = m_cfg m0).
  { subst m. destruct (c_variant (m_cfg m0)); auto using cfg_stream_rotateParts. }
  destruct (nth_error (m_streams m) si) as [s|] eqn:Es; [|left; reflexivity].
  destruct (st_open s) as [seg0|] eqn:Eo; [|left; reflexivity].
  right. exists s, seg0, (map (fun ti => match nth_error (m_tracks m) ti with
                                         | Some t => tk_params t | None => 0 end) (st_tracks s)).
  repeat split; auto.
  rewrite Hc.
  match goal with |- context [srot_segments ?a ?b ?c ?dd ?e ?ff ?g ?h] =>
    destruct (srot_segments a b c dd e ff g h) as [[s' regen] bump] end.
  cbn [fst]. destruct bump; reflexivity.
Qed.

(* ---- WInv is preserved by every mux_step ---- *)
Definition PW (c : cfg) (s : stream) : Prop := cfg_wf c -> WInv (c_variant c) (c_segcount c) s.

Lemma PW_rotp m si d cn :
  Forall (PW (m_cfg m)) (m_streams m) -> Forall (PW (m_cfg m)) (m_streams (stream_rotateParts m si d cn)).
Proof.
  intros H. destruct (stream_rotateParts_streams m si d cn) as [->|(s & seg & p0 & Es & Eo & Ep & ->)]; [exact H|].
  apply Forall_upd; [exact H|]. intros x Hx HP Hwf. rewrite Es in Hx. injection Hx as <-.
  apply WInv_srot_parts; auto.
Qed.

Lemma PW_rots m si d ntp f :
  Forall (PW (m_cfg m)) (m_streams m) -> Forall (PW (m_cfg m)) (m_streams (stream_rotateSegments m si d ntp f)).
Proof.
  intros H.
  pose proof (stream_rotateSegments_streams m si d ntp f) as HS. cbv zeta in HS.
  set (m1 := match c_variant (m_cfg m) with MPEGTS => m | _ => stream_rotateParts m si d false end) in *.
  assert (H1 : Forall (PW (m_cfg m)) (m_streams m1)).
  { subst m1. destruct (c_variant (m_cfg m)); auto using PW_rotp. }
  destruct HS as [->|(s & seg0 & cur & Es & Eo & ->)]; [exact H1|].
  apply Forall_upd; [exact H1|]. intros x Hx HP Hwf. rewrite Es in Hx. injection Hx as <-.
  destruct Hwf as [Hsc Hll]. apply WInv_srot_segments; auto. apply HP. split; auto.
Qed.

Lemma PW_open c s g p :
  PW c s ->
  (forall g0, st_open s = Some g0 ->
     sg_gap g = sg_gap g0 /\ sg_id g = sg_id g0 /\ sg_ntp g = sg_ntp g0 /\ sg_start g = sg_start g0
     /\ sg_forced g = sg_forced g0 /\ sg_parts g = sg_parts g0) ->
  (forall p0, st_openpart s = Some p0 -> exists p1, p = Some p1 /\ p_id p1 = p_id p0 /\ p_start p1 = p_start p0) ->
  (st_openpart s = None -> p = None) ->
  st_open s <> None ->
  PW c (st_with s {| x_nextSeg := st_nextSeg s; x_nextPart := st_nextPart s; x_segments := st_segments s;
                     x_open := Some g; x_openpart := p; x_init := st_init s;
                     x_delcount := st_delcount s; x_target := st_target s;
                     x_parttarget := st_parttarget s; x_evicted := st_evicted s |}).
Proof.
  intros HP Hg _ _ Hne Hwf. destruct (HP Hwf) as [H1 H2 H3 H4 H5 H6 H7 H8 H9].
  constructor; unfold published in *; cbn [st_with st_segments st_evicted st_delcount st_nextSeg st_open]; auto.
  intros g' [= <-]. destruct (st_open s) as [g0|] eqn:Eo; [|congruence].
  destruct (Hg g0 eq_refl) as (Ha & Hb & _). destruct (H7 g0 eq_refl) as [Hc Hd].
  cbn [x_nextSeg]. split; congruence.
Qed.

Lemma PW_targets c s t pt :
  st_leading s = false ->
  PW c s ->
  PW c (st_with s {| x_nextSeg := st_nextSeg s; x_nextPart := st_nextPart s; x_segments := st_segments s;
                     x_open := st_open s; x_openpart := st_openpart s; x_init := st_init s;
                     x_delcount := st_delcount s; x_target := t;
                     x_parttarget := pt; x_evicted := st_evicted s |}).
Proof.
  intros _ HP Hwf. destruct (HP Hwf) as [H1 H2 H3 H4 H5 H6 H7 H8 H9].
  constructor; unfold published in *; cbn [st_with st_segments st_evicted st_delcount st_nextSeg st_open]; auto.
Qed.

Lemma PW_create c s d ntp : PW c s -> PW c (stream_createFirst (c_variant c) s d ntp).
Proof. intros HP Hwf. apply WInv_createFirst. now apply HP. Qed.

Theorem window_inv_step m o :
  G PW m -> G PW (fst (mux_step m o)).
Proof.
  apply G_mux_step; auto using PW_create, PW_rots, PW_open, PW_targets; intros; apply PW_rotp; assumption.
Qed.

Theorem window_inv_run ops m :
  G PW m -> G PW (mux_run m ops).
Proof.
  apply G_mux_run; auto using PW_create, PW_rots, PW_open, PW_targets; intros; apply PW_rotp; assumption.
Qed.

(* ---- the initial state ---- *)
Lemma mk_streams_PW c c' ts : forall i chosen,
  Forall (PW c') (mk_streams c i ts chosen (first_id (c_variant c'))).
Proof.
  induction ts as [|t ts IH]; intros i chosen; [constructor|].
  cbn [mk_streams].
  match goal with |- context [let '(a, b) := ?x in _] => destruct x as [dflt chosen'] end.
  constructor; [|apply IH].
  intros [Hsc _]. apply WInv_init. lia.
Qed.

Lemma start_cfg_wf c m : start c = Ok m -> cfg_wf (m_cfg m) /\ m_cfg m = norm_cfg c.
Proof.
  unfold start. destruct (negb (start_ok (norm_cfg c))) eqn:E; [discriminate|].
  intros [= <-]. cbn [m_cfg]. split; [|reflexivity].
  apply negb_false_iff in E. unfold start_ok in E.
  repeat (apply andb_true_iff in E; destruct E as [E ?]).
  unfold cfg_wf. destruct (c_variant (norm_cfg c)) eqn:Ev;
    match goal with H : (_ <=? _) = true |- _ => apply Z.leb_le in H end; split; try lia; try discriminate.
Qed.

Lemma start_PW c m : start c = Ok m -> G PW m.
Proof.
  intros H. unfold start in H. destruct (negb (start_ok (norm_cfg c))); [discriminate|].
  injection H as <-. unfold G. cbn [m_cfg m_streams].
  change (c_variant (norm_cfg c)) with (c_variant c).
  destruct (c_variant c) eqn:Ev.
  - constructor; [|constructor]. intros [Hsc _].
    change (c_variant (norm_cfg c)) with (c_variant c). rewrite Ev.
    change 0 with (first_id MPEGTS) at 4. apply WInv_init. lia.
  - replace 0 with (first_id (c_variant (norm_cfg c))) by (change (c_variant (norm_cfg c)) with (c_variant c); now rewrite Ev).
    apply mk_streams_PW.
  - replace 7 with (first_id (c_variant (norm_cfg c))) by (change (c_variant (norm_cfg c)) with (c_variant c); now rewrite Ev).
    apply mk_streams_PW.
Qed.

(* every reachable state *)
Theorem window_inv_reachable c ops m0 :
  start c = Ok m0 ->
  Forall (WInv (c_variant (norm_cfg c)) (c_segcount (norm_cfg c))) (m_streams (mux_run m0 ops)).
Proof.
  intros Hs. pose proof (start_cfg_wf c m0 Hs) as [Hwf Hc].
  pose proof (window_inv_run ops m0 (start_PW c m0 Hs)) as HG. unfold G in HG.
  rewrite cfg_mux_run, Hc in HG. eapply Forall_impl; [|exact HG]. intros s HP. apply HP. rewrite <- Hc. exact Hwf.
Qed.
