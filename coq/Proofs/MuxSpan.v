(* C03, fMP4 variants: EXTINF is the media time spanned by the segment and PROGRAM-DATE-TIME is the wall clock of
   its first unit (leading stream).
   The KEY log of a stream lists (start, wall clock, end) of its non-gap evicted and listed segments, in order,
   and - when the stream is open - of the open segment: one key per group of the grouped log of MuxGroups.v.
   This file: what the rotations, createFirstSegment and muxerPart.writeSample do to the key log, and what a
   write of the leading track does to it (fmp4_klog_step, the companion of fmp4_glog_step).  MuxSpanInv.v
   carries the invariant "every segment starts at the timestamp and wall clock of the first sample of its
   group - or, while the group is empty, of the look-ahead unit - and ends where the next one starts" along
   histories. *)
From Coq Require Import List ZArith Bool Lia Arith.
From GoHls Require Import Model.Mux Proofs.MuxStream Proofs.MuxLift Proofs.MuxWindow Proofs.MuxHistory Proofs.MuxTimes
  Proofs.MuxMulti Proofs.MuxCut Proofs.MuxLog Proofs.MuxLogStep Proofs.MuxLogTS Proofs.MuxPartIds Proofs.MuxAgree
  Proofs.MuxGroups Proofs.MuxRAStart Proofs.MuxRAHist Proofs.MuxChain.
Import ListNotations.
Local Open Scope Z_scope.

Definition skey : Type := (Z * Z * Z)%type.            (* start (ns), wall clock (ns), end (ns) *)
Definition kstart (k : skey) : Z := fst (fst k).
Definition kntp (k : skey) : Z := snd (fst k).
Definition kend (k : skey) : Z := snd k.
Definition seg_key (g : segrec) : skey := (sg_start g, sg_ntp g, sg_end g).

Definition real_segs (segs : list segrec) : list segrec := filter (fun g => negb (sg_gap g)) segs.

Definition skeys (s : stream) : list skey :=
  map seg_key (real_segs (published s)) ++ match st_open s with Some g => [seg_key g] | None => [] end.

Definition klog (m : mstate) (j : nat) : list skey :=
  match nth_error (m_streams m) j with Some s => skeys s | None => [] end.

Lemma real_segs_app l1 l2 : real_segs (l1 ++ l2) = real_segs l1 ++ real_segs l2.
Proof. unfold real_segs. now rewrite filter_app. Qed.

Lemma real_segs_gaps d n : real_segs (repeat (mkgap d) n) = [].
Proof. induction n; simpl; auto. Qed.

Lemma real_groups_segs l : real_groups l = map seg_samples (real_segs l).
Proof. reflexivity. Qed.

(* one key per group *)
Lemma klog_length m j : length (klog m j) = length (glog m j).
Proof.
  unfold klog, glog. destruct (nth_error (m_streams m) j) as [s|]; [|reflexivity].
  unfold skeys, real_groups, real_segs. rewrite !app_length, !map_length. destruct (st_open s); reflexivity.
Qed.

Lemma klog_ext m m' j : m_streams m' = m_streams m -> klog m' j = klog m j.
Proof. intros E. unfold klog. now rewrite E. Qed.

(* ---- one stream through its own rotations ---- *)
Lemma skeys_srot_parts v s seg p d cn :
  st_open s = Some seg -> skeys (fst (srot_parts v s seg p d cn)) = skeys s.
Proof.
  intros Ho. destruct (srot_parts_frame v s seg p d cn) as (F1 & F2 & _ & _ & _ & _ & _ & F8 & _).
  unfold skeys, published. rewrite F1, F2, F8, Ho. reflexivity.
Qed.

Lemma skeys_srot_segments v sc s seg0 d ntp f cur :
  st_open s = Some seg0 -> sg_gap seg0 = false ->
  skeys (fst (fst (srot_segments v sc s seg0 d ntp f cur)))
  = map seg_key (real_segs (published s)) ++ [(sg_start seg0, sg_ntp seg0, d); (d, ntp, 0)].
Proof.
  intros Ho Hg. pose proof (published_srot_segments v sc s seg0 d ntp f cur) as HP. cbv zeta in HP.
  destruct (srot_segments_frame v sc s seg0 d ntp f cur) as (_ & _ & _ & _ & _ & F6 & _).
  unfold skeys. rewrite HP, F6.
  assert (Hs : real_segs [sg_with_end seg0 d] = [sg_with_end seg0 d]).
  { unfold real_segs. cbn [filter sg_with_end sg_gap]. rewrite Hg. reflexivity. }
  unfold published, with_gaps.
  destruct v; [| |destruct (st_segments s)]; rewrite ?real_segs_app, ?real_segs_gaps, ?Hs, ?map_app;
    cbn [map app seg_key new_seg sg_with_end sg_start sg_ntp sg_end];
    rewrite ?app_nil_r, <- ?app_assoc; reflexivity.
Qed.

(* ---- part rotation, copy of the target durations, muxerPart.writeSample: no key changes ---- *)
Lemma klog_rotp m si d cn j : klog (stream_rotateParts m si d cn) j = klog m j.
Proof.
  unfold klog.
  destruct (rotp_spec m si d cn) as [[E1 _]|(s & seg & p0 & Es & Eo & Ep & E1 & _)]; cbv zeta in E1; rewrite E1; [reflexivity|].
  destruct (Nat.eq_dec si j) as [->|Hne].
  - rewrite (nth_error_upd_same _ j _ s Es), Es. now apply skeys_srot_parts.
  - now rewrite nth_error_upd_other by exact Hne.
Qed.

Lemma klog_copy m i (l : stream) (both : bool) j : klog (upd_stream m i (copy_targets both l)) j = klog m j.
Proof.
  unfold klog, upd_stream. cbn [set_stream m_streams].
  destruct (Nat.eq_dec i j) as [->|Hne].
  - destruct (nth_error (m_streams m) j) as [s|] eqn:Es.
    + rewrite (nth_error_upd_same _ j _ s Es). unfold copy_targets. destruct (st_leading s); reflexivity.
    + assert (H : nth_error (upd (m_streams m) j (copy_targets both l)) j = None)
        by (apply nth_error_None; rewrite upd_length; now apply nth_error_None).
      now rewrite H.
  - now rewrite nth_error_upd_other by exact Hne.
Qed.

Lemma klog_rotateParts m d j : klog (rotateParts m d) j = klog m j.
Proof.
  enough (H : forall j, klog (rotateParts m d) j = klog m j) by apply H.
  apply (T_rotateParts (fun m' => forall j, klog m' j = klog m j)); auto.
  - intros m' si d' B k. rewrite klog_rotp. apply B.
  - intros m' i l both B k. rewrite klog_copy. apply B.
Qed.

Lemma klog_pws m a b smp m' j : part_writeSample m a b smp = Ok m' -> klog m' j = klog m j.
Proof.
  unfold part_writeSample.
  destruct (nth_error (m_streams m) b) as [s|] eqn:Es; [|now intros [= <-]].
  destruct (nth_error (m_tracks m) a) as [t|]; [|now intros [= <-]].
  destruct (st_open s) as [g|] eqn:Eo; [|now intros [= <-]]. destruct (st_openpart s); [|now intros [= <-]].
  destruct (_ <? _); [discriminate|]. intros [= <-].
  unfold klog, upd_stream, upd_track. cbn [set_stream set_tracks m_streams].
  destruct (Nat.eq_dec b j) as [->|Hne].
  - rewrite (nth_error_upd_same _ j _ s Es), Es.
    unfold skeys, published. cbn [st_with st_evicted st_segments st_open x_evicted x_segments x_open st_mut].
    rewrite Eo. reflexivity.
  - now rewrite nth_error_upd_other by exact Hne.
Qed.

(* ---- createFirstSegment: one key more, that of the segment it opens ---- *)
Lemma klog_create m d ntp j :
  (forall s, In s (m_streams m) -> st_open s = None) -> (j < length (m_streams m))%nat ->
  klog (createFirstSegment m d ntp) j = klog m j ++ [(d, ntp, 0)].
Proof.
  intros Hc Hj. unfold klog, createFirstSegment. cbn [set_stream m_streams].
  rewrite nth_error_map. destruct (nth_error (m_streams m) j) as [s|] eqn:Es; [|apply nth_error_None in Es; lia].
  cbn [option_map]. pose proof (Hc s (nth_error_In _ _ Es)) as Ho.
  unfold skeys, stream_createFirst, published. cbn [st_with st_evicted st_segments st_open x_evicted x_segments x_open st_mut].
  rewrite Ho, app_nil_r. reflexivity.
Qed.

(* ---- segment rotation of the stream itself: the open segment is closed at [d], a new one starts there ---- *)
Lemma klog_rots_own m si d ntp f s seg :
  LI m -> OR m -> nth_error (m_streams m) si = Some s -> st_open s = Some seg ->
  klog (stream_rotateSegments m si d ntp f) si
  = map seg_key (real_segs (published s)) ++ [(sg_start seg, sg_ntp seg, d); (d, ntp, 0)].
Proof.
  intros HL HO Es Eo. pose proof HL as [L1 L2 L3 L4 L5 L6].
  destruct (rots_cases m si d ntp f L1) as [[E1 E2]|(s' & seg' & p0 & s2 & Es' & Eo' & Ep & E1 & E2 & T2 & O2 & P2 & cur & Hs2)].
  { intros s0 Hs0. apply L5. eapply nth_error_In; eauto. }
  - exfalso. destruct (rots_own m si d ntp f s Es) as (s1 & Hs1 & Hn1 & _); [congruence|].
    rewrite E1, Es in Hs1. injection Hs1 as <-. lia.
  - rewrite Es in Es'. injection Es' as <-. rewrite Eo in Eo'. injection Eo' as <-.
    unfold klog. rewrite E1, (nth_error_upd_same _ si _ s Es). cbv zeta in Hs2. subst s2.
    set (pf := part_finalize p0 (m_tracks m) (st_tracks s) d) in *.
    set (s1 := fst (srot_parts (c_variant (m_cfg m)) s seg (fst pf) d false)) in *.
    set (g1 := sg_with_parts seg (sg_parts seg ++ [fst pf])) in *.
    assert (Ho1 : st_open s1 = Some g1).
    { subst s1 g1. now destruct (srot_parts_frame (c_variant (m_cfg m)) s seg (fst pf) d false) as (_ & _ & _ & _ & _ & _ & _ & F8 & _). }
    assert (Hg1 : sg_gap g1 = false).
    { subst g1. cbn [sg_with_parts sg_gap]. apply (HO s (nth_error_In _ _ Es) seg Eo). }
    rewrite (skeys_srot_segments _ _ s1 g1 d ntp f cur Ho1 Hg1).
    assert (Hp1 : published s1 = published s).
    { subst s1. destruct (srot_parts_frame (c_variant (m_cfg m)) s seg (fst pf) d false) as (F1 & F2 & _). unfold published. now rewrite F1, F2. }
    rewrite Hp1. reflexivity.
Qed.

(* ---- Muxer.rotateSegmentsInner, on the leading stream: rotated once, untouched by the loop over the others ---- *)
Lemma klog_rotateSegments_lead m d ntp f sl seg :
  LI m -> OR m -> leading_stream m = Some sl -> st_leading sl = true -> st_open sl = Some seg ->
  klog (rotateSegments m d ntp f) (leading_index m)
  = map seg_key (real_segs (published sl)) ++ [(sg_start seg, sg_ntp seg, d); (d, ntp, 0)].
Proof.
  intros HL HO Hsl Hll Ho. rewrite leading_stream_nth in Hsl. set (li := leading_index m) in *.
  rewrite <- (klog_rots_own m li d ntp f sl seg HL HO Hsl Ho).
  destruct (rots_own m li d ntp f sl Hsl) as (s1 & Hs1 & _ & Hl1); [congruence|].
  unfold rotateSegments. fold li. unfold klog at 1 2.
  rewrite (rotate_others_keeps_leading _ _ true li s1); auto using rots_other, flags_rots; [|congruence].
  now rewrite Hs1.
Qed.

(* ================================================================================================
   The effect of a write of the leading track on its stream's key log (companion of fmp4_glog_step):
   the segment opened now, if any, starts at the look-ahead unit's timestamp and wall clock; if the
   write cuts the segment, the open segment is closed at the incoming unit's timestamp and the new one
   starts there, with the incoming unit's wall clock; nothing else changes.
   ================================================================================================ *)
Section KeyStep.
  Variable F0 : list bool.
  Variable T0 : list (tcfg * bool * nat).
  Hypothesis HOL : OneLead F0.

  Theorem fmp4_klog_step m t ra pc smp0 m' prev :
    ST F0 T0 m ->
    nth_error (m_tracks m) (li F0) = Some t -> tk_leading t = true -> tk_next t = Some prev ->
    0 <= shifted t smp0 ->
    fmp4WriteSample m (li F0) ra pc smp0 = (m', Ok tt) ->
    let rate := t_rate (tk_cfg t) in
    let d := timestampToDuration (shifted t smp0) rate in
    let K0 := if opened_at m (li F0) then klog m (li F0)
              else klog m (li F0) ++ [(timestampToDuration (s_dts prev) rate, s_ntp prev, 0)] in
    klog m' (li F0) = K0
    \/ exists KC a n e, K0 = KC ++ [(a, n, e)] /\ klog m' (li F0) = KC ++ [(a, n, d); (d, s_ntp smp0, 0)].
  Proof.
    intros HS Ht Hlead Hn Hd. set (ti := li F0) in *. cbv zeta.
    pose proof HS as ((HL & HB) & HO & HF & HT).
    unfold fmp4WriteSample. rewrite Ht. cbv zeta.
    fold (shifted t smp0). pose proof (li_tracks m HL ti t Ht) as Hsi. rewrite Hsi.
    destruct (shifted t smp0 <? 0) eqn:E0; [apply Z.ltb_lt in E0; lia|]. clear E0.
    fold (incoming_of t smp0). rewrite Hn, Hlead. cbn [negb andb].
    set (m1 := upd_track m ti (fun t0 => tk_with t0 (tk_firstRA t0) (tk_params t0) (Some (incoming_of t smp0))
                                                 (tk_samples t0) (tk_start t0))).
    assert (S1 : ST F0 T0 m1).
    { subst m1. unfold upd_track, set_tracks. apply ST_frame; [|exact HS]. apply map_upd_static. intros x. reflexivity. }
    pose proof S1 as ((L1 & _) & _).
    assert (Ht1 : exists t1, nth_error (m_tracks m1) ti = Some t1).
    { subst m1. unfold upd_track. cbn [set_tracks m_tracks]. rewrite (nth_error_upd_same _ ti _ t Ht). eauto. }
    destruct Ht1 as (t1 & Ht1).
    destruct (stream_exists m1 ti t1 L1 Ht1) as (s1 & Hs1).
    assert (Hlt : (ti < length (m_streams m))%nat) by (apply nth_error_Some; change (m_streams m) with (m_streams m1); congruence).
    change (match nth_error (m_streams m1) ti with
            | Some s => match st_open s with Some _ => true | None => false end | None => false end) with (opened_at m ti).
    set (smp := emit_of prev (shifted t smp0)).
    set (rate := t_rate (tk_cfg t)).
    set (K0 := if opened_at m ti then klog m ti else klog m ti ++ [(timestampToDuration (s_dts prev) rate, s_ntp prev, 0)]).
    set (m2 := if negb (opened_at m ti)
               then createFirstSegment m1 (timestampToDuration (s_dts smp) rate) (s_ntp smp) else m1).
    assert (S2 : ST F0 T0 m2 /\ klog m2 ti = K0 /\ opened_at m2 ti = true).
    { subst m2 K0. destruct (opened_at m ti) eqn:Eop; cbn [negb].
      - split; [exact S1|]. split; [reflexivity|exact Eop].
      - assert (Ho1 : st_open s1 = None).
        { unfold opened_at in Eop. change (m_streams m) with (m_streams m1) in Eop. rewrite Hs1 in Eop. now destruct (st_open s1). }
        split; [|split].
        + apply (ST_create F0 T0 m1 _ _ ti t1 Ht1); [|exact S1].
          rewrite (li_tracks m1 L1 ti t1 Ht1). exact Eop.
        + rewrite klog_create; [reflexivity| |exact Hlt]. exact (all_closed m1 ti t1 s1 L1 Ht1 Hs1 Ho1).
        + unfold opened_at, createFirstSegment. cbn [set_stream m_streams]. rewrite nth_error_map, Hs1. reflexivity. }
    destruct S2 as (S2 & K2 & Op2).
    set (m3 := fmp4AdjustPartDuration m2 (timestampToDuration (shifted t smp0 - s_dts prev) rate)).
    destruct (adjust_frame m2 (timestampToDuration (shifted t smp0 - s_dts prev) rate)) as (A3 & B3 & C3). fold m3 in A3, B3, C3.
    assert (S3 : ST F0 T0 m3) by (apply (TC_adjust (ST F0 T0) (ST_frame F0 T0)); exact S2).
    assert (K3 : klog m3 ti = K0) by (rewrite <- K2; apply klog_ext; exact B3).
    assert (Op3 : opened_at m3 ti = true) by (unfold opened_at; rewrite B3; exact Op2).
    match goal with |- context [part_writeSample ?a ti ti ?b] => change a with m3; change b with smp end.
    destruct (part_writeSample m3 ti ti smp) as [m4| |] eqn:Ew; [|discriminate|discriminate].
    pose proof (ST_pws F0 T0 _ _ _ _ _ S3 Ew) as S4.
    assert (K4 : klog m4 ti = K0) by (rewrite <- K3; eapply klog_pws; eauto).
    assert (Op4 : opened_at m4 ti = true) by (rewrite (opened_pws _ _ _ _ _ ti Ew); exact Op3).
    cbn [negb].
    destruct (nth_error (m_streams m4) ti) as [s4|] eqn:Es4; [|intros [= <-]; left; exact K4].
    match goal with |- context [if ?c then _ else _] => destruct c eqn:Edue end.
    - intros Hr. right.
      set (d := timestampToDuration (shifted t smp0) rate) in *.
      assert (Es' : m_streams m' = m_streams (rotateSegments m4 d (s_ntp (incoming_of t smp0)) pc))
        by (destruct pc; injection Hr as <-; reflexivity).
      pose proof S4 as ((L4 & _) & O4 & _).
      destruct (ST_lead F0 T0 HOL m4 S4) as [Hli (sl & Hsl & Hll & _)].
      pose proof Hsl as Hsl'. rewrite leading_stream_nth, Hli in Hsl'. fold ti in Hsl'. rewrite Es4 in Hsl'. injection Hsl' as <-.
      destruct (st_open s4) as [seg|] eqn:Eo4; [|unfold opened_at in Op4; rewrite Es4, Eo4 in Op4; discriminate].
      pose proof (klog_rotateSegments_lead m4 d (s_ntp (incoming_of t smp0)) pc s4 seg L4 O4 Hsl Hll Eo4) as HK.
      rewrite Hli in HK. fold ti in HK.
      exists (map seg_key (real_segs (published s4))), (sg_start seg), (sg_ntp seg), (sg_end seg). split.
      + rewrite <- K4. unfold klog. rewrite Es4. unfold skeys. rewrite Eo4. reflexivity.
      + rewrite (klog_ext _ _ ti Es'). exact HK.
    - match goal with |- context [if ?c then _ else _] => destruct c end; intros [= <-]; left; [|exact K4].
      rewrite klog_rotateParts. exact K4.
  Qed.
End KeyStep.
