(* C01, MPEG-TS variant: conservation of units.
   The log of the (single) MPEG-TS stream is every unit handed to the segment writer: the units of
   the evicted, listed and open segments, in order.  A write that returns nil appends exactly its
   unit (or nothing: a video unit skipped before the first random-access one, an audio unit of a
   non-leading track arriving before the stream has started); a segment rotation changes nothing. *)
From Coq Require Import List ZArith Bool Lia Arith.
From GoHls Require Import Model.Mux Proofs.MuxStream Proofs.MuxLift Proofs.MuxWindow Proofs.MuxHistory
  Proofs.MuxTimes Proofs.MuxMulti Proofs.MuxCut Proofs.MuxLog Proofs.MuxLogStep.
Import ListNotations.
Local Open Scope Z_scope.

Definition ts_emitted (s : stream) : list tsunit :=
  flat_map sg_units (published s) ++ match st_open s with Some g => sg_units g | None => [] end.

Definition tslog (m : mstate) : list tsunit :=
  match m_streams m with s :: _ => ts_emitted s | [] => [] end.

Record TSI (m : mstate) : Prop := {
  tsi_variant : c_variant (m_cfg m) = MPEGTS;
  tsi_one : exists s, m_streams m = [s];
  tsi_tracks : forall i t, nth_error (m_tracks m) i = Some t ->
               tk_stream t = 0%nat /\ (isVideo (t_kind (tk_cfg t)) = true -> t_kind (tk_cfg t) = H264)
}.

Lemma tk_static_of_frame l l' : map tk_frame l' = map tk_frame l -> map tk_static l' = map tk_static l.
Proof.
  intros H. assert (E : map (fun t => fst (fst (tk_frame t))) l' = map (fun t => fst (fst (tk_frame t))) l).
  { rewrite <- !(map_map tk_frame (fun x => fst (fst x))). now rewrite H. }
  exact E.
Qed.

Lemma ts_emitted_st_with s x :
  x_segments x = st_segments s -> x_evicted x = st_evicted s ->
  (match x_open x with Some g => sg_units g | None => [] end)
  = (match st_open s with Some g => sg_units g | None => [] end) ->
  ts_emitted (st_with s x) = ts_emitted s.
Proof.
  intros E1 E2 E3. unfold ts_emitted, published. cbn [st_with st_evicted st_segments st_open].
  now rewrite E1, E2, E3.
Qed.

Lemma ts_emitted_srot_segments sc s seg0 d ntp f cur :
  st_open s = Some seg0 ->
  ts_emitted (fst (fst (srot_segments MPEGTS sc s seg0 d ntp f cur))) = ts_emitted s.
Proof.
  intros Ho. pose proof (published_srot_segments MPEGTS sc s seg0 d ntp f cur) as HP. cbv zeta in HP.
  destruct (srot_segments_frame MPEGTS sc s seg0 d ntp f cur) as (_ & _ & _ & _ & _ & F6 & _).
  unfold ts_emitted. rewrite HP, F6, Ho. cbn [new_seg sg_units]. rewrite app_nil_r.
  unfold published, with_gaps. rewrite !flat_map_app. simpl. now rewrite app_nil_r, <- app_assoc.
Qed.

(* ---- the primitive operations on a one-stream MPEG-TS state ---- *)
Lemma TSI_ext m m' :
  m_cfg m' = m_cfg m -> (exists s, m_streams m' = [s]) ->
  map tk_static (m_tracks m') = map tk_static (m_tracks m) -> TSI m -> TSI m'.
Proof.
  intros Ec Es Et [T1 T2 T3]. constructor; [now rewrite Ec|exact Es|].
  intros i t' Ht'.
  assert (H : option_map tk_static (nth_error (m_tracks m') i) = option_map tk_static (nth_error (m_tracks m) i))
    by (rewrite <- !nth_error_map, Et; reflexivity).
  rewrite Ht' in H. simpl in H. destruct (nth_error (m_tracks m) i) as [t|] eqn:E; simpl in H; [|discriminate].
  injection H as Ha Hb Hc. destruct (T3 i t E) as [A B]. rewrite Ha, Hc. auto.
Qed.

Lemma ts_rots m si d ntp f :
  TSI m -> TSI (stream_rotateSegments m si d ntp f) /\ tslog (stream_rotateSegments m si d ntp f) = tslog m.
Proof.
  intros HT. pose proof HT as [T1 [s0 T2] T3].
  pose proof (rots_spec m si d ntp f) as [HS HTr]. cbv zeta in HS, HTr. rewrite T1 in HS, HTr.
  destruct HS as [E|(s & seg0 & cur & Es & Eo & E)].
  - split; [|unfold tslog; now rewrite E].
    apply (TSI_ext m); auto using cfg_stream_rotateSegments; [rewrite E; eauto|now rewrite HTr].
  - rewrite T2 in Es, E. destruct si as [|si]; [|destruct si; discriminate]. cbn [nth_error] in Es. injection Es as <-.
    cbn [upd] in E. split.
    + apply (TSI_ext m); auto using cfg_stream_rotateSegments; [rewrite E; eauto|now rewrite HTr].
    + unfold tslog. rewrite E, T2. now apply ts_emitted_srot_segments.
Qed.

Lemma ts_copy m i (l : stream) (both : bool) :
  TSI m -> TSI (upd_stream m i (copy_targets both l)) /\ tslog (upd_stream m i (copy_targets both l)) = tslog m.
Proof.
  intros HT. pose proof HT as [T1 [s0 T2] T3]. split.
  - apply (TSI_ext m); auto. unfold upd_stream. cbn [set_stream m_streams]. rewrite T2.
    destruct i as [|[|i]]; cbn [upd]; eauto.
  - unfold upd_stream, tslog. cbn [set_stream m_streams]. rewrite T2.
    destruct i as [|[|i]]; cbn [upd]; try reflexivity.
    unfold copy_targets. destruct (st_leading s0); [reflexivity|]. apply ts_emitted_st_with; reflexivity.
Qed.

Lemma ts_rotateSegments m d ntp f :
  TSI m -> TSI (rotateSegments m d ntp f) /\ tslog (rotateSegments m d ntp f) = tslog m.
Proof.
  intros HT.
  apply (T_rotateSegments (fun m' => TSI m' /\ tslog m' = tslog m)); auto.
  - intros m' si d' ntp' f' [A B]. destruct (ts_rots m' si d' ntp' f' A) as [C D]. split; [exact C|congruence].
  - intros m' i l both [A B]. destruct (ts_copy m' i l both A) as [C D]. split; [exact C|congruence].
Qed.

Lemma ts_create m d ntp :
  TSI m -> (forall s, In s (m_streams m) -> st_open s = None) ->
  TSI (createFirstSegment m d ntp) /\ tslog (createFirstSegment m d ntp) = tslog m
  /\ (forall s, In s (m_streams (createFirstSegment m d ntp)) -> st_open s <> None).
Proof.
  intros HT Hn. pose proof HT as [T1 [s0 T2] T3]. split; [|split].
  - apply (TSI_ext m); auto. unfold createFirstSegment. cbn [set_stream m_streams]. rewrite T2. cbn [map]. eauto.
  - unfold createFirstSegment, tslog. cbn [set_stream m_streams]. rewrite T2. cbn [map].
    unfold stream_createFirst. apply ts_emitted_st_with; try reflexivity. cbn [x_open st_mut new_seg sg_units].
    rewrite (Hn s0); [reflexivity|rewrite T2; now left].
  - unfold createFirstSegment. cbn [set_stream m_streams]. rewrite T2. cbn [map]. intros s [<-|[]]. discriminate.
Qed.

(* the segment writer appends exactly the unit it is given *)
Lemma ts_write_log m u size e inc :
  TSI m ->
  TSI (fst (ts_write m 0 u size e inc)) /\
  (snd (ts_write m 0 u size e inc) = Ok tt ->
   tslog (fst (ts_write m 0 u size e inc)) =
   tslog m ++ (match m_streams m with s :: _ => match st_open s with Some _ => [u] | None => [] end | [] => [] end)).
Proof.
  intros HT. pose proof HT as [T1 [s0 T2] T3]. unfold ts_write. rewrite T2. cbn [nth_error].
  destruct (st_open s0) as [seg|] eqn:Eo.
  2:{ split; [exact HT|]. intros _. cbn [fst wok]. now rewrite app_nil_r. }
  destruct (_ <? _).
  { split; [exact HT|]. cbn [snd]. discriminate. }
  cbn [fst snd wok]. split.
  - apply (TSI_ext m); auto. unfold upd_stream. cbn [set_stream m_streams]. rewrite T2. cbn [upd]. eauto.
  - intros _. unfold tslog, upd_stream. cbn [set_stream m_streams]. rewrite T2. cbn [upd].
    unfold ts_emitted, published. cbn [st_with st_evicted st_segments st_open x_evicted x_segments x_open st_mut sg_ts_write sg_units].
    rewrite Eo. now rewrite app_assoc.
Qed.

(* ---- whole writes ---- *)
Definition ts_opened (m : mstate) : bool :=
  match m_streams m with s :: _ => match st_open s with Some _ => true | None => false end | [] => false end.

Definition ts_video_unit (ti : nat) (t : trk) (a : au) : tsunit :=
  {| u_track := ti; u_pts := mulDiv (a_pts a) 90000 (t_rate (tk_cfg t)); u_dts := mulDiv (a_dts a) 90000 (t_rate (tk_cfg t));
     u_ra := a_ra a; u_pays := map (fun x => (u_id x, u_tsize x)) (a_units a) |}.

Definition ts_audio_unit (ti : nat) (t : trk) (a : au) : tsunit :=
  {| u_track := ti; u_pts := mulDiv (a_pts a) 90000 (t_rate (tk_cfg t)); u_dts := mulDiv (a_pts a) 90000 (t_rate (tk_cfg t));
     u_ra := true; u_pays := map (fun x => (u_id x, u_tsize x)) (a_units a) |}.

Lemma TSI_frame m tracks pending sdurs adj freeze errs :
  map tk_frame tracks = map tk_frame (m_tracks m) -> TSI m ->
  TSI {| m_cfg := m_cfg m; m_tracks := tracks; m_streams := m_streams m; m_pending := pending;
         m_sdurs := sdurs; m_adj := adj; m_freeze := freeze; m_paths := m_paths m; m_errs := errs |}.
Proof.
  intros Hf HT. apply (TSI_ext m); auto; [exact (tsi_one m HT)|]. cbn [m_tracks]. now apply tk_static_of_frame.
Qed.

Theorem ts_video_log m ti t a m' :
  TSI m -> nth_error (m_tracks m) ti = Some t -> t_kind (tk_cfg t) = H264 ->
  write_video m ti t a = (m', Ok tt) ->
  TSI m' /\ tslog m' = tslog m ++ (if video_skipped t a then [] else [ts_video_unit ti t a]).
Proof.
  intros HT Ht Hk. unfold write_video, video_skipped. rewrite Hk. cbv zeta.
  destruct (tsi_tracks m HT ti t Ht) as [Hsi _]. rewrite Hsi.
  (* the parameter bookkeeping only touches tracks and the pending flag *)
  assert (HV : let m1 := fst (video_params m ti t a true) in
               TSI m1 /\ m_streams m1 = m_streams m /\ m_cfg m1 = m_cfg m).
  { cbv zeta. unfold video_params.
    assert (Hu : forall p, TSI (upd_track m ti (fun t0 => tk_with t0 (tk_firstRA t0) p (tk_next t0) (tk_samples t0) (tk_start t0)))).
    { intros p. unfold upd_track, set_tracks. apply TSI_frame; auto. apply map_upd_static. intros x. reflexivity. }
    assert (Hp : forall mx b, TSI mx -> TSI (set_pending mx b)).
    { intros mx b H. unfold set_pending. now apply TSI_frame. }
    destruct (a_params a) as [p|]; [destruct (true && negb (p =? tk_params t))|];
      match goal with |- context [if ?c then _ else _] => destruct c end; cbn [fst];
      (split; [repeat apply Hp; auto|split; reflexivity]). }
  cbv zeta in HV. destruct (video_params m ti t a true) as [m1 pc0]. cbn [fst] in HV. destruct HV as (V1 & V2 & V3).
  assert (Hskip : forall mr, wok m1 = (mr, Ok tt) -> TSI mr /\ tslog mr = tslog m ++ []).
  { intros mr [= <-]. split; [exact V1|]. unfold tslog. now rewrite V2, app_nil_r. }
  destruct (negb (a_ra a) && negb (a_nonidr a)); [cbn [orb]; apply Hskip|].
  destruct (negb (tk_firstRA t) && negb (a_ra a)); [cbn [orb]; apply Hskip|]. cbn [orb].
  rewrite (tsi_variant m HT).
  set (m2 := set_firstRA m1 ti).
  assert (H2 : TSI m2 /\ m_streams m2 = m_streams m /\ m_cfg m2 = m_cfg m).
  { subst m2. unfold set_firstRA, upd_track, set_tracks. split; [|split; assumption].
    apply TSI_frame; auto. apply map_upd_static. intros x. reflexivity. }
  destruct H2 as (L2 & E2 & C2).
  destruct (tsi_one m HT) as [s0 Hs0].
  rewrite E2, Hs0. cbn [nth_error].
  set (d := timestampToDuration (a_dts a) (t_rate (tk_cfg t))).
  fold (ts_video_unit ti t a).
  (* m3: the stream is open afterwards and the log is unchanged *)
  match goal with |- ts_write ?m3 0 ?u ?sz ?e ?inc = _ -> _ =>
    assert (H3 : TSI m3 /\ tslog m3 = tslog m /\ ts_opened m3 = true) end.
  { destruct (st_open s0) as [g|] eqn:Eo; cbn [negb].
    - match goal with |- context [if ?c then _ else _] => destruct c end.
      + destruct (ts_rotateSegments m2 d (a_ntp a) false L2) as [A B]. split; [exact A|]. split.
        * rewrite B. unfold tslog. now rewrite E2.
        * (* still open after a rotation *)
          unfold ts_opened. destruct (tsi_one _ A) as [s5 Hs5]. rewrite Hs5.
          assert (Hc : exists s', nth_error (m_streams (rotateSegments m2 d (a_ntp a) false)) 0 = Some s' /\ st_open s' <> None).
          { pose proof (T_rotateSegments (fun mx => exists s', nth_error (m_streams mx) 0 = Some s' /\ st_open s' <> None)) as TR.
            apply TR.
            - intros mx si d' ntp' f' (s' & Hs' & Ho').
              destruct (Nat.eq_dec si 0) as [->|Hne].
              + destruct (rots_own_cut mx 0%nat d' ntp' f' s' Hs' Ho') as (s1 & Hs1 & _ & _ & g1 & Hg1 & _).
                exists s1. split; [exact Hs1|congruence].
              + rewrite rots_other by exact Hne. eauto.
            - intros mx i l both (s' & Hs' & Ho'). unfold upd_stream. cbn [set_stream m_streams].
              destruct (Nat.eq_dec i 0) as [->|Hne].
              + rewrite (nth_error_upd_same _ 0%nat _ s' Hs'). eexists. split; [reflexivity|].
                destruct (copy_targets_keeps both l s') as (_ & K2 & _). now rewrite K2.
              + rewrite nth_error_upd_other by exact Hne. eauto.
            - rewrite E2, Hs0. exists s0. split; [reflexivity|congruence]. }
          destruct Hc as (s' & Hs' & Ho'). rewrite Hs5 in Hs'. cbn [nth_error] in Hs'. injection Hs' as <-.
          destruct (st_open s5); congruence.
      + split; [exact L2|]. split; [unfold tslog; now rewrite E2|]. unfold ts_opened. now rewrite E2, Hs0, Eo.
    - assert (Hn : forall s, In s (m_streams m2) -> st_open s = None) by (rewrite E2, Hs0; intros s [<-|[]]; exact Eo).
      destruct (ts_create m2 d (a_ntp a) L2 Hn) as (A & B & C). split; [exact A|]. split.
      + rewrite B. unfold tslog. now rewrite E2.
      + unfold ts_opened. destruct (tsi_one _ A) as [s5 Hs5]. rewrite Hs5.
        specialize (C s5). rewrite Hs5 in C. specialize (C (or_introl eq_refl)). destruct (st_open s5); congruence. }
  destruct H3 as (L3 & S3 & O3).
  match goal with |- ts_write ?m3 0 ?u ?sz ?e ?inc = _ -> _ =>
    destruct (ts_write_log m3 u sz e inc L3) as [A B]; intros Hw;
    assert (Hm : fst (ts_write m3 0 u sz e inc) = m' /\ snd (ts_write m3 0 u sz e inc) = Ok tt) by (rewrite Hw; auto)
  end.
  destruct Hm as [<- Hr]. split; [exact A|]. rewrite (B Hr), S3. f_equal.
  unfold ts_opened in O3.
  match goal with |- match m_streams ?m3 with _ => _ end = _ => destruct (m_streams m3) as [|s3 rest]; [discriminate|] end.
  destruct (st_open s3); [reflexivity|discriminate].
Qed.

Lemma ts_rotate_open m d ntp f :
  TSI m -> ts_opened m = true -> ts_opened (rotateSegments m d ntp f) = true.
Proof.
  intros HT Ho. destruct (ts_rotateSegments m d ntp f HT) as [A _].
  destruct (tsi_one m HT) as [s0 Hs0]. destruct (tsi_one _ A) as [s5 Hs5].
  assert (Hc : exists s', nth_error (m_streams (rotateSegments m d ntp f)) 0 = Some s' /\ st_open s' <> None).
  { apply (T_rotateSegments (fun mx => exists s', nth_error (m_streams mx) 0 = Some s' /\ st_open s' <> None)).
    - intros mx si d' ntp' f' (s' & Hs' & Ho').
      destruct (Nat.eq_dec si 0) as [->|Hne].
      + destruct (rots_own_cut mx 0%nat d' ntp' f' s' Hs' Ho') as (s1 & Hs1 & _ & _ & g1 & Hg1 & _).
        exists s1. split; [exact Hs1|congruence].
      + rewrite rots_other by exact Hne. eauto.
    - intros mx i l both (s' & Hs' & Ho'). unfold upd_stream. cbn [set_stream m_streams].
      destruct (Nat.eq_dec i 0) as [->|Hne].
      + rewrite (nth_error_upd_same _ 0%nat _ s' Hs'). eexists. split; [reflexivity|].
        destruct (copy_targets_keeps both l s') as (_ & K2 & _). now rewrite K2.
      + rewrite nth_error_upd_other by exact Hne. eauto.
    - unfold ts_opened in Ho. rewrite Hs0 in *. exists s0. split; [reflexivity|]. destruct (st_open s0); congruence. }
  destruct Hc as (s' & Hs' & Ho'). unfold ts_opened. rewrite Hs5 in *. cbn [nth_error] in Hs'. injection Hs' as <-.
  destruct (st_open s5); congruence.
Qed.

Theorem ts_audio_log m ti t a m' :
  TSI m -> nth_error (m_tracks m) ti = Some t ->
  write_audio m ti t a = (m', Ok tt) ->
  TSI m' /\ tslog m' = tslog m ++ (if negb (tk_leading t) && negb (ts_opened m) then [] else [ts_audio_unit ti t a]).
Proof.
  intros HT Ht. unfold write_audio. rewrite (tsi_variant m HT).
  destruct (tsi_tracks m HT ti t Ht) as [Hsi _]. rewrite Hsi.
  destruct (tsi_one m HT) as [s0 Hs0]. rewrite Hs0. cbn [nth_error].
  assert (Eop : ts_opened m = match st_open s0 with Some _ => true | None => false end)
    by (unfold ts_opened; now rewrite Hs0).
  rewrite Eop.
  destruct (negb (tk_leading t) && negb (match st_open s0 with Some _ => true | None => false end)) eqn:Eg.
  { intros [= <-]. split; [exact HT|now rewrite app_nil_r]. }
  fold (ts_audio_unit ti t a).
  set (d := timestampToDuration (a_pts a) (t_rate (tk_cfg t))).
  match goal with |- ts_write ?m1 0 ?u ?sz ?e ?inc = _ -> _ =>
    assert (H1 : TSI m1 /\ tslog m1 = tslog m /\ ts_opened m1 = true) end.
  { destruct (tk_leading t) eqn:El.
    - destruct (st_open s0) as [seg|] eqn:Eo; cbn [negb].
      + match goal with |- context [if ?c then _ else _] => destruct c end.
        * destruct (ts_rotateSegments m d (a_ntp a) false HT) as [A B]. split; [exact A|]. split; [exact B|].
          apply ts_rotate_open; auto.
        * split; [exact HT|]. split; [reflexivity|exact Eop].
      + assert (Hn : forall s, In s (m_streams m) -> st_open s = None) by (rewrite Hs0; intros s [<-|[]]; exact Eo).
        destruct (ts_create m d (a_ntp a) HT Hn) as (A & B & C). split; [exact A|]. split; [exact B|].
        unfold ts_opened. destruct (tsi_one _ A) as [s5 Hs5]. rewrite Hs5.
        specialize (C s5). rewrite Hs5 in C. specialize (C (or_introl eq_refl)). destruct (st_open s5); congruence.
    - split; [exact HT|]. split; [reflexivity|]. rewrite Eop. cbn [negb andb] in Eg.
      destruct (st_open s0); [reflexivity|discriminate]. }
  destruct H1 as (L1 & S1 & O1).
  match goal with |- ts_write ?m1 0 ?u ?sz ?e ?inc = _ -> _ =>
    destruct (ts_write_log m1 u sz e inc L1) as [A B]; intros Hw;
    assert (Hm : fst (ts_write m1 0 u sz e inc) = m' /\ snd (ts_write m1 0 u sz e inc) = Ok tt) by (rewrite Hw; auto)
  end.
  destruct Hm as [<- Hr]. split; [exact A|]. rewrite (B Hr), S1. f_equal.
  unfold ts_opened in O1.
  match goal with |- match m_streams ?m1 with _ => _ end = _ => destruct (m_streams m1) as [|s3 rest]; [discriminate|] end.
  destruct (st_open s3); [reflexivity|discriminate].
Qed.

(* ---- histories ---- *)
Theorem ts_step_grows m ti a m' :
  TSI m -> mux_step m (WWrite ti a) = (m', Ok tt) -> TSI m' /\ exists new, tslog m' = tslog m ++ new.
Proof.
  intros HT. unfold mux_step, mux_write.
  destruct (nth_error (m_tracks m) ti) as [t|] eqn:Ht.
  2:{ intros [= <-]. split; [exact HT|]. exists []. now rewrite app_nil_r. }
  destruct (isVideo (t_kind (tk_cfg t))) eqn:Ev.
  - intros Hw. destruct (tsi_tracks m HT ti t Ht) as [_ Hk].
    destruct (ts_video_log m ti t a m' HT Ht (Hk Ev) Hw) as [A B]. split; [exact A|eauto].
  - intros Hw. destruct (ts_audio_log m ti t a m' HT Ht Hw) as [A B]. split; [exact A|eauto].
Qed.

Theorem ts_log_monotone ops : forall m, TSI m -> all_ok m ops ->
  TSI (mux_run m ops) /\ exists new, tslog (mux_run m ops) = tslog m ++ new.
Proof.
  induction ops as [|[ti a] ops IH]; intros m HT Hok; cbn [mux_run].
  - split; [exact HT|]. exists []. now rewrite app_nil_r.
  - destruct Hok as [Hr Hok].
    assert (Hs : mux_step m (WWrite ti a) = (fst (mux_step m (WWrite ti a)), Ok tt))
      by (rewrite <- Hr; apply surjective_pairing).
    destruct (ts_step_grows m ti a _ HT Hs) as (L1 & n1 & G1).
    destruct (IH _ L1 Hok) as (L2 & n2 & G2).
    split; [exact L2|]. exists (n1 ++ n2). now rewrite G2, G1, app_assoc.
Qed.

Lemma mk_tracks_ts c ts : forall i k t,
  nth_error (mk_tracks c i ts) k = Some t -> c_variant c = MPEGTS ->
  tk_stream t = 0%nat /\ exists t0, nth_error ts k = Some t0 /\ tk_cfg t = t0.
Proof.
  induction ts as [|t0 ts IH]; intros i k t H Hv; [destruct k; discriminate|].
  destruct k as [|k]; cbn [mk_tracks nth_error] in H.
  - injection H as <-. cbn [tk_stream tk_cfg]. rewrite Hv. split; [reflexivity|]. exists t0. auto.
  - destruct (IH (S i) k t H Hv) as (A & t1 & B & C). split; [exact A|]. exists t1. auto.
Qed.

Theorem start_TSI c m : start c = Ok m -> c_variant c = MPEGTS -> TSI m /\ tslog m = [].
Proof.
  intros Hs Hv. pose proof (start_streams c m Hs) as ES. rewrite Hv in ES.
  unfold start in Hs. destruct (negb (start_ok (norm_cfg c))) eqn:Eok; [discriminate|].
  apply negb_false_iff in Eok. unfold start_ok in Eok.
  change (c_variant (norm_cfg c)) with (c_variant c) in Eok. rewrite Hv in Eok.
  repeat (apply andb_true_iff in Eok; destruct Eok as [Eok ?]).
  injection Hs as <-. split.
  - constructor; cbn [m_cfg m_streams m_tracks].
    + exact Hv.
    + change (c_variant (norm_cfg c)) with (c_variant c). rewrite Hv. eauto.
    + intros i t Ht. destruct (mk_tracks_ts _ _ _ _ _ Ht Hv) as (A & t0 & B & C). split; [exact A|].
      intros Hvid. rewrite C in *.
      change (c_tracks (norm_cfg c)) with (c_tracks c) in *.
      match goal with H : _ && forallb _ _ = true |- _ => apply andb_true_iff in H; destruct H as [_ H];
        rewrite forallb_forall in H; specialize (H t0 (nth_error_In _ _ B)) end.
      destruct (t_kind t0); try reflexivity; try discriminate.
  - cbn [m_streams]. change (c_variant (norm_cfg c)) with (c_variant c). rewrite Hv. reflexivity.
Qed.

Theorem ts_log_monotone_reachable c m0 ops1 ops2 :
  start c = Ok m0 -> c_variant c = MPEGTS -> all_ok m0 (ops1 ++ ops2) ->
  exists new, tslog (mux_run m0 (ops1 ++ ops2)) = tslog (mux_run m0 ops1) ++ new.
Proof.
  intros Hs Hv Hok. destruct (start_TSI c m0 Hs Hv) as [HT _].
  assert (Hsplit : all_ok m0 ops1 /\ all_ok (mux_run m0 ops1) ops2).
  { clear - Hok. revert m0 Hok. induction ops1 as [|o ops1 IH]; intros m0 Hok; [split; [exact I|exact Hok]|].
    cbn [app all_ok mux_run] in *. destruct Hok as [A B]. destruct (IH _ B) as [C D]. auto. }
  destruct Hsplit as [H1 H2].
  destruct (ts_log_monotone ops1 m0 HT H1) as [L1 _].
  rewrite mux_run_app. destruct (ts_log_monotone ops2 _ L1 H2) as [_ G]. exact G.
Qed.
