(* Concrete non-trivial values satisfying the hypotheses of the C14 theorems. *)
From Coq Require Import List ZArith Bool String.
From GoHls Require Import Model.PlaylistBase Model.PlaylistIdeal Model.Playlist Model.PlaylistSpec.
Import ListNotations.
Local Open Scope string_scope.
Local Open Scope Z_scope.

Definition ex_key : MediaKey :=
  {| k_method := "AES-128"; k_uri := "https://k.example/key?id=1,2"; k_iv := "0x0123456789abcdef0123456789abcdef";
     k_keyformat := "identity"; k_keyformatversions := "1/2" |}.

Definition ex_part (u : string) : MediaPart :=
  {| pt_duration := 333340000; pt_uri := u; pt_independent := true; pt_brlen := Some 456;
     pt_brstart := Some 123; pt_gap := false |}.

Definition ex_seg1 : MediaSegment :=
  {| sg_duration := 4000000000; sg_title := "first, ""quoted"" title"; sg_uri := "seg1.mp4?x=1,y=2";
     sg_discontinuity := true; sg_gap := false;
     sg_datetime := Some {| dt_ns := 1700000000123456789; dt_off := -19800 |};
     sg_bitrate := Some 1500000; sg_key := Some ex_key; sg_brlen := Some 1000; sg_brstart := Some 0;
     sg_parts := [ex_part "p1.mp4"; ex_part "p2.mp4"] |}.

Definition ex_seg2 : MediaSegment :=
  {| sg_duration := 3999999999; sg_title := ""; sg_uri := "seg2.mp4"; sg_discontinuity := false;
     sg_gap := true; sg_datetime := None; sg_bitrate := None;
     sg_key := Some {| k_method := "NONE"; k_uri := ""; k_iv := ""; k_keyformat := ""; k_keyformatversions := "" |};
     sg_brlen := None; sg_brstart := None; sg_parts := [] |}.

(* a rich playlist, including the fields of the repaired finding F4: EXT-X-START, a discontinuity
   sequence different from the media sequence, SERVER-CONTROL without CAN-BLOCK-RELOAD *)
Definition ex_media : Media :=
  {| m_version := 9; m_independent := true; m_start := Some {| st_timeoffset := -7250000000 |}; m_allowcache := Some false;
     m_targetduration := 4;
     m_servercontrol := Some {| sc_canblockreload := false; sc_partholdback := Some 1000020000;
                                sc_canskipuntil := Some 24000000000 |};
     m_partinf := Some {| pi_parttarget := 333340000 |};
     m_mediasequence := 2147483647; m_discseq := Some 17; m_playlisttype := Some "EVENT";
     m_map := Some {| map_uri := "init.mp4"; map_brlen := Some 721; map_brstart := Some 0 |};
     m_skip := Some {| sk_skipped := 3 |};
     m_segments := [ex_seg1; ex_seg2]; m_parts := [ex_part "p3.mp4"];
     m_preloadhint := Some {| ph_uri := "p4.mp4"; ph_brstart := 579; ph_brlen := Some 18446744073709551615 |};
     m_endlist := false |}.

Lemma ex_media_ok : wf_media ex_media = true.
Proof. vm_compute. reflexivity. Qed.

(* ... and the statement itself evaluated on it with the exact decimal oracles *)
Lemma ex_media_roundtrips :
  media_roundtrip_ok z_oracles ex_media = true /\ media_fixpoint_ok z_oracles ex_media = true.
Proof. vm_compute. auto. Qed.

Definition ex_multivariant : Multivariant :=
  {| mv_version := 7; mv_independent := true; mv_start := Some {| st_timeoffset := -12500000000 |};
     mv_variants :=
       [ {| v_bandwidth := 1280000; v_codecs := ["avc1.640029"; "mp4a.40.2"]; v_uri := "low/index.m3u8";
            v_avgbandwidth := Some 1000000; v_resolution := "1280x720"; v_framerate := Some 29970000000;
            v_video := ""; v_audio := "aud"; v_subtitles := "subs"; v_closedcaptions := "cc" |};
         {| v_bandwidth := 65000; v_codecs := ["mp4a.40.5"]; v_uri := "audio-only.m3u8";
            v_avgbandwidth := None; v_resolution := ""; v_framerate := None;
            v_video := ""; v_audio := ""; v_subtitles := ""; v_closedcaptions := "" |} ];
     mv_renditions :=
       [ {| r_type := "AUDIO"; r_groupid := "aud"; r_name := "English"; r_language := "en";
            r_autoselect := true; r_default := true; r_forced := false; r_channels := Some "2";
            r_uri := Some "audio/en.m3u8"; r_instreamid := None |};
         {| r_type := "SUBTITLES"; r_groupid := "subs"; r_name := "Deutsch"; r_language := "de";
            r_autoselect := false; r_default := false; r_forced := true; r_channels := None;
            r_uri := Some "subs/de.m3u8"; r_instreamid := None |};
         {| r_type := "CLOSED-CAPTIONS"; r_groupid := "cc"; r_name := "CC1"; r_language := "";
            r_autoselect := false; r_default := false; r_forced := false; r_channels := None;
            r_uri := None; r_instreamid := Some "CC1" |} ] |}.

Lemma ex_multivariant_ok : wf_multivariant ex_multivariant = true.
Proof. vm_compute. reflexivity. Qed.

Lemma ex_multivariant_roundtrips :
  multivariant_roundtrip_ok z_oracles ex_multivariant = true
  /\ multivariant_fixpoint_ok z_oracles ex_multivariant = true.
Proof. vm_compute. auto. Qed.
