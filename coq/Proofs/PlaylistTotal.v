(* C15 totality: no decoder of Model/Playlist.v ever answers Panic or OutOfFuel - every guarded
   slice / index is within bounds and the fuel handed to each loop suffices - for every byte
   string and every instance of the scalar oracles. *)
From Coq Require Import List ZArith Bool String Ascii Lia.
From GoHls Require Import Model.PlaylistBase Model.Playlist Proofs.PlaylistStr.
Import ListNotations.
Local Open Scope string_scope.

Definition safe {A} (r : res A) : Prop :=
  match r with Panic | OutOfFuel => False | _ => True end.

Lemma safe_iff {A} (r : res A) : safe r <-> ((exists a, r = Ok a) \/ r = Err).
Proof.
  destruct r; simpl; split; intros H; eauto; try contradiction;
    destruct H as [[a H]|H]; discriminate.
Qed.

Lemma safe_bind {A B} (m : res A) (k : A -> res B) :
  safe m -> (forall a, m = Ok a -> safe (k a)) -> safe (bind m k).
Proof. destruct m; simpl; auto. Qed.

Lemma safe_of_option {A} (o : option A) : safe (of_option o).
Proof. destruct o; exact I. Qed.

Lemma safe_slice_to n s : (n <= slen s)%nat -> safe (slice_to n s).
Proof. intros H. unfold slice_to. apply Nat.leb_le in H. rewrite H. exact I. Qed.

Lemma safe_slice_from n s : (n <= slen s)%nat -> safe (slice_from n s).
Proof. intros H. unfold slice_from. apply Nat.leb_le in H. rewrite H. exact I. Qed.

Lemma safe_byte_at n s : (n < slen s)%nat -> safe (byte_at n s).
Proof. intros H. unfold byte_at. destruct (get_lt _ _ H) as [c ->]. exact I. Qed.

Lemma slice_to_inv n s r : slice_to n s = Ok r -> r = take n s /\ (n <= slen s)%nat.
Proof.
  unfold slice_to. destruct (Nat.leb n (slen s)) eqn:E; intros H; inversion H.
  apply Nat.leb_le in E. auto.
Qed.

Lemma slice_from_inv n s r : slice_from n s = Ok r -> r = drop n s /\ (n <= slen s)%nat.
Proof.
  unfold slice_from. destruct (Nat.leb n (slen s)) eqn:E; intros H; inversion H.
  apply Nat.leb_le in E. auto.
Qed.

Lemma safe_cut_prefix p line : has_prefix p line = true -> safe (cut_prefix p line).
Proof. intros H. apply safe_slice_from. now apply has_prefix_len. Qed.

Lemma nonzero_len s : negb (Nat.eqb (slen s) 0) = true -> (0 < slen s)%nat.
Proof. intros H. apply negb_true_iff, Nat.eqb_neq in H. lia. Qed.

(* ---------- ReadLine ---------- *)
Lemma read_line_safe s : safe (read_line s).
Proof.
  unfold read_line. destruct (index_byte LF s) eqn:E; [|exact I].
  apply index_byte_lt in E.
  apply safe_bind; [apply safe_slice_to; lia|]. intros line Hl.
  apply safe_bind; [apply safe_slice_from; lia|]. intros rem Hr.
  apply safe_bind; [|intros; exact I].
  destruct (negb (Nat.eqb (slen line) 0)) eqn:Hn; [|exact I].
  apply nonzero_len in Hn.
  apply safe_bind; [apply safe_byte_at; lia|]. intros c Hc.
  destruct (Ascii.eqb c CR); [apply safe_slice_to; lia|exact I].
Qed.

(* the remaining string is strictly shorter, or the input had no line feed *)
Lemma read_line_shrinks s line s' :
  read_line s = Ok (line, s') ->
  (slen s' < slen s)%nat \/ (s' = "" /\ line = s).
Proof.
  unfold read_line. destruct (index_byte LF s) eqn:E.
  - apply index_byte_lt in E. intros H. left.
    destruct (slice_to n s) eqn:E1; cbn [bind] in H; try discriminate.
    destruct (slice_from (S n) s) eqn:E2; cbn [bind] in H; try discriminate.
    apply slice_from_inv in E2 as [-> _].
    match type of H with bind ?m _ = _ => destruct m; cbn [bind] in H; try discriminate end.
    assert (Hs : s' = drop (S n) s) by congruence. rewrite Hs, slen_drop. lia.
  - intros H; inversion H; auto.
Qed.

Lemma read_line_le s line s' : read_line s = Ok (line, s') -> (slen s' <= slen s)%nat.
Proof. intros H. apply read_line_shrinks in H as [H|[-> _]]; simpl; lia. Qed.

Lemma skip_header_safe s : safe (skip_header s).
Proof.
  unfold skip_header. apply safe_bind; [apply read_line_safe|].
  intros [line s'] _. destruct (String.eqb line "#EXTM3U"); exact I.
Qed.

Lemma skip_header_le s s' : skip_header s = Ok s' -> (slen s' <= slen s)%nat.
Proof.
  unfold skip_header. destruct (read_line s) as [[line r]| | |] eqn:E; simpl; try discriminate.
  destruct (String.eqb line "#EXTM3U"); intros H; inversion H; subst.
  eapply read_line_le; eauto.
Qed.

(* ---------- Attributes ---------- *)
Lemma attrs_loop_safe fuel : forall v a, (slen v < fuel)%nat -> safe (attrs_loop fuel v a).
Proof.
  induction fuel as [|f IH]; intros v a Hf; [lia|].
  simpl. destruct (Nat.eqb (slen v) 0) eqn:E0; [exact I|].
  destruct (index_byte "=" v) eqn:Ei; [|exact I].
  apply index_byte_lt in Ei.
  apply safe_bind; [apply safe_slice_to; lia|]. intros key0 _.
  apply safe_bind; [apply safe_slice_from; lia|]. intros v1 Hv1.
  apply slice_from_inv in Hv1 as [-> _].
  assert (L1 : (slen (drop (S n) v) < f)%nat) by (rewrite slen_drop; lia).
  set (v1 := drop (S n) v) in *.
  apply safe_bind.
  { destruct (negb (Nat.eqb (slen v1) 0)) eqn:Hn; [|exact I].
    apply nonzero_len in Hn. apply safe_bind; [apply safe_byte_at; lia|]. intros; exact I. }
  intros quoted Hq. destruct quoted.
  - assert (Hn : (0 < slen v1)%nat).
    { destruct (negb (Nat.eqb (slen v1) 0)) eqn:Hn; [now apply nonzero_len|]. inversion Hq. }
    apply safe_bind; [apply safe_slice_from; lia|]. intros v2 Hv2.
    apply slice_from_inv in Hv2 as [-> _].
    destruct (index_byte DQ (drop 1 v1)) eqn:Ej; [|exact I].
    apply index_byte_lt in Ej. rewrite slen_drop in Ej.
    apply safe_bind; [apply safe_slice_to; rewrite slen_drop; lia|]. intros val _.
    apply safe_bind; [apply safe_slice_from; rewrite slen_drop; lia|]. intros v3 Hv3.
    apply slice_from_inv in Hv3 as [-> _].
    set (v3 := drop (S n0) (drop 1 v1)).
    assert (L3 : (slen v3 < f)%nat) by (unfold v3; rewrite !slen_drop; lia).
    destruct (negb (Nat.eqb (slen v3) 0)) eqn:Hn3.
    + apply nonzero_len in Hn3.
      apply safe_bind; [apply safe_byte_at; lia|]. intros c _.
      destruct (negb (Ascii.eqb c ",")); [exact I|].
      apply safe_bind; [apply safe_slice_from; lia|]. intros v4 Hv4.
      apply slice_from_inv in Hv4 as [-> _].
      apply IH. rewrite slen_drop. lia.
    + apply IH. lia.
  - destruct (index_byte "," v1) eqn:Ej; [|exact I].
    apply index_byte_lt in Ej.
    apply safe_bind; [apply safe_slice_to; lia|]. intros val _.
    apply safe_bind; [apply safe_slice_from; lia|]. intros v2 Hv2.
    apply slice_from_inv in Hv2 as [-> _].
    apply IH. rewrite slen_drop. lia.
Qed.

Lemma attrs_unmarshal_safe v : safe (attrs_unmarshal v).
Proof. apply attrs_loop_safe. lia. Qed.

Lemma attrs_fold_safe {T} (step : T -> string -> string -> res T) :
  (forall t k v, safe (step t k v)) -> forall a t, safe (attrs_fold step a t).
Proof.
  intros Hs a. induction a as [|[k v] a IH]; intros t; simpl; [exact I|].
  apply safe_bind; [apply Hs|]. intros; apply IH.
Qed.

Lemma byterange_unmarshal_safe v : safe (byterange_unmarshal v).
Proof.
  unfold byterange_unmarshal. destruct (index_byte "@" v) eqn:E.
  - apply index_byte_lt in E.
    apply safe_bind; [apply safe_slice_to; lia|]. intros.
    apply safe_bind; [apply safe_slice_from; lia|]. intros.
    apply safe_bind; [apply safe_of_option|]. intros.
    apply safe_bind; [apply safe_of_option|]. intros. exact I.
  - apply safe_bind; [apply safe_of_option|]. intros. exact I.
Qed.

(* generic solver for the straight-line tag decoders *)
Ltac safe_tac :=
  repeat first
    [ exact I
    | apply safe_of_option
    | apply attrs_unmarshal_safe
    | apply byterange_unmarshal_safe
    | apply safe_bind; [|intros]
    | match goal with
      | |- safe (if ?b then _ else _) => destruct b
      | |- safe (match ?o with Some _ => _ | None => _ end) => destruct o
      | |- safe (let '(_, _) := ?p in _) => destruct p
      end ].

Section WithOracles.
Variable orc : oracles.

Lemma duration_unmarshal_safe v : safe (duration_unmarshal orc v).
Proof. apply safe_of_option. Qed.

Ltac step_safe f := unfold f, duration_unmarshal; safe_tac.

Lemma start_unmarshal_safe v : safe (start_unmarshal orc v).
Proof.
  unfold start_unmarshal. apply safe_bind; [apply attrs_unmarshal_safe|]. intros.
  apply safe_bind; [apply attrs_fold_safe; intros; step_safe start_step|]. intros. safe_tac.
Qed.

Lemma server_control_unmarshal_safe v : safe (server_control_unmarshal orc v).
Proof.
  unfold server_control_unmarshal. apply safe_bind; [apply attrs_unmarshal_safe|]. intros.
  apply attrs_fold_safe; intros; step_safe server_control_step.
Qed.

Lemma part_inf_unmarshal_safe v : safe (part_inf_unmarshal orc v).
Proof.
  unfold part_inf_unmarshal. apply safe_bind; [apply attrs_unmarshal_safe|]. intros.
  apply safe_bind; [apply attrs_fold_safe; intros; step_safe part_inf_step|]. intros. safe_tac.
Qed.

Lemma map_unmarshal_safe v : safe (map_unmarshal v).
Proof.
  unfold map_unmarshal. apply safe_bind; [apply attrs_unmarshal_safe|]. intros.
  apply safe_bind; [apply attrs_fold_safe; intros; step_safe map_step|]. intros. safe_tac.
Qed.

Lemma key_unmarshal_safe v : safe (key_unmarshal v).
Proof.
  unfold key_unmarshal. apply safe_bind; [apply attrs_unmarshal_safe|]. intros.
  apply safe_bind; [apply attrs_fold_safe; intros; step_safe key_step|]. intros. safe_tac.
Qed.

Lemma skip_unmarshal_safe v : safe (skip_unmarshal v).
Proof.
  unfold skip_unmarshal. apply safe_bind; [apply attrs_unmarshal_safe|]. intros.
  apply safe_bind; [apply attrs_fold_safe; intros; step_safe skip_step|]. intros. safe_tac.
Qed.

Lemma part_unmarshal_safe v : safe (part_unmarshal orc v).
Proof.
  unfold part_unmarshal. apply safe_bind; [apply attrs_unmarshal_safe|]. intros.
  apply safe_bind; [apply attrs_fold_safe; intros; step_safe part_step|]. intros. safe_tac.
Qed.

Lemma preload_hint_unmarshal_safe v : safe (preload_hint_unmarshal v).
Proof.
  unfold preload_hint_unmarshal. apply safe_bind; [apply attrs_unmarshal_safe|]. intros.
  apply safe_bind; [apply attrs_fold_safe; intros; step_safe preload_hint_step|]. intros. safe_tac.
Qed.

Lemma rendition_unmarshal_safe v : safe (rendition_unmarshal v).
Proof.
  unfold rendition_unmarshal. apply safe_bind; [apply attrs_unmarshal_safe|]. intros.
  apply safe_bind; [apply attrs_fold_safe; intros; step_safe rendition_step|]. intros. safe_tac.
Qed.

(* lines[1] exists because the caller joined two lines with "\n" *)
Lemma variant_unmarshal_safe a b : safe (variant_unmarshal orc (a ++ lf ++ b)).
Proof.
  unfold variant_unmarshal, lf.
  pose proof (split_byte_sep_len LF a b) as HL. simpl in HL.
  change (a ++ String LF "" ++ b) with (a ++ String LF b).
  destruct (split_byte LF (a ++ String LF b)) as [|l0 [|l1 tl]] eqn:E; simpl in HL; try lia.
  unfold list_at; simpl.
  apply safe_bind; [apply attrs_unmarshal_safe|]. intros.
  apply safe_bind; [apply attrs_fold_safe; intros; step_safe variant_step|]. intros.
  apply safe_bind.
  { destruct (Nat.eqb (slen l1) 0) eqn:E0; [exact I|].
    apply safe_bind; [apply safe_byte_at; apply Nat.eqb_neq in E0; lia|]. intros; exact I. }
  intros bad _. destruct bad; exact I.
Qed.

(* ---------- Media.Unmarshal ---------- *)
Ltac prefix_case H :=
  apply safe_bind; [apply safe_cut_prefix; exact H|intros].

Lemma media_line_safe st line : safe (media_line orc st line).
Proof.
  unfold media_line.
  repeat match goal with
  | |- safe (if has_prefix ?p line then _ else _) =>
      let H := fresh "Hp" in destruct (has_prefix p line) eqn:H;
      [prefix_case H || idtac|]
  | |- safe (if String.eqb line ?x then _ else _) => destruct (String.eqb line x)
  end;
  try (first [ apply safe_bind; [first [apply start_unmarshal_safe | apply server_control_unmarshal_safe
                                       | apply part_inf_unmarshal_safe | apply map_unmarshal_safe
                                       | apply key_unmarshal_safe | apply skip_unmarshal_safe
                                       | apply part_unmarshal_safe | apply byterange_unmarshal_safe
                                       | apply preload_hint_unmarshal_safe]|intros; exact I]
             | solve [safe_tac] ]).
  - (* #EXT-X-TARGETDURATION: line[:i] after IndexByte *)
    apply safe_bind.
    { destruct (index_byte "." a) eqn:E; [|exact I]. apply index_byte_lt in E. apply safe_slice_to; lia. }
    intros. safe_tac.
  - (* #EXTINF: parts[0], parts[1] after len(parts) == 2 *)
    destruct (negb (Nat.eqb (List.length (split_n2 "," a)) 2)) eqn:E; [exact I|].
    apply negb_false_iff, Nat.eqb_eq in E.
    destruct (split_n2 "," a) as [|p0 [|p1 [|? ?]]]; simpl in E; try discriminate.
    unfold list_at; simpl. unfold duration_unmarshal. safe_tac.
  - (* URI line: line[0] after len(line) != 0 *)
    apply safe_bind.
    { destruct (negb (Nat.eqb (slen line) 0)) eqn:E; [|exact I].
      apply nonzero_len in E. apply safe_bind; [apply safe_byte_at; lia|]. intros; exact I. }
    intros is_uri _. destruct is_uri.
    + unfold segment_validate. safe_tac.
    + destruct (has_prefix "#EXT-X-PRELOAD-HINT:" line) eqn:HpH.
      * prefix_case HpH. apply safe_bind; [apply preload_hint_unmarshal_safe|intros; exact I].
      * destruct (String.eqb line "#EXT-X-ENDLIST"); exact I.
Qed.

Lemma media_loop_safe fuel : forall st s, (slen s < fuel)%nat -> safe (media_loop orc fuel st s).
Proof.
  induction fuel as [|f IH]; intros st s Hf; [lia|].
  simpl. apply safe_bind; [apply read_line_safe|]. intros [line s'] Hr.
  destruct (String.eqb line "" && String.eqb s' "") eqn:Eb; [exact I|].
  apply safe_bind; [apply media_line_safe|]. intros st' _.
  apply IH. apply read_line_shrinks in Hr as [Hr|[-> ->]]; [lia|].
  destruct s; simpl in *; [discriminate|lia].
Qed.

Lemma media_unmarshal_safe buf : safe (media_unmarshal orc buf).
Proof.
  unfold media_unmarshal. apply safe_bind; [apply skip_header_safe|]. intros s Hs.
  apply skip_header_le in Hs.
  apply safe_bind; [apply media_loop_safe; lia|]. intros. safe_tac.
Qed.

(* ---------- Multivariant.Unmarshal ---------- *)
Lemma multi_line_safe m line s : safe (multi_line orc m line s).
Proof.
  unfold multi_line.
  repeat match goal with
  | |- safe (if has_prefix ?p line then _ else _) =>
      let H := fresh "Hp" in destruct (has_prefix p line) eqn:H;
      [prefix_case H || idtac|]
  end; try solve [safe_tac].
  - apply safe_bind; [apply start_unmarshal_safe|intros; exact I].
  - apply safe_bind; [apply read_line_safe|]. intros [line2 s'] _.
    apply safe_bind; [apply variant_unmarshal_safe|intros; exact I].
  - apply safe_bind; [apply rendition_unmarshal_safe|intros; exact I].
Qed.

Lemma multi_line_le m line s m' s' :
  multi_line orc m line s = Ok (m', s') -> (slen s' <= slen s)%nat.
Proof.
  unfold multi_line.
  repeat match goal with
  | |- (if ?b then _ else _) = _ -> _ => destruct b
  end; intros H;
  repeat match type of H with
  | bind ?m _ = _ => let E := fresh "E" in destruct m eqn:E; simpl in H; try discriminate
  | (let '(_, _) := ?p in _) = _ => destruct p
  | (if ?b then _ else _) = _ => destruct b
  end; try (inversion H; subst; lia).
  inversion H; subst. eapply read_line_le; eauto.
Qed.

Lemma multi_loop_safe fuel : forall m s, (slen s < fuel)%nat -> safe (multi_loop orc fuel m s).
Proof.
  induction fuel as [|f IH]; intros m s Hf; [lia|].
  simpl. apply safe_bind; [apply read_line_safe|]. intros [line s'] Hr.
  destruct (String.eqb line "" && String.eqb s' "") eqn:Eb; [exact I|].
  apply safe_bind; [apply multi_line_safe|]. intros [m' s''] Hm.
  apply multi_line_le in Hm. simpl. apply IH.
  apply read_line_shrinks in Hr as [Hr|[-> ->]]; [lia|].
  simpl in Hm. destruct s; simpl in *; [discriminate|lia].
Qed.

Lemma multivariant_unmarshal_safe buf : safe (multivariant_unmarshal orc buf).
Proof.
  unfold multivariant_unmarshal. apply safe_bind; [apply skip_header_safe|]. intros s Hs.
  apply skip_header_le in Hs.
  apply safe_bind; [apply multi_loop_safe; lia|]. intros. safe_tac.
Qed.

(* ---------- findType / Unmarshal ---------- *)
Lemma find_type_safe fuel : forall s, (slen s < fuel)%nat -> safe (find_type fuel s).
Proof.
  induction fuel as [|f IH]; intros s Hf; [lia|].
  cbn [find_type]. destruct (index_byte LF s) eqn:E; [|exact I].
  apply index_byte_lt in E.
  apply safe_bind; [apply safe_slice_to; lia|]. intros line _.
  apply safe_bind; [apply safe_slice_from; lia|]. intros rest Hr.
  apply slice_from_inv in Hr as [-> _].
  destruct (has_prefix "#EXT-X-STREAM-INF:" line); [exact I|].
  destruct (has_prefix "#EXTINF:" line); [exact I|].
  apply IH. rewrite slen_drop. lia.
Qed.

Lemma unmarshal_safe b : safe (unmarshal orc b).
Proof.
  unfold unmarshal. apply safe_bind; [apply find_type_safe; lia|]. intros k _.
  destruct k; (apply safe_bind; [first [apply media_unmarshal_safe|apply multivariant_unmarshal_safe]|intros; exact I]).
Qed.

(* C15, first half: every decoder answers Ok or Err on every byte string *)
Theorem decoders_total b :
  ((exists p, unmarshal orc b = Ok p) \/ unmarshal orc b = Err)
  /\ ((exists p, media_unmarshal orc b = Ok p) \/ media_unmarshal orc b = Err)
  /\ ((exists p, multivariant_unmarshal orc b = Ok p) \/ multivariant_unmarshal orc b = Err).
Proof.
  repeat split; apply safe_iff;
    [apply unmarshal_safe|apply media_unmarshal_safe|apply multivariant_unmarshal_safe].
Qed.

(* Marshal has no failure path *)
Lemma marshal_total p : exists s, marshal orc p = Ok s.
Proof. destruct p; simpl; eauto. Qed.

End WithOracles.
