(* Concrete, non-trivial values satisfying the hypotheses of the C10 theorems. *)
From Coq Require Import List ZArith Bool Lia.
From GoHls Require Import Model.ClientTime Proofs.ClientTimeArith Proofs.ClientTimeDecode
                          Proofs.ClientTimeFMP4 Proofs.ClientTimeMPEGTS Proofs.ClientTimeMain.
Import ListNotations.
Local Open Scope Z_scope.

Definition smp (d o p : Z) : sample := {| s_duration := d; s_ptsOffset := o; s_payload := p; s_elapsed := 0 |}.

(* video (90 kHz, id 99) + audio (44.1 kHz, id 98) in one playlist, origin 2^40, two segments
   with dates, B-frame style offsets and a negative one *)
Definition ex_B : Z := 1099511627776.
Definition ex_init : list initTrack :=
  [ {| it_id := 98; it_timeScale := 44100; it_isVideo := false |};
    {| it_id := 99; it_timeScale := 90000; it_isVideo := true |} ].
Definition ex_seg1 : segment :=
  {| sg_dateTime := Some 1700000000000000000; sg_parts := [
     [ {| pt_id := 98; pt_baseTime := ex_B * 44100 / 90000 - 1000;
          pt_samples := [smp 1024 0 1; smp 1024 0 2]; pt_anchor := 0 |};
       {| pt_id := 99; pt_baseTime := ex_B;
          pt_samples := [smp 3000 6000 3; smp 3000 (-3001) 4; smp 3000 0 5]; pt_anchor := 0 |} ];
     [ {| pt_id := 99; pt_baseTime := ex_B + 9000; pt_samples := [smp 3000 3000 6]; pt_anchor := 0 |} ] ] |}.
Definition ex_seg2 : segment :=
  {| sg_dateTime := Some 1700000000133333333; sg_parts := [
     [ {| pt_id := 99; pt_baseTime := ex_B + 12000; pt_samples := [smp 3000 0 7]; pt_anchor := 0 |};
       {| pt_id := 98; pt_baseTime := ex_B * 44100 / 90000 + 5000;
          pt_samples := [smp 1024 0 8]; pt_anchor := 0 |} ] ] |}.
Definition ex_stream : stream := {| st_init := ex_init; st_segments := [ex_seg1; ex_seg2] |}.
Definition ex_conv : convFMP4 := {| leadingTimeScale := 90000; leadingBaseTime := ex_B |}.

Definition ex_out : list (nat * delivery) :=
  match runLeadingFMP4 ex_stream with Ok (o, _, _) => o | _ => [] end.
Definition ex_hist : list ntpFMP4 :=
  match runLeadingFMP4 ex_stream with Ok (_, _, h) => h | _ => [] end.

Lemma ex_wf_init : wf_init ex_init.
Proof. repeat constructor. Qed.

Lemma ex_wf_segs : wf_segs (st_segments ex_stream).
Proof.
  intros seg p pt Hs Hp Hpt. cbn in Hs.
  destruct Hs as [<-|[<-|[]]]; cbn in Hp;
    repeat (destruct Hp as [<-|Hp]; [cbn in Hpt; repeat (destruct Hpt as [<-|Hpt]; [vm_compute; discriminate|]); contradiction|]);
    contradiction.
Qed.

Lemma ex_run : runLeadingFMP4 ex_stream = Ok (ex_out, Some ex_conv, ex_hist).
Proof. vm_compute. reflexivity. Qed.

(* the video unit with the negative offset is dropped, the early audio unit too; six remain *)
Lemma ex_delivered :
  map dkey (proj 1 ex_out) = [(6000, 0, 3); (6000, 6000, 5); (12000, 9000, 6); (12000, 12000, 7)]
  /\ map dkey (proj 0 ex_out) = [(24, 24, 2); (5000, 5000, 8)].
Proof. vm_compute. split; reflexivity. Qed.

Lemma ex_hist_ok : Forall ntp_ok ex_hist.
Proof. vm_compute. repeat constructor; intros _; reflexivity. Qed.

(* a rendition (48 kHz) played against the same converter *)
Definition ex_rend : stream :=
  {| st_init := [ {| it_id := 1; it_timeScale := 48000; it_isVideo := false |} ];
     st_segments := [ {| sg_dateTime := None; sg_parts := [
        [ {| pt_id := 1; pt_baseTime := ex_B * 48000 / 90000 - 1;
             pt_samples := [smp 1024 0 20; smp 1024 0 21]; pt_anchor := 1 |} ] ] |} ] |}.
Definition ex_rend_out : list (nat * delivery) :=
  match runRenditionFMP4 (Some ex_conv) ex_hist ex_rend with Ok o => o | _ => [] end.

Lemma ex_rend_run : runRenditionFMP4 (Some ex_conv) ex_hist ex_rend = Ok ex_rend_out.
Proof. vm_compute. reflexivity. Qed.

Lemma ex_rend_wf : wf_init (st_init ex_rend).
Proof. repeat constructor. Qed.

Lemma ex_conv_wf : wf_conv ex_conv.
Proof. split; vm_compute; [discriminate|reflexivity]. Qed.

Lemma ex_client : exists out, runClientFMP4 ex_stream [ex_rend] = Ok out /\ length (proj 2 out) = 1%nat.
Proof. eexists. split; [vm_compute; reflexivity|reflexivity]. Qed.

(* MPEG-TS: video + audio, the stream starts 1000 ticks before the 33-bit wrap; true times *)
Definition tpe (t : nat) (p d pl : Z) : pes :=
  {| pe_track := t; pe_rawPTS := p; pe_rawDTS := d; pe_payload := pl; pe_elapsed := 0; pe_anchor := 0 |}.
Definition ex_S : Z := 8589934592 - 1000.
Definition ex_mstream : mstream :=
  {| mst_tracks := [MAudio; MH264];
     mst_segments := [
       {| ms_dateTime := Some 1700000000000000000;
          ms_pes := [ tpe 0 (ex_S - 500) 0 1; tpe 0 (ex_S + 1420) 0 2;          (* before the leading track *)
                      tpe 1 (ex_S + 6000) ex_S 3; tpe 0 (ex_S - 10) 0 4;       (* audio before the origin *)
                      tpe 1 (ex_S + 3000) (ex_S + 3000) 5; tpe 0 (ex_S + 3340) 0 6 ] |};
       {| ms_dateTime := Some 1700000000066666666;
          ms_pes := [ tpe 0 (ex_S + 5260) 0 7; tpe 1 (ex_S + 6000 + 3000) (ex_S + 6000) 8 ] |} ] |}.

Lemma ex_m_processed : processed ex_mstream =
  [ tpe 1 (ex_S + 6000) ex_S 3; tpe 0 (ex_S - 10) 0 4; tpe 1 (ex_S + 3000) (ex_S + 3000) 5;
    tpe 0 (ex_S + 3340) 0 6; tpe 0 (ex_S + 5260) 0 7; tpe 1 (ex_S + 6000 + 3000) (ex_S + 6000) 8 ].
Proof. reflexivity. Qed.

Lemma ex_m_gaps : pes_gaps (mst_tracks ex_mstream) (origin_of (mst_tracks ex_mstream) (processed ex_mstream))
                           (processed ex_mstream).
Proof. vm_compute. repeat split; discriminate. Qed.

Definition ex_m_res := runStreamMPEGTS true mstate_zero (wrap_stream ex_mstream).
Definition ex_m_out : list (nat * delivery) := match ex_m_res with Ok (_, o) => o | _ => [] end.
Definition ex_m_state : mstate := match ex_m_res with Ok (s, _) => s | _ => mstate_zero end.

Lemma ex_m_run : runStreamMPEGTS true mstate_zero (wrap_stream ex_mstream) = Ok (ex_m_state, ex_m_out).
Proof. vm_compute. reflexivity. Qed.

(* the wrap lies inside the stream, the two early audio units and the one before the origin
   are dropped, everything else is delivered relative to the first video dts *)
Lemma ex_m_delivered :
  map dkey (proj 1 ex_m_out) = [(6000, 0, 3); (3000, 3000, 5); (9000, 6000, 8)]
  /\ map dkey (proj 0 ex_m_out) = [(3340, 3340, 6); (5260, 5260, 7)]
  /\ wrap33 (ex_S + 3000) < wrap33 ex_S.
Proof. vm_compute. repeat split; reflexivity. Qed.

Lemma ex_sync : let B := ex_B in
  0 <= B /\ 0 < 90000 /\ 0 < 44100 /\ 0 < 48000 /\ 441 * 48000 = 480 * 44100.
Proof. vm_compute. repeat split; discriminate || reflexivity. Qed.

Lemma ex_mulDiv : multiplyAndDivide ex_B 48000 90000 = Ok 586406201480.
Proof. vm_compute. reflexivity. Qed.

Lemma ex_byterange_explicit :
  Forall (fun r => sr_length r <> None -> sr_start r <> None)
         [ {| sr_uri := 1; sr_start := Some 0; sr_length := Some 100 |};
           {| sr_uri := 1; sr_start := Some 100; sr_length := Some 50 |};
           {| sr_uri := 2; sr_start := None; sr_length := None |} ].
Proof. repeat (apply Forall_cons; [cbn; intros H; congruence|]). apply Forall_nil. Qed.
