(* fMP4 side of C10: the client model's deliveries equal a declarative description of the
   container (every sample once, in container order, filtered by pts >= 0, times given by
   closed formulas). *)
From Coq Require Import List ZArith Bool Lia.
From GoHls Require Import Model.ClientTime Proofs.ClientTimeArith.
Import ListNotations.
Local Open Scope Z_scope.

(* ---------- the res monad ---------- *)
Lemma bind_ok : forall {A B} (e : res A) (f : A -> res B) b,
  bind e f = Ok b -> exists a, e = Ok a /\ f a = Ok b.
Proof. intros A B e f b H. destruct e; cbn in H; try discriminate. eauto. Qed.

Ltac bind_inv H :=
  let a := fresh "a" in let Ha := fresh "Ha" in
  apply bind_ok in H; destruct H as (a & Ha & H).
Tactic Notation "bind_inv_as" hyp(H) ident(a) ident(Ha) :=
  apply bind_ok in H; destruct H as (a & Ha & H).

(* ---------- container-order description of one part track ---------- *)
(* every sample with its decode time: base + sum of the durations before it *)
Fixpoint annotate (dts : Z) (samples : list sample) : list (Z * sample) :=
  match samples with
  | [] => []
  | s :: r => (dts, s) :: annotate (dts + s_duration s) r
  end.

Definition sumDur (l : list sample) : Z := fold_right (fun s a => s_duration s + a) 0 l.

Lemma annotate_nth : forall ss d i x s,
  nth_error (annotate d ss) i = Some (x, s) ->
  x = d + sumDur (firstn i ss) /\ nth_error ss i = Some s.
Proof.
  induction ss as [|s0 r IH]; intros d i x s H.
  - destruct i; discriminate.
  - destruct i as [|i]; cbn in H.
    + injection H as <- <-. cbn. split; [lia|reflexivity].
    + apply IH in H. destruct H as [Hx Hs]. cbn [firstn sumDur fold_right nth_error].
      split; [fold (sumDur (firstn i r)); lia|assumption].
Qed.

Lemma annotate_length : forall ss d, length (annotate d ss) = length ss.
Proof. induction ss; intros; cbn; auto. Qed.

Lemma annotate_map_snd : forall ss d, map snd (annotate d ss) = ss.
Proof. induction ss; intros; cbn; [reflexivity|]. f_equal. apply IHss. Qed.

(* what process() hands to handleData for the sample with (normalised) decode time [dts] *)
Definition mkDelivery (rate entryDts : Z) (entryNtp : option Z) (x : Z * sample) : delivery :=
  {| dl_pts := fst x + s_ptsOffset (snd x);
     dl_dts := fst x;
     dl_ntp := match entryNtp with
               | None => None
               | Some n => Some (n + Z.quot ((fst x - entryDts) * second) rate)
               end;
     dl_data := s_payload (snd x) |}.

(* the pts < 0 filter of handleData *)
Definition keep (d : delivery) : bool := 0 <=? dl_pts d.

Definition spec_process (rate entryDts : Z) (entryNtp : option Z) (dts : Z) (ss : list sample)
  : list delivery :=
  filter keep (map (mkDelivery rate entryDts entryNtp) (annotate dts ss)).

Lemma handleData_ok : forall rate el pts dts ntp data r,
  handleData rate el pts dts ntp data = Ok r ->
  r = if pts <? 0 then None
      else Some {| dl_pts := pts; dl_dts := dts; dl_ntp := ntp; dl_data := data |}.
Proof.
  intros rate el pts dts ntp data r H. unfold handleData in H.
  destruct (pts <? 0); [congruence|].
  bind_inv H. destruct (_ && _); [discriminate|]. congruence.
Qed.

Lemma process_spec : forall ss rate entryDts entryNtp dts ds,
  0 < rate ->
  process rate entryDts entryNtp dts ss = Ok ds ->
  ds = spec_process rate entryDts entryNtp dts ss.
Proof.
  induction ss as [|s r IH]; intros rate entryDts entryNtp dts ds Hr H.
  - cbn in H. injection H as <-. reflexivity.
  - cbn [process] in H. bind_inv H. rename a into ntp. bind_inv H. rename a into rr.
    bind_inv H. rename a into ds'. injection H as <-.
    apply IH in Ha1; [|assumption]. subst ds'.
    apply handleData_ok in Ha0. subst rr.
    assert (Hn : ntp = dl_ntp (mkDelivery rate entryDts entryNtp (dts, s))).
    { unfold mkDelivery. cbn [fst snd dl_ntp]. destruct entryNtp as [n|].
      - bind_inv_as Ha dd Hdd. rewrite t2d_quot in Hdd by assumption. injection Hdd as <-. congruence.
      - congruence. }
    unfold spec_process. cbn [annotate map filter].
    assert (Hk : keep (mkDelivery rate entryDts entryNtp (dts, s)) = negb (dts + s_ptsOffset s <? 0)).
    { unfold keep, mkDelivery. cbn [dl_pts fst snd]. rewrite Z.ltb_antisym, negb_involutive. reflexivity. }
    rewrite Hk. destruct (dts + s_ptsOffset s <? 0); cbn [negb]; [reflexivity|].
    f_equal. rewrite Hn. reflexivity.
Qed.

(* ---------- track processor table ---------- *)
Lemma lookupProc_from_spec : forall init i id acc j rate,
  lookupProc_from i init id acc = Some (j, rate) ->
  acc = Some (j, rate) \/
  (exists t, nth_error init (j - i) = Some t /\ (i <= j)%nat /\ it_id t = id /\ it_timeScale t = rate).
Proof.
  induction init as [|t r IH]; intros i id acc j rate H; cbn in H.
  - auto.
  - apply IH in H. destruct H as [H|(t' & Hn & Hle & Hid & Hts)].
    + destruct (it_id t =? id) eqn:E.
      * injection H as <- <-. right. exists t. rewrite Nat.sub_diag. cbn.
        apply Z.eqb_eq in E. auto.
      * auto.
    + right. exists t'. replace (j - i)%nat with (S (j - S i)) by lia. cbn. repeat split; auto. lia.
Qed.

Lemma lookupProc_spec : forall init id j rate,
  lookupProc init id = Some (j, rate) ->
  exists t, nth_error init j = Some t /\ it_id t = id /\ it_timeScale t = rate.
Proof.
  intros init id j rate H. apply lookupProc_from_spec in H.
  destruct H as [H|(t & Hn & _ & Hid & Hts)]; [discriminate|].
  rewrite Nat.sub_0_r in Hn. eauto.
Qed.

Definition wf_init (init : list initTrack) : Prop := Forall (fun t => 0 < it_timeScale t) init.

Lemma lookupProc_rate_pos : forall init id j rate,
  wf_init init -> lookupProc init id = Some (j, rate) -> 0 < rate /\ (j < length init)%nat.
Proof.
  intros init id j rate W H. apply lookupProc_spec in H. destruct H as (t & Hn & _ & <-).
  split.
  - unfold wf_init in W. rewrite Forall_forall in W. apply W. eapply nth_error_In; eauto.
  - apply nth_error_Some. congruence.
Qed.

(* ---------- one part track ---------- *)
Definition ntp_ok (n : ntpFMP4) : Prop := ntpAvailable n = true -> 0 < ntpClockRate n.

(* getNTP as a closed formula *)
Definition spec_getNTP (n : ntpFMP4) (ts rate : Z) : option Z :=
  if ntpAvailable n
  then Some (ntpValue n
             + Z.quot ((ts - Z.quot (ntpTimestamp n * rate) (ntpClockRate n)) * second) rate)
  else None.

Lemma getNTP_spec : forall n ts rate,
  0 < rate -> ntp_ok n -> fmp4_getNTP n ts rate = Ok (spec_getNTP n ts rate).
Proof.
  intros n ts rate Hr Hn. unfold fmp4_getNTP, spec_getNTP.
  destruct (ntpAvailable n) eqn:A; [|reflexivity]. cbn [negb].
  rewrite mulDiv_quot by (try apply Hn; auto; lia). cbn [bind].
  rewrite t2d_quot by assumption. reflexivity.
Qed.

Definition spec_partTrack (init : list initTrack) (conv : convFMP4) (n : ntpFMP4) (pt : partTrack)
  : list (nat * delivery) :=
  match lookupProc init (pt_id pt) with
  | None => []
  | Some (j, rate) =>
      let pd := pt_baseTime pt - leadingBaseTime conv * rate / leadingTimeScale conv in
      map (pair j) (spec_process rate pd (spec_getNTP n pd rate) pd (pt_samples pt))
  end.

Definition wf_conv (conv : convFMP4) : Prop := 0 <= leadingBaseTime conv /\ 0 < leadingTimeScale conv.

Lemma processPartTrack_spec : forall init conv ntpFor nf pt out,
  wf_init init -> wf_conv conv ->
  (forall x, ntpFor pt = Ok x -> x = nf pt /\ ntp_ok x) ->
  processPartTrack init conv ntpFor pt = Ok out ->
  out = spec_partTrack init conv (nf pt) pt.
Proof.
  intros init conv ntpFor nf pt out W [HB Hrl] Hnf H.
  unfold processPartTrack in H. unfold spec_partTrack.
  destruct (lookupProc init (pt_id pt)) as [[j rate]|] eqn:L; [|congruence].
  destruct (lookupProc_rate_pos _ _ _ _ W L) as [Hr _].
  bind_inv H. rename a into dts. bind_inv H. rename a into n. bind_inv H. rename a into ntp.
  bind_inv H. rename a into ds. injection H as <-.
  destruct conv as [rl B]. cbn [leadingBaseTime leadingTimeScale] in *.
  rewrite fmp4_convert_floor in Ha by lia. injection Ha as <-.
  destruct (Hnf n Ha0) as [-> Hok].
  rewrite getNTP_spec in Ha1 by assumption. injection Ha1 as <-.
  apply process_spec in Ha2; [|assumption]. subst ds. reflexivity.
Qed.

Definition spec_parts (init : list initTrack) (conv : convFMP4) (nf : partTrack -> ntpFMP4)
           (parts : list part) : list (nat * delivery) :=
  flat_map (fun pt => spec_partTrack init conv (nf pt) pt) (concat parts).

Lemma processPartTracks_spec : forall init conv ntpFor nf pts out,
  wf_init init -> wf_conv conv ->
  (forall pt x, ntpFor pt = Ok x -> x = nf pt /\ ntp_ok x) ->
  processPartTracks init conv ntpFor pts = Ok out ->
  out = flat_map (fun pt => spec_partTrack init conv (nf pt) pt) pts.
Proof.
  intros init conv ntpFor nf pts. induction pts as [|pt r IH]; intros out W Wc Hnf H.
  - cbn in H. injection H as <-. reflexivity.
  - cbn [processPartTracks] in H. bind_inv H. bind_inv H. injection H as <-.
    cbn [flat_map]. f_equal.
    + eapply processPartTrack_spec; eauto.
    + apply IH; auto.
Qed.

Lemma processParts_spec : forall init conv ntpFor nf parts out,
  wf_init init -> wf_conv conv ->
  (forall pt x, ntpFor pt = Ok x -> x = nf pt /\ ntp_ok x) ->
  processParts init conv ntpFor parts = Ok out ->
  out = spec_parts init conv nf parts.
Proof. intros. unfold processParts in *. unfold spec_parts. eapply processPartTracks_spec; eauto. Qed.

(* ---------- the leading stream ---------- *)
(* NTP state in force while a segment of the leading stream is processed *)
Definition spec_segNtp (init : list initTrack) (lid : Z) (conv : convFMP4) (cur : ntpFMP4)
           (seg : segment) : ntpFMP4 :=
  match sg_dateTime seg, findFirstPartTrackOfLeadingTrack (sg_parts seg) lid with
  | Some dt, Some lpt =>
      match lookupProc init (pt_id lpt) with
      | Some (_, rate) =>
          fmp4_setNTP dt (pt_baseTime lpt - leadingBaseTime conv * rate / leadingTimeScale conv) rate
      | None => cur
      end
  | _, _ => cur
  end.

Fixpoint spec_leadingSegs (init : list initTrack) (lid : Z) (conv : convFMP4) (cur : ntpFMP4)
         (segs : list segment) : list (nat * delivery) * list ntpFMP4 :=
  match segs with
  | [] => ([], [])
  | seg :: r =>
      let n := spec_segNtp init lid conv cur seg in
      let '(b, h) := spec_leadingSegs init lid conv n r in
      (spec_parts init conv (fun _ => n) (sg_parts seg) ++ b, n :: h)
  end.

Lemma segStartLeading_spec : forall init lid conv cur seg c n,
  wf_init init -> wf_conv conv -> ntp_ok cur ->
  segStartLeading init lid (Some conv) cur seg = Ok (c, n) ->
  c = conv /\ n = spec_segNtp init lid conv cur seg /\ ntp_ok n
  /\ findFirstPartTrackOfLeadingTrack (sg_parts seg) lid <> None.
Proof.
  intros init lid conv cur seg c n W [HB Hrl] Hcur H.
  unfold segStartLeading in H. unfold spec_segNtp.
  destruct (findFirstPartTrackOfLeadingTrack (sg_parts seg) lid) as [lpt|]; [|discriminate].
  destruct (sg_dateTime seg) as [dt|].
  - destruct (lookupProc init (pt_id lpt)) as [[j rate]|] eqn:L; [|discriminate].
    destruct (lookupProc_rate_pos _ _ _ _ W L) as [Hr _].
    bind_inv H. injection H as <- <-.
    destruct conv as [rl B]. cbn [leadingBaseTime leadingTimeScale] in *.
    rewrite fmp4_convert_floor in Ha by lia. injection Ha as <-.
    repeat split; try congruence. intros _. exact Hr.
  - injection H as <- <-. repeat split; auto; congruence.
Qed.

Lemma runLeadingSegs_spec : forall init lid conv segs cur out c h,
  wf_init init -> wf_conv conv -> ntp_ok cur ->
  runLeadingSegs init lid (Some conv) cur segs = Ok (out, c, h) ->
  c = Some conv /\ (out, h) = spec_leadingSegs init lid conv cur segs /\ Forall ntp_ok h.
Proof.
  intros init lid conv segs. induction segs as [|seg r IH]; intros cur out c h W Wc Hcur H.
  - cbn in H. injection H as <- <- <-. auto.
  - cbn [runLeadingSegs] in H. bind_inv H. destruct a as [c1 n].
    apply segStartLeading_spec in Ha; auto. destruct Ha as (-> & Hn & Hnok & _).
    bind_inv H. bind_inv H. destruct a0 as [[b c2] h2]. injection H as <- <- <-.
    apply IH in Ha0; auto. destruct Ha0 as (-> & Hs & Hh).
    eapply processParts_spec with (nf := fun _ => n) in Ha; auto.
    2:{ intros pt x E. injection E as <-. auto. }
    subst a. cbn [spec_leadingSegs]. rewrite <- Hn. rewrite <- Hs. auto.
Qed.

(* the first segment creates the converter: the result is the same as if it had existed *)
Lemma segStartLeading_none : forall init lid cur seg c n,
  segStartLeading init lid None cur seg = Ok (c, n) ->
  segStartLeading init lid (Some c) cur seg = Ok (c, n)
  /\ exists lpt, findFirstPartTrackOfLeadingTrack (sg_parts seg) lid = Some lpt
       /\ c = {| leadingTimeScale := findTimeScaleOfLeadingTrack init lid;
                 leadingBaseTime := pt_baseTime lpt |}.
Proof.
  intros init lid cur seg c n H. unfold segStartLeading in *.
  destruct (findFirstPartTrackOfLeadingTrack (sg_parts seg) lid) as [lpt|]; [|discriminate].
  destruct (sg_dateTime seg) as [dt|].
  - destruct (lookupProc init (pt_id lpt)) as [[j rate]|]; [|discriminate].
    bind_inv H. injection H as <- <-. rewrite Ha. cbn [bind]. eauto.
  - injection H as <- <-. eauto.
Qed.

Lemma runLeadingSegs_none : forall init lid cur seg r res0 c n,
  segStartLeading init lid None cur seg = Ok (c, n) ->
  runLeadingSegs init lid None cur (seg :: r) = res0 ->
  runLeadingSegs init lid (Some c) cur (seg :: r) = res0.
Proof.
  intros init lid cur seg r res0 c n H R. cbn [runLeadingSegs] in *.
  destruct (segStartLeading_none _ _ _ _ _ _ H) as [H2 _].
  rewrite H in R. rewrite H2. exact R.
Qed.

(* the origin: converter the leading stream creates from its first segment *)
Definition origin (init : list initTrack) (lid : Z) (segs : list segment) : option convFMP4 :=
  match segs with
  | [] => None
  | seg :: _ =>
      match findFirstPartTrackOfLeadingTrack (sg_parts seg) lid with
      | Some lpt => Some {| leadingTimeScale := findTimeScaleOfLeadingTrack init lid;
                            leadingBaseTime := pt_baseTime lpt |}
      | None => None
      end
  end.

Lemma pick_in : forall init lid,
  fmp4PickLeadingTrack init = Ok lid -> exists t, In t init /\ it_id t = lid.
Proof.
  intros init lid H. unfold fmp4PickLeadingTrack in H.
  destruct (find it_isVideo init) as [t|] eqn:F.
  - injection H as <-. apply find_some in F. exists t. tauto.
  - destruct init as [|t r]; [discriminate|]. injection H as <-. exists t. cbn. auto.
Qed.

Lemma findTimeScale_pos : forall init lid,
  wf_init init -> (exists t, In t init /\ it_id t = lid) ->
  0 < findTimeScaleOfLeadingTrack init lid.
Proof.
  intros init lid W (t & Hin & Hid). unfold findTimeScaleOfLeadingTrack.
  destruct (find (fun t0 => it_id t0 =? lid) init) as [t'|] eqn:F.
  - apply find_some in F. unfold wf_init in W. rewrite Forall_forall in W. apply W. tauto.
  - exfalso. apply (find_none _ _ F) in Hin. rewrite Hid, Z.eqb_refl in Hin. discriminate.
Qed.

Definition wf_segs (segs : list segment) : Prop :=
  forall seg p pt, In seg segs -> In p (sg_parts seg) -> In pt p -> 0 <= pt_baseTime pt.

Lemma findInPart_in : forall p id pt, findInPart p id = Some pt -> In pt p.
Proof. intros p id pt H. unfold findInPart in H. apply find_some in H. tauto. Qed.

Lemma findFirst_in : forall parts id pt,
  findFirstPartTrackOfLeadingTrack parts id = Some pt -> exists p, In p parts /\ In pt p /\ pt_id pt = id.
Proof.
  induction parts as [|p r IH]; intros id pt H; cbn in H; [discriminate|].
  destruct (findInPart p id) as [pt'|] eqn:F.
  - injection H as <-. exists p. cbn. unfold findInPart in F. apply find_some in F.
    destruct F as [F1 F2]. apply Z.eqb_eq in F2. auto.
  - apply IH in H. destruct H as (p' & H1 & H2 & H3). exists p'. cbn. auto.
Qed.

(* main refinement statement for the leading stream *)
Lemma runLeadingFMP4_spec : forall st out c h,
  wf_init (st_init st) -> wf_segs (st_segments st) ->
  runLeadingFMP4 st = Ok (out, c, h) ->
  exists lid, fmp4PickLeadingTrack (st_init st) = Ok lid /\
  c = origin (st_init st) lid (st_segments st) /\
  match c with
  | None => st_segments st = [] /\ out = [] /\ h = []
  | Some conv =>
      wf_conv conv /\
      (out, h) = spec_leadingSegs (st_init st) lid conv ntpFMP4_zero (st_segments st) /\
      Forall ntp_ok h
  end.
Proof.
  intros st out c h W Ws H. unfold runLeadingFMP4 in H. bind_inv H. rename a into lid.
  unfold streamPrologue in Ha. cbn [negb andb] in Ha. bind_inv Ha. rename a into lid'.
  destruct (Nat.ltb _ _); [discriminate|]. injection Ha as ->.
  exists lid. split; [assumption|].
  destruct (st_segments st) as [|seg r] eqn:Es.
  - cbn in H. injection H as <- <- <-. cbn. auto.
  - pose proof H as H0. cbn [runLeadingSegs] in H0. bind_inv H0. destruct a as [conv n].
    destruct (segStartLeading_none _ _ _ _ _ _ Ha) as [_ (lpt & Hf & Hc)].
    apply (runLeadingSegs_none _ _ _ _ _ _ _ _ Ha) in H.
    assert (Wc : wf_conv conv).
    { subst conv. split; cbn [leadingBaseTime leadingTimeScale].
      - apply findFirst_in in Hf. destruct Hf as (p & Hp & Hpt & _).
        apply (Ws seg p lpt); cbn; auto.
      - apply findTimeScale_pos; [assumption|]. eapply pick_in; eauto. }
    apply runLeadingSegs_spec in H; auto.
    2:{ intros A. discriminate. }
    destruct H as (-> & Hs & Hh). cbn [origin]. rewrite Hf, <- Hc. auto.
Qed.

(* ---------- a rendition stream ---------- *)
Definition anchorOf (hist : list ntpFMP4) (pt : partTrack) : ntpFMP4 :=
  nth (pt_anchor pt) hist ntpFMP4_zero.

Lemma anchorNtp_spec : forall hist pt x,
  Forall ntp_ok hist -> anchorNtp hist pt = Ok x -> x = anchorOf hist pt /\ ntp_ok x.
Proof.
  intros hist pt x Hh H. unfold anchorNtp in H. unfold anchorOf.
  destruct (nth_error hist (pt_anchor pt)) as [n|] eqn:E; [|discriminate]. injection H as <-.
  split.
  - symmetry. apply nth_error_nth. assumption.
  - rewrite Forall_forall in Hh. apply Hh. eapply nth_error_In; eauto.
Qed.

Definition spec_renditionSegs (init : list initTrack) (conv : convFMP4) (hist : list ntpFMP4)
           (segs : list segment) : list (nat * delivery) :=
  flat_map (fun seg => spec_parts init conv (anchorOf hist) (sg_parts seg)) segs.

Lemma runRenditionSegs_spec : forall init lid conv hist segs out,
  wf_init init -> wf_conv conv -> Forall ntp_ok hist ->
  runRenditionSegs init lid conv hist segs = Ok out ->
  out = spec_renditionSegs init conv hist segs.
Proof.
  intros init lid conv hist segs. induction segs as [|seg r IH]; intros out W Wc Hh H.
  - cbn in H. injection H as <-. reflexivity.
  - cbn [runRenditionSegs] in H.
    destruct (findFirstPartTrackOfLeadingTrack (sg_parts seg) lid); [|discriminate].
    bind_inv H. bind_inv H. injection H as <-.
    unfold spec_renditionSegs. cbn [flat_map]. f_equal.
    + eapply processParts_spec; eauto. intros pt x E. eapply anchorNtp_spec; eauto.
    + apply IH; auto.
Qed.

Lemma runRenditionFMP4_spec : forall conv hist st out,
  wf_init (st_init st) -> wf_conv conv -> Forall ntp_ok hist ->
  runRenditionFMP4 (Some conv) hist st = Ok out ->
  length (st_init st) = 1%nat /\
  out = spec_renditionSegs (st_init st) conv hist (st_segments st).
Proof.
  intros conv hist st out W Wc Hh H. unfold runRenditionFMP4 in H. bind_inv H.
  unfold streamPrologue in Ha. cbn [negb andb] in Ha.
  destruct (Nat.eqb (length (st_init st)) 1) eqn:E; [|discriminate].
  apply Nat.eqb_eq in E. split; [assumption|].
  destruct (st_segments st) as [|seg r] eqn:Es.
  - injection H as <-. reflexivity.
  - eapply runRenditionSegs_spec; eauto.
Qed.

(* ---------- per-track view of the description ---------- *)
Lemma proj_app : forall j a b, proj j (a ++ b) = proj j a ++ proj j b.
Proof. intros. unfold proj. rewrite filter_app, map_app. reflexivity. Qed.

Lemma proj_map_pair : forall j k (l : list delivery),
  proj j (map (pair k) l) = if Nat.eqb k j then l else [].
Proof.
  intros j k l. unfold proj. induction l as [|d r IH]; cbn [map filter fst].
  - destruct (Nat.eqb k j); reflexivity.
  - destruct (Nat.eqb k j) eqn:E; cbn [map snd]; [f_equal|]; exact IH.
Qed.

Lemma proj_flat_map : forall {A} j (f : A -> list (nat * delivery)) l,
  proj j (flat_map f l) = flat_map (fun x => proj j (f x)) l.
Proof.
  intros A j f l. induction l as [|x r IH]; [reflexivity|].
  cbn [flat_map]. rewrite proj_app, IH. reflexivity.
Qed.

(* container-order units of the track at position j of a stream: (container dts, sample) *)
Definition partTrack_units (init : list initTrack) (j : nat) (pt : partTrack) : list (Z * sample) :=
  match lookupProc init (pt_id pt) with
  | Some (j', _) => if Nat.eqb j' j then annotate (pt_baseTime pt) (pt_samples pt) else []
  | None => []
  end.

Definition segment_units (init : list initTrack) (j : nat) (seg : segment) : list (Z * sample) :=
  flat_map (partTrack_units init j) (concat (sg_parts seg)).

Definition stream_units (init : list initTrack) (j : nat) (segs : list segment) : list (Z * sample) :=
  flat_map (segment_units init j) segs.

(* pts, dts, payload of a delivery; the statement about ntp is separate *)
Definition dkey (d : delivery) : Z * Z * Z := (dl_pts d, dl_dts d, dl_data d).

(* normalisation of a container unit of a track with clock [rate] *)
Definition norm (conv : convFMP4) (rate : Z) (u : Z * sample) : Z * Z * Z :=
  let dts := fst u - leadingBaseTime conv * rate / leadingTimeScale conv in
  (dts + s_ptsOffset (snd u), dts, s_payload (snd u)).

Definition keepk (k : Z * Z * Z) : bool := 0 <=? fst (fst k).

Lemma annotate_shift : forall ss d x,
  map (fun u => (fst u - x, snd u)) (annotate d ss) = annotate (d - x) ss.
Proof.
  induction ss as [|s r IH]; intros d x; [reflexivity|].
  cbn [annotate map fst snd]. f_equal. rewrite IH. f_equal. lia.
Qed.

Lemma spec_process_keys : forall rate e n d ss x,
  map dkey (spec_process rate e n (d - x) ss)
  = filter keepk (map (fun u => (fst u - x + s_ptsOffset (snd u), fst u - x, s_payload (snd u)))
                      (annotate d ss)).
Proof.
  intros rate e n d ss x. unfold spec_process. rewrite <- annotate_shift.
  generalize (annotate d ss) as l. induction l as [|u r IH]; [reflexivity|].
  cbn [map filter]. unfold keep at 1, keepk at 1. cbn [mkDelivery dl_pts fst snd].
  destruct (0 <=? fst u - x + s_ptsOffset (snd u)); cbn [map]; [f_equal|]; exact IH.
Qed.

Lemma spec_partTrack_keys : forall init conv n pt j rate,
  nth_error init j = Some rate ->
  (forall j' r', lookupProc init (pt_id pt) = Some (j', r') -> j' = j -> r' = it_timeScale rate) ->
  map dkey (proj j (spec_partTrack init conv n pt))
  = filter keepk (map (norm conv (it_timeScale rate)) (partTrack_units init j pt)).
Proof.
  intros init conv n pt j t Hj Hr. unfold spec_partTrack, partTrack_units.
  destruct (lookupProc init (pt_id pt)) as [[j' r']|] eqn:L; [|reflexivity].
  cbv zeta. rewrite proj_map_pair. destruct (Nat.eqb j' j) eqn:E; [|reflexivity].
  apply Nat.eqb_eq in E. rewrite (Hr j' r' eq_refl E).
  rewrite spec_process_keys. reflexivity.
Qed.

Lemma lookupProc_rate_at : forall init id j r' t,
  lookupProc init id = Some (j, r') -> nth_error init j = Some t -> r' = it_timeScale t.
Proof.
  intros init id j r' t L Hn. apply lookupProc_spec in L. destruct L as (t' & Hn' & _ & <-).
  congruence.
Qed.

Lemma map_flat_map : forall {A B C} (g : B -> C) (f : A -> list B) l,
  map g (flat_map f l) = flat_map (fun x => map g (f x)) l.
Proof. intros. induction l; cbn; [reflexivity|]. rewrite map_app, IHl. reflexivity. Qed.

Lemma filter_flat_map : forall {A B} (p : B -> bool) (f : A -> list B) l,
  filter p (flat_map f l) = flat_map (fun x => filter p (f x)) l.
Proof. intros. induction l; cbn; [reflexivity|]. rewrite filter_app, IHl. reflexivity. Qed.

Lemma flat_map_ext' : forall {A B} (f g : A -> list B) l,
  (forall x, In x l -> f x = g x) -> flat_map f l = flat_map g l.
Proof.
  intros A B f g l H. induction l as [|x r IH]; [reflexivity|]. cbn.
  rewrite H by (cbn; auto). rewrite IH; [reflexivity|]. intros. apply H. cbn. auto.
Qed.

Lemma spec_parts_keys : forall init conv nf parts j t,
  nth_error init j = Some t ->
  map dkey (proj j (spec_parts init conv nf parts))
  = filter keepk (map (norm conv (it_timeScale t))
                      (flat_map (partTrack_units init j) (concat parts))).
Proof.
  intros init conv nf parts j t Hj. unfold spec_parts.
  rewrite proj_flat_map, !map_flat_map, filter_flat_map.
  apply flat_map_ext'. intros pt _.
  apply spec_partTrack_keys; [assumption|].
  intros j' r' L E. subst j'. eapply lookupProc_rate_at; eauto.
Qed.

Lemma spec_leadingSegs_keys : forall init lid conv segs cur j t,
  nth_error init j = Some t ->
  map dkey (proj j (fst (spec_leadingSegs init lid conv cur segs)))
  = filter keepk (map (norm conv (it_timeScale t)) (stream_units init j segs)).
Proof.
  intros init lid conv segs. induction segs as [|seg r IH]; intros cur j t Hj; [reflexivity|].
  cbn [spec_leadingSegs].
  destruct (spec_leadingSegs init lid conv (spec_segNtp init lid conv cur seg) r) as [b h] eqn:E.
  cbn [fst]. rewrite proj_app, map_app.
  unfold stream_units. cbn [flat_map]. rewrite map_app, filter_app. f_equal.
  - apply spec_parts_keys. assumption.
  - specialize (IH (spec_segNtp init lid conv cur seg) j t Hj). rewrite E in IH. exact IH.
Qed.

Lemma spec_renditionSegs_keys : forall init conv hist segs j t,
  nth_error init j = Some t ->
  map dkey (proj j (spec_renditionSegs init conv hist segs))
  = filter keepk (map (norm conv (it_timeScale t)) (stream_units init j segs)).
Proof.
  intros init conv hist segs j t Hj. unfold spec_renditionSegs, stream_units.
  rewrite proj_flat_map, !map_flat_map, filter_flat_map.
  apply flat_map_ext'. intros seg _. apply spec_parts_keys. assumption.
Qed.

(* ---------- c10_all_delivered / c10_fmp4_time for the two kinds of stream ---------- *)
Lemma fmp4_leading_delivers : forall st out c h conv j t,
  wf_init (st_init st) -> wf_segs (st_segments st) ->
  runLeadingFMP4 st = Ok (out, c, h) -> c = Some conv ->
  nth_error (st_init st) j = Some t ->
  map dkey (proj j out)
  = filter keepk (map (norm conv (it_timeScale t)) (stream_units (st_init st) j (st_segments st))).
Proof.
  intros st out c h conv j t W Ws H Hc Hj.
  apply runLeadingFMP4_spec in H; auto. destruct H as (lid & _ & _ & H). subst c.
  destruct H as (_ & Hs & _).
  pose proof (spec_leadingSegs_keys (st_init st) lid conv (st_segments st) ntpFMP4_zero j t Hj) as K.
  rewrite <- Hs in K. exact K.
Qed.

Lemma fmp4_rendition_delivers : forall conv hist st out t,
  wf_init (st_init st) -> wf_conv conv -> Forall ntp_ok hist ->
  runRenditionFMP4 (Some conv) hist st = Ok out ->
  nth_error (st_init st) 0 = Some t ->
  map dkey (proj 0 out)
  = filter keepk (map (norm conv (it_timeScale t)) (stream_units (st_init st) 0 (st_segments st))).
Proof.
  intros conv hist st out t W Wc Hh H Ht.
  apply runRenditionFMP4_spec in H; auto. destruct H as [_ ->].
  apply spec_renditionSegs_keys. assumption.
Qed.

(* nothing is delivered on a position that is not a track *)
Lemma spec_partTrack_pos : forall init conv n pt j d,
  In (j, d) (spec_partTrack init conv n pt) -> exists r, lookupProc init (pt_id pt) = Some (j, r).
Proof.
  intros init conv n pt j d H. unfold spec_partTrack in H.
  destruct (lookupProc init (pt_id pt)) as [[j' r']|]; [|contradiction].
  cbv zeta in H. apply in_map_iff in H. destruct H as (d' & E & _). injection E as -> ->. eauto.
Qed.

(* ---------- non-negativity ---------- *)
Lemma keepk_filter_nonneg : forall l k, In k (filter keepk l) -> 0 <= fst (fst k).
Proof. intros l k H. apply filter_In in H. destruct H as [_ H]. unfold keepk in H. apply Z.leb_le in H. exact H. Qed.

Lemma spec_process_nonneg : forall rate e n d ss x, In x (spec_process rate e n d ss) -> 0 <= dl_pts x.
Proof.
  intros rate e n d ss x H. unfold spec_process in H. apply filter_In in H.
  destruct H as [_ H]. unfold keep in H. apply Z.leb_le in H. exact H.
Qed.

(* ---------- NTP of the leading stream (c10_abs_time) ---------- *)
(* every delivery of a part track carries getNTP(part dts) + t2d(dts - part dts) *)
Lemma spec_partTrack_ntp : forall init conv n pt j d,
  In (j, d) (spec_partTrack init conv n pt) ->
  exists rate, lookupProc init (pt_id pt) = Some (j, rate) /\
    let pd := pt_baseTime pt - leadingBaseTime conv * rate / leadingTimeScale conv in
    dl_ntp d = match spec_getNTP n pd rate with
               | None => None
               | Some v => Some (v + Z.quot ((dl_dts d - pd) * second) rate)
               end.
Proof.
  intros init conv n pt j d H. unfold spec_partTrack in H.
  destruct (lookupProc init (pt_id pt)) as [[j' rate]|]; [|contradiction].
  cbv zeta in H. apply in_map_iff in H. destruct H as (d' & E & Hin). injection E as -> ->.
  exists rate. split; [reflexivity|]. cbv zeta.
  unfold spec_process in Hin. apply filter_In in Hin. destruct Hin as [Hin _].
  apply in_map_iff in Hin. destruct Hin as (u & <- & _). reflexivity.
Qed.
