(* The part-cutting invariant of fmp4WriteSample for a leading track with constant sample
   duration (Model/PartDur.v), proved once for abstract part predicates and instantiated
   twice: unconditionally (bounds of every part) and under NoStraddle (same sample count,
   one PART-TARGET). *)
From Coq Require Import List ZArith Lia Bool.
From GoHls Require Import Lib.ZLib Model.PartDur Proofs.PartDurArith.
Import ListNotations.
Local Open Scope Z_scope.

(* ---------- maxDur / partTargetDuration ---------- *)

Lemma maxDur_app : forall l1 l2 acc, maxDur (l1 ++ l2) acc = maxDur l2 (maxDur l1 acc).
Proof. intros. unfold maxDur. apply fold_left_app. Qed.

Lemma maxDur_ge_acc : forall l acc, acc <= maxDur l acc.
Proof.
  induction l as [|p l IH]; intros acc; cbn; [lia|].
  fold (maxDur l (if p_dur p >? acc then p_dur p else acc)).
  specialize (IH (if p_dur p >? acc then p_dur p else acc)).
  destruct (Z.gtb_spec (p_dur p) acc); lia.
Qed.

Lemma maxDur_mono_acc : forall l acc acc', acc <= acc' -> maxDur l acc <= maxDur l acc'.
Proof.
  induction l as [|p l IH]; intros acc acc' H; cbn; [lia|].
  fold (maxDur l (if p_dur p >? acc then p_dur p else acc)).
  fold (maxDur l (if p_dur p >? acc' then p_dur p else acc')).
  apply IH. destruct (Z.gtb_spec (p_dur p) acc); destruct (Z.gtb_spec (p_dur p) acc'); lia.
Qed.

Lemma maxDur_ge_in : forall l acc p, In p l -> p_dur p <= maxDur l acc.
Proof.
  induction l as [|q l IH]; intros acc p H; [destruct H|].
  cbn. fold (maxDur l (if p_dur q >? acc then p_dur q else acc)).
  destruct H as [->|H].
  - pose proof (maxDur_ge_acc l (if p_dur p >? acc then p_dur p else acc)).
    destruct (Z.gtb_spec (p_dur p) acc); lia.
  - apply IH. assumption.
Qed.

Lemma maxDur_le : forall l acc B, acc <= B -> Forall (fun p => p_dur p <= B) l -> maxDur l acc <= B.
Proof.
  induction l as [|q l IH]; intros acc B HB HF; cbn; [lia|].
  fold (maxDur l (if p_dur q >? acc then p_dur q else acc)).
  inversion HF; subst. apply IH; [|assumption].
  destruct (Z.gtb_spec (p_dur q) acc); lia.
Qed.

Definition segParts (sg : option (list part)) : list part := match sg with Some ps => ps | None => [] end.

Lemma maxDurSegs_flat : forall segs acc, maxDurSegs segs acc = maxDur (flat_map segParts segs) acc.
Proof.
  induction segs as [|sg segs IH]; intros acc; [reflexivity|].
  cbn [flat_map]. rewrite maxDur_app. cbn. fold (maxDurSegs segs (match sg with Some ps => maxDur ps acc | None => acc end)).
  rewrite IH. destruct sg; reflexivity.
Qed.

Lemma allParts_eq : forall s, allParts s = flat_map segParts (segments s) ++ nextParts s.
Proof. reflexivity. Qed.

Lemma partTargetDuration_all : forall segs parts,
  partTargetDuration segs parts = ceil_ms (maxDur (flat_map segParts segs ++ parts) 0).
Proof. intros. unfold partTargetDuration. rewrite maxDurSegs_flat, maxDur_app. reflexivity. Qed.

(* rotateParts always leaves the freshly computed value in partTarget *)
Lemma rotateParts_partTarget : forall s e,
  partTarget (rotateParts s e) = ceil_ms (maxDur (allParts (rotateParts s e)) 0).
Proof.
  intros s e. rewrite allParts_eq. cbn [rotateParts partTarget segments nextParts].
  rewrite <- partTargetDuration_all.
  set (v := partTargetDuration _ _).
  destruct (Z.eqb_spec (partTarget s) 0); cbn [negb andb]; [reflexivity|].
  destruct (Z.eqb_spec v (partTarget s)); cbn [negb]; congruence.
Qed.

Lemma flat_repeat_None : forall n, flat_map segParts (repeat (@None (list part)) n) = [].
Proof. induction n; cbn; [reflexivity|assumption]. Qed.

Lemma incl_flat_tl : forall (l : list (option (list part))),
  incl (flat_map segParts (tl l)) (flat_map segParts l).
Proof. intros [|x l]; cbn; [apply incl_refl|]. apply incl_appr, incl_refl. Qed.

Lemma Forall_tl : forall A (P : A -> Prop) l, Forall P l -> Forall P (tl l).
Proof. intros A P [|x l] H; [constructor|inversion H; assumption]. Qed.

(* ---------- listed parts ---------- *)

Lemma lastTwo_incl : forall A (l : list A), incl (lastTwo l) l.
Proof.
  intros A l x H. unfold lastTwo in H.
  rewrite <- (firstn_skipn (length l - 2) l). apply in_or_app. right. assumption.
Qed.

Lemma listedSegments_in : forall s ps, In ps (listedSegments s) -> In (Some ps) (segments s).
Proof.
  intros s ps H. unfold listedSegments in H. apply in_flat_map in H. destruct H as [sg [H1 H2]].
  destruct sg as [ps'|]; [|destruct H2]. destruct H2 as [->|[]]. apply lastTwo_incl. assumption.
Qed.

(* ---------- the generic invariant ---------- *)

Section Invariant.
  Variable c : cfg.
  Variables T sd adj : Z.
  Let R := clockRate c.
  Hypothesis HR : 0 < R.
  Hypothesis HT : 0 < T.
  Hypothesis Hsd : sd = tsd T R.
  Hypothesis Hsdpos : 0 < sd.
  Hypothesis Hadj : findCompatiblePartDuration (partMinDuration c) [sd] = POk adj.

  (* Q a ps n: next sample at tick a, current part started at ps (ns) and holds n samples *)
  Variable Q : Z -> Z -> Z -> Prop.
  Variables fullP shortP : part -> Prop.
  Hypothesis Q_init : forall a, 0 <= a -> Q a (tsd a R) 0.
  Hypothesis Q_short : forall a ps n, 0 <= a -> Q a ps n ->
    shortP {| p_dur := tsd (a + T) R - ps; p_n := n + 1 |}.
  Hypothesis Q_full : forall a ps n, 0 <= a -> Q a ps n -> adj <= tsd (a + T) R - ps ->
    fullP {| p_dur := tsd (a + T) R - ps; p_n := n + 1 |}.
  Hypothesis Q_keep : forall a ps n, 0 <= a -> Q a ps n -> tsd (a + T) R - ps < adj ->
    Q (a + T) ps (n + 1).

  Definition seg_ok (ps : list part) : Prop :=
    exists init last, ps = init ++ [last] /\ Forall fullP init /\ shortP last.

  Definition segOK (sg : option (list part)) : Prop :=
    match sg with Some ps => seg_ok ps | None => True end.

  (* state of the adjusted part duration *)
  Definition adjOK (s : mstate) : Prop :=
    (freeze s = true /\ adjusted s = adj) \/
    (freeze s = false /\ sampleDurations s = []) \/
    (freeze s = false /\ sampleDurations s = [sd] /\ adjusted s = adj).

  Definition ptOK (s : mstate) : Prop :=
    exists S, incl (allParts s) S /\ Forall (fun p => fullP p \/ shortP p) S
              /\ partTarget s = ceil_ms (maxDur S 0).

  Definition Inv (a : Z) (s : mstate) : Prop :=
    nextSample s = Some a /\ 0 <= a /\ adjOK s /\
    match segStartDTS s with
    | None => nextParts s = [] /\ segments s = [] /\ published s = [] /\ partTarget s = 0
    | Some _ => Q a (partStartDTS s) (curN s) /\ adjusted s = adj
    end /\
    Forall fullP (nextParts s) /\ Forall segOK (segments s) /\ Forall seg_ok (published s) /\ ptOK s.

  Lemma adjOK_ext : forall s s', freeze s' = freeze s -> adjusted s' = adjusted s ->
    sampleDurations s' = sampleDurations s -> adjOK s -> adjOK s'.
  Proof. unfold adjOK. intros s s' -> -> ->. tauto. Qed.

  Lemma ptOK_ext : forall s s', incl (allParts s') (allParts s) -> partTarget s' = partTarget s ->
    ptOK s -> ptOK s'.
  Proof.
    intros s s' I E [S [I' [F E']]]. exists S. split; [eapply incl_tran; eassumption|].
    split; [assumption|congruence].
  Qed.

  Lemma adjust_ok : forall s, adjOK s ->
    exists s1, fmp4AdjustPartDuration c s sd = POk s1 /\ adjOK s1 /\ adjusted s1 = adj /\
      nextSample s1 = nextSample s /\ segStartDTS s1 = segStartDTS s /\ partStartDTS s1 = partStartDTS s /\
      curN s1 = curN s /\ nextParts s1 = nextParts s /\ segments s1 = segments s /\
      partTarget s1 = partTarget s /\ published s1 = published s /\ encodeErrors s1 = encodeErrors s /\
      freeze s1 = freeze s.
  Proof.
    intros s A. unfold fmp4AdjustPartDuration.
    destruct A as [[F E]|[[F E]|[F [E E2]]]]; rewrite F.
    - exists s. repeat split; try reflexivity; try assumption. left. split; assumption.
    - destruct (Z.eqb_spec sd 0); [lia|]. rewrite E. cbn [mem existsb].
      rewrite Hadj. cbn [pbind]. eexists. split; [reflexivity|]. split.
      { right. right. unfold set_adjust. cbn [freeze sampleDurations adjusted]. repeat split; assumption || reflexivity. }
      repeat split; try reflexivity. exact F.
    - destruct (Z.eqb_spec sd 0); [lia|]. rewrite E. cbn [mem existsb]. rewrite Z.eqb_refl. cbn [orb].
      exists s. repeat split; try reflexivity; try assumption. right. right. repeat split; assumption.
  Qed.

  Lemma seg_ok_snoc : forall init p, Forall fullP init -> shortP p -> seg_ok (init ++ [p]).
  Proof. intros. exists init, p. repeat split; assumption. Qed.

  Lemma ptOK_rotateParts : forall s e,
    Forall (fun p => fullP p \/ shortP p) (allParts (rotateParts s e)) -> ptOK (rotateParts s e).
  Proof.
    intros s e H. exists (allParts (rotateParts s e)). split; [apply incl_refl|]. split; [assumption|].
    apply rotateParts_partTarget.
  Qed.

  Lemma segOK_parts : forall segs, Forall segOK segs ->
    Forall (fun p => fullP p \/ shortP p) (flat_map segParts segs).
  Proof.
    induction 1 as [|sg segs H _ IH]; cbn; [constructor|].
    apply Forall_app. split; [|assumption].
    destruct sg as [ps|]; cbn; [|constructor].
    destruct H as [init [last [-> [Hi Hl]]]]. apply Forall_app. split.
    - eapply Forall_impl; [|exact Hi]. intros; left; assumption.
    - constructor; [right; assumption|constructor].
  Qed.

  (* one write: next sample a, the write arrives at tick a + T *)
  Lemma step_inv : forall s a w,
    Inv a s -> w_dts w + 10 * R = a + T ->
    exists s', fmp4WriteSample c s w = POk s' /\ Inv (a + T) s'.
  Proof.
    intros s a w [Hns [Ha [HA [Hseg [Hnp [Hsegs [Hpub Hpt]]]]]]] Hw.
    unfold fmp4WriteSample. fold R. rewrite durationToTimestamp_start. cbn [pbind].
    rewrite Hw. destruct (Z.ltb_spec (a + T) 0) as [L|L]; [lia|].
    rewrite Hns.
    (* the state after createFirstSegment (if needed) *)
    set (s0 := set_next s (a + T)).
    assert (exists sA, (match segStartDTS s0 with
                        | None => dop t <- timestampToDuration a R ;; POk (createFirstSegment s0 t)
                        | Some _ => POk s0 end) = POk sA
              /\ nextSample sA = Some (a + T) /\ adjOK sA /\ Q a (partStartDTS sA) (curN sA)
              /\ (exists ss, segStartDTS sA = Some ss)
              /\ (segStartDTS s <> None -> adjusted sA = adj)
              /\ Forall fullP (nextParts sA) /\ Forall segOK (segments sA) /\ Forall seg_ok (published sA)
              /\ ptOK sA) as [sA [EA [HnsA [HAA [HQA [[ss Hss] [HadjA [HnpA [HsegsA [HpubA HptA]]]]]]]]]].
    { subst s0. cbn [set_next segStartDTS]. destruct (segStartDTS s) as [ss|] eqn:Ess.
      - eexists. split; [reflexivity|]. destruct Hseg as [HQ Had].
        split; [reflexivity|]. split; [eapply adjOK_ext; [| | |exact HA]; reflexivity|].
        split; [exact HQ|]. split; [exists ss; exact Ess|]. split; [intros; exact Had|].
        split; [exact Hnp|]. split; [exact Hsegs|]. split; [exact Hpub|].
        eapply ptOK_ext; [| |exact Hpt]; [apply incl_refl|reflexivity].
      - rewrite timestampToDuration_floor by assumption. cbn [pbind]. eexists. split; [reflexivity|].
        destruct Hseg as [E1 [E2 [E3 E4]]].
        split; [reflexivity|]. split; [eapply adjOK_ext; [| | |exact HA]; reflexivity|].
        split; [cbn; apply Q_init; assumption|]. split; [eexists; reflexivity|].
        split; [intros; congruence|]. split; [constructor|]. split; [exact Hsegs|]. split; [exact Hpub|].
        eapply ptOK_ext; [| |exact Hpt]; [|reflexivity].
        rewrite !allParts_eq. cbn. rewrite E1. apply incl_refl. }
    rewrite EA. cbn [pbind].
    replace (a + T - a) with T by lia.
    rewrite timestampToDuration_floor by lia. cbn [pbind]. rewrite <- Hsd.
    destruct (adjust_ok sA HAA) as [s1 [E1 [HA1 [Hadj1 [F1 [F2 [F3 [F4 [F5 [F6 [F7 [F8 [F9 F10]]]]]]]]]]]]].
    rewrite E1. cbn [pbind].
    rewrite timestampToDuration_floor by lia. cbn [pbind].
    set (nd := tsd (a + T) R).
    set (s2 := add_sample s1).
    assert (G1 : partStartDTS s2 = partStartDTS sA) by (subst s2; cbn; assumption).
    assert (G2 : curN s2 = curN sA + 1) by (subst s2; cbn; lia).
    assert (G3 : nextParts s2 = nextParts sA) by (subst s2; cbn; assumption).
    assert (G4 : segments s2 = segments sA) by (subst s2; cbn; assumption).
    assert (G5 : published s2 = published sA) by (subst s2; cbn; assumption).
    assert (G6 : adjusted s2 = adj) by (subst s2; cbn; assumption).
    assert (G7 : nextSample s2 = Some (a + T)) by (subst s2; cbn; congruence).
    assert (G8 : segStartDTS s2 = Some ss) by (subst s2; cbn; congruence).
    rewrite G8.
    (* the part that a rotation would close now *)
    set (p := {| p_dur := nd - partStartDTS s2; p_n := curN s2 |}).
    assert (Hp : p = {| p_dur := tsd (a + T) R - partStartDTS sA; p_n := curN sA + 1 |})
      by (subst p nd; rewrite G1, G2; reflexivity).
    assert (HallR : shortP p \/ fullP p ->
                    Forall (fun q => fullP q \/ shortP q) (allParts (rotateParts s2 nd))).
    { intros Hp'. rewrite allParts_eq. cbn [rotateParts segments nextParts]. rewrite G3, G4.
      apply Forall_app. split; [apply segOK_parts; assumption|].
      apply Forall_app. split.
      - eapply Forall_impl; [|exact HnpA]. intros; left; assumption.
      - constructor; [|constructor]. fold p. tauto. }
    destruct (w_ra w && (w_pc w || (nd - ss >=? segmentMinDuration c))) eqn:Eseg.
    - (* segment switch *)
      assert (Hsh : shortP p) by (rewrite Hp; apply Q_short; assumption).
      set (s3 := rotateSegments c s2 nd).
      assert (K1 : nextSample s3 = Some (a + T)) by (subst s3; cbn; assumption).
      assert (K2 : segStartDTS s3 = Some nd) by reflexivity.
      assert (K3 : partStartDTS s3 = nd) by reflexivity.
      assert (K4 : curN s3 = 0) by reflexivity.
      assert (K5 : nextParts s3 = []) by reflexivity.
      assert (K6 : adjusted s3 = adj) by (subst s3; cbn; assumption).
      assert (K7 : published s3 = published sA ++ [nextParts sA ++ [p]])
        by (subst s3; cbn [rotateSegments published rotateParts nextParts]; rewrite G5, G3; reflexivity).
      assert (Hnew : seg_ok (nextParts sA ++ [p])) by (apply seg_ok_snoc; assumption).
      assert (K8 : Forall segOK (segments s3)).
      { subst s3. cbn [rotateSegments segments rotateParts nextParts]. rewrite G3, G4.
        set (segs0 := match segments sA with [] => repeat None 7 | l => l end).
        assert (Forall segOK segs0).
        { subst segs0. destruct (segments sA); [|assumption]. cbn. repeat constructor. }
        assert (Forall segOK (segs0 ++ [Some (nextParts sA ++ [p])])).
        { apply Forall_app. split; [assumption|]. constructor; [exact Hnew|constructor]. }
        match goal with |- Forall _ (if ?b then _ else _) => destruct b end; [|assumption].
        apply Forall_tl. exact H0. }
      assert (K9 : ptOK s3).
      { destruct (ptOK_rotateParts s2 nd (HallR (or_introl Hsh))) as [S [I [F E]]].
        exists S. split; [|split; [assumption|exact E]].
        intros q Hq. apply I. rewrite allParts_eq in Hq |- *.
        subst s3. cbn [rotateSegments segments nextParts rotateParts] in Hq |- *.
        rewrite app_nil_r in Hq.
        set (segs0 := match segments s2 with [] => repeat None 7 | l => l end) in Hq.
        assert (Hin : In q (flat_map segParts (segs0 ++ [Some (nextParts s2 ++ [p])]))).
        { match type of Hq with In _ (flat_map _ (if ?b then _ else _)) => destruct b end;
            [apply incl_flat_tl in Hq|]; assumption. }
        rewrite flat_map_app in Hin. cbn in Hin. rewrite app_nil_r in Hin.
        apply in_app_or in Hin. apply in_or_app. destruct Hin as [Hin|Hin]; [left|right; assumption].
        subst segs0. destruct (segments s2); [rewrite flat_repeat_None in Hin; destruct Hin|assumption]. }
      assert (K10 : freeze s3 = freeze s1) by reflexivity.
      assert (K11 : sampleDurations s3 = sampleDurations s1) by reflexivity.
      assert (Hfin : forall sds fr, adjOK (set_freeze s3 sds fr) -> Inv (a + T) (set_freeze s3 sds fr)).
      { intros sds fr HAf. unfold Inv.
        cbn [set_freeze nextSample segStartDTS partStartDTS curN nextParts segments published adjusted].
        rewrite K1, K2, K3, K4, K5, K6, K7.
        split; [reflexivity|]. split; [lia|]. split; [exact HAf|].
        split; [split; [apply Q_init; lia|reflexivity]|].
        split; [constructor|]. split; [exact K8|].
        split; [apply Forall_app; split; [assumption|]; constructor; [exact Hnew|constructor]|].
        eapply ptOK_ext; [| |exact K9]; [apply incl_refl|reflexivity]. }
      destruct (w_pc w).
      + eexists. split; [reflexivity|]. apply Hfin. right. left. split; reflexivity.
      + eexists. split; [reflexivity|]. apply Hfin. left. split; [reflexivity|exact K6].
    - rewrite G6. destruct (Z.geb_spec (nd - partStartDTS s2) adj) as [Hge|Hlt].
      + (* part switch *)
        assert (Hfu : fullP p) by (rewrite Hp; apply Q_full; try assumption; subst nd; rewrite <- G1; lia).
        eexists. split; [reflexivity|]. unfold Inv.
        cbn [rotateParts nextSample segStartDTS partStartDTS curN nextParts segments published
             adjusted freeze sampleDurations].
        rewrite G7, G8, G6, G3, G4, G5. repeat split; try assumption; try lia.
        * apply Q_init. lia.
        * apply Forall_app. split; [assumption|]. constructor; [exact Hfu|constructor].
        * apply ptOK_rotateParts. apply HallR. right. assumption.
      + (* the part goes on *)
        eexists. split; [reflexivity|]. unfold Inv. rewrite G7, G8, G6, G3, G4, G5, G1, G2.
        repeat split; try assumption; try lia.
        * apply Q_keep; try assumption. subst nd. rewrite G1 in Hlt. lia.
        * eapply ptOK_ext; [| |exact HptA].
          -- rewrite !allParts_eq, G3, G4. apply incl_refl.
          -- subst s2. cbn [add_sample partTarget]. exact F7.
  Qed.

  Lemma ptOK_init : ptOK init_state.
  Proof. exists []. split; [apply incl_refl|]. split; [constructor|reflexivity]. Qed.

  (* the first accepted write only fills the one-sample look-ahead *)
  Lemma first_inv : forall w, 0 <= w_dts w + 10 * R ->
    fmp4WriteSample c init_state w = POk (set_next init_state (w_dts w + 10 * R))
    /\ Inv (w_dts w + 10 * R) (set_next init_state (w_dts w + 10 * R)).
  Proof.
    intros w H. unfold fmp4WriteSample. fold R. rewrite durationToTimestamp_start. cbn [pbind].
    destruct (Z.ltb_spec (w_dts w + 10 * R) 0); [lia|]. cbn [nextSample init_state].
    split; [reflexivity|]. unfold Inv. cbn [set_next init_state nextSample segStartDTS nextParts segments published partTarget].
    split; [reflexivity|]. split; [lia|]. split; [right; left; split; reflexivity|].
    split; [repeat split; reflexivity|]. split; [constructor|]. split; [constructor|]. split; [constructor|].
    eapply ptOK_ext; [| |exact ptOK_init]; [apply incl_refl|reflexivity].
  Qed.

  Lemma rejected : forall w, w_dts w + 10 * R < 0 -> fmp4WriteSample c init_state w = POk init_state.
  Proof.
    intros w H. unfold fmp4WriteSample. fold R. rewrite durationToTimestamp_start. cbn [pbind].
    destruct (Z.ltb_spec (w_dts w + 10 * R) 0); [reflexivity|lia].
  Qed.

  Lemma run_from_inv : forall flags d s a, Inv a s -> d + 10 * R = a + T ->
    exists s', run c s (constWrites d T flags) = POk s' /\ exists a', Inv a' s'.
  Proof.
    induction flags as [|[ra pc] flags IH]; intros d s a HI Hd.
    - exists s. split; [reflexivity|]. exists a. assumption.
    - cbn [constWrites run].
      destruct (step_inv s a {| w_dts := d; w_ra := ra; w_pc := pc |} HI Hd) as [s1 [E1 I1]].
      rewrite E1. cbn [pbind]. apply (IH (d + T) s1 (a + T) I1). lia.
  Qed.

  (* every state reached by a constant-duration leading track, whatever the first dts, the
     key-frame placement and the parameter changes *)
  Theorem run_inv : forall flags d0,
    exists s, run c init_state (constWrites d0 T flags) = POk s /\ (s = init_state \/ exists a, Inv a s).
  Proof.
    induction flags as [|[ra pc] flags IH]; intros d0.
    - exists init_state. split; [reflexivity|left; reflexivity].
    - cbn [constWrites run].
      destruct (Z_lt_ge_dec (d0 + 10 * R) 0) as [Hneg|Hpos].
      + rewrite rejected by (cbn [w_dts]; assumption). cbn [pbind]. apply IH.
      + destruct (first_inv {| w_dts := d0; w_ra := ra; w_pc := pc |} ltac:(cbn [w_dts]; lia)) as [E I].
        rewrite E. cbn [pbind]. cbn [w_dts] in *.
        destruct (run_from_inv flags (d0 + T) _ _ I ltac:(lia)) as [s' [E' I']].
        exists s'. split; [assumption|right; assumption].
  Qed.

  (* consequences for what a playlist lists *)
  Lemma inv_nonfinal_full : forall a s, Inv a s -> Forall fullP (nonFinalListed s).
  Proof.
    intros a s [_ [_ [_ [_ [Hnp [Hsegs _]]]]]]. unfold nonFinalListed.
    apply Forall_app. split; [|assumption].
    apply Forall_forall. intros q Hq. apply in_flat_map in Hq. destruct Hq as [ps [H1 H2]].
    apply listedSegments_in in H1. rewrite Forall_forall in Hsegs. specialize (Hsegs _ H1).
    destruct Hsegs as [init [last [-> [Hi _]]]]. rewrite removelast_last in H2.
    rewrite Forall_forall in Hi. apply Hi. assumption.
  Qed.

  Lemma nonFinal_incl_all : forall a s, Inv a s -> incl (nonFinalListed s) (allParts s).
  Proof.
    intros a s [_ [_ [_ [_ [_ [Hsegs _]]]]]] q Hq. unfold nonFinalListed in Hq. rewrite allParts_eq.
    apply in_app_or in Hq. apply in_or_app. destruct Hq as [Hq|Hq]; [left|right; assumption].
    apply in_flat_map in Hq. destruct Hq as [ps [H1 H2]].
    apply listedSegments_in in H1. apply in_flat_map. exists (Some ps). split; [assumption|]. cbn.
    rewrite Forall_forall in Hsegs. specialize (Hsegs _ H1).
    destruct Hsegs as [init [last [-> _]]]. rewrite removelast_last in H2. apply in_or_app. left. assumption.
  Qed.

  Lemma inv_published : forall a s, Inv a s -> Forall seg_ok (published s).
  Proof. intros a s H. apply H. Qed.

  (* PART-TARGET: at least every retained part; bounded by any bound on the parts; and at
     least ceil_ms of any retained part *)
  Lemma inv_pt_ge : forall a s p, Inv a s -> In p (allParts s) -> p_dur p <= partTarget s.
  Proof.
    intros a s p [_ [_ [_ [_ [_ [_ [_ [S [I [F E]]]]]]]]]] Hp. rewrite E.
    pose proof (maxDur_ge_in S 0 p (I _ Hp)).
    pose proof (ceil_to_ge millisecond (maxDur S 0) ltac:(unfold millisecond; lia)). unfold ceil_ms. lia.
  Qed.

  Lemma inv_pt_le : forall a s B, Inv a s -> 0 <= B ->
    (forall p, fullP p \/ shortP p -> p_dur p <= B) -> partTarget s <= ceil_ms B.
  Proof.
    intros a s B [_ [_ [_ [_ [_ [_ [_ [S [I [F E]]]]]]]]]] HB Hb. rewrite E.
    apply ceil_to_mono; [unfold millisecond; lia|]. apply maxDur_le; [assumption|].
    eapply Forall_impl; [|exact F]. intros p Hp. apply Hb. assumption.
  Qed.

  Lemma inv_pt_ge_ceil : forall a s p, Inv a s -> In p (allParts s) -> ceil_ms (p_dur p) <= partTarget s.
  Proof.
    intros a s p [_ [_ [_ [_ [_ [_ [_ [S [I [F E]]]]]]]]]] Hp. rewrite E.
    apply ceil_to_mono; [unfold millisecond; lia|]. apply maxDur_ge_in. apply I. assumption.
  Qed.

  Lemma inv_pt_mod : forall a s, Inv a s -> partTarget s mod millisecond = 0.
  Proof.
    intros a s [_ [_ [_ [_ [_ [_ [_ [S [I [F E]]]]]]]]]]. rewrite E. apply ceil_to_mod. unfold millisecond; lia.
  Qed.
End Invariant.
