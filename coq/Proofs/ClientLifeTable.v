(* The proof obligation over the generated table: a complete check of a finite table. *)
From Coq Require Import List String Bool.
From GoHls Require Import Lib.ClientLifeIR Model.ClientLifeOps Generated.ClientLifeBlockOps.
Import ListNotations.

Lemma table_ok : all_cancellable table = true.
Proof. vm_compute. reflexivity. Qed.
