(* C10, MPEG-TS: the PMT may list elementary streams the client does not support, anywhere.
   initializeReader keeps the supported ones ([supportedTracks]), picks the leading track
   AMONG THEM and registers callbacks for them only; mediacommon's Reader drops the PES of
   every other PID ([supportedIndex], [readerDispatch]). This file relates the PMT-level
   stream ([pmtStream], what the demultiplexer sees) to the stream-processor-level one
   ([mstream], what Proofs/ClientTimeMPEGTS.v reasons about):
     - which PMT entry becomes which client track (order kept, nothing lost, nothing added);
     - the leading track is the FIRST H264 ENTRY OF THE PMT whatever precedes it, else the
       first supported entry;
     - deliveries: exactly the PES of supported PIDs, normalised as in c10_mpegts_time;
     - no callback is ever made on a position beyond the reported tracks. *)
From Coq Require Import List ZArith Bool Lia.
From GoHls Require Import Model.ClientTime Proofs.ClientTimeArith Proofs.ClientTimeDecode
                          Proofs.ClientTimeFMP4 Proofs.ClientTimeMPEGTS Proofs.ClientTimeMain
                          Proofs.ClientTimeExamples.
Import ListNotations.
Local Open Scope Z_scope.

Definition codec_of (c : pmtCodec) : option mcodec :=
  match c with PH264 => Some MH264 | PMPEG4Audio => Some MAudio | POther => None end.

Lemma supportedTracks_flat : forall l,
  supportedTracks l = flat_map (fun c => match codec_of c with Some m => [m] | None => [] end) l.
Proof. induction l as [|c r IH]; [reflexivity|]. destruct c; cbn; rewrite IH; reflexivity. Qed.

Lemma supportedTracks_app : forall a b,
  supportedTracks (a ++ b) = supportedTracks a ++ supportedTracks b.
Proof. intros. rewrite !supportedTracks_flat. apply flat_map_app. Qed.

(* PMT position k -> client track position: the number of supported entries before k *)
Lemma supportedIndex_spec : forall l k i,
  supportedIndex l k = Some i <->
  exists c m, nth_error l k = Some c /\ codec_of c = Some m /\
              i = length (supportedTracks (firstn k l)).
Proof.
  induction l as [|c r IH]; intros k i.
  - cbn. split; [discriminate|]. intros (c & m & H & _). destruct k; discriminate.
  - destruct k as [|k].
    + cbn [supportedIndex nth_error firstn supportedTracks length]. split.
      * intros H. exists c. destruct c; try discriminate; injection H as <-;
          [exists MH264|exists MAudio]; cbn; auto.
      * intros (c' & m & H & Hm & ->). injection H as <-. destruct c; [reflexivity|reflexivity|discriminate].
    + cbn [supportedIndex nth_error firstn]. split.
      * destruct (supportedIndex r k) as [i'|] eqn:E; [|discriminate]. intros H. injection H as <-.
        apply IH in E. destruct E as (c' & m & H1 & H2 & ->). exists c', m.
        destruct c; cbn [supportedTracks length]; auto.
      * intros (c' & m & H1 & H2 & ->).
        assert (E : supportedIndex r k = Some (length (supportedTracks (firstn k r)))).
        { apply IH. eauto. }
        rewrite E. destruct c; reflexivity.
Qed.

Lemma supportedIndex_None : forall l k,
  supportedIndex l k = None <-> nth_error l k = None \/ nth_error l k = Some POther.
Proof.
  intros l k. split.
  - intros H. destruct (nth_error l k) as [c|] eqn:E; [|auto]. right.
    destruct c; [exfalso|exfalso|reflexivity].
    + assert (X : supportedIndex l k = Some (length (supportedTracks (firstn k l)))).
      { apply supportedIndex_spec. exists PH264, MH264. auto. } congruence.
    + assert (X : supportedIndex l k = Some (length (supportedTracks (firstn k l)))).
      { apply supportedIndex_spec. exists PMPEG4Audio, MAudio. auto. } congruence.
  - intros H. destruct (supportedIndex l k) as [i|] eqn:E; [|reflexivity].
    apply supportedIndex_spec in E. destruct E as (c & m & H1 & H2 & _).
    destruct H as [H|H]; rewrite H in H1; [discriminate|]. injection H1 as <-. discriminate.
Qed.

(* the client track at that position has the PMT entry's codec *)
Lemma supportedIndex_nth : forall l k i,
  supportedIndex l k = Some i ->
  exists c m, nth_error l k = Some c /\ codec_of c = Some m /\ nth_error (supportedTracks l) i = Some m.
Proof.
  intros l k i H. apply supportedIndex_spec in H. destruct H as (c & m & H1 & H2 & ->).
  exists c, m. repeat split; auto.
  pose proof (nth_error_split l k H1) as (a & b & -> & Hl).
  rewrite firstn_app, Hl, Nat.sub_diag, firstn_all2 by lia. cbn [firstn]. rewrite app_nil_r.
  rewrite supportedTracks_app, nth_error_app2 by lia. rewrite Nat.sub_diag.
  destruct c; try discriminate; cbn; injection H2 as <-; reflexivity.
Qed.

(* every client track is some PMT entry (nothing is invented) *)
Lemma supportedIndex_surj : forall l i m,
  nth_error (supportedTracks l) i = Some m -> exists k, supportedIndex l k = Some i.
Proof.
  induction l as [|c r IH]; intros i m H; [destruct i; discriminate|].
  destruct c; cbn [supportedTracks] in H.
  - destruct i as [|i]; [exists O; reflexivity|]. cbn in H. destruct (IH _ _ H) as [k Hk].
    exists (S k). cbn. rewrite Hk. reflexivity.
  - destruct i as [|i]; [exists O; reflexivity|]. cbn in H. destruct (IH _ _ H) as [k Hk].
    exists (S k). cbn. rewrite Hk. reflexivity.
  - destruct (IH _ _ H) as [k Hk]. exists (S k). cbn. rewrite Hk. reflexivity.
Qed.

(* PMT order is kept (hence the map is injective) *)
Lemma supportedIndex_mono : forall l k1 k2 i1 i2,
  supportedIndex l k1 = Some i1 -> supportedIndex l k2 = Some i2 -> (k1 < k2)%nat -> (i1 < i2)%nat.
Proof.
  intros l k1 k2 i1 i2 H1 H2 Hlt.
  apply supportedIndex_spec in H1. destruct H1 as (c1 & m1 & N1 & C1 & ->).
  apply supportedIndex_spec in H2. destruct H2 as (c2 & m2 & N2 & C2 & ->).
  pose proof (nth_error_split l k1 N1) as (a & b & -> & Hl).
  rewrite firstn_app, Hl, Nat.sub_diag, firstn_all2 by lia. cbn [firstn]. rewrite app_nil_r.
  rewrite firstn_app, Hl, (firstn_all2 (n := k2)) by lia.
  rewrite supportedTracks_app, app_length.
  replace (k2 - k1)%nat with (S (k2 - k1 - 1)) by lia. cbn [firstn].
  destruct c1; try discriminate; cbn [supportedTracks length]; lia.
Qed.

(* ---------- the leading track ---------- *)
Fixpoint firstPH264_from (k : nat) (l : list pmtCodec) : option nat :=
  match l with
  | [] => None
  | PH264 :: _ => Some k
  | _ :: r => firstPH264_from (S k) r
  end.
(* PMT position of the first H264 elementary stream *)
Definition firstPH264 (l : list pmtCodec) : option nat := firstPH264_from 0 l.

Lemma firstPH264_from_shift : forall l k, firstPH264_from (S k) l = option_map S (firstPH264_from k l).
Proof. induction l as [|c r IH]; intros k; [reflexivity|]. destruct c; cbn; auto. Qed.

Lemma firstH264_from_shift : forall l i, firstH264_from (S i) l = option_map S (firstH264_from i l).
Proof. induction l as [|c r IH]; intros i; [reflexivity|]. destruct c; cbn; auto. Qed.

Lemma firstH264_supported : forall l,
  firstH264_from 0 (supportedTracks l)
  = match firstPH264 l with Some k => supportedIndex l k | None => None end.
Proof.
  unfold firstPH264. induction l as [|c r IH]; [reflexivity|].
  destruct c; cbn [supportedTracks firstH264_from firstPH264_from].
  - reflexivity.
  - rewrite firstH264_from_shift, firstPH264_from_shift, IH.
    destruct (firstPH264_from 0 r) as [k|]; cbn [option_map supportedIndex]; [|reflexivity].
    destruct (supportedIndex r k); reflexivity.
  - rewrite firstPH264_from_shift, IH.
    destruct (firstPH264_from 0 r) as [k|]; cbn [option_map supportedIndex]; [|reflexivity].
    destruct (supportedIndex r k); reflexivity.
Qed.

Lemma firstPH264_is_H264 : forall l k, firstPH264 l = Some k -> nth_error l k = Some PH264.
Proof.
  unfold firstPH264. induction l as [|c r IH]; intros k H; [discriminate|].
  destruct c; cbn [firstPH264_from] in H.
  - injection H as <-. reflexivity.
  - rewrite firstPH264_from_shift in H. destruct (firstPH264_from 0 r) as [k'|]; [|discriminate].
    injection H as <-. cbn. auto.
  - rewrite firstPH264_from_shift in H. destruct (firstPH264_from 0 r) as [k'|]; [|discriminate].
    injection H as <-. cbn. auto.
Qed.

Lemma firstPH264_first : forall l k k', firstPH264 l = Some k -> (k' < k)%nat -> nth_error l k' <> Some PH264.
Proof.
  unfold firstPH264. induction l as [|c r IH]; intros k k' H Hlt; [discriminate|].
  destruct c; cbn [firstPH264_from] in H.
  - injection H as <-. lia.
  - rewrite firstPH264_from_shift in H. destruct (firstPH264_from 0 r) as [k0|] eqn:E; [|discriminate].
    injection H as <-. destruct k'; [cbn; discriminate|]. cbn. apply (IH k0); [reflexivity|lia].
  - rewrite firstPH264_from_shift in H. destruct (firstPH264_from 0 r) as [k0|] eqn:E; [|discriminate].
    injection H as <-. destruct k'; [cbn; discriminate|]. cbn. apply (IH k0); [reflexivity|lia].
Qed.

Lemma firstPH264_none : forall l, firstPH264 l = None -> ~ In PH264 l.
Proof.
  unfold firstPH264. induction l as [|c r IH]; intros H; [intros []|].
  destruct c; cbn [firstPH264_from] in H; try discriminate;
    rewrite firstPH264_from_shift in H; destruct (firstPH264_from 0 r); try discriminate;
    intros [X|X]; try discriminate; exact (IH eq_refl X).
Qed.

(* the leading track (index into the reported tracks) is the client track of the first H264
   entry of the PMT - whatever unsupported or audio entries precede it -, and track 0 (the
   first supported entry) when the PMT has no H264 entry *)
Lemma pmt_leading : forall l,
  match firstPH264 l with
  | Some k => supportedIndex l k = Some (mpegtsPickLeadingTrack (supportedTracks l))
  | None => mpegtsPickLeadingTrack (supportedTracks l) = O
  end.
Proof.
  intros l. unfold mpegtsPickLeadingTrack. rewrite firstH264_supported.
  destruct (firstPH264 l) as [k|] eqn:E; [|reflexivity].
  destruct (supportedIndex l k) as [i|] eqn:S; [reflexivity|].
  apply supportedIndex_None in S. rewrite (firstPH264_is_H264 _ _ E) in S.
  destruct S; discriminate.
Qed.

(* the index has to be taken in the FILTERED list: the position of the H264 entry in the PMT
   is another number as soon as an unsupported entry precedes it, and then designates
   another track or none *)
Lemma pmt_position_is_not_index :
  exists l k, firstPH264 l = Some k /\
    mpegtsPickLeadingTrack (supportedTracks l) <> k /\
    nth_error (supportedTracks l) k = Some MAudio.
Proof. exists [POther; PH264; PMPEG4Audio], 1%nat. repeat split. cbn. discriminate. Qed.

Lemma pmt_position_is_not_index_none :
  exists l k, firstPH264 l = Some k /\ nth_error (supportedTracks l) k = None.
Proof. exists [POther; PH264], 1%nat. split; reflexivity. Qed.

(* ---------- the stream processor's view ---------- *)
Definition wrap_pmt (st : pmtStream) : pmtStream :=
  {| pmt_tracks := pmt_tracks st; pmt_segments := map wrap_seg (pmt_segments st) |}.

Lemma readerDispatch_wrap : forall l e,
  readerDispatch l (wrap_pes e) = map wrap_pes (readerDispatch l e).
Proof. intros. unfold readerDispatch. cbn [wrap_pes pe_track]. destruct (supportedIndex l (pe_track e)); reflexivity. Qed.

Lemma readerView_wrap : forall st, readerView (wrap_pmt st) = wrap_stream (readerView st).
Proof.
  intros st. unfold readerView, wrap_pmt, wrap_stream. cbn [pmt_tracks pmt_segments mst_tracks mst_segments].
  f_equal. rewrite !map_map. apply map_ext. intros s. unfold readerSegment, wrap_seg.
  cbn [ms_dateTime ms_pes]. f_equal.
  induction (ms_pes s) as [|e r IH]; [reflexivity|].
  cbn [map flat_map]. rewrite map_app, IH, readerDispatch_wrap. reflexivity.
Qed.

(* the PES the callbacks receive: those of supported PIDs, in demultiplexer order *)
Lemma readerView_all_pes : forall st,
  all_pes (mst_segments (readerView st))
  = flat_map (readerDispatch (pmt_tracks st)) (all_pes (pmt_segments st)).
Proof.
  intros st. unfold readerView, all_pes. cbn [mst_segments].
  induction (pmt_segments st) as [|s r IH]; [reflexivity|].
  cbn [map flat_map]. rewrite IH, flat_map_app. reflexivity.
Qed.

Lemma readerDispatch_in : forall l e e',
  In e' (readerDispatch l e) ->
  supportedIndex l (pe_track e) = Some (pe_track e') /\
  pe_rawPTS e' = pe_rawPTS e /\ pe_rawDTS e' = pe_rawDTS e /\ pe_payload e' = pe_payload e /\
  pe_elapsed e' = pe_elapsed e /\ pe_anchor e' = pe_anchor e.
Proof.
  intros l e e' H. unfold readerDispatch in H. destruct (supportedIndex l (pe_track e)) as [i|]; [|contradiction].
  destruct H as [<-|[]]. cbn. repeat split; reflexivity.
Qed.

Lemma dropUntilLead_incl : forall tracks lead l e, In e (dropUntilLead tracks lead l) -> In e l.
Proof.
  induction l as [|x r IH]; intros e H; [contradiction|]. cbn [dropUntilLead] in H.
  destruct (isLeadUnit tracks lead x); [exact H|right; auto].
Qed.

(* c10_all_delivered for a PMT-level stream: client track j receives exactly the processed
   units of the stream-processor view *)
Lemma pmt_stream_delivers : forall isL st s0 s' out t0g lastg j,
  (isL = true \/ exists td, m_td s0 = Some td /\ td_inv t0g lastg td) ->
  runStreamPMT isL s0 (wrap_pmt st) = Ok (s', out) ->
  let v := readerView st in
  let tracks := mst_tracks v in
  let p := processed v in
  let t0 := if isL then origin_of tracks p else t0g in
  let last0 := if isL then origin_of tracks p else lastg in
  pes_gaps tracks last0 p ->
  map dkey (proj j out) = filter keepk (map (mnorm tracks t0) (track_units tracks j p)).
Proof.
  intros isL st s0 s' out t0g lastg j Hc H v tracks p t0 last0 G.
  unfold runStreamPMT in H. rewrite readerView_wrap in H.
  exact (mpegts_stream_delivers isL v s0 s' out t0g lastg j Hc H G).
Qed.

(* for every callback: it carries a PES that arrived on a supported PID of the PMT, the one
   that is client track j; time = true time - origin; unsupported PIDs never reach a callback *)
Lemma pmt_time : forall isL st s0 s' out t0g lastg j d,
  (isL = true \/ exists td, m_td s0 = Some td /\ td_inv t0g lastg td) ->
  runStreamPMT isL s0 (wrap_pmt st) = Ok (s', out) ->
  let v := readerView st in
  let tracks := mst_tracks v in
  let p := processed v in
  let t0 := if isL then origin_of tracks p else t0g in
  let last0 := if isL then origin_of tracks p else lastg in
  pes_gaps tracks last0 p ->
  In d (proj j out) ->
  exists e c, In e (all_pes (pmt_segments st)) /\
    supportedIndex (pmt_tracks st) (pe_track e) = Some j /\
    nth_error (pmt_tracks st) (pe_track e) = Some c /\ c <> POther /\
    dl_pts d = pe_rawPTS e - t0 /\
    dl_dts d = (match c with PH264 => pe_rawDTS e | _ => pe_rawPTS e end) - t0 /\
    dl_data d = pe_payload e /\ 0 <= dl_pts d.
Proof.
  intros isL st s0 s' out t0g lastg j d Hc H v tracks p t0 last0 G Hd.
  unfold runStreamPMT in H. rewrite readerView_wrap in H.
  destruct (mpegts_time isL v s0 s' out t0g lastg j d Hc H G Hd) as (e' & Hin & Ht & Hp & Hdts & Hdata & Hnn).
  fold tracks p t0 in Hin, Hp, Hdts.
  apply dropUntilLead_incl in Hin. subst v. rewrite readerView_all_pes in Hin.
  apply in_flat_map in Hin. destruct Hin as (e & He & Hdisp).
  apply readerDispatch_in in Hdisp. destruct Hdisp as (Hi & E1 & E2 & E3 & _).
  rewrite Ht in Hi.
  destruct (supportedIndex_nth _ _ _ Hi) as (c & m & Hn & Hcm & Hm).
  exists e, c. repeat split; auto; try congruence.
  - intros ->. discriminate.
  - rewrite Hdts. unfold tdts, tracks. cbn [readerView mst_tracks]. rewrite Ht, Hm.
    destruct c; try discriminate; injection Hcm as <-; congruence.
Qed.

(* ---------- no callback beyond the reported tracks ---------- *)
Lemma processSample_pos : forall isL tracks lead dt s e s' out,
  processSample isL tracks lead dt s e = Ok (s', out) -> pos_lt (length tracks) out.
Proof.
  intros isL tracks lead dt s e s' out H. unfold processSample in H.
  destruct (nth_error tracks (pe_track e)) as [codec|] eqn:Hc.
  2:{ injection H as <- <-. constructor. }
  assert (L : (pe_track e < length tracks)%nat) by (apply nth_error_Some; congruence).
  bind_inv_as H s1 Hs1.
  destruct (negb (m_trackProcessors s1)). { injection H as <- <-. constructor. }
  destruct (m_td s1) as [td0|]; [|discriminate].
  destruct (mpegts_convert td0 (pe_rawPTS e)) as [td1 pts].
  destruct (mpegts_convert td1 _) as [td2 dts].
  bind_inv_as H nobs Hnobs. bind_inv_as H ntp Hntp. bind_inv_as H r Hr.
  injection H as <- <-. destruct r; constructor; [exact L|constructor].
Qed.

Lemma pos_lt_app : forall n a b, pos_lt n a -> pos_lt n b -> pos_lt n (a ++ b).
Proof. intros. apply Forall_app. auto. Qed.

Lemma processPES_pos : forall isL tracks lead dt l s s' out,
  processPES isL tracks lead dt s l = Ok (s', out) -> pos_lt (length tracks) out.
Proof.
  induction l as [|e r IH]; intros s s' out H.
  - cbn in H. injection H as <- <-. constructor.
  - cbn [processPES] in H. bind_inv_as H x Hx. destruct x as [s1 a].
    bind_inv_as H y Hy. destruct y as [s2 b]. injection H as <- <-.
    apply pos_lt_app; [exact (processSample_pos _ _ _ _ _ _ _ _ Hx)|exact (IH _ _ _ Hy)].
Qed.

Lemma processSegmentsM_pos : forall isL tracks lead segs s s' out,
  processSegmentsM isL tracks lead s segs = Ok (s', out) -> pos_lt (length tracks) out.
Proof.
  induction segs as [|seg r IH]; intros s s' out H.
  - cbn in H. injection H as <- <-. constructor.
  - cbn [processSegmentsM] in H. bind_inv_as H x Hx. destruct x as [s1 a].
    bind_inv_as H y Hy. destruct y as [s2 b]. injection H as <- <-.
    apply pos_lt_app; [|exact (IH _ _ _ Hy)].
    unfold processSegmentM in Hx. bind_inv_as Hx z Hz. destruct z as [s3 c].
    destruct (negb (m_leadingTrackFound s3)); [discriminate|]. injection Hx as <- <-.
    exact (processPES_pos _ _ _ _ _ _ _ _ Hz).
Qed.

Lemma runStreamMPEGTS_pos : forall isL s st s' out,
  runStreamMPEGTS isL s st = Ok (s', out) -> pos_lt (length (mst_tracks st)) out.
Proof.
  intros isL s st s' out H. unfold runStreamMPEGTS in H.
  destruct (mst_segments st). { injection H as <- <-. constructor. }
  destruct (Nat.eqb (length (mst_tracks st)) 0); [discriminate|].
  destruct (Nat.ltb clientMaxTracksPerStream (length (mst_tracks st))); [discriminate|].
  exact (processSegmentsM_pos _ _ _ _ _ _ _ H).
Qed.

Lemma shiftTrack_pos : forall off n a, pos_lt n a -> pos_lt (off + n) (shiftTrack off a).
Proof.
  intros off n a H. unfold shiftTrack, pos_lt in *. rewrite Forall_map.
  eapply Forall_impl; [|exact H]. cbn. intros x Hx. lia.
Qed.

Lemma pos_lt_le : forall n m a, pos_lt n a -> (n <= m)%nat -> pos_lt m a.
Proof. intros n m a H L. eapply Forall_impl; [|exact H]. cbn. intros x Hx. lia. Qed.

Lemma runRenditionsMPEGTS_pos : forall rs s off out,
  runRenditionsMPEGTS s off rs = Ok out ->
  pos_lt (off + length (flat_map mst_tracks rs)) out.
Proof.
  induction rs as [|st r IH]; intros s off out H.
  - cbn in H. injection H as <-. constructor.
  - cbn [runRenditionsMPEGTS] in H. bind_inv_as H x Hx. destruct x as [s1 a].
    bind_inv_as H b Hb. injection H as <-.
    cbn [flat_map]. rewrite app_length. apply pos_lt_app.
    + apply (pos_lt_le (off + length (mst_tracks st))); [|lia].
      apply shiftTrack_pos. exact (runStreamMPEGTS_pos _ _ _ _ _ Hx).
    + apply IH in Hb. eapply pos_lt_le; [exact Hb|lia].
Qed.

Lemma runClientMPEGTS_pos : forall leading rends out,
  runClientMPEGTS leading rends = Ok out ->
  pos_lt (length (mst_tracks leading ++ flat_map mst_tracks rends)) out.
Proof.
  intros leading rends out H. unfold runClientMPEGTS in H.
  bind_inv_as H x Hx. destruct x as [s1 a]. bind_inv_as H b Hb. injection H as <-.
  rewrite app_length. apply pos_lt_app.
  - eapply pos_lt_le; [exact (runStreamMPEGTS_pos _ _ _ _ _ Hx)|lia].
  - exact (runRenditionsMPEGTS_pos _ _ _ _ Hb).
Qed.

(* "reports exactly the supported tracks": callbacks happen on reported positions only, and
   the reported tracks are the supported PMT entries in PMT order (supportedIndex_* above) *)
Lemma runClientPMT_pos : forall leading rends out,
  runClientPMT leading rends = Ok out ->
  pos_lt (length (reportedTracksPMT leading rends)) out.
Proof.
  intros leading rends out H. unfold runClientPMT in H. apply runClientMPEGTS_pos in H.
  unfold reportedTracksPMT. cbn [readerView mst_tracks] in H.
  assert (E : flat_map mst_tracks (map readerView rends)
              = flat_map (fun st => supportedTracks (pmt_tracks st)) rends).
  { clear H. induction rends as [|r rs IH]; [reflexivity|].
    cbn [map flat_map readerView mst_tracks]. rewrite IH. reflexivity. }
  rewrite <- E. exact H.
Qed.

(* a stream without a supported elementary stream is refused, one with more than ten of
   them too; unsupported entries do not count *)
Lemma runStreamPMT_refused : forall isL s st,
  pmt_segments st <> [] ->
  (supportedTracks (pmt_tracks st) = [] -> runStreamPMT isL s st = Err ErrNoSupportedTracks) /\
  ((clientMaxTracksPerStream < length (supportedTracks (pmt_tracks st)))%nat ->
   runStreamPMT isL s st = Err ErrTooManyTracks).
Proof.
  intros isL s st Hne. unfold runStreamPMT, runStreamMPEGTS. cbn [readerView mst_segments mst_tracks].
  destruct (pmt_segments st) as [|sg r]; [congruence|]. cbn [map]. split.
  - intros ->. reflexivity.
  - intros L. destruct (Nat.eqb (length (supportedTracks (pmt_tracks st))) 0) eqn:E.
    + apply Nat.eqb_eq in E. unfold clientMaxTracksPerStream in L. lia.
    + apply Nat.ltb_lt in L. rewrite L. reflexivity.
Qed.

(* ---------- example: PMT [MPEG-1 audio; H264; MPEG-4 audio; AC-3] ---------- *)
Definition ex_pmt : pmtStream :=
  {| pmt_tracks := [POther; PH264; PMPEG4Audio; POther];
     pmt_segments := [ {| ms_dateTime := Some 1700000000000000000;
                          ms_pes := [ tpe 0 (ex_S - 40) (ex_S - 40) 1;       (* MPEG-1 audio: dropped *)
                                      tpe 1 (ex_S + 6000) ex_S 2;            (* H264: the origin *)
                                      tpe 3 (ex_S + 10) (ex_S + 10) 3;       (* AC-3: dropped *)
                                      tpe 2 (ex_S + 1500) (ex_S + 1500) 4;   (* AAC *)
                                      tpe 1 (ex_S + 3000) (ex_S + 3000) 5 ] |} ] |}.

Definition ex_pmt_res := runStreamPMT true mstate_zero (wrap_pmt ex_pmt).
Definition ex_pmt_out : list (nat * delivery) := match ex_pmt_res with Ok (_, o) => o | _ => [] end.
Definition ex_pmt_state : mstate := match ex_pmt_res with Ok (s, _) => s | _ => mstate_zero end.

Lemma ex_pmt_run : runStreamPMT true mstate_zero (wrap_pmt ex_pmt) = Ok (ex_pmt_state, ex_pmt_out).
Proof. vm_compute. reflexivity. Qed.

Lemma ex_pmt_facts :
  reportedTracksPMT ex_pmt [] = [MH264; MAudio] /\
  firstPH264 (pmt_tracks ex_pmt) = Some 1%nat /\
  mpegtsPickLeadingTrack (supportedTracks (pmt_tracks ex_pmt)) = 0%nat /\
  pes_gaps (mst_tracks (readerView ex_pmt))
           (origin_of (mst_tracks (readerView ex_pmt)) (processed (readerView ex_pmt)))
           (processed (readerView ex_pmt)) /\
  map dkey (proj 0 ex_pmt_out) = [(6000, 0, 2); (3000, 3000, 5)] /\
  map dkey (proj 1 ex_pmt_out) = [(1500, 1500, 4)].
Proof.
  repeat split; try (vm_compute; reflexivity); try (vm_compute; intros; discriminate).
Qed.
