(* C14: the playlist-level statements derived from Proofs/PlaylistMedia.v *)
From Coq Require Import List ZArith Bool String Ascii Lia.
From GoHls Require Import Model.PlaylistBase Model.Playlist Model.PlaylistSpec
  Proofs.PlaylistStr Proofs.PlaylistNum Proofs.PlaylistAttrs Proofs.PlaylistTags Proofs.PlaylistMedia.
Import ListNotations.
Local Open Scope string_scope.
Local Open Scope Z_scope.

Lemma f4_free_image p : f4_free p = true -> f4_image p = p.
Proof.
  unfold f4_free, f4_image. intros H. apply andb_true_iff in H as [H Hsc]. apply andb_true_iff in H as [Hd Hs].
  destruct p as [ver indep start ac td sc pi mseq ds pt mp sk segs parts hint endl]; simpl in *.
  destruct start; [discriminate|].
  assert (E1 : match ds with Some _ => Some mseq | None => None end = ds)
    by (destruct ds; auto; apply Z.eqb_eq in Hd; congruence).
  assert (E2 : option_map f4_server_control sc = sc).
  { destruct sc as [t|]; auto. simpl. unfold f4_server_control. now rewrite Hsc. }
  unfold m_set_servercontrol, m_set_start, m_set_discseq; simpl. now rewrite E1, E2.
Qed.

Section WithOracles.
Variable orc : oracles.
Hypothesis OK : oracle_ok orc.

(* the faithful model: Unmarshal (Marshal p) is the F4 image of p, field by field *)
Theorem media_roundtrip_image p : wf_media p = true ->
  exists p', media_unmarshal orc (media_marshal orc p) = Ok p' /\ media_eqvb (f4_image p) p' = true.
Proof.
  intros H. destruct (media_roundtrip_f4 orc OK p H) as (p' & A & B & _). eauto.
Qed.

(* ... hence the round trip for every valid value the three defects leave alone *)
Theorem media_roundtrip_partial p : wf_media p = true -> f4_free p = true ->
  media_roundtrip_ok orc p = true.
Proof.
  intros H Hf. destruct (media_roundtrip_f4 orc OK p H) as (p' & A & B & _).
  unfold media_roundtrip_ok. rewrite A. now rewrite f4_free_image in B.
Qed.

(* Marshal is a fixpoint on its own output unless EXT-X-SERVER-CONTROL lacks CAN-BLOCK-RELOAD *)
Theorem media_fixpoint_partial p : wf_media p = true ->
  opt_ok sc_canblockreload (m_servercontrol p) = true -> media_fixpoint_ok orc p = true.
Proof.
  intros H Hf. destruct (media_roundtrip_f4 orc OK p H) as (p' & A & _ & C).
  unfold media_fixpoint_ok. rewrite A, (C Hf). apply String.eqb_refl.
Qed.

End WithOracles.
