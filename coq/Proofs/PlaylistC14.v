(* C14: the playlist-level statements derived from Proofs/PlaylistMedia.v *)
From Coq Require Import List ZArith Bool String Ascii Lia.
From GoHls Require Import Model.PlaylistBase Model.Playlist Model.PlaylistSpec
  Proofs.PlaylistStr Proofs.PlaylistNum Proofs.PlaylistAttrs Proofs.PlaylistTags Proofs.PlaylistMedia.
Import ListNotations.
Local Open Scope string_scope.
Local Open Scope Z_scope.

Section WithOracles.
Variable orc : oracles.
Hypothesis OK : oracle_ok orc.

(* Unmarshal (Marshal p) reproduces p field by field *)
Theorem media_roundtrip_eqv p : wf_media p = true ->
  exists p', media_unmarshal orc (media_marshal orc p) = Ok p' /\ media_eqvb p p' = true.
Proof.
  intros H. destruct (media_roundtrip orc OK p H) as (p' & A & B & _). eauto.
Qed.

Theorem media_roundtrip_bool p : wf_media p = true -> media_roundtrip_ok orc p = true.
Proof.
  intros H. destruct (media_roundtrip orc OK p H) as (p' & A & B & _).
  unfold media_roundtrip_ok. now rewrite A.
Qed.

(* Marshal is a fixpoint on its own output *)
Theorem media_fixpoint p : wf_media p = true -> media_fixpoint_ok orc p = true.
Proof.
  intros H. destruct (media_roundtrip orc OK p H) as (p' & A & _ & C).
  unfold media_fixpoint_ok. rewrite A, C. apply String.eqb_refl.
Qed.

End WithOracles.
