(* C16, codec strings: positional numerals (FormatInt, %x, hex.EncodeToString, leadingZeros) -
   the characters they print, their length, no superfluous leading zero, and that the value can
   be read back (hence injectivity); splitting a dot-joined list. *)
From Coq Require Import List ZArith Bool String Ascii Lia.
From GoHls Require Import Model.PlaylistBase Model.PlaylistSpec Model.CodecStr Proofs.PlaylistStr.
Import ListNotations.
Local Open Scope string_scope.
Local Open Scope Z_scope.

(* ---------- a positional numeral in base b, generically ---------- *)
Section Base.
  Variable b : Z.
  Variable dc : Z -> ascii.            (* digit character *)
  Variable dv : ascii -> option Z.     (* its value *)
  Variable P : ascii -> bool.          (* a character class containing the digits *)
  Hypothesis Hb : 2 <= b.
  Hypothesis Hdv : forall d, 0 <= d < b -> dv (dc d) = Some d.
  Hypothesis HP : forall d, 0 <= d < b -> P (dc d) = true.

  Fixpoint fmt_base (fuel : nat) (z : Z) (acc : string) : string :=
    match fuel with
    | O => acc
    | S f =>
        let acc' := String (dc (z mod b)) acc in
        if z <? b then acc' else fmt_base f (z / b) acc'
    end.

  Fixpoint parse_base (acc : Z) (s : string) : option Z :=
    match s with
    | "" => Some acc
    | String c s' => match dv c with
                     | Some d => parse_base (acc * b + d) s'
                     | None => None
                     end
    end.

  Lemma parse_base_app x y : forall acc,
    parse_base acc (x ++ y) = match parse_base acc x with Some v => parse_base v y | None => None end.
  Proof. induction x as [|c x IH]; intros acc; simpl; auto. destruct (dv c); auto. Qed.

  Lemma all_chars_app f x y : all_chars f (x ++ y) = all_chars f x && all_chars f y.
  Proof. induction x as [|c x IH]; simpl; auto. rewrite IH. now rewrite andb_assoc. Qed.

  Lemma dc_zero d : 0 <= d < b -> dc d = dc 0 -> d = 0.
  Proof.
    intros Hd E. pose proof (Hdv d Hd) as A. rewrite E, Hdv in A by lia. congruence.
  Qed.

  Lemma fmt_base_S f z acc :
    fmt_base (S f) z acc =
    if z <? b then String (dc (z mod b)) acc else fmt_base f (z / b) (String (dc (z mod b)) acc).
  Proof. reflexivity. Qed.

  (* the digits printed in front of the accumulator *)
  Lemma fmt_base_spec fuel : forall z acc k,
    0 <= z < b ^ Z.of_nat (S k) -> (k <= fuel)%nat ->
    exists ds, fmt_base (S fuel) z acc = ds ++ acc
      /\ all_chars P ds = true /\ (1 <= slen ds <= S k)%nat
      /\ (forall a, parse_base a ds = Some (a * b ^ Z.of_nat (slen ds) + z))
      /\ (z = 0 -> ds = String (dc 0) "")
      /\ (0 < z -> exists c r, ds = String c r /\ c <> dc 0).
  Proof.
    induction fuel as [|f IH]; intros z acc k Hz Hk.
    - assert (k = 0%nat) by lia. subst k. change (b ^ Z.of_nat 1) with (b ^ 1) in Hz. rewrite Z.pow_1_r in Hz.
      rewrite fmt_base_S. destruct (z <? b) eqn:E; [|apply Z.ltb_ge in E; lia].
      rewrite Z.mod_small by lia. exists (String (dc z) ""). simpl. rewrite HP by lia.
      repeat split; try lia.
      + intros a. rewrite Hdv by lia. f_equal. lia.
      + intros ->. reflexivity.
      + intros Hp. exists (dc z), "". split; [reflexivity|]. intros E'. apply dc_zero in E'; lia.
    - rewrite fmt_base_S. assert (Hd : 0 <= z mod b < b) by (apply Z.mod_pos_bound; lia).
      destruct (z <? b) eqn:E.
      + apply Z.ltb_lt in E. rewrite Z.mod_small by lia. exists (String (dc z) ""). simpl. rewrite HP by lia.
        repeat split; try lia.
        * intros a. rewrite Hdv by lia. f_equal. lia.
        * intros ->. reflexivity.
        * intros Hp. exists (dc z), "". split; [reflexivity|]. intros E'. apply dc_zero in E'; lia.
      + apply Z.ltb_ge in E.
        destruct k as [|k].
        { change (b ^ Z.of_nat 1) with (b ^ 1) in Hz. rewrite Z.pow_1_r in Hz. lia. }
        assert (Hq : 0 <= z / b < b ^ Z.of_nat (S k)).
        { split; [apply Z.div_pos; lia|]. apply Z.div_lt_upper_bound; [lia|].
          rewrite (Nat2Z.inj_succ (S k)), Z.pow_succ_r in Hz by lia. lia. }
        assert (Hq1 : 0 < z / b) by (apply Z.div_str_pos; lia).
        destruct (IH (z / b) (String (dc (z mod b)) acc) k Hq ltac:(lia)) as (ds & E1 & D & L & Pp & _ & Hh).
        exists (ds ++ String (dc (z mod b)) "").
        rewrite E1, app_assoc'. simpl. repeat split.
        * rewrite all_chars_app, D. simpl. now rewrite HP.
        * rewrite slen_app. simpl. lia.
        * rewrite slen_app. simpl. lia.
        * intros a. rewrite parse_base_app, Pp. simpl. rewrite Hdv by lia.
          f_equal. rewrite slen_app. simpl. rewrite Nat2Z.inj_add, Z.pow_add_r by lia.
          change (Z.of_nat 1) with 1. rewrite Z.pow_1_r.
          pose proof (Z.div_mod z b). lia.
        * intros ->. lia.
        * intros _. destruct (Hh Hq1) as (c & r & -> & Hc). exists c, (r ++ String (dc (z mod b)) ""). split; auto.
  Qed.
End Base.

(* ---------- decimal: fmt_int ---------- *)
Lemma fmt_digits_base fuel : forall z acc, fmt_digits fuel z acc = fmt_base 10 digit_char fuel z acc.
Proof. induction fuel as [|f IH]; intros z acc; [reflexivity|]. cbn [fmt_digits]. rewrite fmt_base_S. destruct (z <? 10); [reflexivity|apply IH]. Qed.

Lemma digit_of_char' d : 0 <= d < 10 -> digit_of (digit_char d) = Some d.
Proof.
  intros H. assert (C : d = 0 \/ d = 1 \/ d = 2 \/ d = 3 \/ d = 4 \/ d = 5 \/ d = 6 \/ d = 7 \/ d = 8 \/ d = 9) by lia.
  destruct C as [->|[->|[->|[->|[->|[->|[->|[->|[->| ->]]]]]]]]]; reflexivity.
Qed.

Lemma digit_char_dec d : 0 <= d < 10 -> is_dec_digit (digit_char d) = true.
Proof.
  intros H. assert (C : d = 0 \/ d = 1 \/ d = 2 \/ d = 3 \/ d = 4 \/ d = 5 \/ d = 6 \/ d = 7 \/ d = 8 \/ d = 9) by lia.
  destruct C as [->|[->|[->|[->|[->|[->|[->|[->|[->| ->]]]]]]]]]; reflexivity.
Qed.

Lemma pow_bound b z : 2 <= b -> 0 <= z -> z < b ^ Z.of_nat (S (Z.to_nat (Z.log2 z))).
Proof.
  intros Hb Hz. destruct (Z.eq_dec z 0) as [->|Hn].
  { change (Z.to_nat (Z.log2 0)) with 0%nat. change (Z.of_nat 1) with 1. rewrite Z.pow_1_r. lia. }
  assert (H2 : z < 2 ^ (Z.log2 z + 1)) by (apply Z.log2_spec; lia).
  pose proof (Z.log2_nonneg z).
  rewrite Nat2Z.inj_succ, Z2Nat.id by lia.
  eapply Z.lt_le_trans; [exact H2|]. unfold Z.succ. apply Z.pow_le_mono_l. lia.
Qed.

Definition parse_dec := parse_base 10 digit_of.

(* FormatInt(z, 10) for z >= 0: decimal digits, no superfluous leading zero, reads back as z *)
Lemma fmt_int_spec z : 0 <= z ->
  all_chars is_dec_digit (fmt_int z) = true /\ (1 <= slen (fmt_int z))%nat
  /\ (forall a, parse_dec a (fmt_int z) = Some (a * 10 ^ Z.of_nat (slen (fmt_int z)) + z))
  /\ (z = 0 -> fmt_int z = "0")
  /\ (0 < z -> exists c r, fmt_int z = String c r /\ c <> "0"%char).
Proof.
  intros Hz. unfold fmt_int. destruct (z <? 0) eqn:E; [apply Z.ltb_lt in E; lia|].
  unfold fmt_uint. rewrite fmt_digits_base.
  destruct (fmt_base_spec 10 digit_char digit_of is_dec_digit ltac:(lia) digit_of_char' digit_char_dec
              (Z.to_nat (Z.log2 z)) z "" (Z.to_nat (Z.log2 z)) (conj Hz (pow_bound 10 z ltac:(lia) Hz)) (le_n _))
    as (ds & E1 & D & L & Pp & H0 & H1).
  rewrite E1, app_empty_r. repeat split; auto; lia.
Qed.

(* bounded: at most k+1 digits below 10^(k+1) *)
Lemma fmt_int_len z k : 0 <= z < 10 ^ Z.of_nat (S k) -> (slen (fmt_int z) <= S k)%nat.
Proof.
  intros Hz. unfold fmt_int. destruct (z <? 0) eqn:E; [apply Z.ltb_lt in E; lia|].
  unfold fmt_uint. rewrite fmt_digits_base.
  set (f := Z.to_nat (Z.log2 z)).
  assert (Hm : 0 <= z < 10 ^ Z.of_nat (S (Nat.min k f))).
  { split; [lia|]. destruct (Nat.min_spec k f) as [[_ ->]|[_ ->]]; [lia|]. apply pow_bound; lia. }
  destruct (fmt_base_spec 10 digit_char digit_of is_dec_digit ltac:(lia) digit_of_char' digit_char_dec
              f z "" (Nat.min k f) Hm (Nat.le_min_r _ _)) as (ds & E1 & _ & L & _).
  rewrite E1, app_empty_r. lia.
Qed.

Lemma fmt_int_inj z z' : 0 <= z -> 0 <= z' -> fmt_int z = fmt_int z' -> z = z'.
Proof.
  intros H H' E. destruct (fmt_int_spec z H) as (_ & _ & P & _). destruct (fmt_int_spec z' H') as (_ & _ & P' & _).
  specialize (P 0). specialize (P' 0). rewrite E in P. rewrite P' in P. inversion P. lia.
Qed.

(* ---------- hexadecimal: %x and hex.EncodeToString ---------- *)
Definition hex_val (c : ascii) : option Z :=
  let n := Z.of_nat (nat_of_ascii c) in
  if (48 <=? n) && (n <=? 57) then Some (n - 48)
  else if (97 <=? n) && (n <=? 102) then Some (n - 87) else None.

Ltac cases16 d :=
  let C := fresh "C" in
  assert (C : d = 0 \/ d = 1 \/ d = 2 \/ d = 3 \/ d = 4 \/ d = 5 \/ d = 6 \/ d = 7 \/ d = 8 \/ d = 9
              \/ d = 10 \/ d = 11 \/ d = 12 \/ d = 13 \/ d = 14 \/ d = 15) by lia;
  destruct C as [->|[->|[->|[->|[->|[->|[->|[->|[->|[->|[->|[->|[->|[->|[->| ->]]]]]]]]]]]]]]].

Lemma hex_val_char d : 0 <= d < 16 -> hex_val (hex_char d) = Some d.
Proof. intros H. cases16 d; reflexivity. Qed.

Lemma hex_char_lhex d : 0 <= d < 16 -> is_lhex_digit (hex_char d) = true.
Proof. intros H. cases16 d; reflexivity. Qed.

Lemma fmt_hex_digits_base fuel : forall z acc, fmt_hex_digits fuel z acc = fmt_base 16 hex_char fuel z acc.
Proof. induction fuel as [|f IH]; intros z acc; [reflexivity|]. cbn [fmt_hex_digits]. rewrite fmt_base_S. destruct (z <? 16); [reflexivity|apply IH]. Qed.

Definition parse_hex := parse_base 16 hex_val.

(* Sprintf("%x", z), 0 <= z < 16^(k+1): lower-case hexadecimal digits, at most k+1 of them, no
   superfluous leading zero, reads back as z *)
Lemma fmt_hex_spec z k : 0 <= z < 16 ^ Z.of_nat (S k) ->
  all_chars is_lhex_digit (fmt_hex z) = true /\ (1 <= slen (fmt_hex z) <= S k)%nat
  /\ (forall a, parse_hex a (fmt_hex z) = Some (a * 16 ^ Z.of_nat (slen (fmt_hex z)) + z))
  /\ (z = 0 -> fmt_hex z = "0")
  /\ (0 < z -> exists c r, fmt_hex z = String c r /\ c <> "0"%char).
Proof.
  intros Hz. unfold fmt_hex. rewrite fmt_hex_digits_base.
  set (f := Z.to_nat (Z.log2 z)).
  assert (Hm : 0 <= z < 16 ^ Z.of_nat (S (Nat.min k f))).
  { split; [lia|]. destruct (Nat.min_spec k f) as [[_ ->]|[_ ->]]; [lia|]. apply pow_bound; lia. }
  destruct (fmt_base_spec 16 hex_char hex_val is_lhex_digit ltac:(lia) hex_val_char hex_char_lhex
              f z "" (Nat.min k f) Hm (Nat.le_min_r _ _)) as (ds & E1 & D & L & Pp & H0 & H1).
  rewrite E1, app_empty_r. repeat split; auto; lia.
Qed.

Lemma fmt_hex_inj z z' k : 0 <= z < 16 ^ Z.of_nat (S k) -> 0 <= z' < 16 ^ Z.of_nat (S k) ->
  fmt_hex z = fmt_hex z' -> z = z'.
Proof.
  intros H H' E. destruct (fmt_hex_spec z k H) as (_ & _ & P & _). destruct (fmt_hex_spec z' k H') as (_ & _ & P' & _).
  specialize (P 0). specialize (P' 0). rewrite E in P. rewrite P' in P. inversion P. lia.
Qed.

Lemma hexnum_fmt_hex z k : 0 <= z < 16 ^ Z.of_nat (S k) ->
  hexnum_str (fmt_hex z) = true /\ (slen (fmt_hex z) <= S k)%nat.
Proof.
  intros Hz. destruct (fmt_hex_spec z k Hz) as (D & L & _ & H0 & H1). split; [|lia].
  unfold hexnum_str, lhex_str. rewrite D.
  destruct (Z.eq_dec z 0) as [->|Hn]; [rewrite (H0 eq_refl); reflexivity|].
  destruct (H1 ltac:(lia)) as (c & r & -> & Hc). cbn [String.eqb negb andb].
  destruct (Ascii.eqb_spec c "0"); [congruence|reflexivity].
Qed.

(* hex.EncodeToString of one byte *)
Lemma hex_byte_spec x : 0 <= x < 256 ->
  exists c1 c2, hex_byte x = String c1 (String c2 "") /\ is_lhex_digit c1 = true /\ is_lhex_digit c2 = true
                /\ hex_val c1 = Some (x / 16) /\ hex_val c2 = Some (x mod 16).
Proof.
  intros H. unfold hex_byte. exists (hex_char (x / 16)), (hex_char (x mod 16)).
  assert (0 <= x / 16 < 16) by (split; [apply Z.div_pos; lia|apply Z.div_lt_upper_bound; lia]).
  assert (0 <= x mod 16 < 16) by (apply Z.mod_pos_bound; lia).
  repeat split; auto using hex_char_lhex, hex_val_char.
Qed.

Lemma hex_byte_inj x y : 0 <= x < 256 -> 0 <= y < 256 -> hex_byte x = hex_byte y -> x = y.
Proof.
  intros Hx Hy E. destruct (hex_byte_spec x Hx) as (a & b & Ex & _ & _ & Va & Vb).
  destruct (hex_byte_spec y Hy) as (a' & b' & Ey & _ & _ & Va' & Vb').
  rewrite Ex, Ey in E. inversion E; subst. rewrite Va' in Va. rewrite Vb' in Vb. inversion Va. inversion Vb.
  rewrite (Z.div_mod x 16), (Z.div_mod y 16) by lia. lia.
Qed.

(* ---------- leadingZeros(v, 2) ---------- *)
Lemma dec_digit_val c : is_dec_digit c = true -> exists d, digit_of c = Some d.
Proof. unfold is_dec_digit, digit_of. intros ->. eauto. Qed.

Lemma leading_zeros_2 v : 0 <= v ->
  dec2_str (leading_zeros v 2) = true /\ parse_dec 0 (leading_zeros v 2) = Some v
  /\ (v < 100 -> slen (leading_zeros v 2) = 2%nat).
Proof.
  intros Hv. destruct (fmt_int_spec v Hv) as (D & L & P & H0 & H1).
  unfold leading_zeros. destruct (Nat.leb 2 (slen (fmt_int v))) eqn:E.
  - apply Nat.leb_le in E. repeat split.
    + unfold dec2_str, dec_str. rewrite D. apply Nat.leb_le in E. rewrite E.
      destruct (Z.eq_dec v 0) as [->|Hn]; [change (fmt_int 0) with "0" in E; discriminate|].
      destruct (H1 ltac:(lia)) as (c & r & -> & Hc). cbn [String.eqb negb andb].
      destruct (Ascii.eqb_spec c "0"); [congruence|]. now rewrite orb_true_r.
    + rewrite P. reflexivity.
    + intros Hlt. pose proof (fmt_int_len v 1 ltac:(change (10 ^ Z.of_nat 2) with 100; lia)). lia.
  - apply Nat.leb_gt in E. assert (S1 : slen (fmt_int v) = 1%nat) by lia. rewrite S1.
    change (zeros (2 - 1)) with "0". cbn [append].
    destruct (fmt_int v) as [|c [|c2 r]] eqn:F; simpl in S1; try lia.
    simpl in D. repeat split.
    + unfold dec2_str, dec_str. cbn. now rewrite D.
    + unfold parse_dec in *. specialize (P 0). cbn [parse_base] in *.
      change (digit_of "0") with (Some 0). cbv beta iota.
      destruct (digit_of c) as [d|]; [|discriminate]. inversion P; f_equal; simpl in *; lia.
Qed.

(* ---------- dot-separated components ---------- *)
Lemma all_chars_no_byte f c s : all_chars f s = true -> f c = false -> no_byte c s = true.
Proof.
  intros H Hc. induction s as [|a s IH]; simpl in *; auto.
  apply andb_true_iff in H as [Ha Hs]. destruct (Ascii.eqb_spec a c); [subst; congruence|]. simpl. auto.
Qed.

Lemma no_byte_app' c a b : no_byte c (a ++ b) = no_byte c a && no_byte c b.
Proof. induction a as [|x a IH]; simpl; auto. rewrite IH. now rewrite andb_assoc. Qed.

Lemma split_byte_app_sep c l r : no_byte c l = true -> split_byte c (l ++ String c r) = l :: split_byte c r.
Proof.
  induction l as [|x l IH]; simpl; intros H.
  - now rewrite Ascii.eqb_refl.
  - apply andb_true_iff in H as [Hx Hl]. apply negb_true_iff in Hx. rewrite Hx, IH by exact Hl. reflexivity.
Qed.

Lemma split_byte_nosep c l : no_byte c l = true -> split_byte c l = [l].
Proof.
  induction l as [|x l IH]; simpl; intros H; [reflexivity|].
  apply andb_true_iff in H as [Hx Hl]. apply negb_true_iff in Hx. rewrite Hx, IH by exact Hl. reflexivity.
Qed.

Definition no_dot (s : string) : bool := no_byte "." s.

Lemma split_join l : l <> [] -> forallb no_dot l = true -> split_byte "." (join "." l) = l.
Proof.
  induction l as [|x l IH]; [congruence|]. intros _ H. simpl in H. apply andb_true_iff in H as [Hx Hl].
  destruct l as [|y l]; [now apply split_byte_nosep|].
  change (join "." (x :: y :: l)) with (x ++ String "." (join "." (y :: l))).
  rewrite split_byte_app_sep by exact Hx. f_equal. apply IH; [discriminate|exact Hl].
Qed.

Lemma join_inj l l' : l <> [] -> l' <> [] -> forallb no_dot l = true -> forallb no_dot l' = true ->
  join "." l = join "." l' -> l = l'.
Proof. intros N N' H H' E. rewrite <- (split_join l N H), <- (split_join l' N' H'). now rewrite E. Qed.

(* a one-character suffix / prefix *)
Lemma app_last_inj a a' c c' : a ++ String c "" = a' ++ String c' "" -> a = a' /\ c = c'.
Proof.
  revert a'; induction a as [|x a IH]; intros [|x' a'] E; simpl in E.
  - inversion E; auto.
  - inversion E. destruct a'; discriminate.
  - inversion E. destruct a; discriminate.
  - inversion E; subst. destruct (IH _ H1) as [-> ->]. auto.
Qed.
